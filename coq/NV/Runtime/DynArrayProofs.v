(* Proofs about NV.Runtime.DynArray: the concrete machine (capacity, storage block, checked accesses) refines the
   typed-sequence machine [lstep]; the representation invariant is preserved; no access leaves the block. *)
From Coq Require Import NArith ZArith List Bool Lia.
From NV Require Import Base.Bytes Runtime.DynArray.
Import ListNotations.

Lemma ekind_eqb_eq a b : ekind_eqb a b = true <-> a = b.
Proof. split; [destruct a, b; simpl; intros H; try reflexivity; discriminate H | intros ->; destruct b; reflexivity]. Qed.
Lemma ekind_eqb_neq a b : ekind_eqb a b = false <-> a <> b.
Proof.
  split; intros H.
  - intros E. apply ekind_eqb_eq in E. congruence.
  - destruct (ekind_eqb a b) eqn:E; auto. apply ekind_eqb_eq in E. contradiction.
Qed.
Lemma ek_not_struct k : ek k <> EStruct.
Proof. destruct k; discriminate. Qed.

(* ---------------------------------------------------------------- list facts *)
Lemma upd_len l : forall i v l', upd l i v = Some l' -> length l' = length l.
Proof.
  induction l as [|x r IH]; intros [|j] v l' H; simpl in *; try discriminate.
  - inversion H; reflexivity.
  - destruct (upd r j v) eqn:E; [|discriminate]. inversion H; subst. simpl. f_equal. eapply IH; eauto.
Qed.
Lemma upd_ex l : forall i v, (i < length l)%nat -> exists l', upd l i v = Some l'.
Proof.
  induction l as [|x r IH]; intros [|j] v H; simpl in *; try lia.
  - eexists; reflexivity.
  - destruct (IH j v ltac:(lia)) as [r' E]. rewrite E. eexists; reflexivity.
Qed.
Lemma upd_in l : forall i v l', upd l i v = Some l' -> (i < length l)%nat.
Proof.
  induction l as [|x r IH]; intros [|j] v l' H; simpl in *; try discriminate; try lia.
  destruct (upd r j v) eqn:E; [|discriminate]. apply IH in E. lia.
Qed.
Lemma upd_firstn_le l : forall i v l' n, upd l i v = Some l' -> (n <= i)%nat -> firstn n l' = firstn n l.
Proof.
  induction l as [|x r IH]; intros [|j] v l' n H Hn; simpl in *; try discriminate.
  - assert (n = 0)%nat by lia. subst. reflexivity.
  - destruct (upd r j v) eqn:E; [|discriminate]. inversion H; subst.
    destruct n; simpl; [reflexivity|]. f_equal. eapply IH; eauto. lia.
Qed.
Lemma upd_firstn_S l : forall i v l', upd l i v = Some l' -> firstn (S i) l' = firstn i l ++ [v].
Proof.
  induction l as [|x r IH]; intros [|j] v l' H; simpl in *; try discriminate.
  - inversion H; reflexivity.
  - destruct (upd r j v) eqn:E; [|discriminate]. inversion H; subst.
    change (firstn (S (S j)) (x :: l)) with (x :: firstn (S j) l). rewrite (IH _ _ _ E). reflexivity.
Qed.
Lemma upd_firstn_gt l : forall i v l' n, upd l i v = Some l' -> (i < n)%nat -> firstn n l' = lupd (firstn n l) i v.
Proof.
  induction l as [|x r IH]; intros [|j] v l' n H Hn; simpl in *; try discriminate.
  - inversion H; subst. destruct n; [lia|]. reflexivity.
  - destruct (upd r j v) eqn:E; [|discriminate]. inversion H; subst.
    destruct n; [lia|]. simpl. f_equal. eapply IH; eauto. lia.
Qed.
Lemma nth_firstn_some (l : list cell) : forall i n c, nth_error l i = Some c -> (i < n)%nat -> nth i (firstn n l) Uninit = c.
Proof.
  induction l as [|x r IH]; intros [|j] n c H Hn; simpl in *; try discriminate.
  - inversion H; subst. destruct n; [lia|]. reflexivity.
  - destruct n; [lia|]. simpl. apply IH; auto. lia.
Qed.
Lemma firstn_S_nth (l : list cell) : forall n c, nth_error l n = Some c -> firstn (S n) l = firstn n l ++ [c].
Proof.
  induction l as [|x r IH]; intros [|j] c H; simpl in *; try discriminate.
  - inversion H; reflexivity.
  - f_equal. apply IH; auto.
Qed.
Lemma nth_error_ex (l : list cell) i : (i < length l)%nat -> exists c, nth_error l i = Some c.
Proof. intros H. destruct (nth_error l i) eqn:E; eauto. apply nth_error_None in E. lia. Qed.
Lemma nth_error_firstn_in (l : list cell) i n c : nth_error l i = Some c -> (i < n)%nat -> In c (firstn n l).
Proof.
  revert i n; induction l as [|x r IH]; intros [|j] n H Hn; simpl in *; try discriminate.
  - inversion H; subst. destruct n; [lia|]. left; reflexivity.
  - destruct n; [lia|]. right. eapply IH; eauto. lia.
Qed.
Lemma Forall_lupd (Q : cell -> Prop) l : forall i v, Forall Q l -> Q v -> Forall Q (lupd l i v).
Proof.
  induction l as [|x r IH]; intros [|j] v H Hv; simpl; auto; inversion H; subst; constructor; auto.
Qed.
Lemma lupd_len l : forall i v, length (lupd l i v) = length l.
Proof. induction l as [|x r IH]; intros [|j] v; simpl; auto. Qed.
Lemma firstn_app_le {A} (a b : list A) n : (n <= length a)%nat -> firstn n (a ++ b) = firstn n a.
Proof. intros H. rewrite firstn_app. replace (n - length a)%nat with 0%nat by lia. simpl. apply app_nil_r. Qed.
Lemma repeat_len {A} (x : A) n : length (repeat x n) = n.
Proof. apply repeat_length. Qed.

Ltac sd := cbn [l_kind l_esize l_items d_kind d_esize d_len d_cap d_data set_len set_data with_items abs] in *.

(* ---------------------------------------------------------------- invariant *)
Definition good_params (P : params) : Prop :=
  (1 <= p_init P)%nat /\ (2 <= p_growth P)%nat /\
  (Z.of_nat (p_init P) <= p_limit P)%Z /\ (p_limit P * Z.of_N (p_esize_mod P) <= 4611686018427387904)%Z /\
  (1 < p_esize_mod P)%N /\ (forall k, (p_esize P k < p_esize_mod P)%N).

Definition blob_ok (es : N) (c : cell) : Prop := exists bs, c = Blob bs /\ N.of_nat (length bs) = es.
Definition cell_ok (k : ekind) (es : N) (c : cell) : Prop := c <> Uninit /\ (k = EStruct -> blob_ok es c).

Definition inv (P : params) (d : dyn) : Prop :=
  (d_len d <= d_cap d)%nat /\ (1 <= d_cap d)%nat /\ (d_esize d < p_esize_mod P)%N /\
  (d_kind d <> EStruct -> d_esize d = p_esize P (d_kind d)) /\
  (d_kind d = EStruct -> (0 < d_len d)%nat -> (0 < d_esize d)%N) /\
  match d_data d with
  | Some els => length els = d_cap d /\ Forall (cell_ok (d_kind d) (d_esize d)) (firstn (d_len d) els)
  | None => d_len d = 0%nat /\ d_kind d = EStruct /\ d_esize d = 0%N
  end.

Lemma inv_new P k : good_params P -> inv P (dyn_new P k).
Proof.
  intros (Hi & Hg & Hl & Hlm & Hm & He). unfold dyn_new, inv.
  destruct k; simpl; repeat split; auto; try lia; try congruence; try apply He; try apply repeat_length; try constructor.
Qed.

Lemma abs_len P d : inv P d -> length (l_items (abs d)) = d_len d.
Proof.
  intros (H1 & _ & _ & _ & _ & H). unfold abs; simpl. destruct (d_data d) as [els|].
  - destruct H as [H _]. rewrite firstn_length. lia.
  - destruct H as [H _]. rewrite H. reflexivity.
Qed.

(* ---------------------------------------------------------------- push *)
Lemma push_cell_ok P d c els :
  good_params P -> inv P d -> d_data d = Some els -> cell_ok (d_kind d) (d_esize d) c ->
  (d_kind d = EStruct -> (0 < d_esize d)%N) ->
  exists d', push_cell P d c = ROk d' OUnit /\
             abs d' = with_items (abs d) (l_items (abs d) ++ [c]) /\ inv P d'.
Proof.
  intros (Hi & Hg & Hl & Hlm & Hm & He) (H1 & H2 & H3 & H4 & H5 & H6) Hd Hc Hpos. rewrite Hd in H6. destruct H6 as [H6 H7].
  unfold push_cell.
  destruct (Nat.leb (d_cap d) (d_len d)) eqn:Eg.
  - (* grow *)
    apply Nat.leb_le in Eg. assert (Hlen : d_len d = d_cap d) by lia.
    unfold grow; sd. rewrite Hd. unfold realloc_cells.
    assert (Hbig : (d_cap d < d_cap d * p_growth P)%nat) by nia.
    rewrite firstn_all2 by lia.
    destruct (upd_ex (els ++ repeat Uninit (d_cap d * p_growth P - length els)) (d_len d) c) as [l' El'].
    { rewrite app_length, repeat_length. lia. }
    cbn [wr]. rewrite El'. eexists; split; [reflexivity|]. split.
    + unfold abs, with_items; sd. try rewrite Hd. f_equal.
      rewrite (upd_firstn_S _ _ _ _ El'). rewrite firstn_app_le by lia. reflexivity.
    + unfold inv; sd. repeat split; auto; try lia.
      * apply upd_len in El'. rewrite El', app_length, repeat_length. lia.
      * rewrite (upd_firstn_S _ _ _ _ El'). rewrite firstn_app_le by lia.
        apply Forall_app; split; auto.
  - apply Nat.leb_gt in Eg. rewrite Hd. cbn [wr].
    destruct (upd_ex els (d_len d) c) as [l' El']; [lia|]. rewrite El'.
    eexists; split; [reflexivity|]. split.
    + unfold abs, with_items; sd. try rewrite Hd. f_equal. apply (upd_firstn_S _ _ _ _ El').
    + unfold inv; sd. repeat split; auto; try lia.
      * apply upd_len in El'. lia.
      * rewrite (upd_firstn_S _ _ _ _ El'). apply Forall_app; split; auto.
Qed.

Lemma val_cell_ok k es n : k <> EStruct -> cell_ok k es (Val n).
Proof. intros H. split; [discriminate|]. intros E; contradiction. Qed.

(* data is present whenever the kind is not a struct *)
Lemma inv_data_some P d : inv P d -> d_kind d <> EStruct -> exists els, d_data d = Some els.
Proof.
  intros (_ & _ & _ & _ & _ & H) Hk. destruct (d_data d); eauto. destruct H as (_ & E & _). contradiction.
Qed.

(* ---------------------------------------------------------------- the simulation, one operation *)
Definition sim_goal (P : params) (d : dyn) (o : op) : Prop :=
  match lstep P (abs d) o with
  | LOk l' x => exists d', step P d o = ROk d' x /\ abs d' = l' /\ inv P d'
  | LAbort => step P d o = RAbort
  | LExcluded => True
  end.

Lemma in_range_nat i n : in_range i n = true -> (Z.to_nat i < n)%nat /\ (0 <= i)%Z.
Proof. unfold in_range. rewrite andb_true_iff, Z.leb_le, Z.ltb_lt. lia. Qed.

Lemma sim_push P d k v : good_params P -> inv P d -> sim_goal P d (Push k v).
Proof.
  intros GP I. unfold sim_goal. cbn [lstep step abs l_kind].
  destruct (ekind_eqb (d_kind d) (ek k)) eqn:E; cbn [negb]; [|reflexivity].
  apply ekind_eqb_eq in E.
  assert (Hk : d_kind d <> EStruct) by (rewrite E; apply ek_not_struct).
  destruct (inv_data_some _ _ I Hk) as [els Hd].
  destruct (push_cell_ok P d (Val (norm k v)) els GP I Hd (val_cell_ok _ _ _ Hk) ltac:(intros; contradiction)) as (d' & S1 & S2 & S3).
  exists d'. split; [exact S1|]. split; [exact S2|exact S3].
Qed.

Lemma items_nil P d : inv P d -> d_len d = 0%nat -> l_items (abs d) = [].
Proof. intros I E. pose proof (abs_len _ _ I) as HL. rewrite E in HL. destruct (l_items (abs d)); [reflexivity|discriminate]. Qed.

Lemma pop_facts P d n : inv P d -> d_len d = S n ->
  exists els c, d_data d = Some els /\ nth_error els n = Some c /\ l_items (abs d) = firstn n els ++ [c] /\
                inv P (set_len d n) /\ abs (set_len d n) = with_items (abs d) (firstn n els).
Proof.
  intros (H1 & H2 & H3 & H4 & H5 & H6) En.
  destruct (d_data d) as [els|] eqn:Hd; [|destruct H6 as (H6 & _); lia].
  destruct H6 as [H6 H7].
  destruct (nth_error_ex els n ltac:(lia)) as [c Ec].
  exists els, c. split; [reflexivity|]. split; [exact Ec|].
  assert (Ei : l_items (abs d) = firstn n els ++ [c]).
  { unfold abs; sd. rewrite Hd, En. apply firstn_S_nth; exact Ec. }
  split; [exact Ei|]. split.
  - unfold inv, set_len; sd. rewrite Hd. rewrite En in *.
    split; [lia|]. split; [lia|]. split; [exact H3|]. split; [exact H4|].
    split; [intros Hs Hn; apply H5; auto; lia|]. split; [exact H6|].
    rewrite (firstn_S_nth _ _ _ Ec) in H7. apply Forall_app in H7. tauto.
  - unfold abs, with_items, set_len; sd. rewrite Hd. reflexivity.
Qed.

Lemma sim_pop P d k : good_params P -> inv P d -> sim_goal P d (Pop k).
Proof.
  intros GP I. unfold sim_goal. cbn [lstep step]. change (l_kind (abs d)) with (d_kind d).
  destruct (ekind_eqb (d_kind d) (ek k)) eqn:E; cbn [negb]; [|reflexivity].
  destruct (d_len d) as [|n] eqn:En.
  - rewrite (items_nil _ _ I En). exists d. auto.
  - destruct (pop_facts _ _ _ I En) as (els & c & Hd & Ec & Ei & Iv & Ea).
    rewrite Ei. destruct (firstn n els ++ [c]) eqn:Eapp; [destruct (firstn n els); discriminate|].
    rewrite <- Eapp. rewrite removelast_last, last_last. rewrite Hd. cbn [rd]. rewrite Ec.
    exists (set_len d n). split; [reflexivity|]. split; [exact Ea|exact Iv].
Qed.

Lemma sim_pops P d size : good_params P -> inv P d -> sim_goal P d (PopStruct size).
Proof.
  intros GP I. unfold sim_goal. cbn [lstep step]. change (l_kind (abs d)) with (d_kind d). change (l_esize (abs d)) with (d_esize d).
  destruct (ekind_eqb (d_kind d) EStruct) eqn:E; cbn [negb]; [|reflexivity].
  destruct (N.eqb (d_esize d) size) eqn:E2; cbn [negb]; [|reflexivity].
  destruct (d_len d) as [|n] eqn:En.
  - rewrite (items_nil _ _ I En). exists d. auto.
  - destruct (pop_facts _ _ _ I En) as (els & c & Hd & Ec & Ei & Iv & Ea).
    rewrite Ei. destruct (firstn n els ++ [c]) eqn:Eapp; [destruct (firstn n els); discriminate|].
    rewrite <- Eapp. rewrite removelast_last, last_last. rewrite Hd. cbn [rd]. rewrite Ec.
    exists (set_len d n). split; [reflexivity|]. split; [exact Ea|exact Iv].
Qed.

Lemma sim_get P d k i : good_params P -> inv P d -> sim_goal P d (Get k i).
Proof.
  intros GP I. unfold sim_goal. cbn [lstep step]. change (l_kind (abs d)) with (d_kind d). rewrite (abs_len _ _ I).
  destruct (ekind_eqb (d_kind d) (ek k)) eqn:E; cbn [negb]; [|reflexivity].
  destruct (in_range i (d_len d)) eqn:Er; cbn [negb]; [|reflexivity].
  apply in_range_nat in Er. destruct Er as [Er _].
  apply ekind_eqb_eq in E.
  assert (Hk : d_kind d <> EStruct) by (rewrite E; apply ek_not_struct).
  destruct (inv_data_some _ _ I Hk) as [els Hd]. rewrite Hd. cbn [rd].
  pose proof I as (H1 & H2 & H3 & H4 & H5 & H6). rewrite Hd in H6. destruct H6 as [H6 H7].
  destruct (nth_error_ex els (Z.to_nat i) ltac:(lia)) as [c Ec]. rewrite Ec.
  exists d. split; [|split; [reflexivity|exact I]].
  unfold abs; sd. rewrite Hd. rewrite (nth_firstn_some _ _ _ _ Ec Er). reflexivity.
Qed.

Lemma sim_gets P d i : good_params P -> inv P d -> sim_goal P d (GetStruct i).
Proof.
  intros GP I. unfold sim_goal. cbn [lstep step]. change (l_kind (abs d)) with (d_kind d). rewrite (abs_len _ _ I).
  destruct (ekind_eqb (d_kind d) EStruct) eqn:E; cbn [negb]; [|reflexivity].
  destruct (in_range i (d_len d)) eqn:Er; cbn [negb]; [|destruct (p_struct_oob_aborts P); [reflexivity|exists d; auto]].
  apply in_range_nat in Er. destruct Er as [Er _].
  pose proof I as (H1 & H2 & H3 & H4 & H5 & H6).
  destruct (d_data d) as [els|] eqn:Hd; [|destruct H6 as (H6 & _); lia].
  destruct H6 as [H6 H7]. cbn [rd].
  destruct (nth_error_ex els (Z.to_nat i) ltac:(lia)) as [c Ec]. rewrite Ec.
  exists d. split; [|split; [reflexivity|exact I]].
  unfold abs; sd. rewrite Hd. rewrite (nth_firstn_some _ _ _ _ Ec Er). reflexivity.
Qed.

Lemma sim_set_cell P d i c els :
  inv P d -> d_data d = Some els -> (Z.to_nat i < d_len d)%nat -> cell_ok (d_kind d) (d_esize d) c ->
  exists els', wr (d_data d) (Z.to_nat i) c = Some els' /\
    abs (set_data d els') = with_items (abs d) (lupd (l_items (abs d)) (Z.to_nat i) c) /\ inv P (set_data d els').
Proof.
  intros (H1 & H2 & H3 & H4 & H5 & H6) Hd Hi Hc. rewrite Hd in *. destruct H6 as [H6 H7]. cbn [wr].
  destruct (upd_ex els (Z.to_nat i) c ltac:(lia)) as [els' E]. exists els'. split; auto. split.
  - unfold abs, with_items, set_data; cbn. rewrite Hd. f_equal. apply (upd_firstn_gt _ _ _ _ _ E Hi).
  - unfold inv, set_data; cbn. repeat split; auto.
    + apply upd_len in E. lia.
    + rewrite (upd_firstn_gt _ _ _ _ _ E Hi). apply Forall_lupd; auto.
Qed.

Lemma sim_set P d k i v : good_params P -> inv P d -> sim_goal P d (Set_ k i v).
Proof.
  intros GP I. unfold sim_goal. cbn [lstep step]. change (l_kind (abs d)) with (d_kind d). rewrite (abs_len _ _ I).
  destruct (ekind_eqb (d_kind d) (ek k)) eqn:E; cbn [negb]; [|reflexivity].
  destruct (in_range i (d_len d)) eqn:Er; cbn [negb]; [|reflexivity].
  apply in_range_nat in Er. destruct Er as [Er _].
  apply ekind_eqb_eq in E.
  assert (Hk : d_kind d <> EStruct) by (rewrite E; apply ek_not_struct).
  destruct (inv_data_some _ _ I Hk) as [els Hd].
  destruct (sim_set_cell P d i (Val (norm k v)) els I Hd Er (val_cell_ok _ _ _ Hk)) as (els' & W & A & Iv).
  rewrite W. exists (set_data d els'). split; [reflexivity|]. split; [exact A|exact Iv].
Qed.

Lemma sim_sets P d i bs : good_params P -> inv P d -> sim_goal P d (SetStruct i bs).
Proof.
  intros GP I. unfold sim_goal. cbn [lstep step]. change (l_kind (abs d)) with (d_kind d).
  change (l_esize (abs d)) with (d_esize d). rewrite (abs_len _ _ I).
  destruct (ekind_eqb (d_kind d) EStruct) eqn:E; cbn [negb]; [|reflexivity].
  destruct (N.eqb (d_esize d) (N.of_nat (length bs))) eqn:E2; cbn [negb]; [|reflexivity].
  destruct (in_range i (d_len d)) eqn:Er; cbn [negb]; [|destruct (p_struct_oob_aborts P); [reflexivity|exists d; auto]].
  apply in_range_nat in Er. destruct Er as [Er _].
  apply N.eqb_eq in E2.
  pose proof I as (H1 & H2 & H3 & H4 & H5 & H6).
  destruct (d_data d) as [els|] eqn:Hd; [|destruct H6 as (H6 & _); lia].
  assert (Hc : cell_ok (d_kind d) (d_esize d) (Blob bs)).
  { split; [discriminate|]. intros _. exists bs. auto. }
  destruct (sim_set_cell P d i (Blob bs) els I Hd Er Hc) as (els' & W & A & Iv).
  rewrite Hd in W. rewrite W. exists (set_data d els'). split; [reflexivity|]. split; [exact A|exact Iv].
Qed.

Lemma skipn_firstn_sub {A} (l : list A) m n : skipn m (firstn n l) = firstn (n - m) (skipn m l).
Proof. apply skipn_firstn_comm. Qed.

Lemma sim_remove P d i : good_params P -> inv P d -> sim_goal P d (RemoveAt i).
Proof.
  intros GP I. unfold sim_goal. cbn [lstep step].
  pose proof (abs_len _ _ I) as HL. rewrite HL.
  destruct (in_range i (d_len d)) eqn:Er; cbn [negb]; [|reflexivity].
  apply in_range_nat in Er. destruct Er as [Er _].
  set (k := Z.to_nat i) in *.
  destruct I as (H1 & H2 & H3 & H4 & H5 & H6).
  destruct (d_data d) as [els|] eqn:Hd; [|destruct H6 as (H6 & _); lia].
  destruct H6 as [H6 H7].
  destruct (Nat.ltb k (d_len d - 1)) eqn:Elt.
  - apply Nat.ltb_lt in Elt. unfold move_down.
    assert (Hle : (k + 1 + (d_len d - k - 1) <= length els)%nat) by lia.
    apply Nat.leb_le in Hle. rewrite Hle.
    eexists; split; [reflexivity|].
    assert (Habs : firstn (d_len d - 1)
                     (firstn k els ++ firstn (d_len d - k - 1) (skipn (k + 1) els) ++ skipn (k + (d_len d - k - 1)) els)
                   = firstn k (firstn (d_len d) els) ++ skipn (S k) (firstn (d_len d) els)).
    { rewrite app_assoc. rewrite firstn_app_le.
      2:{ rewrite app_length, !firstn_length, skipn_length. lia. }
      rewrite firstn_all2.
      2:{ rewrite app_length, !firstn_length, skipn_length. lia. }
      rewrite firstn_firstn. replace (Nat.min k (d_len d)) with k by lia.
      rewrite skipn_firstn_sub. replace (k + 1)%nat with (S k) by lia.
      replace (d_len d - S k)%nat with (d_len d - k - 1)%nat by lia. reflexivity. }
    split.
    + unfold abs, with_items; sd. rewrite Hd. f_equal. exact Habs.
    + unfold inv; sd.
      split; [lia|]. split; [lia|]. split; [exact H3|]. split; [exact H4|].
      split; [intros Hs Hn; apply H5; auto; lia|]. split.
      * rewrite !app_length, !firstn_length, !skipn_length. lia.
      * rewrite Habs. apply Forall_app; split.
        -- apply Forall_forall. intros x Hx. rewrite Forall_forall in H7. apply H7.
           rewrite <- (firstn_skipn k (firstn (d_len d) els)). apply in_or_app; left; exact Hx.
        -- apply Forall_forall. intros x Hx. rewrite Forall_forall in H7. apply H7.
           rewrite <- (firstn_skipn (S k) (firstn (d_len d) els)). apply in_or_app; right; exact Hx.
  - apply Nat.ltb_ge in Elt. assert (Ek : S k = d_len d) by lia.
    eexists; split; [reflexivity|]. split.
    + unfold abs, with_items, set_len; sd. rewrite Hd. f_equal.
      rewrite firstn_firstn. replace (Nat.min k (d_len d)) with k by lia.
      rewrite skipn_all2 by (rewrite firstn_length; lia). rewrite app_nil_r. f_equal. lia.
    + unfold inv, set_len; sd. rewrite Hd.
      split; [lia|]. split; [lia|]. split; [exact H3|]. split; [exact H4|].
      split; [intros Hs Hn; apply H5; auto; lia|]. split; [exact H6|].
      * apply Forall_forall. intros x Hx. rewrite Forall_forall in H7. apply H7.
        replace (d_len d) with ((d_len d - 1) + 1)%nat by lia.
        rewrite <- (firstn_skipn (d_len d - 1) (firstn (d_len d - 1 + 1) els)).
        apply in_or_app; left. rewrite firstn_firstn. replace (Nat.min (d_len d - 1) (d_len d - 1 + 1)) with (d_len d - 1)%nat by lia.
        exact Hx.
Qed.

Lemma sim_clear P d : good_params P -> inv P d -> sim_goal P d Clear.
Proof.
  intros GP (H1 & H2 & H3 & H4 & H5 & H6). unfold sim_goal. cbn [lstep step].
  exists (set_len d 0). split; [reflexivity|]. split.
  - unfold abs, with_items, set_len; cbn. reflexivity.
  - unfold inv, set_len; cbn. repeat split; auto; try lia.
    destruct (d_data d); [destruct H6; split; auto; constructor | destruct H6 as (_ & A & B); auto].
Qed.

Lemma sim_length P d : good_params P -> inv P d -> sim_goal P d Length.
Proof.
  intros GP I. unfold sim_goal. cbn [lstep step]. rewrite (abs_len _ _ I). exists d. auto.
Qed.

Lemma sim_pushnull P d : good_params P -> inv P d -> sim_goal P d PushStrCopyNull.
Proof.
  intros GP I. unfold sim_goal. cbn [lstep step abs l_kind].
  destruct (ekind_eqb (d_kind d) EString); cbn [negb]; [|reflexivity]. exists d. auto.
Qed.

Lemma sim_reserve P d n : good_params P -> inv P d -> sim_goal P d (Reserve n).
Proof.
  intros GP I. unfold sim_goal. cbn [lstep step]. unfold reserve.
  destruct (p_limit P <? n)%Z eqn:El; [trivial|]. apply Z.ltb_ge in El.
  destruct (n <=? Z.of_nat (d_cap d))%Z eqn:Ec.
  - exists d. auto.
  - apply Z.leb_gt in Ec.
    destruct GP as (Hi & Hg & Hl & Hlm & Hm & He). destruct I as (H1 & H2 & H3 & H4 & H5 & H6).
    assert (Hov : (9223372036854775807 <? n * Z.of_N (d_esize d))%Z = false).
    { apply Z.ltb_ge. assert (Z.of_N (d_esize d) < Z.of_N (p_esize_mod P))%Z by lia. nia. }
    rewrite Hov. eexists; split; [reflexivity|].
    assert (Hn : (d_cap d < Z.to_nat n)%nat) by lia.
    split.
    + unfold abs; sd. f_equal. unfold realloc_cells. destruct (d_data d) as [els|].
      * destruct H6 as [H6 _]. rewrite (@firstn_all2 _ (Z.to_nat n) els) by lia. rewrite firstn_app_le by lia. reflexivity.
      * destruct H6 as (H6 & _). rewrite H6. reflexivity.
    + unfold inv; sd.
      split; [lia|]. split; [lia|]. split; [exact H3|]. split; [exact H4|]. split; [exact H5|]. split.
      * unfold realloc_cells. destruct (d_data d) as [els|].
        -- destruct H6 as [H6 _]. rewrite (@firstn_all2 _ (Z.to_nat n) els) by lia. rewrite app_length, repeat_length. lia.
        -- apply repeat_length.
      * unfold realloc_cells. destruct (d_data d) as [els|].
        -- destruct H6 as [H6 H7]. rewrite (@firstn_all2 _ (Z.to_nat n) els) by lia. rewrite firstn_app_le by lia. exact H7.
        -- destruct H6 as (H6 & _). rewrite H6. constructor.
Qed.

(* ---------------------------------------------------------------- push_struct *)
Lemma with_items_eta l : with_items l (l_items l) = l.
Proof. destruct l; reflexivity. Qed.

Lemma push_struct_ok P d bs :
  good_params P -> inv P d -> d_kind d = EStruct ->
  (0 < N.of_nat (length bs) < p_esize_mod P)%N ->
  (d_esize d = N.of_nat (length bs) \/ (d_esize d = 0%N /\ d_len d = 0%nat)) ->
  exists d', push_struct P d bs = ROk d' OUnit /\ inv P d' /\ d_kind d' = EStruct /\
             d_esize d' = N.of_nat (length bs) /\ l_items (abs d') = l_items (abs d) ++ [Blob bs].
Proof.
  intros GP I Hk Hsz Hes. unfold push_struct.
  assert (Ek : ekind_eqb (d_kind d) EStruct = true) by (apply ekind_eqb_eq; exact Hk).
  rewrite Ek. cbn [negb]. rewrite andb_false_r. rewrite Ek. cbn [negb].
  assert (Hcell : forall k, cell_ok k (N.of_nat (length bs)) (Blob bs)).
  { intros k. split; [discriminate|]. intros _. exists bs. auto. }
  destruct (N.eqb (d_esize d) 0) eqn:E0.
  - apply N.eqb_eq in E0.
    assert (Hl : d_len d = 0%nat) by (destruct Hes as [Hes|[_ Hes]]; [lia|exact Hes]).
    cbn [d_kind d_esize d_len d_cap d_data]. rewrite N.mod_small by lia. rewrite N.eqb_refl. cbn [negb].
    set (s2 := {| d_kind := d_kind d; d_esize := N.of_nat (length bs); d_len := d_len d; d_cap := d_cap d;
                  d_data := Some (repeat Uninit (d_cap d)) |}).
    pose proof I as (H1 & H2 & H3 & H4 & H5 & H6).
    assert (I2 : inv P s2).
    { unfold inv, s2; sd. split; [lia|]. split; [lia|]. split; [lia|]. split; [intros C; contradiction|].
      split; [intros; lia|]. split; [apply repeat_length|]. rewrite Hl. constructor. }
    destruct (push_cell_ok P s2 (Blob bs) (repeat Uninit (d_cap d)) GP I2 eq_refl (Hcell _) ltac:(intros; unfold s2; sd; lia))
      as (d' & S1 & S2 & S3).
    exists d'. split; [exact S1|]. split; [exact S3|].
    change (d_kind d') with (l_kind (abs d')). change (d_esize d') with (l_esize (abs d')).
    rewrite S2. rewrite (items_nil _ _ I Hl). rewrite (items_nil _ _ I2 Hl).
    unfold with_items, s2. cbn [l_kind l_esize l_items abs d_kind d_esize]. auto.
  - apply N.eqb_neq in E0.
    assert (Hes' : d_esize d = N.of_nat (length bs)) by (destruct Hes as [Hes|[Hes _]]; [exact Hes|contradiction]).
    rewrite Hes', N.eqb_refl. cbn [negb].
    pose proof I as (H1 & H2 & H3 & H4 & H5 & H6).
    destruct (d_data d) as [els|] eqn:Hd; [|destruct H6 as (_ & _ & H6); contradiction].
    assert (Hc : cell_ok (d_kind d) (d_esize d) (Blob bs)) by (rewrite Hes'; apply Hcell).
    destruct (push_cell_ok P d (Blob bs) els GP I Hd Hc ltac:(intros; lia)) as (d' & S1 & S2 & S3).
    exists d'. split; [exact S1|]. split; [exact S3|].
    change (d_kind d') with (l_kind (abs d')). change (d_esize d') with (l_esize (abs d')).
    rewrite S2. unfold with_items. cbn [l_kind l_esize l_items]. change (l_kind (abs d)) with (d_kind d).
    change (l_esize (abs d)) with (d_esize d). auto.
Qed.

Lemma struct_size_ok_spec P bs : struct_size_ok P bs = true -> (0 < N.of_nat (length bs) < p_esize_mod P)%N.
Proof. unfold struct_size_ok. rewrite andb_true_iff, Nat.ltb_lt, N.ltb_lt. lia. Qed.

Lemma lst_eq a b : l_kind a = l_kind b -> l_esize a = l_esize b -> l_items a = l_items b -> a = b.
Proof. destruct a, b; simpl; intros; subst; reflexivity. Qed.

Lemma sim_pushs P d bs : good_params P -> inv P d -> sim_goal P d (PushStruct bs).
Proof.
  intros GP I. unfold sim_goal. cbn [lstep step].
  destruct (struct_size_ok P bs) eqn:Es; cbn [negb]; [|trivial].
  apply struct_size_ok_spec in Es.
  change (l_kind (abs d)) with (d_kind d). change (l_esize (abs d)) with (d_esize d).
  pose proof I as (H1 & H2 & H3 & H4 & H5 & H6).
  destruct (ekind_eqb (d_kind d) EStruct) eqn:Ek.
  - (* already a struct array *)
    apply ekind_eqb_eq in Ek.
    replace (match l_items (abs d) with [] => negb true | _ :: _ => false end) with false by (destruct (l_items (abs d)); reflexivity).
    cbn [negb andb].
    destruct (N.eqb (d_esize d) 0) eqn:E0; cbn [negb andb].
    + apply N.eqb_eq in E0.
      assert (Hl : d_len d = 0%nat).
      { destruct (d_len d) eqn:En; auto. specialize (H5 Ek ltac:(lia)). lia. }
      destruct (push_struct_ok P d bs GP I Ek Es (or_intror (conj E0 Hl))) as (d' & S1 & S2 & S3 & S4 & S5).
      exists d'. split; [exact S1|]. split; [|exact S2].
      apply lst_eq; cbn [l_kind l_esize l_items]; auto.
    + destruct (N.eqb (d_esize d) (N.of_nat (length bs))) eqn:E1; cbn [negb].
      * apply N.eqb_eq in E1.
        destruct (push_struct_ok P d bs GP I Ek Es (or_introl E1)) as (d' & S1 & S2 & S3 & S4 & S5).
        exists d'. split; [exact S1|]. split; [|exact S2].
        apply lst_eq; cbn [l_kind l_esize l_items]; auto.
      * unfold push_struct. apply ekind_eqb_eq in Ek. rewrite Ek. cbn [negb]. rewrite andb_false_r. rewrite Ek. cbn [negb].
        rewrite E0. rewrite E1. reflexivity.
  - (* another element type: promoted only when empty *)
    destruct (d_len d) as [|n] eqn:En.
    + rewrite (items_nil _ _ I En). cbn [negb andb]. rewrite N.eqb_refl. cbn [negb andb].
      set (s1 := {| d_kind := EStruct; d_esize := 0; d_len := 0; d_cap := d_cap d; d_data := None |}).
      assert (I1 : inv P s1).
      { unfold inv, s1; sd. split; [lia|]. split; [lia|]. split; [lia|]. split; [intros C; contradiction|].
        split; [intros; lia|]. auto. }
      assert (Eq : push_struct P d bs = push_struct P s1 bs).
      { unfold push_struct. rewrite Ek, En.
        change (ekind_eqb (d_kind s1) EStruct) with true. change (d_len s1) with 0%nat.
        cbn [Nat.eqb negb andb]. reflexivity. }
      rewrite Eq.
      destruct (push_struct_ok P s1 bs GP I1 eq_refl Es (or_intror (conj eq_refl eq_refl))) as (d' & S1 & S2 & S3 & S4 & S5).
      exists d'. split; [exact S1|]. split; [|exact S2].
      apply lst_eq; cbn [l_kind l_esize l_items]; auto.
    + assert (Hne : l_items (abs d) <> []).
      { intros C. pose proof (abs_len _ _ I) as HL. rewrite C, En in HL. discriminate. }
      destruct (l_items (abs d)); [contradiction|]. cbn [negb andb].
      unfold push_struct. rewrite Ek, En. cbn [Nat.eqb negb andb]. rewrite Ek. reflexivity.
Qed.

(* ---------------------------------------------------------------- clone *)
Lemma copy_cells_spec : forall n dst src, (n <= length dst)%nat -> (n <= length src)%nat ->
  exists r, copy_cells dst src n = Some r /\ length r = length dst /\ firstn n r = firstn n src.
Proof.
  induction n as [|n IH]; intros dst src Hd Hs.
  - exists dst. simpl. auto.
  - destruct dst as [|x dr]; [simpl in Hd; lia|]. destruct src as [|c sr]; [simpl in Hs; lia|].
    destruct (IH dr sr ltac:(simpl in Hd; lia) ltac:(simpl in Hs; lia)) as (r & E & L & F).
    cbn [copy_cells]. rewrite E. exists (c :: r). split; [reflexivity|]. split; [simpl; lia|]. simpl. f_equal. exact F.
Qed.

Lemma reserve_cap P s n s' o : reserve P s n = ROk s' o -> (n <= Z.of_nat (d_cap s'))%Z.
Proof.
  unfold reserve. destruct (n <=? Z.of_nat (d_cap s))%Z eqn:E.
  - intros H; inversion H; subst. apply Z.leb_le in E. exact E.
  - destruct (9223372036854775807 <? n * Z.of_N (d_esize s))%Z; [discriminate|].
    destruct (p_limit P <? n)%Z; [discriminate|]. intros H; inversion H; subst. cbn [d_cap].
    apply Z.leb_gt in E. lia.
Qed.

(* the copy part of clone, for any freshly made destination with the source's kind and element size *)
Lemma clone_copy P d n0 : good_params P -> inv P d -> inv P n0 ->
  d_kind n0 = d_kind d -> d_esize n0 = d_esize d -> d_len n0 = 0%nat ->
  (exists dst0, d_data n0 = Some dst0) -> (exists src, d_data d = Some src) ->
  (Z.of_nat (d_len d) <= p_limit P)%Z ->
  exists d', match reserve P n0 (Z.of_nat (d_len d)) with
             | ROk n1 _ =>
                 match d_data n1, d_data d with
                 | Some dst, Some src =>
                     if negb (N.eqb (d_esize n1) (d_esize d)) && negb (Nat.eqb (d_len d) 0) then RCrash
                     else match copy_cells dst src (d_len d) with
                          | Some els => ROk {| d_kind := d_kind n1; d_esize := d_esize n1; d_len := d_len d; d_cap := d_cap n1;
                                               d_data := Some els |} OUnit
                          | None => RCrash
                          end
                 | _, _ => RCrash
                 end
             | r => r
             end = ROk d' OUnit /\ abs d' = abs d /\ inv P d'.
Proof.
  intros GP I I0 K0 E0 L0 [dst0 Hd0] [src Hsrc] El.
  pose proof (sim_reserve P n0 (Z.of_nat (d_len d)) GP I0) as SR.
  unfold sim_goal in SR. cbn [lstep step] in SR.
  assert (El' : (p_limit P <? Z.of_nat (d_len d))%Z = false) by (apply Z.ltb_ge; exact El).
  rewrite El' in SR. destruct SR as (n1 & R1 & A1 & I1). rewrite R1.
  assert (K1 : d_kind n1 = d_kind d) by (change (d_kind n1) with (l_kind (abs n1)); rewrite A1; exact K0).
  assert (E1 : d_esize n1 = d_esize d) by (change (d_esize n1) with (l_esize (abs n1)); rewrite A1; exact E0).
  assert (L1 : d_len n1 = 0%nat).
  { rewrite <- (abs_len _ _ I1). rewrite A1. rewrite (abs_len _ _ I0). exact L0. }
  pose proof (reserve_cap _ _ _ _ _ R1) as C1.
  assert (Hdst : exists dst, d_data n1 = Some dst).
  { unfold reserve in R1. destruct (Z.of_nat (d_len d) <=? Z.of_nat (d_cap n0))%Z.
    - inversion R1; subst. eauto.
    - destruct (9223372036854775807 <? Z.of_nat (d_len d) * Z.of_N (d_esize n0))%Z; [discriminate|].
      destruct (p_limit P <? Z.of_nat (d_len d))%Z; [discriminate|]. inversion R1; subst. cbn [d_data]. eauto. }
  destruct Hdst as [dst Hdst]. rewrite Hdst, Hsrc. rewrite E1, N.eqb_refl. cbn [negb andb].
  pose proof I1 as (G1 & G2 & G3 & G4 & G5 & G6). rewrite Hdst in G6. destruct G6 as [G6 _].
  pose proof I as (H1 & H2 & H3 & H4 & H5 & H6). rewrite Hsrc in H6. destruct H6 as [H6 H7].
  destruct (copy_cells_spec (d_len d) dst src ltac:(lia) ltac:(lia)) as (r & Er & Lr & Fr).
  rewrite Er. eexists. split; [reflexivity|]. split.
  - apply lst_eq; unfold abs; cbn [l_kind l_esize l_items d_kind d_esize d_len d_data]; auto.
    rewrite Hsrc. exact Fr.
  - unfold inv; cbn [d_kind d_esize d_len d_cap d_data]. rewrite K1.
    split; [lia|]. split; [lia|]. split; [exact H3|]. split; [exact H4|]. split; [exact H5|].
    split; [lia|]. rewrite Fr. exact H7.
Qed.

Lemma sim_clone P d : good_params P -> inv P d -> sim_goal P d Clone.
Proof.
  intros GP I. unfold sim_goal. cbn [lstep step]. change (l_kind (abs d)) with (d_kind d). rewrite (abs_len _ _ I).
  destruct (p_limit P <? Z.of_nat (d_len d))%Z eqn:El; [trivial|].
  apply Z.ltb_ge in El.
  destruct (ekind_eqb (d_kind d) EStruct) eqn:Ek.
  - (* struct array *)
    apply ekind_eqb_eq in Ek. unfold clone. rewrite (proj2 (ekind_eqb_eq _ _) Ek). cbn [andb].
    pose proof I as (H1 & H2 & H3 & H4 & H5 & H6).
    destruct (d_len d) as [|n] eqn:En.
    + (* empty source: the fresh array *)
      cbn [Nat.eqb orb]. rewrite (items_nil _ _ I En). rewrite Ek.
      exists (dyn_new P EStruct). split; [reflexivity|]. split; [reflexivity|apply inv_new; exact GP].
    + destruct (d_data d) as [src|] eqn:Hsrc; [|destruct H6 as (H6 & _); discriminate].
      cbn [Nat.eqb orb].
      assert (Hne : l_items (abs d) <> []).
      { intros C. pose proof (abs_len _ _ I) as HL. rewrite C, En in HL. discriminate. }
      destruct (l_items (abs d)) eqn:Ei; [contradiction|].
      set (n0 := {| d_kind := EStruct; d_esize := d_esize d; d_len := 0; d_cap := p_init P; d_data := Some (repeat Uninit (p_init P)) |}).
      destruct GP as (Gi & Gg & Gl & Glm & Gm & Ge).
      assert (I0 : inv P n0).
      { unfold inv, n0; cbn [d_kind d_esize d_len d_cap d_data]. split; [lia|]. split; [lia|]. split; [exact H3|].
        split; [intros C; contradiction|]. split; [intros; lia|]. split; [apply repeat_length|constructor]. }
      assert (GP : good_params P) by (repeat split; auto; lia).
      destruct (clone_copy P d n0 GP I I0 (eq_sym Ek) eq_refl eq_refl ltac:(eexists; reflexivity) ltac:(eexists; exact Hsrc)
                  ltac:(rewrite En in *; exact El)) as (d' & C1 & C2 & C3).
      rewrite Hsrc in C1. rewrite En in *. exists d'. split; [exact C1|]. split; [|exact C3].
      exact C2.
  - apply ekind_eqb_neq in Ek. unfold clone. rewrite (proj2 (ekind_eqb_neq _ _) Ek). cbn [andb].
    destruct (inv_data_some _ _ I Ek) as [src Hsrc].
    pose proof I as (H1 & H2 & H3 & H4 & H5 & H6).
    assert (D0 : exists dst0, d_data (dyn_new P (d_kind d)) = Some dst0).
    { unfold dyn_new. destruct (d_kind d); try (eexists; reflexivity). contradiction. }
    destruct (clone_copy P d (dyn_new P (d_kind d)) GP I (inv_new _ _ GP)
                ltac:(unfold dyn_new; destruct (d_kind d); reflexivity)
                ltac:(rewrite (H4 Ek); unfold dyn_new; destruct (d_kind d); try reflexivity; contradiction)
                ltac:(unfold dyn_new; destruct (d_kind d); reflexivity) D0 ltac:(eexists; exact Hsrc) El) as (d' & C1 & C2 & C3).
    exists d'. split; [exact C1|]. split; [exact C2|exact C3].
Qed.

(* ---------------------------------------------------------------- slice (the emitted nl_array_slice) *)
Lemma skipn_nth_cons (l : list cell) : forall i c, nth_error l i = Some c -> skipn i l = c :: skipn (S i) l.
Proof.
  induction l as [|x r IH]; intros [|j] c H; simpl in *; try discriminate.
  - inversion H; reflexivity.
  - apply IH; auto.
Qed.
Lemma nth_error_firstn_lt (l : list cell) : forall i n, (i < n)%nat -> nth_error (firstn n l) i = nth_error l i.
Proof.
  induction l as [|x r IH]; intros [|j] [|n] H; simpl; auto; try lia. apply IH. lia.
Qed.

Lemma slice_loop_scalar P s : good_params P -> inv P s -> d_kind s <> EStruct -> d_kind s <> EPointer ->
  forall m i o, inv P o -> d_kind o = d_kind s -> (i + m <= d_len s)%nat ->
  exists o', slice_loop P s o i m = ROk o' OUnit /\ inv P o' /\
     abs o' = with_items (abs o) (l_items (abs o) ++ firstn m (skipn i (l_items (abs s)))).
Proof.
  intros GP I Hs Hp. induction m as [|m IH]; intros i o Io Ko Hb.
  - exists o. cbn [slice_loop firstn]. rewrite app_nil_r, with_items_eta. auto.
  - cbn [slice_loop].
    destruct (inv_data_some _ _ I Hs) as [els Hd].
    pose proof I as (H1 & H2 & H3 & H4 & H5 & H6). rewrite Hd in H6. destruct H6 as [H6 H7].
    destruct (nth_error_ex els i ltac:(lia)) as [c Ec].
    assert (S1 : slice_one P s o i = push_cell P o c).
    { unfold slice_one. rewrite Ko, Hd. cbn [rd]. rewrite Ec. destruct (d_kind s); try contradiction; reflexivity. }
    rewrite S1.
    assert (Hko : d_kind o <> EStruct) by (rewrite Ko; exact Hs).
    destruct (inv_data_some _ _ Io Hko) as [oels Hod].
    assert (Hc : cell_ok (d_kind o) (d_esize o) c).
    { split; [|intros C; contradiction].
      rewrite Forall_forall in H7. apply (H7 c). eapply nth_error_firstn_in; eauto. lia. }
    destruct (push_cell_ok P o c oels GP Io Hod Hc ltac:(intros; contradiction)) as (o1 & P1 & A1 & I1).
    rewrite P1.
    assert (K1 : d_kind o1 = d_kind s).
    { change (d_kind o1) with (l_kind (abs o1)). rewrite A1. exact Ko. }
    destruct (IH (S i) o1 I1 K1 ltac:(lia)) as (o' & R & I' & A').
    exists o'. split; [exact R|]. split; [exact I'|].
    rewrite A', A1. unfold with_items; cbn [l_kind l_esize l_items]. f_equal.
    assert (En : nth_error (l_items (abs s)) i = Some c).
    { unfold abs; cbn [l_items]. rewrite Hd. rewrite nth_error_firstn_lt by lia. exact Ec. }
    rewrite (skipn_nth_cons _ _ _ En). cbn [firstn]. rewrite <- app_assoc. reflexivity.
Qed.

Lemma slice_loop_struct P s : good_params P -> inv P s -> d_kind s = EStruct ->
  forall m i o, inv P o -> d_kind o = EStruct ->
    (d_esize o = d_esize s \/ (d_esize o = 0%N /\ d_len o = 0%nat)) -> (i + m <= d_len s)%nat ->
  exists o', slice_loop P s o i m = ROk o' OUnit /\ inv P o' /\ d_kind o' = EStruct /\
     l_items (abs o') = l_items (abs o) ++ firstn m (skipn i (l_items (abs s))) /\
     (m = 0%nat -> o' = o) /\ ((0 < m)%nat -> d_esize o' = d_esize s).
Proof.
  intros GP I Hs. induction m as [|m IH]; intros i o Io Ko Eo Hb.
  - exists o. cbn [slice_loop firstn]. rewrite app_nil_r.
    split; [reflexivity|]. split; [exact Io|]. split; [exact Ko|]. split; [reflexivity|]. split; [auto|intros; lia].
  - cbn [slice_loop].
    pose proof I as (H1 & H2 & H3 & H4 & H5 & H6).
    destruct (d_data s) as [els|] eqn:Hd; [|destruct H6 as (H6 & _); lia].
    destruct H6 as [H6 H7].
    destruct (nth_error_ex els i ltac:(lia)) as [c Ec].
    assert (Hin : In c (firstn (d_len s) els)) by (eapply nth_error_firstn_in; eauto; lia).
    rewrite Forall_forall in H7. destruct (H7 c Hin) as [_ Hb2]. destruct (Hb2 Hs) as (bs & -> & Hsz).
    assert (Hpos : (0 < d_esize s)%N) by (apply H5; auto; lia).
    assert (S1 : slice_one P s o i = push_struct P o bs).
    { unfold slice_one. rewrite Hs, Hd. cbn [rd]. rewrite Ec. reflexivity. }
    rewrite S1.
    destruct (push_struct_ok P o bs GP Io Ko ltac:(lia) ltac:(rewrite Hsz; exact Eo)) as (o1 & P1 & I1 & K1 & E1 & A1).
    rewrite P1.
    destruct (IH (S i) o1 I1 K1 ltac:(left; lia) ltac:(lia)) as (o' & R & I' & K' & A' & Z' & Es').
    exists o'. split; [exact R|]. split; [exact I'|]. split; [exact K'|]. split; [|split].
    + rewrite A', A1.
      assert (En : nth_error (l_items (abs s)) i = Some (Blob bs)).
      { unfold abs; cbn [l_items]. rewrite Hd. rewrite nth_error_firstn_lt by lia. exact Ec. }
      rewrite (skipn_nth_cons _ _ _ En). cbn [firstn]. rewrite <- app_assoc. reflexivity.
    + intros C; discriminate.
    + intros _. destruct m as [|m'].
      * rewrite (Z' eq_refl). lia.
      * apply Es'. lia.
Qed.

Lemma firstn_skipn_len (l : list cell) i m : (i + m <= length l)%nat -> length (firstn m (skipn i l)) = m.
Proof. intros H. rewrite firstn_length, skipn_length. lia. Qed.

Lemma sim_slice P d a b : good_params P -> inv P d -> sim_goal P d (Slice a b).
Proof.
  intros GP I. unfold sim_goal. cbn [lstep step]. unfold slice.
  rewrite (abs_len _ _ I). change (l_kind (abs d)) with (d_kind d). change (l_esize (abs d)) with (d_esize d).
  set (a1 := if (a <? 0)%Z then 0%Z else a).
  set (b1 := if (b <? 0)%Z then 0%Z else b).
  set (n := Z.of_nat (d_len d)).
  set (a2 := if (n <? a1)%Z then n else a1).
  set (e := if (n <? a2 + b1)%Z then n else (a2 + b1)%Z).
  assert (Ha1 : (0 <= a1)%Z) by (unfold a1; destruct (a <? 0)%Z eqn:E; [lia|apply Z.ltb_ge in E; lia]).
  assert (Hb1 : (0 <= b1)%Z) by (unfold b1; destruct (b <? 0)%Z eqn:E; [lia|apply Z.ltb_ge in E; lia]).
  assert (Ha2 : (0 <= a2 <= n)%Z) by (unfold a2; destruct (n <? a1)%Z eqn:E; [unfold n; lia|apply Z.ltb_ge in E; lia]).
  assert (He : (a2 <= e <= n)%Z) by (unfold e; destruct (n <? a2 + b1)%Z eqn:E; [lia|apply Z.ltb_ge in E; lia]).
  set (i0 := Z.to_nat a2). set (m := Z.to_nat (e - a2)).
  (* the clamped length is the count the specification takes *)
  assert (Hm : Z.to_nat (if (n - a2 <? b1)%Z then (n - a2)%Z else b1) = m).
  { unfold m, e. destruct (n - a2 <? b1)%Z eqn:A; destruct (n <? a2 + b1)%Z eqn:B;
      try apply Z.ltb_lt in A; try apply Z.ltb_ge in A; try apply Z.ltb_lt in B; try apply Z.ltb_ge in B; lia. }
  rewrite Hm. clear Hm.
  assert (Hb : (i0 + m <= d_len d)%nat) by (unfold i0, m, n in *; lia).
  pose proof (abs_len _ _ I) as HL.
  assert (Hlen : length (firstn m (skipn i0 (l_items (abs d)))) = m) by (apply firstn_skipn_len; lia).
  assert (Hscalar : d_kind d <> EStruct -> d_kind d <> EPointer ->
            exists o', slice_loop P d (dyn_new P (d_kind d)) i0 m = ROk o' OUnit /\
                       abs o' = {| l_kind := d_kind d; l_esize := p_esize P (d_kind d);
                                   l_items := firstn m (skipn i0 (l_items (abs d))) |} /\ inv P o').
  { intros N1 N2.
    destruct (slice_loop_scalar P d GP I N1 N2 m i0 (dyn_new P (d_kind d)) (inv_new _ _ GP)
               ltac:(unfold dyn_new; destruct (d_kind d); reflexivity) Hb) as (o' & R & I' & A').
    exists o'. split; [exact R|]. split; [|exact I'].
    rewrite A'. unfold with_items, abs, dyn_new.
    destruct (d_kind d); try contradiction; reflexivity. }
  destruct (d_kind d) eqn:K;
    try (destruct (Hscalar ltac:(discriminate) ltac:(discriminate)) as (o' & R & A' & I');
         exists o'; split; [exact R|]; split; [exact A'|exact I']).
  - (* struct *)
    destruct (slice_loop_struct P d GP I K m i0 (dyn_new P EStruct) (inv_new _ _ GP) eq_refl
                ltac:(right; split; reflexivity) Hb) as (o' & R & I' & K' & A' & Z' & Es').
    destruct (firstn m (skipn i0 (l_items (abs d)))) as [|x xs] eqn:Ei.
    + simpl in Hlen. rewrite (Z' (eq_sym Hlen)) in R. exists (dyn_new P EStruct). split; [exact R|].
      split; [reflexivity|apply inv_new; exact GP].
    + exists o'. split; [exact R|]. split; [|exact I'].
      apply lst_eq; cbn [l_kind l_esize l_items]; auto.
      apply Es'. simpl in Hlen. lia.
  - (* pointer: default: assert(false) as soon as the loop body runs *)
    destruct (firstn m (skipn i0 (l_items (abs d)))) as [|x xs] eqn:Ei.
    + simpl in Hlen. rewrite <- Hlen. cbn [slice_loop]. exists (dyn_new P EPointer). split; [reflexivity|].
      split; [reflexivity|apply inv_new; exact GP].
    + simpl in Hlen. rewrite <- Hlen. cbn [slice_loop]. unfold slice_one. rewrite K. reflexivity.
Qed.

(* ---------------------------------------------------------------- operations whose value operand is an element of the same array *)
Lemma struct_elem P d i : inv P d -> d_kind d = EStruct -> (Z.to_nat i < d_len d)%nat ->
  exists els bs, d_data d = Some els /\ nth_error els (Z.to_nat i) = Some (Blob bs) /\ N.of_nat (length bs) = d_esize d /\
                 (0 < d_esize d)%N /\ nth (Z.to_nat i) (l_items (abs d)) Uninit = Blob bs /\ cell_ok (d_kind d) (d_esize d) (Blob bs).
Proof.
  intros I Hk Hi. pose proof I as (H1 & H2 & H3 & H4 & H5 & H6).
  destruct (d_data d) as [els|] eqn:Hd; [|destruct H6 as (H6 & _); lia].
  destruct H6 as [H6 H7].
  destruct (nth_error_ex els (Z.to_nat i) ltac:(lia)) as [c Ec].
  assert (Hin : In c (firstn (d_len d) els)) by (eapply nth_error_firstn_in; eauto).
  rewrite Forall_forall in H7. pose proof (H7 c Hin) as Hc. destruct Hc as [Hn Hb]. destruct (Hb Hk) as (bs & -> & Hsz).
  exists els, bs. split; [reflexivity|]. split; [exact Ec|]. split; [exact Hsz|]. split; [apply H5; auto; lia|]. split.
  - unfold abs; cbn [l_items]. rewrite Hd. apply nth_firstn_some; auto.
  - apply (H7 _ Hin).
Qed.

Lemma sim_pushse P d i : good_params P -> inv P d -> sim_goal P d (PushStructElem i).
Proof.
  intros GP I. unfold sim_goal. cbn [lstep step]. change (l_kind (abs d)) with (d_kind d). rewrite (abs_len _ _ I).
  destruct (p_push_self_safe P) eqn:Sf; cbn [negb]; [|trivial].
  destruct (ekind_eqb (d_kind d) EStruct) eqn:Ek; cbn [negb]; [|reflexivity].
  destruct (in_range i (d_len d)) eqn:Er; cbn [negb]; [|reflexivity].
  apply in_range_nat in Er. destruct Er as [Er _]. apply ekind_eqb_eq in Ek.
  destruct (struct_elem P d i I Ek Er) as (els & bs & Hd & Ec & Hsz & Hpos & Hn & Hc).
  rewrite Hd. cbn [rd]. rewrite Ec. rewrite andb_false_r.
  pose proof I as (_ & _ & H3 & _).
  destruct (push_struct_ok P d bs GP I Ek ltac:(rewrite Hsz; lia) (or_introl (eq_sym Hsz))) as (d' & S1 & S2 & S3 & S4 & S5).
  exists d'. split; [exact S1|]. split; [|exact S2].
  apply lst_eq; cbn [l_kind l_esize l_items with_items]; auto.
  - change (l_kind (abs d')) with (d_kind d'). rewrite S3. symmetry. exact Ek.
  - change (l_esize (abs d')) with (d_esize d'). rewrite S4. exact Hsz.
  - rewrite S5, Hn. reflexivity.
Qed.

Lemma sim_setse P d i j : good_params P -> inv P d -> sim_goal P d (SetStructElem i j).
Proof.
  intros GP I. unfold sim_goal. cbn [lstep step]. change (l_kind (abs d)) with (d_kind d). rewrite (abs_len _ _ I).
  destruct (ekind_eqb (d_kind d) EStruct) eqn:Ek; cbn [negb]; [|reflexivity].
  destruct (in_range j (d_len d)) eqn:Ej; cbn [negb]; [|reflexivity].
  destruct (in_range i (d_len d)) eqn:Ei; cbn [negb]; [|destruct (p_struct_oob_aborts P); [reflexivity|exists d; auto]].
  apply in_range_nat in Ej. destruct Ej as [Ej _]. apply in_range_nat in Ei. destruct Ei as [Ei _]. apply ekind_eqb_eq in Ek.
  destruct (struct_elem P d j I Ek Ej) as (els & bs & Hd & Ec & Hsz & Hpos & Hn & Hc).
  rewrite Hd. cbn [rd]. rewrite Ec.
  destruct (sim_set_cell P d i (Blob bs) els I Hd Ei Hc) as (els' & W & A & Iv).
  rewrite Hd in W. rewrite W. exists (set_data d els'). split; [reflexivity|]. split; [|exact Iv].
  rewrite A, Hn. reflexivity.
Qed.

(* ---------------------------------------------------------------- the theorems *)
Theorem step_refines P d o : good_params P -> inv P d -> sim_goal P d o.
Proof.
  intros GP I. destruct o.
  - apply sim_push; auto.
  - apply sim_pop; auto.
  - apply sim_get; auto.
  - apply sim_set; auto.
  - apply sim_pushnull; auto.
  - apply sim_remove; auto.
  - apply sim_clear; auto.
  - apply sim_reserve; auto.
  - apply sim_length; auto.
  - apply sim_clone; auto.
  - apply sim_slice; auto.
  - apply sim_pushs; auto.
  - apply sim_gets; auto.
  - apply sim_sets; auto.
  - apply sim_pops; auto.
  - apply sim_pushse; auto.
  - apply sim_setse; auto.
Qed.

(* whole histories: whatever the typed-sequence machine does (outputs, final sequence, the point where an assert
   stops the program), the array implementation does, as long as the history stays in the domain of the specification *)
Theorem run_refines P : good_params P -> forall ops d, inv P d ->
  match lrun P (abs d) ops with
  | (outs, LFin l') => exists d', run P d ops = (outs, Fin d') /\ abs d' = l' /\ inv P d'
  | (outs, LAborted) => run P d ops = (outs, Aborted)
  | (_, LExcl) => True
  end.
Proof.
  intros GP. induction ops as [|o r IH]; intros d I.
  - cbn [lrun run]. exists d. auto.
  - cbn [lrun run]. pose proof (step_refines P d o GP I) as S. unfold sim_goal in S.
    destruct (lstep P (abs d) o) as [l' x| |].
    + destruct S as (d' & S1 & S2 & S3). rewrite S1. specialize (IH d' S3). rewrite S2 in IH.
      destruct (lrun P l' r) as [outs f]. destruct f as [l''| |].
      * destruct IH as (d'' & R & A & Iv). rewrite R. exists d''. auto.
      * rewrite IH. reflexivity.
      * trivial.
    + rewrite S. reflexivity.
    + trivial.
Qed.

(* representation invariant: preserved by every step inside the specification's domain *)
Theorem step_inv P d o d' x : good_params P -> inv P d -> lstep P (abs d) o <> LExcluded ->
  step P d o = ROk d' x -> inv P d'.
Proof.
  intros GP I NE St. pose proof (step_refines P d o GP I) as S. unfold sim_goal in S.
  destruct (lstep P (abs d) o) as [l' y| |].
  - destruct S as (d2 & S1 & _ & S3). rewrite S1 in St. inversion St; subst. exact S3.
  - rewrite S in St. discriminate.
  - contradiction.
Qed.

(* no access outside the storage block, no undefined arithmetic, inside the specification's domain *)
Theorem step_no_crash P d o : good_params P -> inv P d -> lstep P (abs d) o <> LExcluded ->
  step P d o <> RCrash /\ step P d o <> ROom.
Proof.
  intros GP I NE. pose proof (step_refines P d o GP I) as S. unfold sim_goal in S.
  destruct (lstep P (abs d) o) as [l' y| |].
  - destruct S as (d2 & S1 & _). rewrite S1. split; discriminate.
  - rewrite S. split; discriminate.
  - contradiction.
Qed.

(* typed get / set are never outside the domain: whatever the index, they answer or assert, never crash *)
Theorem get_set_never_crash P d k i v : good_params P -> inv P d ->
  step P d (Get k i) <> RCrash /\ step P d (Set_ k i v) <> RCrash.
Proof.
  intros GP I. split; apply step_no_crash; auto; cbn [lstep];
    destruct (negb (ekind_eqb (l_kind (abs d)) (ek k))); try discriminate;
    destruct (negb (in_range i (length (l_items (abs d))))); discriminate.
Qed.

(* an in-range get returns an initialised cell of the sequence and leaves the array alone *)
Theorem get_in_range P d k i : good_params P -> inv P d -> d_kind d = ek k -> (0 <= i < Z.of_nat (d_len d))%Z ->
  exists c, step P d (Get k i) = ROk d (OCell c) /\ c <> Uninit /\ nth_error (l_items (abs d)) (Z.to_nat i) = Some c.
Proof.
  intros GP I K R.
  assert (E1 : ekind_eqb (d_kind d) (ek k) = true) by (apply ekind_eqb_eq; exact K).
  assert (E2 : in_range i (d_len d) = true) by (unfold in_range; apply andb_true_iff; rewrite Z.leb_le, Z.ltb_lt; lia).
  cbn [step]. rewrite E1, E2. cbn [negb].
  assert (Hk : d_kind d <> EStruct) by (rewrite K; apply ek_not_struct).
  destruct (inv_data_some _ _ I Hk) as [els Hd]. rewrite Hd. cbn [rd].
  pose proof I as (H1 & H2 & H3 & H4 & H5 & H6). rewrite Hd in H6. destruct H6 as [H6 H7].
  assert (Hi : (Z.to_nat i < d_len d)%nat) by lia.
  destruct (nth_error_ex els (Z.to_nat i) ltac:(lia)) as [c Ec]. rewrite Ec.
  exists c. split; [reflexivity|]. split.
  - rewrite Forall_forall in H7. apply (H7 c). eapply nth_error_firstn_in; eauto.
  - unfold abs; cbn [l_items]. rewrite Hd. rewrite nth_error_firstn_lt by lia. exact Ec.
Qed.

(* the invariant as the decidable check the extracted driver evaluates after every operation *)
Lemma inv_invb P d : inv P d -> invb P d = true.
Proof.
  intros (H1 & H2 & H3 & H4 & H5 & H6). unfold invb.
  apply andb_true_iff; split; [apply andb_true_iff; split; apply Nat.leb_le; lia|].
  destruct (d_data d) as [els|].
  - destruct H6 as [H6 H7]. apply andb_true_iff; split; [apply Nat.eqb_eq; exact H6|].
    apply forallb_forall. intros c Hc. rewrite Forall_forall in H7. destruct (H7 c Hc) as [Hn _].
    destruct c; auto; try contradiction.
  - destruct H6 as (A & B & C). rewrite A, B, C; reflexivity.
Qed.
