(* Executable model of the open-addressing HashMap<K,V> the transpiler emits into native programs
   (src/transpiler.c generate_hashmap_implementations: nl_hashmap_<K>_<V>_alloc / find_slot / rehash / new / put / has / get / remove /
   length / clear / keys).  Definitions only (extracted).

   An entry is Empty (state 0), Live k v (state 1) or Tomb k (state 2).  A tombstone still holds the bytes of its old entry: for an int
   key the stale key, for a string key a pointer that map_remove has free()d -- [Tomb k] records which key that was, and any comparison
   of it is an access to freed memory for string keys ([HCrash]).
   find_slot probes linearly from hash(key) & (capacity - 1); it remembers the first tombstone and returns it for an absent key.
   HOW a tombstone is treated inside the loop is NOT written here: it is [hp_shape] of the parameters, which tools/gen/gen_hashmap.py
   reads from the emitted text:   Nested = `if (state == 2) { if (first_tomb == -1) first_tomb = idx; } else { compare key }`,
   Flat = `if (state == 2 && first_tomb == -1) { first_tomb = idx; } else if (key matches) { found }` (later tombstones are compared).
   Initial capacity, load factor, growth factor, minimum capacity and the two hash functions are parameters read from the same text.
   Values are N (a string value is identified by a number: the map only strdup()s / free()s it). *)
From Coq Require Import NArith List Bool.
From NV Require Import Base.Bytes.
Import ListNotations.

Inductive hkey := KInt (n : N) | KStr (s : list byte).
Inductive entry := Empty | Live (k : hkey) (v : N) | Tomb (k : hkey).
Inductive hshape := Nested | Flat | ShapeUnknown.

Record hparams := {
  hp_shape : hshape;
  hp_init : nat;            (* nl_hashmap_X_new: alloc(16) *)
  hp_load_num : nat;        (* (size + tombstones) * 10 >= capacity * 7 *)
  hp_load_den : nat;
  hp_growth : nat;          (* rehash(capacity * 2) *)
  hp_min : nat;             (* if (new_cap < 8) new_cap = 8 *)
  hp_fnv_offset : N; hp_fnv_prime : N;          (* nl_hashmap_hash_string *)
  hp_mix1 : N; hp_mix2 : N; hp_mix_shift : N    (* nl_hashmap_hash_int *)
}.

Record hmap := { h_cap : nat; h_count : nat; h_tombs : nat; h_entries : list entry }.

Definition W64 : N := 18446744073709551616%N.
Fixpoint fnv (P : hparams) (h : N) (s : list byte) : N :=
  match s with [] => h | b :: r => fnv P ((N.lxor h (b mod 256) * hp_fnv_prime P) mod W64)%N r end.
Definition hash_int (P : hparams) (x : N) : N :=
  let z := (x mod W64)%N in
  let z := N.lxor z (N.shiftr z (hp_mix_shift P)) in
  let z := ((z * hp_mix1 P) mod W64)%N in
  let z := N.lxor z (N.shiftr z (hp_mix_shift P)) in
  let z := ((z * hp_mix2 P) mod W64)%N in
  N.lxor z (N.shiftr z (hp_mix_shift P)).
Definition hash (P : hparams) (k : hkey) : N :=
  match k with KInt n => hash_int P n | KStr s => fnv P (hp_fnv_offset P) s end.

Fixpoint bytes_eqb (a b : list byte) : bool :=
  match a, b with [], [] => true | x :: a', y :: b' => N.eqb x y && bytes_eqb a' b' | _, _ => false end.
Definition key_eqb (a b : hkey) : bool :=
  match a, b with KInt x, KInt y => N.eqb x y | KStr x, KStr y => bytes_eqb x y | _, _ => false end.

(* idx = h & (capacity - 1) *)
Definition home (P : hparams) (cap : nat) (k : hkey) : nat := N.to_nat (N.land (hash P k) (N.of_nat cap - 1)).
(* the slots the loop visits, in order: capacity of them *)
Definition probe_seq (cap start : nat) : list nat := map (fun i => Nat.modulo (start + i) cap) (seq 0 cap).

(* result of find_slot: slot (None = -1), found flag; [FFreed] = the loop compared the key of a tombstone whose key was free()d *)
Inductive fres := FSlot (idx : option nat) (found : bool) | FFreed.

Fixpoint scan (sh : hshape) (es : list entry) (k : hkey) (idxs : list nat) (first_tomb : option nat) : fres :=
  match idxs with
  | [] => FSlot first_tomb false
  | i :: r =>
      match nth i es Empty with
      | Empty => FSlot (match first_tomb with Some t => Some t | None => Some i end) false
      | Live k' _ => if key_eqb k' k then FSlot (Some i) true else scan sh es k r first_tomb
      | Tomb k' =>
          match sh, first_tomb with
          | Nested, None => scan sh es k r (Some i)
          | Nested, Some _ => scan sh es k r first_tomb
          | Flat, None => scan sh es k r (Some i)
          | Flat, Some _ => FFreed         (* "else if (key matches)": the key of a dead entry is compared (freed memory for string keys, a stale key for int keys) *)
          | ShapeUnknown, _ => FFreed
          end
      end
  end.

(* the slots whose KEY FIELD the loop reads (e->key handed to the comparison), in order: the instrumented twin of [scan] *)
Fixpoint compared (sh : hshape) (es : list entry) (k : hkey) (idxs : list nat) (first_tomb : option nat) : list nat :=
  match idxs with
  | [] => []
  | i :: r =>
      match nth i es Empty with
      | Empty => []
      | Live k' _ => i :: (if key_eqb k' k then [] else compared sh es k r first_tomb)
      | Tomb _ =>
          match sh, first_tomb with
          | Nested, None => compared sh es k r (Some i)
          | Nested, Some _ => compared sh es k r first_tomb
          | Flat, None => compared sh es k r (Some i)
          | Flat, Some _ => [i]
          | ShapeUnknown, _ => [i]
          end
      end
  end.

Definition find_slot (P : hparams) (m : hmap) (k : hkey) : fres :=
  if Nat.eqb (h_cap m) 0 then FSlot None false
  else scan (hp_shape P) (h_entries m) k (probe_seq (h_cap m) (home P (h_cap m) k)) None.

Fixpoint set_nth (l : list entry) (i : nat) (e : entry) : list entry :=
  match l, i with
  | [], _ => []
  | _ :: r, O => e :: r
  | x :: r, S j => x :: set_nth r j e
  end.

Definition halloc (cap : nat) : hmap := {| h_cap := cap; h_count := 0; h_tombs := 0; h_entries := repeat Empty cap |}.
Definition hnew (P : hparams) : hmap := halloc (hp_init P).

Inductive hres := HOk (m : hmap) (o : option N) | HCrash.      (* o: the value returned by has (0/1) / get / length *)

Fixpoint pow2_ge (fuel c n : nat) : nat :=
  if Nat.leb n c then c else match fuel with O => c | S f => pow2_ge f (c * 2) n end.

(* rehash: entries with state 1 are re-inserted in index order into a fresh table *)
Fixpoint reinsert (P : hparams) (m : hmap) (old : list entry) : option hmap :=
  match old with
  | [] => Some m
  | Live k v :: r =>
      match find_slot P m k with
      | FSlot (Some i) _ => reinsert P {| h_cap := h_cap m; h_count := S (h_count m); h_tombs := h_tombs m;
                                          h_entries := set_nth (h_entries m) i (Live k v) |} r
      | FSlot None _ => reinsert P m r
      | FFreed => None
      end
  | _ :: r => reinsert P m r
  end.
Definition rehash (P : hparams) (m : hmap) (new_cap : nat) : option hmap :=
  let want := if Nat.ltb new_cap (hp_min P) then hp_min P else new_cap in
  reinsert P (halloc (pow2_ge want 1 want)) (h_entries m).

Inductive hop := HPut (k : hkey) (v : N) | HHas (k : hkey) | HGet (k : hkey) | HRemove (k : hkey) | HLength | HClear.

(* put after the load-factor test *)
Definition hput_at (P : hparams) (m1 : hmap) (k : hkey) (v : N) : hres :=
  match find_slot P m1 k with
  | FFreed => HCrash
  | FSlot None _ => HOk m1 None
  | FSlot (Some i) true =>
      (* found: only the value is replaced *)
      HOk {| h_cap := h_cap m1; h_count := h_count m1; h_tombs := h_tombs m1;
             h_entries := set_nth (h_entries m1) i (match nth i (h_entries m1) Empty with Tomb k' => Tomb k' | _ => Live k v end) |} None
  | FSlot (Some i) false =>
      HOk {| h_cap := h_cap m1; h_count := S (h_count m1);
             h_tombs := match nth i (h_entries m1) Empty with Tomb _ => h_tombs m1 - 1 | _ => h_tombs m1 end;
             h_entries := set_nth (h_entries m1) i (Live k v) |} None
  end.

Definition hstep (P : hparams) (m : hmap) (o : hop) : hres :=
  match o with
  | HPut k v =>
      let grown := if Nat.leb (h_cap m * hp_load_num P) ((h_count m + h_tombs m) * hp_load_den P)
                   then rehash P m (h_cap m * hp_growth P) else Some m in
      match grown with
      | None => HCrash
      | Some m1 => hput_at P m1 k v
      end
  | HHas k =>
      match find_slot P m k with
      | FFreed => HCrash
      | FSlot _ found => HOk m (Some (if found then 1 else 0)%N)
      end
  | HGet k =>
      match find_slot P m k with
      | FFreed => HCrash
      | FSlot (Some i) true => HOk m (Some (match nth i (h_entries m) Empty with Live _ v => v | _ => 0%N end))
      | FSlot _ _ => HOk m (Some 0%N)
      end
  | HRemove k =>
      match find_slot P m k with
      | FFreed => HCrash
      | FSlot (Some i) true =>
          HOk {| h_cap := h_cap m; h_count := h_count m - 1; h_tombs := S (h_tombs m);
                 h_entries := set_nth (h_entries m) i (Tomb k) |} None
      | FSlot _ _ => HOk m None
      end
  | HLength => HOk m (Some (N.of_nat (h_count m)))
  | HClear => HOk {| h_cap := h_cap m; h_count := 0; h_tombs := 0; h_entries := repeat Empty (h_cap m) |} None
  end.

Inductive hfin := HFin (m : hmap) | HCrashed.
Fixpoint hrun (P : hparams) (m : hmap) (ops : list hop) : list (option N) * hfin :=
  match ops with
  | [] => ([], HFin m)
  | o :: r => match hstep P m o with
              | HOk m' x => let (xs, f) := hrun P m' r in (x :: xs, f)
              | HCrash => ([], HCrashed)
              end
  end.

(* live keys in table order (nl_hashmap_X_keys) *)
Definition live_pairs (es : list entry) : list (hkey * N) := flat_map (fun e => match e with Live k v => [(k, v)] | _ => [] end) es.
Definition hkeys (m : hmap) : list hkey := map fst (live_pairs (h_entries m)).

(* ------------------------------------------------------------------ the finite map: an association list *)
Fixpoint alookup (l : list (hkey * N)) (k : hkey) : option N :=
  match l with [] => None | (k', v) :: r => if key_eqb k' k then Some v else alookup r k end.
Fixpoint aremove (l : list (hkey * N)) (k : hkey) : list (hkey * N) :=
  match l with [] => [] | (k', v) :: r => if key_eqb k' k then aremove r k else (k', v) :: aremove r k end.
Definition aput (l : list (hkey * N)) (k : hkey) (v : N) : list (hkey * N) := (k, v) :: aremove l k.
Definition amstep (l : list (hkey * N)) (o : hop) : list (hkey * N) * option N :=
  match o with
  | HPut k v => (aput l k v, None)
  | HHas k => (l, Some (match alookup l k with Some _ => 1 | None => 0 end)%N)
  | HGet k => (l, Some (match alookup l k with Some v => v | None => 0 end)%N)
  | HRemove k => (aremove l k, None)
  | HLength => (l, Some (N.of_nat (length l)))
  | HClear => ([], None)
  end.
Fixpoint amrun (l : list (hkey * N)) (ops : list hop) : list (option N) :=
  match ops with [] => [] | o :: r => let (l', x) := amstep l o in x :: amrun l' r end.
