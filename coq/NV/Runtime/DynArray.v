(* Executable model of /repo/src/runtime/dyn_array.c (and of the helper nl_array_slice that
   src/stdlib_runtime.c emits into every native program).  Definitions only (extracted).

   A DynArray is {length; capacity; elem_type; elem_size; data}.  The model keeps the storage as
   [option (list cell)] : [None] is data == NULL, [Some els] is a heap block of [length els] cells.
   EVERY access of the C to arr->data goes through [rd] / [wr] / the list surgery of [remove_cells],
   which answer [None] when the index is outside the block: that is outcome [RCrash] (the C would touch
   memory out of bounds, write through NULL, or evaluate an undefined signed operation).  A failed
   assert() is [RAbort] (the defined stop: abort()).  Allocation requests above [p_limit] cells are
   [ROom] (what the allocator answers is not modelled); below it allocation is assumed to succeed.
   Cells: [Uninit] = bytes malloc/realloc returned and nobody wrote; [Val n] = raw pattern of a scalar
   (int64 / double bits / pointer / u8 / bool byte); [Blob bs] = the bytes of a struct element.

   The model describes the code after the repairs 9ae9f7a (nl_array_slice clamps length before adding), c3b7222
   (dyn_array_clone of struct arrays) and aedede4 (elem_size is a uint32_t; its width is measured, [p_esize_mod]).
   Constants (INITIAL_CAPACITY, GROWTH_FACTOR, element sizes) are NOT written here: they are the
   fields of [params], instantiated by NV.gen.RtParams which tools/gen/gen_rtparams.py measures on the
   current dyn_array.c. *)
From Coq Require Import NArith ZArith List Bool.
From NV Require Import Base.Bytes.
Import ListNotations.

(* ElementType of dyn_array.h *)
Inductive ekind := EInt | EFloat | EString | EBool | EArray | EStruct | EPointer | EU8.
Definition ekind_code (k : ekind) : N :=
  match k with EInt => 1 | EFloat => 2 | EString => 3 | EBool => 4 | EArray => 5 | EStruct => 6 | EPointer => 7 | EU8 => 8 end%N.
Definition ekind_eqb (a b : ekind) : bool := N.eqb (ekind_code a) (ekind_code b).

(* kinds that have a typed push/pop/get/set family in dyn_array.c *)
Inductive skind := SInt | SU8 | SFloat | SBool | SString | SArray.
Definition ek (k : skind) : ekind :=
  match k with SInt => EInt | SU8 => EU8 | SFloat => EFloat | SBool => EBool | SString => EString | SArray => EArray end.

Inductive cell := Uninit | Val (n : N) | Blob (bs : list byte).

Record params := {
  p_init : nat;              (* INITIAL_CAPACITY *)
  p_growth : nat;            (* GROWTH_FACTOR *)
  p_esize : ekind -> N;      (* get_element_size *)
  p_limit : Z;               (* largest allocation (in cells) assumed to succeed *)
  p_esize_mod : N;           (* 256 ^ sizeof(DynArray.elem_size): what an element size is truncated to when stored (measured) *)
  (* MEASURED on the current code by replaying the witness in a sanitized child process (tools/gen/dump_rtfix.c): does
     dyn_array_push_struct survive a source pointer into the array's own block when it has to grow
     (proposed_fixes/C20-push-own-struct-elem.diff).  false on the pinned tree: the model follows the code present. *)
  p_push_self_safe : bool;
  p_struct_oob_aborts : bool      (* get_struct / set_struct outside [0, length): assert like the other accessors (true) or message + NULL / store dropped (false); measured *)
}.

Record dyn := {
  d_kind : ekind;
  d_esize : N;               (* uint8_t elem_size *)
  d_len : nat;
  d_cap : nat;
  d_data : option (list cell)
}.

Inductive out := OUnit | OCell (c : cell) | OPop (ok : bool) (c : cell) | ONull | OLen (n : nat).
Inductive res := ROk (s : dyn) (o : out) | RAbort | RCrash | ROom.

(* the value a typed push/set stores: conversion to the C parameter type *)
Definition norm (k : skind) (v : N) : N :=
  match k with
  | SU8 => v mod 256
  | SBool => if N.eqb v 0 then 0 else 1
  | _ => v mod 18446744073709551616
  end%N.

(* ---- checked memory primitives ---- *)
Definition rd (d : option (list cell)) (i : nat) : option cell :=
  match d with Some els => nth_error els i | None => None end.
Fixpoint upd (l : list cell) (i : nat) (v : cell) : option (list cell) :=
  match l, i with
  | [], _ => None
  | _ :: r, O => Some (v :: r)
  | x :: r, S j => match upd r j v with Some r' => Some (x :: r') | None => None end
  end.
Definition wr (d : option (list cell)) (i : nat) (v : cell) : option (list cell) :=
  match d with Some els => upd els i v | None => None end.
(* memmove(data + i, data + i + 1, n cells) *)
Definition move_down (els : list cell) (i n : nat) : option (list cell) :=
  if Nat.leb (i + 1 + n) (length els)
  then Some (firstn i els ++ firstn n (skipn (i + 1) els) ++ skipn (i + n) els)
  else None.
(* realloc(block, newcap cells): old contents kept, the extension is uninitialised.  realloc(NULL, n) = malloc(n) *)
Definition realloc_cells (d : option (list cell)) (newcap : nat) : list cell :=
  match d with
  | Some els => firstn newcap els ++ repeat Uninit (newcap - length els)
  | None => repeat Uninit newcap
  end.

Definition in_range (i : Z) (len : nat) : bool := (0 <=? i)%Z && (i <? Z.of_nat len)%Z.

(* dyn_array_new *)
Definition dyn_new (P : params) (k : ekind) : dyn :=
  match k with
  | EStruct => {| d_kind := k; d_esize := 0; d_len := 0; d_cap := p_init P; d_data := None |}
  | _ => {| d_kind := k; d_esize := p_esize P k; d_len := 0; d_cap := p_init P; d_data := Some (repeat Uninit (p_init P)) |}
  end.

(* dyn_array_new_with_capacity: "use at least INITIAL_CAPACITY"; malloc(capacity * elem_size) in int64 arithmetic *)
Definition dyn_new_cap (P : params) (k : ekind) (c : Z) : res :=
  let c' := if (c <? Z.of_nat (p_init P))%Z then Z.of_nat (p_init P) else c in
  let es := match k with EStruct => 0%N | _ => p_esize P k end in
  if (9223372036854775807 <? c' * Z.of_N es)%Z then RCrash else
  if (p_limit P <? c')%Z then ROom else
  let n := Z.to_nat c' in
  ROk match k with
      | EStruct => {| d_kind := k; d_esize := 0; d_len := 0; d_cap := n; d_data := None |}
      | _ => {| d_kind := k; d_esize := p_esize P k; d_len := 0; d_cap := n; d_data := Some (repeat Uninit n) |}
      end OUnit.

(* dyn_array_grow *)
Definition grow (P : params) (s : dyn) : dyn :=
  let nc := d_cap s * p_growth P in
  {| d_kind := d_kind s; d_esize := d_esize s; d_len := d_len s; d_cap := nc;
     d_data := Some (realloc_cells (d_data s) nc) |}.

(* common tail of every push: if (length >= capacity) grow; data[length] = c; length++ *)
Definition push_cell (P : params) (s : dyn) (c : cell) : res :=
  let s1 := if Nat.leb (d_cap s) (d_len s) then grow P s else s in
  match wr (d_data s1) (d_len s1) c with
  | Some els => ROk {| d_kind := d_kind s1; d_esize := d_esize s1; d_len := S (d_len s1); d_cap := d_cap s1;
                       d_data := Some els |} OUnit
  | None => RCrash
  end.

Definition set_data (s : dyn) (els : list cell) : dyn :=
  {| d_kind := d_kind s; d_esize := d_esize s; d_len := d_len s; d_cap := d_cap s; d_data := Some els |}.
Definition set_len (s : dyn) (n : nat) : dyn :=
  {| d_kind := d_kind s; d_esize := d_esize s; d_len := n; d_cap := d_cap s; d_data := d_data s |}.

(* dyn_array_push_struct, after the NULL asserts; [bs] = the struct_size bytes at struct_ptr *)
Definition push_struct (P : params) (s : dyn) (bs : list byte) : res :=
  let size := N.of_nat (length bs) in
  (* auto-promotion of an empty array of another type *)
  let s1 := if Nat.eqb (d_len s) 0 && negb (ekind_eqb (d_kind s) EStruct)
            then {| d_kind := EStruct; d_esize := 0; d_len := d_len s; d_cap := d_cap s; d_data := None |} else s in
  if negb (ekind_eqb (d_kind s1) EStruct) then RAbort else
  let s2 := if N.eqb (d_esize s1) 0
            then {| d_kind := d_kind s1; d_esize := (size mod p_esize_mod P)%N; d_len := d_len s1; d_cap := d_cap s1;
                    d_data := Some (repeat Uninit (d_cap s1)) |}
            else s1 in
  if negb (N.eqb (d_esize s2) size) then RAbort else
  push_cell P s2 (Blob bs).

(* dyn_array_reserve *)
Definition reserve (P : params) (s : dyn) (n : Z) : res :=
  if (n <=? Z.of_nat (d_cap s))%Z then ROk s OUnit else
  if (9223372036854775807 <? n * Z.of_N (d_esize s))%Z then RCrash      (* int64 * int overflows: undefined *)
  else if (p_limit P <? n)%Z then ROom
  else ROk {| d_kind := d_kind s; d_esize := d_esize s; d_len := d_len s; d_cap := Z.to_nat n;
              d_data := Some (realloc_cells (d_data s) (Z.to_nat n)) |} OUnit.

(* memcpy(dst->data, src->data, len * src->elem_size) of dyn_array_clone; both pointer arguments are declared
   nonnull (a NULL is undefined even for 0 bytes), the destination block must hold len*esize bytes *)
Fixpoint copy_cells (dst src : list cell) (n : nat) {struct n} : option (list cell) :=
  match n with
  | O => Some dst
  | S n' => match dst, src with
            | _ :: dr, c :: sr => match copy_cells dr sr n' with Some r => Some (c :: r) | None => None end
            | _, _ => None
            end
  end.

(* dyn_array_clone: new(elem_type); a struct array gets the source's elem_size and a block of its own (an empty /
   unallocated source yields the fresh array); reserve(new, length); memcpy; new->length = length *)
Definition clone (P : params) (s : dyn) : res :=
  let is_struct := ekind_eqb (d_kind s) EStruct in
  if is_struct && (Nat.eqb (d_len s) 0 || match d_data s with None => true | Some _ => false end)
  then ROk (dyn_new P (d_kind s)) OUnit else
  let n0 := if is_struct
            then {| d_kind := EStruct; d_esize := d_esize s; d_len := 0; d_cap := p_init P; d_data := Some (repeat Uninit (p_init P)) |}
            else dyn_new P (d_kind s) in
  match reserve P n0 (Z.of_nat (d_len s)) with
  | ROk n1 _ =>
      match d_data n1, d_data s with
      | Some dst, Some src =>
          if negb (N.eqb (d_esize n1) (d_esize s)) && negb (Nat.eqb (d_len s) 0) then RCrash  (* block sized with the clone's elem_size *)
          else match copy_cells dst src (d_len s) with
               | Some els => ROk {| d_kind := d_kind n1; d_esize := d_esize n1; d_len := d_len s; d_cap := d_cap n1;
                                    d_data := Some els |} OUnit
               | None => RCrash
               end
      | _, _ => RCrash                                                                  (* memcpy with a NULL argument *)
      end
  | r => r
  end.

Inductive op :=
| Push (k : skind) (v : N)        (* dyn_array_push_<k> *)
| Pop (k : skind)                 (* dyn_array_pop_<k>(arr, &success) *)
| Get (k : skind) (i : Z)
| Set_ (k : skind) (i : Z) (v : N)
| PushStrCopyNull                 (* dyn_array_push_string_copy(arr, NULL): "silently ignore" *)
| RemoveAt (i : Z)
| Clear
| Reserve (n : Z)
| Length
| Clone                           (* the history continues on the clone *)
| Slice (start len : Z)           (* nl_array_slice; the history continues on the slice *)
| PushStruct (bs : list byte)
| GetStruct (i : Z)
| SetStruct (i : Z) (bs : list byte)
| PopStruct (size : N)
| PushStructElem (i : Z)          (* dyn_array_push_struct(arr, dyn_array_get_struct(arr, i), arr->elem_size):
                                    what the transpiler emits for (array_push xs (at xs i)) on an array<struct> *)
| SetStructElem (i j : Z).        (* dyn_array_set_struct(arr, i, dyn_array_get_struct(arr, j), arr->elem_size): (array_set xs i (at xs j)) *)

Definition cell_or_uninit (o : option cell) : cell := match o with Some c => c | None => Uninit end.

(* one iteration of the loop of nl_array_slice: switch (t) { case ELEM_X: push_x(out, get_x(arr, i)) ... } *)
Definition slice_one (P : params) (src out_ : dyn) (i : nat) : res :=
  match d_kind src with
  | EPointer => RAbort                                     (* default: assert(false) *)
  | EStruct =>
      (* dyn_array_get_struct(arr, i) is in range here; push_struct(out, ptr, arr->elem_size) *)
      match rd (d_data src) i with
      | Some (Blob bs) => push_struct P out_ bs
      | Some c => RCrash
      | None => RCrash
      end
  | _ =>
      (* typed get asserts index < length, typed push asserts out's type: both equal t *)
      if negb (ekind_eqb (d_kind out_) (d_kind src)) then RAbort else
      match rd (d_data src) i with
      | Some c => push_cell P out_ c
      | None => RCrash
      end
  end.
Fixpoint slice_loop (P : params) (src out_ : dyn) (i n : nat) : res :=
  match n with
  | O => ROk out_ OUnit
  | S n' => match slice_one P src out_ i with
            | ROk o' _ => slice_loop P src o' (S i) n'
            | r => r
            end
  end.
Definition slice (P : params) (s : dyn) (start len : Z) : res :=
  let start1 := if (start <? 0)%Z then 0%Z else start in
  let len1 := if (len <? 0)%Z then 0%Z else len in
  let n := Z.of_nat (d_len s) in
  let start2 := if (n <? start1)%Z then n else start1 in
  (* if (length > len - start) length = len - start; end = start + length;  -- cannot overflow: 0 <= start <= len *)
  let len2 := if (n - start2 <? len1)%Z then (n - start2)%Z else len1 in
  slice_loop P s (dyn_new P (d_kind s)) (Z.to_nat start2) (Z.to_nat len2).

Definition step (P : params) (s : dyn) (o : op) : res :=
  match o with
  | Push k v =>
      if negb (ekind_eqb (d_kind s) (ek k)) then RAbort else push_cell P s (Val (norm k v))
  | PushStrCopyNull =>
      if negb (ekind_eqb (d_kind s) EString) then RAbort else ROk s OUnit
  | Pop k =>
      if negb (ekind_eqb (d_kind s) (ek k)) then RAbort else
      match d_len s with
      | O => ROk s (OPop false (Val 0))
      | S n => match rd (d_data s) n with
               | Some c => ROk (set_len s n) (OPop true c)
               | None => RCrash
               end
      end
  | Get k i =>
      if negb (ekind_eqb (d_kind s) (ek k)) then RAbort else
      if negb (in_range i (d_len s)) then RAbort else
      match rd (d_data s) (Z.to_nat i) with Some c => ROk s (OCell c) | None => RCrash end
  | Set_ k i v =>
      if negb (ekind_eqb (d_kind s) (ek k)) then RAbort else
      if negb (in_range i (d_len s)) then RAbort else
      match wr (d_data s) (Z.to_nat i) (Val (norm k v)) with Some els => ROk (set_data s els) OUnit | None => RCrash end
  | RemoveAt i =>
      if negb (in_range i (d_len s)) then RAbort else
      let k := Z.to_nat i in
      if Nat.ltb k (d_len s - 1) then
        match d_data s with
        | Some els => match move_down els k (d_len s - k - 1) with
                      | Some els' => ROk {| d_kind := d_kind s; d_esize := d_esize s; d_len := d_len s - 1; d_cap := d_cap s;
                                            d_data := Some els' |} OUnit
                      | None => RCrash
                      end
        | None => RCrash
        end
      else ROk (set_len s (d_len s - 1)) OUnit
  | Clear => ROk (set_len s 0) OUnit
  | Reserve n => reserve P s n
  | Length => ROk s (OLen (d_len s))
  | Clone => clone P s
  | Slice a b => slice P s a b
  | PushStruct bs => push_struct P s bs
  | GetStruct i =>
      if negb (ekind_eqb (d_kind s) EStruct) then RAbort else
      if negb (in_range i (d_len s)) then (if p_struct_oob_aborts P then RAbort else ROk s ONull) else
      (* returns data + index*elem_size; the probe/caller reads elem_size bytes there *)
      match rd (d_data s) (Z.to_nat i) with Some c => ROk s (OCell c) | None => RCrash end
  | SetStruct i bs =>
      if negb (ekind_eqb (d_kind s) EStruct) then RAbort else
      if negb (N.eqb (d_esize s) (N.of_nat (length bs))) then RAbort else
      if negb (in_range i (d_len s)) then (if p_struct_oob_aborts P then RAbort else ROk s OUnit) else
      match wr (d_data s) (Z.to_nat i) (Blob bs) with Some els => ROk (set_data s els) OUnit | None => RCrash end
  | PopStruct size =>
      if negb (ekind_eqb (d_kind s) EStruct) then RAbort else
      if negb (N.eqb (d_esize s) size) then RAbort else
      match d_len s with
      | O => ROk s (OPop false Uninit)
      | S n => match rd (d_data s) n with
               | Some c => ROk (set_len s n) (OPop true c)
               | None => RCrash
               end
      end
  | PushStructElem i =>
      if negb (ekind_eqb (d_kind s) EStruct) then RAbort else          (* get_struct asserts the element type *)
      if negb (in_range i (d_len s)) then RAbort else                   (* get_struct answers NULL -> assert(struct_ptr != NULL) *)
      match rd (d_data s) (Z.to_nat i) with
      | Some (Blob bs) =>
          (* the source lives in the block that dyn_array_grow reallocs: memcpy then reads the freed block *)
          if Nat.leb (d_cap s) (d_len s) && negb (p_push_self_safe P) then RCrash
          else push_struct P s bs
      | _ => RCrash
      end
  | SetStructElem i j =>
      if negb (ekind_eqb (d_kind s) EStruct) then RAbort else
      if negb (in_range j (d_len s)) then RAbort else                   (* source NULL -> assert *)
      if negb (in_range i (d_len s)) then (if p_struct_oob_aborts P then RAbort else ROk s OUnit) else   (* assert, or "Index out of bounds" message and nothing written *)
      match rd (d_data s) (Z.to_nat j) with
      | Some c => match wr (d_data s) (Z.to_nat i) c with Some els => ROk (set_data s els) OUnit | None => RCrash end
      | None => RCrash
      end
  end.

(* a history: outputs so far + how it ended *)
Inductive fin := Fin (s : dyn) | Aborted | Crashed | Oomed.
Fixpoint run (P : params) (s : dyn) (ops : list op) : list out * fin :=
  match ops with
  | [] => ([], Fin s)
  | o :: r => match step P s o with
              | ROk s' x => let (xs, f) := run P s' r in (x :: xs, f)
              | RAbort => ([], Aborted)
              | RCrash => ([], Crashed)
              | ROom => ([], Oomed)
              end
  end.

(* ------------------------------------------------------------------------------------------------
   The abstract machine: a typed sequence.  No capacity, no storage, never crashes. *)
Record lst := { l_kind : ekind; l_esize : N; l_items : list cell }.
Inductive lres := LOk (s : lst) (o : out) | LAbort | LExcluded.

Definition abs (d : dyn) : lst :=
  {| l_kind := d_kind d; l_esize := d_esize d;
     l_items := firstn (d_len d) (match d_data d with Some e => e | None => [] end) |}.

Fixpoint lupd (l : list cell) (i : nat) (v : cell) : list cell :=
  match l, i with
  | [], _ => []
  | _ :: r, O => v :: r
  | x :: r, S j => x :: lupd r j v
  end.
Definition with_items (s : lst) (l : list cell) : lst := {| l_kind := l_kind s; l_esize := l_esize s; l_items := l |}.

(* operations outside the domain of the sequence specification (see DynArrayProofs: each is either a defect of the
   C code or a caller-controlled allocation size) *)
Definition struct_size_ok (P : params) (bs : list byte) : bool := Nat.ltb 0 (length bs) && N.ltb (N.of_nat (length bs)) (p_esize_mod P).

Definition lstep (P : params) (s : lst) (o : op) : lres :=
  match o with
  | Push k v => if negb (ekind_eqb (l_kind s) (ek k)) then LAbort else LOk (with_items s (l_items s ++ [Val (norm k v)])) OUnit
  | PushStrCopyNull => if negb (ekind_eqb (l_kind s) EString) then LAbort else LOk s OUnit
  | Pop k =>
      if negb (ekind_eqb (l_kind s) (ek k)) then LAbort else
      match l_items s with
      | [] => LOk s (OPop false (Val 0))
      | _ => LOk (with_items s (removelast (l_items s))) (OPop true (last (l_items s) Uninit))
      end
  | Get k i =>
      if negb (ekind_eqb (l_kind s) (ek k)) then LAbort else
      if negb (in_range i (length (l_items s))) then LAbort else LOk s (OCell (nth (Z.to_nat i) (l_items s) Uninit))
  | Set_ k i v =>
      if negb (ekind_eqb (l_kind s) (ek k)) then LAbort else
      if negb (in_range i (length (l_items s))) then LAbort else
      LOk (with_items s (lupd (l_items s) (Z.to_nat i) (Val (norm k v)))) OUnit
  | RemoveAt i =>
      if negb (in_range i (length (l_items s))) then LAbort else
      LOk (with_items s (firstn (Z.to_nat i) (l_items s) ++ skipn (S (Z.to_nat i)) (l_items s))) OUnit
  | Clear => LOk (with_items s []) OUnit
  | Reserve n => if (p_limit P <? n)%Z then LExcluded else LOk s OUnit
  | Length => LOk s (OLen (length (l_items s)))
  | Clone =>
      if (p_limit P <? Z.of_nat (length (l_items s)))%Z then LExcluded
      else if ekind_eqb (l_kind s) EStruct
           then match l_items s with
                | [] => LOk {| l_kind := EStruct; l_esize := 0; l_items := [] |} OUnit
                | _ => LOk s OUnit
                end
           else LOk s OUnit
  | Slice a b =>
      let a1 := if (a <? 0)%Z then 0%Z else a in
      let b1 := if (b <? 0)%Z then 0%Z else b in
      let n := Z.of_nat (length (l_items s)) in
      let a2 := if (n <? a1)%Z then n else a1 in
      let e := if (n <? a2 + b1)%Z then n else (a2 + b1)%Z in
      let items := firstn (Z.to_nat (e - a2)) (skipn (Z.to_nat a2) (l_items s)) in
      match l_kind s, items with
      | EPointer, _ :: _ => LAbort
      | EStruct, _ :: _ => LOk {| l_kind := EStruct; l_esize := l_esize s; l_items := items |} OUnit
      | EStruct, [] => LOk {| l_kind := EStruct; l_esize := 0; l_items := [] |} OUnit
      | k, _ => LOk {| l_kind := k; l_esize := p_esize P k; l_items := items |} OUnit
      end
  | PushStruct bs =>
      if negb (struct_size_ok P bs) then LExcluded else
      let size := N.of_nat (length bs) in
      let promote := match l_items s with [] => negb (ekind_eqb (l_kind s) EStruct) | _ => false end in
      if negb promote && negb (ekind_eqb (l_kind s) EStruct) then LAbort else
      let es := if promote then 0%N else l_esize s in
      if negb (N.eqb es 0) && negb (N.eqb es size) then LAbort else
      LOk {| l_kind := EStruct; l_esize := size; l_items := l_items s ++ [Blob bs] |} OUnit
  | GetStruct i =>
      if negb (ekind_eqb (l_kind s) EStruct) then LAbort else
      if negb (in_range i (length (l_items s))) then (if p_struct_oob_aborts P then LAbort else LOk s ONull) else LOk s (OCell (nth (Z.to_nat i) (l_items s) Uninit))
  | SetStruct i bs =>
      if negb (ekind_eqb (l_kind s) EStruct) then LAbort else
      if negb (N.eqb (l_esize s) (N.of_nat (length bs))) then LAbort else
      if negb (in_range i (length (l_items s))) then (if p_struct_oob_aborts P then LAbort else LOk s OUnit) else
      LOk (with_items s (lupd (l_items s) (Z.to_nat i) (Blob bs))) OUnit
  | PopStruct size =>
      if negb (ekind_eqb (l_kind s) EStruct) then LAbort else
      if negb (N.eqb (l_esize s) size) then LAbort else
      match l_items s with
      | [] => LOk s (OPop false Uninit)
      | _ => LOk (with_items s (removelast (l_items s))) (OPop true (last (l_items s) Uninit))
      end
  | PushStructElem i =>
      if negb (p_push_self_safe P) then LExcluded else      (* whether it works depends on the capacity, which a sequence does not have *)
      if negb (ekind_eqb (l_kind s) EStruct) then LAbort else
      if negb (in_range i (length (l_items s))) then LAbort else
      LOk (with_items s (l_items s ++ [nth (Z.to_nat i) (l_items s) Uninit])) OUnit
  | SetStructElem i j =>
      if negb (ekind_eqb (l_kind s) EStruct) then LAbort else
      if negb (in_range j (length (l_items s))) then LAbort else
      if negb (in_range i (length (l_items s))) then (if p_struct_oob_aborts P then LAbort else LOk s OUnit) else
      LOk (with_items s (lupd (l_items s) (Z.to_nat i) (nth (Z.to_nat j) (l_items s) Uninit))) OUnit
  end.

Inductive lfin := LFin (s : lst) | LAborted | LExcl.
Fixpoint lrun (P : params) (s : lst) (ops : list op) : list out * lfin :=
  match ops with
  | [] => ([], LFin s)
  | o :: r => match lstep P s o with
              | LOk s' x => let (xs, f) := lrun P s' r in (x :: xs, f)
              | LAbort => ([], LAborted)
              | LExcluded => ([], LExcl)
              end
  end.

(* decidable invariant of the concrete state (used by the driver as a self-check and by the proofs) *)
Definition cell_init (c : cell) : bool := match c with Uninit => false | _ => true end.
Definition invb (P : params) (d : dyn) : bool :=
  Nat.leb (d_len d) (d_cap d) && Nat.leb 1 (d_cap d) &&
  match d_data d with
  | Some els => Nat.eqb (length els) (d_cap d) && forallb cell_init (firstn (d_len d) els)
  | None => Nat.eqb (d_len d) 0 && ekind_eqb (d_kind d) EStruct && N.eqb (d_esize d) 0
  end.
