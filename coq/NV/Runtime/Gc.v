(* Executable model of the reference-count bookkeeping of /repo/src/runtime/gc.c: gc_alloc, gc_retain, gc_release,
   gc_is_managed, gc_collect_cycles, the all-objects list, the pointer hash set and the statistics.
   Definitions only (extracted).

   Addresses are N (0 = NULL).  The address gc_alloc obtains from malloc is an INPUT of the model ([GAlloc a ..]): the
   allocator may hand out any block that is not live, including one that was freed before (address reuse).
   [g_heap] holds the headers of the live blocks.  Reading or writing a header that is not live is [GCrash]
   (use after free / wild pointer); free() of a block that is not live is [GCrash] (double free); the assert in
   gc_release is [GAbort].  Objects have no children here: gc_struct fields and the element walk of gc_mark are not
   modelled (see level_note); gc_destroy_object's free of DynArray.data is the business of the DynArray model. *)
From Coq Require Import NArith List Bool.
Import ListNotations.
Local Open Scope N_scope.

Record hdr := { h_rc : N; h_type : N; h_size : N }.
Record gc := {
  g_heap : list (N * hdr);      (* live blocks: object address -> header *)
  g_list : list N;              (* gc_state.all_objects, head first *)
  g_set : list N;               (* content of the hash set (gc_hash_add / gc_hash_remove), newest first *)
  g_frees : list N;             (* log of free(header) calls, newest first *)
  g_count : N;                  (* stats.num_objects *)
  g_usage : N;                  (* stats.current_usage *)
  g_init : bool                 (* gc_state.initialized *)
}.
Definition gc_empty : gc := {| g_heap := []; g_list := []; g_set := []; g_frees := []; g_count := 0; g_usage := 0; g_init := false |}.

Inductive gop :=
| GAlloc (a size ty : N)        (* gc_alloc(size, ty) where malloc returned the block whose object address is a *)
| GRetain (p : N)
| GRelease (p : N)
| GIsManaged (p : N)
| GCollect.                     (* gc_collect_cycles *)
Inductive gout := GUnit | GBool (b : bool) | GPtr (p : N).
Inductive gres := GOk (g : gc) (o : gout) | GAbort | GCrash | GBadEnv.

Fixpoint lookup (h : list (N * hdr)) (p : N) : option hdr :=
  match h with [] => None | (q, x) :: r => if N.eqb q p then Some x else lookup r p end.
Fixpoint store (h : list (N * hdr)) (p : N) (x : hdr) : list (N * hdr) :=
  match h with [] => [] | (q, y) :: r => if N.eqb q p then (q, x) :: r else (q, y) :: store r p x end.
Fixpoint drop (h : list (N * hdr)) (p : N) : list (N * hdr) :=
  match h with [] => [] | (q, y) :: r => if N.eqb q p then r else (q, y) :: drop r p end.
Fixpoint mem (l : list N) (p : N) : bool :=
  match l with [] => false | q :: r => N.eqb q p || mem r p end.
(* unlink a node / remove the first matching hash entry *)
Fixpoint remove1 (l : list N) (p : N) : list N :=
  match l with [] => [] | q :: r => if N.eqb q p then r else q :: remove1 r p end.

Definition wrap32 (n : N) : N := n mod 4294967296.
Definition wrap64 (n : N) : N := n mod 18446744073709551616.

(* free the object at p: unlink, hash remove, statistics, free(header) *)
Definition free_obj (g : gc) (p : N) (x : hdr) : gc :=
  {| g_heap := drop (g_heap g) p; g_list := remove1 (g_list g) p; g_set := remove1 (g_set g) p;
     g_frees := p :: g_frees g; g_count := wrap64 (g_count g + 18446744073709551616 - 1);
     g_usage := wrap64 (g_usage g + 18446744073709551616 - h_size x mod 18446744073709551616); g_init := g_init g |}.

(* sweep: every listed object with ref_count == 0 (and, without children, unmarked) is freed *)
Fixpoint sweep (g : gc) (todo : list N) : gres :=
  match todo with
  | [] => GOk g GUnit
  | p :: r => match lookup (g_heap g) p with
              | None => GCrash
              | Some x => if N.eqb (h_rc x) 0 then sweep (free_obj g p x) r else sweep g r
              end
  end.

Definition gstep (hdr_size : N) (g : gc) (o : gop) : gres :=
  match o with
  | GAlloc a size ty =>
      (* what malloc may return: a non-NULL block that is not live *)
      if N.eqb a 0 || (match lookup (g_heap g) a with Some _ => true | None => false end) then GBadEnv else
      let total := wrap64 (hdr_size + size) in
      GOk {| g_heap := (a, {| h_rc := 1; h_type := ty mod 256; h_size := total |}) :: g_heap g;
             g_list := a :: g_list g; g_set := a :: g_set g; g_frees := g_frees g;
             g_count := wrap64 (g_count g + 1); g_usage := wrap64 (g_usage g + total); g_init := true |} (GPtr a)
  | GRetain p =>
      if N.eqb p 0 then GOk g GUnit else
      match lookup (g_heap g) p with
      | None => GCrash                                         (* header->ref_count++ on memory that is not a live header *)
      | Some x => GOk {| g_heap := store (g_heap g) p {| h_rc := wrap32 (h_rc x + 1); h_type := h_type x; h_size := h_size x |};
                         g_list := g_list g; g_set := g_set g; g_frees := g_frees g; g_count := g_count g;
                         g_usage := g_usage g; g_init := g_init g |} GUnit
      end
  | GRelease p =>
      if N.eqb p 0 then GOk g GUnit else
      if negb (g_init g && mem (g_set g) p) then GOk g GUnit else      (* "not GC-managed - nothing to release" *)
      match lookup (g_heap g) p with
      | None => GCrash
      | Some x =>
          if N.eqb (h_rc x) 0 then GAbort                       (* "GC: Double release detected!" *)
          else
            let x' := {| h_rc := h_rc x - 1; h_type := h_type x; h_size := h_size x |} in
            let g1 := {| g_heap := store (g_heap g) p x'; g_list := g_list g; g_set := g_set g; g_frees := g_frees g;
                         g_count := g_count g; g_usage := g_usage g; g_init := g_init g |} in
            if N.eqb (h_rc x') 0 then GOk (free_obj g1 p x') GUnit else GOk g1 GUnit
      end
  | GIsManaged p => GOk g (GBool (negb (N.eqb p 0) && g_init g && mem (g_set g) p))
  | GCollect => if g_init g then sweep g (g_list g) else GOk g GUnit
  end.

Inductive gfin := GFin (g : gc) | GAborted | GCrashed | GEnv.
Fixpoint grun (hs : N) (g : gc) (ops : list gop) : list gout * gfin :=
  match ops with
  | [] => ([], GFin g)
  | o :: r => match gstep hs g o with
              | GOk g' x => let (xs, f) := grun hs g' r in (x :: xs, f)
              | GAbort => ([], GAborted)
              | GCrash => ([], GCrashed)
              | GBadEnv => ([], GEnv)
              end
  end.

(* decidable form of the invariant, evaluated by the extracted driver after every operation *)
Fixpoint nodupb (l : list N) : bool := match l with [] => true | x :: r => negb (mem r x) && nodupb r end.
Definition ginvb (g : gc) : bool :=
  nodupb (g_list g) && nodupb (g_set g) && nodupb (map fst (g_heap g)) &&
  forallb (fun p => mem (g_set g) p && negb (N.eqb p 0) &&
                    match lookup (g_heap g) p with Some x => (1 <=? h_rc x) && (h_rc x <? 4294967296) | None => false end) (g_list g) &&
  forallb (fun p => mem (g_list g) p) (g_set g) &&
  forallb (fun p => mem (g_list g) p) (map fst (g_heap g)) &&
  N.eqb (g_count g) (N.of_nat (length (g_list g))).
