(* Proofs about the emitted open-addressing HashMap model (NV.Runtime.HashMapRt):
   - the probe loop with the Nested tombstone branch never reads the key of a tombstone ([compared_nested_live], [scan_freed_compared]);
   - with the invariant (distinct live keys, unbroken probe chains, exact counters, one empty slot) every operation agrees with the
     association list ([hstep_refines], [hrun_refines]) and keeps the invariant; no operation crashes. *)
From Coq Require Import NArith List Bool Arith Lia.
From NV Require Import Base.Bytes Runtime.HashMapRt.
Import ListNotations.

(* ------------------------------------------------------------------ key equality *)
Lemma bytes_eqb_eq : forall a b, bytes_eqb a b = true <-> a = b.
Proof.
  induction a; destruct b; simpl; split; intros H; try congruence; try discriminate.
  - apply andb_true_iff in H. destruct H as [H1 H2]. apply N.eqb_eq in H1. apply IHa in H2. congruence.
  - injection H as -> ->. apply andb_true_iff. split; [apply N.eqb_refl | apply IHa; reflexivity].
Qed.
Lemma key_eqb_eq : forall a b, key_eqb a b = true <-> a = b.
Proof.
  destruct a, b; simpl; split; intros H; try discriminate.
  - apply N.eqb_eq in H. congruence.
  - injection H as ->. apply N.eqb_refl.
  - apply bytes_eqb_eq in H. congruence.
  - injection H as ->. apply bytes_eqb_eq. reflexivity.
Qed.
Lemma key_eqb_refl : forall a, key_eqb a a = true.
Proof. intros. apply key_eqb_eq. reflexivity. Qed.
Lemma key_eqb_neq : forall a b, a <> b -> key_eqb a b = false.
Proof. intros a b H. destruct (key_eqb a b) eqn:E; auto. apply key_eqb_eq in E. contradiction. Qed.
Lemma key_eqb_sym : forall a b, key_eqb a b = key_eqb b a.
Proof.
  intros. destruct (key_eqb a b) eqn:E.
  - apply key_eqb_eq in E. subst. symmetry. apply key_eqb_refl.
  - symmetry. apply key_eqb_neq. intros ->. rewrite key_eqb_refl in E. discriminate.
Qed.

(* ------------------------------------------------------------------ the probe order visits every slot exactly once *)
Lemma mod_diff : forall a b c, c <> 0 -> a <= b -> a mod c = b mod c -> exists q, b = a + q * c.
Proof.
  intros a b c Hc Hab H. exists (b / c - a / c).
  pose proof (Nat.div_mod a c Hc). pose proof (Nat.div_mod b c Hc). pose proof (Nat.div_le_mono a b c Hc Hab). nia.
Qed.
Lemma mod_inj_le : forall cap s d d', d' <= d -> d < cap -> (s + d) mod cap = (s + d') mod cap -> d = d'.
Proof.
  intros cap s d d' Hle Hd H.
  destruct (mod_diff (s + d') (s + d) cap) as [q Hq]; [lia | lia | congruence |].
  destruct q; nia.
Qed.
Lemma mod_inj : forall cap s d d', d < cap -> d' < cap -> (s + d) mod cap = (s + d') mod cap -> d = d'.
Proof.
  intros cap s d d' H1 H2 H. destruct (Nat.le_ge_cases d' d).
  - eapply mod_inj_le; eauto.
  - symmetry. eapply mod_inj_le; eauto.
Qed.
Lemma mod_surj : forall cap s i, i < cap -> exists d, d < cap /\ (s + d) mod cap = i.
Proof.
  intros cap s i Hi. assert (Hc : cap <> 0) by lia.
  pose proof (Nat.mod_upper_bound s cap Hc) as Hr.
  destruct (le_lt_dec (s mod cap) i).
  - exists (i - s mod cap). split; [lia|].
    rewrite <- Nat.add_mod_idemp_l by assumption. replace (s mod cap + (i - s mod cap)) with i by lia. apply Nat.mod_small; assumption.
  - exists (i + cap - s mod cap). split; [lia|].
    rewrite <- Nat.add_mod_idemp_l by assumption. replace (s mod cap + (i + cap - s mod cap)) with (i + 1 * cap) by lia.
    rewrite Nat.mod_add by assumption. apply Nat.mod_small; assumption.
Qed.

(* ------------------------------------------------------------------ the probe loop *)
Section Scan.
Variables (es : list entry) (k : hkey) (f : nat -> nat).

Lemma scan_found : forall n a ft d v,
  a <= d < a + n -> nth (f d) es Empty = Live k v ->
  (forall d', a <= d' < d -> nth (f d') es Empty <> Empty /\ forall v', nth (f d') es Empty <> Live k v') ->
  scan Nested es k (map f (seq a n)) ft = FSlot (Some (f d)) true.
Proof.
  induction n; intros a ft d v Hd Hl Hp; [lia|]. simpl.
  destruct (Nat.eq_dec a d) as [->|Hne].
  - rewrite Hl, key_eqb_refl. reflexivity.
  - destruct (Hp a ltac:(lia)) as [Hne0 Hnk].
    destruct (nth (f a) es Empty) eqn:E.
    + congruence.
    + destruct (key_eqb k0 k) eqn:K.
      { apply key_eqb_eq in K. subst. exfalso. eapply Hnk; reflexivity. }
      apply IHn with v; auto; try lia. intros; apply Hp; lia.
    + destruct ft; apply IHn with v; auto; try lia; intros; apply Hp; lia.
Qed.

Lemma scan_absent : forall n a ft,
  (forall d v, a <= d < a + n -> nth (f d) es Empty <> Live k v) ->
  (exists d, a <= d < a + n /\ nth (f d) es Empty = Empty) ->
  exists j, scan Nested es k (map f (seq a n)) ft = FSlot (Some j) false /\
    match ft with
    | Some t => j = t
    | None => exists d, a <= d < a + n /\ j = f d /\ (nth j es Empty = Empty \/ exists k', nth j es Empty = Tomb k') /\
                        forall d', a <= d' < d -> nth (f d') es Empty <> Empty
    end.
Proof.
  induction n; intros a ft Hn [d0 [Hd0 He0]]; [lia|]. simpl.
  destruct (nth (f a) es Empty) eqn:E.
  - destruct ft as [t|].
    + exists t. split; reflexivity.
    + exists (f a). split; [reflexivity|]. exists a. repeat split; try lia. left; assumption.
  - assert (K : key_eqb k0 k = false).
    { apply key_eqb_neq. intros ->. eapply (Hn a); [lia | exact E]. }
    rewrite K.
    assert (Hd1 : exists d, S a <= d < S a + n /\ nth (f d) es Empty = Empty).
    { exists d0. split; [|assumption]. destruct (Nat.eq_dec d0 a); [subst; congruence | lia]. }
    destruct (IHn (S a) ft) as [j [Hs Hj]]; [intros; apply Hn; lia | exact Hd1 |].
    exists j. split; [assumption|]. destruct ft; [assumption|].
    destruct Hj as [d [Hd [Hjd [Hst Hpre]]]]. exists d. repeat split; try lia; try assumption.
    intros d' Hd'. destruct (Nat.eq_dec d' a); [subst; congruence | apply Hpre; lia].
  - assert (Hd1 : exists d, S a <= d < S a + n /\ nth (f d) es Empty = Empty).
    { exists d0. split; [|assumption]. destruct (Nat.eq_dec d0 a); [subst; congruence | lia]. }
    destruct ft as [t|].
    + destruct (IHn (S a) (Some t)) as [j [Hs Hj]]; [intros; apply Hn; lia | exact Hd1 |].
      exists j. split; assumption.
    + destruct (IHn (S a) (Some (f a))) as [j [Hs Hj]]; [intros; apply Hn; lia | exact Hd1 |].
      exists j. split; [assumption|]. subst j. exists a. repeat split; try lia. right. exists k0. assumption.
Qed.

(* "removed keys are never compared again" *)
Lemma scan_nested_ok : forall idxs ft, scan Nested es k idxs ft <> FFreed.
Proof.
  induction idxs; intros ft; simpl; [discriminate|].
  destruct (nth a es Empty); [discriminate | destruct (key_eqb k0 k); [discriminate | apply IHidxs] | destruct ft; apply IHidxs].
Qed.
Lemma compared_nested_live : forall idxs ft, Forall (fun i => exists k' v, nth i es Empty = Live k' v) (compared Nested es k idxs ft).
Proof.
  induction idxs; intros ft; simpl; [constructor|].
  destruct (nth a es Empty) eqn:E.
  - constructor.
  - constructor; [eauto|]. destruct (key_eqb k0 k); [constructor | apply IHidxs].
  - destruct ft; apply IHidxs.
Qed.
Lemma scan_freed_compared : forall sh idxs ft,
  scan sh es k idxs ft = FFreed <-> exists i k', In i (compared sh es k idxs ft) /\ nth i es Empty = Tomb k'.
Proof.
  induction idxs; intros ft; simpl.
  - split; [discriminate | intros [i [k' [[] _]]]].
  - destruct (nth a es Empty) eqn:E.
    + split; [discriminate | intros [i [k' [[] _]]]].
    + destruct (key_eqb k0 k).
      * split; [discriminate|]. intros [i [k' [[->|[]] H]]]. congruence.
      * rewrite IHidxs. split.
        { intros [i [k' [Hi H]]]. exists i, k'. split; [right; assumption | assumption]. }
        { intros [i [k' [[->|Hi] H]]]; [congruence|]. exists i, k'. split; assumption. }
    + destruct sh; destruct ft; try apply IHidxs;
        (split; [intros _; exists a, k0; split; [left; reflexivity | assumption] | reflexivity]).
Qed.
End Scan.

(* ------------------------------------------------------------------ set_nth, counters *)
Lemma length_set_nth : forall l i e, length (set_nth l i e) = length l.
Proof. induction l; destruct i; simpl; intros; auto. Qed.
Lemma nth_set_nth_eq : forall l i e, i < length l -> nth i (set_nth l i e) Empty = e.
Proof. induction l; destruct i; simpl; intros; try lia; auto. apply IHl. lia. Qed.
Lemma nth_set_nth_neq : forall l i j e, i <> j -> nth i (set_nth l j e) Empty = nth i l Empty.
Proof. induction l; destruct i, j; simpl; intros; try lia; auto. Qed.

Definition wl (e : entry) : nat := match e with Live _ _ => 1 | _ => 0 end.
Definition wt (e : entry) : nat := match e with Tomb _ => 1 | _ => 0 end.
Fixpoint sumw (w : entry -> nat) (l : list entry) : nat := match l with [] => 0 | e :: r => w e + sumw w r end.

Lemma sumw_set_nth : forall w l i e, i < length l -> sumw w (set_nth l i e) + w (nth i l Empty) = sumw w l + w e.
Proof.
  induction l; destruct i; simpl; intros; try lia.
  specialize (IHl i e ltac:(lia)). lia.
Qed.
Lemma sumw_repeat_empty : forall w n, w Empty = 0 -> sumw w (repeat Empty n) = 0.
Proof. induction n; simpl; intros H; auto. rewrite IHn by assumption. lia. Qed.
Lemma has_empty : forall es, sumw wl es + sumw wt es < length es -> exists i, i < length es /\ nth i es Empty = Empty.
Proof.
  induction es; simpl; intros H; [lia|].
  destruct a; simpl in H.
  - exists 0. split; [lia | reflexivity].
  - destruct IHes as [i [Hi He]]; [lia|]. exists (S i). split; [lia | assumption].
  - destruct IHes as [i [Hi He]]; [lia|]. exists (S i). split; [lia | assumption].
Qed.
Lemma no_tomb : forall es i k, sumw wt es = 0 -> nth i es Empty <> Tomb k.
Proof.
  induction es; intros i k H; destruct i; simpl in *; try discriminate.
  - destruct a; simpl in H; try discriminate; lia.
  - apply IHes. destruct a; simpl in H; lia.
Qed.
Lemma nth_live_lt : forall es i k v, nth i es Empty = Live k v -> i < length es.
Proof.
  intros es i k v H. destruct (lt_dec i (length es)); auto. rewrite nth_overflow in H by lia. discriminate.
Qed.

(* ------------------------------------------------------------------ the invariant *)
Definition live (es : list entry) (k : hkey) (v : N) : Prop := exists i, nth i es Empty = Live k v.
Definition distinct (es : list entry) : Prop :=
  forall i j k v v', nth i es Empty = Live k v -> nth j es Empty = Live k v' -> i = j.
(* every live key is reachable from its home slot without crossing an empty slot *)
Definition chain (P : hparams) (cap : nat) (es : list entry) : Prop :=
  forall j k v, nth j es Empty = Live k v ->
    exists d, d < cap /\ (home P cap k + d) mod cap = j /\ forall d', d' < d -> nth ((home P cap k + d') mod cap) es Empty <> Empty.

Record Inv0 (P : hparams) (m : hmap) : Prop := {
  i_len : length (h_entries m) = h_cap m;
  i_cap : 8 <= h_cap m;
  i_count : h_count m = sumw wl (h_entries m);
  i_tombs : h_tombs m = sumw wt (h_entries m);
  i_dist : distinct (h_entries m);
  i_chain : chain P (h_cap m) (h_entries m) }.
(* what put re-establishes before it inserts: one slot stays empty *)
Definition Inv (P : hparams) (m : hmap) : Prop := Inv0 P m /\ h_count m + h_tombs m < h_cap m.

Lemma live_dec : forall es k, (exists i v, nth i es Empty = Live k v) \/ (forall i v, nth i es Empty <> Live k v).
Proof.
  induction es; intros k.
  - right. intros [|i] v; simpl; discriminate.
  - destruct (IHes k) as [[i [v H]]|H].
    + left. exists (S i), v. assumption.
    + destruct a as [|k0 v0|k0].
      * right. intros [|i] v; simpl; [discriminate | apply H].
      * destruct (key_eqb k0 k) eqn:K.
        { apply key_eqb_eq in K. subst. left. exists 0, v0. reflexivity. }
        right. intros [|i] v; simpl; [|apply H]. intros X. injection X as -> _. rewrite key_eqb_refl in K. discriminate.
      * right. intros [|i] v; simpl; [discriminate | apply H].
Qed.

Section Find.
Variable P : hparams.
Hypothesis Hshape : hp_shape P = Nested.

Lemma find_slot_live : forall m j k v, Inv0 P m -> nth j (h_entries m) Empty = Live k v -> find_slot P m k = FSlot (Some j) true.
Proof.
  intros m j k v I H. unfold find_slot. rewrite Hshape.
  pose proof (i_cap _ _ I) as Hc. destruct (Nat.eqb_spec (h_cap m) 0); [lia|].
  destruct (i_chain _ _ I j k v H) as [d [Hd [Hj Hpre]]].
  unfold probe_seq. subst j.
  apply scan_found with (f := fun i => (home P (h_cap m) k + i) mod h_cap m) (v := v); [lia | assumption |].
  intros d' Hd'. split; [apply Hpre; lia|].
  intros v' Hv'. pose proof (i_dist _ _ I _ _ _ _ _ Hv' H) as E.
  apply mod_inj in E; lia.
Qed.

Lemma find_slot_absent : forall m k, Inv0 P m -> h_count m + h_tombs m < h_cap m ->
  (forall i v, nth i (h_entries m) Empty <> Live k v) ->
  exists j, find_slot P m k = FSlot (Some j) false /\ j < h_cap m /\
    (nth j (h_entries m) Empty = Empty \/ exists k', nth j (h_entries m) Empty = Tomb k') /\
    exists d, d < h_cap m /\ (home P (h_cap m) k + d) mod h_cap m = j /\
              forall d', d' < d -> nth ((home P (h_cap m) k + d') mod h_cap m) (h_entries m) Empty <> Empty.
Proof.
  intros m k I Hload Hno. unfold find_slot. rewrite Hshape.
  pose proof (i_cap _ _ I) as Hc. destruct (Nat.eqb_spec (h_cap m) 0); [lia|].
  destruct (has_empty (h_entries m)) as [i [Hi He]].
  { rewrite <- (i_count _ _ I), <- (i_tombs _ _ I), (i_len _ _ I). assumption. }
  rewrite (i_len _ _ I) in Hi.
  destruct (mod_surj (h_cap m) (home P (h_cap m) k) i Hi) as [d0 [Hd0 Hf0]].
  destruct (scan_absent (h_entries m) k (fun i => (home P (h_cap m) k + i) mod h_cap m) (h_cap m) 0 None) as [j [Hs [d [Hd [Hj [Hst Hpre]]]]]].
  - intros; apply Hno.
  - exists d0. split; [lia|]. rewrite Hf0. assumption.
  - exists j. split; [exact Hs|]. split; [subst j; apply Nat.mod_upper_bound; lia|]. split; [assumption|].
    exists d. split; [lia|]. split; [auto|]. intros; apply Hpre; lia.
Qed.

Lemma find_slot_nested_ok : forall m k, find_slot P m k <> FFreed.
Proof. intros. unfold find_slot. rewrite Hshape. destruct (Nat.eqb (h_cap m) 0); [discriminate | apply scan_nested_ok]. Qed.
End Find.

(* ------------------------------------------------------------------ one slot changes *)
Lemma nonempty_set : forall es j e x, j < length es -> e <> Empty -> nth x es Empty <> Empty -> nth x (set_nth es j e) Empty <> Empty.
Proof.
  intros es j e x Hj He Hx. destruct (Nat.eq_dec x j) as [->|Hn].
  - rewrite nth_set_nth_eq; assumption.
  - rewrite nth_set_nth_neq; assumption.
Qed.
Lemma live_pos : forall es j k v, nth j es Empty = Live k v -> 1 <= sumw wl es.
Proof. induction es; intros [|j] k v H; simpl in *; try discriminate; [subst; simpl; lia | apply IHes in H; lia]. Qed.
Lemma tomb_pos : forall es j k, nth j es Empty = Tomb k -> 1 <= sumw wt es.
Proof. induction es; intros [|j] k H; simpl in *; try discriminate; [subst; simpl; lia | apply IHes in H; lia]. Qed.

Lemma Inv0_set : forall P m j e c t,
  Inv0 P m -> j < h_cap m -> e <> Empty ->
  (forall k v, e = Live k v ->
     (forall i v', nth i (h_entries m) Empty = Live k v' -> i = j) /\
     exists d, d < h_cap m /\ (home P (h_cap m) k + d) mod h_cap m = j /\
               forall d', d' < d -> nth ((home P (h_cap m) k + d') mod h_cap m) (h_entries m) Empty <> Empty) ->
  c + wl (nth j (h_entries m) Empty) = h_count m + wl e ->
  t + wt (nth j (h_entries m) Empty) = h_tombs m + wt e ->
  Inv0 P {| h_cap := h_cap m; h_count := c; h_tombs := t; h_entries := set_nth (h_entries m) j e |}.
Proof.
  intros P m j e c t I Hj He Hlive Hc Ht.
  assert (Hjl : j < length (h_entries m)) by (rewrite (i_len _ _ I); assumption).
  constructor; simpl.
  - rewrite length_set_nth. apply (i_len _ _ I).
  - apply (i_cap _ _ I).
  - pose proof (sumw_set_nth wl _ _ e Hjl). pose proof (i_count _ _ I). lia.
  - pose proof (sumw_set_nth wt _ _ e Hjl). pose proof (i_tombs _ _ I). lia.
  - intros i i' k v v' H1 H2.
    destruct (Nat.eq_dec i j) as [->|Hi]; destruct (Nat.eq_dec i' j) as [->|Hi']; auto.
    + rewrite nth_set_nth_eq in H1 by assumption. rewrite nth_set_nth_neq in H2 by assumption.
      destruct (Hlive _ _ H1) as [Hu _]. exfalso. apply Hi'. eapply Hu; eauto.
    + rewrite nth_set_nth_eq in H2 by assumption. rewrite nth_set_nth_neq in H1 by assumption.
      destruct (Hlive _ _ H2) as [Hu _]. exfalso. apply Hi. eapply Hu; eauto.
    + rewrite nth_set_nth_neq in H1, H2 by assumption. eapply (i_dist _ _ I); eauto.
  - intros j0 k v H.
    destruct (Nat.eq_dec j0 j) as [->|Hn].
    + rewrite nth_set_nth_eq in H by assumption.
      destruct (Hlive _ _ H) as [_ [d [Hd [Hm Hpre]]]]. exists d. repeat split; auto.
      intros d' Hd'. apply nonempty_set; auto.
    + rewrite nth_set_nth_neq in H by assumption.
      destruct (i_chain _ _ I _ _ _ H) as [d [Hd [Hm Hpre]]]. exists d. repeat split; auto.
      intros d' Hd'. apply nonempty_set; auto.
Qed.

Lemma live_set_other : forall es j e k2 v2, j < length es ->
  (forall v', nth j es Empty <> Live k2 v') -> (forall v', e <> Live k2 v') ->
  (live (set_nth es j e) k2 v2 <-> live es k2 v2).
Proof.
  intros es j e k2 v2 Hj H1 H2. split; intros [i Hi].
  - destruct (Nat.eq_dec i j) as [->|Hn].
    + rewrite nth_set_nth_eq in Hi by assumption. exfalso. eapply H2; eauto.
    + rewrite nth_set_nth_neq in Hi by assumption. exists i; assumption.
  - destruct (Nat.eq_dec i j) as [->|Hn].
    + exfalso. eapply H1; eauto.
    + exists i. rewrite nth_set_nth_neq by assumption. assumption.
Qed.

(* ------------------------------------------------------------------ the association list *)
Definition adist (l : list (hkey * N)) : Prop := NoDup (map fst l).
Lemma alookup_aremove : forall l k k', alookup (aremove l k) k' = if key_eqb k k' then None else alookup l k'.
Proof.
  induction l as [|[k0 v0] r]; intros k k'; simpl.
  - destruct (key_eqb k k'); reflexivity.
  - destruct (key_eqb k0 k) eqn:E.
    + rewrite IHr. destruct (key_eqb k k') eqn:E2; auto.
      apply key_eqb_eq in E. subst. rewrite E2. reflexivity.
    + simpl. destruct (key_eqb k0 k') eqn:E3.
      * destruct (key_eqb k k') eqn:E2; auto.
        apply key_eqb_eq in E3. apply key_eqb_eq in E2. subst. rewrite key_eqb_refl in E. discriminate.
      * apply IHr.
Qed.
Lemma alookup_aput : forall l k v k', alookup (aput l k v) k' = if key_eqb k k' then Some v else alookup l k'.
Proof. intros. unfold aput. simpl. destruct (key_eqb k k') eqn:E; auto. rewrite alookup_aremove, E. reflexivity. Qed.
Lemma aremove_keys : forall l k k', In k' (map fst (aremove l k)) -> In k' (map fst l) /\ k' <> k.
Proof.
  induction l as [|[k0 v0] r]; intros k k' H; simpl in *; [contradiction|].
  destruct (key_eqb k0 k) eqn:E.
  - destruct (IHr _ _ H). split; auto.
  - simpl in H. destruct H as [->|H].
    + split; auto. intros ->. rewrite key_eqb_refl in E. discriminate.
    + destruct (IHr _ _ H). split; auto.
Qed.
Lemma adist_aremove : forall l k, adist l -> adist (aremove l k).
Proof.
  unfold adist. induction l as [|[k0 v0] r]; intros k H; simpl in *; [constructor|].
  inversion H; subst. destruct (key_eqb k0 k); [apply IHr; assumption|].
  simpl. constructor; [|apply IHr; assumption]. intros X. apply aremove_keys in X. tauto.
Qed.
Lemma adist_aput : forall l k v, adist l -> adist (aput l k v).
Proof.
  unfold adist, aput. intros. simpl. constructor; [|apply adist_aremove; assumption].
  intros X. apply aremove_keys in X. tauto.
Qed.
Lemma aremove_notin : forall l k, ~ In k (map fst l) -> aremove l k = l.
Proof.
  induction l as [|[k0 v0] r]; intros k H; simpl in *; auto.
  destruct (key_eqb k0 k) eqn:E.
  - apply key_eqb_eq in E. subst. tauto.
  - f_equal. apply IHr. tauto.
Qed.
Lemma alookup_none_notin : forall l k, alookup l k = None -> ~ In k (map fst l).
Proof.
  induction l as [|[k0 v0] r]; intros k H; simpl in *; auto.
  destruct (key_eqb k0 k) eqn:E; [discriminate|].
  intros [->|X]; [rewrite key_eqb_refl in E; discriminate | eapply IHr; eauto].
Qed.
Lemma aremove_absent : forall l k, alookup l k = None -> aremove l k = l.
Proof. intros. apply aremove_notin. apply alookup_none_notin. assumption. Qed.
Lemma aremove_present_length : forall l k v, adist l -> alookup l k = Some v -> S (length (aremove l k)) = length l.
Proof.
  unfold adist. induction l as [|[k0 v0] r]; intros k v H A; simpl in *; [discriminate|].
  inversion H; subst. destruct (key_eqb k0 k) eqn:E.
  - apply key_eqb_eq in E. subst. rewrite aremove_notin by assumption. reflexivity.
  - simpl. f_equal. eapply IHr; eauto.
Qed.

(* ------------------------------------------------------------------ live pairs of a table *)
Lemma In_live_pairs : forall es k v, In (k, v) (live_pairs es) <-> live es k v.
Proof.
  induction es; intros k v.
  - simpl. split; [contradiction | intros [[|i] H]; discriminate].
  - change (live_pairs (a :: es)) with ((match a with Live k v => [(k, v)] | _ => [] end) ++ live_pairs es).
    rewrite in_app_iff, IHes. split.
    + intros [H|[i H]]; [|exists (S i); assumption]. destruct a; simpl in H; try contradiction.
      destruct H as [H|[]]. injection H as -> ->. exists 0. reflexivity.
    + intros [[|i] H]; simpl in H; [left; subst; simpl; auto | right; exists i; assumption].
Qed.
Lemma length_live_pairs : forall es, length (live_pairs es) = sumw wl es.
Proof.
  induction es; simpl; auto.
  change (live_pairs (a :: es)) with ((match a with Live k v => [(k, v)] | _ => [] end) ++ live_pairs es).
  rewrite app_length, IHes. destruct a; reflexivity.
Qed.
Lemma distinct_tail : forall a es, distinct (a :: es) -> distinct es.
Proof. intros a es H i j k v v' H1 H2. assert (S i = S j) by (eapply H; simpl; eauto). lia. Qed.
Lemma distinct_nodup : forall es, distinct es -> NoDup (map fst (live_pairs es)).
Proof.
  induction es; intros H; [constructor|].
  change (live_pairs (a :: es)) with ((match a with Live k v => [(k, v)] | _ => [] end) ++ live_pairs es).
  pose proof (IHes (distinct_tail _ _ H)) as IH.
  destruct a; simpl; auto. constructor; auto.
  intros X. apply in_map_iff in X. destruct X as [[k' v'] [Hk X]]. simpl in Hk. subst k'.
  apply In_live_pairs in X. destruct X as [i Hi].
  assert (0 = S i) by (eapply H; simpl; eauto). discriminate.
Qed.
Lemma nth_repeat_empty : forall n i, nth i (repeat Empty n) Empty = Empty.
Proof. induction n; destruct i; simpl; auto. Qed.

(* ------------------------------------------------------------------ refinement to the association list *)
Definition absrel (es : list entry) (l : list (hkey * N)) : Prop := forall k v, live es k v <-> alookup l k = Some v.
Definition Rw (P : hparams) (m : hmap) (l : list (hkey * N)) : Prop :=
  Inv0 P m /\ absrel (h_entries m) l /\ h_count m = length l /\ adist l.
Definition R (P : hparams) (m : hmap) (l : list (hkey * N)) : Prop := Rw P m l /\ h_count m + h_tombs m < h_cap m.

(* the parameter values the arithmetic of the load-factor argument was done for *)
Definition hgood (P : hparams) : Prop :=
  hp_shape P = Nested /\ hp_load_num P = 7 /\ hp_load_den P = 10 /\ hp_growth P = 2 /\ hp_min P = 8 /\ hp_init P = 16.

Lemma absrel_put : forall es l j k v, j < length es -> absrel es l ->
  (forall i v', nth i es Empty = Live k v' -> i = j) ->
  (forall k2 v', nth j es Empty = Live k2 v' -> k2 = k) ->
  absrel (set_nth es j (Live k v)) (aput l k v).
Proof.
  intros es l j k v Hj A Hu Hk k2 v2. rewrite alookup_aput.
  destruct (key_eqb k k2) eqn:E.
  - apply key_eqb_eq in E. subst k2. split.
    + intros [i Hi]. destruct (Nat.eq_dec i j) as [->|Hn].
      * rewrite nth_set_nth_eq in Hi by assumption. congruence.
      * rewrite nth_set_nth_neq in Hi by assumption. exfalso. apply Hn. eapply Hu; eauto.
    + intros X. injection X as ->. exists j. apply nth_set_nth_eq. assumption.
  - assert (Hne : k2 <> k) by (intros ->; rewrite key_eqb_refl in E; discriminate).
    rewrite live_set_other; [apply A | assumption | |].
    + intros v' X. apply Hk in X. contradiction.
    + intros v' X. injection X as X _. congruence.
Qed.
Lemma absrel_remove : forall es l j k v0, j < length es -> absrel es l -> distinct es ->
  nth j es Empty = Live k v0 -> absrel (set_nth es j (Tomb k)) (aremove l k).
Proof.
  intros es l j k v0 Hj A D Hl k2 v2. rewrite alookup_aremove.
  destruct (key_eqb k k2) eqn:E.
  - apply key_eqb_eq in E. subst k2. split; [|discriminate].
    intros [i Hi]. destruct (Nat.eq_dec i j) as [->|Hn].
    + rewrite nth_set_nth_eq in Hi by assumption. discriminate.
    + rewrite nth_set_nth_neq in Hi by assumption. exfalso. apply Hn. eapply D; eauto.
  - assert (Hne : k2 <> k) by (intros ->; rewrite key_eqb_refl in E; discriminate).
    rewrite live_set_other; [apply A | assumption | |].
    + intros v' X. congruence.
    + intros v' X. discriminate.
Qed.

Section Ops.
Variable P : hparams.
Hypothesis G : hgood P.
Let Hshape : hp_shape P = Nested := proj1 G.

Lemma absent_of_lookup : forall m l k, absrel (h_entries m) l -> alookup l k = None -> forall i v, nth i (h_entries m) Empty <> Live k v.
Proof. intros m l k A N i v H. assert (X : alookup l k = Some v) by (apply A; exists i; assumption). congruence. Qed.

Lemma hput_at_refines : forall m l k v, Rw P m l -> h_count m + h_tombs m + 1 < h_cap m ->
  exists m', hput_at P m k v = HOk m' None /\ R P m' (aput l k v).
Proof.
  intros m l k v [I [A [C D]]] Hload. unfold hput_at.
  destruct (alookup l k) as [v0|] eqn:L.
  - destruct (proj2 (A k v0) L) as [j Hj].
    rewrite (find_slot_live P Hshape m j k v0 I Hj). rewrite Hj.
    assert (Hjc : j < h_cap m) by (rewrite <- (i_len _ _ I); eapply nth_live_lt; eauto).
    eexists. split; [reflexivity|]. split; [split; [|split; [|split]]|]; simpl.
    + apply Inv0_set; auto; try discriminate; try (rewrite Hj; simpl; lia).
      intros k' w' X. injection X as <- <-. split.
      * intros i v' Hi. eapply (i_dist _ _ I); eauto.
      * apply (i_chain _ _ I _ _ _ Hj).
    + apply absrel_put; auto.
      * rewrite (i_len _ _ I); assumption.
      * intros i v' Hi. eapply (i_dist _ _ I); eauto.
      * intros k2 v' X. congruence.
    + unfold aput. simpl. rewrite (aremove_present_length _ _ _ D L). assumption.
    + apply adist_aput; assumption.
    + lia.
  - pose proof (absent_of_lookup m l k A L) as Hno.
    destruct (find_slot_absent P Hshape m k I ltac:(lia) Hno) as [j [Hf [Hjc [Hst Hch]]]].
    rewrite Hf.
    assert (Hjl : j < length (h_entries m)) by (rewrite (i_len _ _ I); assumption).
    eexists. split; [reflexivity|]. split; [split; [|split; [|split]]|]; simpl.
    + apply Inv0_set; auto; try discriminate.
      * intros k' w' X. injection X as <- <-. split; [|assumption].
        intros i v' Hi. exfalso. eapply Hno; eauto.
      * destruct Hst as [->|[k' ->]]; simpl; lia.
      * destruct Hst as [E|[k' E]]; rewrite E; simpl; [lia|].
        pose proof (tomb_pos _ _ _ E). pose proof (i_tombs _ _ I). lia.
    + apply absrel_put; auto.
      * intros i v' Hi. exfalso. eapply Hno; eauto.
      * intros k2 v' X. destruct Hst as [E|[k' E]]; congruence.
    + unfold aput. simpl. rewrite (aremove_absent _ _ L). lia.
    + apply adist_aput; assumption.
    + destruct Hst as [E|[k' E]]; rewrite E; [lia|].
      pose proof (tomb_pos _ _ _ E). pose proof (i_tombs _ _ I). lia.
Qed.

(* ---- rehash *)
Lemma live_set_fresh : forall es j k v k2 v2, j < length es -> nth j es Empty = Empty ->
  (live (set_nth es j (Live k v)) k2 v2 <-> live es k2 v2 \/ (k2 = k /\ v2 = v)).
Proof.
  intros es j k v k2 v2 Hj He. split.
  - intros [i Hi]. destruct (Nat.eq_dec i j) as [->|Hn].
    + rewrite nth_set_nth_eq in Hi by assumption. injection Hi as -> ->. right; auto.
    + rewrite nth_set_nth_neq in Hi by assumption. left. exists i; assumption.
  - intros [[i Hi]|[-> ->]].
    + exists i. rewrite nth_set_nth_neq; [assumption|]. intros ->. congruence.
    + exists j. apply nth_set_nth_eq. assumption.
Qed.

Lemma reinsert_spec : forall old m1,
  Inv0 P m1 -> h_tombs m1 = 0 ->
  NoDup (map fst (live_pairs old)) ->
  (forall k v, In (k, v) (live_pairs old) -> forall i v', nth i (h_entries m1) Empty <> Live k v') ->
  h_count m1 + length (live_pairs old) < h_cap m1 ->
  exists m2, reinsert P m1 old = Some m2 /\ Inv0 P m2 /\ h_cap m2 = h_cap m1 /\ h_tombs m2 = 0 /\
             h_count m2 = h_count m1 + length (live_pairs old) /\
             forall k v, live (h_entries m2) k v <-> live (h_entries m1) k v \/ In (k, v) (live_pairs old).
Proof.
  induction old as [|e r IH]; intros m1 I T ND Hno Hlen.
  - exists m1. simpl. split; [reflexivity|]. split; [assumption|]. split; [reflexivity|]. split; [assumption|]. split; [lia|]. intros k v. tauto.
  - change (live_pairs (e :: r)) with ((match e with Live k v => [(k, v)] | _ => [] end) ++ live_pairs r) in *.
    destruct e as [|k v|k]; simpl in ND, Hno, Hlen |- *; try (apply IH; assumption).
    inversion ND as [|? ? Hk ND']; subst.
    assert (Hnok : forall i v', nth i (h_entries m1) Empty <> Live k v') by (eapply Hno; left; reflexivity).
    destruct (find_slot_absent P Hshape m1 k I ltac:(lia) Hnok) as [j [Hf [Hjc [Hst Hch]]]].
    rewrite Hf.
    assert (He : nth j (h_entries m1) Empty = Empty).
    { destruct Hst as [E|[k' E]]; auto. exfalso. eapply no_tomb; [|exact E]. rewrite <- (i_tombs _ _ I). assumption. }
    assert (Hjl : j < length (h_entries m1)) by (rewrite (i_len _ _ I); assumption).
    destruct (IH {| h_cap := h_cap m1; h_count := S (h_count m1); h_tombs := h_tombs m1; h_entries := set_nth (h_entries m1) j (Live k v) |})
      as [m2 [Hr [I2 [Hc2 [Ht2 [Hn2 Hl2]]]]]]; simpl; auto; try lia.
    + apply Inv0_set; auto; try discriminate; try (rewrite He; simpl; lia).
      intros k' w' X. injection X as <- <-. split; [|assumption].
      intros i v' Hi. exfalso. eapply Hnok; eauto.
    + intros k2 v2 Hin i v' Hi.
      assert (X : live (set_nth (h_entries m1) j (Live k v)) k2 v') by (exists i; assumption).
      apply live_set_fresh in X; auto. destruct X as [[i' Hi']|[-> _]].
      * eapply Hno; [right; exact Hin | exact Hi'].
      * apply Hk. apply in_map_iff. exists (k, v2). split; auto.
    + exists m2. simpl in *. split; [assumption|]. split; [assumption|]. split; [assumption|]. split; [assumption|]. split; [lia|].
      intros k2 v2. rewrite Hl2. rewrite live_set_fresh by auto. split.
      * intros [[X|[-> ->]]|X]; [left; assumption | right; left; reflexivity | right; right; assumption].
      * intros [X|[X|X]]; [left; left; assumption | injection X as <- <-; left; right; auto | right; assumption].
Qed.

Lemma pow2_ge_ge : forall fuel c n, 1 <= c -> n <= c * 2 ^ fuel -> n <= pow2_ge fuel c n.
Proof.
  induction fuel; intros c n Hc H; simpl in *.
  - destruct (Nat.leb_spec n c); lia.
  - destruct (Nat.leb_spec n c); [lia|]. apply IHfuel; lia.
Qed.
Lemma pow2_ge_min : forall fuel c n, c <= pow2_ge fuel c n.
Proof.
  induction fuel; intros c n; simpl; destruct (Nat.leb n c); try lia.
  specialize (IHfuel (c * 2) n). lia.
Qed.

Lemma Inv0_halloc : forall cap, 8 <= cap -> Inv0 P (halloc cap).
Proof.
  intros cap Hc. constructor; simpl.
  - apply repeat_length.
  - assumption.
  - symmetry. apply sumw_repeat_empty. reflexivity.
  - symmetry. apply sumw_repeat_empty. reflexivity.
  - intros i j k v v' H. rewrite nth_repeat_empty in H. discriminate.
  - intros j k v H. rewrite nth_repeat_empty in H. discriminate.
Qed.

Lemma rehash_refines : forall m l, R P m l ->
  exists m1, rehash P m (h_cap m * hp_growth P) = Some m1 /\ Rw P m1 l /\ h_tombs m1 = 0 /\ h_count m1 = h_count m /\ 2 * h_cap m <= h_cap m1.
Proof.
  intros m l [[I [A [C D]]] Hload].
  pose proof G as [_ [_ [_ [Hg [Hmin _]]]]].
  unfold rehash. rewrite Hg, Hmin.
  pose proof (i_cap _ _ I) as Hc8.
  destruct (Nat.ltb_spec (h_cap m * 2) 8); [lia|].
  set (cap' := pow2_ge (h_cap m * 2) 1 (h_cap m * 2)).
  assert (Hcap' : h_cap m * 2 <= cap').
  { apply pow2_ge_ge; [lia|]. pose proof (Nat.pow_gt_lin_r 2 (h_cap m * 2)). lia. }
  destruct (reinsert_spec (h_entries m) (halloc cap')) as [m2 [Hr [I2 [Hc2 [Ht2 [Hn2 Hl2]]]]]].
  - apply Inv0_halloc. lia.
  - reflexivity.
  - apply distinct_nodup. apply (i_dist _ _ I).
  - intros k v _ i v' X. simpl in X. rewrite nth_repeat_empty in X. discriminate.
  - simpl. rewrite length_live_pairs, <- (i_count _ _ I). lia.
  - exists m2. simpl in *. rewrite length_live_pairs, <- (i_count _ _ I) in Hn2.
    split; [assumption|]. split; [|split; [assumption | split; lia]].
    split; [assumption|]. split; [|split; [lia | assumption]].
    intros k v. rewrite Hl2, In_live_pairs, <- (A k v). split; [|tauto].
    intros [[i X]|X]; [|assumption]. rewrite nth_repeat_empty in X. discriminate.
Qed.

(* ---- every operation *)
Theorem hstep_refines : forall m l o, R P m l ->
  exists m', hstep P m o = HOk m' (snd (amstep l o)) /\ R P m' (fst (amstep l o)).
Proof.
  intros m l o HR. pose proof HR as [[I [A [C D]]] Hload].
  pose proof (i_cap _ _ I) as Hc8.
  destruct o as [k v|k|k|k| |]; simpl.
  - (* put *)
    pose proof G as [_ [Hn [Hd _]]]. rewrite Hn, Hd.
    destruct (Nat.leb_spec (h_cap m * 7) ((h_count m + h_tombs m) * 10)).
    + destruct (rehash_refines m l HR) as [m1 [Hr [HRw [Ht [Hcn Hcap]]]]]. rewrite Hr.
      apply hput_at_refines; [assumption | lia].
    + apply hput_at_refines; [split; auto | lia].
  - (* has *)
    destruct (alookup l k) as [v0|] eqn:L.
    + destruct (proj2 (A k v0) L) as [j Hj]. rewrite (find_slot_live P Hshape m j k v0 I Hj). eauto.
    + destruct (find_slot_absent P Hshape m k I Hload (absent_of_lookup m l k A L)) as [j [Hf _]]. rewrite Hf. eauto.
  - (* get *)
    destruct (alookup l k) as [v0|] eqn:L.
    + destruct (proj2 (A k v0) L) as [j Hj]. rewrite (find_slot_live P Hshape m j k v0 I Hj), Hj. eauto.
    + destruct (find_slot_absent P Hshape m k I Hload (absent_of_lookup m l k A L)) as [j [Hf _]]. rewrite Hf. eauto.
  - (* remove *)
    destruct (alookup l k) as [v0|] eqn:L.
    + destruct (proj2 (A k v0) L) as [j Hj]. rewrite (find_slot_live P Hshape m j k v0 I Hj).
      assert (Hjc : j < h_cap m) by (rewrite <- (i_len _ _ I); eapply nth_live_lt; eauto).
      pose proof (live_pos _ _ _ _ Hj) as Hpos. pose proof (i_count _ _ I) as Hcnt.
      eexists. split; [reflexivity|]. split; [split; [|split; [|split]]|]; simpl.
      * apply Inv0_set; auto; try discriminate; rewrite Hj; simpl; lia.
      * eapply absrel_remove; eauto; [rewrite (i_len _ _ I); assumption | apply (i_dist _ _ I)].
      * pose proof (aremove_present_length _ _ _ D L). lia.
      * apply adist_aremove; assumption.
      * lia.
    + destruct (find_slot_absent P Hshape m k I Hload (absent_of_lookup m l k A L)) as [j [Hf _]]. rewrite Hf.
      rewrite (aremove_absent _ _ L). eauto.
  - (* length *)
    exists m. rewrite C. split; auto.
  - (* clear *)
    eexists. split; [reflexivity|]. split; [split; [|split; [|split]]|]; simpl.
    + apply (Inv0_halloc (h_cap m) Hc8).
    + intros k v. simpl. split; [|discriminate]. intros [i X]. rewrite nth_repeat_empty in X. discriminate.
    + reflexivity.
    + apply NoDup_nil.
    + lia.
Qed.

Lemma halloc_R : forall cap, 8 <= cap -> R P (halloc cap) [].
Proof.
  intros cap Hc. split; [split; [|split; [|split]]|]; simpl.
  - apply Inv0_halloc. assumption.
  - intros k v. simpl. split; [|discriminate]. intros [i X]. rewrite nth_repeat_empty in X. discriminate.
  - reflexivity.
  - apply NoDup_nil.
  - lia.
Qed.
Lemma hnew_R : R P (hnew P) [].
Proof. unfold hnew. pose proof G as [_ [_ [_ [_ [_ Hi]]]]]. rewrite Hi. apply halloc_R. lia. Qed.

Theorem hrun_refines : forall ops m l, R P m l ->
  exists m', hrun P m ops = (amrun l ops, HFin m') /\ exists l', R P m' l'.
Proof.
  induction ops as [|o r IH]; intros m l HR; simpl.
  - exists m. split; eauto.
  - destruct (hstep_refines m l o HR) as [m1 [Hs HR1]]. rewrite Hs.
    destruct (amstep l o) as [l1 x] eqn:E. simpl in *.
    destruct (IH m1 l1 HR1) as [m' [Hr HR']]. rewrite Hr. exists m'. split; auto.
Qed.
Corollary hrun_from_new : forall ops, exists m', hrun P (hnew P) ops = (amrun [] ops, HFin m') /\ Inv P m'.
Proof.
  intros ops. destruct (hrun_refines ops _ _ hnew_R) as [m' [H [l' [[I _] Hl]]]]. exists m'. split; [assumption | split; assumption].
Qed.
End Ops.

(* ------------------------------------------------------------------ no access to a freed key, without any invariant *)
Theorem nested_never_crashes : forall P m o, hp_shape P = Nested -> hstep P m o <> HCrash.
Proof.
  intros P m o Hs.
  assert (Hre : forall old m1, reinsert P m1 old <> None).
  { induction old as [|e r IH]; intros m1; simpl; [discriminate|].
    destruct e; auto. pose proof (find_slot_nested_ok P Hs m1 k) as Hf.
    destruct (find_slot P m1 k) as [[i|] ?|]; auto. }
  assert (Hput : forall m1 k v, hput_at P m1 k v <> HCrash).
  { intros m1 k v. unfold hput_at. pose proof (find_slot_nested_ok P Hs m1 k) as Hf.
    destruct (find_slot P m1 k) as [[i|] [|]|]; try discriminate. congruence. }
  destruct o as [k v|k|k|k| |]; simpl; try discriminate.
  - destruct (Nat.leb _ _); [|apply Hput]. unfold rehash.
    match goal with |- context [reinsert P ?a ?b] => pose proof (Hre b a) as X; destruct (reinsert P a b) end; [apply Hput | congruence].
  - pose proof (find_slot_nested_ok P Hs m k) as Hf. destruct (find_slot P m k); [discriminate | congruence].
  - pose proof (find_slot_nested_ok P Hs m k) as Hf. destruct (find_slot P m k) as [[i|] [|]|]; try discriminate. congruence.
  - pose proof (find_slot_nested_ok P Hs m k) as Hf. destruct (find_slot P m k) as [[i|] [|]|]; try discriminate. congruence.
Qed.

(* ------------------------------------------------------------------ the capacity stays a power of two: `& (capacity - 1)` of the C text is `mod capacity` *)
Definition is_pow2 (n : nat) : Prop := exists e, n = 2 ^ e.
Lemma pow2_ge_pow2 : forall fuel c n, is_pow2 c -> is_pow2 (pow2_ge fuel c n).
Proof.
  induction fuel; intros c n [e He]; simpl; destruct (Nat.leb n c); try (exists e; assumption).
  apply IHfuel. exists (S e). simpl. lia.
Qed.
Lemma reinsert_cap : forall P old m1 m2, reinsert P m1 old = Some m2 -> h_cap m2 = h_cap m1.
Proof.
  induction old as [|e r IH]; intros m1 m2 H; simpl in H; [congruence|].
  destruct e; try (apply IH; assumption).
  destruct (find_slot P m1 k) as [[i|] ?|]; try discriminate; [apply IH in H; simpl in H; assumption | apply IH; assumption].
Qed.
Lemma hput_at_cap : forall P m k v m' x, hput_at P m k v = HOk m' x -> h_cap m' = h_cap m.
Proof.
  intros P m k v m' x H. unfold hput_at in H.
  destruct (find_slot P m k) as [[i|] [|]|]; try discriminate; injection H as <- _; reflexivity.
Qed.
Lemma hstep_cap_pow2 : forall P m o m' x, is_pow2 (h_cap m) -> hstep P m o = HOk m' x -> is_pow2 (h_cap m').
Proof.
  intros P m o m' x Hp H. destruct o as [k v|k|k|k| |]; simpl in H.
  - destruct (Nat.leb _ _).
    + unfold rehash in H.
      match type of H with context [reinsert P ?a ?b] => destruct (reinsert P a b) as [m1|] eqn:E end; [|discriminate].
      apply reinsert_cap in E. apply hput_at_cap in H. rewrite H, E. simpl. apply pow2_ge_pow2. exists 0. reflexivity.
    + apply hput_at_cap in H. rewrite H. assumption.
  - destruct (find_slot P m k); try discriminate. injection H as <- _. assumption.
  - destruct (find_slot P m k) as [[i|] [|]|]; try discriminate; injection H as <- _; assumption.
  - destruct (find_slot P m k) as [[i|] [|]|]; try discriminate; injection H as <- _; assumption.
  - injection H as <- _. assumption.
  - injection H as <- _. assumption.
Qed.
Theorem hrun_cap_pow2 : forall P ops m xs m', is_pow2 (h_cap m) -> hrun P m ops = (xs, HFin m') -> is_pow2 (h_cap m').
Proof.
  induction ops as [|o r IH]; intros m xs m' Hp H; simpl in H.
  - injection H as _ <-. assumption.
  - destruct (hstep P m o) as [m1 x|] eqn:E; [|discriminate].
    destruct (hrun P m1 r) as [ys f] eqn:E2. injection H as _ ->.
    eapply IH; [|exact E2]. eapply hstep_cap_pow2; eauto.
Qed.
Lemma home_is_mod : forall P e k, home P (2 ^ e) k = N.to_nat (hash P k mod 2 ^ N.of_nat e)%N.
Proof.
  intros. unfold home. f_equal.
  rewrite Nat2N.inj_pow. change (N.of_nat 2) with 2%N.
  rewrite <- N.pred_sub, <- N.ones_equiv. apply N.land_ones.
Qed.
