(* Executable model of the runtime list template /repo/src/runtime/list_int.c (list_string.c, list_token.c, the 38 list_<Type>.c
   files and the output of scripts/generate_list.sh are the same text up to the element type: tools/gen/gen_listrt.py checks that on
   every run).  Definitions only (extracted).

   List_T = {data; length; capacity}.  [r_data] is the heap block of [length r_data] cells; a cell nobody wrote holds [junk].  Every
   access of the C goes through [cget] / [cput] / the checked moves, which answer None outside the block = outcome [LCrash].
   An index outside the list / a pop of the empty list is the C's `fprintf(stderr, "Error: ..."); exit(1);` = [LExit] (defined stop).
   ensure_capacity(min): if (capacity >= min) return; new = capacity ? capacity : INITIAL; while (new < min) new *= GROWTH; realloc.
   INITIAL and GROWTH are the fields of [lparams], measured on the current list_int.c by tools/gen/gen_listrt.py.
   realloc/malloc are assumed to succeed; lengths stay far below INT_MAX (the C counts in int). *)
From Coq Require Import NArith ZArith List Bool.
Import ListNotations.

Record lparams := { lp_init : nat; lp_growth : nat }.
Record rlist := { r_len : nat; r_cap : nat; r_data : list N }.
Definition junk : N := 12297829382473034410%N.      (* 0xAAAA...: contents of a cell malloc/realloc returned and nobody wrote *)

Inductive lop :=
| RPush (v : N) | RPop | RInsert (i : Z) (v : N) | RRemove (i : Z) | RSet (i : Z) (v : N) | RGet (i : Z)
| RClear | RLength | RCapacity | RIsEmpty.
Inductive rout := RUnit | RVal (v : N) | RNat (n : nat) | RBool (b : bool).
Inductive rres := ROk_ (s : rlist) (o : rout) | RExit | RCrash_.

(* list_T_with_capacity(c), c >= 0: malloc(sizeof(T) * c) *)
Definition rl_with_capacity (c : nat) : rlist := {| r_len := 0; r_cap := c; r_data := repeat junk c |}.
Definition rl_new (P : lparams) : rlist := rl_with_capacity (lp_init P).

Fixpoint grow_to (fuel : nat) (g c m : nat) : nat :=
  if Nat.leb m c then c else match fuel with O => c | S k => grow_to k g (c * g) m end.
Definition ensure_capacity (P : lparams) (s : rlist) (m : nat) : rlist :=
  if Nat.leb m (r_cap s) then s else
  let c0 := match r_cap s with O => lp_init P | c => c end in
  let nc := grow_to m (lp_growth P) c0 m in       (* fuel m always suffices: the capacity at least doubles *)
  {| r_len := r_len s; r_cap := nc; r_data := firstn nc (r_data s) ++ repeat junk (nc - length (r_data s)) |}.

Fixpoint cput (l : list N) (i : nat) (v : N) : option (list N) :=
  match l, i with
  | [], _ => None
  | _ :: r, O => Some (v :: r)
  | x :: r, S j => match cput r j v with Some r' => Some (x :: r') | None => None end
  end.
(* memmove(&data[i + 1], &data[i], n cells) then data[i] = v *)
Definition shift_up (l : list N) (i n : nat) (v : N) : option (list N) :=
  if Nat.leb (i + 1 + n) (length l) then Some (firstn i l ++ v :: firstn n (skipn i l) ++ skipn (i + 1 + n) l) else None.
(* memmove(&data[i], &data[i + 1], n cells) *)
Definition shift_down (l : list N) (i n : nat) : option (list N) :=
  if Nat.leb (i + 1 + n) (length l) then Some (firstn i l ++ firstn n (skipn (i + 1) l) ++ skipn (i + n) l) else None.

Definition idx_in (i : Z) (n : nat) : bool := (0 <=? i)%Z && (i <? Z.of_nat n)%Z.
Definition set_d (s : rlist) (d : list N) : rlist := {| r_len := r_len s; r_cap := r_cap s; r_data := d |}.
Definition set_l (s : rlist) (n : nat) : rlist := {| r_len := n; r_cap := r_cap s; r_data := r_data s |}.

Definition rstep (P : lparams) (s : rlist) (o : lop) : rres :=
  match o with
  | RPush v =>
      let s1 := ensure_capacity P s (r_len s + 1) in
      match cput (r_data s1) (r_len s1) v with
      | Some d => ROk_ {| r_len := S (r_len s1); r_cap := r_cap s1; r_data := d |} RUnit
      | None => RCrash_
      end
  | RPop =>
      match r_len s with
      | O => RExit                                            (* "Cannot pop from empty list" *)
      | S n => match nth_error (r_data s) n with Some v => ROk_ (set_l s n) (RVal v) | None => RCrash_ end
      end
  | RInsert i v =>
      if negb ((0 <=? i)%Z && (i <=? Z.of_nat (r_len s))%Z) then RExit else
      let s1 := ensure_capacity P s (r_len s + 1) in
      let k := Z.to_nat i in
      match shift_up (r_data s1) k (r_len s1 - k) v with
      | Some d => ROk_ {| r_len := S (r_len s1); r_cap := r_cap s1; r_data := d |} RUnit
      | None => RCrash_
      end
  | RRemove i =>
      if negb (idx_in i (r_len s)) then RExit else
      let k := Z.to_nat i in
      match nth_error (r_data s) k, shift_down (r_data s) k (r_len s - k - 1) with
      | Some v, Some d => ROk_ {| r_len := r_len s - 1; r_cap := r_cap s; r_data := d |} (RVal v)
      | _, _ => RCrash_
      end
  | RSet i v =>
      if negb (idx_in i (r_len s)) then RExit else
      match cput (r_data s) (Z.to_nat i) v with Some d => ROk_ (set_d s d) RUnit | None => RCrash_ end
  | RGet i =>
      if negb (idx_in i (r_len s)) then RExit else
      match nth_error (r_data s) (Z.to_nat i) with Some v => ROk_ s (RVal v) | None => RCrash_ end
  | RClear => ROk_ (set_l s 0) RUnit
  | RLength => ROk_ s (RNat (r_len s))
  | RCapacity => ROk_ s (RNat (r_cap s))
  | RIsEmpty => ROk_ s (RBool (Nat.eqb (r_len s) 0))
  end.

Inductive rfin := RFin (s : rlist) | RExited | RCrashed.
Fixpoint rrun (P : lparams) (s : rlist) (ops : list lop) : list rout * rfin :=
  match ops with
  | [] => ([], RFin s)
  | o :: r => match rstep P s o with
              | ROk_ s' x => let (xs, f) := rrun P s' r in (x :: xs, f)
              | RExit => ([], RExited)
              | RCrash_ => ([], RCrashed)
              end
  end.

(* ------------------------------------------------------------------ the abstract list: insert = firstn ++ x :: skipn *)
Definition rabs (s : rlist) : list N := firstn (r_len s) (r_data s).
Fixpoint aupd (l : list N) (i : nat) (v : N) : list N :=
  match l, i with [], _ => [] | _ :: r, O => v :: r | x :: r, S j => x :: aupd r j v end.
Inductive ares := AOk (l : list N) (o : rout) | AExit | ANoSpec.
(* RCapacity is the one observation a sequence cannot answer *)
Definition astep (l : list N) (o : lop) : ares :=
  match o with
  | RPush v => AOk (l ++ [v]) RUnit
  | RPop => match l with [] => AExit | _ => AOk (removelast l) (RVal (last l 0%N)) end
  | RInsert i v => if negb ((0 <=? i)%Z && (i <=? Z.of_nat (length l))%Z) then AExit
                   else AOk (firstn (Z.to_nat i) l ++ v :: skipn (Z.to_nat i) l) RUnit
  | RRemove i => if negb (idx_in i (length l)) then AExit
                 else AOk (firstn (Z.to_nat i) l ++ skipn (S (Z.to_nat i)) l) (RVal (nth (Z.to_nat i) l 0%N))
  | RSet i v => if negb (idx_in i (length l)) then AExit else AOk (aupd l (Z.to_nat i) v) RUnit
  | RGet i => if negb (idx_in i (length l)) then AExit else AOk l (RVal (nth (Z.to_nat i) l 0%N))
  | RClear => AOk [] RUnit
  | RLength => AOk l (RNat (length l))
  | RCapacity => ANoSpec
  | RIsEmpty => AOk l (RBool (Nat.eqb (length l) 0))
  end.
Inductive afin := AFin (l : list N) | AExited | ANone.
Fixpoint arun (l : list N) (ops : list lop) : list rout * afin :=
  match ops with
  | [] => ([], AFin l)
  | o :: r => match astep l o with
              | AOk l' x => let (xs, f) := arun l' r in (x :: xs, f)
              | AExit => ([], AExited)
              | ANoSpec => ([], ANone)
              end
  end.

Definition rinvb (s : rlist) : bool := Nat.leb (r_len s) (r_cap s) && Nat.eqb (length (r_data s)) (r_cap s).
