(* Proofs about NV.Runtime.ListRt: the list template with capacity, storage block and checked accesses refines the plain list
   (insert = firstn ++ x :: skipn); the representation invariant is preserved; no access leaves the block. *)
From Coq Require Import NArith ZArith Arith PeanoNat List Bool Lia.
From NV Require Import Runtime.ListRt.
Import ListNotations.

Definition good_lp (P : lparams) : Prop := (1 <= lp_init P)%nat /\ (2 <= lp_growth P)%nat.
Definition rinv (s : rlist) : Prop := (r_len s <= r_cap s)%nat /\ length (r_data s) = r_cap s.

Lemma grow_ok g : (2 <= g)%nat -> forall fuel c m, (1 <= c)%nat -> (m <= c * 2 ^ fuel)%nat ->
  (m <= grow_to fuel g c m)%nat /\ (c <= grow_to fuel g c m)%nat.
Proof.
  intros Hg. induction fuel as [|k IH]; intros c m Hc Hm; cbn [grow_to].
  - simpl in Hm. destruct (Nat.leb m c) eqn:E; [apply Nat.leb_le in E; lia|apply Nat.leb_gt in E; lia].
  - destruct (Nat.leb m c) eqn:E; [apply Nat.leb_le in E; lia|].
    assert (H2 : (m <= c * g * 2 ^ k)%nat).
    { rewrite Nat.pow_succ_r' in Hm. nia. }
    destruct (IH (c * g)%nat m ltac:(nia) H2) as [A B]. split; [exact A|nia].
Qed.

Lemma pow_gt n : (n <= 2 ^ n)%nat.
Proof. pose proof (Nat.pow_gt_lin_r 2 n ltac:(lia)). lia. Qed.

Lemma firstn_app_le {A} (a b : list A) n : (n <= length a)%nat -> firstn n (a ++ b) = firstn n a.
Proof. intros H. rewrite firstn_app. replace (n - length a)%nat with 0%nat by lia. simpl. apply app_nil_r. Qed.

Lemma ensure_ok P s m : good_lp P -> rinv s ->
  let s1 := ensure_capacity P s m in
  rinv s1 /\ r_len s1 = r_len s /\ (m <= r_cap s1)%nat /\ rabs s1 = rabs s /\ (r_cap s <= r_cap s1)%nat.
Proof.
  intros (Hi & Hg) (I1 & I2). unfold ensure_capacity.
  destruct (Nat.leb m (r_cap s)) eqn:E.
  - apply Nat.leb_le in E. cbn zeta. repeat split; auto; lia.
  - apply Nat.leb_gt in E. cbn zeta.
    set (c0 := match r_cap s with O => lp_init P | S n => S n end).
    assert (Hc0 : (1 <= c0)%nat /\ (r_cap s <= c0)%nat) by (unfold c0; destruct (r_cap s); lia).
    destruct (grow_ok (lp_growth P) Hg m c0 m (proj1 Hc0)) as [A B].
    { pose proof (pow_gt m). nia. }
    set (nc := grow_to m (lp_growth P) c0 m) in *.
    unfold rinv, rabs; cbn [r_len r_cap r_data].
    assert (Hf : firstn nc (r_data s) = r_data s) by (apply firstn_all2; lia).
    rewrite Hf. repeat split; try lia.
    + rewrite app_length, repeat_length. lia.
    + apply firstn_app_le. lia.
Qed.

Lemma cput_len l : forall i v l', cput l i v = Some l' -> length l' = length l.
Proof.
  induction l as [|x r IH]; intros [|j] v l' H; simpl in *; try discriminate.
  - inversion H; reflexivity.
  - destruct (cput r j v) eqn:E; [|discriminate]. inversion H; subst. simpl. f_equal. eapply IH; eauto.
Qed.
Lemma cput_ex l : forall i v, (i < length l)%nat -> exists l', cput l i v = Some l'.
Proof.
  induction l as [|x r IH]; intros [|j] v H; simpl in *; try lia.
  - eexists; reflexivity.
  - destruct (IH j v ltac:(lia)) as [r' E]. rewrite E. eexists; reflexivity.
Qed.
Lemma cput_firstn_S l : forall i v l', cput l i v = Some l' -> firstn (S i) l' = firstn i l ++ [v].
Proof.
  induction l as [|x r IH]; intros [|j] v l' H; simpl in *; try discriminate.
  - inversion H; reflexivity.
  - destruct (cput r j v) eqn:E; [|discriminate]. inversion H; subst.
    change (firstn (S (S j)) (x :: l)) with (x :: firstn (S j) l). rewrite (IH _ _ _ E). reflexivity.
Qed.
Lemma cput_firstn_gt l : forall i v l' n, cput l i v = Some l' -> (i < n)%nat -> firstn n l' = aupd (firstn n l) i v.
Proof.
  induction l as [|x r IH]; intros [|j] v l' n H Hn; simpl in *; try discriminate.
  - inversion H; subst. destruct n; [lia|]. reflexivity.
  - destruct (cput r j v) eqn:E; [|discriminate]. inversion H; subst.
    destruct n; [lia|]. simpl. f_equal. eapply IH; eauto. lia.
Qed.
Lemma nth_error_some_lt (l : list N) i : (i < length l)%nat -> exists v, nth_error l i = Some v.
Proof. intros H. destruct (nth_error l i) eqn:E; eauto. apply nth_error_None in E. lia. Qed.
Lemma nth_firstn (l : list N) : forall i n v, nth_error l i = Some v -> (i < n)%nat -> nth i (firstn n l) 0%N = v.
Proof.
  induction l as [|x r IH]; intros [|j] n v H Hn; simpl in *; try discriminate.
  - inversion H; subst. destruct n; [lia|]. reflexivity.
  - destruct n; [lia|]. simpl. apply IH; auto. lia.
Qed.
Lemma firstn_S_nth (l : list N) : forall n v, nth_error l n = Some v -> firstn (S n) l = firstn n l ++ [v].
Proof.
  induction l as [|x r IH]; intros [|j] v H; simpl in *; try discriminate.
  - inversion H; reflexivity.
  - f_equal. apply IH; auto.
Qed.

Lemma rabs_len s : rinv s -> length (rabs s) = r_len s.
Proof. intros (A & B). unfold rabs. rewrite firstn_length. lia. Qed.

Lemma idx_in_nat i n : idx_in i n = true -> (Z.to_nat i < n)%nat.
Proof. unfold idx_in. rewrite andb_true_iff, Z.leb_le, Z.ltb_lt. lia. Qed.

Definition rsim (P : lparams) (s : rlist) (o : lop) : Prop :=
  match astep (rabs s) o with
  | AOk l' x => exists s', rstep P s o = ROk_ s' x /\ rabs s' = l' /\ rinv s'
  | AExit => rstep P s o = RExit
  | ANoSpec => exists s' x, rstep P s o = ROk_ s' x /\ rabs s' = rabs s /\ rinv s'
  end.

Theorem rstep_refines P s o : good_lp P -> rinv s -> rsim P s o.
Proof.
  intros GP I. pose proof (rabs_len s I) as HL. pose proof I as (I1 & I2).
  unfold rsim. destruct o as [v| |i v|i|i v|i| | | | ]; cbn [astep rstep]; rewrite ?HL.
  - (* push *)
    destruct (ensure_ok P s (r_len s + 1) GP I) as (J & L1 & C1 & A1 & _). cbn zeta in *.
    set (s1 := ensure_capacity P s (r_len s + 1)) in *. destruct J as (J1 & J2).
    destruct (cput_ex (r_data s1) (r_len s1) v ltac:(lia)) as [d Ed]. rewrite Ed.
    eexists. split; [reflexivity|]. split.
    + unfold rabs; cbn [r_len r_data]. rewrite (cput_firstn_S _ _ _ _ Ed). fold (rabs s1). rewrite A1. reflexivity.
    + unfold rinv; cbn [r_len r_cap r_data]. rewrite (cput_len _ _ _ _ Ed). lia.
  - (* pop *)
    destruct (r_len s) as [|n] eqn:En.
    + assert (E : rabs s = []) by (destruct (rabs s); [reflexivity|simpl in HL; lia]). rewrite E. reflexivity.
    + destruct (nth_error_some_lt (r_data s) n ltac:(lia)) as [v Ev]. rewrite Ev.
      assert (E : rabs s = firstn n (r_data s) ++ [v]) by (unfold rabs; rewrite En; apply firstn_S_nth; exact Ev).
      rewrite E. destruct (firstn n (r_data s) ++ [v]) eqn:Eapp; [destruct (firstn n (r_data s)); discriminate|]. rewrite <- Eapp.
      rewrite removelast_last, last_last. exists (set_l s n). split; [reflexivity|]. split; [reflexivity|].
      unfold rinv, set_l; cbn. lia.
  - (* insert *)
    destruct ((0 <=? i)%Z && (i <=? Z.of_nat (r_len s))%Z) eqn:Er; cbn [negb]; [|reflexivity].
    apply andb_true_iff in Er. destruct Er as [E0 E1]. apply Z.leb_le in E0. apply Z.leb_le in E1.
    destruct (ensure_ok P s (r_len s + 1) GP I) as (J & L1 & C1 & A1 & _). cbn zeta in *.
    set (s1 := ensure_capacity P s (r_len s + 1)) in *. destruct J as (J1 & J2).
    set (k := Z.to_nat i). assert (Hk : (k <= r_len s)%nat) by (unfold k; lia).
    unfold shift_up. rewrite L1.
    assert (Hle : Nat.leb (k + 1 + (r_len s - k)) (length (r_data s1)) = true) by (apply Nat.leb_le; lia).
    rewrite Hle. eexists. split; [reflexivity|]. split.
    + rewrite <- A1. unfold rabs; cbn [r_len r_data]. rewrite L1.
      set (d := r_data s1).
      assert (F1 : firstn k (firstn (r_len s) d) = firstn k d) by (rewrite firstn_firstn; f_equal; lia).
      assert (F2 : skipn k (firstn (r_len s) d) = firstn (r_len s - k) (skipn k d)) by apply skipn_firstn_comm.
      rewrite F1, F2.
      replace (S (r_len s)) with (k + S (r_len s - k))%nat by lia.
      rewrite firstn_app, firstn_length. replace (Nat.min k (length d)) with k by (unfold d; lia).
      replace (k + S (r_len s - k) - k)%nat with (S (r_len s - k)) by lia.
      rewrite (firstn_all2 (n := (k + S (r_len s - k))%nat) (firstn k d)) by (rewrite firstn_length; lia).
      f_equal. cbn [firstn]. f_equal. rewrite firstn_app_le by (rewrite firstn_length, skipn_length; unfold d; lia).
      apply firstn_all2. rewrite firstn_length, skipn_length. unfold d. lia.
    + unfold rinv; cbn [r_len r_cap r_data]. split; [lia|].
      rewrite app_length. cbn [length]. rewrite app_length, !firstn_length, !skipn_length. lia.
  - (* remove *)
    destruct (idx_in i (r_len s)) eqn:Er; cbn [negb]; [|reflexivity].
    apply idx_in_nat in Er. set (k := Z.to_nat i) in *.
    destruct (nth_error_some_lt (r_data s) k ltac:(lia)) as [v Ev]. rewrite Ev.
    unfold shift_down.
    assert (Hle : Nat.leb (k + 1 + (r_len s - k - 1)) (length (r_data s)) = true) by (apply Nat.leb_le; lia).
    rewrite Hle.
    assert (Hn : nth k (rabs s) 0%N = v) by (unfold rabs; apply nth_firstn; auto). rewrite Hn.
    eexists. split; [|split].
    + reflexivity.
    + unfold rabs; cbn [r_len r_data]. set (d := r_data s).
      rewrite firstn_firstn. replace (Nat.min k (r_len s)) with k by lia.
      rewrite skipn_firstn_comm.
      rewrite app_assoc. rewrite firstn_app_le by (rewrite app_length, !firstn_length, skipn_length; unfold d; lia).
      rewrite firstn_all2 by (rewrite app_length, !firstn_length, skipn_length; unfold d; lia).
      replace (k + 1)%nat with (S k) by lia. replace (r_len s - S k)%nat with (r_len s - k - 1)%nat by lia. reflexivity.
    + unfold rinv; cbn [r_len r_cap r_data]. split; [lia|].
      rewrite !app_length, !firstn_length, !skipn_length. lia.
  - (* set *)
    destruct (idx_in i (r_len s)) eqn:Er; cbn [negb]; [|reflexivity].
    apply idx_in_nat in Er.
    destruct (cput_ex (r_data s) (Z.to_nat i) v ltac:(lia)) as [d Ed]. rewrite Ed.
    exists (set_d s d). split; [reflexivity|]. split.
    + unfold rabs, set_d; cbn. apply (cput_firstn_gt _ _ _ _ _ Ed Er).
    + unfold rinv, set_d; cbn. rewrite (cput_len _ _ _ _ Ed). lia.
  - (* get *)
    destruct (idx_in i (r_len s)) eqn:Er; cbn [negb]; [|reflexivity].
    apply idx_in_nat in Er.
    destruct (nth_error_some_lt (r_data s) (Z.to_nat i) ltac:(lia)) as [v Ev]. rewrite Ev.
    assert (Hn : nth (Z.to_nat i) (rabs s) 0%N = v) by (unfold rabs; apply nth_firstn; auto). rewrite Hn.
    exists s. split; [reflexivity|split; [reflexivity|exact I]].
  - exists (set_l s 0). split; [reflexivity|]. split; [reflexivity|]. unfold rinv, set_l; cbn. lia.
  - exists s. auto.
  - exists s, (RNat (r_cap s)). auto.
  - exists s. auto.
Qed.

Lemma rinv_new c : rinv (rl_with_capacity c).
Proof. unfold rinv, rl_with_capacity; cbn. rewrite repeat_length. lia. Qed.

(* whole histories (capacity queries removed: a sequence has none) *)
Theorem rrun_refines P : good_lp P -> forall ops s, rinv s ->
  match arun (rabs s) ops with
  | (outs, AFin l') => exists s', rrun P s ops = (outs, RFin s') /\ rabs s' = l' /\ rinv s'
  | (outs, AExited) => rrun P s ops = (outs, RExited)
  | (_, ANone) => True
  end.
Proof.
  intros GP. induction ops as [|o r IH]; intros s I.
  - cbn [arun rrun]. exists s. auto.
  - cbn [arun rrun]. pose proof (rstep_refines P s o GP I) as S. unfold rsim in S.
    destruct (astep (rabs s) o) as [l' x| |].
    + destruct S as (s' & S1 & S2 & S3). rewrite S1. specialize (IH s' S3). rewrite S2 in IH.
      destruct (arun l' r) as [outs f]. destruct f as [l''| |].
      * destruct IH as (s'' & R & A & Iv). rewrite R. exists s''. auto.
      * rewrite IH. reflexivity.
      * trivial.
    + rewrite S. reflexivity.
    + trivial.
Qed.

(* no operation ever touches memory outside the block, whatever the index *)
Theorem rstep_no_crash P s o : good_lp P -> rinv s -> rstep P s o <> RCrash_.
Proof.
  intros GP I. pose proof (rstep_refines P s o GP I) as S. unfold rsim in S.
  destruct (astep (rabs s) o).
  - destruct S as (s' & E & _). rewrite E. discriminate.
  - rewrite S. discriminate.
  - destruct S as (s' & x & E & _). rewrite E. discriminate.
Qed.

Theorem rstep_inv P s o s' x : good_lp P -> rinv s -> rstep P s o = ROk_ s' x -> rinv s'.
Proof.
  intros GP I St. pose proof (rstep_refines P s o GP I) as S. unfold rsim in S.
  destruct (astep (rabs s) o).
  - destruct S as (s2 & E & _ & Iv). rewrite E in St. inversion St; subst. exact Iv.
  - rewrite S in St. discriminate.
  - destruct S as (s2 & y & E & _ & Iv). rewrite E in St. inversion St; subst. exact Iv.
Qed.
