(* Proofs about NV.Runtime.Gc: the bookkeeping invariant of gc.c, "release to zero frees exactly once", and what a
   stale release really does. *)
From Coq Require Import NArith List Bool Lia.
From NV Require Import Runtime.Gc.
Import ListNotations.
Local Open Scope N_scope.

(* ---------------------------------------------------------------- list facts *)
Lemma mem_In l p : mem l p = true <-> In p l.
Proof.
  induction l as [|q r IH]; simpl; [split; [discriminate|tauto]|].
  rewrite orb_true_iff, N.eqb_eq, IH. tauto.
Qed.
Lemma mem_false l p : mem l p = false <-> ~ In p l.
Proof. rewrite <- mem_In. destruct (mem l p); split; congruence. Qed.

Lemma remove1_In l p q : NoDup l -> (In q (remove1 l p) <-> In q l /\ q <> p).
Proof.
  induction l as [|x r IH]; intros ND; simpl; [tauto|].
  inversion ND as [|? ? Hx Hr]; subst.
  destruct (N.eqb x p) eqn:E.
  - apply N.eqb_eq in E; subst. split.
    + intros H. split; [right; exact H|]. intros ->. contradiction.
    + intros [[H|H] Hn]; [congruence|exact H].
  - apply N.eqb_neq in E. simpl. rewrite (IH Hr). split.
    + intros [H|[H Hn]]; [subst; split; [left; reflexivity|exact E]|split; [right; exact H|exact Hn]].
    + intros [[H|H] Hn]; [left; exact H|right; split; assumption].
Qed.
Lemma remove1_NoDup l p : NoDup l -> NoDup (remove1 l p).
Proof.
  induction l as [|x r IH]; intros ND; simpl; [constructor|].
  inversion ND as [|? ? Hx Hr]; subst. destruct (N.eqb x p); [exact Hr|].
  constructor; [|apply IH; exact Hr]. intros H. apply (remove1_In r p x Hr) in H. tauto.
Qed.
Lemma remove1_notin l p : ~ In p l -> remove1 l p = l.
Proof.
  induction l as [|x r IH]; intros H; simpl; [reflexivity|].
  destruct (N.eqb x p) eqn:E; [apply N.eqb_eq in E; subst; exfalso; apply H; left; reflexivity|].
  f_equal. apply IH. intros C. apply H. right; exact C.
Qed.

Lemma lookup_In h p : (exists x, lookup h p = Some x) <-> In p (map fst h).
Proof.
  induction h as [|[q y] r IH]; simpl; [split; [intros [x H]; discriminate|tauto]|].
  destruct (N.eqb q p) eqn:E.
  - apply N.eqb_eq in E. split; [intros _; left; exact E|intros _; eexists; reflexivity].
  - apply N.eqb_neq in E. rewrite IH. split; [intros H; right; exact H|intros [H|H]; [contradiction|exact H]].
Qed.
Lemma lookup_None h p : lookup h p = None <-> ~ In p (map fst h).
Proof.
  rewrite <- lookup_In. destruct (lookup h p); split; intros H; try congruence.
  - exfalso. apply H. eexists; reflexivity.
  - intros [x C]. discriminate.
Qed.
Lemma store_keys h p x : map fst (store h p x) = map fst h.
Proof. induction h as [|[q y] r IH]; simpl; [reflexivity|]. destruct (N.eqb q p); simpl; [reflexivity|f_equal; exact IH]. Qed.
Lemma lookup_store h p x q : lookup (store h p x) q =
  if N.eqb q p then match lookup h p with Some _ => Some x | None => None end else lookup h q.
Proof.
  induction h as [|[k y] r IH]; simpl; [destruct (N.eqb q p); reflexivity|].
  destruct (N.eqb k p) eqn:E1; simpl.
  - apply N.eqb_eq in E1; subst. destruct (N.eqb q p) eqn:E2.
    + apply N.eqb_eq in E2; subst. rewrite N.eqb_refl. reflexivity.
    + rewrite N.eqb_sym, E2. reflexivity.
  - destruct (N.eqb q p) eqn:E2.
    + apply N.eqb_eq in E2; subst. rewrite E1. exact IH.
    + destruct (N.eqb k q); [reflexivity|exact IH].
Qed.
Lemma drop_keys h p : map fst (drop h p) = remove1 (map fst h) p.
Proof. induction h as [|[q y] r IH]; simpl; [reflexivity|]. destruct (N.eqb q p); simpl; [reflexivity|f_equal; exact IH]. Qed.
Lemma lookup_drop h p q : NoDup (map fst h) -> lookup (drop h p) q = if N.eqb q p then None else lookup h q.
Proof.
  induction h as [|[k y] r IH]; intros ND; simpl; [destruct (N.eqb q p); reflexivity|].
  simpl in ND. inversion ND as [|? ? Hk Hr]; subst.
  destruct (N.eqb k p) eqn:E1.
  - apply N.eqb_eq in E1; subst. destruct (N.eqb q p) eqn:E2.
    + apply N.eqb_eq in E2; subst. apply lookup_None. exact Hk.
    + rewrite N.eqb_sym, E2. reflexivity.
  - simpl. destruct (N.eqb k q) eqn:E3.
    + apply N.eqb_eq in E3; subst. rewrite E1. reflexivity.
    + apply IH; exact Hr.
Qed.

(* ---------------------------------------------------------------- the invariant *)
Definition rc_ok (x : hdr) : Prop := 1 <= h_rc x < 4294967296.
Record ginv (g : gc) : Prop := {
  i_list_nodup : NoDup (g_list g);
  i_set_nodup : NoDup (g_set g);
  i_heap_nodup : NoDup (map fst (g_heap g));
  i_list_set : forall p, In p (g_list g) <-> In p (g_set g);       (* every managed pointer is in the set and the list ... exactly once *)
  i_list_heap : forall p, In p (g_list g) <-> In p (map fst (g_heap g));   (* the live headers are exactly the listed objects *)
  i_rc : forall p x, lookup (g_heap g) p = Some x -> rc_ok x;      (* no listed object has reference count 0 *)
  i_nonnull : ~ In 0 (g_list g);
  i_init : g_init g = false -> g_set g = []
}.

Lemma ginv_empty : ginv gc_empty.
Proof.
  constructor; simpl; try constructor; try tauto; try discriminate.
Qed.

Definition no_wrap (g : gc) (o : gop) : Prop :=
  forall p x, o = GRetain p -> lookup (g_heap g) p = Some x -> h_rc x + 1 < 4294967296.

Lemma ginv_free g p x : ginv g -> In p (g_list g) -> ginv (free_obj g p x).
Proof.
  intros I Hp. destruct I as [L S H LS LH RC NN IN]. constructor; unfold free_obj; simpl.
  - apply remove1_NoDup; exact L.
  - apply remove1_NoDup; exact S.
  - rewrite drop_keys. apply remove1_NoDup; exact H.
  - intros q. rewrite (remove1_In _ p q L), (remove1_In _ p q S), LS. tauto.
  - intros q. rewrite drop_keys, (remove1_In _ p q L), (remove1_In _ p q H), LH. tauto.
  - intros q y Hq. rewrite (lookup_drop _ p q H) in Hq. destruct (N.eqb q p); [discriminate|]. eapply RC; eauto.
  - intros C. apply (remove1_In _ p 0 L) in C. tauto.
  - intros E. rewrite (IN E) in *. apply LS in Hp. destruct Hp.
Qed.

Lemma sweep_noop g : ginv g -> forall todo, (forall p, In p todo -> In p (g_list g)) -> sweep g todo = GOk g GUnit.
Proof.
  intros I. induction todo as [|p r IH]; intros H; simpl; [reflexivity|].
  assert (Hp : In p (g_list g)) by (apply H; left; reflexivity).
  apply (i_list_heap g I) in Hp. apply lookup_In in Hp. destruct Hp as [x Hx]. rewrite Hx.
  pose proof (i_rc g I p x Hx) as [R _]. destruct (N.eqb (h_rc x) 0) eqn:E; [apply N.eqb_eq in E; lia|].
  apply IH. intros q Hq. apply H. right; exact Hq.
Qed.

(* gc_inv: every step that returns preserves the invariant (retain must not wrap the 32-bit counter) *)
Theorem ginv_step hs g o g' out : ginv g -> no_wrap g o -> gstep hs g o = GOk g' out -> ginv g'.
Proof.
  intros I NW St. destruct o as [a size ty|p|p|p|]; simpl in St.
  - (* alloc *)
    destruct (N.eqb a 0) eqn:E0; [discriminate|]. apply N.eqb_neq in E0.
    destruct (lookup (g_heap g) a) eqn:El; [discriminate|]. simpl in St. inversion St; subst; clear St.
    apply lookup_None in El.
    assert (Hl : ~ In a (g_list g)) by (intros C; apply El; apply (i_list_heap g I); exact C).
    assert (Hs : ~ In a (g_set g)) by (intros C; apply Hl; apply (i_list_set g I); exact C).
    destruct I as [L S H LS LH RC NN IN]. constructor; simpl.
    + constructor; assumption.
    + constructor; assumption.
    + constructor; assumption.
    + intros q. rewrite LS. tauto.
    + intros q. rewrite LH. tauto.
    + intros q y Hq. destruct (N.eqb a q); [inversion Hq; subst; unfold rc_ok; simpl; lia|eapply RC; eauto].
    + intros [C|C]; [congruence|contradiction].
    + discriminate.
  - (* retain *)
    destruct (N.eqb p 0); [inversion St; subst; exact I|].
    destruct (lookup (g_heap g) p) as [x|] eqn:El; [|discriminate]. inversion St; subst; clear St.
    pose proof (NW p x eq_refl El) as Hw. pose proof (i_rc g I p x El) as [R1 R2].
    destruct I as [L S H LS LH RC NN IN]. constructor; simpl; auto.
    + rewrite store_keys. exact H.
    + intros q. rewrite store_keys. apply LH.
    + intros q y Hq. rewrite lookup_store in Hq. destruct (N.eqb q p) eqn:E.
      * rewrite El in Hq. inversion Hq; subst. unfold rc_ok, wrap32; simpl. rewrite N.mod_small by lia. lia.
      * eapply RC; eauto.
  - (* release *)
    destruct (N.eqb p 0); [inversion St; subst; exact I|].
    destruct (g_init g && mem (g_set g) p) eqn:Em; simpl in St; [|inversion St; subst; exact I].
    apply andb_true_iff in Em. destruct Em as [_ Em]. apply mem_In in Em.
    assert (Hp : In p (g_list g)) by (apply (i_list_set g I); exact Em).
    destruct (lookup (g_heap g) p) as [x|] eqn:El; [|discriminate].
    destruct (N.eqb (h_rc x) 0) eqn:Ez; [discriminate|]. apply N.eqb_neq in Ez.
    pose proof (i_rc g I p x El) as [R1 R2].
    set (x' := {| h_rc := h_rc x - 1; h_type := h_type x; h_size := h_size x |}) in *.
    set (g1 := {| g_heap := store (g_heap g) p x'; g_list := g_list g; g_set := g_set g; g_frees := g_frees g;
                  g_count := g_count g; g_usage := g_usage g; g_init := g_init g |}) in *.
    assert (I1 : h_rc x' <> 0 -> ginv g1).
    { intros Hn. destruct I as [L S H LS LH RC NN IN]. constructor; unfold g1; simpl; auto.
      - rewrite store_keys. exact H.
      - intros q. rewrite store_keys. apply LH.
      - intros q y Hq. rewrite lookup_store in Hq. destruct (N.eqb q p) eqn:E.
        + rewrite El in Hq. inversion Hq; subst. unfold rc_ok, x' in *; simpl in *. lia.
        + eapply RC; eauto. }
    destruct (N.eqb (h_rc x - 1) 0) eqn:E1.
    + inversion St; subst; clear St.
      (* the freed object: its header is dropped, so the temporary count 0 is never observable in the list *)
      destruct I as [L S H LS LH RC NN IN]. constructor; unfold free_obj, g1; simpl.
      * apply remove1_NoDup; exact L.
      * apply remove1_NoDup; exact S.
      * rewrite drop_keys, store_keys. apply remove1_NoDup; exact H.
      * intros q. rewrite (remove1_In _ p q L), (remove1_In _ p q S), LS. tauto.
      * intros q. rewrite drop_keys, store_keys, (remove1_In _ p q L), (remove1_In _ p q H), LH. tauto.
      * intros q y Hq. rewrite lookup_drop in Hq by (rewrite store_keys; exact H).
        destruct (N.eqb q p) eqn:E; [discriminate|]. rewrite lookup_store, E in Hq. eapply RC; eauto.
      * intros C. apply (remove1_In _ p 0 L) in C. tauto.
      * intros E. rewrite (IN E) in Em. destruct Em.
    + inversion St; subst. apply I1. apply N.eqb_neq in E1. exact E1.
  - inversion St; subst; exact I.
  - destruct (g_init g); [|inversion St; subst; exact I].
    rewrite (sweep_noop g I (g_list g) (fun p H => H)) in St. inversion St; subst; exact I.
Qed.

(* under the invariant the double-release assert is unreachable ... *)
Theorem gc_no_abort hs g o : ginv g -> gstep hs g o <> GAbort.
Proof.
  intros I. destruct o as [a size ty|p|p|p|]; simpl.
  - destruct (N.eqb a 0 || _); discriminate.
  - destruct (N.eqb p 0); [discriminate|]. destruct (lookup (g_heap g) p); discriminate.
  - destruct (N.eqb p 0); [discriminate|]. destruct (g_init g && mem (g_set g) p); simpl; [|discriminate].
    destruct (lookup (g_heap g) p) as [x|] eqn:El; [|discriminate].
    pose proof (i_rc g I p x El) as [R _]. destruct (N.eqb (h_rc x) 0) eqn:E; [apply N.eqb_eq in E; lia|].
    destruct (N.eqb (h_rc x - 1) 0); discriminate.
  - discriminate.
  - destruct (g_init g); [|discriminate]. rewrite (sweep_noop g I (g_list g) (fun p H => H)). discriminate.
Qed.

(* ... and nothing touches dead memory as long as retain is only applied to NULL or a managed pointer *)
Theorem gc_no_crash hs g o : ginv g -> (forall p, o = GRetain p -> p = 0 \/ In p (g_list g)) -> gstep hs g o <> GCrash.
Proof.
  intros I Hr. destruct o as [a size ty|p|p|p|]; simpl.
  - destruct (N.eqb a 0 || _); discriminate.
  - destruct (N.eqb p 0) eqn:E0; [discriminate|]. apply N.eqb_neq in E0.
    destruct (Hr p eq_refl) as [C|C]; [contradiction|].
    apply (i_list_heap g I) in C. apply lookup_In in C. destruct C as [x Hx]. rewrite Hx. discriminate.
  - destruct (N.eqb p 0); [discriminate|]. destruct (g_init g && mem (g_set g) p) eqn:Em; simpl; [|discriminate].
    apply andb_true_iff in Em. destruct Em as [_ Em]. apply mem_In in Em.
    apply (i_list_set g I) in Em. apply (i_list_heap g I) in Em. apply lookup_In in Em. destruct Em as [x Hx]. rewrite Hx.
    destruct (N.eqb (h_rc x) 0); [discriminate|]. destruct (N.eqb (h_rc x - 1) 0); discriminate.
  - discriminate.
  - destruct (g_init g); [|discriminate]. rewrite (sweep_noop g I (g_list g) (fun p H => H)). discriminate.
Qed.

(* release of the last reference: the object leaves the list and the set, its header is freed exactly once (one new
   entry in the free log, the block is no longer live), every other object is untouched *)
Theorem release_last_frees_once hs g p x : ginv g -> In p (g_list g) -> lookup (g_heap g) p = Some x -> h_rc x = 1 ->
  exists g', gstep hs g (GRelease p) = GOk g' GUnit /\
    ~ In p (g_list g') /\ ~ In p (g_set g') /\ lookup (g_heap g') p = None /\ g_frees g' = p :: g_frees g /\
    (forall q, q <> p -> (In q (g_list g') <-> In q (g_list g)) /\ lookup (g_heap g') q = lookup (g_heap g) q).
Proof.
  intros I Hp El R1. simpl.
  assert (E0 : N.eqb p 0 = false).
  { apply N.eqb_neq. intros ->. apply (i_nonnull g I). exact Hp. }
  rewrite E0.
  assert (Es : In p (g_set g)) by (apply (i_list_set g I); exact Hp).
  assert (Ei : g_init g = true).
  { destruct (g_init g) eqn:E; [reflexivity|]. rewrite (i_init g I E) in Es. destruct Es. }
  rewrite Ei. rewrite (proj2 (mem_In _ _) Es). simpl. rewrite El, R1. simpl.
  eexists. split; [reflexivity|]. unfold free_obj; simpl.
  destruct I as [L S H LS LH RC NN IN].
  split; [intros C; apply (remove1_In _ p p L) in C; tauto|].
  split; [intros C; apply (remove1_In _ p p S) in C; tauto|].
  split; [rewrite lookup_drop by (rewrite store_keys; exact H); rewrite N.eqb_refl; reflexivity|].
  split; [reflexivity|].
  intros q Hq. split.
  - rewrite (remove1_In _ p q L). tauto.
  - rewrite lookup_drop by (rewrite store_keys; exact H). apply N.eqb_neq in Hq. rewrite Hq. rewrite lookup_store, Hq. reflexivity.
Qed.

(* a release of a pointer that is not (or no longer) in the set is silently ignored: NOT the asserted fault *)
Theorem stale_release_silent hs g p : ~ In p (g_set g) -> gstep hs g (GRelease p) = GOk g GUnit.
Proof.
  intros H. simpl. destruct (N.eqb p 0); [reflexivity|]. apply mem_false in H. rewrite H, andb_false_r. reflexivity.
Qed.

Lemma ginv_ginvb_core g : ginv g -> nodupb (g_list g) = true.
Proof.
  intros I. pose proof (i_list_nodup g I) as L. induction L as [|x r Hx Hr IH]; simpl; [reflexivity|].
  apply andb_true_iff; split; [|exact IH]. apply negb_true_iff. apply mem_false. exact Hx.
Qed.
