(* interp_correct is FALSE without names_apart (dynamic scoping): the evaluator model refuses programs the reference
   semantics passes (and passes one the reference fails).  By computation on the witness programs of Back/InterpWitness. *)
From Coq Require Import ZArith NArith List Bool.
From NV Require Import Lang.Ast Lang.Ref Back.InterpSem Driver.ShadowGate Back.NamesApart Back.InterpCorrect Back.InterpWitness.
Import ListNotations.

(* the reference passes every shadow block, the evaluator model reports a failed test; the program is outside names_apart *)
Definition refutes (sp : sprogram) (fuel : nat) : Prop :=
  names_apart sp = false /\
  exists genv gout rs sk stk,
    eval_globals (pfns (sp_prog sp)) fuel (pglobals (sp_prog sp)) [] [] = Ok genv gout /\
    (forall sh, In sh (sp_shadows sp) -> exists r out, ref_test (pfns (sp_prog sp)) fuel genv (sh_body sh) = Ok r out) /\
    run_interp fuel sp [] = TDone rs sk stk /\ all_passed rs = false /\
    ~ agree_run (pfns (sp_prog sp)) fuel genv (sp_shadows sp) rs.

Ltac refute_tac :=
  split; [vm_compute; reflexivity|];
  eexists _, _, _, _, _; split; [vm_compute; reflexivity|]; split;
  [ intros sh H; repeat (destruct H as [H|H]; [subst sh; eexists _, _; vm_compute; reflexivity|]); destruct H
  | split; [vm_compute; reflexivity|]; split; [vm_compute; reflexivity|];
    intros A; cbv in A; repeat match goal with H : _ /\ _ |- _ => destruct H end; discriminate ].

Lemma refuted_spec_8_1 : refutes sp81 60.
Proof. refute_tac. Qed.

Lemma refuted_param : refutes sp81p 60.
Proof. refute_tac. Qed.

(* block scoping (fix 9481a65): the inner `let x` ends with its block; the program is inside names_apart and the evaluator
   model prints what the reference prints ("2" then "1") and passes *)
Lemma block_shadowing_agrees :
  names_apart spblk = true /\
  exists rs sk stk, run_interp 60 spblk [] = TDone rs sk stk /\ all_passed rs = true /\ map tr_out rs = [[50; 10; 49; 10]]%N /\
  ref_tests 60 spblk = Some [(2%N, Ok (CNormal, []) [50; 10; 49; 10]%N)].
Proof. split; [vm_compute; reflexivity|]. eexists _, _, _. repeat split; vm_compute; reflexivity. Qed.

(* the gate errs in the other direction too: the reference FAILS the assertion (h) == 20, the evaluator passes it *)
Lemma unsound_pass_spec_8_1 :
  names_apart sp81_unsound = false /\
  exists genv gout rs sk stk,
    eval_globals (pfns p81) 60 (pglobals p81) [] [] = Ok genv gout /\
    (exists out, ref_test (pfns p81) 60 genv (SAssert (eqz (call0 3%N) 20%Z)) = Fault FAssert out) /\
    run_interp 60 sp81_unsound [] = TDone rs sk stk /\ all_passed rs = true.
Proof.
  split; [vm_compute; reflexivity|]. eexists _, _, _, _, _. split; [vm_compute; reflexivity|]. split.
  - eexists. vm_compute. reflexivity.
  - split; vm_compute; reflexivity.
Qed.

(* the hypotheses of interp_correct are satisfiable by non-trivial programs, and its conclusion is then observable *)
Lemma good_is_apart : names_apart spgood = true /\ names_apart spgood_failing = true.
Proof. split; vm_compute; reflexivity. Qed.

Lemma good_runs :
  exists rs sk stk, run_interp 200 spgood [] = TDone rs sk stk /\ all_passed rs = true /\
                    map tr_out rs = [[]; [55; 10; 56; 10; 49; 48; 10]; []]%N.
Proof. eexists _, _, _. split; [vm_compute; reflexivity|]. split; vm_compute; reflexivity. Qed.

Lemma good_failing_runs :
  exists rs sk stk, run_interp 200 spgood_failing [] = TDone rs sk stk /\ all_passed rs = false /\ map fail_count rs = [0; 2].
Proof. eexists _, _, _. split; [vm_compute; reflexivity|]. split; vm_compute; reflexivity. Qed.

(* every shadow block runs: a false assertion in the FIRST of two blocks of one function closes the gate although the last block
   of that function passes; the imported function 4 has no block and is not reported *)
Lemma every_block_runs :
  nanoc {| front_ok := true; later_ok := true |} 200 spmulti [] =
  NExit 1 false [RTesting 2%N [] false; RFailed 2%N 1; RTesting 0%N [] true; RTesting 2%N [] true; RShadowTestsFailed] [].
Proof. vm_compute. reflexivity. Qed.

(* ---- arrays ---- *)
(* the evaluator prints what the reference prints ("8" once, then the array) and passes *)
Lemma arrays_agree :
  names_apart sparr_good = true /\
  exists rs sk stk, run_interp 60 sparr_good [] = TDone rs sk stk /\ all_passed rs = true /\
    map tr_out rs = [[56; 10; 91; 55; 44; 32; 56; 44; 32; 57; 93; 10]]%N /\
    ref_tests 60 sparr_good = Some [(4%N, Ok (CNormal, [(7%N, (false, VArr [7; 8; 9]%Z))]) [56; 10; 91; 55; 44; 32; 56; 44; 32; 57; 93; 10]%N)].
Proof. split; [vm_compute; reflexivity|]. eexists _, _, _. repeat split; vm_compute; reflexivity. Qed.

(* the first element of a literal may be a call that prints: it is evaluated ONCE (fix 38fa340; before it the evaluator
   printed "8" twice here and this program refuted interp_correct).  The program is inside names_apart, the evaluator model
   prints the reference's text and passes *)
Lemma first_element_once_agrees :
  names_apart sparr_twice = true /\
  ref_tests 60 sparr_twice = Some [(4%N, Ok (CNormal, [(7%N, (false, VArr [8; 9]%Z))]) [56; 10]%N)] /\
  exists rs sk stk, run_interp 60 sparr_twice [] = TDone rs sk stk /\ all_passed rs = true /\ map tr_out rs = [[56; 10]]%N.
Proof. split; [vm_compute; reflexivity|]. split; [vm_compute; reflexivity|]. eexists _, _, _. repeat split; vm_compute; reflexivity. Qed.

(* an index out of range inside a shadow test: the reference faults there, the evaluator ends nanoc with status 1 after "1" *)
Lemma oob_at_compile_time :
  run_interp 60 sparr_oob [] = TOob (Some 4%N) [49; 10]%N /\
  ref_tests 60 sparr_oob = Some [(4%N, Fault FOob [49; 10]%N)] /\
  (forall ph, front_ok ph = true -> nanoc ph 60 sparr_oob [] = NExit 1 false [] [2%N]).
Proof.
  split; [vm_compute; reflexivity|]. split; [vm_compute; reflexivity|].
  intros ph F. unfold nanoc. rewrite F. vm_compute. reflexivity.
Qed.

(* ---- strings as computed values ---- *)
(* inside names_apart: + / int_to_string / str_equals / str_concat through a printing call / str_contains / char_at /
   str_substring of a literal: the evaluator prints the reference's text ("abc-42", then "abc-42!") and passes *)
Lemma strings_agree :
  names_apart spstr_good = true /\
  exists rs sk stk, run_interp 80 spstr_good [] = TDone rs sk stk /\ all_passed rs = true /\
    map tr_out rs = [[97; 98; 99; 45; 52; 50; 10; 97; 98; 99; 45; 52; 50; 33; 10]]%N /\
    ref_tests 80 spstr_good =
      Some [(2%N, Ok (CNormal, [(7%N, (false, VStr [97; 98; 99; 45; 52; 50]%N))])
                     [97; 98; 99; 45; 52; 50; 10; 97; 98; 99; 45; 52; 50; 33; 10]%N)].
Proof.
  split; [vm_compute; reflexivity|]. eexists _, _, _.
  split; [vm_compute; reflexivity|]. split; [vm_compute; reflexivity|]. split; vm_compute; reflexivity.
Qed.

(* str_substring with start = length: "" in the language, void in the evaluator: the reference passes the assertion, the
   evaluator fails it; the program is outside names_apart (clause (e)) *)
Lemma refuted_substring_past_end : refutes spstr_past_end 80.
Proof. refute_tac. Qed.

(* char_at outside the string: the reference is undefined (FStrDomain), the evaluator yields void and fails the assertion --
   interp_correct says nothing (its conclusion is about tests on which the reference is defined) *)
Lemma char_at_outside_at_compile_time :
  names_apart spstr_char_at_outside = true /\
  ref_tests 80 spstr_char_at_outside = Some [(4%N, Fault FStrDomain [])] /\
  exists rs sk stk, run_interp 80 spstr_char_at_outside [] = TDone rs sk stk /\ all_passed rs = false.
Proof. split; [vm_compute; reflexivity|]. split; [vm_compute; reflexivity|]. eexists _, _, _. split; vm_compute; reflexivity. Qed.

(* ... and what the gate does with it: the test is reported FAILED, exit status 1, no executable *)
Lemma gate_refuses_substring_past_end :
  refutes spstr_past_end 80 /\
  nanoc {| front_ok := true; later_ok := true |} 80 spstr_past_end [] = NExit 1 false [RTesting 4%N [] false; RFailed 4%N 1; RShadowTestsFailed] [2%N].
Proof. split; [exact refuted_substring_past_end | vm_compute; reflexivity]. Qed.
