(* Bridge between the core language (Lang/Ast, Lang/Ref) and the repository's OWN NanoCore development
   (NV/NanoCore = /repo/formal/{Syntax,Semantics,EvalFn}.v copied on every run) on their common fragment:
   pure int/bool expressions over variables.  NanoCore computes on unbounded Z with floor division; the
   language has 64-bit wrapping integers and truncating division, so the two agree exactly on evaluations
   that stay inside int64 and divide non-negative by positive -- [exact_eval] is the partial evaluator of
   that common domain.  Definitions only (proofs in NanoCoreBridgeProofs.v). *)
From Coq Require Import ZArith NArith List Bool String Ascii.
From NV Require Import Lang.Ast Lang.Ref.
Require NV.NanoCore.Syntax NV.NanoCore.Semantics NV.NanoCore.EvalFn.
Import ListNotations.
Local Open Scope Z_scope.

(* injective naming of numeric identifiers *)
Fixpoint pos_name (p : positive) : string :=
  match p with
  | xH => "h"%string
  | xO q => String "o"%char (pos_name q)
  | xI q => String "i"%char (pos_name q)
  end.
Definition vname (x : ident) : string := match x with N0 => "z"%string | Npos p => pos_name p end.

Definition embed_binop (o : binop) : NV.NanoCore.Syntax.binop :=
  match o with
  | BAdd => NV.NanoCore.Syntax.OpAdd | BSub => NV.NanoCore.Syntax.OpSub | BMul => NV.NanoCore.Syntax.OpMul | BDiv => NV.NanoCore.Syntax.OpDiv | BMod => NV.NanoCore.Syntax.OpMod
  | BEq => NV.NanoCore.Syntax.OpEq | BNe => NV.NanoCore.Syntax.OpNe | BLt => NV.NanoCore.Syntax.OpLt | BLe => NV.NanoCore.Syntax.OpLe | BGt => NV.NanoCore.Syntax.OpGt | BGe => NV.NanoCore.Syntax.OpGe
  | BAnd => NV.NanoCore.Syntax.OpAnd | BOr => NV.NanoCore.Syntax.OpOr end.

Fixpoint embed_expr (e : expr) : option NV.NanoCore.Syntax.expr :=
  match e with
  | ENum z => Some (NV.NanoCore.Syntax.EInt z)
  | EBool b => Some (NV.NanoCore.Syntax.EBool b)
  | EVar x => Some (NV.NanoCore.Syntax.EVar (vname x))
  | EUn UNeg a => option_map (NV.NanoCore.Syntax.EUnOp NV.NanoCore.Syntax.OpNeg) (embed_expr a)
  | EUn UNot a => option_map (NV.NanoCore.Syntax.EUnOp NV.NanoCore.Syntax.OpNot) (embed_expr a)
  | EBin o a b =>
      match embed_expr a, embed_expr b with
      | Some a', Some b' => Some (NV.NanoCore.Syntax.EBinOp (embed_binop o) a' b')
      | _, _ => None end
  | ECond c a b =>
      match embed_expr c, embed_expr a, embed_expr b with
      | Some c', Some a', Some b' => Some (NV.NanoCore.Syntax.EIf c' a' b')
      | _, _, _ => None end
  | EStr _ | ECall _ _ | EArr _ | EAt _ _ | ELen _ | EStr1 _ _ | EStr2 _ _ _ | ESubstr _ _ _ => None
  end.

Definition embed_val (v : value) : option NV.NanoCore.Syntax.val :=
  match v with VInt z => Some (NV.NanoCore.Syntax.VInt z) | VBool b => Some (NV.NanoCore.Syntax.VBool b) | _ => None end.

Fixpoint embed_env (en : env) : NV.NanoCore.Syntax.env :=
  match en with
  | [] => NV.NanoCore.Syntax.ENil
  | (x, (_, v)) :: r => match embed_val v with Some v' => NV.NanoCore.Syntax.ECons (vname x) v' (embed_env r) | None => embed_env r end
  end.

(* the common domain: every intermediate result is an int64, division only of non-negative by positive *)
Definition chk (z : Z) : option value := if in64 z then Some (VInt z) else None.
Fixpoint exact_eval (en : env) (e : expr) : option value :=
  match e with
  | ENum z => chk z
  | EBool b => Some (VBool b)
  | EVar x => match lookup x en with
              | Some (_, VInt z) => chk z
              | Some (_, VBool b) => Some (VBool b)
              | _ => None end
  | EUn UNeg a => match exact_eval en a with Some (VInt x) => chk (- x) | _ => None end
  | EUn UNot a => match exact_eval en a with Some (VBool b) => Some (VBool (negb b)) | _ => None end
  | EBin o a b =>
      match exact_eval en a, exact_eval en b with
      | Some (VInt x), Some (VInt y) =>
          match o with
          | BAdd => chk (x + y) | BSub => chk (x - y) | BMul => chk (x * y)
          | BDiv => if (0 <=? x) && (0 <? y) then chk (x / y) else None
          | BMod => if (0 <=? x) && (0 <? y) then chk (x mod y) else None
          | BEq => Some (VBool (x =? y)) | BNe => Some (VBool (negb (x =? y)))
          | BLt => Some (VBool (x <? y)) | BLe => Some (VBool (x <=? y))
          | BGt => Some (VBool (y <? x)) | BGe => Some (VBool (y <=? x))
          | _ => None end
      | Some (VBool x), Some (VBool y) =>
          match o with
          | BAnd => Some (VBool (x && y)) | BOr => Some (VBool (x || y))
          | BEq => Some (VBool (Bool.eqb x y)) | BNe => Some (VBool (negb (Bool.eqb x y)))
          | _ => None end
      | _, _ => None end
  | ECond c a b =>
      (* NanoCore's EIf evaluates one branch; the other must merely be embeddable *)
      match exact_eval en c with
      | Some (VBool true) => exact_eval en a
      | Some (VBool false) => exact_eval en b
      | _ => None end
  | EStr _ | ECall _ _ | EArr _ | EAt _ _ | ELen _ | EStr1 _ _ | EStr2 _ _ _ | ESubstr _ _ _ => None
  end.

Fixpoint esize (e : expr) : nat :=
  match e with
  | EUn _ a => S (esize a)
  | EBin _ a b => S (esize a + esize b)
  | ECond c a b => S (esize c + esize a + esize b)
  | _ => 1%nat
  end.

(* what the repository's extracted evaluator says for an embedded expression under an embedded environment *)
Definition nanocore_eval (fuel : nat) (en : env) (e : expr) : option NV.NanoCore.Syntax.val :=
  match embed_expr e with
  | Some ne => match NV.NanoCore.EvalFn.eval_fn fuel (embed_env en) ne with Some (_, v) => Some v | None => None end
  | None => None
  end.

(* the same answer read back as a core-language value (for the extracted driver) *)
Definition unembed_val (v : NV.NanoCore.Syntax.val) : option value :=
  match v with NV.NanoCore.Syntax.VInt z => Some (VInt z) | NV.NanoCore.Syntax.VBool b => Some (VBool b) | _ => None end.
Definition nanocore_eval_v (fuel : nat) (en : env) (e : expr) : option value :=
  match nanocore_eval fuel en e with Some v => unembed_val v | None => None end.
