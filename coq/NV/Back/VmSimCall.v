(* VM simulation, stage E: calls.  Arguments are evaluated left to right onto the operand stack, CALL builds the
   callee frame (arguments then void slots), the body runs under the statement simulation, RET pops the frame and
   pushes the result.  The frame-stack limit shows up as the alternative outcome allowed by Reach (ECallDepth). *)
From Coq Require Import ZArith NArith List Bool Lia.
From NV Require Import Base.Bytes Isa.Codec Isa.CodecProofs gen.IsaTable Lang.Ast Lang.Ref Back.VmCompile Back.VmExec Back.OpTable
  Back.VmSimFetch Back.VmSimStep Back.VmSimComp Back.VmSimWf Back.VmSimEnv Back.VmSimDefs Back.VmSimExpr Back.VmSimStmt.
Import ListNotations.

Lemma eval_call_eq fns fuel genv en f args out :
  eval_expr fns (S fuel) genv en (ECall f args) out =
  bind (eval_args fns fuel genv en args out) (fun vs out1 =>
    match find_fn fns f with
    | None => Stuck
    | Some d =>
        match bind_params (fparams d) vs with
        | None => Stuck
        | Some en' =>
            bind (exec_stmt fns fuel genv (rev en') (fbody d) out1) (fun r out2 =>
              match fst r with
              | CReturn v => Ok v out2
              | CNormal => Ok VVoid out2
              | _ => Stuck end)
        end
    end).
Proof. reflexivity. Qed.

Lemma bind_params_length ps : forall vs en', bind_params ps vs = Some en' -> length vs = length ps.
Proof.
  induction ps as [|[x t] ps IH]; intros [|v vs] en' H; cbn [bind_params] in H; try discriminate; [reflexivity|].
  destruct (bind_params ps vs) eqn:E; [|discriminate]. cbn [length]. f_equal. eapply IH; eassumption.
Qed.

Lemma firstn_app_exact {A} (a b : list A) n : length a = n -> firstn n (a ++ b) = a.
Proof. intros <-. rewrite firstn_app, firstn_all, Nat.sub_diag. cbn [firstn]. apply app_nil_r. Qed.
Lemma skipn_app_exact {A} (a b : list A) n : length a = n -> skipn n (a ++ b) = b.
Proof. intros <-. rewrite skipn_app, skipn_all, Nat.sub_diag. reflexivity. Qed.

(* how a source function sits in the module *)
Definition fn_compiled (G : genv) (M : vmodule) (idx : nat) (d : fn) : Prop :=
  exists fe cf c ce' p p',
    fentry_at M idx = Some fe /\ fn_code M fe cf /\ (Z.of_nat (csize cf) < 2147483648)%Z /\
    fe_arity fe = length (fparams d) /\ fe_locals fe = length ce' /\
    compile_stmt G 0 None (map fst (fparams d)) (fbody d) p = Some (c, ce', p') /\ pool_le p' (m_strings M) /\
    cf = c ++ [mk OP_PUSH_VOID []; mk OP_RET []] /\
    fn_ok d.

Definition fns_compiled (fns : list fn) (G : genv) (M : vmodule) : Prop :=
  forall f d, find_fn fns f = Some d -> exists idx, index_of f (g_fns G) 0 = Some idx /\ fn_compiled G M idx d.

Section Call.
Variable fns : list fn.
Variable G : genv.
Variable M : vmodule.
Hypothesis HG : length (g_globals G) <= VM_MAX_GLOBALS_N.
Hypothesis Hfns : fns_compiled fns G M.

Notation expr_sim := (expr_sim fns G M).
Notation stmt_sim := (stmt_sim fns G M).
Ltac inf := unfold in_fn; split; [|split]; eassumption.
Ltac rt := try apply Reach_trivial.

Lemma sim_ECall fuel f args :
  Forall (expr_sim fuel) args -> (forall s, stmt_sim fuel s) -> expr_sim (S fuel) (ECall f args).
Proof.
  intros IHargs IHs genv en out ce p c p' fn fe cf pos ret locs st cs g (Hfe & Hcode & Hsz) Hcomp Hc Hok Hme Hmg Hpool Hfuel.
  apply fuel_small_S in Hfuel. rewrite eval_call_eq. rewrite compile_call_eq in Hcomp.
  destruct (compile_args G ce args p) as [[cargs p1]|] eqn:Ea; [|discriminate].
  destruct (index_of f (g_fns G) 0) as [idx|] eqn:Ei; [|discriminate].
  apply some2_inj in Hcomp. destruct Hcomp as [<- <-].
  pose proof (code_at_app_l _ _ _ _ Hc) as Hca. apply code_at_app_r in Hc. autorewrite with csz.
  eapply rpost_bind.
  { eapply (sim_args fns G M HG fuel args IHargs genv en out ce p cargs p1 fn fe cf pos ret locs st cs g); try eassumption. inf. }
  intros vs o1 m _ [-> Hvs]; cbv iota beta.
  destruct (find_fn fns f) as [d|] eqn:Ef; rt.
  destruct (bind_params (fparams d) vs) as [en'|] eqn:Eb; rt.
  destruct (Hfns _ _ Ef) as (idx' & Hi' & fe_d & cf_d & c_d & ce_d & p_d & p_d' & Hfed & Hcoded & Hszd & Har & Hloc & Hcd & Hpd & Hepi & Hokp & Hokb).
  rewrite Ei in Hi'. inversion Hi'; subst idx'. clear Hi'.
  pose proof (bind_params_length _ _ _ Eb) as Hlvs.
  assert (Hlst : length (rev (map mval_of vs)) = fe_arity fe_d) by (rewrite rev_length, map_length; lia).
  pose proof (step_call M fn ret locs cs (fe_off fe + (pos + csize cargs)) g o1 idx fe_d (rev (map mval_of vs) ++ st)
                (fetch_at _ _ _ _ _ _ _ Hfe Hcode Hc) Hfed ltac:(rewrite app_length; lia)) as Hstep.
  destruct (Nat.leb VM_MAX_FRAMES_N (S (length cs))).
  { eapply Reach_depth. exact Hstep. }
  eapply Reach_step; [exact Hstep|]. clear Hstep.
  rewrite (firstn_app_exact _ _ _ Hlst), (skipn_app_exact _ _ _ Hlst), rev_involutive.
  destruct (compile_stmt_ext _ _ _ _ _ _ _ _ _ Hcd) as [[xd Hxd] _].
  assert (Hcd0 : code_at cf_d 0 c_d).
  { rewrite Hepi. exists [], [mk OP_PUSH_VOID []; mk OP_RET []]. split; reflexivity. }
  set (locals := map mval_of vs ++ repeat MVoid (fe_locals fe_d - fe_arity fe_d)).
  set (caller := {| mf_fn := fn; mf_ret := ret; mf_locals := locs; mf_stack := st |}).
  assert (Hml : match_env (map fst (fparams d)) (rev en') locals).
  { pose proof (match_env_params (fparams d) vs en' [] [] [] (repeat MVoid (fe_locals fe_d - fe_arity fe_d)) Eb Hokp Hvs
                  (match_env_nil _) eq_refl) as Hm.
    cbn [app] in Hm. rewrite app_nil_r in Hm. exact Hm. }
  assert (Hll : length ce_d <= length locals).
  { unfold locals. rewrite app_length, map_length, repeat_length, Hloc, Har, Hxd, app_length, map_length. lia. }
  rewrite <- (Nat.add_0_r (fe_off fe_d)).
  eapply rpost_bind.
  { eapply (IHs (fbody d) genv (rev en') o1 (map fst (fparams d)) p_d c_d ce_d p_d' None idx fe_d cf_d 0 _ locals [] (caller :: cs) g);
      try eassumption; [inf|exact I]. }
  intros [c3 en3] o2 m Hex Hp. cbn [fst snd] in *.
  destruct c3; cbn [rpost].
  - (* the body fell through: implicit return of void *)
    destruct Hp as (locs' & -> & Hl' & Hm' & Hk').
    assert (Hce : code_at cf_d (0 + csize c_d) [mk OP_PUSH_VOID []; mk OP_RET []]).
    { rewrite Hepi. exists c_d, []. split; [reflexivity|lia]. }
    vstep Hfed Hcoded Hce step_push_void. vnext Hce.
    at_code Hce. apply Reach_one. erewrite step_ret; [|eapply fetch_at; eassumption].
    cbn [ret_result caller mf_fn mf_ret mf_locals mf_stack]. split; [same_state|exact I].
  - destruct m; rt; exact I.
  - destruct m; rt; exact I.
  - destruct Hp as [-> Hv]. cbn [ret_result caller mf_fn mf_ret mf_locals mf_stack].
    apply Reach_here. split; [same_state|exact Hv].
Qed.

End Call.
