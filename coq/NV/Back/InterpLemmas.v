(* List / environment lemmas used by InterpSemProofs (the symbol stack of the evaluator vs the environments of Ref),
   and monotonicity of the evaluator's assertion log. *)
From Coq Require Import ZArith NArith List Bool Lia.
From NV Require Import Lang.Ast Lang.Ref Back.InterpSem.
Import ListNotations.

Definition names (s : list (ident * (bool * value))) : list ident := map fst s.
Definition vlook (x : ident) (s : list (ident * (bool * value))) : option value := option_map snd (lookup x s).

Lemma ilookup_same x s : ilookup x s = lookup x s.
Proof. induction s as [|[y b] r IH]; simpl; [reflexivity|]. rewrite IH. reflexivity. Qed.

Lemma names_app a b : names (a ++ b) = names a ++ names b.
Proof. unfold names. apply map_app. Qed.

Lemma lookup_app_l x a b : In x (names a) -> lookup x (a ++ b) = lookup x a.
Proof.
  induction a as [|[y c] r IH]; simpl; intros H; [contradiction|].
  destruct (N.eqb x y) eqn:E; [reflexivity|]. apply IH. destruct H as [H|H]; [|exact H].
  subst. rewrite N.eqb_refl in E. discriminate.
Qed.

Lemma lookup_app_r x a b : ~ In x (names a) -> lookup x (a ++ b) = lookup x b.
Proof.
  induction a as [|[y c] r IH]; simpl; intros H; [reflexivity|].
  destruct (N.eqb x y) eqn:E.
  - apply N.eqb_eq in E. subst. exfalso. apply H. left. reflexivity.
  - apply IH. intros H1. apply H. right. exact H1.
Qed.

Lemma lookup_some_in x s b : lookup x s = Some b -> In x (names s).
Proof.
  induction s as [|[y c] r IH]; simpl; intros H; [discriminate|].
  destruct (N.eqb x y) eqn:E.
  - apply N.eqb_eq in E. left. symmetry. exact E.
  - right. apply IH. exact H.
Qed.

Lemma lookup_in_some x s : In x (names s) -> exists b, lookup x s = Some b.
Proof.
  induction s as [|[y c] r IH]; simpl; intros H; [contradiction|].
  destruct (N.eqb x y) eqn:E; [eexists; reflexivity|].
  apply IH. destruct H as [H|H]; [|exact H]. subst. rewrite N.eqb_refl in E. discriminate.
Qed.

Lemma lookup_notin_none x s : ~ In x (names s) -> lookup x s = None.
Proof.
  intros H. destruct (lookup x s) eqn:E; [|reflexivity]. exfalso. apply H. eapply lookup_some_in. exact E.
Qed.

Lemma vlook_app_l x a b : In x (names a) -> vlook x (a ++ b) = vlook x a.
Proof. intros. unfold vlook. rewrite lookup_app_l by assumption. reflexivity. Qed.
Lemma vlook_app_r x a b : ~ In x (names a) -> vlook x (a ++ b) = vlook x b.
Proof. intros. unfold vlook. rewrite lookup_app_r by assumption. reflexivity. Qed.
Lemma vlook_cons_eq x m v s : vlook x ((x, (m, v)) :: s) = Some v.
Proof. unfold vlook. simpl. rewrite N.eqb_refl. reflexivity. Qed.
Lemma vlook_cons_ne x y b s : x <> y -> vlook x ((y, b) :: s) = vlook x s.
Proof. intros H. unfold vlook. simpl. destruct (N.eqb x y) eqn:E; [apply N.eqb_eq in E; contradiction|reflexivity]. Qed.
Lemma vlook_some_in x s v : vlook x s = Some v -> In x (names s).
Proof. unfold vlook. destruct (lookup x s) eqn:E; simpl; intros H; [|discriminate]. eapply lookup_some_in. exact E. Qed.
Lemma vlook_in_some x s : In x (names s) -> exists v, vlook x s = Some v.
Proof. intros H. destruct (lookup_in_some _ _ H) as [[m v] E]. exists v. unfold vlook. rewrite E. reflexivity. Qed.

(* ---- env_set_var *)
Lemma iassign_names x v s : names (iassign x v s) = names s.
Proof.
  induction s as [|[y [m w]] r IH]; simpl; [reflexivity|].
  destruct (N.eqb x y); simpl; [reflexivity|]. f_equal. exact IH.
Qed.
Lemma iassign_app_l x v a b : In x (names a) -> iassign x v (a ++ b) = iassign x v a ++ b.
Proof.
  induction a as [|[y [m w]] r IH]; simpl; intros H; [contradiction|].
  destruct (N.eqb x y) eqn:E; [reflexivity|]. simpl. f_equal. apply IH.
  destruct H as [H|H]; [|exact H]. subst. rewrite N.eqb_refl in E. discriminate.
Qed.
Lemma vlook_iassign_same x v s : In x (names s) -> vlook x (iassign x v s) = Some v.
Proof.
  induction s as [|[y [m w]] r IH]; simpl; intros H; [contradiction|].
  destruct (N.eqb x y) eqn:E.
  - apply N.eqb_eq in E. subst. apply vlook_cons_eq.
  - rewrite vlook_cons_ne. + apply IH. destruct H as [H|H]; [|exact H]. subst. rewrite N.eqb_refl in E. discriminate.
    + intros Q. subst. rewrite N.eqb_refl in E. discriminate.
Qed.
Lemma vlook_iassign_other x y v s : y <> x -> vlook y (iassign x v s) = vlook y s.
Proof.
  intros H. induction s as [|[z [m w]] r IH]; simpl; [reflexivity|].
  destruct (N.eqb x z) eqn:E.
  - apply N.eqb_eq in E. subst. rewrite !vlook_cons_ne by assumption. reflexivity.
  - destruct (N.eq_dec y z) as [Q|Q].
    + subst. rewrite !vlook_cons_eq. reflexivity.
    + rewrite !vlook_cons_ne by assumption. exact IH.
Qed.

(* ---- Ref.assign *)
Lemma assign_names x v e e' : assign x v e = Some e' -> names e' = names e.
Proof.
  revert e'. induction e as [|[y [m w]] r IH]; simpl; intros e' H; [discriminate|].
  destruct (N.eqb x y).
  - destruct m; inversion H; subst. reflexivity.
  - destruct (assign x v r) eqn:E; inversion H; subst. simpl. f_equal. apply IH. reflexivity.
Qed.
Lemma assign_some_in x v e e' : assign x v e = Some e' -> In x (names e).
Proof.
  revert e'. induction e as [|[y [m w]] r IH]; simpl; intros e' H; [discriminate|].
  destruct (N.eqb x y) eqn:E.
  - apply N.eqb_eq in E. left. symmetry. exact E.
  - destruct (assign x v r) eqn:E2; inversion H; subst. right. eapply IH. reflexivity.
Qed.
Lemma assign_vlook_same x v e e' : assign x v e = Some e' -> vlook x e' = Some v.
Proof.
  revert e'. induction e as [|[y [m w]] r IH]; simpl; intros e' H; [discriminate|].
  destruct (N.eqb x y) eqn:E.
  - apply N.eqb_eq in E. subst. destruct m; inversion H; subst. apply vlook_cons_eq.
  - destruct (assign x v r) eqn:E2; inversion H; subst. rewrite vlook_cons_ne.
    + eapply IH. reflexivity.
    + intros Q. subst. rewrite N.eqb_refl in E. discriminate.
Qed.
Lemma assign_vlook_other x y v e e' : assign x v e = Some e' -> y <> x -> vlook y e' = vlook y e.
Proof.
  revert e'. induction e as [|[z [m w]] r IH]; simpl; intros e' H Hy; [discriminate|].
  destruct (N.eqb x z) eqn:E.
  - apply N.eqb_eq in E. subst. destruct m; inversion H; subst. rewrite !vlook_cons_ne by assumption. reflexivity.
  - destruct (assign x v r) eqn:E2; inversion H; subst.
    destruct (N.eq_dec y z) as [Q|Q].
    + subst. rewrite !vlook_cons_eq. reflexivity.
    + rewrite !vlook_cons_ne by assumption. eapply IH; [reflexivity|assumption].
Qed.

(* ---- truncation / restore *)
Lemma skipn_app_len {A} (a b : list A) : skipn (length (a ++ b) - length b) (a ++ b) = b.
Proof.
  rewrite app_length. replace (length a + length b - length b) with (length a) by lia.
  rewrite skipn_app. rewrite skipn_all. rewrite Nat.sub_diag. reflexivity.
Qed.
Lemma truncate_app a b : truncate (length b) (a ++ b) = b.
Proof. unfold truncate. apply skipn_app_len. Qed.
Lemma restore_app (a b : env) : restore (length b) (a ++ b) = b.
Proof. unfold restore. apply skipn_app_len. Qed.

Lemma names_split (s : list (ident * (bool * value))) p q :
  names s = p ++ q -> exists a b, s = a ++ b /\ names a = p /\ names b = q.
Proof.
  revert s. induction p as [|x p IH]; intros s H.
  - exists [], s. auto.
  - destruct s as [|e s]; [discriminate|]. simpl in H. inversion H. destruct (IH s H2) as [a [b [E [Ha Hb]]]].
    exists (e :: a), b. subst. simpl. auto.
Qed.

Lemma names_length (a b : list (ident * (bool * value))) : names a = names b -> length a = length b.
Proof. intros H. unfold names in H. rewrite <- (map_length fst a), <- (map_length fst b), H. reflexivity. Qed.

(* restoring to the height of the old environment keeps exactly the old names *)
Lemma restore_names (e : env) pre bound n :
  names e = pre ++ bound -> n = length bound ->
  exists a b, e = a ++ b /\ names a = pre /\ names b = bound /\ restore n e = b.
Proof.
  intros H Hn. destruct (names_split _ _ _ H) as [a [b [E [Ha Hb]]]].
  exists a, b. repeat split; auto. subst e n.
  replace (length bound) with (length b). apply restore_app.
  rewrite <- Hb. unfold names. rewrite map_length. reflexivity.
Qed.

(* ---- shape of an environment: names and mutability flags, in order (what Ref's execution never changes below the
   bindings it adds) *)
Definition shape (s : list (ident * (bool * value))) : list (ident * bool) := map (fun b => (fst b, fst (snd b))) s.
Lemma shape_app a b : shape (a ++ b) = shape a ++ shape b.
Proof. unfold shape. apply map_app. Qed.
Lemma shape_length a b : shape a = shape b -> length a = length b.
Proof. intros H. rewrite <- (map_length (fun b => (fst b, fst (snd b))) a), <- (map_length (fun b => (fst b, fst (snd b))) b). unfold shape in H. rewrite H. reflexivity. Qed.
Lemma shape_names a : names a = map fst (shape a).
Proof. unfold names, shape. rewrite map_map. reflexivity. Qed.
Lemma shape_split (s : list (ident * (bool * value))) p q :
  shape s = p ++ q -> exists a b, s = a ++ b /\ shape a = p /\ shape b = q.
Proof.
  revert s. induction p as [|x p IH]; intros s H.
  - exists [], s. auto.
  - destruct s as [|e s]; [discriminate|]. simpl in H. inversion H. destruct (IH s H2) as [a [b [E [Ha Hb]]]].
    exists (e :: a), b. subst. simpl. auto.
Qed.
Lemma assign_shape x v e e' : assign x v e = Some e' -> shape e' = shape e.
Proof.
  revert e'. induction e as [|[y [m w]] r IH]; simpl; intros e' H; [discriminate|].
  destruct (N.eqb x y).
  - destruct m; inversion H; subst. reflexivity.
  - destruct (assign x v r) eqn:E; inversion H; subst. simpl. f_equal. apply IH. reflexivity.
Qed.
(* where Ref's assignment succeeds the evaluator's (which ignores mutability) does the same thing *)
Lemma iassign_assign x v e e' : assign x v e = Some e' -> iassign x v e = e'.
Proof.
  revert e'. induction e as [|[y [m w]] r IH]; simpl; intros e' H; [discriminate|].
  destruct (N.eqb x y).
  - destruct m; inversion H; subst. reflexivity.
  - destruct (assign x v r) eqn:E; inversion H; subst. f_equal. apply IH. reflexivity.
Qed.
(* leaving a block: Ref restores the environment's height, the evaluator truncates the stack to the block's base *)
Lemma leave_block (e e' : env) pre :
  shape e' = pre ++ shape e ->
  exists a b, e' = a ++ b /\ shape a = pre /\ shape b = shape e /\ restore (length e) e' = b /\
              forall rest, truncate (length (e ++ rest)) (e' ++ rest) = b ++ rest.
Proof.
  intros H. destruct (shape_split _ _ _ H) as [a [b [E [Ha Hb]]]]. exists a, b. subst e'.
  pose proof (shape_length _ _ Hb) as L. repeat split; auto.
  - rewrite <- L. apply restore_app.
  - intros rest. rewrite <- app_assoc. replace (length (e ++ rest)) with (length (b ++ rest)) by (rewrite !app_length, L; reflexivity).
    apply truncate_app.
Qed.

(* ---- the slot written by the for loop *)
Lemma set_from_top_app P y m w R v : set_from_top (length P) v (P ++ (y, (m, w)) :: R) = P ++ (y, (m, v)) :: R.
Proof. induction P as [|e P IH]; simpl; [reflexivity|]. destruct e as [z [m' w']]. f_equal. exact IH. Qed.

Lemma set_index_app P y m w R v : set_index (length R) v (P ++ (y, (m, w)) :: R) = P ++ (y, (m, v)) :: R.
Proof.
  unfold set_index. rewrite app_length. simpl.
  replace (Nat.ltb (length R) (length P + S (length R))) with true by (symmetry; apply Nat.ltb_lt; lia).
  replace (length P + S (length R) - 1 - length R) with (length P) by lia.
  apply set_from_top_app.
Qed.

(* ---- parameters *)
Lemma push_params_bind ps vs en s : bind_params ps vs = Some en -> push_params ps vs s = Some (rev en ++ s).
Proof.
  revert vs en s. induction ps as [|[x t] ps IH]; intros [|v vs] en s H; simpl in *; try discriminate.
  - inversion H. reflexivity.
  - destruct (bind_params ps vs) eqn:E; inversion H; subst. rewrite (IH _ _ _ E). simpl. rewrite <- app_assoc. reflexivity.
Qed.
Lemma bind_params_names ps vs en : bind_params ps vs = Some en -> names en = map fst ps.
Proof.
  revert vs en. induction ps as [|[x t] ps IH]; intros [|v vs] en H; simpl in *; try discriminate.
  - inversion H. reflexivity.
  - destruct (bind_params ps vs) eqn:E; inversion H; subst. simpl. f_equal. eapply IH. exact E.
Qed.
Lemma names_rev s : names (rev s) = rev (names s).
Proof. unfold names. apply map_rev. Qed.

Lemma vlook_rev x s : NoDup (names s) -> vlook x (rev s) = vlook x s.
Proof.
  induction s as [|[y [m v]] r IH]; simpl; intros H; [reflexivity|].
  inversion H; subst. destruct (N.eq_dec x y) as [Q|Q].
  - subst. rewrite vlook_cons_eq. rewrite vlook_app_r.
    + apply vlook_cons_eq.
    + rewrite names_rev. rewrite <- in_rev. exact H2.
  - rewrite vlook_cons_ne by assumption. destruct (in_dec N.eq_dec x (names r)) as [I|I].
    + rewrite vlook_app_l. apply IH. assumption. rewrite names_rev, <- in_rev. exact I.
    + rewrite vlook_app_r. rewrite vlook_cons_ne by assumption. unfold vlook. simpl.
      rewrite (lookup_notin_none _ _ I). reflexivity. rewrite names_rev, <- in_rev. exact I.
Qed.

(* ---- the assertion log only grows *)
Definition failed (w : world) : bool := existsb negb (w_asr w).
Definition ext (w w' : world) : Prop := exists l, w_asr w' = w_asr w ++ l.
Lemma ext_refl w : ext w w. Proof. exists []. rewrite app_nil_r. reflexivity. Qed.
Lemma ext_trans a b c : ext a b -> ext b c -> ext a c.
Proof. intros [l1 H1] [l2 H2]. exists (l1 ++ l2). rewrite H2, H1, app_assoc. reflexivity. Qed.
Lemma ext_failed w w' : ext w w' -> failed w = true -> failed w' = true.
Proof. intros [l H] F. unfold failed in *. rewrite H, existsb_app, F. reflexivity. Qed.
Lemma ext_asr w w' : w_asr w' = w_asr w -> ext w w'.
Proof. intros H. exists []. rewrite app_nil_r. exact H. Qed.

Lemma of_ibin_ok r w v w' : of_ibin r w (fun v w3 => IOk v w3) = IOk v w' -> w' = w /\ r = BV v.
Proof. destruct r; simpl; intros H; inversion H; auto. Qed.

Section Mono.
Variable fns : list fn.

Lemma iargs_mono ev : (forall e w v w', ev e w = IOk v w' -> ext w w') ->
  forall l w vs w', iargs_with ev l w = IOk vs w' -> ext w w'.
Proof.
  intros Hev. induction l as [|a r IH]; simpl; intros w vs w' H.
  - inversion H. apply ext_refl.
  - destruct (ev a w) as [v w1| | | |?] eqn:E1; simpl in H; try discriminate.
    destruct (iargs_with ev r w1) as [vs1 w2| | | |?] eqn:E2; simpl in H; try discriminate.
    inversion H; subst. eapply ext_trans; [eapply Hev; exact E1|eapply IH; exact E2].
Qed.

Definition ieval_mono_at (fuel : nat) := forall e w v w', ieval fns fuel e w = IOk v w' -> ext w w'.
Definition iexec_mono_at (fuel : nat) := forall s w c w', iexec fns fuel s w = IOk c w' -> ext w w'.
Definition ifor_mono_at (fuel : nat) := forall idx i hi body w c w', ifor fns fuel idx i hi body w = IOk c w' -> ext w w'.

Ltac ib H := match type of H with
  | ibind ?r _ = IOk _ _ => let v := fresh "v" in let w := fresh "w" in let E := fresh "E" in
      destruct r as [v w| | | |?] eqn:E; simpl in H; try discriminate
  end.

Lemma mono_all : forall fuel, ieval_mono_at fuel /\ iexec_mono_at fuel /\ ifor_mono_at fuel.
Proof.
  induction fuel as [|fuel [IHe [IHs IHf]]].
  - repeat split; red; intros; simpl in *; discriminate.
  - split; [|split].
    + red. intros e w v w' H. destruct e; simpl in H.
      * inversion H; apply ext_refl.
      * inversion H; apply ext_refl.
      * inversion H; apply ext_refl.
      * destruct (ilookup x (w_stk w)) as [[m u]|]; inversion H; apply ext_refl.
      * ib H. inversion H; subst. eapply IHe; eauto.
      * destruct o.
        all: try (ib H; ib H; first [apply of_ibin_ok in H; destruct H as [H _]; subst | inversion H; subst];
                  eapply ext_trans; [eapply IHe; exact E|eapply IHe; exact E0]).
        -- ib H. destruct (truthy v0).
           ++ ib H. inversion H; subst. eapply ext_trans; [eapply IHe; exact E|eapply IHe; exact E0].
           ++ inversion H; subst. eapply IHe; exact E.
        -- ib H. destruct (truthy v0).
           ++ inversion H; subst. eapply IHe; exact E.
           ++ ib H. inversion H; subst. eapply ext_trans; [eapply IHe; exact E|eapply IHe; exact E0].
      * ib H. pose proof (iargs_mono _ IHe _ _ _ _ E) as X.
        destruct (find_fn fns f) as [d|]; [|inversion H; subst; exact X].
        destruct (push_params (fparams d) v0 (w_stk w0)) as [s'|]; [|discriminate].
        ib H. pose proof (IHs _ _ _ _ E0) as Y.
        assert (Z : ext w (with_stk w1 (truncate (length (w_stk w0)) (w_stk w1)))).
        { eapply ext_trans; [exact X|]. destruct Y as [l Hl]. exists l. simpl in *. exact Hl. }
        destruct v1; inversion H; subst; exact Z.
      * ib H. eapply ext_trans; [eapply IHe; eauto|]. destruct (truthy v0); eapply IHe; eauto.
      * (* array literal *)
        ib H. unfold i_arr in H. destruct (ints_of v0); inversion H; subst.
        eapply (iargs_mono _ IHe es); exact E.
      * (* at *)
        ib H. ib H. eapply ext_trans; [eapply IHe; exact E|]. eapply ext_trans; [eapply IHe; exact E0|].
        unfold i_at in H. destruct v1; try (inversion H; subst; apply ext_refl).
        destruct v0; try (inversion H; subst; apply ext_refl). destruct (arr_get l z); inversion H; subst; apply ext_refl.
      * (* array_length *)
        ib H. inversion H; subst. eapply IHe; eauto.
      * (* unary string builtin *)
        ib H. inversion H; subst. eapply IHe; eauto.
      * (* binary string builtin *)
        ib H. ib H. apply of_ibin_ok in H. destruct H as [H _]; subst.
        eapply ext_trans; [eapply IHe; exact E|eapply IHe; exact E0].
      * (* str_substring *)
        ib H. ib H. ib H. inversion H; subst.
        eapply ext_trans; [eapply IHe; exact E|]. eapply ext_trans; [eapply IHe; exact E0|eapply IHe; exact E1].
    + red. intros s w c w' H. destruct s; simpl in H.
      * inversion H; apply ext_refl.
      * ib H. pose proof (IHs _ _ _ _ E) as X. destruct v; try (inversion H; subst; exact X).
        eapply ext_trans; [exact X|eapply IHs; eauto].
      * ib H. inversion H; subst. destruct (IHe _ _ _ _ E) as [l Hl]. exists l. exact Hl.
      * ib H. inversion H; subst. destruct (IHe _ _ _ _ E) as [l Hl]. exists l. exact Hl.
      * ib H. ib H. inversion H; subst. eapply ext_trans; [eapply IHe; eauto|].
        destruct (IHs _ _ _ _ E0) as [l Hl]. exists l. exact Hl.
      * ib H. pose proof (IHe _ _ _ _ E) as X. destruct (truthy v); [|inversion H; subst; exact X].
        ib H. pose proof (IHs _ _ _ _ E0) as Y.
        assert (Z : ext w (with_stk w1 (truncate (length (w_stk w0)) (w_stk w1)))).
        { eapply ext_trans; [exact X|]. destruct Y as [l Hl]. exists l. exact Hl. }
        destruct v0; try (inversion H; subst; exact Z); (eapply ext_trans; [exact Z|eapply IHs; eauto]).
      * ib H. ib H. pose proof (ext_trans _ _ _ (IHe _ _ _ _ E) (IHe _ _ _ _ E0)) as X.
        destruct v as [a| | | |]; try (inversion H; subst; exact X).
        destruct v0 as [b| | | |]; try (inversion H; subst; exact X).
        eapply ext_trans; [exact X|]. destruct (IHf _ _ _ _ _ _ _ H) as [l Hl]. exists l. exact Hl.
      * inversion H; apply ext_refl.
      * inversion H; apply ext_refl.
      * destruct e as [e|]; [|inversion H; apply ext_refl]. ib H. inversion H; subst. eapply IHe; eauto.
      * ib H. inversion H; subst. destruct (IHe _ _ _ _ E) as [l Hl]. exists l. exact Hl.
      * ib H. inversion H; subst. destruct (IHe _ _ _ _ E) as [l Hl]. exists (l ++ [truthy v]). simpl. rewrite Hl, app_assoc. reflexivity.
      * ib H. inversion H; subst. eapply IHe; eauto.
    + red. intros idx i hi body w c w' H. simpl in H. destruct (Z.ltb i hi).
      * ib H. destruct (IHs _ _ _ _ E) as [l Hl]. simpl in Hl.
        assert (X : ext w w0) by (exists l; exact Hl).
        assert (X2 : ext w (with_stk w0 (truncate (S idx) (w_stk w0)))) by (destruct X as [l' Hl']; exists l'; exact Hl').
        destruct v; try (inversion H; subst; destruct X as [l' Hl']; exists l'; exact Hl');
          (eapply ext_trans; [exact X2|eapply IHf; eauto]).
      * inversion H; subst. exists []. simpl. rewrite app_nil_r. reflexivity.
Qed.

Lemma ieval_mono fuel e w v w' : ieval fns fuel e w = IOk v w' -> ext w w'.
Proof. apply (proj1 (mono_all fuel)). Qed.
Lemma iexec_mono fuel s w c w' : iexec fns fuel s w = IOk c w' -> ext w w'.
Proof. apply (proj1 (proj2 (mono_all fuel))). Qed.
Lemma ifor_mono fuel idx i hi body w c w' : ifor fns fuel idx i hi body w = IOk c w' -> ext w w'.
Proof. apply (proj2 (proj2 (mono_all fuel))). Qed.
End Mono.
