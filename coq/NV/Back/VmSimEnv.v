(* VM simulation: the relation between the reference environment (newest binding first) and a VM frame.
   match_env ce en locs: reading the compile-time scope ce slot by slot, every user name (< HIDDEN) owns exactly one
   binding of en (in the same order, newest = last slot) whose value sits in that slot; retired / helper slots
   (names >= HIDDEN) have no binding; the frame may be longer than ce (pre-allocated slots). *)
From Coq Require Import ZArith NArith List Bool Lia.
From NV Require Import Base.Bytes Isa.Codec gen.IsaTable Lang.Ast Lang.Ref Back.VmCompile Back.VmExec Back.OpTable
  Back.VmSimFetch Back.VmSimComp.
Import ListNotations.

Definition user_name (x : ident) : Prop := (x < HIDDEN)%N.
(* ints are int64 values; an array holds int64 values and its length is one too (every array comes from a literal);
   a string is at most 1 MiB long (literals by expr_ok, concatenations by Ast.concat_v) *)
Definition val_ok (v : value) : Prop :=
  match v with
  | VInt z => in64 z = true
  | VArr l => Forall (fun z => in64 z = true) l /\ in64 (Z.of_nat (length l)) = true
  | VStr s => (Z.of_nat (length s) <= str_max)%Z          (* strings stay inside the common domain of the engines: at most 1 MiB *)
  | _ => True
  end.

(* ---------- set_nth ---------- *)
Lemma set_nth_app_len {A} (a : list A) x b v : set_nth (length a) v (a ++ x :: b) = a ++ v :: b.
Proof.
  unfold set_nth. rewrite firstn_app, firstn_all, Nat.sub_diag. cbn [firstn]. rewrite app_nil_r. f_equal. f_equal.
  replace (S (length a)) with (length a + 1) by lia. rewrite skipn_add, skipn_app, skipn_all, Nat.sub_diag. reflexivity.
Qed.
Lemma set_nth_app_lt {A} k (a b : list A) v : k < length a -> set_nth k v (a ++ b) = set_nth k v a ++ b.
Proof.
  intros H. unfold set_nth. rewrite firstn_app, skipn_app.
  replace (k - length a) with 0 by lia. replace (S k - length a) with 0 by lia. cbn [firstn skipn].
  rewrite app_nil_r, <- app_assoc. reflexivity.
Qed.
Lemma set_nth_app_ge {A} k (a b : list A) v : length a <= k -> set_nth k v (a ++ b) = a ++ set_nth (k - length a) v b.
Proof.
  intros H. unfold set_nth. rewrite firstn_app, skipn_app.
  rewrite (firstn_all2 a) by lia. rewrite (skipn_all2 a) by lia. cbn [app].
  replace (S k - length a) with (S (k - length a)) by lia. rewrite <- app_assoc. reflexivity.
Qed.
Lemma set_nth_length {A} k (l : list A) v : k < length l -> length (set_nth k v l) = length l.
Proof.
  intros H. unfold set_nth. rewrite app_length, firstn_length. cbn [length]. rewrite skipn_length. lia.
Qed.
Lemma nth_error_set_nth_eq {A} k (l : list A) v : k < length l -> nth_error (set_nth k v l) k = Some v.
Proof.
  intros H. unfold set_nth. rewrite nth_error_app2; rewrite firstn_length; [|lia].
  replace (k - Nat.min k (length l)) with 0 by lia. reflexivity.
Qed.
Lemma nth_error_set_nth_ne {A} k j (l : list A) v : j <> k -> k < length l -> nth_error (set_nth k v l) j = nth_error l j.
Proof.
  intros Hn H. unfold set_nth. destruct (Nat.lt_ge_cases j k).
  - rewrite nth_error_app1 by (rewrite firstn_length; lia).
    rewrite <- (firstn_skipn k l) at 2. rewrite nth_error_app1 by (rewrite firstn_length; lia). reflexivity.
  - rewrite nth_error_app2 by (rewrite firstn_length; lia). rewrite firstn_length.
    replace (j - Nat.min k (length l)) with (S (j - S k)) by lia. cbn [nth_error].
    rewrite <- (firstn_skipn (S k) l) at 2. rewrite nth_error_app2 by (rewrite firstn_length; lia).
    rewrite firstn_length. f_equal. lia.
Qed.

(* ---------- restore ---------- *)
Lemma restore_cons n b (e : env) : n <= length e -> restore n (b :: e) = restore n e.
Proof. intros H. unfold restore. cbn [length]. replace (S (length e) - n) with (S (length e - n)) by lia. reflexivity. Qed.
Lemma restore_all n (e : env) : length e = n -> restore n e = e.
Proof. intros H. unfold restore. rewrite H, Nat.sub_diag. reflexivity. Qed.

(* ---------- the structural relation, newest first ---------- *)
Inductive menv : list ident -> env -> list mval -> Prop :=
| menv_nil : menv [] [] []
| menv_bind x m v rce en rv : user_name x -> val_ok v -> menv rce en rv -> menv (x :: rce) ((x, (m, v)) :: en) (mval_of v :: rv)
| menv_hid h w rce en rv : (HIDDEN <= h)%N -> menv rce en rv -> menv (h :: rce) en (w :: rv).

Definition count_user (l : list ident) : nat := length (filter (fun x => N.ltb x HIDDEN) l).

Lemma count_user_app a b : count_user (a ++ b) = count_user a + count_user b.
Proof. unfold count_user. rewrite filter_app, app_length. reflexivity. Qed.

Lemma menv_len rce en rv : menv rce en rv -> length rv = length rce.
Proof. induction 1; cbn [length]; congruence. Qed.

Lemma menv_count rce en rv : menv rce en rv -> length en = count_user rce.
Proof.
  induction 1 as [|x m v rce en rv Hx Hv H IH|h w rce en rv Hh H IH]; [reflexivity| |]; unfold count_user in *; cbn [filter length].
  - unfold user_name in Hx. apply N.ltb_lt in Hx. rewrite Hx. cbn [length]. congruence.
  - destruct (N.ltb_spec h HIDDEN); [lia|exact IH].
Qed.

Lemma menv_lookup x rce en rv : menv rce en rv -> user_name x ->
  match lookup x en with
  | Some (m, v) => exists k, cfind x (rev rce) = Some k /\ nth_error (rev rv) k = Some (mval_of v) /\ val_ok v
  | None => cfind x (rev rce) = None
  end.
Proof.
  intros H Hx. induction H as [|y m v rce en rv Hy Hv H IH|h w rce en rv Hh H IH]; [reflexivity| |];
    cbn [lookup rev]; rewrite cfind_snoc.
  - destruct (N.eqb x y).
    + exists (length (rev rce)). split; [reflexivity|]. split; [|exact Hv].
      rewrite nth_error_app2, !rev_length, (menv_len _ _ _ H), Nat.sub_diag by (rewrite !rev_length, (menv_len _ _ _ H); lia).
      reflexivity.
    + destruct (lookup x en) as [[m' v']|]; [|exact IH]. destruct IH as (k & Hk & Hn & Hv'). exists k.
      split; [exact Hk|]. split; [|exact Hv']. rewrite nth_error_app1; [exact Hn|].
      apply cfind_lt in Hk. rewrite rev_length in *. rewrite (menv_len _ _ _ H). exact Hk.
  - destruct (N.eqb_spec x h); [unfold user_name in Hx; subst; lia|].
    destruct (lookup x en) as [[m' v']|]; [|exact IH]. destruct IH as (k & Hk & Hn & Hv'). exists k.
    split; [exact Hk|]. split; [|exact Hv']. rewrite nth_error_app1; [exact Hn|].
    apply cfind_lt in Hk. rewrite rev_length in *. rewrite (menv_len _ _ _ H). exact Hk.
Qed.

Lemma menv_assign x v rce en rv : menv rce en rv -> user_name x -> val_ok v ->
  forall en', assign x v en = Some en' ->
  exists k rv', cfind x (rev rce) = Some k /\ menv rce en' rv' /\ rev rv' = set_nth k (mval_of v) (rev rv).
Proof.
  intros H Hx Hv. induction H as [|y m w rce en rv Hy Hw H IH|h w rce en rv Hh H IH]; intros en' Ha.
  - discriminate.
  - cbn [assign] in Ha. cbn [rev]. rewrite cfind_snoc. destruct (N.eqb_spec x y).
    + destruct m; [|discriminate]. inversion Ha; subst. exists (length (rev rce)), (mval_of v :: rv).
      split; [reflexivity|]. split; [constructor; assumption|]. cbn [rev].
      rewrite !rev_length, <- (menv_len _ _ _ H), <- (rev_length rv). rewrite set_nth_app_len. reflexivity.
    + destruct (assign x v en) as [r'|] eqn:E; [|discriminate]. inversion Ha; subst.
      destruct (IH _ eq_refl) as (k & rv' & Hk & Hm & Hr). exists k, (mval_of w :: rv').
      split; [exact Hk|]. split; [constructor; assumption|]. cbn [rev]. rewrite Hr.
      rewrite set_nth_app_lt; [reflexivity|]. apply cfind_lt in Hk. rewrite rev_length in *. rewrite (menv_len _ _ _ H). exact Hk.
  - cbn [rev]. rewrite cfind_snoc. destruct (N.eqb_spec x h); [unfold user_name in Hx; subst; lia|].
    destruct (IH _ Ha) as (k & rv' & Hk & Hm & Hr). exists k, (w :: rv').
    split; [exact Hk|]. split; [constructor; assumption|]. cbn [rev]. rewrite Hr.
    rewrite set_nth_app_lt; [reflexivity|]. apply cfind_lt in Hk. rewrite rev_length in *. rewrite (menv_len _ _ _ H). exact Hk.
Qed.

(* leaving a block: the names declared inside are retired, their bindings dropped *)
Lemma menv_exit rext : forall rce en rv n,
  menv (rext ++ rce) en rv -> n = count_user rce ->
  menv (repeat HIDDEN (length rext) ++ rce) (restore n en) rv.
Proof.
  induction rext as [|y rext IH]; intros rce en rv n H Hn; cbn [app length repeat] in *.
  - rewrite restore_all; [exact H|]. rewrite (menv_count _ _ _ H). auto.
  - inversion H as [|x m v r e rv0 Hx Hv H0|h w r e rv0 Hh H0]; subst.
    + rewrite restore_cons.
      * apply menv_hid; [apply N.le_refl|]. apply IH; auto.
      * rewrite (menv_count _ _ _ H0), count_user_app. lia.
    + apply menv_hid; [apply N.le_refl|]. apply IH; auto.
Qed.

Lemma menv_drop_hidden hs : forall rce en rv,
  menv (hs ++ rce) en rv -> Forall (fun h => (HIDDEN <= h)%N) hs -> menv rce en (skipn (length hs) rv).
Proof.
  induction hs as [|h hs IH]; intros rce en rv H Hh; cbn [app length skipn] in *; [exact H|].
  inversion Hh; subst. inversion H as [|x m v r e rv0 Hx Hv H0|h' w r e rv0 Hh' H0]; subst.
  - unfold user_name in Hx. lia.
  - cbn [skipn]. apply IH; assumption.
Qed.

Lemma menv_add_hidden hs : forall rce en rv ws,
  menv rce en rv -> Forall (fun h => (HIDDEN <= h)%N) hs -> length ws = length hs -> menv (hs ++ rce) en (ws ++ rv).
Proof.
  induction hs as [|h hs IH]; intros rce en rv ws H Hh Hl; destruct ws as [|w ws]; try discriminate; cbn [app]; [exact H|].
  inversion Hh; subst. apply menv_hid; [assumption|]. apply IH; auto.
Qed.

(* replacing the value of a helper slot *)
Lemma menv_set_hidden rce en rv : menv rce en rv -> forall k h w, nth_error rce k = Some h -> (HIDDEN <= h)%N ->
  menv rce en (set_nth k w rv).
Proof.
  induction 1 as [|x m v rce en rv Hx Hv H IH|h0 w0 rce en rv Hh H IH]; intros k h w Hk Hhid.
  - destruct k; discriminate.
  - destruct k as [|k]; cbn [nth_error] in Hk.
    + inversion Hk; subst. unfold user_name in Hx. lia.
    + change (set_nth (S k) w (mval_of v :: rv)) with (mval_of v :: set_nth k w rv). constructor; eauto.
  - destruct k as [|k]; cbn [nth_error] in Hk.
    + change (set_nth 0 w (w0 :: rv)) with (w :: rv). constructor; assumption.
    + change (set_nth (S k) w (w0 :: rv)) with (w0 :: set_nth k w rv). constructor; eauto.
Qed.

(* ---------- frames ---------- *)
Definition match_env (ce : cenv) (en : env) (locs : list mval) : Prop :=
  exists vals rest, locs = vals ++ rest /\ length vals = length ce /\ menv (rev ce) en (rev vals).

Lemma match_env_len ce en locs : match_env ce en locs -> length ce <= length locs.
Proof. intros (vals & rest & -> & L & _). rewrite app_length. lia. Qed.

Lemma match_env_count ce en locs : match_env ce en locs -> length en = count_user (rev ce).
Proof. intros (vals & rest & _ & _ & H). apply (menv_count _ _ _ H). Qed.

Lemma match_env_nil locs : match_env [] [] locs.
Proof. exists [], locs. repeat split. constructor. Qed.

Lemma match_env_lookup ce en locs x : match_env ce en locs -> user_name x ->
  match lookup x en with
  | Some (m, v) => exists k, cfind x ce = Some k /\ nth_error locs k = Some (mval_of v) /\ val_ok v
  | None => cfind x ce = None
  end.
Proof.
  intros (vals & rest & -> & L & H) Hx. pose proof (menv_lookup x _ _ _ H Hx) as Hl. rewrite !rev_involutive in Hl.
  destruct (lookup x en) as [[m v]|]; [|exact Hl]. destruct Hl as (k & Hk & Hn & Hv). exists k.
  split; [exact Hk|]. split; [|exact Hv]. rewrite nth_error_app1; [exact Hn|]. apply cfind_lt in Hk. lia.
Qed.

Lemma match_env_let ce en locs x m v : match_env ce en locs -> length ce < length locs -> user_name x -> val_ok v ->
  match_env (ce ++ [x]) ((x, (m, v)) :: en) (set_nth (length ce) (mval_of v) locs).
Proof.
  intros (vals & rest & -> & L & H) Hlt Hx Hv. rewrite app_length in Hlt.
  destruct rest as [|r0 rest]; [cbn [length] in Hlt; lia|].
  exists (vals ++ [mval_of v]), rest. rewrite <- L, set_nth_app_len, <- app_assoc. split; [reflexivity|].
  split; [rewrite !app_length; cbn [length]; lia|]. rewrite !rev_app_distr. cbn [rev app]. constructor; assumption.
Qed.

Lemma match_env_assign ce en locs x v en' : match_env ce en locs -> user_name x -> val_ok v ->
  assign x v en = Some en' ->
  exists k, cfind x ce = Some k /\ k < length locs /\ match_env ce en' (set_nth k (mval_of v) locs).
Proof.
  intros (vals & rest & -> & L & H) Hx Hv Ha.
  destruct (menv_assign x v _ _ _ H Hx Hv _ Ha) as (k & rv' & Hk & Hm & Hr). rewrite !rev_involutive in *.
  pose proof (cfind_lt _ _ _ Hk) as Hlt.
  exists k. split; [exact Hk|]. split; [rewrite app_length; lia|].
  exists (set_nth k (mval_of v) vals), rest. split; [apply set_nth_app_lt; lia|].
  split; [rewrite set_nth_length; lia|]. rewrite <- Hr, rev_involutive. exact Hm.
Qed.

Lemma rev_repeat {A} (a : A) n : rev (repeat a n) = repeat a n.
Proof.
  induction n as [|n IH]; [reflexivity|]. cbn [repeat rev]. rewrite IH. clear.
  induction n; [reflexivity|]. cbn [repeat app]. f_equal. assumption.
Qed.

Lemma match_env_exit ce ext (en0 en : env) locs :
  match_env (ce ++ ext) en locs -> length en0 = count_user (rev ce) ->
  match_env (ce ++ repeat HIDDEN (length ext)) (restore (length en0) en) locs.
Proof.
  intros (vals & rest & -> & L & H) Hn. exists vals, rest. split; [reflexivity|].
  split; [rewrite L, !app_length, repeat_length; reflexivity|].
  rewrite rev_app_distr in *.
  rewrite rev_repeat, <- (rev_length ext). apply menv_exit; assumption.
Qed.

Lemma match_env_drop ce hs en locs :
  match_env (ce ++ hs) en locs -> Forall (fun h => (HIDDEN <= h)%N) hs -> match_env ce en locs.
Proof.
  intros (vals & rest & -> & L & H) Hh. rewrite app_length in L.
  exists (firstn (length ce) vals), (skipn (length ce) vals ++ rest).
  split; [rewrite app_assoc, firstn_skipn; reflexivity|]. split; [rewrite firstn_length; lia|].
  rewrite rev_app_distr in H. apply menv_drop_hidden in H; [|apply Forall_rev; exact Hh].
  rewrite rev_length in H.
  replace (rev (firstn (length ce) vals)) with (skipn (length hs) (rev vals)); [exact H|].
  rewrite <- (firstn_skipn (length ce) vals) at 1. rewrite rev_app_distr, skipn_app.
  rewrite skipn_all2 by (rewrite rev_length, skipn_length; lia).
  rewrite rev_length, skipn_length. replace (length hs - (length vals - length ce)) with 0 by lia. reflexivity.
Qed.

Lemma match_env_add ce hs en locs :
  match_env ce en locs -> Forall (fun h => (HIDDEN <= h)%N) hs -> length ce + length hs <= length locs ->
  match_env (ce ++ hs) en locs.
Proof.
  intros (vals & rest & -> & L & H) Hh Hlen. rewrite app_length in Hlen.
  exists (vals ++ firstn (length hs) rest), (skipn (length hs) rest).
  split; [rewrite <- app_assoc, firstn_skipn; reflexivity|].
  split; [rewrite !app_length, firstn_length; unfold cenv, ident in *; lia|].
  rewrite !rev_app_distr. apply menv_add_hidden; [exact H|apply Forall_rev; exact Hh|].
  rewrite !rev_length, firstn_length. unfold cenv, ident in *; lia.
Qed.

(* writing a slot that is a helper slot of ce, or lies beyond ce, does not disturb the relation *)
Lemma match_env_set_hidden ce en locs k h w :
  match_env ce en locs -> nth_error ce k = Some h -> (HIDDEN <= h)%N -> match_env ce en (set_nth k w locs).
Proof.
  intros (vals & rest & -> & L & H) Hk Hh.
  assert (Hlt : k < length ce) by (apply nth_error_Some; rewrite Hk; discriminate).
  exists (set_nth k w vals), rest. split; [apply set_nth_app_lt; lia|]. split; [rewrite set_nth_length; lia|].
  (* position k of ce is position (length ce - 1 - k) of rev ce *)
  replace (rev (set_nth k w vals)) with (set_nth (length ce - 1 - k) w (rev vals)).
  - eapply menv_set_hidden; [exact H| |exact Hh].
    rewrite nth_error_nth' with (d := 0%N) by (rewrite rev_length; lia).
    rewrite rev_nth by lia. replace (length ce - S (length ce - 1 - k)) with k by lia.
    rewrite (nth_error_nth _ _ _ Hk). reflexivity.
  - unfold set_nth. rewrite rev_app_distr. cbn [rev]. rewrite <- app_assoc. cbn [app].
    rewrite <- (firstn_skipn k vals) at 1 2.
    assert (Lk : length (firstn k vals) = k) by (rewrite firstn_length; lia).
    destruct (skipn k vals) as [|v0 tl] eqn:Es.
    { exfalso. assert (length (skipn k vals) = 0) by (rewrite Es; reflexivity). rewrite skipn_length in *. lia. }
    assert (Ltl : length tl = length ce - 1 - k).
    { assert (length (skipn k vals) = S (length tl)) by (rewrite Es; reflexivity). rewrite skipn_length in *. lia. }
    replace (skipn (S k) vals) with tl.
    + rewrite rev_app_distr. cbn [rev]. rewrite <- app_assoc. cbn [app].
      rewrite <- Ltl, <- (rev_length tl). rewrite firstn_app, firstn_all, Nat.sub_diag. cbn [firstn]. rewrite app_nil_r.
      f_equal. f_equal. replace (S (length (rev tl))) with (length (rev tl) + 1) by lia.
      rewrite skipn_add, skipn_app, skipn_all, Nat.sub_diag. reflexivity.
    + replace (S k) with (k + 1) by lia. rewrite skipn_add, Es. reflexivity.
Qed.

Lemma match_env_set_beyond ce en locs k w :
  match_env ce en locs -> length ce <= k -> k < length locs -> match_env ce en (set_nth k w locs).
Proof.
  intros (vals & rest & -> & L & H) Hk Hlt. exists vals, (set_nth (k - length vals) w rest).
  split; [apply set_nth_app_ge; lia|]. split; assumption.
Qed.

(* parameters: the argument values occupy the first slots, the last parameter is the newest binding *)
Lemma match_env_params ps : forall vs en' ce0 en0 locs0 rest,
  bind_params ps vs = Some en' ->
  Forall (fun p => user_name (fst p)) ps -> Forall val_ok vs ->
  match_env ce0 en0 (locs0 ++ map mval_of vs ++ rest) -> length locs0 = length ce0 ->
  match_env (ce0 ++ map fst ps) (rev en' ++ en0) (locs0 ++ map mval_of vs ++ rest).
Proof.
  induction ps as [|[x t] ps IH]; intros vs en' ce0 en0 locs0 rest Hb Hu Hv Hm Hl; destruct vs as [|v vs]; cbn [bind_params] in Hb;
    try discriminate.
  - inversion Hb; subst. cbn [map rev app]. rewrite app_nil_r. exact Hm.
  - destruct (bind_params ps vs) as [e|] eqn:E; [|discriminate]. inversion Hb; subst. clear Hb.
    inversion Hu; subst. inversion Hv; subst. cbn [map rev fst].
    replace (ce0 ++ x :: map fst ps) with ((ce0 ++ [x]) ++ map fst ps) by (rewrite <- app_assoc; reflexivity).
    replace (locs0 ++ (mval_of v :: map mval_of vs) ++ rest) with ((locs0 ++ [mval_of v]) ++ map mval_of vs ++ rest)
      by (rewrite <- app_assoc; reflexivity).
    replace ((rev e ++ [(x, (false, v))]) ++ en0) with (rev e ++ (x, (false, v)) :: en0) by (rewrite <- app_assoc; reflexivity).
    apply IH; try assumption.
    + pose proof (match_env_let ce0 en0 _ x false v Hm) as Hlet.
      rewrite <- Hl in Hlet. cbn [map app] in Hlet. rewrite set_nth_app_len in Hlet. rewrite <- app_assoc. apply Hlet; try assumption.
      rewrite !app_length. cbn [length]. lia.
    + rewrite !app_length. cbn [length]. lia.
Qed.

(* ---------- frame condition: helper / retired slots of the scope are not written by user code ---------- *)
Definition keeps (ce : cenv) (locs locs' : list mval) : Prop :=
  forall k h, nth_error ce k = Some h -> (HIDDEN <= h)%N -> nth_error locs' k = nth_error locs k.

Lemma keeps_refl ce locs : keeps ce locs locs.
Proof. red; reflexivity. Qed.
Lemma keeps_trans ce a b c : keeps ce a b -> keeps ce b c -> keeps ce a c.
Proof. intros H1 H2 k h Hk Hh. rewrite (H2 k h Hk Hh). apply (H1 k h Hk Hh). Qed.
Lemma keeps_prefix ce ext a b : keeps (ce ++ ext) a b -> keeps ce a b.
Proof.
  intros H k h Hk Hh. apply (H k h); [|exact Hh]. rewrite nth_error_app1; [exact Hk|].
  apply nth_error_Some. rewrite Hk. discriminate.
Qed.
Lemma keeps_set_beyond ce locs k w : length ce <= k -> k < length locs -> keeps ce locs (set_nth k w locs).
Proof.
  intros Hk Hlt j h Hj Hh. apply nth_error_set_nth_ne; [|exact Hlt].
  assert (j < length ce) by (apply nth_error_Some; rewrite Hj; discriminate). lia.
Qed.
Lemma keeps_set_user ce locs x k w : cfind x ce = Some k -> user_name x -> k < length locs -> keeps ce locs (set_nth k w locs).
Proof.
  intros Hc Hx Hlt j h Hj Hh. apply nth_error_set_nth_ne; [|exact Hlt].
  intros ->. revert Hc Hj. clear Hlt. revert k.
  induction ce as [|y ce IH] using rev_ind; intros k Hc Hj; [discriminate|].
  rewrite cfind_snoc in Hc. destruct (N.eqb_spec x y).
  - inversion Hc; subst. rewrite nth_error_app2, Nat.sub_diag in Hj by lia. inversion Hj; subst. unfold user_name in Hx. lia.
  - pose proof (cfind_lt _ _ _ Hc). rewrite nth_error_app1 in Hj by lia. eapply IH; eassumption.
Qed.
