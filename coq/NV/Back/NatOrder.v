(* Argument-order independence of the native model: the static condition under which the order in which C
   evaluates the arguments of one call (NatSem.arg_order) cannot be observed.
     quiet e        e contains no call and no / or %: it cannot print, cannot fault, and its value does not
                    depend on the output accumulated so far
     se_program p   in every function body and global initialiser every call has at most ONE non-quiet argument
   Plus the top-level mirrors of the two local argument loops of NatSem.nat_expr and a pure evaluator for quiet
   expressions, both used by NatOrderProofs.  Definitions only. *)
From Coq Require Import ZArith NArith List Bool.
From NV Require Import Lang.Ast Back.NatSem.
Import ListNotations.

Fixpoint quiet (e : expr) : bool :=
  match e with
  | ENum _ | EBool _ | EStr _ | EVar _ => true
  | EUn _ a => quiet a
  | EBin o a b => match o with BDiv | BMod => false | _ => quiet a && quiet b end
  | ECall _ _ => false
  | ECond c a b => quiet c && quiet a && quiet b
  | EArr es => forallb quiet es
  | EAt _ _ => false                              (* can fault: an index out of range aborts *)
  | ELen a => quiet a
  | EStr1 _ a => quiet a                          (* str_length, int_to_string: total *)
  | EStr2 o a b => match o with SEquals | SContains => quiet a && quiet b | _ => false end    (* concat and char_at can fault *)
  | ESubstr _ _ _ => false
  end.

Fixpoint loud_count (l : list expr) : nat :=
  match l with [] => O | a :: r => (if quiet a then O else 1%nat) + loud_count r end.

Fixpoint se_expr (e : expr) : bool :=
  match e with
  | ENum _ | EBool _ | EStr _ | EVar _ => true
  | EUn _ a => se_expr a
  | EBin _ a b => se_expr a && se_expr b
  | ECall _ args => Nat.leb (loud_count args) 1 && forallb se_expr args
  | ECond c a b => se_expr c && se_expr a && se_expr b
  | EArr es => Nat.leb (loud_count es) 1 && forallb se_expr es          (* dynarray_literal_int(n, e1, .., en) *)
  | EAt a i => Nat.leb (loud_count [a; i]) 1 && se_expr a && se_expr i  (* nl_array_at_int(a, i) *)
  | ELen a => se_expr a
  | EStr1 _ a => se_expr a
  | EStr2 _ a b => Nat.leb (loud_count [a; b]) 1 && se_expr a && se_expr b             (* a C call with two arguments *)
  | ESubstr a b c => Nat.leb (loud_count [a; b; c]) 1 && se_expr a && se_expr b && se_expr c
  end.

Fixpoint se_stmt (s : stmt) : bool :=
  match s with
  | SSkip | SBreak | SContinue | SReturn None => true
  | SSeq a b => se_stmt a && se_stmt b
  | SLet _ _ _ e | SSet _ e | SReturn (Some e) | SPrint _ e | SAssert e | SExpr e => se_expr e
  | SIf c a b => se_expr c && se_stmt a && se_stmt b
  | SWhile c b => se_expr c && se_stmt b
  | SFor _ lo hi b => se_expr lo && se_expr hi && se_stmt b
  end.

Definition se_program (p : program) : bool :=
  forallb (fun d => se_stmt (fbody d)) (pfns p) && forallb (fun g => se_expr (snd g)) (pglobals p).

(* ---- mirrors of the local loops eval_args / eval_args_rl of nat_expr, parameterised by the evaluator ---- *)
Section Loops.
Variable ev : expr -> list N -> nres value.
Fixpoint args_lr (l : list expr) (out0 : list N) : nres (list value) :=
  match l with
  | [] => NOk [] out0
  | a :: r => nbind (ev a out0) (fun v out1 =>
              nbind (args_lr r out1) (fun vs out2 => NOk (v :: vs) out2))
  end.
Fixpoint args_rl (l : list expr) (out0 : list N) : nres (list value) :=
  match l with
  | [] => NOk [] out0
  | a :: r => nbind (args_rl r out0) (fun vs out1 =>
              nbind (ev a out1) (fun v out2 => NOk (v :: vs) out2))
  end.
End Loops.
Definition sel_args (ord : arg_order) (ev : expr -> list N -> nres value) (l : list expr) (out : list N) :=
  match ord with LtoR => args_lr ev l out | RtoL => args_rl ev l out end.

(* what nat_expr does with the argument values of a call *)
Definition call_tail (ord : arg_order) (fns : list fn) (fuel' : nat) (genv : nenv) (f : ident)
                     (vs : list value) (out1 : list N) : nres value :=
  match nat_find_fn fns f with
  | None => NStuck
  | Some d =>
      match nat_bind_params (fparams d) vs with
      | None => NStuck
      | Some en' =>
          nbind (nat_stmt ord fns fuel' genv (rev en') (fbody d) out1) (fun r out2 =>
            match fst r with
            | NCReturn v => NOk v out2
            | NCNormal => NOk VVoid out2
            | _ => NStuck end)
      end
  end.

(* what nat_expr does with the element values of an array literal, and with the two operand values of (at a i) *)
Definition arr_tail (vs : list value) (out1 : list N) : nres value :=
  match ints_of vs with Some l => NOk (VArr l) out1 | None => NStuck end.
Definition at_tail (vs : list value) (out2 : list N) : nres value :=
  match vs with [va; vi] => nat_at va vi out2 | _ => NStuck end.

Definition str2_tail (o : sop2) (vs : list value) (out2 : list N) : nres value :=
  match vs with [va; vb] => of_nopres (nat_str2 o va vb) out2 | _ => NStuck end.
Definition substr_tail (vs : list value) (out3 : list N) : nres value :=
  match vs with [va; vb; vc] => of_nopres (nat_substr va vb vc) out3 | _ => NStuck end.

(* how run_nat turns the result of "globals; main()" into an outcome *)
Definition nat_finish (r : nres value) : nat_outcome :=
  match r with
  | NOk (VInt z) out => NDone out (z mod 256)
  | NOk _ out => NStuckO
  | NFault f out => NFaulted f out
  | NStuck => NStuckO
  | NCcFail => NCcFailO
  | NNoFuel => NOutOfFuel
  end.
Definition nat_whole (ord : arg_order) (fuel : nat) (p : program) : nres value :=
  nbind (nat_globals ord (pfns p) fuel (pglobals p) [] [])
        (fun genv out0 => nat_expr ord (pfns p) fuel genv [] (ECall (pmain p) []) out0).

(* ---- pure evaluator of quiet expressions: None = the native model gets stuck ---- *)
Definition obind {A B} (o : option A) (k : A -> option B) : option B :=
  match o with Some a => k a | None => None end.
Definition nopres_q (r : nopres) : option value := match r with NOV v => Some v | _ => None end.
Definition qres {A} (q : option A) (out : list N) : nres A :=
  match q with Some v => NOk v out | None => NStuck end.

Fixpoint qeval (genv en : nenv) (e : expr) : option value :=
  match e with
  | ENum z => Some (VInt z)
  | EBool b => Some (VBool b)
  | EStr s => Some (VStr (unescape s))
  | EVar x =>
      match nlookup x en with
      | Some (_, v) => Some v
      | None => match nlookup x genv with Some (_, v) => Some v | None => None end
      end
  | EUn o a => obind (qeval genv en a) (fun v => nopres_q (nat_unop o v))
  | EBin BAnd a b =>
      obind (qeval genv en a) (fun va =>
        match va with
        | VBool false => Some (VBool false)
        | VBool true => obind (qeval genv en b) (fun vb => match vb with VBool _ => Some vb | _ => None end)
        | _ => None end)
  | EBin BOr a b =>
      obind (qeval genv en a) (fun va =>
        match va with
        | VBool true => Some (VBool true)
        | VBool false => obind (qeval genv en b) (fun vb => match vb with VBool _ => Some vb | _ => None end)
        | _ => None end)
  | EBin o a b =>
      obind (qeval genv en a) (fun va => obind (qeval genv en b) (fun vb => nopres_q (nat_binop o va vb)))
  | ECond c a b =>
      obind (qeval genv en c) (fun vc =>
        match vc with
        | VBool true => qeval genv en a
        | VBool false => qeval genv en b
        | _ => None end)
  | ECall _ _ => None
  | EArr es =>
      obind ((fix go (l : list expr) : option (list value) :=
                match l with
                | [] => Some []
                | a :: r => obind (qeval genv en a) (fun v => obind (go r) (fun vs => Some (v :: vs)))
                end) es)
            (fun vs => match ints_of vs with Some l => Some (VArr l) | None => None end)
  | EAt _ _ => None
  | ELen a => obind (qeval genv en a) (fun va => match va with VArr l => Some (VInt (Z.of_nat (length l))) | _ => None end)
  | EStr1 o a => obind (qeval genv en a) (fun v => nopres_q (nat_str1 o v))
  | EStr2 o a b =>
      match o with
      | SEquals | SContains => obind (qeval genv en a) (fun va => obind (qeval genv en b) (fun vb => nopres_q (nat_str2 o va vb)))
      | _ => None end
  | ESubstr _ _ _ => None
  end.
Fixpoint qargs (q : expr -> option value) (l : list expr) : option (list value) :=
  match l with
  | [] => Some []
  | a :: r => obind (q a) (fun v => obind (qargs q r) (fun vs => Some (v :: vs)))
  end.

(* evaluation depth of a quiet expression: fuel above it is enough *)
Fixpoint qdepth (e : expr) : nat :=
  match e with
  | EUn _ a => S (qdepth a)
  | EBin _ a b => S (Nat.max (qdepth a) (qdepth b))
  | ECond c a b => S (Nat.max (qdepth c) (Nat.max (qdepth a) (qdepth b)))
  | EArr es => S ((fix go (l : list expr) : nat := match l with [] => O | a :: r => Nat.max (qdepth a) (go r) end) es)
  | ELen a => S (qdepth a)
  | EStr1 _ a => S (qdepth a)
  | EStr2 _ a b => S (Nat.max (qdepth a) (qdepth b))
  | _ => O
  end.
