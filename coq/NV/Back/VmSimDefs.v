(* VM simulation: the statements of the simulation (per expression / statement, indexed by the reference result),
   the hypotheses they carry, and the proof plumbing (result-indexed postconditions, bind, tactics). *)
From Coq Require Import ZArith NArith List Bool Lia.
From NV Require Import Base.Bytes Isa.Codec Isa.CodecProofs gen.IsaTable Lang.Ast Lang.Ref Back.VmCompile Back.VmExec Back.OpTable
  Back.VmSimFetch Back.VmSimStep Back.VmSimComp Back.VmSimWf Back.VmSimEnv.
Import ListNotations.

(* ---------- what the source must satisfy (facts a front end guarantees) ---------- *)
(* literals fit in 64 bits, variable names are user names (< 2^40; the compiler's helper names live above) *)
Fixpoint expr_ok (e : expr) : Prop :=
  match e with
  | ENum z => in64 z = true
  | EBool _ => True
  | EStr s => (N.of_nat (length s) <= 1048576)%N           (* a literal of at most 1 MiB (source spelling) *)
  | EVar x => user_name x
  | EUn _ a => expr_ok a
  | EBin _ a b => expr_ok a /\ expr_ok b
  | ECall _ args => (fix go (l : list expr) : Prop := match l with [] => True | a :: r => expr_ok a /\ go r end) args
  | ECond c a b => expr_ok c /\ expr_ok a /\ expr_ok b
  | EArr es => (N.of_nat (length es) < 65536)%N /\       (* the element count is a u16 operand of ARR_LITERAL *)
               (fix go (l : list expr) : Prop := match l with [] => True | a :: r => expr_ok a /\ go r end) es
  | EAt a i => expr_ok a /\ expr_ok i
  | ELen a => expr_ok a
  | EStr1 _ a => expr_ok a
  | EStr2 _ a b => expr_ok a /\ expr_ok b
  | ESubstr a b c => expr_ok a /\ expr_ok b /\ expr_ok c
  end.
Definition exprs_ok : list expr -> Prop :=
  fix go (l : list expr) : Prop := match l with [] => True | a :: r => expr_ok a /\ go r end.

Fixpoint stmt_ok (s : stmt) : Prop :=
  match s with
  | SSkip | SBreak | SContinue | SReturn None => True
  | SSeq a b => stmt_ok a /\ stmt_ok b
  | SLet _ x _ e => user_name x /\ expr_ok e
  | SSet x e => user_name x /\ expr_ok e
  | SIf c a b => expr_ok c /\ stmt_ok a /\ stmt_ok b
  | SWhile c b => expr_ok c /\ stmt_ok b
  | SFor x lo hi b => user_name x /\ expr_ok lo /\ expr_ok hi /\ stmt_ok b
  | SReturn (Some e) | SPrint _ e | SAssert e | SExpr e => expr_ok e
  end.

(* expr_ok / stmt_ok contain the literal-size condition the well-formedness of the emitted code needs *)
Lemma expr_ok_lit_small e : expr_ok e -> lit_small e.
Proof.
  induction e as [z|b|s|x|o a IHa|o a b IHa IHb|f args IHargs|c0 a b IHc IHa IHb|es IHes|a i IHa IHi|a IHa
                  |so a IHa|so a b IHa IHb|a b c1 IHa IHb IHc] using expr_ind2;
    cbn [expr_ok lit_small]; try tauto.
  - induction IHargs as [|a r Ha _ IH]; [tauto|]. intros [H1 H2]. split; [apply Ha; exact H1|apply IH; exact H2].
  - intros [Hn H]. split; [exact Hn|]. clear Hn. induction IHes as [|a r Ha _ IH]; [exact I|].
    destruct H as [H1 H2]. split; [apply Ha; exact H1|apply IH; exact H2].
Qed.
Lemma stmt_ok_lits_small s : stmt_ok s -> lits_small s.
Proof.
  induction s as [ |s1 IH1 s2 IH2|m x t e|x e|c0 s1 IH1 s2 IH2|c0 body IHb|x lo hi body IHb| | |[e|]|nl e|e|e];
    cbn [stmt_ok lits_small]; try tauto; intros; repeat match goal with HH : _ /\ _ |- _ => destruct HH end;
    repeat split; auto using expr_ok_lit_small.
Qed.

Definition fn_ok (d : fn) : Prop := Forall (fun p => user_name (fst p)) (fparams d) /\ stmt_ok (fbody d).

(* only used by SFor: the VM keeps the loop index in an int64, the reference counts in Z *)
Definition fuel_small (f : nat) : Prop := (Z.of_nat f < 9223372036854775808)%Z.
Lemma fuel_small_S f : fuel_small (S f) -> fuel_small f.
Proof. unfold fuel_small. lia. Qed.

(* ---------- result-indexed postconditions ---------- *)
Definition rpost {A} (P : A -> list N -> mres -> Prop) (r : res A) : mres -> Prop :=
  match r with
  | Ok a o => P a o
  | Fault FAssert o => fun m => m = MErr EAssert o
  | Fault FOob o => fun m => m = MErr EOob o            (* an out-of-range (at a i) traps *)
  | _ => fun _ => True
  end.

Lemma mkst_eq fn ret locs locs' st st' cs ip ip' g out out' :
  locs = locs' -> st = st' -> ip = ip' -> out = out' ->
  mkst fn ret locs st cs ip g out = mkst fn ret locs' st' cs ip' g out'.
Proof. intros; subst; reflexivity. Qed.

Section Sim.
Variable fns : list fn.
Variable G : genv.
Variable M : vmodule.

Lemma rpost_bind {A B} (P1 : A -> list N -> mres -> Prop) (P2 : B -> list N -> mres -> Prop)
      (r1 : res A) (k : A -> list N -> res B) s :
  Reach M s (rpost P1 r1) ->
  (forall a o m, r1 = Ok a o -> P1 a o m ->
     match m with MNext s' => Reach M s' (rpost P2 (k a o)) | _ => rpost P2 (k a o) m end) ->
  Reach M s (rpost P2 (bind r1 k)).
Proof.
  intros H K. destruct r1 as [a o|f o| |]; cbn [bind rpost] in *.
  - eapply Reach_bind; [exact H|]. intros m Hm. apply K; auto.
  - destruct f; try apply Reach_trivial; exact H.
  - apply Reach_trivial.
  - apply Reach_trivial.
Qed.

(* the function whose code is running: its table entry, its instruction list, and the 2^31 size limit that makes
   every relative jump representable *)
Definition in_fn (fn : nat) (fe : fentry) (cf : list instr) : Prop :=
  fentry_at M fn = Some fe /\ fn_code M fe cf /\ (Z.of_nat (csize cf) < 2147483648)%Z.

Definition match_genv (genv : env) (g : list mval) : Prop :=
  forall x m v, lookup x genv = Some (m, v) ->
    exists k, index_of x (g_globals G) 0 = Some k /\ nth_error g k = Some (mval_of v) /\ val_ok v.

Definition lctx_ok (cf : list instr) (L : option lctx) : Prop :=
  match L with Some l => l_top l <= csize cf /\ l_end l <= csize cf | None => True end.

Definition expr_post fn fe ret locs st cs g (pos' : nat) (v : value) (out' : list N) (m : mres) : Prop :=
  m = MNext (mkst fn ret locs (mval_of v :: st) cs (fe_off fe + pos') g out') /\ val_ok v.

Definition expr_sim (fuel : nat) (e : expr) : Prop :=
  forall genv en out ce p c p' fn fe cf pos ret locs st cs g,
  in_fn fn fe cf -> compile_expr G ce e p = Some (c, p') -> code_at cf pos c ->
  expr_ok e -> match_env ce en locs -> match_genv genv g -> pool_le p' (m_strings M) -> fuel_small fuel ->
  Reach M (mkst fn ret locs st cs (fe_off fe + pos) g out)
    (rpost (expr_post fn fe ret locs st cs g (pos + csize c)) (eval_expr fns fuel genv en e out)).

Definition stmt_post fn fe ret (locs st : list mval) cs g (ce ce' : cenv) (L : option lctx) (pos' : nat)
    (r : ctl * env) (out' : list N) (m : mres) : Prop :=
  match fst r with
  | CNormal => exists locs', m = MNext (mkst fn ret locs' st cs (fe_off fe + pos') g out') /\
                             length locs' = length locs /\ match_env ce' (snd r) locs' /\ keeps ce locs locs'
  | CBreak => exists l locs' ext, L = Some l /\ m = MNext (mkst fn ret locs' st cs (fe_off fe + l_end l) g out') /\
                             length locs' = length locs /\ match_env (ce ++ ext) (snd r) locs' /\ keeps ce locs locs'
  | CContinue => exists l locs' ext, L = Some l /\ m = MNext (mkst fn ret locs' st cs (fe_off fe + l_top l) g out') /\
                             length locs' = length locs /\ match_env (ce ++ ext) (snd r) locs' /\ keeps ce locs locs'
  | CReturn v => m = ret_result ret cs g out' (mval_of v) /\ val_ok v
  end.

Definition stmt_sim (fuel : nat) (s : stmt) : Prop :=
  forall genv en out ce p c ce' p' L fn fe cf pos ret locs st cs g,
  in_fn fn fe cf -> compile_stmt G pos L ce s p = Some (c, ce', p') -> code_at cf pos c -> lctx_ok cf L ->
  stmt_ok s -> match_env ce en locs -> length ce' <= length locs -> match_genv genv g ->
  pool_le p' (m_strings M) -> fuel_small fuel ->
  Reach M (mkst fn ret locs st cs (fe_off fe + pos) g out)
    (rpost (stmt_post fn fe ret locs st cs g ce ce' L (pos + csize c)) (exec_stmt fns fuel genv en s out)).

Lemma expr_sim_0 e : expr_sim 0 e.
Proof. red; intros. apply Reach_trivial. Qed.
Lemma stmt_sim_0 s : stmt_sim 0 s.
Proof. red; intros. apply Reach_trivial. Qed.

End Sim.

(* ---------- tactics ---------- *)
(* bring the goal's ip into the form  fe_off fe + p  where p is the position recorded in a code_at hypothesis *)
Ltac at_code Hc :=
  match type of Hc with
  | code_at _ ?p _ =>
      match goal with
      | |- Reach _ (mkst _ _ _ _ _ ?ip _ _) _ =>
          match ip with
          | context [fe_off ?fe] => replace ip with (fe_off fe + p) by lia
          end
      end
  end.

(* one VM step: instruction at the head of the list in Hc, executed by the per-opcode lemma L *)
Ltac vstep Hfe Hcode Hc L :=
  at_code Hc;
  eapply Reach_step; [eapply L; [eapply fetch_at; [exact Hfe|exact Hcode|exact Hc]|..]|].

Ltac vnext Hc :=
  apply code_at_cons_r in Hc; autorewrite with csz in Hc.

Ltac same_state :=
  first [reflexivity | apply (f_equal MNext); apply mkst_eq; try reflexivity; autorewrite with csz; try lia].
