(* VM simulation, stage G (part 1): the shape of a compiled module.  From compile_program p = Some M:
   every source function sits in the function table at its index, its code region is the encoding of the
   instruction list compile_stmt produced (plus the "implicit return" epilogue when the compiler adds one). *)
From Coq Require Import ZArith NArith List Bool Lia.
From NV Require Import Base.Bytes Isa.Codec Isa.CodecProofs gen.IsaTable Lang.Ast Lang.Ref Back.VmCompile Back.VmExec Back.OpTable
  Back.VmSimFetch Back.VmSimStep Back.VmSimComp Back.VmSimWf Back.VmSimEnv Back.VmSimDefs Back.VmSimExpr Back.VmSimStmt
  Back.VmSimCall.
Import ListNotations.

Definition epi : list instr := [mk OP_PUSH_VOID []; mk OP_RET []].
Lemma epi_wf : Forall (wf_instr table) epi.
Proof. repeat constructor; try reflexivity; exists []; split; reflexivity || exact I. Qed.
Lemma epi_enc : encode_all epi = Some [5%N; 61%N].
Proof. reflexivity. Qed.

(* ---------- size limits of the compiled module, and what the source must satisfy ---------- *)
Definition module_small (M : vmodule) : Prop :=
  (Z.of_nat (length (m_code M)) < 2147483648)%Z /\
  (N.of_nat (length (m_strings M)) <= 4294967296)%N /\
  Forall (fun fe => (N.of_nat (fe_locals fe) <= 65536)%N) (m_fns M) /\
  (N.of_nat (length (m_fns M)) <= 4294967296)%N.

Definition prog_genv (pr : program) : genv :=
  {| g_globals := map (fun g => fst (fst g)) (pglobals pr); g_fns := map fname (pfns pr) |}.

Definition source_ok (pr : program) : Prop :=
  Forall fn_ok (pfns pr) /\
  Forall (fun g => expr_ok (snd g)) (pglobals pr) /\
  NoDup (map (fun g => fst (fst g)) (pglobals pr)) /\ length (pglobals pr) <= VM_MAX_GLOBALS_N.

Definition small_program (pr : program) : Prop :=
  source_ok pr /\ forall M, compile_program pr = Some M -> module_small M.

(* ---------- function lookup: reference and compiler agree (first match) ---------- *)
Lemma find_fn_index fns f d : forall i, find_fn fns f = Some d ->
  exists idx, index_of f (map fname fns) i = Some (i + idx) /\ nth_error fns idx = Some d.
Proof.
  unfold find_fn. induction fns as [|a fns IH]; intros i H; cbn [find map index_of] in *; [discriminate|].
  rewrite (N.eqb_sym f). destruct (N.eqb (fname a) f).
  - inversion H; subst. exists 0. split; [f_equal; lia|reflexivity].
  - destruct (IH (S i) H) as (idx & Hi & Hn). exists (S idx). split; [rewrite Hi; f_equal; lia|exact Hn].
Qed.

(* ---------- one function body ---------- *)
Lemma compile_fn_body_spec G d p bs nloc p' : compile_fn_body G d p = Some (bs, nloc, p') ->
  exists c ce, compile_stmt G 0 None (map fst (fparams d)) (fbody d) p = Some (c, ce, p') /\ nloc = length ce /\
    encode_all (c ++ epi) = Some bs.
Proof.
  unfold compile_fn_body. destruct (compile_stmt G 0 None (map fst (fparams d)) (fbody d) p) as [[[c ce] p1]|]; [|discriminate].
  destruct (encode_all c) as [bs0|] eqn:E; [|discriminate]. intros H.
  exists c, ce. apply some3_inj in H. destruct H as (<- & <- & <-).
  split; [reflexivity|]. split; [reflexivity|]. rewrite encode_all_app, E. reflexivity.
Qed.

(* ---------- the function table ---------- *)
Lemma compile_fns_spec G : forall ds names off p code es p',
  compile_fns G ds names off p = Some (code, es, p') ->
  length es = length ds /\ pool_le p p' /\
  forall i d, nth_error ds i = Some d ->
    exists fe bs pi pi', nth_error es i = Some fe /\ compile_fn_body G d pi = Some (bs, fe_locals fe, pi') /\ pool_le pi' p' /\
      fe_arity fe = length (fparams d) /\ fe_len fe = length bs /\ off <= fe_off fe /\
      firstn (length bs) (skipn (fe_off fe - off) code) = bs.
Proof.
  induction ds as [|d ds IH]; intros names off p code es p' H; cbn [compile_fns] in H.
  - apply some3_inj in H. destruct H as (<- & <- & <-). split; [reflexivity|]. split; [apply pool_le_refl|].
    intros i d Hn. destruct i; discriminate.
  - destruct names as [|nm nms]; [discriminate|].
    destruct (compile_fn_body G d p) as [[[bs nloc] p1]|] eqn:Eb; [|discriminate].
    destruct (compile_fns G ds nms (off + length bs) p1) as [[[code1 es1] p2]|] eqn:Er; [|discriminate].
    apply some3_inj in H. destruct H as (<- & <- & <-).
    destruct (IH _ _ _ _ _ _ Er) as (Hl & Hp & Hall).
    assert (P1 : pool_le p p1).
    { destruct (compile_fn_body_spec _ _ _ _ _ _ Eb) as (c & ce & Hc & _). apply (compile_stmt_ext _ _ _ _ _ _ _ _ _ Hc). }
    split; [cbn [length]; congruence|]. split; [eapply pool_le_trans; eassumption|].
    intros i d0 Hn. destruct i as [|i]; cbn [nth_error] in Hn.
    + inversion Hn; subst d0.
      exists {| fe_name := nm; fe_arity := length (fparams d); fe_off := off; fe_len := length bs; fe_locals := nloc |}, bs, p, p1. cbn [nth_error fe_locals fe_arity fe_len fe_off].
      split; [reflexivity|]. split; [exact Eb|]. split; [exact Hp|]. split; [reflexivity|]. split; [reflexivity|].
      split; [lia|]. rewrite Nat.sub_diag. cbn [skipn]. unfold byte in *. rewrite firstn_app, firstn_all, Nat.sub_diag. cbn [firstn].
      apply app_nil_r.
    + destruct (Hall i d0 Hn) as (fe & bs' & pi & pi' & H1 & H2 & H3 & H4 & H5 & H6 & H7).
      exists fe, bs', pi, pi'. cbn [nth_error]. repeat (split; [assumption|]). split; [lia|].
      unfold byte in *. rewrite skipn_app. rewrite skipn_all2 by lia. cbn [app].
      replace (fe_off fe - off - length bs) with (fe_off fe - (off + length bs)) by lia. exact H7.
Qed.

(* ---------- from the table to fns_compiled ---------- *)
Lemma skipn_pre {A} (pre code : list A) n : length pre <= n -> skipn n (pre ++ code) = skipn (n - length pre) code.
Proof. intros H. rewrite skipn_app, skipn_all2 by lia. reflexivity. Qed.

Lemma fns_compiled_intro G M fns names p code es p' pre extra :
  compile_fns G fns names (length pre) p = Some (code, es, p') ->
  m_code M = pre ++ code -> m_fns M = es ++ extra -> m_strings M = p' -> g_fns G = map fname fns ->
  module_small M -> length (g_globals G) <= VM_MAX_GLOBALS_N ->
  Forall fn_ok fns ->
  fns_compiled fns G M.
Proof.
  intros Hcf Hcode Hfns Hstr Hgf (Hsm1 & Hsm2 & Hsm3 & Hsm4) HG Hok f d Hfind.
  destruct (find_fn_index _ _ _ 0 Hfind) as (idx & Hidx & Hnth). cbn [Nat.add] in Hidx. rewrite <- Hgf in Hidx.
  exists idx. split; [exact Hidx|].
  destruct (compile_fns_spec _ _ _ _ _ _ _ _ Hcf) as (Hl & Hp & Hall).
  destruct (Hall _ _ Hnth) as (fe & bs & pi & pi' & Hfe & Hbody & Hpi & Har & Hlen & Hoff & Hbytes).
  destruct (compile_fn_body_spec _ _ _ _ _ _ Hbody) as (c & ce & Hc & Hnl & Henc).
  assert (Hfe' : fentry_at M idx = Some fe).
  { unfold fentry_at. rewrite Hfns. rewrite nth_error_app1; [exact Hfe|]. apply nth_error_Some. rewrite Hfe. discriminate. }
  assert (Hfd : fn_ok d) by (rewrite Forall_forall in Hok; apply Hok; eapply nth_error_In; eassumption).
  assert (Hloc : (N.of_nat (length ce) <= 65536)%N).
  { rewrite Forall_forall in Hsm3. rewrite <- Hnl. apply Hsm3. unfold fentry_at in Hfe'. eapply nth_error_In; eassumption. }
  assert (Hlims : lims G (length ce) (length pi')).
  { unfold lims. repeat split; try assumption.
    - apply pool_le_length in Hpi. rewrite Hstr in Hsm2. lia.
    - rewrite Hgf, map_length. rewrite Hfns, app_length in Hsm4. lia. }
  pose proof (compile_stmt_wf _ _ _ _ _ _ _ _ _ Hc Hlims (stmt_ok_lits_small _ (proj2 Hfd))) as Hwf.
  assert (Hregion : firstn (fe_len fe) (skipn (fe_off fe) (m_code M)) = bs).
  { rewrite Hcode, skipn_pre by lia. rewrite Hlen. exact Hbytes. }
  assert (Hbl : (Z.of_nat (length bs) < 2147483648)%Z).
  { assert (length bs <= length (m_code M)); [|lia].
    rewrite <- Hregion at 1. rewrite firstn_length, skipn_length. lia. }
  rename Henc into He.
  exists fe, (c ++ epi), c, ce, pi, pi'.
  split; [exact Hfe'|]. split.
  { split; [apply Forall_app; split; [exact Hwf|exact epi_wf]|]. exists bs. split; [exact He|]. split; [congruence|exact Hregion]. }
  split; [rewrite <- (encode_all_length _ _ He); exact Hbl|]. split; [exact Har|]. split; [exact Hnl|]. split; [exact Hc|].
  split; [rewrite Hstr; exact Hpi|]. split; [reflexivity|exact Hfd].
Qed.
