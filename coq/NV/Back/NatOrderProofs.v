(* Proofs for NatOrder: fuel monotonicity of the native interpreter, steadiness of quiet expressions, and
   "under se_program the argument order of the native model is not observable" (up to fuel and stuckness). *)
From Coq Require Import ZArith NArith List Bool Lia PeanoNat.
From NV Require Import Lang.Ast Lang.AstInd Lang.Ref Back.NatSem Back.Agree Back.NatOrder.
Import ListNotations.

(* ---------- the local loops of nat_expr are the mirrors ---------- *)
Lemma nat_expr_call_eq ord fns n genv en f args out :
  nat_expr ord fns (S n) genv en (ECall f args) out =
  nbind (sel_args ord (nat_expr ord fns n genv en) args out) (call_tail ord fns n genv f).
Proof. destruct ord; reflexivity. Qed.

Lemma nat_expr_arr_eq ord fns n genv en es out :
  nat_expr ord fns (S n) genv en (EArr es) out =
  nbind (sel_args ord (nat_expr ord fns n genv en) es out) arr_tail.
Proof. destruct ord; reflexivity. Qed.

(* (at a i) is the two-argument call nl_array_at_int(a, i) *)
Lemma nat_expr_at_eq ord fns n genv en a i out :
  nat_expr ord fns (S n) genv en (EAt a i) out =
  nbind (sel_args ord (nat_expr ord fns n genv en) [a; i] out) at_tail.
Proof.
  destruct ord; cbn [nat_expr sel_args args_lr args_rl nbind].
  - destruct (nat_expr LtoR fns n genv en a out) as [va o1| | | |]; cbn [nbind]; try reflexivity.
    destruct (nat_expr LtoR fns n genv en i o1) as [vi o2| | | |]; reflexivity.
  - destruct (nat_expr RtoL fns n genv en i out) as [vi o1| | | |]; cbn [nbind]; try reflexivity.
    destruct (nat_expr RtoL fns n genv en a o1) as [va o2| | | |]; reflexivity.
Qed.

(* the binary string builtins and str_substring are C calls with two / three arguments *)
Lemma nat_expr_str2_eq ord fns n genv en o a b out :
  nat_expr ord fns (S n) genv en (EStr2 o a b) out =
  nbind (sel_args ord (nat_expr ord fns n genv en) [a; b] out) (str2_tail o).
Proof.
  destruct ord; cbn [nat_expr sel_args args_lr args_rl nbind].
  - destruct (nat_expr LtoR fns n genv en a out) as [va o1| | | |]; cbn [nbind]; try reflexivity.
    destruct (nat_expr LtoR fns n genv en b o1) as [vb o2| | | |]; reflexivity.
  - destruct (nat_expr RtoL fns n genv en b out) as [vb o1| | | |]; cbn [nbind]; try reflexivity.
    destruct (nat_expr RtoL fns n genv en a o1) as [va o2| | | |]; reflexivity.
Qed.
Lemma nat_expr_substr_eq ord fns n genv en a b c out :
  nat_expr ord fns (S n) genv en (ESubstr a b c) out =
  nbind (sel_args ord (nat_expr ord fns n genv en) [a; b; c] out) substr_tail.
Proof.
  destruct ord; cbn [nat_expr sel_args args_lr args_rl nbind].
  - destruct (nat_expr LtoR fns n genv en a out) as [va o1| | | |]; cbn [nbind]; try reflexivity.
    destruct (nat_expr LtoR fns n genv en b o1) as [vb o2| | | |]; cbn [nbind]; try reflexivity.
    destruct (nat_expr LtoR fns n genv en c o2) as [vc o3| | | |]; reflexivity.
  - destruct (nat_expr RtoL fns n genv en c out) as [vc o1| | | |]; cbn [nbind]; try reflexivity.
    destruct (nat_expr RtoL fns n genv en b o1) as [vb o2| | | |]; cbn [nbind]; try reflexivity.
    destruct (nat_expr RtoL fns n genv en a o2) as [va o3| | | |]; reflexivity.
Qed.

Lemma run_nat_eq ord fuel p :
  run_nat ord fuel p = if cc_refuses p then NCcFailO else nat_finish (nat_whole ord fuel p).
Proof.
  unfold run_nat, nat_whole. destruct (cc_refuses p); [reflexivity|].
  destruct (nat_globals ord (pfns p) fuel (pglobals p) [] []); reflexivity.
Qed.

(* ---------- fuel monotonicity ---------- *)
Definition upto {A} (r r' : nres A) : Prop := r <> NNoFuel -> r' = r.

Lemma upto_refl {A} (r : nres A) : upto r r.
Proof. intros _; reflexivity. Qed.

Lemma upto_bind {A B} (r r' : nres A) (k k' : A -> list N -> nres B) :
  upto r r' -> (forall a o, upto (k a o) (k' a o)) -> upto (nbind r k) (nbind r' k').
Proof.
  intros H1 H2 Hn. destruct r; simpl in *; try congruence; rewrite H1 by discriminate; simpl; auto.
  apply H2; exact Hn.
Qed.

Lemma args_lr_upto ev ev' l : (forall a out, upto (ev a out) (ev' a out)) ->
  forall out, upto (args_lr ev l out) (args_lr ev' l out).
Proof.
  intros H. induction l as [|a r IH]; intros out; simpl; [apply upto_refl|].
  apply upto_bind; [apply H|intros]. apply upto_bind; [apply IH|intros; apply upto_refl].
Qed.
Lemma args_rl_upto ev ev' l : (forall a out, upto (ev a out) (ev' a out)) ->
  forall out, upto (args_rl ev l out) (args_rl ev' l out).
Proof.
  intros H. induction l as [|a r IH]; intros out; simpl; [apply upto_refl|].
  apply upto_bind; [apply IH|intros]. apply upto_bind; [apply H|intros; apply upto_refl].
Qed.
Lemma sel_args_upto ord ev ev' l out : (forall a out, upto (ev a out) (ev' a out)) ->
  upto (sel_args ord ev l out) (sel_args ord ev' l out).
Proof. intros H. destruct ord; simpl; [apply args_lr_upto|apply args_rl_upto]; exact H. Qed.

Section Mono.
Variable ord : arg_order.
Variable fns : list fn.

Definition expr_mono (n : nat) := forall m genv en e out, n <= m ->
  upto (nat_expr ord fns n genv en e out) (nat_expr ord fns m genv en e out).
Definition stmt_mono (n : nat) := forall m genv en s out, n <= m ->
  upto (nat_stmt ord fns n genv en s out) (nat_stmt ord fns m genv en s out).
Definition for_mono (n : nat) := forall m genv en x i hi body out, n <= m ->
  upto (nat_for ord fns n genv en x i hi body out) (nat_for ord fns m genv en x i hi body out).

Ltac ubind := apply upto_bind; [|intros].

Lemma nat_mono_all : forall n, expr_mono n /\ stmt_mono n /\ for_mono n.
Proof.
  induction n as [|n [IHe [IHs IHf]]].
  - repeat split; red; intros; intros Hn; simpl in Hn; congruence.
  - split; [|split].
    + red; intros m genv en e out Hle. destruct m as [|m]; [lia|]. assert (Hnm : n <= m) by lia.
      pose proof (fun genv en e out => IHe m genv en e out Hnm) as He.
      pose proof (fun genv en s out => IHs m genv en s out Hnm) as Hs.
      destruct e.
      * apply upto_refl.
      * apply upto_refl.
      * apply upto_refl.
      * apply upto_refl.
      * cbn [nat_expr]. ubind; [apply He|apply upto_refl].
      * cbn [nat_expr]. destruct o;
          try (ubind; [apply He|]; ubind; [apply He|apply upto_refl]).
        -- ubind; [apply He|]. destruct a as [z|[|]| |s|l]; try apply upto_refl.
           ubind; [apply He|apply upto_refl].
        -- ubind; [apply He|]. destruct a as [z|[|]| |s|l]; try apply upto_refl.
           ubind; [apply He|apply upto_refl].
      * rewrite !nat_expr_call_eq. ubind; [apply sel_args_upto; intros; apply He|].
        unfold call_tail. destruct (nat_find_fn fns f) as [d|]; [|apply upto_refl].
        destruct (nat_bind_params (fparams d) a) as [en'|]; [|apply upto_refl].
        ubind; [apply Hs|apply upto_refl].
      * cbn [nat_expr]. ubind; [apply He|]. destruct a as [z|[|]| |s|l]; try apply upto_refl; apply He.
      * rewrite !nat_expr_arr_eq. ubind; [apply sel_args_upto; intros; apply He|apply upto_refl].
      * rewrite !nat_expr_at_eq. ubind; [apply sel_args_upto; intros; apply He|apply upto_refl].
      * cbn [nat_expr]. ubind; [apply He|apply upto_refl].
      * cbn [nat_expr]. ubind; [apply He|apply upto_refl].
      * rewrite !nat_expr_str2_eq. ubind; [apply sel_args_upto; intros; apply He|apply upto_refl].
      * rewrite !nat_expr_substr_eq. ubind; [apply sel_args_upto; intros; apply He|apply upto_refl].
    + red; intros m genv en s out Hle. destruct m as [|m]; [lia|]. assert (Hnm : n <= m) by lia.
      pose proof (fun genv en e out => IHe m genv en e out Hnm) as He.
      pose proof (fun genv en s out => IHs m genv en s out Hnm) as Hs.
      pose proof (fun genv en x i hi body out => IHf m genv en x i hi body out Hnm) as Hf.
      destruct s; cbn [nat_stmt].
      * apply upto_refl.
      * ubind; [apply Hs|]. destruct (fst a); try apply upto_refl. apply Hs.
      * ubind; [apply He|apply upto_refl].
      * ubind; [apply He|apply upto_refl].
      * ubind; [apply He|]. destruct a as [z|b| |s'|l']; try apply upto_refl.
        ubind; [apply Hs|apply upto_refl].
      * ubind; [apply He|]. destruct a as [z|[|]| |s'|l']; try apply upto_refl.
        ubind; [apply Hs|]. destruct (fst a); try apply upto_refl; apply Hs.
      * ubind; [apply He|]. ubind; [apply He|].
        destruct a as [z| | | |]; destruct a0 as [z0| | | |]; try apply upto_refl. apply Hf.
      * apply upto_refl.
      * apply upto_refl.
      * destruct e as [e|]; [|apply upto_refl]. ubind; [apply He|apply upto_refl].
      * ubind; [apply He|apply upto_refl].
      * ubind; [apply He|apply upto_refl].
      * ubind; [apply He|apply upto_refl].
    + red; intros m genv en x i hi body out Hle. destruct m as [|m]; [lia|]. assert (Hnm : n <= m) by lia.
      pose proof (fun genv en s out => IHs m genv en s out Hnm) as Hs.
      pose proof (fun genv en x i hi body out => IHf m genv en x i hi body out Hnm) as Hf.
      cbn [nat_for]. destruct (Z.ltb i hi); [|apply upto_refl].
      ubind; [apply Hs|]. destruct (fst a); try apply upto_refl; apply Hf.
Qed.

(* item 2 of the task, one statement per function: a result other than NNoFuel is kept by every larger fuel *)
Lemma nat_expr_mono n m genv en e out : n <= m ->
  nat_expr ord fns n genv en e out <> NNoFuel ->
  nat_expr ord fns m genv en e out = nat_expr ord fns n genv en e out.
Proof. intros H. apply (proj1 (nat_mono_all n)); exact H. Qed.
Lemma nat_stmt_mono n m genv en s out : n <= m ->
  nat_stmt ord fns n genv en s out <> NNoFuel ->
  nat_stmt ord fns m genv en s out = nat_stmt ord fns n genv en s out.
Proof. intros H. apply (proj1 (proj2 (nat_mono_all n))); exact H. Qed.
Lemma nat_for_mono n m genv en x i hi body out : n <= m ->
  nat_for ord fns n genv en x i hi body out <> NNoFuel ->
  nat_for ord fns m genv en x i hi body out = nat_for ord fns n genv en x i hi body out.
Proof. intros H. apply (proj2 (proj2 (nat_mono_all n))); exact H. Qed.

Lemma nat_globals_upto n m gs : n <= m -> forall genv out,
  upto (nat_globals ord fns n gs genv out) (nat_globals ord fns m gs genv out).
Proof.
  intros H. induction gs as [|[[x t] e] r IH]; intros genv out; cbn [nat_globals]; [apply upto_refl|].
  ubind; [apply (proj1 (nat_mono_all n)); exact H|apply IH].
Qed.
End Mono.

Lemma nat_whole_upto ord n m p : n <= m -> upto (nat_whole ord n p) (nat_whole ord m p).
Proof.
  intros H. unfold nat_whole. apply upto_bind; [apply nat_globals_upto; exact H|intros].
  apply (proj1 (nat_mono_all ord (pfns p) n)); exact H.
Qed.

Theorem run_nat_mono ord n m p : n <= m -> run_nat ord n p <> NOutOfFuel -> run_nat ord m p = run_nat ord n p.
Proof.
  intros H. rewrite !run_nat_eq. destruct (cc_refuses p); [reflexivity|]. intros Hn.
  rewrite (nat_whole_upto ord n m p H); [reflexivity|]. intros E; rewrite E in Hn; apply Hn; reflexivity.
Qed.

(* ---------- quiet expressions ---------- *)
Lemma nopres_agree r out : (forall f, r <> NOF f) -> of_nopres r out = qres (nopres_q r) out.
Proof. intros H. destruct r; try reflexivity. exfalso; eapply H; reflexivity. Qed.

Lemma unop_nofault o v f : nat_unop o v <> NOF f.
Proof. destruct o, v; discriminate. Qed.

Lemma binop_nofault o a b f : o <> BDiv -> o <> BMod -> nat_binop o a b <> NOF f.
Proof.
  intros H1 H2. destruct o; try congruence; destruct a, b; try discriminate;
    cbn; match goal with |- context [nat_value_eqb ?x ?y] => destruct (nat_value_eqb x y) end; discriminate.
Qed.

Lemma args_lr_exact ev (q : expr -> option value) l :
  (forall a, In a l -> forall out, ev a out = qres (q a) out) -> forall out, args_lr ev l out = qres (qargs q l) out.
Proof.
  induction l as [|a r IH]; intros H out; [reflexivity|]. cbn [args_lr qargs].
  rewrite (H a (or_introl eq_refl)). destruct (q a) as [v|]; [|reflexivity]. cbn [qres nbind obind].
  rewrite IH by (intros b Hb; apply H; right; exact Hb). destruct (qargs q r); reflexivity.
Qed.
Lemma args_rl_exact ev (q : expr -> option value) l :
  (forall a, In a l -> forall out, ev a out = qres (q a) out) -> forall out, args_rl ev l out = qres (qargs q l) out.
Proof.
  induction l as [|a r IH]; intros H out; [reflexivity|]. cbn [args_rl qargs].
  rewrite IH by (intros b Hb; apply H; right; exact Hb).
  destruct (qargs q r) as [vs|]; cbn [qres nbind obind]; [|destruct (q a); reflexivity].
  rewrite (H a (or_introl eq_refl)). destruct (q a); reflexivity.
Qed.
Lemma qeval_arr genv en es :
  qeval genv en (EArr es) =
  obind (qargs (qeval genv en) es) (fun vs => match ints_of vs with Some l => Some (VArr l) | None => None end).
Proof.
  cbn [qeval]. f_equal. induction es as [|a r IH]; [reflexivity|]. cbn [qargs]. rewrite IH. reflexivity.
Qed.
Lemma qdepth_arr_elem es a : In a es ->
  qdepth a <= (fix go (l : list expr) : nat := match l with [] => O | a :: r => Nat.max (qdepth a) (go r) end) es.
Proof.
  induction es as [|b r IH]; intros H; [destruct H|]. destruct H as [->|H]; [lia|]. specialize (IH H). lia.
Qed.

Lemma str1_nofault o v f : nat_str1 o v <> NOF f.
Proof. destruct o, v; discriminate. Qed.
Lemma str2_quiet_nofault o a b f : match o with SEquals | SContains => True | _ => False end -> nat_str2 o a b <> NOF f.
Proof. destruct o; try contradiction; intros _; destruct a, b; discriminate. Qed.

Section Quiet.
Variable fns : list fn.
Variables genv en : nenv.

(* (b) of the plan, exact form: with fuel above its depth a quiet expression evaluates to the pure value, whatever
   the argument order and the output so far; it never faults and never prints *)
Lemma quiet_exact ord e : quiet e = true -> forall fuel out, qdepth e < fuel ->
  nat_expr ord fns fuel genv en e out = qres (qeval genv en e) out.
Proof.
  induction e as [z|b|s|x|o a IHa|o a b IHa IHb|f args _|c a b IHc IHa IHb|es IHes|a i _ _|a IHa
                  |so a IHa|so a b IHa IHb|a b c _ _ _] using expr_ind3;
    intros Q fuel out Hd; (destruct fuel as [|n]; [lia|]); cbn [quiet qdepth] in Q, Hd.
  - reflexivity.
  - reflexivity.
  - reflexivity.
  - cbn [nat_expr qeval]. destruct (nlookup x en) as [[m v]|]; [reflexivity|].
    destruct (nlookup x genv) as [[m v]|]; reflexivity.
  - cbn [nat_expr qeval]. rewrite IHa by (auto; lia). destruct (qeval genv en a) as [v|]; [|reflexivity].
    cbn [qres nbind obind]. apply nopres_agree. intros f; apply unop_nofault.
  - assert (Qa : quiet a = true) by (destruct o; try discriminate Q; apply andb_prop in Q; tauto).
    assert (Qb : quiet b = true) by (destruct o; try discriminate Q; apply andb_prop in Q; tauto).
    assert (Ea : nat_expr ord fns n genv en a out = qres (qeval genv en a) out) by (apply IHa; auto; lia).
    assert (Eb : forall o1, nat_expr ord fns n genv en b o1 = qres (qeval genv en b) o1) by (intros; apply IHb; auto; lia).
    destruct o; try discriminate Q; cbn [nat_expr qeval]; rewrite Ea;
      (destruct (qeval genv en a) as [va|]; [|reflexivity]); cbn [qres nbind obind];
      try (rewrite Eb; (destruct (qeval genv en b) as [vb|]; [|reflexivity]); cbn [qres nbind obind];
           apply nopres_agree; intros f; apply binop_nofault; discriminate).
    + destruct va as [z|[|]| |s|l]; try reflexivity. rewrite Eb.
      destruct (qeval genv en b) as [vb|]; [|reflexivity]. destruct vb; reflexivity.
    + destruct va as [z|[|]| |s|l]; try reflexivity. rewrite Eb.
      destruct (qeval genv en b) as [vb|]; [|reflexivity]. destruct vb; reflexivity.
  - discriminate Q.
  - apply andb_prop in Q. destruct Q as [Q Qb]. apply andb_prop in Q. destruct Q as [Qc Qa].
    cbn [nat_expr qeval]. rewrite IHc by (auto; lia). destruct (qeval genv en c) as [vc|]; [|reflexivity].
    cbn [qres nbind obind]. destruct vc as [z|[|]| |s|l]; try reflexivity; [apply IHa|apply IHb]; auto; lia.
  - (* array literal of quiet elements *)
    rewrite nat_expr_arr_eq, qeval_arr.
    assert (Hel : forall a, In a es -> forall o, nat_expr ord fns n genv en a o = qres (qeval genv en a) o).
    { intros a Ha o. rewrite Forall_forall in IHes. apply (IHes a Ha).
      - rewrite forallb_forall in Q. apply Q; exact Ha.
      - pose proof (qdepth_arr_elem es a Ha). lia. }
    assert (E : sel_args ord (nat_expr ord fns n genv en) es out = qres (qargs (qeval genv en) es) out).
    { destruct ord; cbn [sel_args]; [apply args_lr_exact|apply args_rl_exact]; exact Hel. }
    rewrite E. destruct (qargs (qeval genv en) es) as [vs|]; [|reflexivity].
    cbn [qres nbind obind]. unfold arr_tail. destruct (ints_of vs); reflexivity.
  - discriminate Q.
  - cbn [nat_expr qeval]. rewrite IHa by (auto; lia). destruct (qeval genv en a) as [v|]; [|reflexivity].
    cbn [qres nbind obind]. destruct v; reflexivity.
  - (* str_length, int_to_string *)
    cbn [nat_expr qeval]. rewrite IHa by (auto; lia). destruct (qeval genv en a) as [v|]; [|reflexivity].
    cbn [qres nbind obind]. apply nopres_agree. intros f; apply str1_nofault.
  - (* str_equals, str_contains of quiet operands: a two-argument call *)
    assert (Hso : match so with SEquals | SContains => True | _ => False end) by (destruct so; try discriminate Q; exact I).
    assert (Qab : quiet a = true /\ quiet b = true) by (destruct so; try discriminate Q; apply andb_prop in Q; exact Q).
    destruct Qab as [Qa Qb].
    rewrite nat_expr_str2_eq.
    assert (Hel : forall e0, In e0 [a; b] -> forall o, nat_expr ord fns n genv en e0 o = qres (qeval genv en e0) o).
    { intros e0 [<-|[<-|[]]] o; [apply IHa|apply IHb]; auto; lia. }
    assert (E : sel_args ord (nat_expr ord fns n genv en) [a; b] out = qres (qargs (qeval genv en) [a; b]) out).
    { destruct ord; cbn [sel_args]; [apply args_lr_exact|apply args_rl_exact]; exact Hel. }
    rewrite E. cbn [qargs]. 
    assert (Eq : qeval genv en (EStr2 so a b) =
                 obind (qeval genv en a) (fun va => obind (qeval genv en b) (fun vb => nopres_q (nat_str2 so va vb))))
      by (destruct so; try contradiction; reflexivity).
    rewrite Eq. destruct (qeval genv en a) as [va|]; [|reflexivity]. cbn [obind].
    destruct (qeval genv en b) as [vb|]; [|reflexivity]. cbn [obind qres nbind str2_tail].
    apply nopres_agree. intros f; apply str2_quiet_nofault; exact Hso.
  - discriminate Q.
Qed.

(* (b) of the plan: for ANY fuel a quiet expression gives NNoFuel, or NStuck, or NOk v out with v independent of
   fuel, order and out -- never NFault, never a changed out *)
Lemma quiet_steady ord e fuel out : quiet e = true ->
  nat_expr ord fns fuel genv en e out = NNoFuel \/
  nat_expr ord fns fuel genv en e out = qres (qeval genv en e) out.
Proof.
  intros Q. destruct (nat_expr ord fns fuel genv en e out) eqn:E; try (left; reflexivity); right;
    rewrite <- E;
    rewrite <- (nat_expr_mono ord fns fuel (Nat.max fuel (S (qdepth e))) genv en e out) by (try lia; rewrite E; discriminate);
    apply quiet_exact; auto; lia.
Qed.
End Quiet.

(* ---------- "same result for every large enough fuel, unless one side is stuck" ---------- *)
Definition ev_sim {A} (x : nres A) (f : nat -> nres A) : Prop :=
  x <> NNoFuel -> x <> NStuck -> exists m0, forall m, m0 <= m -> f m = x \/ f m = NStuck.

Lemma sim_const {A} (x : nres A) : ev_sim x (fun _ => x).
Proof. intros _ _. exists O. intros; left; reflexivity. Qed.

Lemma sim_shift {A} (x : nres A) f : ev_sim x (fun m => f (S m)) -> ev_sim x f.
Proof.
  intros H H1 H2. destruct (H H1 H2) as [m0 Hm]. exists (S m0). intros m Hle.
  destruct m as [|m]; [lia|]. apply Hm; lia.
Qed.

Lemma sim_ext {A} (x : nres A) f g : (forall m, f m = g m) -> ev_sim x g -> ev_sim x f.
Proof. intros E H H1 H2. destruct (H H1 H2) as [m0 Hm]. exists m0. intros m Hle. rewrite E. apply Hm; exact Hle. Qed.

Lemma sim_bind {A B} (x : nres A) (f : nat -> nres A) (k : A -> list N -> nres B) (k' : nat -> A -> list N -> nres B) :
  ev_sim x f -> (forall a o, ev_sim (k a o) (fun m => k' m a o)) ->
  ev_sim (nbind x k) (fun m => nbind (f m) (k' m)).
Proof.
  intros Hx Hk H1 H2. destruct x as [a o|ft o| | |]; cbn [nbind] in *; try congruence.
  - destruct Hx as [m1 Hm1]; try discriminate. destruct (Hk a o H1 H2) as [m2 Hm2].
    exists (Nat.max m1 m2). intros m Hle.
    destruct (Hm1 m ltac:(lia)) as [E|E]; rewrite E; cbn [nbind]; [apply Hm2; lia|right; reflexivity].
  - destruct Hx as [m1 Hm1]; try discriminate. exists m1. intros m Hle.
    destruct (Hm1 m Hle) as [E|E]; rewrite E; cbn [nbind]; auto.
  - destruct Hx as [m1 Hm1]; try discriminate. exists m1. intros m Hle.
    destruct (Hm1 m Hle) as [E|E]; rewrite E; cbn [nbind]; auto.
Qed.

(* ---------- (c) of the plan: the argument loops ---------- *)
Lemma loud0_cons a r : loud_count (a :: r) = O -> quiet a = true /\ loud_count r = O.
Proof. cbn [loud_count]. destruct (quiet a); [auto|discriminate]. Qed.

Section ArgLoops.
Variable ev1 : expr -> list N -> nres value.            (* one order, a fixed fuel *)
Variable ev2 : nat -> expr -> list N -> nres value.     (* the other order, fuel-indexed *)
Variable q : expr -> option value.
Hypothesis steady1 : forall a out, quiet a = true -> ev1 a out = NNoFuel \/ ev1 a out = qres (q a) out.
Hypothesis exact2 : forall a, quiet a = true -> exists m0, forall m out, m0 <= m -> ev2 m a out = qres (q a) out.

Lemma allquiet_lr_1 l : loud_count l = O -> forall out,
  args_lr ev1 l out = NNoFuel \/ args_lr ev1 l out = qres (qargs q l) out.
Proof.
  induction l as [|a r IH]; intros H out; [right; reflexivity|].
  apply loud0_cons in H. destruct H as [Qa Hr]. cbn [args_lr qargs].
  destruct (steady1 a out Qa) as [E|E]; rewrite E; [left; reflexivity|].
  destruct (q a) as [v|]; [|right; reflexivity]. cbn [qres nbind obind].
  destruct (IH Hr out) as [E2|E2]; rewrite E2; [left; reflexivity|].
  destruct (qargs q r); right; reflexivity.
Qed.
Lemma allquiet_rl_1 l : loud_count l = O -> forall out,
  args_rl ev1 l out = NNoFuel \/ args_rl ev1 l out = qres (qargs q l) out.
Proof.
  induction l as [|a r IH]; intros H out; [right; reflexivity|].
  apply loud0_cons in H. destruct H as [Qa Hr]. cbn [args_rl qargs].
  destruct (IH Hr out) as [E2|E2]; rewrite E2; [left; reflexivity|].
  destruct (qargs q r) as [vs|]; cbn [qres nbind obind].
  - destruct (steady1 a out Qa) as [E|E]; rewrite E; [left; reflexivity|].
    destruct (q a); right; reflexivity.
  - right. destruct (q a); reflexivity.
Qed.
Lemma allquiet_lr_2 l : loud_count l = O ->
  exists m0, forall m out, m0 <= m -> args_lr (ev2 m) l out = qres (qargs q l) out.
Proof.
  induction l as [|a r IH]; intros H; [exists O; reflexivity|].
  apply loud0_cons in H. destruct H as [Qa Hr]. destruct (exact2 a Qa) as [m1 H1]. destruct (IH Hr) as [m2 H2].
  exists (Nat.max m1 m2). intros m out Hle. cbn [args_lr qargs]. rewrite H1 by lia.
  destruct (q a) as [v|]; [|reflexivity]. cbn [qres nbind obind]. rewrite H2 by lia.
  destruct (qargs q r); reflexivity.
Qed.
Lemma allquiet_rl_2 l : loud_count l = O ->
  exists m0, forall m out, m0 <= m -> args_rl (ev2 m) l out = qres (qargs q l) out.
Proof.
  induction l as [|a r IH]; intros H; [exists O; reflexivity|].
  apply loud0_cons in H. destruct H as [Qa Hr]. destruct (exact2 a Qa) as [m1 H1]. destruct (IH Hr) as [m2 H2].
  exists (Nat.max m1 m2). intros m out Hle. cbn [args_rl qargs]. rewrite H2 by lia.
  destruct (qargs q r) as [vs|]; cbn [qres nbind obind]; [|destruct (q a); reflexivity].
  rewrite H1 by lia. destruct (q a); reflexivity.
Qed.

Definition args_IH (l : list expr) := forall a out, In a l -> ev_sim (ev1 a out) (fun m => ev2 m a out).
Lemma args_IH_tail a r : args_IH (a :: r) -> args_IH r.
Proof. intros H b out Hin. apply H. right; exact Hin. Qed.

(* same order on both sides: no condition on the arguments *)
Lemma args_sim_lr_lr l : args_IH l -> forall out, ev_sim (args_lr ev1 l out) (fun m => args_lr (ev2 m) l out).
Proof.
  induction l as [|a r IHr]; intros IH out; cbn [args_lr]; [apply sim_const|].
  apply (sim_bind (ev1 a out) (fun m => ev2 m a out) _
           (fun m v out1 => nbind (args_lr (ev2 m) r out1) (fun vs out2 => NOk (v :: vs) out2))).
  - apply IH; left; reflexivity.
  - intros v o. apply (sim_bind (args_lr ev1 r o) (fun m => args_lr (ev2 m) r o) _ (fun _ vs out2 => NOk (v :: vs) out2)).
    + apply IHr. eapply args_IH_tail; exact IH.
    + intros; apply sim_const.
Qed.
Lemma args_sim_rl_rl l : args_IH l -> forall out, ev_sim (args_rl ev1 l out) (fun m => args_rl (ev2 m) l out).
Proof.
  induction l as [|a r IHr]; intros IH out; cbn [args_rl]; [apply sim_const|].
  apply (sim_bind (args_rl ev1 r out) (fun m => args_rl (ev2 m) r out) _
           (fun m vs out1 => nbind (ev2 m a out1) (fun v out2 => NOk (v :: vs) out2))).
  - apply IHr. eapply args_IH_tail; exact IH.
  - intros vs o. apply (sim_bind (ev1 a o) (fun m => ev2 m a o) _ (fun _ v out2 => NOk (v :: vs) out2)).
    + apply IH; left; reflexivity.
    + intros; apply sim_const.
Qed.

(* left-to-right against right-to-left: at most one loud argument *)
Lemma args_sim_lr_rl l : loud_count l <= 1 -> args_IH l ->
  forall out, ev_sim (args_lr ev1 l out) (fun m => args_rl (ev2 m) l out).
Proof.
  induction l as [|a r IHr]; intros Hlc IH out; cbn [args_lr args_rl]; [apply sim_const|].
  cbn [loud_count] in Hlc. destruct (quiet a) eqn:Qa.
  - (* quiet head: it commutes with the rest *)
    intros Hnf Hns.
    destruct (steady1 a out Qa) as [E|E]; rewrite E in Hnf, Hns |- *; [cbn in Hnf; congruence|].
    destruct (q a) as [v|] eqn:Eq; cbn [qres nbind] in Hnf, Hns |- *; [|congruence].
    destruct (exact2 a Qa) as [m2 H2].
    assert (IHr' := IHr ltac:(lia) (args_IH_tail _ _ IH) out).
    destruct (args_lr ev1 r out) as [vs o1|ft o1| | |] eqn:Er; cbn [nbind] in Hnf, Hns |- *; try congruence.
    + destruct IHr' as [m1 H1]; try discriminate. exists (Nat.max m1 m2). intros m Hle.
      destruct (H1 m ltac:(lia)) as [E1|E1]; rewrite E1; cbn [nbind]; [|right; reflexivity].
      rewrite H2 by lia. try rewrite Eq. left; reflexivity.
    + destruct IHr' as [m1 H1]; try discriminate. exists m1. intros m Hle.
      destruct (H1 m Hle) as [E1|E1]; rewrite E1; cbn [nbind]; auto.
    + destruct IHr' as [m1 H1]; try discriminate. exists m1. intros m Hle.
      destruct (H1 m Hle) as [E1|E1]; rewrite E1; cbn [nbind]; auto.
  - (* loud head: everything after it is quiet *)
    assert (Hr : loud_count r = O) by lia. intros Hnf Hns.
    destruct (allquiet_rl_2 r Hr) as [m2 H2].
    assert (IHa := IH a out (or_introl eq_refl)).
    destruct (ev1 a out) as [v o1|ft o1| | |] eqn:Ea; cbn [nbind] in Hnf, Hns |- *; try congruence.
    + destruct (allquiet_lr_1 r Hr o1) as [E|E]; rewrite E in Hnf, Hns |- *; [cbn in Hnf; congruence|].
      destruct (qargs q r) as [vs|] eqn:Eqr; cbn [qres nbind] in Hnf, Hns |- *; [|congruence].
      destruct IHa as [m1 H1]; try discriminate. exists (Nat.max m1 m2). intros m Hle.
      rewrite H2 by lia. try rewrite Eqr. cbn [qres nbind].
      destruct (H1 m ltac:(lia)) as [E1|E1]; rewrite E1; cbn [nbind]; auto.
    + destruct IHa as [m1 H1]; try discriminate. exists (Nat.max m1 m2). intros m Hle.
      rewrite H2 by lia. destruct (qargs q r) as [vs|]; cbn [qres nbind]; [|right; reflexivity].
      destruct (H1 m ltac:(lia)) as [E1|E1]; rewrite E1; cbn [nbind]; auto.
    + destruct IHa as [m1 H1]; try discriminate. exists (Nat.max m1 m2). intros m Hle.
      rewrite H2 by lia. destruct (qargs q r) as [vs|]; cbn [qres nbind]; [|right; reflexivity].
      destruct (H1 m ltac:(lia)) as [E1|E1]; rewrite E1; cbn [nbind]; auto.
Qed.

(* right-to-left against left-to-right *)
Lemma args_sim_rl_lr l : loud_count l <= 1 -> args_IH l ->
  forall out, ev_sim (args_rl ev1 l out) (fun m => args_lr (ev2 m) l out).
Proof.
  induction l as [|a r IHr]; intros Hlc IH out; cbn [args_lr args_rl]; [apply sim_const|].
  cbn [loud_count] in Hlc. destruct (quiet a) eqn:Qa.
  - (* quiet head *)
    intros Hnf Hns.
    destruct (exact2 a Qa) as [m2 H2].
    assert (IHr' := IHr ltac:(lia) (args_IH_tail _ _ IH) out).
    destruct (args_rl ev1 r out) as [vs o1|ft o1| | |] eqn:Er; cbn [nbind] in Hnf, Hns |- *; try congruence.
    + destruct (steady1 a o1 Qa) as [E|E]; rewrite E in Hnf, Hns |- *; [cbn in Hnf; congruence|].
      destruct (q a) as [v|] eqn:Eq; cbn [qres nbind] in Hnf, Hns |- *; [|congruence].
      destruct IHr' as [m1 H1]; try discriminate. exists (Nat.max m1 m2). intros m Hle.
      rewrite H2 by lia. try rewrite Eq. cbn [qres nbind].
      destruct (H1 m ltac:(lia)) as [E1|E1]; rewrite E1; cbn [nbind]; auto.
    + destruct IHr' as [m1 H1]; try discriminate. exists (Nat.max m1 m2). intros m Hle.
      rewrite H2 by lia. destruct (q a) as [v|]; cbn [qres nbind]; [|right; reflexivity].
      destruct (H1 m ltac:(lia)) as [E1|E1]; rewrite E1; cbn [nbind]; auto.
    + destruct IHr' as [m1 H1]; try discriminate. exists (Nat.max m1 m2). intros m Hle.
      rewrite H2 by lia. destruct (q a) as [v|]; cbn [qres nbind]; [|right; reflexivity].
      destruct (H1 m ltac:(lia)) as [E1|E1]; rewrite E1; cbn [nbind]; auto.
  - (* loud head, quiet rest *)
    assert (Hr : loud_count r = O) by lia. intros Hnf Hns.
    destruct (allquiet_lr_2 r Hr) as [m2 H2].
    destruct (allquiet_rl_1 r Hr out) as [E|E]; rewrite E in Hnf, Hns |- *; [cbn in Hnf; congruence|].
    destruct (qargs q r) as [vs|] eqn:Eqr; cbn [qres nbind] in Hnf, Hns |- *; [|congruence].
    assert (IHa := IH a out (or_introl eq_refl)).
    destruct (ev1 a out) as [v o1|ft o1| | |] eqn:Ea; cbn [nbind] in Hnf, Hns |- *; try congruence.
    + destruct IHa as [m1 H1]; try discriminate. exists (Nat.max m1 m2). intros m Hle.
      destruct (H1 m ltac:(lia)) as [E1|E1]; rewrite E1; cbn [nbind]; [|right; reflexivity].
      rewrite H2 by lia. try rewrite Eqr. left; reflexivity.
    + destruct IHa as [m1 H1]; try discriminate. exists m1. intros m Hle.
      destruct (H1 m Hle) as [E1|E1]; rewrite E1; cbn [nbind]; auto.
    + destruct IHa as [m1 H1]; try discriminate. exists m1. intros m Hle.
      destruct (H1 m Hle) as [E1|E1]; rewrite E1; cbn [nbind]; auto.
Qed.

Lemma sel_args_sim o1 o2 l : loud_count l <= 1 -> args_IH l ->
  forall out, ev_sim (sel_args o1 ev1 l out) (fun m => sel_args o2 (ev2 m) l out).
Proof.
  intros Hlc IH out. destruct o1, o2; cbn [sel_args].
  - apply args_sim_lr_lr; exact IH.
  - apply args_sim_lr_rl; assumption.
  - apply args_sim_rl_lr; assumption.
  - apply args_sim_rl_rl; exact IH.
Qed.
End ArgLoops.

(* ---------- (d) of the plan: mutual induction on fuel ---------- *)
Lemma se_call f args : se_expr (ECall f args) = true ->
  loud_count args <= 1 /\ forall a, In a args -> se_expr a = true.
Proof.
  cbn [se_expr]. intros H. apply andb_prop in H. destruct H as [H1 H2]. split.
  - apply Nat.leb_le; exact H1.
  - apply forallb_forall; exact H2.
Qed.

Lemma se_arr es : se_expr (EArr es) = true ->
  loud_count es <= 1 /\ forall a, In a es -> se_expr a = true.
Proof.
  cbn [se_expr]. intros H. apply andb_prop in H. destruct H as [H1 H2]. split.
  - apply Nat.leb_le; exact H1.
  - apply forallb_forall; exact H2.
Qed.
Lemma se_at a i : se_expr (EAt a i) = true ->
  loud_count [a; i] <= 1 /\ forall b, In b [a; i] -> se_expr b = true.
Proof.
  cbn [se_expr]. intros H. apply andb_prop in H. destruct H as [H H3]. apply andb_prop in H. destruct H as [H1 H2]. split.
  - apply Nat.leb_le; exact H1.
  - intros b [<-|[<-|[]]]; assumption.
Qed.

Lemma se_str2 o a b : se_expr (EStr2 o a b) = true ->
  loud_count [a; b] <= 1 /\ forall e, In e [a; b] -> se_expr e = true.
Proof.
  cbn [se_expr]. intros H. apply andb_prop in H. destruct H as [H H3]. apply andb_prop in H. destruct H as [H1 H2]. split.
  - apply Nat.leb_le; exact H1.
  - intros e [<-|[<-|[]]]; assumption.
Qed.
Lemma se_substr a b c : se_expr (ESubstr a b c) = true ->
  loud_count [a; b; c] <= 1 /\ forall e, In e [a; b; c] -> se_expr e = true.
Proof.
  cbn [se_expr]. intros H. apply andb_prop in H. destruct H as [H H4]. apply andb_prop in H. destruct H as [H H3].
  apply andb_prop in H. destruct H as [H1 H2]. split.
  - apply Nat.leb_le; exact H1.
  - intros e [<-|[<-|[<-|[]]]]; assumption.
Qed.

Section Order.
Variable fns : list fn.
Variables o1 o2 : arg_order.
Hypothesis Hfns : forall d, In d fns -> se_stmt (fbody d) = true.

Definition expr_sim (n : nat) := forall genv en e out, se_expr e = true ->
  ev_sim (nat_expr o1 fns n genv en e out) (fun m => nat_expr o2 fns m genv en e out).
Definition stmt_sim (n : nat) := forall genv en s out, se_stmt s = true ->
  ev_sim (nat_stmt o1 fns n genv en s out) (fun m => nat_stmt o2 fns m genv en s out).
Definition for_sim (n : nat) := forall genv en x i hi body out, se_stmt body = true ->
  ev_sim (nat_for o1 fns n genv en x i hi body out) (fun m => nat_for o2 fns m genv en x i hi body out).

Ltac sbind := eapply sim_bind; [|intros].
Ltac se_split H := repeat (apply andb_prop in H; let H' := fresh H in destruct H as [H H']).

Lemma call_sim n genv en f args out : expr_sim n -> stmt_sim n -> se_expr (ECall f args) = true ->
  ev_sim (nbind (sel_args o1 (nat_expr o1 fns n genv en) args out) (call_tail o1 fns n genv f))
         (fun m => nbind (sel_args o2 (nat_expr o2 fns m genv en) args out) (call_tail o2 fns m genv f)).
Proof.
  intros IHe IHs Hse. apply se_call in Hse. destruct Hse as [Hlc Hall].
  apply (sim_bind _ (fun m => sel_args o2 (nat_expr o2 fns m genv en) args out) _ (fun m => call_tail o2 fns m genv f)).
  - apply (sel_args_sim (nat_expr o1 fns n genv en) (fun m => nat_expr o2 fns m genv en) (qeval genv en)).
    + intros a o Q. apply quiet_steady; exact Q.
    + intros a Q. exists (S (qdepth a)). intros m o Hle. apply quiet_exact; [exact Q|lia].
    + exact Hlc.
    + intros a o Hin. apply IHe. apply Hall; exact Hin.
  - intros vs o. unfold call_tail. destruct (nat_find_fn fns f) as [d|] eqn:F; [|apply sim_const].
    destruct (nat_bind_params (fparams d) vs) as [en'|]; [|apply sim_const].
    apply (sim_bind _ (fun m => nat_stmt o2 fns m genv (rev en') (fbody d) o) _ (fun _ r out2 =>
             match fst r with NCReturn v => NOk v out2 | NCNormal => NOk VVoid out2 | _ => NStuck end)).
    + apply IHs. apply Hfns. unfold nat_find_fn in F. apply find_some in F. tauto.
    + intros; apply sim_const.
Qed.

(* an operand list evaluated in the order of the engine, then a fuel-independent continuation: literals and at *)
Lemma list_sim n genv en l out (tail : list value -> list N -> nres value) : expr_sim n ->
  loud_count l <= 1 -> (forall a, In a l -> se_expr a = true) ->
  ev_sim (nbind (sel_args o1 (nat_expr o1 fns n genv en) l out) tail)
         (fun m => nbind (sel_args o2 (nat_expr o2 fns m genv en) l out) tail).
Proof.
  intros IHe Hlc Hall.
  apply (sim_bind _ (fun m => sel_args o2 (nat_expr o2 fns m genv en) l out) _ (fun _ => tail)).
  - apply (sel_args_sim (nat_expr o1 fns n genv en) (fun m => nat_expr o2 fns m genv en) (qeval genv en)).
    + intros a o Q. apply quiet_steady; exact Q.
    + intros a Q. exists (S (qdepth a)). intros m o Hle. apply quiet_exact; [exact Q|lia].
    + exact Hlc.
    + intros a o Hin. apply IHe. apply Hall; exact Hin.
  - intros; apply sim_const.
Qed.

Lemma nat_sim_all : forall n, expr_sim n /\ stmt_sim n /\ for_sim n.
Proof.
  induction n as [|n [IHe [IHs IHf]]].
  - repeat split; red; intros; intros Hn; cbn in Hn; congruence.
  - split; [|split].
    + red; intros genv en e out Hse. apply sim_shift. destruct e; cbn [se_expr] in Hse.
      * apply sim_const.
      * apply sim_const.
      * apply sim_const.
      * apply sim_const.
      * cbn [nat_expr]. sbind; [apply IHe; exact Hse|apply sim_const].
      * se_split Hse. cbn [nat_expr]. destruct o;
          try (sbind; [apply IHe; assumption|]; sbind; [apply IHe; assumption|apply sim_const]).
        -- sbind; [apply IHe; assumption|]. destruct a as [z|[|]| |s|l]; try apply sim_const.
           sbind; [apply IHe; assumption|apply sim_const].
        -- sbind; [apply IHe; assumption|]. destruct a as [z|[|]| |s|l]; try apply sim_const.
           sbind; [apply IHe; assumption|apply sim_const].
      * rewrite nat_expr_call_eq. eapply sim_ext; [intros m; apply nat_expr_call_eq|].
        apply call_sim; assumption.
      * se_split Hse. cbn [nat_expr]. sbind; [apply IHe; assumption|].
        destruct a as [z|[|]| |s|l]; try apply sim_const; apply IHe; assumption.
      * rewrite nat_expr_arr_eq. eapply sim_ext; [intros m; apply nat_expr_arr_eq|].
        destruct (se_arr es Hse) as [Hlc Hall]. apply list_sim; assumption.
      * rewrite nat_expr_at_eq. eapply sim_ext; [intros m; apply nat_expr_at_eq|].
        destruct (se_at e1 e2 Hse) as [Hlc Hall]. apply list_sim; assumption.
      * cbn [nat_expr]. sbind; [apply IHe; exact Hse|apply sim_const].
      * cbn [nat_expr]. sbind; [apply IHe; exact Hse|apply sim_const].
      * rewrite nat_expr_str2_eq. eapply sim_ext; [intros m; apply nat_expr_str2_eq|].
        destruct (se_str2 o e1 e2 Hse) as [Hlc Hall]. apply list_sim; assumption.
      * rewrite nat_expr_substr_eq. eapply sim_ext; [intros m; apply nat_expr_substr_eq|].
        destruct (se_substr e1 e2 e3 Hse) as [Hlc Hall]. apply list_sim; assumption.
    + red; intros genv en s out Hse. apply sim_shift. destruct s; cbn [se_stmt] in Hse.
      * apply sim_const.
      * se_split Hse. cbn [nat_stmt]. sbind; [apply IHs; assumption|].
        destruct (fst a); try apply sim_const. apply IHs; assumption.
      * cbn [nat_stmt]. sbind; [apply IHe; assumption|apply sim_const].
      * cbn [nat_stmt]. sbind; [apply IHe; assumption|apply sim_const].
      * se_split Hse. cbn [nat_stmt]. sbind; [apply IHe; assumption|].
        destruct a as [z|b| |s'|l']; try apply sim_const.
        sbind; [apply IHs; destruct b; assumption|apply sim_const].
      * pose proof Hse as Hw. se_split Hse. cbn [nat_stmt]. sbind; [apply IHe; assumption|].
        destruct a as [z|[|]| |s'|l']; try apply sim_const.
        sbind; [apply IHs; assumption|]. destruct (fst a); try apply sim_const; apply IHs; exact Hw.
      * se_split Hse. cbn [nat_stmt]. sbind; [apply IHe; assumption|]. sbind; [apply IHe; assumption|].
        destruct a as [z| | | |]; destruct a0 as [z0| | | |]; try apply sim_const. apply IHf; assumption.
      * apply sim_const.
      * apply sim_const.
      * destruct e as [e|]; [|apply sim_const]. cbn [nat_stmt]. sbind; [apply IHe; assumption|apply sim_const].
      * cbn [nat_stmt]. sbind; [apply IHe; assumption|apply sim_const].
      * cbn [nat_stmt]. sbind; [apply IHe; assumption|]. destruct a as [z|[|]| |s'|l']; apply sim_const.
      * cbn [nat_stmt]. sbind; [apply IHe; assumption|apply sim_const].
    + red; intros genv en x i hi body out Hse. apply sim_shift. cbn [nat_for].
      destruct (Z.ltb i hi); [|apply sim_const].
      sbind; [apply IHs; assumption|]. destruct (fst a); try apply sim_const; apply IHf; assumption.
Qed.

Lemma globals_sim n gs : forallb (fun g => se_expr (snd g)) gs = true -> forall genv out,
  ev_sim (nat_globals o1 fns n gs genv out) (fun m => nat_globals o2 fns m gs genv out).
Proof.
  induction gs as [|[[x t] e] r IH]; intros Hse genv out; cbn [nat_globals]; [apply sim_const|].
  cbn [forallb snd] in Hse. apply andb_prop in Hse. destruct Hse as [He Hr].
  sbind; [apply (proj1 (nat_sim_all n)); exact He|apply IH; exact Hr].
Qed.
End Order.

(* ---------- whole programs ---------- *)
Lemma se_program_fns p : se_program p = true -> forall d, In d (pfns p) -> se_stmt (fbody d) = true.
Proof.
  unfold se_program. intros H d Hin. apply andb_prop in H. destruct H as [H _].
  rewrite forallb_forall in H. apply H; exact Hin.
Qed.

Lemma whole_sim o1 o2 p n : se_program p = true -> ev_sim (nat_whole o1 n p) (fun m => nat_whole o2 m p).
Proof.
  intros Hse. pose proof (se_program_fns p Hse) as Hf. unfold se_program in Hse. apply andb_prop in Hse.
  destruct Hse as [_ Hg]. unfold nat_whole.
  apply (sim_bind _ (fun m => nat_globals o2 (pfns p) m (pglobals p) [] []) _
           (fun m genv out0 => nat_expr o2 (pfns p) m genv [] (ECall (pmain p) []) out0)).
  - apply globals_sim; assumption.
  - intros genv o. apply (proj1 (nat_sim_all (pfns p) o1 o2 Hf n)). reflexivity.
Qed.

(* Main theorem, any two orders.  A run with order o1 that ends (not out of fuel) without being stuck is reproduced by
   order o2 for EVERY large enough fuel, unless the o2 run gets stuck.  The stuck alternative cannot be dropped: see
   order_stuck_alternative_needed below.  cc_refuses is not needed (both sides are NCcFailO then). *)
Theorem native_order_general : forall o1 o2 p fuel r, se_program p = true ->
  run_nat o1 fuel p = r -> r <> NOutOfFuel -> r <> NStuckO ->
  exists fuel0, forall fuel', fuel0 <= fuel' -> run_nat o2 fuel' p = r \/ run_nat o2 fuel' p = NStuckO.
Proof.
  intros o1 o2 p fuel r Hse Hr Hnf Hns. rewrite run_nat_eq in Hr.
  destruct (cc_refuses p) eqn:Hcc.
  - exists O. intros fuel' _. left. rewrite run_nat_eq, Hcc. exact Hr.
  - destruct (whole_sim o1 o2 p fuel Hse) as [m0 Hm].
    + intros E. rewrite E in Hr. apply Hnf. rewrite <- Hr. reflexivity.
    + intros E. rewrite E in Hr. apply Hns. rewrite <- Hr. reflexivity.
    + exists m0. intros fuel' Hle. rewrite run_nat_eq, Hcc.
      destruct (Hm fuel' Hle) as [E|E]; rewrite E; [left; exact Hr|right; reflexivity].
Qed.

(* the form asked for (left-to-right run given, gcc's right-to-left order concluded) and its converse *)
Theorem native_order_irrelevant : forall p fuel r, se_program p = true ->
  run_nat LtoR fuel p = r -> r <> NOutOfFuel -> r <> NStuckO ->
  exists fuel', run_nat RtoL fuel' p = r \/ run_nat RtoL fuel' p = NStuckO.
Proof.
  intros p fuel r Hse Hr H1 H2. destruct (native_order_general LtoR RtoL p fuel r Hse Hr H1 H2) as [m0 Hm].
  exists m0. apply Hm. apply Nat.le_refl.
Qed.
Theorem native_order_irrelevant_conv : forall p fuel r, se_program p = true ->
  run_nat RtoL fuel p = r -> r <> NOutOfFuel -> r <> NStuckO ->
  exists fuel', run_nat LtoR fuel' p = r \/ run_nat LtoR fuel' p = NStuckO.
Proof.
  intros p fuel r Hse Hr H1 H2. destruct (native_order_general RtoL LtoR p fuel r Hse Hr H1 H2) as [m0 Hm].
  exists m0. apply Hm. apply Nat.le_refl.
Qed.

(* when the right-to-left run never gets stuck (what typing is for) the outcome is exactly the same *)
Theorem native_order_irrelevant_nostuck : forall p fuel r, se_program p = true ->
  run_nat LtoR fuel p = r -> r <> NOutOfFuel -> r <> NStuckO ->
  (forall fuel', run_nat RtoL fuel' p <> NStuckO) ->
  exists fuel0, forall fuel', fuel0 <= fuel' -> run_nat RtoL fuel' p = r.
Proof.
  intros p fuel r Hse Hr H1 H2 Hst. destruct (native_order_general LtoR RtoL p fuel r Hse Hr H1 H2) as [m0 Hm].
  exists m0. intros fuel' Hle. destruct (Hm fuel' Hle) as [E|E]; [exact E|]. exfalso; eapply Hst; exact E.
Qed.

(* fuel-free symmetric form: any two runs, one per order, that both end without being stuck end alike *)
Theorem native_orders_agree : forall p f1 f2, se_program p = true ->
  run_nat LtoR f1 p <> NOutOfFuel -> run_nat LtoR f1 p <> NStuckO ->
  run_nat RtoL f2 p <> NOutOfFuel -> run_nat RtoL f2 p <> NStuckO ->
  run_nat RtoL f2 p = run_nat LtoR f1 p.
Proof.
  intros p f1 f2 Hse A1 A2 B1 B2.
  destruct (native_order_general LtoR RtoL p f1 _ Hse eq_refl A1 A2) as [m0 Hm].
  pose proof (run_nat_mono RtoL f2 (Nat.max m0 f2) p ltac:(lia) B1) as E.
  destruct (Hm (Nat.max m0 f2) ltac:(lia)) as [E1|E1]; rewrite E in E1; [exact E1|contradiction].
Qed.

(* corollary with the reference semantics (Agree: the native model with left-to-right arguments IS the reference):
   when the reference run ends in Done or Faulted, the native model with gcc's order reaches that very outcome for
   every large enough fuel, unless it gets stuck *)
Theorem native_rtol_reaches_ref : forall p fuel, se_program p = true -> cc_refuses p = false ->
  run_ref fuel p <> OutOfFuel -> run_ref fuel p <> StuckO ->
  exists fuel0, forall fuel', fuel0 <= fuel' ->
    nat_as_ref (run_nat RtoL fuel' p) = run_ref fuel p \/ run_nat RtoL fuel' p = NStuckO.
Proof.
  intros p fuel Hse Hcc H1 H2. rewrite <- (nat_ltor_is_ref fuel p Hcc) in *.
  destruct (native_order_general LtoR RtoL p fuel _ Hse eq_refl) as [m0 Hm].
  - intros E. rewrite E in H1. apply H1; reflexivity.
  - intros E. rewrite E in H2. apply H2; reflexivity.
  - exists m0. intros fuel' Hle. destruct (Hm fuel' Hle) as [E|E]; [left; rewrite E; reflexivity|right; exact E].
Qed.
Theorem native_rtol_reaches_ref_nostuck : forall p fuel, se_program p = true -> cc_refuses p = false ->
  run_ref fuel p <> OutOfFuel -> run_ref fuel p <> StuckO ->
  (forall fuel', run_nat RtoL fuel' p <> NStuckO) ->
  exists fuel', nat_as_ref (run_nat RtoL fuel' p) = run_ref fuel p.
Proof.
  intros p fuel Hse Hcc H1 H2 Hst. destruct (native_rtol_reaches_ref p fuel Hse Hcc H1 H2) as [m0 Hm].
  exists m0. destruct (Hm m0 (Nat.le_refl m0)) as [E|E]; [exact E|]. exfalso; eapply Hst; exact E.
Qed.

(* the counterexample for "exists fuel', run_nat RtoL fuel' p = r" without the stuck alternative:
   main returns f1 (1/0) (not 1): left to right the division faults first, right to left the ill-typed (not 1)
   is evaluated first and is stuck *)
Definition cex_prog : program :=
  {| pglobals := [];
     pfns := [ {| fname := 0%N; fparams := []; fret := TInt;
                  fbody := SReturn (Some (ECall 1%N [EBin BDiv (ENum 1) (ENum 0); EUn UNot (ENum 1)])) |};
               {| fname := 1%N; fparams := [(0%N, TInt); (1%N, TBool)]; fret := TInt;
                  fbody := SReturn (Some (ENum 0)) |} ];
     pmain := 0%N |}.
Example order_stuck_alternative_needed :
  se_program cex_prog = true /\ cc_refuses cex_prog = false /\
  run_nat LtoR 10 cex_prog = NFaulted NFSigfpe [] /\
  forall fuel', run_nat RtoL fuel' cex_prog = NOutOfFuel \/ run_nat RtoL fuel' cex_prog = NStuckO.
Proof.
  split; [vm_compute; reflexivity|]. split; [vm_compute; reflexivity|]. split; [vm_compute; reflexivity|].
  intros fuel'. assert (E10 : run_nat RtoL 10 cex_prog = NStuckO) by (vm_compute; reflexivity).
  destruct (Nat.le_ge_cases fuel' 10) as [H|H].
  - destruct (run_nat RtoL fuel' cex_prog) eqn:E; try (left; reflexivity); try (right; reflexivity);
      exfalso; pose proof (run_nat_mono RtoL fuel' 10 cex_prog H) as M; rewrite E, E10 in M;
      (assert (M' := M ltac:(discriminate)); discriminate M').
  - right. rewrite (run_nat_mono RtoL 10 fuel' cex_prog H); rewrite E10; [reflexivity|discriminate].
Qed.

(* non-vacuity: main: let v = 5; return (f3 (f1 1) 2 v)   f1 x: println x; return x+1   f3 a b c: println (a+b+c); return a+b+c *)
Definition demo_fns (second : expr) : list fn :=
  [ {| fname := 0%N; fparams := []; fret := TInt;
       fbody := SSeq (SLet false 9%N TInt (ENum 5))
                     (SReturn (Some (ECall 3%N [ECall 1%N [ENum 1]; second; EVar 9%N]))) |};
    {| fname := 1%N; fparams := [(0%N, TInt)]; fret := TInt;
       fbody := SSeq (SPrint true (EVar 0%N)) (SReturn (Some (EBin BAdd (EVar 0%N) (ENum 1)))) |};
    {| fname := 3%N; fparams := [(0%N, TInt); (1%N, TInt); (2%N, TInt)]; fret := TInt;
       fbody := SSeq (SPrint true (EBin BAdd (EVar 0%N) (EBin BAdd (EVar 1%N) (EVar 2%N))))
                     (SReturn (Some (EBin BAdd (EVar 0%N) (EBin BAdd (EVar 1%N) (EVar 2%N))))) |} ].
Definition demo_prog : program := {| pglobals := []; pfns := demo_fns (ENum 2); pmain := 0%N |}.
Definition demo_prog_two_loud : program := {| pglobals := []; pfns := demo_fns (ECall 1%N [ENum 2]); pmain := 0%N |}.

Example demo_one_loud_argument :
  se_program demo_prog = true /\ cc_refuses demo_prog = false /\
  run_nat LtoR 20 demo_prog = NDone [49; 10; 57; 10]%N 9 /\
  run_nat RtoL 20 demo_prog = NDone [49; 10; 57; 10]%N 9.
Proof. vm_compute. repeat split; reflexivity. Qed.

(* and the condition is not idle: with two loud arguments the two orders print differently *)
Example demo_two_loud_arguments_differ :
  se_program demo_prog_two_loud = false /\
  run_nat LtoR 20 demo_prog_two_loud = NDone [49; 10; 50; 10; 49; 48; 10]%N 10 /\
  run_nat RtoL 20 demo_prog_two_loud = NDone [50; 10; 49; 10; 49; 48; 10]%N 10.
Proof. vm_compute. repeat split; reflexivity. Qed.
