(* VM simulation: the hypotheses of vm_correct are satisfiable (a program using every construct), and a regression
   example for the "implicit return" epilogue (a void function whose code ends in RET but can fall through: before the
   compiler fix the machine ran off the end of the function). *)
From Coq Require Import ZArith NArith List Bool Lia.
From NV Require Import Lang.Ast Lang.Ref Lang.Types Back.VmCompile Back.VmExec Back.VmSimEnv Back.VmSimDefs Back.VmSimMod Back.VmSimFinal.
Import ListNotations.
Local Open Scope N_scope.

(* a global, a recursive two-parameter function, for with break/continue, while, strings, short-circuit, cond, assert *)
Definition ex_prog : program :=
  {| pglobals := [(10, TInt, EBin BAdd (ENum 2) (ENum 3))];
     pfns := [
       {| fname := 1; fparams := [(1, TInt); (2, TInt)]; fret := TInt;
          fbody := SIf (EBin BLe (EVar 1) (ENum 0)) (SReturn (Some (EVar 2)))
                       (SReturn (Some (ECall 1 [EBin BSub (EVar 1) (ENum 1); EBin BAdd (EVar 2) (EVar 1)]))) |};
       {| fname := 0; fparams := []; fret := TInt;
          fbody :=
            SSeq (SLet true 3 TInt (ENum 0))
            (SSeq (SFor 4 (ENum 0) (EVar 10)
                     (SSeq (SIf (EBin BEq (EVar 4) (ENum 1)) SContinue SSkip)
                     (SSeq (SIf (EBin BAnd (EBin BGt (EVar 4) (ENum 3)) (EBool true)) SBreak SSkip)
                           (SSet 3 (EBin BAdd (EVar 3) (EVar 4))))))
            (SSeq (SWhile (EBin BLt (EVar 3) (ENum 10)) (SSet 3 (EBin BMul (EVar 3) (ENum 2))))
            (SSeq (SPrint true (EStr [104;105]))
            (SSeq (SPrint true (ECall 1 [EVar 3; ENum 0]))
            (SSeq (SAssert (EBin BOr (EBool false) (EBin BNe (EVar 3) (ENum 7))))
                  (SReturn (Some (ECond (EBin BGe (EVar 3) (ENum 10)) (EVar 3) (EUn UNeg (EVar 3)))))))))) |} ];
     pmain := 0 |}.

Example ex_prog_small : small_program ex_prog.
Proof.
  split.
  - unfold source_ok. cbn [pfns pglobals ex_prog]. repeat split.
    + repeat constructor; cbn; repeat split; try reflexivity; try (intro Hc; discriminate Hc).
    + repeat constructor; cbn; repeat split; try reflexivity; try (intro Hc; discriminate Hc).
    + repeat constructor. intros [].
    + unfold VM_MAX_GLOBALS_N. cbn [length map]. lia.
  - intros M H. vm_compute in H. injection H as <-. unfold module_small. cbn [m_code m_strings m_fns].
    repeat split; try (vm_compute; reflexivity); try (intro Hc; discriminate Hc).
    repeat constructor; cbn [fe_locals]; intro Hc; discriminate Hc.
Qed.

Example ex_prog_correct : exists M, compile_program ex_prog = Some M /\
  run_ref 200 ex_prog = Done [104; 105; 10; 53; 53; 10] 10 /\
  ((exists fuel', run_vm fuel' M = VDone [104; 105; 10; 53; 53; 10] 10) \/
   (exists fuel' o, run_vm fuel' M = VError ECallDepth o)) /\
  run_vm 5000 M = VDone [104; 105; 10; 53; 53; 10] 10.
Proof.
  destruct (compile_program ex_prog) as [M|] eqn:E; [|vm_compute in E; discriminate E].
  exists M. split; [reflexivity|]. split; [vm_compute; reflexivity|]. split.
  - apply (vm_correct ex_prog M 200); [exact E|exact ex_prog_small|unfold fuel_small; lia|vm_compute; reflexivity].
  - vm_compute in E. injection E as <-. vm_compute. reflexivity.
Qed.

(* regression: the body of f1 ends in the byte RET and can complete normally.  The compiler used to test only the last
   byte before adding the "push void; ret" epilogue, and the machine ran off the end of the function (VFellOff);
   the epilogue is now unconditional and the program is an ordinary instance of vm_correct. *)
Definition ex_fall : program :=
  {| pglobals := [];
     pfns := [
       {| fname := 1; fparams := []; fret := TVoid; fbody := SIf (EBool false) (SReturn None) SSkip |};
       {| fname := 0; fparams := []; fret := TInt;
          fbody := SSeq (SExpr (ECall 1 [])) (SSeq (SPrint true (ENum 7)) (SReturn (Some (ENum 0)))) |} ];
     pmain := 0 |}.

Example ex_fall_small : small_program ex_fall.
Proof.
  split.
  - unfold source_ok. cbn [pfns pglobals ex_fall]. repeat split.
    + repeat constructor; cbn; repeat split; try reflexivity; try (intro Hc; discriminate Hc).
    + constructor.
    + constructor.
    + unfold VM_MAX_GLOBALS_N. cbn [length]. lia.
  - intros M H. vm_compute in H. injection H as <-. unfold module_small. cbn [m_code m_strings m_fns].
    repeat split; try (vm_compute; reflexivity); try (intro Hc; discriminate Hc).
    repeat constructor; cbn [fe_locals]; intro Hc; discriminate Hc.
Qed.

Example fall_through_returns_void : exists M, compile_program ex_fall = Some M /\
  run_ref 50 ex_fall = Done [55; 10] 0 /\
  ((exists fuel', run_vm fuel' M = VDone [55; 10] 0) \/ (exists fuel' o, run_vm fuel' M = VError ECallDepth o)) /\
  run_vm 500 M = VDone [55; 10] 0.
Proof.
  destruct (compile_program ex_fall) as [M|] eqn:E; [|vm_compute in E; discriminate E].
  exists M. split; [reflexivity|]. split; [vm_compute; reflexivity|]. split.
  - apply (vm_correct ex_fall M 50); [exact E|exact ex_fall_small|unfold fuel_small; lia|vm_compute; reflexivity].
  - vm_compute in E. injection E as <-. vm_compute. reflexivity.
Qed.

(* arrays: a global array constant, an array parameter and an array result, whole-array assignment to a mutable
   variable, the empty literal, array_length, at (with a loop index), printing an array *)
Definition ex_arr : program :=
  {| pglobals := [(10, TArr, EArr [ENum 5; ENum 6; ENum 7])];
     pfns := [
       {| fname := 1; fparams := [(1, TArr); (2, TInt)]; fret := TInt; fbody := SReturn (Some (EAt (EVar 1) (EVar 2))) |};
       {| fname := 2; fparams := [(3, TInt)]; fret := TArr; fbody := SReturn (Some (EArr [EVar 3; EBin BAdd (EVar 3) (ENum 1)])) |};
       {| fname := 0; fparams := []; fret := TInt;
          fbody :=
            SSeq (SLet true 4 TArr (EArr []))
            (SSeq (SSet 4 (ECall 2 [ENum 10]))
            (SSeq (SPrint true (ELen (EVar 4)))
            (SSeq (SPrint true (EVar 10))
            (SSeq (SFor 5 (ENum 0) (ELen (EVar 10)) (SPrint true (EAt (EVar 10) (EVar 5))))
                  (SReturn (Some (ECall 1 [EVar 4; ENum 1]))))))) |} ];
     pmain := 0 |}.

Example ex_arr_small : small_program ex_arr.
Proof.
  split.
  - unfold source_ok. cbn [pfns pglobals ex_arr]. repeat split.
    + repeat constructor; cbn; repeat split; try reflexivity; try (intro Hc; discriminate Hc).
    + repeat constructor; cbn; repeat split; try reflexivity; try (intro Hc; discriminate Hc).
    + repeat constructor. intros [].
    + unfold VM_MAX_GLOBALS_N. cbn [length map]. lia.
  - intros M H. vm_compute in H. injection H as <-. unfold module_small. cbn [m_code m_strings m_fns].
    repeat split; try (vm_compute; reflexivity); try (intro Hc; discriminate Hc).
    repeat constructor; cbn [fe_locals]; intro Hc; discriminate Hc.
Qed.

(* "2" "[5, 6, 7]" "5" "6" "7", exit status 11 *)
Example ex_arr_correct : exists M, compile_program ex_arr = Some M /\
  run_ref 200 ex_arr = Done [50; 10; 91; 53; 44; 32; 54; 44; 32; 55; 93; 10; 53; 10; 54; 10; 55; 10] 11 /\
  ((exists fuel', run_vm fuel' M = VDone [50; 10; 91; 53; 44; 32; 54; 44; 32; 55; 93; 10; 53; 10; 54; 10; 55; 10] 11) \/
   (exists fuel' o, run_vm fuel' M = VError ECallDepth o)) /\
  run_vm 5000 M = VDone [50; 10; 91; 53; 44; 32; 54; 44; 32; 55; 93; 10; 53; 10; 54; 10; 55; 10] 11.
Proof.
  destruct (compile_program ex_arr) as [M|] eqn:E; [|vm_compute in E; discriminate E].
  exists M. split; [reflexivity|]. split; [vm_compute; reflexivity|]. split.
  - apply (vm_correct ex_arr M 200); [exact E|exact ex_arr_small|unfold fuel_small; lia|vm_compute; reflexivity].
  - vm_compute in E. injection E as <-. vm_compute. reflexivity.
Qed.

(* an index out of range: prints "1", then (at v1 3) on a three-element array stops the run *)
Definition ex_oob : program :=
  {| pglobals := [];
     pfns := [
       {| fname := 0; fparams := []; fret := TInt;
          fbody :=
            SSeq (SLet false 1 TArr (EArr [ENum 1; ENum 2; ENum 3]))
            (SSeq (SPrint true (EAt (EVar 1) (ENum 0)))
            (SSeq (SPrint true (EAt (EVar 1) (ENum 3)))
                  (SReturn (Some (ENum 0))))) |} ];
     pmain := 0 |}.

Example ex_oob_small : small_program ex_oob.
Proof.
  split.
  - unfold source_ok. cbn [pfns pglobals ex_oob]. repeat split.
    + repeat constructor; cbn; repeat split; try reflexivity; try (intro Hc; discriminate Hc).
    + constructor.
    + constructor.
    + unfold VM_MAX_GLOBALS_N. cbn [length]. lia.
  - intros M H. vm_compute in H. injection H as <-. unfold module_small. cbn [m_code m_strings m_fns].
    repeat split; try (vm_compute; reflexivity); try (intro Hc; discriminate Hc).
    repeat constructor; cbn [fe_locals]; intro Hc; discriminate Hc.
Qed.

Example ex_oob_traps : exists M, compile_program ex_oob = Some M /\
  run_ref 100 ex_oob = Faulted FOob [49; 10] /\
  ((exists fuel', run_vm fuel' M = VError EOob [49; 10]) \/ (exists fuel' o, run_vm fuel' M = VError ECallDepth o)) /\
  run_vm 500 M = VError EOob [49; 10].
Proof.
  destruct (compile_program ex_oob) as [M|] eqn:E; [|vm_compute in E; discriminate E].
  exists M. split; [reflexivity|]. split; [vm_compute; reflexivity|]. split.
  - apply (vm_correct_oob ex_oob M 100); [exact E|exact ex_oob_small|unfold fuel_small; lia|vm_compute; reflexivity].
  - vm_compute in E. injection E as <-. vm_compute. reflexivity.
Qed.

Example ex_arrays_accepted : wt ex_arr = true /\ small_program ex_arr /\ wt ex_oob = true /\ small_program ex_oob.
Proof.
  split; [vm_compute; reflexivity|]. split; [exact ex_arr_small|]. split; [vm_compute; reflexivity|exact ex_oob_small].
Qed.

(* strings as computed values: every string builtin of the fragment
   let v10: string = "hello"
   fn f1(v1: string, v2: int) -> string { return (str_substring v1 v2 3) }
   fn main() -> int {
     let mut v3: string = (+ v10 " world")   (println v3)   (println (str_length v3))
     set v3 (str_concat (f1 v3 6) (int_to_string -42))   (println v3)
     (println (str_equals v3 "wor-42"))   (println (str_contains v10 "ell"))   (println (str_substring v10 5 2))
     assert (== (char_at v10 1) 101)   return (char_at v3 0) }
   prints  hello world / 11 / wor-42 / true / true / (empty line), exit status 119 *)
Definition ex_str_out : list N :=
  [104; 101; 108; 108; 111; 32; 119; 111; 114; 108; 100; 10; 49; 49; 10; 119; 111; 114; 45; 52; 50; 10;
   116; 114; 117; 101; 10; 116; 114; 117; 101; 10; 10].
Definition ex_str : program :=
  {| pglobals := [(10, TStr, EStr [104;101;108;108;111])];
     pfns := [
       {| fname := 1; fparams := [(1, TStr); (2, TInt)]; fret := TStr; fbody := SReturn (Some (ESubstr (EVar 1) (EVar 2) (ENum 3))) |};
       {| fname := 0; fparams := []; fret := TInt;
          fbody :=
            SSeq (SLet true 3 TStr (EStr2 SPlus (EVar 10) (EStr [32;119;111;114;108;100])))
            (SSeq (SPrint true (EVar 3))
            (SSeq (SPrint true (EStr1 SLen (EVar 3)))
            (SSeq (SSet 3 (EStr2 SConcat (ECall 1 [EVar 3; ENum 6]) (EStr1 SOfInt (ENum (-42)))))
            (SSeq (SPrint true (EVar 3))
            (SSeq (SPrint true (EStr2 SEquals (EVar 3) (EStr [119;111;114;45;52;50])))
            (SSeq (SPrint true (EStr2 SContains (EVar 10) (EStr [101;108;108])))
            (SSeq (SPrint true (ESubstr (EVar 10) (ENum 5) (ENum 2)))
            (SSeq (SAssert (EBin BEq (EStr2 SCharAt (EVar 10) (ENum 1)) (ENum 101)))
                  (SReturn (Some (EStr2 SCharAt (EVar 3) (ENum 0)))))))))))) |} ];
     pmain := 0 |}.

Example ex_str_small : small_program ex_str.
Proof.
  split.
  - unfold source_ok. cbn [pfns pglobals ex_str]. repeat split.
    + repeat constructor; cbn; repeat split; try reflexivity; try (intro Hc; discriminate Hc).
    + repeat constructor; cbn; repeat split; try reflexivity; try (intro Hc; discriminate Hc).
    + repeat constructor. intros [].
    + unfold VM_MAX_GLOBALS_N. cbn [length map]. lia.
  - intros M H. vm_compute in H. injection H as <-. unfold module_small. cbn [m_code m_strings m_fns].
    repeat split; try (vm_compute; reflexivity); try (intro Hc; discriminate Hc).
    repeat constructor; cbn [fe_locals]; intro Hc; discriminate Hc.
Qed.

Example ex_str_correct : exists M, compile_program ex_str = Some M /\
  run_ref 200 ex_str = Done ex_str_out 119 /\
  ((exists fuel', run_vm fuel' M = VDone ex_str_out 119) \/ (exists fuel' o, run_vm fuel' M = VError ECallDepth o)) /\
  run_vm 5000 M = VDone ex_str_out 119.
Proof.
  destruct (compile_program ex_str) as [M|] eqn:E; [|vm_compute in E; discriminate E].
  exists M. split; [reflexivity|]. split; [vm_compute; reflexivity|]. split.
  - apply (vm_correct ex_str M 200); [exact E|exact ex_str_small|unfold fuel_small; lia|vm_compute; reflexivity].
  - vm_compute in E. injection E as <-. vm_compute. reflexivity.
Qed.

Example ex_str_accepted : wt ex_str = true /\ small_program ex_str.
Proof. split; [vm_compute; reflexivity|exact ex_str_small]. Qed.

(* outside the common domain of char_at:   fn main() -> int { (println (char_at "abc" 3))  return 0 }
   the reference is undefined there (FStrDomain: the engines disagree, finding lang:char-at-out-of-range); the VM model prints
   what the real VM prints (-1).  vm_correct and backends_agree say nothing about this run *)
Definition ex_str_dom : program :=
  {| pglobals := [];
     pfns := [ {| fname := 0; fparams := []; fret := TInt;
                  fbody := SSeq (SPrint true (EStr2 SCharAt (EStr [97; 98; 99]) (ENum 3))) (SReturn (Some (ENum 0))) |} ];
     pmain := 0 |}.
Example ex_str_dom_runs : exists M, compile_program ex_str_dom = Some M /\
  run_ref 50 ex_str_dom = Faulted FStrDomain [] /\ run_vm 500 M = VDone [45; 49; 10] 0.
Proof.
  destruct (compile_program ex_str_dom) as [M|] eqn:E; [|vm_compute in E; discriminate E].
  exists M. split; [reflexivity|]. split; [vm_compute; reflexivity|].
  vm_compute in E. injection E as <-. vm_compute. reflexivity.
Qed.
