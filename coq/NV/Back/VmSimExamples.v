(* VM simulation: the hypotheses of vm_correct are satisfiable (a program using every construct), and a regression
   example for the "implicit return" epilogue (a void function whose code ends in RET but can fall through: before the
   compiler fix the machine ran off the end of the function). *)
From Coq Require Import ZArith NArith List Bool Lia.
From NV Require Import Lang.Ast Lang.Ref Back.VmCompile Back.VmExec Back.VmSimEnv Back.VmSimDefs Back.VmSimMod Back.VmSimFinal.
Import ListNotations.
Local Open Scope N_scope.

(* a global, a recursive two-parameter function, for with break/continue, while, strings, short-circuit, cond, assert *)
Definition ex_prog : program :=
  {| pglobals := [(10, TInt, EBin BAdd (ENum 2) (ENum 3))];
     pfns := [
       {| fname := 1; fparams := [(1, TInt); (2, TInt)]; fret := TInt;
          fbody := SIf (EBin BLe (EVar 1) (ENum 0)) (SReturn (Some (EVar 2)))
                       (SReturn (Some (ECall 1 [EBin BSub (EVar 1) (ENum 1); EBin BAdd (EVar 2) (EVar 1)]))) |};
       {| fname := 0; fparams := []; fret := TInt;
          fbody :=
            SSeq (SLet true 3 TInt (ENum 0))
            (SSeq (SFor 4 (ENum 0) (EVar 10)
                     (SSeq (SIf (EBin BEq (EVar 4) (ENum 1)) SContinue SSkip)
                     (SSeq (SIf (EBin BAnd (EBin BGt (EVar 4) (ENum 3)) (EBool true)) SBreak SSkip)
                           (SSet 3 (EBin BAdd (EVar 3) (EVar 4))))))
            (SSeq (SWhile (EBin BLt (EVar 3) (ENum 10)) (SSet 3 (EBin BMul (EVar 3) (ENum 2))))
            (SSeq (SPrint true (EStr [104;105]))
            (SSeq (SPrint true (ECall 1 [EVar 3; ENum 0]))
            (SSeq (SAssert (EBin BOr (EBool false) (EBin BNe (EVar 3) (ENum 7))))
                  (SReturn (Some (ECond (EBin BGe (EVar 3) (ENum 10)) (EVar 3) (EUn UNeg (EVar 3)))))))))) |} ];
     pmain := 0 |}.

Example ex_prog_small : small_program ex_prog.
Proof.
  split.
  - unfold source_ok. cbn [pfns pglobals ex_prog]. repeat split.
    + repeat constructor; cbn; repeat split; reflexivity.
    + repeat constructor; cbn; repeat split; reflexivity.
    + repeat constructor. intros [].
    + unfold VM_MAX_GLOBALS_N. cbn [length map]. lia.
  - intros M H. vm_compute in H. injection H as <-. unfold module_small. cbn [m_code m_strings m_fns].
    repeat split; try (vm_compute; reflexivity); try (intro Hc; discriminate Hc).
    repeat constructor; cbn [fe_locals]; intro Hc; discriminate Hc.
Qed.

Example ex_prog_correct : exists M, compile_program ex_prog = Some M /\
  run_ref 200 ex_prog = Done [104; 105; 10; 53; 53; 10] 10 /\
  ((exists fuel', run_vm fuel' M = VDone [104; 105; 10; 53; 53; 10] 10) \/
   (exists fuel' o, run_vm fuel' M = VError ECallDepth o)) /\
  run_vm 5000 M = VDone [104; 105; 10; 53; 53; 10] 10.
Proof.
  destruct (compile_program ex_prog) as [M|] eqn:E; [|vm_compute in E; discriminate E].
  exists M. split; [reflexivity|]. split; [vm_compute; reflexivity|]. split.
  - apply (vm_correct ex_prog M 200); [exact E|exact ex_prog_small|unfold fuel_small; lia|vm_compute; reflexivity].
  - vm_compute in E. injection E as <-. vm_compute. reflexivity.
Qed.

(* regression: the body of f1 ends in the byte RET and can complete normally.  The compiler used to test only the last
   byte before adding the "push void; ret" epilogue, and the machine ran off the end of the function (VFellOff);
   the epilogue is now unconditional and the program is an ordinary instance of vm_correct. *)
Definition ex_fall : program :=
  {| pglobals := [];
     pfns := [
       {| fname := 1; fparams := []; fret := TVoid; fbody := SIf (EBool false) (SReturn None) SSkip |};
       {| fname := 0; fparams := []; fret := TInt;
          fbody := SSeq (SExpr (ECall 1 [])) (SSeq (SPrint true (ENum 7)) (SReturn (Some (ENum 0)))) |} ];
     pmain := 0 |}.

Example ex_fall_small : small_program ex_fall.
Proof.
  split.
  - unfold source_ok. cbn [pfns pglobals ex_fall]. repeat split.
    + repeat constructor; cbn; repeat split; reflexivity.
    + constructor.
    + constructor.
    + unfold VM_MAX_GLOBALS_N. cbn [length]. lia.
  - intros M H. vm_compute in H. injection H as <-. unfold module_small. cbn [m_code m_strings m_fns].
    repeat split; try (vm_compute; reflexivity); try (intro Hc; discriminate Hc).
    repeat constructor; cbn [fe_locals]; intro Hc; discriminate Hc.
Qed.

Example fall_through_returns_void : exists M, compile_program ex_fall = Some M /\
  run_ref 50 ex_fall = Done [55; 10] 0 /\
  ((exists fuel', run_vm fuel' M = VDone [55; 10] 0) \/ (exists fuel' o, run_vm fuel' M = VError ECallDepth o)) /\
  run_vm 500 M = VDone [55; 10] 0.
Proof.
  destruct (compile_program ex_fall) as [M|] eqn:E; [|vm_compute in E; discriminate E].
  exists M. split; [reflexivity|]. split; [vm_compute; reflexivity|]. split.
  - apply (vm_correct ex_fall M 50); [exact E|exact ex_fall_small|unfold fuel_small; lia|vm_compute; reflexivity].
  - vm_compute in E. injection E as <-. vm_compute. reflexivity.
Qed.
