(* VM simulation, stage A (part 4): instruction sizes, size independence of the two compile passes of a loop,
   and well-formedness (operands in range) of everything compile_expr / compile_stmt emit. *)
From Coq Require Import ZArith NArith List Bool Lia.
From NV Require Import Base.Bytes Isa.Codec Isa.CodecProofs gen.IsaTable Lang.Ast Back.VmCompile Back.VmExec
  Back.VmSimFetch Back.VmSimStep Back.VmSimComp.
Import ListNotations.

(* ---------- sizes of the opcodes the compiler uses ---------- *)
Lemma isz_push_i64 a : isize (mk OP_PUSH_I64 a) = 9. Proof. reflexivity. Qed.
Lemma isz_push_bool a : isize (mk OP_PUSH_BOOL a) = 2. Proof. reflexivity. Qed.
Lemma isz_push_str a : isize (mk OP_PUSH_STR a) = 5. Proof. reflexivity. Qed.
Lemma isz_push_void a : isize (mk OP_PUSH_VOID a) = 1. Proof. reflexivity. Qed.
Lemma isz_dup a : isize (mk OP_DUP a) = 1. Proof. reflexivity. Qed.
Lemma isz_pop a : isize (mk OP_POP a) = 1. Proof. reflexivity. Qed.
Lemma isz_load_local a : isize (mk OP_LOAD_LOCAL a) = 3. Proof. reflexivity. Qed.
Lemma isz_store_local a : isize (mk OP_STORE_LOCAL a) = 3. Proof. reflexivity. Qed.
Lemma isz_load_global a : isize (mk OP_LOAD_GLOBAL a) = 5. Proof. reflexivity. Qed.
Lemma isz_store_global a : isize (mk OP_STORE_GLOBAL a) = 5. Proof. reflexivity. Qed.
Lemma isz_neg a : isize (mk OP_NEG a) = 1. Proof. reflexivity. Qed.
Lemma isz_not a : isize (mk OP_NOT a) = 1. Proof. reflexivity. Qed.
Lemma isz_jmp a : isize (mk OP_JMP a) = 5. Proof. reflexivity. Qed.
Lemma isz_jmp_false a : isize (mk OP_JMP_FALSE a) = 5. Proof. reflexivity. Qed.
Lemma isz_jmp_true a : isize (mk OP_JMP_TRUE a) = 5. Proof. reflexivity. Qed.
Lemma isz_call a : isize (mk OP_CALL a) = 5. Proof. reflexivity. Qed.
Lemma isz_ret a : isize (mk OP_RET a) = 1. Proof. reflexivity. Qed.
Lemma isz_assert a : isize (mk OP_ASSERT a) = 1. Proof. reflexivity. Qed.
Lemma isz_binop o a : isize (mk (binop_code o) a) = 1. Proof. destruct o; reflexivity. Qed.
Lemma isz_unop (o : unop) a : isize (mk (match o with UNeg => OP_NEG | UNot => OP_NOT end) a) = 1.
Proof. destruct o; reflexivity. Qed.
Lemma isz_sc (o : binop) a : isize (mk (match o with BAnd => OP_JMP_FALSE | _ => OP_JMP_TRUE end) a) = 5.
Proof. destruct o; reflexivity. Qed.
Lemma isz_print (nl : bool) a : isize (mk (if nl then OP_PRINTLN else OP_PRINT) a) = 1.
Proof. destruct nl; reflexivity. Qed.
Lemma isz_lt a : isize (mk OP_LT a) = 1. Proof. reflexivity. Qed.
Lemma isz_add a : isize (mk OP_ADD a) = 1. Proof. reflexivity. Qed.
Lemma isz_arr_new a : isize (mk OP_ARR_NEW a) = 2. Proof. reflexivity. Qed.
Lemma isz_arr_push a : isize (mk OP_ARR_PUSH a) = 1. Proof. reflexivity. Qed.
Lemma isz_arr_len a : isize (mk OP_ARR_LEN a) = 1. Proof. reflexivity. Qed.
Lemma isz_arr_get a : isize (mk OP_ARR_GET a) = 1. Proof. reflexivity. Qed.
Lemma isz_arr_literal a : isize (mk OP_ARR_LITERAL a) = 4. Proof. reflexivity. Qed.
Lemma isz_sop1 o a : isize (mk (sop1_code o) a) = 1. Proof. destruct o; reflexivity. Qed.
Lemma isz_sop2 o a : isize (mk (sop2_code o) a) = 1. Proof. destruct o; reflexivity. Qed.
Lemma isz_str_substr a : isize (mk OP_STR_SUBSTR a) = 1. Proof. reflexivity. Qed.

#[export] Hint Rewrite csize_app csize_cons csize_nil
  isz_push_i64 isz_push_bool isz_push_str isz_push_void isz_dup isz_pop isz_load_local isz_store_local
  isz_load_global isz_store_global isz_neg isz_not isz_jmp isz_jmp_false isz_jmp_true isz_call isz_ret isz_assert
  isz_binop isz_unop isz_sc isz_print isz_lt isz_add isz_arr_new isz_arr_push isz_arr_len isz_arr_get isz_arr_literal isz_sop1 isz_sop2 isz_str_substr : csz.
Ltac csz := autorewrite with csz.
Ltac csz_in H := autorewrite with csz in H.

(* destruct helpers for the option-matches of the compiler *)
Ltac dex H :=
  match type of H with
  | context [match compile_expr ?G ?ce ?e ?p with _ => _ end] =>
      let E := fresh "E" in destruct (compile_expr G ce e p) as [[? ?]|] eqn:E; [|discriminate H]
  end.
Ltac dst H :=
  match type of H with
  | context [match compile_stmt ?G ?q ?l ?ce ?s ?p with _ => _ end] =>
      let E := fresh "E" in destruct (compile_stmt G q l ce s p) as [[[? ?] ?]|] eqn:E; [|discriminate H]
  end.

(* ---------- size independence ---------- *)
Lemma compile_stmt_size G s : forall pos L ce p c ce' p' pos2 L2 c2 ce2 p2,
  compile_stmt G pos L ce s p = Some (c, ce', p') ->
  compile_stmt G pos2 L2 ce s p = Some (c2, ce2, p2) ->
  csize c2 = csize c /\ ce2 = ce' /\ p2 = p'.
Proof.
  induction s as [ |s1 IH1 s2 IH2|m x t e|x e|c0 s1 IH1 s2 IH2|c0 body IHb|x lo hi body IHb| | |[e|]|nl e|e|e];
    intros pos L ce p c ce' p' pos2 L2 c2 ce2 p2 H H2;
    try (rewrite compile_for_eq in H, H2); cbn [compile_stmt] in H, H2.
  - inversion H; inversion H2; subst; auto.
  - dst H. dst H2. destruct (IH1 _ _ _ _ _ _ _ _ _ _ _ _ E E0) as (S1 & -> & ->).
    dst H. dst H2. destruct (IH2 _ _ _ _ _ _ _ _ _ _ _ _ E1 E2) as (S2 & -> & ->).
    apply some3_inj in H, H2. destruct H as (<- & <- & <-). destruct H2 as (<- & <- & <-).
    csz; repeat split; try reflexivity; lia.
  - dex H. apply some3_inj in H, H2. destruct H as (<- & <- & <-). destruct H2 as (<- & <- & <-). auto.
  - destruct (cfind x ce).
    + dex H. apply some3_inj in H, H2. destruct H as (<- & <- & <-). destruct H2 as (<- & <- & <-). auto.
    + destruct (index_of x (g_globals G) 0); [|discriminate]. dex H.
      apply some3_inj in H, H2. destruct H as (<- & <- & <-). destruct H2 as (<- & <- & <-). auto.
  - dex H. dst H. dst H2. destruct (IH1 _ _ _ _ _ _ _ _ _ _ _ _ E0 E1) as (S1 & -> & ->).
    rewrite skip_match in H, H2. destruct (is_skip s2).
    + apply some3_inj in H, H2. destruct H as (<- & <- & <-). destruct H2 as (<- & <- & <-). csz; repeat split; try reflexivity; lia.
    + dst H. dst H2. destruct (IH2 _ _ _ _ _ _ _ _ _ _ _ _ E2 E3) as (S2 & -> & ->).
      apply some3_inj in H, H2. destruct H as (<- & <- & <-). destruct H2 as (<- & <- & <-). csz; repeat split; try reflexivity; lia.
  - dex H. dst H. dst H. dst H2. dst H2. destruct (IHb _ _ _ _ _ _ _ _ _ _ _ _ E1 E3) as (S1 & -> & ->).
    apply some3_inj in H, H2. destruct H as (<- & <- & <-). destruct H2 as (<- & <- & <-). csz; repeat split; try reflexivity; lia.
  - dex H. dex H. cbv zeta in H, H2. dst H. dst H. dst H2. dst H2.
    destruct (IHb _ _ _ _ _ _ _ _ _ _ _ _ E2 E4) as (S1 & -> & ->).
    apply some3_inj in H, H2. destruct H as (<- & <- & <-). destruct H2 as (<- & <- & <-).
    rewrite !csize_app, !csize_one, isz_jmp, isz_jmp_false, S1. auto.
  - destruct L, L2; try discriminate. apply some3_inj in H, H2. destruct H as (<- & <- & <-). destruct H2 as (<- & <- & <-). auto.
  - destruct L, L2; try discriminate. apply some3_inj in H, H2. destruct H as (<- & <- & <-). destruct H2 as (<- & <- & <-). auto.
  - dex H. apply some3_inj in H, H2. destruct H as (<- & <- & <-). destruct H2 as (<- & <- & <-). auto.
  - apply some3_inj in H, H2. destruct H as (<- & <- & <-). destruct H2 as (<- & <- & <-). auto.
  - dex H. apply some3_inj in H, H2. destruct H as (<- & <- & <-). destruct H2 as (<- & <- & <-). auto.
  - dex H. apply some3_inj in H, H2. destruct H as (<- & <- & <-). destruct H2 as (<- & <- & <-). auto.
  - dex H. apply some3_inj in H, H2. destruct H as (<- & <- & <-). destruct H2 as (<- & <- & <-). auto.
Qed.

(* ---------- well-formed instructions ---------- *)
Lemma wf_mk0 o : table o = Some [] -> (o < 256)%N -> wf_instr table (mk o []).
Proof. intros Ht Ho. split; [exact Ho|]. exists []. split; [exact Ht|exact I]. Qed.
Lemma wf_mk1 o k v : table o = Some [k] -> (o < 256)%N -> (v < 256 ^ N.of_nat (ksize k))%N -> wf_instr table (mk o [v]).
Proof. intros Ht Ho Hv. split; [exact Ho|]. exists [k]. split; [exact Ht|]. split; [exact Hv|exact I]. Qed.

(* size limits of one function / module: slots are u16 operands, pool / function / global indices u32 *)
Definition lims (G : genv) (nslots npool : nat) : Prop :=
  (N.of_nat nslots <= 65536)%N /\ (N.of_nat npool <= 4294967296)%N /\
  length (g_globals G) <= VM_MAX_GLOBALS_N /\ (N.of_nat (length (g_fns G)) <= 4294967296)%N.

Lemma lims_mono G n m n' m' : lims G n m -> n' <= n -> m' <= m -> lims G n' m'.
Proof. unfold lims. intros (A & B & C & D) Hn Hm. repeat split; try assumption; lia. Qed.

Ltac wf0 := apply wf_mk0; reflexivity.

Lemma wf_slot o k n : table o = Some [KU16] -> (o < 256)%N -> k < n -> (N.of_nat n <= 65536)%N -> wf_instr table (mk o [N.of_nat k]).
Proof. intros Ht Ho Hk Hn. apply (wf_mk1 o KU16); try assumption. change (256 ^ N.of_nat (ksize KU16))%N with 65536%N. lia. Qed.
Lemma wf_u32 o k n : table o = Some [KU32] -> (o < 256)%N -> k < n -> (N.of_nat n <= 4294967296)%N -> wf_instr table (mk o [N.of_nat k]).
Proof. intros Ht Ho Hk Hn. apply (wf_mk1 o KU32); try assumption. change (256 ^ N.of_nat (ksize KU32))%N with 4294967296%N. lia. Qed.
Lemma wf_i32 o z : table o = Some [KI32] -> (o < 256)%N -> wf_instr table (mk o [i32 z]).
Proof. intros Ht Ho. apply (wf_mk1 o KI32); try assumption. apply i32_range. Qed.
Lemma wf_i64 z : wf_instr table (mk OP_PUSH_I64 [i64 z]).
Proof. apply (wf_mk1 _ KI64); try reflexivity. apply i64_range. Qed.
Lemma wf_load_local k n : k < n -> (N.of_nat n <= 65536)%N -> wf_instr table (mk OP_LOAD_LOCAL [N.of_nat k]).
Proof. apply wf_slot; reflexivity. Qed.
Lemma wf_store_local k n : k < n -> (N.of_nat n <= 65536)%N -> wf_instr table (mk OP_STORE_LOCAL [N.of_nat k]).
Proof. apply wf_slot; reflexivity. Qed.
Lemma wf_jmp z : wf_instr table (mk OP_JMP [i32 z]). Proof. apply wf_i32; reflexivity. Qed.
Lemma wf_jmp_false z : wf_instr table (mk OP_JMP_FALSE [i32 z]). Proof. apply wf_i32; reflexivity. Qed.
Lemma wf_jmp_true z : wf_instr table (mk OP_JMP_TRUE [i32 z]). Proof. apply wf_i32; reflexivity. Qed.

(* the element count of ARR_LITERAL is a u16 operand: a literal must have fewer than 2^16 elements *)
Fixpoint lit_small (e : expr) : Prop :=
  match e with
  | ENum _ | EBool _ | EStr _ | EVar _ => True
  | EUn _ a => lit_small a
  | EBin _ a b => lit_small a /\ lit_small b
  | ECall _ args => (fix go (l : list expr) : Prop := match l with [] => True | a :: r => lit_small a /\ go r end) args
  | ECond c a b => lit_small c /\ lit_small a /\ lit_small b
  | EArr es => (N.of_nat (length es) < 65536)%N /\
               (fix go (l : list expr) : Prop := match l with [] => True | a :: r => lit_small a /\ go r end) es
  | EAt a i => lit_small a /\ lit_small i
  | ELen a => lit_small a
  | EStr1 _ a => lit_small a
  | EStr2 _ a b => lit_small a /\ lit_small b
  | ESubstr a b c => lit_small a /\ lit_small b /\ lit_small c
  end.
Definition lits_small_l : list expr -> Prop :=
  fix go (l : list expr) : Prop := match l with [] => True | a :: r => lit_small a /\ go r end.
Fixpoint lits_small (s : stmt) : Prop :=
  match s with
  | SSkip | SBreak | SContinue | SReturn None => True
  | SSeq a b => lits_small a /\ lits_small b
  | SLet _ _ _ e | SSet _ e | SReturn (Some e) | SPrint _ e | SAssert e | SExpr e => lit_small e
  | SIf c a b => lit_small c /\ lits_small a /\ lits_small b
  | SWhile c b => lit_small c /\ lits_small b
  | SFor _ lo hi b => lit_small lo /\ lit_small hi /\ lits_small b
  end.

Lemma wf_arr_literal n : (N.of_nat n < 65536)%N -> wf_instr table (mk OP_ARR_LITERAL [TAG_INT_N; N.of_nat n]).
Proof.
  intros Hn. split; [reflexivity|]. exists [KU8; KU16]. split; [reflexivity|].
  split; [reflexivity|]. split; [|exact I]. change (256 ^ N.of_nat (ksize KU16))%N with 65536%N. lia.
Qed.

Lemma Forall_cons_iff' {A} (P : A -> Prop) a l : P a -> Forall P l -> Forall P (a :: l).
Proof. intros; constructor; assumption. Qed.
Ltac fa := repeat (first [apply Forall_nil | apply Forall_cons_iff' | (apply Forall_app; split)]).

Lemma compile_args_wf G ce args :
  Forall (fun a => forall p c p', compile_expr G ce a p = Some (c, p') -> lims G (length ce) (length p') -> lit_small a ->
                   Forall (wf_instr table) c) args ->
  forall p c p', compile_args G ce args p = Some (c, p') -> lims G (length ce) (length p') -> lits_small_l args ->
  Forall (wf_instr table) c.
Proof.
  induction 1 as [|a r Ha Hr IH]; intros p c p' Ea HL Hs; cbn [compile_args] in Ea.
  - inversion Ea. constructor.
  - destruct (compile_expr G ce a p) as [[ca q1]|] eqn:E1; [|discriminate].
    destruct (compile_args G ce r q1) as [[cr q2]|] eqn:E2; [|discriminate]. inversion Ea; subst.
    destruct Hs as [Hsa Hsr].
    apply Forall_app. split; [|eapply IH; eauto].
    eapply Ha; eauto. eapply lims_mono; [exact HL|lia|]. apply pool_le_length. eapply compile_args_pool; eauto.
Qed.

Lemma compile_expr_wf G ce e : forall p c p',
  compile_expr G ce e p = Some (c, p') -> lims G (length ce) (length p') -> lit_small e -> Forall (wf_instr table) c.
Proof.
  induction e as [z|b|s|x|o a IHa|o a b IHa IHb|f args IHargs|c0 a b IHc IHa IHb|es IHes|a i IHa IHi|a IHa
                  |so a IHa|so a b IHa IHb|a b c1 IHa IHb IHc] using expr_ind2;
    intros p c p' H HL HS; cbn [lit_small] in HS.
  - inversion H. fa. apply wf_i64.
  - inversion H. fa. apply (wf_mk1 _ KU8); try reflexivity. destruct b; reflexivity.
  - cbn [compile_expr] in H. destruct (pool_add (unescape s) p) as [i q] eqn:E. inversion H; subst.
    destruct (pool_add_spec _ _ _ _ E) as [_ Hn]. fa.
    apply (wf_u32 _ _ (length p')); try reflexivity; [|apply HL]. apply nth_error_Some. rewrite Hn. discriminate.
  - cbn [compile_expr] in H. destruct (cfind x ce) as [k|] eqn:Ek.
    + inversion H. fa. apply (wf_load_local _ (length ce)); [eapply cfind_lt; eauto|apply HL].
    + destruct (index_of x (g_globals G) 0) as [k|] eqn:Ei; inversion H. fa.
      apply (wf_u32 _ _ (length (g_globals G))); try reflexivity; [apply index_of_lt in Ei; lia|].
      destruct HL as (_ & _ & Hg & _). unfold VM_MAX_GLOBALS_N in Hg. lia.
  - cbn [compile_expr] in H. dex H. inversion H; subst. apply Forall_app. split; [eapply IHa; eauto|].
    fa. destruct o; wf0.
  - cbn [compile_expr] in H. dex H. dex H. destruct HS as [HSa HSb].
    pose proof (compile_expr_pool _ _ _ _ _ _ E0) as P1.
    assert (HL1 : lims G (length ce) (length p0)) by (eapply lims_mono; [exact HL|lia|]; destruct o; inversion H; subst; apply pool_le_length; auto).
    assert (HL2 : lims G (length ce) (length p1)) by (destruct o; inversion H; subst; exact HL).
    specialize (IHa _ _ _ E HL1 HSa). specialize (IHb _ _ _ E0 HL2 HSb).
    destruct o; apply some2_inj in H; destruct H as [<- <-]; fa; try assumption; try wf0;
      try apply wf_jmp_false; try apply wf_jmp_true.
  - rewrite compile_call_eq in H.
    destruct (compile_args G ce args p) as [[cargs p1]|] eqn:Ea; [|discriminate].
    destruct (index_of f (g_fns G) 0) as [k|] eqn:Ei; inversion H; subst. clear H.
    apply Forall_app. split.
    + eapply compile_args_wf; eauto.
    + fa. apply (wf_u32 _ _ (length (g_fns G))); try reflexivity; [apply index_of_lt in Ei; lia|apply HL].
  - cbn [compile_expr] in H. dex H. dex H. dex H. inversion H; subst. destruct HS as (HSc & HSa & HSb).
    pose proof (compile_expr_pool _ _ _ _ _ _ E0) as P1. pose proof (compile_expr_pool _ _ _ _ _ _ E1) as P2.
    apply pool_le_length in P1, P2.
    repeat (apply Forall_app; split); fa; try apply wf_jmp_false; try apply wf_jmp.
    + eapply IHc; eauto. eapply lims_mono; [exact HL|lia|lia].
    + eapply IHa; eauto. eapply lims_mono; [exact HL|lia|lia].
    + eapply IHb; eauto.
  - rewrite compile_arr_eq in H.
    destruct (compile_args G ce es p) as [[cel p1]|] eqn:Ea; [|discriminate].
    inversion H; subst. clear H. destruct HS as [Hlen Hel].
    apply Forall_app. split.
    + eapply compile_args_wf; eauto.
    + fa. apply wf_arr_literal. exact Hlen.
  - cbn [compile_expr] in H. dex H. dex H. inversion H; subst. destruct HS as [HSa HSi].
    pose proof (compile_expr_pool _ _ _ _ _ _ E0) as P1. apply pool_le_length in P1.
    repeat (apply Forall_app; split); fa; try wf0.
    + eapply IHa; eauto. eapply lims_mono; [exact HL|lia|lia].
    + eapply IHi; eauto.
  - cbn [compile_expr] in H. dex H. inversion H; subst. apply Forall_app. split; [eapply IHa; eauto|].
    fa. wf0.
  - cbn [compile_expr] in H. dex H. inversion H; subst. apply Forall_app. split; [eapply IHa; eauto|].
    fa. destruct so; wf0.
  - cbn [compile_expr] in H. dex H. dex H. inversion H; subst. destruct HS as [HSa HSb].
    pose proof (compile_expr_pool _ _ _ _ _ _ E0) as P1. apply pool_le_length in P1.
    repeat (apply Forall_app; split); fa; try (destruct so; wf0).
    + eapply IHa; eauto. eapply lims_mono; [exact HL|lia|lia].
    + eapply IHb; eauto.
  - cbn [compile_expr] in H. dex H. dex H. dex H. inversion H; subst. destruct HS as (HSa & HSb & HSc).
    pose proof (compile_expr_pool _ _ _ _ _ _ E0) as P1. pose proof (compile_expr_pool _ _ _ _ _ _ E1) as P2.
    apply pool_le_length in P1, P2.
    repeat (apply Forall_app; split); fa; try wf0.
    + eapply IHa; eauto. eapply lims_mono; [exact HL|lia|lia].
    + eapply IHb; eauto. eapply lims_mono; [exact HL|lia|lia].
    + eapply IHc; eauto.
Qed.

Lemma for_code_wf n0 n : n0 + 7 <= n -> (N.of_nat n <= 65536)%N ->
  Forall (wf_instr table) (rng_init n0 ++ rng_loop n0) /\ Forall (wf_instr table) (for_setup n0) /\
  Forall (wf_instr table) (for_test n0) /\ Forall (wf_instr table) (for_fetch n0) /\ Forall (wf_instr table) (for_incr n0).
Proof.
  intros Hn HN.
  assert (L : forall k, k < n0 + 7 -> wf_instr table (mk OP_LOAD_LOCAL [N.of_nat k])) by (intros; apply (wf_load_local _ n); lia).
  assert (S : forall k, k < n0 + 7 -> wf_instr table (mk OP_STORE_LOCAL [N.of_nat k])) by (intros; apply (wf_store_local _ n); lia).
  unfold rng_init, rng_loop, rng_test, rng_body, for_setup, for_test, for_fetch, for_incr.
  repeat split; repeat (apply Forall_app; split); repeat apply Forall_cons_iff'; try apply Forall_nil;
    try (apply L; lia); try (apply S; lia); try wf0; try apply wf_i64; try apply wf_jmp; try apply wf_jmp_false.
  apply (wf_mk1 _ KU8); reflexivity.
Qed.

Lemma compile_stmt_wf G s : forall pos L ce p c ce' p',
  compile_stmt G pos L ce s p = Some (c, ce', p') -> lims G (length ce') (length p') -> lits_small s ->
  Forall (wf_instr table) c.
Proof.
  induction s as [ |s1 IH1 s2 IH2|m x t e|x e|c0 s1 IH1 s2 IH2|c0 body IHb|x lo hi body IHb| | |[e|]|nl e|e|e];
    intros pos L ce p c ce' p' H HL HS; pose proof (compile_stmt_ext _ _ _ _ _ _ _ _ _ H) as [[ext Hext] Hpool];
    try (rewrite compile_for_eq in H); cbn [compile_stmt] in H; cbn [lits_small] in HS;
    repeat match goal with HH : _ /\ _ |- _ => destruct HH end.
  - inversion H. constructor.
  - dst H. dst H. apply some3_inj in H. destruct H as (<- & <- & <-).
    destruct (compile_stmt_ext _ _ _ _ _ _ _ _ _ E) as [[x1 ->] P1].
    destruct (compile_stmt_ext _ _ _ _ _ _ _ _ _ E0) as [[x2 ->] P2].
    apply Forall_app. split; [|eapply IH2; eauto].
    eapply IH1; eauto. eapply lims_mono; [exact HL|rewrite !app_length; lia|apply pool_le_length; auto].
  - dex H. apply some3_inj in H. destruct H as (<- & <- & <-). rewrite app_length in HL. cbn [length] in HL.
    apply Forall_app. split.
    + eapply compile_expr_wf; eauto. eapply lims_mono; [exact HL|lia|lia].
    + fa. apply (wf_store_local _ (length ce + 1)); [lia|apply HL].
  - destruct (cfind x ce) as [k|] eqn:Ek.
    + dex H. apply some3_inj in H. destruct H as (<- & <- & <-).
      apply Forall_app. split; [eapply compile_expr_wf; eauto|].
      fa. apply (wf_store_local _ (length ce)); [eapply cfind_lt; eauto|apply HL].
    + destruct (index_of x (g_globals G) 0) as [k|] eqn:Ei; [|discriminate]. dex H.
      apply some3_inj in H. destruct H as (<- & <- & <-).
      apply Forall_app. split; [eapply compile_expr_wf; eauto|].
      fa. apply (wf_u32 _ _ (length (g_globals G))); try reflexivity; [apply index_of_lt in Ei; lia|].
      destruct HL as (_ & _ & Hg & _). unfold VM_MAX_GLOBALS_N in Hg. lia.
  - dex H. dst H. rewrite skip_match in H.
    pose proof (compile_expr_pool _ _ _ _ _ _ E) as P0.
    destruct (compile_stmt_ext _ _ _ _ _ _ _ _ _ E0) as [[x1 ->] P1]. rewrite hide_from_app in H.
    destruct (is_skip s2).
    + apply some3_inj in H. destruct H as (<- & <- & <-). rewrite !app_length, ?repeat_length in HL.
      repeat (apply Forall_app; split).
      * eapply compile_expr_wf; eauto. eapply lims_mono; [exact HL|lia|apply pool_le_length; auto].
      * fa. apply wf_jmp_false.
      * eapply IH1; eauto. rewrite app_length. exact HL.
    + dst H. destruct (compile_stmt_ext _ _ _ _ _ _ _ _ _ E1) as [[x2 ->] P2]. rewrite hide_from_app in H.
      apply some3_inj in H. destruct H as (<- & <- & <-). rewrite !app_length, ?repeat_length in HL.
      apply pool_le_length in P0, P1, P2.
      repeat (apply Forall_app; split).
      * eapply compile_expr_wf; eauto. eapply lims_mono; [exact HL|lia|lia].
      * fa. apply wf_jmp_false.
      * eapply IH1; eauto. eapply lims_mono; [exact HL|rewrite !app_length; lia|lia].
      * fa. apply wf_jmp.
      * eapply IH2; eauto. eapply lims_mono; [exact HL|rewrite !app_length, ?repeat_length; lia|lia].
  - dex H. dst H. dst H. pose proof (compile_expr_pool _ _ _ _ _ _ E) as P0.
    destruct (compile_stmt_ext _ _ _ _ _ _ _ _ _ E1) as [[x1 ->] P1]. rewrite hide_from_app in H.
    apply some3_inj in H. destruct H as (<- & <- & <-). rewrite !app_length, ?repeat_length in HL.
    apply pool_le_length in P0, P1.
    repeat (apply Forall_app; split).
    + eapply compile_expr_wf; eauto. eapply lims_mono; [exact HL|lia|lia].
    + fa. apply wf_jmp_false.
    + eapply IHb; eauto. rewrite app_length. exact HL.
    + fa. apply wf_jmp.
  - dex H. dex H. cbv zeta in H. dst H. dst H.
    pose proof (compile_expr_pool _ _ _ _ _ _ E) as P0. pose proof (compile_expr_pool _ _ _ _ _ _ E0) as P0'.
    destruct (compile_stmt_ext _ _ _ _ _ _ _ _ _ E2) as [[x1 Hx1] P1].
    apply some3_inj in H. destruct H as (<- & Hce' & <-).
    assert (Hlen : length ce' = length ce + 7 + length x1).
    { rewrite <- Hce', !hide_from_length, Hx1. unfold for_ce. rewrite !app_length. reflexivity. }
    rewrite Hlen in HL. apply pool_le_length in P0, P0', P1.
    destruct (for_code_wf (length ce) (length ce + 7 + length x1) ltac:(lia) ltac:(apply HL)) as (W1 & W2 & W3 & W4 & W5).
    apply Forall_app in W1. destruct W1 as [W0 W1].
    unfold for_pre. rewrite <- !app_assoc.
    repeat first [assumption | apply Forall_app; split].
    + eapply compile_expr_wf; eauto. eapply lims_mono; [exact HL|lia|lia].
    + eapply compile_expr_wf; eauto. eapply lims_mono; [exact HL|lia|lia].
    + fa. apply wf_jmp_false.
    + eapply IHb; eauto. rewrite Hx1. unfold for_ce. rewrite !app_length. cbn [length].
      eapply lims_mono; [exact HL|lia|lia].
    + fa. apply wf_jmp.
  - destruct L; inversion H. fa. apply wf_jmp.
  - destruct L; inversion H. fa. apply wf_jmp.
  - dex H. apply some3_inj in H. destruct H as (<- & <- & <-).
    apply Forall_app. split; [eapply compile_expr_wf; eauto|]. fa. wf0.
  - inversion H. fa; wf0.
  - dex H. apply some3_inj in H. destruct H as (<- & <- & <-).
    apply Forall_app. split; [eapply compile_expr_wf; eauto|]. fa; try wf0. destruct nl; wf0.
  - dex H. apply some3_inj in H. destruct H as (<- & <- & <-).
    apply Forall_app. split; [eapply compile_expr_wf; eauto|]. fa. wf0.
  - dex H. apply some3_inj in H. destruct H as (<- & <- & <-).
    apply Forall_app. split; [eapply compile_expr_wf; eauto|]. fa. wf0.
Qed.
