(* VM simulation, stage G (part 2): whole programs.  Entry frames (init_state), the global initialiser __init__,
   and the final theorems vm_correct / vm_correct_assert. *)
From Coq Require Import ZArith NArith List Bool Lia.
From NV Require Import Base.Bytes Isa.Codec Isa.CodecProofs gen.IsaTable Lang.Ast Lang.Ref Back.VmCompile Back.VmExec Back.OpTable
  Back.VmSimFetch Back.VmSimStep Back.VmSimComp Back.VmSimWf Back.VmSimEnv Back.VmSimDefs Back.VmSimExpr Back.VmSimStmt
  Back.VmSimLoop Back.VmSimCall Back.VmSimRange Back.VmSimFor Back.VmSimAll Back.VmSimMod.
Import ListNotations.

(* ---------- from Reach to run_steps ---------- *)
Definition terminal (r : mres) : Prop := match r with MNext _ => False | _ => True end.

Lemma run_steps_mono M n k s r : run_steps M n s = Some r -> run_steps M (n + k) s = Some r.
Proof.
  revert s; induction n as [|n IH]; intros s H; cbn [run_steps Nat.add] in *; [discriminate|].
  destruct (step M s); auto.
Qed.

Lemma reach_terminal M s (Q : mres -> Prop) : (forall m, Q m -> terminal m) -> Reach M s Q ->
  exists n r, (forall k, run_steps M (n + k) s = Some r) /\ (Q r \/ depth_err r).
Proof.
  unfold Reach. intros HQ [n [H|H]]; exists n, (steps M n s); (split; [|auto]); intros k; apply run_steps_mono;
    apply run_steps_of_steps; try reflexivity.
  - apply HQ. exact H.
  - unfold depth_err in H. destruct H as [o Ho]. rewrite Ho. exact I.
Qed.

(* ---------- global names ---------- *)
Lemma index_of_nodup names : NoDup names -> forall i x j, nth_error names i = Some x -> index_of x names j = Some (j + i).
Proof.
  induction 1 as [|y names Hy Hnd IH]; intros i x j Hn; [destruct i; discriminate|].
  cbn [index_of]. destruct i as [|i]; cbn [nth_error] in Hn.
  - inversion Hn; subst. rewrite N.eqb_refl. f_equal. lia.
  - destruct (N.eqb_spec x y) as [->|Hne]; [exfalso; apply Hy; eapply nth_error_In; eassumption|].
    rewrite (IH i x (S j) Hn). f_equal. lia.
Qed.

Lemma compile_globals_wf G gs : forall i p cg p',
  compile_globals G gs i p = Some (cg, p') -> lims G 0 (length p') -> i + length gs <= length (g_globals G) ->
  Forall (fun g => lit_small (snd g)) gs ->
  Forall (wf_instr table) cg /\ pool_le p p'.
Proof.
  induction gs as [|[[x t] e] r IH]; intros i p cg p' H HL Hi HS; cbn [compile_globals] in H.
  - apply some2_inj in H. destruct H as [<- <-]. split; [constructor|apply pool_le_refl].
  - destruct (compile_expr G [] e p) as [[c p1]|] eqn:E1; [|discriminate].
    destruct (compile_globals G r (S i) p1) as [[cr p2]|] eqn:E2; [|discriminate].
    apply some2_inj in H. destruct H as [<- <-]. cbn [length] in Hi.
    inversion HS as [|g0 r0 HSe HSr]; subst. cbn [snd] in HSe.
    destruct (IH _ _ _ _ E2 HL ltac:(lia) HSr) as [Wr Pr]. pose proof (compile_expr_pool _ _ _ _ _ _ E1) as P1.
    split; [|eapply pool_le_trans; eassumption].
    apply Forall_app. split; [|apply Forall_app; split; [|exact Wr]].
    + eapply compile_expr_wf; [exact E1| |exact HSe]. eapply lims_mono; [exact HL|cbn; lia|apply pool_le_length; exact Pr].
    + constructor; [|constructor]. apply (wf_u32 _ _ (length (g_globals G))); try reflexivity; [lia|].
      destruct HL as (_ & _ & Hg & _). unfold VM_MAX_GLOBALS_N in Hg. lia.
Qed.

Section Prog.
Variable pr : program.
Variable M : vmodule.
Hypothesis Hcomp : compile_program pr = Some M.
Hypothesis Hsmall : small_program pr.

Let fns := pfns pr.
Let G := prog_genv pr.

Lemma HG : length (g_globals G) <= VM_MAX_GLOBALS_N.
Proof. destruct Hsmall as [(_ & _ & _ & H) _]. unfold G, prog_genv. cbn [g_globals]. rewrite map_length. exact H. Qed.

(* the two shapes of a compiled program *)
Lemma compile_program_cases :
  exists nidx p0 entry,
    add_names (map fname fns) [] = (nidx, p0) /\ index_of (pmain pr) (map fname fns) 0 = Some entry /\ m_entry M = entry /\
    ((pglobals pr = [] /\ exists code es p1,
        compile_fns G fns nidx 0 p0 = Some (code, es, p1) /\
        M = {| m_code := code; m_strings := p1; m_fns := es; m_entry := entry; m_nglobals := 0 |}) \/
     (pglobals pr <> [] /\ exists ini p1 cg p2 ibs code es p3,
        pool_add INIT_NAME p0 = (ini, p1) /\ compile_globals G (pglobals pr) 0 p1 = Some (cg, p2) /\
        encode_all (cg ++ epi) = Some ibs /\ compile_fns G fns nidx (length ibs) p2 = Some (code, es, p3) /\
        M = {| m_code := ibs ++ code; m_strings := p3;
               m_fns := es ++ [{| fe_name := ini; fe_arity := 0; fe_off := 0; fe_len := length ibs; fe_locals := 0 |}];
               m_entry := entry; m_nglobals := length (pglobals pr) |})).
Proof.
  pose proof Hcomp as H. unfold compile_program in H. fold fns in H.
  change {| g_globals := map (fun g => fst (fst g)) (pglobals pr); g_fns := map fname fns |} with G in H.
  destruct (add_names (map fname fns) []) as [nidx p0] eqn:Ea.
  destruct (index_of (pmain pr) (map fname fns) 0) as [entry|] eqn:Ei; [|discriminate].
  exists nidx, p0, entry. split; [reflexivity|]. split; [reflexivity|].
  destruct (pglobals pr) as [|g0 gs] eqn:Eg; cbv beta iota in H.
  - destruct (compile_fns G fns nidx 0 p0) as [[[code es] p1]|] eqn:Ef; [|discriminate].
    injection H as HM. split; [rewrite <- HM; reflexivity|]. left. split; [reflexivity|]. exists code, es, p1. auto.
  - destruct (pool_add INIT_NAME p0) as [ini p1] eqn:Ep.
    destruct (compile_globals G (g0 :: gs) 0 p1) as [[cg p2]|] eqn:Ecg; [|discriminate].
    change [mk OP_PUSH_VOID []; mk OP_RET []] with epi in H.
    destruct (encode_all (cg ++ epi)) as [ibs|] eqn:Ee; [|discriminate].
    destruct (compile_fns G fns nidx (length ibs) p2) as [[[code es] p3]|] eqn:Ef; [|discriminate].
    injection H as HM. split; [rewrite <- HM; reflexivity|]. right. split; [discriminate|].
    exists ini, p1, cg, p2, ibs, code, es, p3. auto.
Qed.

Lemma Hfns : fns_compiled fns G M.
Proof.
  destruct Hsmall as [(Hok & _ & _ & _) Hms]. specialize (Hms M Hcomp).
  destruct compile_program_cases as (nidx & p0 & entry & Ea & Ei & Hent & [[Eg (code & es & p1 & Ef & HM)] | [Eg (ini & p1 & cg & p2 & ibs & code & es & p3 & Ep & Ecg & Ee & Ef & HM)]]).
  - apply (fns_compiled_intro G M fns nidx p0 code es p1 [] [] Ef).
    + rewrite HM. reflexivity.
    + rewrite HM. cbn [m_fns]. rewrite app_nil_r. reflexivity.
    + rewrite HM. reflexivity.
    + reflexivity.
    + exact Hms.
    + apply HG.
    + exact Hok.
  - apply (fns_compiled_intro G M fns nidx p2 code es p3 ibs
             [{| fe_name := ini; fe_arity := 0; fe_off := 0; fe_len := length ibs; fe_locals := 0 |}] Ef).
    + rewrite HM. reflexivity.
    + rewrite HM. reflexivity.
    + rewrite HM. reflexivity.
    + reflexivity.
    + exact Hms.
    + apply HG.
    + exact Hok.
Qed.

Lemma Hsim fuel : (forall e, expr_sim fns G M fuel e) /\ (forall s, stmt_sim fns G M fuel s).
Proof. destruct (sim_all fns G M HG Hfns fuel) as (A & B & _). auto. Qed.

(* ---------- running a parameterless function from its entry frame ---------- *)
Lemma sim_entry fuel genv g out0 f d :
  find_fn fns f = Some d -> match_genv G genv g -> fuel_small (S fuel) ->
  exists idx s0, index_of f (g_fns G) 0 = Some idx /\ init_state M idx g out0 = Some s0 /\
    Reach M s0 (rpost (fun v out m => m = MDone out (mval_of v) g) (eval_expr fns (S fuel) genv [] (ECall f []) out0)).
Proof.
  intros Ef Hmg Hfuel. apply fuel_small_S in Hfuel.
  destruct (Hfns _ _ Ef) as (idx & Hi & fe_d & cf_d & c_d & ce_d & p_d & p_d' & Hfed & Hcoded & Hszd & Har & Hloc & Hcd & Hpd & Hepi & Hokp & Hokb).
  exists idx, (mkst idx 0 (repeat MVoid (fe_locals fe_d)) [] [] (fe_off fe_d) g out0).
  split; [exact Hi|]. split; [unfold init_state; rewrite Hfed; reflexivity|].
  rewrite eval_call_eq. cbn [eval_args bind]. rewrite Ef.
  destruct (fparams d) as [|[x t] ps] eqn:Eps; cbn [bind_params]; [|apply Reach_trivial].
  cbn [rev map] in *.
  assert (Hcd0 : code_at cf_d 0 c_d).
  { rewrite Hepi. exists [], [mk OP_PUSH_VOID []; mk OP_RET []]. split; reflexivity. }
  rewrite <- (Nat.add_0_r (fe_off fe_d)).
  eapply rpost_bind.
  { eapply (proj2 (Hsim fuel) (fbody d) genv [] out0 [] p_d c_d ce_d p_d' None idx fe_d cf_d 0 0 _ [] [] g); try eassumption.
    - unfold in_fn. auto.
    - exact I.
    - apply match_env_nil.
    - rewrite repeat_length. lia. }
  intros [c3 en3] o2 m Hex Hp. cbn [fst snd] in *.
  destruct c3; cbn [rpost].
  - destruct Hp as (locs' & -> & Hl' & Hm' & Hk').
    assert (Hce : code_at cf_d (0 + csize c_d) [mk OP_PUSH_VOID []; mk OP_RET []]).
    { rewrite Hepi. exists c_d, []. split; [reflexivity|lia]. }
    vstep Hfed Hcoded Hce step_push_void. vnext Hce.
    at_code Hce. apply Reach_one. erewrite step_ret; [|eapply fetch_at; eassumption]. reflexivity.
  - destruct m; try apply Reach_trivial; exact I.
  - destruct m; try apply Reach_trivial; exact I.
  - destruct Hp as [-> Hv]. cbn [ret_result]. reflexivity.
Qed.

(* ---------- the global initialiser ---------- *)
Lemma match_genv_extend genv g x v i :
  match_genv G genv g -> length g = i -> nth_error (g_globals G) i = Some x -> NoDup (g_globals G) -> val_ok v ->
  match_genv G ((x, (false, v)) :: genv) (g ++ [mval_of v]).
Proof.
  intros Hm Hl Hn Hnd Hv y m w Hlk. cbn [lookup] in Hlk. destruct (N.eqb_spec y x) as [->|Hne].
  - injection Hlk as Em Ew. subst m w. exists i. split; [apply (index_of_nodup _ Hnd i x 0 Hn)|].
    split; [|exact Hv]. rewrite nth_error_app2, Hl, Nat.sub_diag by lia. reflexivity.
  - destruct (Hm _ _ _ Hlk) as (k & Hk & Hnk & Hw). exists k. split; [exact Hk|]. split; [|exact Hw].
    rewrite nth_error_app1; [exact Hnk|]. apply nth_error_Some. rewrite Hnk. discriminate.
Qed.

Lemma sim_globals fuel fn fe cf ret cs : in_fn M fn fe cf -> fuel_small fuel -> NoDup (g_globals G) ->
  forall gs i p cg p' genv g out pos,
  compile_globals G gs i p = Some (cg, p') -> code_at cf pos cg -> length g = i -> match_genv G genv g ->
  skipn i (g_globals G) = map (fun g => fst (fst g)) gs -> Forall (fun g => expr_ok (snd g)) gs ->
  pool_le p' (m_strings M) ->
  Reach M (mkst fn ret [] [] cs (fe_off fe + pos) g out)
    (rpost (fun genv' out' m => exists g', m = MNext (mkst fn ret [] [] cs (fe_off fe + (pos + csize cg)) g' out') /\
                                         match_genv G genv' g')
           (eval_globals fns fuel gs genv out)).
Proof.
  intros (Hfe & Hcode & Hsz) Hfuel Hnd.
  induction gs as [|[[x t] e] r IH]; intros i p cg p' genv g out pos Hcg Hc Hl Hm Hnames Hok Hpool;
    cbn [compile_globals] in Hcg; cbn [eval_globals].
  - apply some2_inj in Hcg. destruct Hcg as [<- <-]. cbn [rpost]. apply Reach_here. exists g. split; [same_state|exact Hm].
  - destruct (compile_expr G [] e p) as [[c p1]|] eqn:E1; [|discriminate].
    destruct (compile_globals G r (S i) p1) as [[cr p2]|] eqn:E2; [|discriminate].
    apply some2_inj in Hcg. destruct Hcg as [<- <-]. pose proof (Forall_inv Hok) as Hoke. pose proof (Forall_inv_tail Hok) as Hokr. cbn [snd] in Hoke.
    assert (Pr : pool_le p1 p2).
    { clear -E2. revert p1 cr p2 E2. generalize (S i). induction r as [|[[x t] e] r IH]; intros j p1 cr p2 E2; cbn [compile_globals] in E2.
      - apply some2_inj in E2. destruct E2 as [_ <-]. apply pool_le_refl.
      - destruct (compile_expr G [] e p1) as [[c q1]|] eqn:E; [|discriminate].
        destruct (compile_globals G r (S j) q1) as [[cr' q2]|] eqn:E'; [|discriminate].
        apply some2_inj in E2. destruct E2 as [_ <-].
        eapply pool_le_trans; [eapply compile_expr_pool; eassumption|eapply IH; eassumption]. }
    assert (Hni : nth_error (g_globals G) i = Some x).
    { rewrite <- (firstn_skipn i (g_globals G)), Hnames. cbn [map fst].
      assert (Hfl : length (firstn i (g_globals G)) = i).
      { apply firstn_length_le. assert (length (skipn i (g_globals G)) <> 0) by (rewrite Hnames; discriminate).
        rewrite skipn_length in *. lia. }
      rewrite nth_error_app2, Hfl, Nat.sub_diag by lia. reflexivity. }
    assert (Hi : i < VM_MAX_GLOBALS_N).
    { pose proof HG. assert (i < length (g_globals G)) by (apply nth_error_Some; rewrite Hni; discriminate). lia. }
    pose proof (code_at_app_l _ _ _ _ Hc) as Hce. apply code_at_app_r in Hc. cbn [app] in Hc. autorewrite with csz.
    eapply rpost_bind.
    { eapply (proj1 (Hsim fuel) e genv [] out [] p c p1 fn fe cf pos ret [] [] cs g); try eassumption.
      - unfold in_fn. auto.
      - apply match_env_nil.
      - eapply pool_le_trans; eassumption. }
    intros v o1 m _ [-> Hv]; cbv iota beta.
    vstep Hfe Hcode Hc step_store_global; [exact Hi|]. vnext Hc.
    rewrite Hl, Nat.ltb_irrefl. replace (S i - i) with 1 by lia. cbn [repeat].
    rewrite <- Hl at 1. rewrite set_nth_app_len.
    eapply Reach_weaken.
    { at_code Hc. eapply (IH (S i) p1 cr p2 _ (g ++ [mval_of v]) o1 _ E2 Hc); try assumption.
      - rewrite app_length. cbn [length]. lia.
      - eapply match_genv_extend; eassumption.
      - replace (S i) with (i + 1) by lia. rewrite skipn_add, Hnames. reflexivity. }
    intros m Hm'. eapply rpost_weaken; [|exact Hm'].
    intros genv' o' (g' & -> & Hg'). exists g'. split; [same_state|exact Hg'].
Qed.

End Prog.
