(* VM simulation: the mutual induction on the reference fuel that ties the per-construct lemmas together.
   Covers the whole core language: all expressions (incl. calls, strings, array literals / at / array_length), all statements (incl. while/for/break/
   continue/return), recursion through the function table. *)
From Coq Require Import ZArith NArith List Bool Lia.
From NV Require Import Base.Bytes Isa.Codec Isa.CodecProofs gen.IsaTable Lang.Ast Lang.Ref Back.VmCompile Back.VmExec Back.OpTable
  Back.VmSimFetch Back.VmSimStep Back.VmSimComp Back.VmSimWf Back.VmSimEnv Back.VmSimDefs Back.VmSimExpr Back.VmSimStmt
  Back.VmSimLoop Back.VmSimCall Back.VmSimRange Back.VmSimFor.
Import ListNotations.

Section All.
Variable fns : list fn.
Variable G : genv.
Variable M : vmodule.
Hypothesis HG : length (g_globals G) <= VM_MAX_GLOBALS_N.
Hypothesis Hfns : fns_compiled fns G M.

Theorem sim_all : forall fuel,
  (forall e, expr_sim fns G M fuel e) /\ (forall s, stmt_sim fns G M fuel s) /\ (forall x body, for_sim fns G M fuel x body).
Proof.
  induction fuel as [|fuel (IHe & IHs & IHf)].
  - split; [intros; apply expr_sim_0|]. split; [intros; apply stmt_sim_0|intros; apply for_sim_0].
  - split; [|split].
    + intros e. destruct e as [z|b|s|x|o a|o a b|f args|c a b|es|a i|a|so a|so a b|a b c].
      * apply sim_ENum; exact HG.
      * apply sim_EBool; exact HG.
      * apply sim_EStr; exact HG.
      * apply sim_EVar; exact HG.
      * apply sim_EUn; try exact HG. apply IHe.
      * destruct (is_sc o) eqn:Eo.
        -- destruct o; try discriminate Eo; [apply sim_EAnd|apply sim_EOr]; try exact HG; apply IHe.
        -- apply sim_EBin; try exact HG; [exact Eo| |]; apply IHe.
      * apply sim_ECall; try exact HG; try exact Hfns; [|exact IHs]. apply Forall_forall. intros a _. apply IHe.
      * apply sim_ECond; try exact HG; apply IHe.
      * apply sim_EArr; try exact HG. apply Forall_forall. intros a _. apply IHe.
      * apply sim_EAt; try exact HG; apply IHe.
      * apply sim_ELen; try exact HG. apply IHe.
      * apply sim_EStr1; try exact HG. apply IHe.
      * apply sim_EStr2; try exact HG; apply IHe.
      * apply sim_ESubstr; try exact HG; apply IHe.
    + intros s. destruct s as [ |s1 s2|m x t e|x e|c0 s1 s2|c0 body|x lo hi body| | |[e|]|nl e|e|e].
      * apply sim_SSkip; exact HG.
      * apply sim_SSeq; try exact HG; apply IHs.
      * apply sim_SLet; try exact HG. apply IHe.
      * apply sim_SSet; try exact HG. apply IHe.
      * apply sim_SIf; try exact HG; [apply IHe| |]; apply IHs.
      * apply sim_SWhile; try exact HG; [apply IHe| |]; apply IHs.
      * apply sim_SFor; try exact HG; [apply IHe|apply IHe|apply IHf].
      * apply sim_SBreak; exact HG.
      * apply sim_SContinue; exact HG.
      * apply sim_SReturn_some; try exact HG. apply IHe.
      * apply sim_SReturn_none; exact HG.
      * apply sim_SPrint; try exact HG. apply IHe.
      * apply sim_SAssert; try exact HG. apply IHe.
      * apply sim_SExpr; try exact HG. apply IHe.
    + intros x body. apply sim_for_step; try exact HG; [apply IHs|apply IHf].
Qed.

End All.
