(* Source-level model of the TREE-WALKING EVALUATOR that nanoc runs at compile time on every shadow block
   (src/eval.c: eval_expression, eval_statement, eval_prefix_op, eval_call, is_truthy, print_value; src/env.c:
   env_define_var, env_get_var, env_set_var), AS IT IS.  Each clause below was confirmed on the real `nanoc --verbose`
   before it was written down (tools/props/c03.py keeps replaying the probes):

   * ONE symbol stack for everything (Environment.symbols): globals at the bottom, then the locals of every active
     call and of the shadow block, newest last.  A name is resolved by scanning from the newest symbol down
     (env_get_var), so a callee sees its callers' locals (dynamic scoping).
   * eval_call pushes the parameters (first parameter first), runs the body, and truncates the stack to its old height.
   * AST_BLOCK is a scope (since fix 9481a65): it remembers the stack height on entry and restores it on every exit
     (normal end, return, break, continue).  Blocks are the bodies of if / else / while / for and the body of a shadow
     block; the statements of a function body are run one by one by eval_call, so function-level lets live until the
     call returns.
   * AST_FOR pushes the loop variable, remembers its INDEX, overwrites that slot at every iteration, and truncates the
     stack to that index at loop exit (normal end, break, return); its body is a block (popped after every iteration).
   * AST_SET overwrites the newest symbol of that name, mutable or not (env_set_var); nothing happens if there is none.
   * AST_ASSERT inside shadow tests: a false condition is COUNTED (g_shadow_current_fail_count) and execution goes on.
   * if / while / assert / and / or / not use is_truthy: bool b -> b, int z -> z <> 0, void -> false, string -> true.
   * operators on operands of the wrong type yield void (some with a message on stderr); == on different types is false,
     != true; division or modulo by zero prints a message and yields void; INT64_MIN / -1 traps (SIGFPE kills nanoc).
   * string literals keep their escape sequences verbatim (the lexer does not translate them, and the evaluator prints
     the token text).
   * array literal [e1, .., en] (AST_ARRAY_LITERAL): the elements are evaluated once each, left to right, and stored (the
     first one also decides the element type; since fix 38fa340 it is no longer evaluated a second time).  [] is an empty
     int array.  (at a i) = builtin_at: arguments left to right; an index outside 0 <= i < length prints
     "Runtime Error: Array index ... out of bounds" and calls exit(1): nanoc itself ends there (IOob); a non-int index
     or a non-array yields void.  (array_length a) of a non-array yields void.  Arrays are truthy; print_value writes
     [e1, e2, ...].
   * string builtins (src/eval.c, src/eval/eval_string.c, src/runtime/nl_string.c): an operand of the wrong type yields void
     (int_to_string of a non-int: "0"); (+ a b) on two strings is eval_prefix_op's concatenation; char_at outside
     0 <= i < length prints a message and yields void; str_substring yields void when start < 0, start > length, length < 0,
     or start = length with length > 0 (finding c03:builtin:str_substring:start-at-or-past-the-end-is-void-in-the-evaluator),
     otherwise nl_cstr_substring: the part from start, at most length bytes -- start + length is computed in int64, a sum
     that wraps makes the result empty (finding c03:builtin:str_substring:start-plus-length-overflows-in-the-evaluator).
     No 1 MiB scan limit here (the native runtime has one).
   * NOT modelled: the evaluator's memory management.  `set s s` on a string variable (also through cond) makes the real
     evaluator free the value it then stores and glibc aborts nanoc (finding c03:string-self-assign-crash); the model
     assigns the value like any other.  The C03/C06 streams do not generate the construct while the finding is open.
   * an unbound name evaluates to void (message on stderr).  In the real process symbols left behind by the type
     checker sit BELOW the globals with void values; they are the [base] parameter of the run functions.

   Known boundary (documented, never generated): when a call ends without executing `return e` the evaluator yields the
   value of the last statement executed; the model yields void (only a program that uses the value of a void call can
   tell).  Arity mismatches and break/continue escaping a function body are IUnmodelled.
   Tie: behavioural -- text printed between "Testing f... " and PASSED/FAILED, failure counts, exit status of real
   `nanoc --verbose` vs this model extracted to OCaml (tools/props/c03.py).  Definitions only. *)
From Coq Require Import ZArith NArith List Bool.
From NV Require Import Lang.Ast Lang.Ref.
Import ListNotations.
Local Open Scope Z_scope.

Definition istack := list (ident * (bool * value)).         (* newest symbol first; bool = is_mut *)

(* what the evaluator has done so far that can be observed: bytes written to stdout, truth value of every assertion
   executed (in order) *)
Record world := { w_stk : istack; w_out : list N; w_asr : list bool }.
Definition with_stk (w : world) (s : istack) : world := {| w_stk := s; w_out := w_out w; w_asr := w_asr w |}.
Definition with_out (w : world) (o : list N) : world := {| w_stk := w_stk w; w_out := o; w_asr := w_asr w |}.
Definition push (w : world) (x : ident) (m : bool) (v : value) : world := with_stk w ((x, (m, v)) :: w_stk w).

Inductive ires (A : Type) :=
  | IOk (a : A) (w : world)
  | ISigfpe                         (* INT64_MIN / -1 or % -1 inside nanoc: the compiler process is killed *)
  | IUnmodelled                     (* behaviour outside the model (see header) *)
  | INoFuel
  | IOob (w : world).               (* array index out of bounds inside the evaluator: "Runtime Error", exit(1) of nanoc *)
Arguments IOk {A}. Arguments ISigfpe {A}. Arguments IUnmodelled {A}. Arguments INoFuel {A}. Arguments IOob {A}.

Definition ibind {A B} (r : ires A) (k : A -> world -> ires B) : ires B :=
  match r with IOk a w => k a w | ISigfpe => ISigfpe | IUnmodelled => IUnmodelled | INoFuel => INoFuel | IOob w => IOob w end.

(* env_get_var: newest first *)
Fixpoint ilookup (x : ident) (s : istack) : option (bool * value) :=
  match s with [] => None | (y, b) :: r => if N.eqb x y then Some b else ilookup x r end.
(* env_set_var: overwrite the newest symbol called x whatever its mutability; no symbol: nothing happens *)
Fixpoint iassign (x : ident) (v : value) (s : istack) : istack :=
  match s with
  | [] => []
  | (y, (m, w)) :: r => if N.eqb x y then (y, (m, v)) :: r else (y, (m, w)) :: iassign x v r
  end.
(* env->symbol_count = n : keep the n oldest symbols *)
Definition truncate (n : nat) (s : istack) : istack := skipn (length s - n) s.
(* env->symbols[idx].value = v, idx counted from the oldest symbol *)
Fixpoint set_from_top (k : nat) (v : value) (s : istack) : istack :=
  match s, k with
  | [], _ => []
  | (y, (m, _)) :: r, O => (y, (m, v)) :: r
  | e :: r, S k' => e :: set_from_top k' v r
  end.
Definition set_index (idx : nat) (v : value) (s : istack) : istack :=
  if Nat.ltb idx (length s) then set_from_top (length s - 1 - idx) v s else s.

Definition truthy (v : value) : bool :=
  match v with VBool b => b | VInt z => negb (z =? 0) | VVoid => false | VStr _ => true | VArr _ => true end.

Definition i_unop (o : unop) (v : value) : value :=
  match o, v with
  | UNeg, VInt a => VInt (wrap64 (- a))
  | UNeg, _ => VVoid
  | UNot, _ => VBool (negb (truthy v))
  end.

Definition i_equal (a b : value) : bool :=
  match a, b with
  | VInt x, VInt y => Z.eqb x y
  | VBool x, VBool y => Bool.eqb x y
  | VStr x, VStr y => if list_eq_dec N.eq_dec x y then true else false
  | VVoid, VVoid => true
  | _, _ => false
  end.

Inductive ibin := BV (v : value) | BTrap.
Definition i_binop (o : binop) (a b : value) : ibin :=
  match o, a, b with
  | BAdd, VInt x, VInt y => BV (VInt (wrap64 (x + y)))
  | BSub, VInt x, VInt y => BV (VInt (wrap64 (x - y)))
  | BMul, VInt x, VInt y => BV (VInt (wrap64 (x * y)))
  | BDiv, VInt x, VInt y =>
      if y =? 0 then BV VVoid else if (x =? min64) && (y =? -1) then BTrap else BV (VInt (Z.quot x y))
  | BMod, VInt x, VInt y =>
      if y =? 0 then BV VVoid else if (x =? min64) && (y =? -1) then BTrap else BV (VInt (Z.rem x y))
  | BAdd, VStr x, VStr y => BV (VStr (x ++ y))
  | BEq, _, _ => BV (VBool (i_equal a b))
  | BNe, _, _ => BV (VBool (negb (i_equal a b)))
  | BLt, VInt x, VInt y => BV (VBool (x <? y))
  | BLe, VInt x, VInt y => BV (VBool (x <=? y))
  | BGt, VInt x, VInt y => BV (VBool (x >? y))
  | BGe, VInt x, VInt y => BV (VBool (x >=? y))
  | _, _, _ => BV VVoid          (* and/or never reach here (short-circuit below) *)
  end.
Definition of_ibin {A} (r : ibin) (w : world) (k : value -> world -> ires A) : ires A :=
  match r with BV v => k v w | BTrap => ISigfpe end.

(* builtin_at / builtin_array_length once the arguments have values *)
Definition i_at (va vi : value) (w : world) : ires value :=
  match vi with
  | VInt k =>
      match va with
      | VArr l => match arr_get l k with Some z => IOk (VInt z) w | None => IOob w end
      | _ => IOk VVoid w
      end
  | _ => IOk VVoid w                                              (* "at() requires an integer index" *)
  end.
Definition i_len (va : value) : value :=
  match va with VArr l => VInt (Z.of_nat (length l)) | _ => VVoid end.
(* the array an evaluated literal becomes *)
Definition i_arr (vs : list value) (w : world) : ires value :=
  match ints_of vs with Some l => IOk (VArr l) w | None => IUnmodelled end.

(* string builtins once the arguments have values *)
Definition i_str1 (o : sop1) (v : value) : value :=
  match o, v with
  | SLen, VStr s => VInt (Z.of_nat (length s))
  | SLen, _ => VVoid
  | SOfInt, VInt z => VStr (print_Z z)                  (* snprintf(buffer[32], "%lld") *)
  | SOfInt, _ => VStr [48%N]
  end.
Definition i_substring (s : list N) (st ln : Z) : value :=
  let n := Z.of_nat (length s) in
  if (st <? 0) || (n <? st) || (ln <? 0) then VVoid
  else if st =? n then (if ln =? 0 then VStr [] else VVoid)
  else if ln =? 0 then VStr []
  else (* nl_cstr_substring: if (start + len > slen) len = slen - start, the sum in int64 *)
    let ln' := if wrap64 (st + ln) >? n then n - st else ln in
    if ln' >? n then VStr [] else VStr (firstn (Z.to_nat ln') (skipn (Z.to_nat st) s)).
Definition i_str2 (o : sop2) (a b : value) : ibin :=
  match o, a, b with
  | SPlus, _, _ => i_binop BAdd a b
  | SConcat, VStr x, VStr y => BV (VStr (x ++ y))
  | SEquals, VStr x, VStr y => BV (VBool (if list_eq_dec N.eq_dec x y then true else false))
  | SContains, VStr x, VStr y => BV (VBool (containsb x y))
  | SCharAt, VStr x, VInt i => BV (match char_at_v x i with Some c => VInt c | None => VVoid end)
  | _, _, _ => BV VVoid
  end.
Definition i_substr (s st ln : value) : value :=
  match s, st, ln with
  | VStr x, VInt a, VInt b => i_substring x a b
  | _, _, _ => VVoid
  end.

(* call_function / eval_call: parameters are pushed first to last *)
Fixpoint push_params (ps : list (ident * ty)) (vs : list value) (s : istack) : option istack :=
  match ps, vs with
  | [], [] => Some s
  | (x, _) :: ps', v :: vs' => push_params ps' vs' ((x, (false, v)) :: s)
  | _, _ => None
  end.

(* arguments are evaluated first to last *)
Fixpoint iargs_with (ev : expr -> world -> ires value) (l : list expr) (w0 : world) : ires (list value) :=
  match l with
  | [] => IOk [] w0
  | a :: r => ibind (ev a w0) (fun v w1 => ibind (iargs_with ev r w1) (fun vs w2 => IOk (v :: vs) w2))
  end.

Section IRun.
Variable fns : list fn.

Fixpoint ieval (fuel : nat) (e : expr) (w : world) {struct fuel} : ires value :=
  match fuel with
  | O => INoFuel
  | S fuel' =>
    match e with
    | ENum z => IOk (VInt z) w
    | EBool b => IOk (VBool b) w
    | EStr s => IOk (VStr s) w                                   (* escapes NOT translated *)
    | EVar x => match ilookup x (w_stk w) with Some (_, v) => IOk v w | None => IOk VVoid w end
    | EUn o a => ibind (ieval fuel' a w) (fun v w1 => IOk (i_unop o v) w1)
    | EBin BAnd a b =>
        ibind (ieval fuel' a w) (fun va w1 =>
          if truthy va then ibind (ieval fuel' b w1) (fun vb w2 => IOk (VBool (truthy vb)) w2)
          else IOk (VBool false) w1)
    | EBin BOr a b =>
        ibind (ieval fuel' a w) (fun va w1 =>
          if truthy va then IOk (VBool true) w1
          else ibind (ieval fuel' b w1) (fun vb w2 => IOk (VBool (truthy vb)) w2))
    | EBin o a b =>
        ibind (ieval fuel' a w) (fun va w1 =>
        ibind (ieval fuel' b w1) (fun vb w2 =>
        of_ibin (i_binop o va vb) w2 (fun v w3 => IOk v w3)))
    | ECond c a b =>
        ibind (ieval fuel' c w) (fun vc w1 => if truthy vc then ieval fuel' a w1 else ieval fuel' b w1)
    | ECall f args =>
        ibind (iargs_with (ieval fuel') args w) (fun vs w1 =>
          match find_fn fns f with
          | None => IOk VVoid w1                                 (* "Undefined function": void *)
          | Some d =>
              match push_params (fparams d) vs (w_stk w1) with
              | None => IUnmodelled
              | Some s' =>
                  let h := length (w_stk w1) in
                  ibind (iexec fuel' (fbody d) (with_stk w1 s')) (fun c w2 =>
                    let w3 := with_stk w2 (truncate h (w_stk w2)) in
                    match c with
                    | CReturn v => IOk v w3
                    | CNormal => IOk VVoid w3
                    | _ => IUnmodelled end)
              end
          end)
    | EArr es => ibind (iargs_with (ieval fuel') es w) i_arr          (* every element once, left to right *)
    | EAt a i =>
        ibind (ieval fuel' a w) (fun va w1 => ibind (ieval fuel' i w1) (fun vi w2 => i_at va vi w2))
    | ELen a => ibind (ieval fuel' a w) (fun va w1 => IOk (i_len va) w1)
    | EStr1 o a => ibind (ieval fuel' a w) (fun v w1 => IOk (i_str1 o v) w1)
    | EStr2 o a b =>
        ibind (ieval fuel' a w) (fun va w1 =>
        ibind (ieval fuel' b w1) (fun vb w2 =>
        of_ibin (i_str2 o va vb) w2 (fun v w3 => IOk v w3)))
    | ESubstr a b c =>
        ibind (ieval fuel' a w) (fun va w1 =>
        ibind (ieval fuel' b w1) (fun vb w2 =>
        ibind (ieval fuel' c w2) (fun vc w3 => IOk (i_substr va vb vc) w3)))
    end
  end
with iexec (fuel : nat) (s : stmt) (w : world) {struct fuel} : ires ctl :=
  match fuel with
  | O => INoFuel
  | S fuel' =>
    match s with
    | SSkip => IOk CNormal w
    | SSeq s1 s2 =>
        ibind (iexec fuel' s1 w) (fun c w1 =>
          match c with CNormal => iexec fuel' s2 w1 | _ => IOk c w1 end)
    | SLet m x _ e => ibind (ieval fuel' e w) (fun v w1 => IOk CNormal (push w1 x m v))
    | SSet x e => ibind (ieval fuel' e w) (fun v w1 => IOk CNormal (with_stk w1 (iassign x v (w_stk w1))))
    | SIf c s1 s2 =>
        ibind (ieval fuel' c w) (fun vc w1 =>
          ibind (iexec fuel' (if truthy vc then s1 else s2) w1) (fun c1 w2 =>
            IOk c1 (with_stk w2 (truncate (length (w_stk w1)) (w_stk w2)))))          (* the branch is a block *)
    | SWhile c body =>
        ibind (ieval fuel' c w) (fun vc w1 =>
          if truthy vc then
            ibind (iexec fuel' body w1) (fun c1 w2 =>
              let w3 := with_stk w2 (truncate (length (w_stk w1)) (w_stk w2)) in      (* the body is a block *)
              match c1 with
              | CBreak => IOk CNormal w3
              | CReturn v => IOk (CReturn v) w3
              | _ => iexec fuel' (SWhile c body) w3
              end)
          else IOk CNormal w1)
    | SFor x lo hi body =>
        ibind (ieval fuel' lo w) (fun vlo w1 =>
        ibind (ieval fuel' hi w1) (fun vhi w2 =>
          match vlo, vhi with
          | VInt a, VInt b => ifor fuel' (length (w_stk w2)) a b body (push w2 x false (VInt a))
          | _, _ => IOk CNormal w2                                (* "range requires int arguments" *)
          end))
    | SBreak => IOk CBreak w
    | SContinue => IOk CContinue w
    | SReturn None => IOk (CReturn VVoid) w
    | SReturn (Some e) => ibind (ieval fuel' e w) (fun v w1 => IOk (CReturn v) w1)
    | SPrint nl e =>
        ibind (ieval fuel' e w) (fun v w1 =>
          IOk CNormal (with_out w1 (w_out w1 ++ print_value v ++ (if nl then [10%N] else []))))
    | SAssert e =>
        ibind (ieval fuel' e w) (fun v w1 =>
          IOk CNormal {| w_stk := w_stk w1; w_out := w_out w1; w_asr := w_asr w1 ++ [truthy v] |})
    | SExpr e => ibind (ieval fuel' e w) (fun _ w1 => IOk CNormal w1)
    end
  end
with ifor (fuel : nat) (idx : nat) (i hi : Z) (body : stmt) (w : world) {struct fuel} : ires ctl :=
  match fuel with
  | O => INoFuel
  | S fuel' =>
      if i <? hi then
        ibind (iexec fuel' body (with_stk w (set_index idx (VInt i) (w_stk w)))) (fun c w1 =>
          match c with
          | CBreak => IOk CNormal (with_stk w1 (truncate idx (w_stk w1)))
          | CReturn v => IOk (CReturn v) (with_stk w1 (truncate idx (w_stk w1)))
          | _ => ifor fuel' idx (i + 1) hi body (with_stk w1 (truncate (S idx) (w_stk w1)))   (* the body is a block *)
          end)
      else IOk CNormal (with_stk w (truncate idx (w_stk w)))
  end.

(* run_shadow_tests, first pass: top-level constants are evaluated in order and pushed *)
Fixpoint iglobals (fuel : nat) (gs : list (ident * ty * expr)) (w : world) : ires unit :=
  match gs with
  | [] => IOk tt w
  | (x, _, e) :: r => ibind (ieval fuel e w) (fun v w1 => iglobals fuel r (push w1 x false v))
  end.
End IRun.
