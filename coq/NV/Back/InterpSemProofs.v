(* interp_correct: under names_apart the compile-time evaluator (Back/InterpSem: ONE symbol stack shared by all active
   calls, names resolved newest-first = dynamic scoping, blocks pop their symbols (fix 9481a65), `set` ignores mutability,
   assertion failures counted) agrees with the reference semantics (Lang/Ref) on every shadow block on which the
   reference is defined.  Mutual induction on fuel, as in Back/Agree.v.  Invariant relating the single stack to Ref's
   per-activation environment:

     stack = en ++ outer ++ genv ++ base
       en    = Ref's environment of the current activation, entry for entry
       outer = the symbols of the callers (and, below them, of the shadow block that made the call)
     no name in en ++ outer is a global name (this is all that dynamic scoping forces: a free name of the callee is
     a top-level constant, and nothing above the constants on the stack is spelled like one).                      *)
From Coq Require Import ZArith NArith List Bool Lia.
From NV Require Import Lang.Ast Lang.Ref Back.InterpSem Back.InterpLemmas Driver.ShadowGate Back.NamesApart.
Import ListNotations.

Definition mkw (s : istack) (o : list N) (a : list bool) : world := {| w_stk := s; w_out := o; w_asr := a |}.
Definition alltrue (l : list bool) : Prop := forallb (fun b => b) l = true.
Lemma alltrue_nil : alltrue []. Proof. reflexivity. Qed.
Lemma alltrue_app a b : alltrue a -> alltrue b -> alltrue (a ++ b).
Proof. unfold alltrue. intros. rewrite forallb_app. rewrite H, H0. reflexivity. Qed.

Lemma mem_true_iff x l : mem x l = true <-> In x l.
Proof.
  unfold mem. rewrite existsb_exists. split.
  - intros [y [H E]]. apply N.eqb_eq in E. subst. exact H.
  - intros H. exists x. split; [exact H|apply N.eqb_refl].
Qed.
Lemma mem_false_iff x l : mem x l = false <-> ~ In x l.
Proof.
  rewrite <- mem_true_iff. destruct (mem x l); split; intros H.
  - discriminate. - exfalso. apply H. reflexivity. - intros Q. discriminate. - reflexivity.
Qed.
(* ---- operators *)
Lemma unop_agree o v v' : eval_unop o v = OV v' -> i_unop o v = v'.
Proof. destruct o, v; simpl; intros H; inversion H; reflexivity. Qed.

Lemma value_eqb_equal a b r : value_eqb a b = Some r -> i_equal a b = r.
Proof. destruct a, b; simpl; intros H; inversion H; reflexivity. Qed.

Lemma binop_agree o a b v : o <> BAnd -> o <> BOr -> eval_binop o a b = OV v -> i_binop o a b = BV v.
Proof.
  intros NA NO. destruct o; try contradiction.
  - destruct a, b; simpl; intros H; inversion H; reflexivity.
  - destruct a, b; simpl; intros H; inversion H; reflexivity.
  - destruct a, b; simpl; intros H; inversion H; reflexivity.
  - destruct a, b; simpl; try (intros H; discriminate). destruct (Z.eqb z0 0); [intros H; discriminate|].
    destruct (Z.eqb z min64 && Z.eqb z0 (-1))%bool; intros H; inversion H; reflexivity.
  - destruct a, b; simpl; try (intros H; discriminate). destruct (Z.eqb z0 0); [intros H; discriminate|].
    destruct (Z.eqb z min64 && Z.eqb z0 (-1))%bool; intros H; inversion H; reflexivity.
  - simpl. destruct (value_eqb a b) eqn:E; intros H; inversion H. rewrite (value_eqb_equal _ _ _ E). destruct a, b; reflexivity.
  - simpl. destruct (value_eqb a b) eqn:E; intros H; inversion H. rewrite (value_eqb_equal _ _ _ E). destruct a, b; reflexivity.
  - destruct a, b; simpl; intros H; inversion H; reflexivity.
  - destruct a, b; simpl; intros H; inversion H; reflexivity.
  - destruct a, b; simpl; intros H; inversion H; reflexivity.
  - destruct a, b; simpl; intros H; inversion H; reflexivity.
Qed.

(* ---- the shape of an agreement statement, and how it goes through a bind *)
Definition agree_with {A A'} (P : A -> list N -> A' -> world -> Prop) (r : res A) (i : ires A') : Prop :=
  match r with
  | Ok a out' => exists a' w', i = IOk a' w' /\ P a out' a' w'
  | Fault FAssert _ => forall a' w', i = IOk a' w' -> failed w' = true
  | _ => True
  end.

Lemma agree_bind {A A' B B'} (P : A -> list N -> A' -> world -> Prop) (P2 : B -> list N -> B' -> world -> Prop)
      (r : res A) (i : ires A') (k : A -> list N -> res B) (ki : A' -> world -> ires B') :
  agree_with P r i ->
  (forall a out' a' w', P a out' a' w' -> agree_with P2 (k a out') (ki a' w')) ->
  (forall a' w' b' w'', failed w' = true -> ki a' w' = IOk b' w'' -> failed w'' = true) ->
  agree_with P2 (bind r k) (ibind i ki).
Proof.
  intros H K M. destruct r as [a out'|f out'| |]; simpl in *; try exact I.
  - destruct H as [a' [w' [E Q]]]. subst i. simpl. apply K. exact Q.
  - destruct f; try exact I. intros b' w'' Hi. destruct i as [a' w'| | | |?]; simpl in Hi; try discriminate.
    eapply M; [|exact Hi]. eapply H. reflexivity.
Qed.

(* agreement of a stuck / undefined reference result is vacuous *)
Lemma agree_stuck {A A'} (P : A -> list N -> A' -> world -> Prop) i : agree_with P Stuck i.
Proof. exact I. Qed.

(* expression results: same value, same stack, reference output, assertion log extended by true entries only *)
Definition Pe {A} (S : istack) (asr : list bool) (v : A) (out' : list N) (v' : A) (w' : world) : Prop :=
  v' = v /\ exists l, alltrue l /\ w' = mkw S out' (asr ++ l).

Lemma Pe_ext {A} S asr l (v : A) out' v' w' : alltrue l -> Pe S (asr ++ l) v out' v' w' -> Pe S asr v out' v' w'.
Proof. intros Hl [E [l' [Hl' Hw]]]. split; [exact E|]. exists (l ++ l'). split; [apply alltrue_app; assumption|]. rewrite app_assoc. exact Hw. Qed.

Lemma agree_with_impl {A A'} (P P' : A -> list N -> A' -> world -> Prop) r i :
  (forall a out a' w, P a out a' w -> P' a out a' w) -> agree_with P r i -> agree_with P' r i.
Proof.
  intros K H. destruct r as [a out'|f out'| |]; simpl in *; auto.
  destruct H as [a' [w' [E Q]]]. exists a', w'. split; [exact E|]. apply K. exact Q.
Qed.

Lemma agree_Pe_ext {A} S asr l (r : res A) i : alltrue l -> agree_with (Pe S (asr ++ l)) r i -> agree_with (Pe S asr) r i.
Proof. intros Hl. apply agree_with_impl. intros. eapply Pe_ext; eassumption. Qed.

Lemma agree_ok_Pe {A} S asr l (v : A) out : alltrue l -> agree_with (Pe S asr) (Ok v out) (IOk v (mkw S out (asr ++ l))).
Proof. intros Hl. simpl. exists v, (mkw S out (asr ++ l)). split; [reflexivity|]. split; [reflexivity|]. exists l. auto. Qed.

Lemma agree_ok_Pe0 {A} S asr (v : A) out : agree_with (Pe S asr) (Ok v out) (IOk v (mkw S out asr)).
Proof. pose proof (@agree_ok_Pe A S asr [] v out alltrue_nil) as H. rewrite app_nil_r in H. exact H. Qed.

Lemma plain_call_forall f args : expr_plain (ECall f args) = true -> Forall (fun a => expr_plain a = true) args.
Proof.
  simpl. induction args as [|a r IH]; intros H; [constructor|].
  apply andb_true_iff in H. destruct H as [H1 H2]. constructor; [exact H1|apply IH; exact H2].
Qed.


Ltac ib H := match type of H with
  | ibind ?r _ = IOk _ _ => let v := fresh "v" in let w := fresh "w" in let E := fresh "E" in
      destruct r as [v w| | | |?] eqn:E; simpl in H; try discriminate
  end.
(* turn "the continuation only extends the assertion log" into the obligation of agree_bind *)
Ltac decomp H := repeat (first [ progress (cbv beta zeta in H) | ib H | match type of H with
      | of_ibin ?r _ _ = IOk _ _ => destruct r; simpl in H; try discriminate
      | (if ?c then _ else _) = IOk _ _ => destruct c
      | match ?x with _ => _ end = IOk _ _ => destruct x; try discriminate
      end ]).

Lemma str1_agree o v v' : eval_str1 o v = OV v' -> i_str1 o v = v'.
Proof. destruct o, v; simpl; intros H; inversion H; reflexivity. Qed.

Lemma str1_no_fault o v f : eval_str1 o v <> OF f.
Proof. destruct o, v; simpl; discriminate. Qed.

Lemma str2_agree o a b v : eval_str2 o a b = OV v -> i_str2 o a b = BV v.
Proof.
  destruct o, a, b; simpl; try discriminate; intros H.
  - unfold concat_v in H. destruct (Z.of_nat (length s + length s0) <=? str_max)%Z; inversion H; reflexivity.
  - unfold concat_v in H. destruct (Z.of_nat (length s + length s0) <=? str_max)%Z; inversion H; reflexivity.
  - inversion H; reflexivity.
  - inversion H; reflexivity.
  - destruct (char_at_v s z); inversion H; reflexivity.
Qed.

Lemma str2_no_assert o a b : eval_str2 o a b <> OF FAssert.
Proof.
  destruct o, a, b; simpl; try discriminate;
    try (match goal with |- context [concat_v ?x ?y] => destruct (concat_v x y) end; discriminate).
  destruct (char_at_v s z); discriminate.
Qed.

Lemma substring_agree s st ln :
  (0 <= st < Z.of_nat (length s))%Z -> (st < str_limit)%Z -> (0 <= ln < str_limit)%Z ->
  exists r, substr_v s st ln = Some r /\ i_substring s st ln = VStr r.
Proof.
  intros Hs Hs2 Hl. unfold substr_v, i_substring, str_limit in *. set (n := Z.of_nat (length s)) in *.
  replace ((0 <=? st)%Z && (st <? 4294967296)%Z && (0 <=? ln)%Z && (ln <? 4294967296)%Z) with true
    by (symmetry; repeat (apply andb_true_iff; split); first [apply Z.leb_le|apply Z.ltb_lt]; lia).
  eexists. split; [reflexivity|].
  replace ((st <? 0)%Z || (n <? st)%Z || (ln <? 0)%Z) with false
    by (symmetry; repeat (apply orb_false_iff; split); apply Z.ltb_ge; lia).
  destruct (Z.eqb_spec st n) as [E|_]; [lia|].
  rewrite (Z.min_l st n) by lia.
  destruct (Z.eqb_spec ln 0) as [E|NE]; [subst ln; rewrite (Z.min_l 0 n) by lia; reflexivity|].
  assert (W : wrap64 (st + ln) = (st + ln)%Z).
  { unfold wrap64. rewrite Z.mod_small by lia. lia. }
  rewrite W.
  assert (SK : length (skipn (Z.to_nat st) s) = Z.to_nat (n - st)).
  { rewrite skipn_length. unfold n. lia. }
  destruct (Z.gtb_spec (st + ln) n) as [G|G].
  - destruct (Z.gtb_spec (n - st) n) as [G2|_]; [lia|].
    rewrite !firstn_all2; [reflexivity|rewrite SK; lia|rewrite SK; lia].
  - destruct (Z.gtb_spec ln n) as [G2|_]; [lia|]. rewrite (Z.min_l ln n) by lia. reflexivity.
Qed.

Lemma binop_no_assert o a b : eval_binop o a b <> OF FAssert.
Proof.
  destruct o, a, b; simpl; try discriminate;
    try (destruct (Z.eqb z0 0); [discriminate|]; destruct (Z.eqb z min64 && Z.eqb z0 (-1))%bool; discriminate);
    try (match goal with |- context [list_eq_dec ?d ?x ?y] => destruct (list_eq_dec d x y) end; discriminate).
Qed.

Lemma fn_ok_parts gn d : fn_ok gn d = true ->
  (forall x, In x (map fst (fparams d)) -> ~ In x gn) /\ binders_ok gn (fbody d) = true /\ stmt_plain (fbody d) = true.
Proof.
  unfold fn_ok. intros H. repeat (apply andb_true_iff in H; destruct H as [H ?]).
  split; [|split; assumption].
  intros x Hx. rewrite forallb_forall in H. specialize (H x Hx). apply mem_false_iff. destruct (mem x gn); [discriminate|reflexivity].
Qed.

Lemma negb_mem_notin x gn : negb (mem x gn) = true -> ~ In x gn.
Proof. intros H. apply mem_false_iff. destruct (mem x gn); [discriminate|reflexivity]. Qed.

(* leaving the body of a for loop: the loop variable's slot and everything below it survive *)
Lemma leave_for_body (en en' : env) x v pre : shape en' = pre ++ shape ((x, (false, v)) :: en) ->
  exists a0 v' b, en' = a0 ++ (x, (false, v')) :: b /\ shape b = shape en /\ restore (length en) en' = b /\
    forall rest, truncate (length (en ++ rest)) (en' ++ rest) = b ++ rest /\
                 truncate (S (length (en ++ rest))) (en' ++ rest) = (x, (false, v')) :: b ++ rest.
Proof.
  intros H. destruct (shape_split _ _ _ H) as [a0 [b' [E [Ha Hb]]]].
  destruct b' as [|[x' [m' v']] b]; [discriminate|]. simpl in Hb. injection Hb as Hx Hm Hs. subst x' m'.
  exists a0, v', b. pose proof (shape_length _ _ Hs) as L. subst en'. repeat split; auto.
  - replace (a0 ++ (x, (false, v')) :: b) with ((a0 ++ [(x, (false, v'))]) ++ b) by (rewrite <- app_assoc; reflexivity).
    rewrite <- L. apply restore_app.
  - replace ((a0 ++ (x, (false, v')) :: b) ++ rest) with ((a0 ++ [(x, (false, v'))]) ++ b ++ rest) by (rewrite <- !app_assoc; reflexivity).
    replace (length (en ++ rest)) with (length (b ++ rest)) by (rewrite !app_length, L; reflexivity). apply truncate_app.
  - replace ((a0 ++ (x, (false, v')) :: b) ++ rest) with (a0 ++ ((x, (false, v')) :: b ++ rest)) by (rewrite <- !app_assoc; reflexivity).
    replace (S (length (en ++ rest))) with (length ((x, (false, v')) :: b ++ rest)) by (simpl; rewrite !app_length, L; reflexivity).
    apply truncate_app.
Qed.

Section Agree.
Variable fns : list fn.
Variable gn : list ident.
Hypothesis Hfns : forall d, In d fns -> fn_ok gn d = true.

Definition locals_ok (en : env) (outer : istack) : Prop := forall x, In x (names en ++ names outer) -> ~ In x gn.

Definition expr_agree (fuel : nat) : Prop :=
  forall genv base en outer e out asr,
    incl (names genv) gn -> locals_ok en outer -> expr_plain e = true ->
    agree_with (Pe (en ++ outer ++ genv ++ base) asr)
      (eval_expr fns fuel genv en e out) (ieval fns fuel e (mkw (en ++ outer ++ genv ++ base) out asr)).

(* statements: same control, the evaluator's stack is Ref's new environment on top of the untouched rest; Ref's new
   environment extends the old one's shape; its names still avoid the globals *)
Definition Ps (rest : istack) (asr : list bool) (en : env) (r : ctl * env) (out' : list N) (c' : ctl) (w' : world) : Prop :=
  c' = fst r /\ exists l, alltrue l /\ w' = mkw (snd r ++ rest) out' (asr ++ l) /\
    (exists pre, shape (snd r) = pre ++ shape en) /\ (forall x, In x (names (snd r)) -> ~ In x gn).

Definition stmt_agree (fuel : nat) : Prop :=
  forall genv base en outer s out asr,
    incl (names genv) gn -> locals_ok en outer -> binders_ok gn s = true -> stmt_plain s = true ->
    agree_with (Ps (outer ++ genv ++ base) asr en)
      (exec_stmt fns fuel genv en s out) (iexec fns fuel s (mkw (en ++ outer ++ genv ++ base) out asr)).

Definition Pf (rest : istack) (asr : list bool) (en : env) (r : ctl * env) (out' : list N) (c' : ctl) (w' : world) : Prop :=
  c' = fst r /\ exists l, alltrue l /\ w' = mkw (snd r ++ rest) out' (asr ++ l) /\ shape (snd r) = shape en.

Definition for_agree (fuel : nat) : Prop :=
  forall genv base x body en outer v i hi out asr,
    incl (names genv) gn -> ~ In x gn -> locals_ok en outer -> binders_ok gn body = true -> stmt_plain body = true ->
    agree_with (Pf (outer ++ genv ++ base) asr en)
      (exec_for fns fuel genv en x i hi body out)
      (ifor fns fuel (length (en ++ outer ++ genv ++ base)) i hi body (mkw (((x, (false, v)) :: en) ++ outer ++ genv ++ base) out asr)).

Lemma names_of_shape (a b : env) : shape a = shape b -> names a = names b.
Proof. intros H. rewrite !shape_names, H. reflexivity. Qed.

Lemma locals_ok_shape en en' outer : shape en' = shape en -> locals_ok en outer -> locals_ok en' outer.
Proof. intros H L x Hx. apply L. rewrite <- (names_of_shape _ _ H). exact Hx. Qed.

Lemma locals_ok_names en en' outer : (forall x, In x (names en') -> ~ In x gn) -> locals_ok en outer -> locals_ok en' outer.
Proof.
  intros H L x Hx. apply in_app_or in Hx. destruct Hx as [Hx|Hx]; [apply H; exact Hx|].
  apply L. apply in_or_app. right. exact Hx.
Qed.

Lemma agree_ok_Ps rest asr en c en' out' l :
  alltrue l -> (exists pre, shape en' = pre ++ shape en) -> (forall x, In x (names en') -> ~ In x gn) ->
  agree_with (Ps rest asr en) (Ok (c, en') out') (IOk c (mkw (en' ++ rest) out' (asr ++ l))).
Proof.
  intros Hl Hs Hn. simpl. exists c, (mkw (en' ++ rest) out' (asr ++ l)). split; [reflexivity|].
  split; [reflexivity|]. exists l. auto.
Qed.

Lemma Ps_ext_agree rest asr l en r i :
  alltrue l -> agree_with (Ps rest (asr ++ l) en) r i -> agree_with (Ps rest asr en) r i.
Proof.
  intros Hl. apply agree_with_impl. intros a out' a' w' [E [l' [Hl' [Hw Hr]]]]. split; [exact E|].
  exists (l ++ l'). split; [apply alltrue_app; assumption|]. split; [rewrite app_assoc; exact Hw|exact Hr].
Qed.

(* the statement ran from an environment en1 that itself extends en *)
Lemma Ps_chain_agree rest asr l en en1 pre1 r i :
  alltrue l -> shape en1 = pre1 ++ shape en ->
  agree_with (Ps rest (asr ++ l) en1) r i -> agree_with (Ps rest asr en) r i.
Proof.
  intros Hl Hs H. apply Ps_ext_agree with (l := l); [exact Hl|]. revert H. apply agree_with_impl.
  intros a out' a' w' [E [l' [Hl' [Hw [[pre Hp] Hn]]]]]. split; [exact E|]. exists l'. repeat split; auto.
  exists (pre ++ pre1). rewrite Hp, Hs, app_assoc. reflexivity.
Qed.

Lemma Pf_ext_agree rest asr l en r i :
  alltrue l -> agree_with (Pf rest (asr ++ l) en) r i -> agree_with (Pf rest asr en) r i.
Proof.
  intros Hl. apply agree_with_impl. intros a out' a' w' [E [l' [Hl' [Hw Hr]]]]. split; [exact E|].
  exists (l ++ l'). split; [apply alltrue_app; assumption|]. split; [rewrite app_assoc; exact Hw|exact Hr].
Qed.

Lemma agree_ok_Pf rest asr en c en' out' l :
  alltrue l -> shape en' = shape en ->
  agree_with (Pf rest asr en) (Ok (c, en') out') (IOk c (mkw (en' ++ rest) out' (asr ++ l))).
Proof.
  intros Hl H1. simpl. exists c, (mkw (en' ++ rest) out' (asr ++ l)). split; [reflexivity|].
  split; [reflexivity|]. exists l. auto.
Qed.

Lemma same_shape_pre (en : env) : exists pre : list (ident * bool), shape en = pre ++ shape en.
Proof. exists []. reflexivity. Qed.

Ltac mono_step :=
  match goal with
  | E : _ = IOk _ _ |- _ =>
      first [ apply ieval_mono in E | apply iexec_mono in E | apply ifor_mono in E | apply (iargs_mono _ (ieval_mono _ _)) in E ]
  end.
Ltac ext_solve :=
  repeat mono_step;
  repeat match goal with H : ext _ _ |- _ => let l := fresh "l" in destruct H as [l H] end;
  unfold ext, with_stk, with_out, push, mkw in *; simpl in *;
  repeat match goal with H : w_asr ?x = _ |- context [w_asr ?x] => rewrite H end;
  first [ exists []; rewrite app_nil_r; reflexivity | rewrite <- ?app_assoc; eexists; reflexivity ].
Ltac mono_tac :=
  let a := fresh "ma" in let w := fresh "mw" in let b := fresh "mb" in let w2 := fresh "mz" in
  let F := fresh "MF" in let K := fresh "MK" in
  intros a w b w2 F K; eapply ext_failed; [|exact F]; cbv beta zeta in K; decomp K;
  try (match type of K with IOk _ _ = IOk _ _ => inversion K; subst; clear K end); ext_solve.

Lemma all_agree : forall fuel, expr_agree fuel /\ stmt_agree fuel /\ for_agree fuel.
Proof.
  induction fuel as [|fuel [IHe [IHs IHf]]].
  - repeat split; red; intros; exact I.
  - unfold expr_agree in IHe. unfold stmt_agree in IHs. unfold for_agree in IHf. split; [|split].
    + (* ------------------------------------------------------------ expressions *)
      red. intros genv base en outer e out asr G LO PL.
      set (S := en ++ outer ++ genv ++ base) in *.
      destruct e; cbn [eval_expr ieval exec_stmt iexec exec_for ifor].
      * apply agree_ok_Pe0.
      * apply agree_ok_Pe0.
      * simpl in PL. destruct (list_eq_dec N.eq_dec (unescape s) s) as [Q|Q]; [|discriminate]. rewrite Q. apply agree_ok_Pe0.
      * cbn [w_stk mkw]. rewrite (ilookup_same x S). destruct (lookup x en) as [[m v]|] eqn:L.
        -- unfold S. rewrite lookup_app_l by (eapply lookup_some_in; exact L). rewrite L. apply agree_ok_Pe0.
        -- destruct (lookup x genv) as [[m v]|] eqn:L2; [|exact I].
           assert (Hg : In x gn) by (apply G; eapply lookup_some_in; exact L2).
           unfold S. rewrite lookup_app_r.
           2:{ intros Q. apply (LO x); [apply in_or_app; left; exact Q|exact Hg]. }
           rewrite lookup_app_r.
           2:{ intros Q. apply (LO x); [apply in_or_app; right; exact Q|exact Hg]. }
           rewrite lookup_app_l by (eapply lookup_some_in; exact L2). rewrite L2. apply agree_ok_Pe0.
      * simpl in PL. eapply agree_bind with (P := Pe S asr).
        -- eapply IHe; eassumption.
        -- intros v out' v' w' [-> [l [Hl ->]]]. destruct (eval_unop o v) eqn:U; simpl.
           ++ rewrite (unop_agree _ _ _ U). apply agree_ok_Pe. exact Hl.
           ++ destruct o, v; simpl in U; discriminate.
           ++ exact I.
        -- mono_tac.
      * (* binary operators *)
        simpl in PL. apply andb_true_iff in PL. destruct PL as [PL1 PL2].
        destruct o;
          try (eapply agree_bind with (P := Pe S asr);
               [ eapply IHe; eassumption
               | intros va out1 va' w1 [-> [l1 [Hl1 ->]]]; eapply agree_Pe_ext; [exact Hl1|];
                 eapply agree_bind with (P := Pe S (asr ++ l1));
                 [ eapply IHe; eassumption
                 | intros vb out2 vb' w2 [-> [l2 [Hl2 ->]]];
                   match goal with |- context [eval_binop ?op va vb] => destruct (eval_binop op va vb) as [r|f|] eqn:B end; cbn [of_opres];
                   [ erewrite binop_agree by (try discriminate; exact B); cbn [of_ibin]; apply agree_ok_Pe; exact Hl2
                   | destruct f; try exact I; exfalso; eapply binop_no_assert; exact B
                   | exact I ]
                 | mono_tac ]
               | mono_tac ]).
        -- (* and *)
           eapply agree_bind with (P := Pe S asr); [eapply IHe; eassumption| |mono_tac].
           intros va out1 va' w1 [-> [l1 [Hl1 ->]]]. destruct va as [z|[|]| |s0|l0]; try exact I; simpl.
           ++ eapply agree_Pe_ext; [exact Hl1|]. eapply agree_bind with (P := Pe S (asr ++ l1)); [eapply IHe; eassumption| |mono_tac].
              intros vb out2 vb' w2 [-> [l2 [Hl2 ->]]]. destruct vb as [z|b'| |s0|l0]; try exact I. simpl. apply agree_ok_Pe. exact Hl2.
           ++ apply agree_ok_Pe. exact Hl1.
        -- (* or *)
           eapply agree_bind with (P := Pe S asr); [eapply IHe; eassumption| |mono_tac].
           intros va out1 va' w1 [-> [l1 [Hl1 ->]]]. destruct va as [z|[|]| |s0|l0]; try exact I; simpl.
           ++ apply agree_ok_Pe. exact Hl1.
           ++ eapply agree_Pe_ext; [exact Hl1|]. eapply agree_bind with (P := Pe S (asr ++ l1)); [eapply IHe; eassumption| |mono_tac].
              intros vb out2 vb' w2 [-> [l2 [Hl2 ->]]]. destruct vb as [z|b'| |s0|l0]; try exact I. simpl. apply agree_ok_Pe. exact Hl2.
      * (* call *)
        pose proof (plain_call_forall _ _ PL) as PA.
        eapply agree_bind with (P := Pe S asr).
        -- clear PL. revert out asr PA. induction args as [|a r IHr]; intros out asr PA.
           ++ apply agree_ok_Pe0.
           ++ inversion PA; subst. cbn [iargs_with]. eapply agree_bind with (P := Pe S asr); [eapply IHe; eassumption| |mono_tac].
              intros v out1 v' w1 [-> [l1 [Hl1 ->]]]. eapply agree_Pe_ext; [exact Hl1|].
              eapply agree_bind with (P := Pe S (asr ++ l1)); [apply IHr; assumption| |mono_tac].
              intros vs out2 vs' w2 [-> [l2 [Hl2 ->]]]. apply agree_ok_Pe. exact Hl2.
        -- intros vs out1 vs' w1 [-> [l1 [Hl1 ->]]]. cbn [w_stk mkw].
           destruct (find_fn fns f) as [d|] eqn:F; [|exact I].
           destruct (bind_params (fparams d) vs) as [en'|] eqn:BP; [|exact I].
           rewrite (push_params_bind _ _ _ S BP).
           assert (Hd : In d fns). { unfold find_fn in F. apply find_some in F. tauto. }
           destruct (fn_ok_parts _ _ (Hfns d Hd)) as [NG [BK SP]].
           pose proof (bind_params_names _ _ _ BP) as NE.
           assert (LOc : locals_ok (rev en') (en ++ outer)).
           { intros x Hx. apply in_app_or in Hx. destruct Hx as [Hx|Hx].
             - apply NG. rewrite names_rev, <- in_rev, NE in Hx. exact Hx.
             - rewrite names_app in Hx. apply LO. exact Hx. }
           eapply agree_Pe_ext; [exact Hl1|].
           assert (ES : (en ++ outer) ++ genv ++ base = S) by (unfold S; rewrite <- app_assoc; reflexivity).
           cbn [with_stk w_stk w_out w_asr mkw].
           replace (rev en' ++ S) with (rev en' ++ (en ++ outer) ++ genv ++ base) by (rewrite ES; reflexivity).
           change (with_stk (mkw S out1 (asr ++ l1)) (rev en' ++ (en ++ outer) ++ genv ++ base))
             with (mkw (rev en' ++ (en ++ outer) ++ genv ++ base) out1 (asr ++ l1)).
           eapply agree_bind with (P := Ps ((en ++ outer) ++ genv ++ base) (asr ++ l1) (rev en')).
           ++ exact (IHs genv base (rev en') (en ++ outer) (fbody d) out1 (asr ++ l1) G LOc BK SP).
           ++ intros [c en2] out2 c' w2 [Hc [l2 [Hl2 [-> Hpost]]]]. simpl in Hc. subst c'. cbn [fst snd w_stk w_out w_asr mkw].
              rewrite ES. rewrite truncate_app.
              destruct c; try exact I.
              ** apply agree_ok_Pe. exact Hl2.
              ** apply agree_ok_Pe. exact Hl2.
           ++ mono_tac.
        -- mono_tac.
      * (* cond *)
        simpl in PL. apply andb_true_iff in PL. destruct PL as [PL PL3]. apply andb_true_iff in PL. destruct PL as [PL1 PL2].
        eapply agree_bind with (P := Pe S asr); [eapply IHe; eassumption| |mono_tac].
        intros vc out1 vc' w1 [-> [l1 [Hl1 ->]]]. destruct vc as [z|[|]| |s0|l0]; try exact I; simpl;
          (eapply agree_Pe_ext; [exact Hl1|]; eapply IHe; eassumption).
      * (* array literal: every element once, left to right, as in the reference *)
        assert (PA : Forall (fun a0 => expr_plain a0 = true) es).
        { simpl in PL. clear - PL. induction es as [|b r IH]; [constructor|].
          apply andb_true_iff in PL. destruct PL as [H1 H2]. constructor; [exact H1|apply IH; exact H2]. }
        assert (ARGS : forall l out asr, Forall (fun a0 => expr_plain a0 = true) l ->
                  agree_with (Pe S asr)
                    ((fix eval_elems (l : list expr) (out0 : list N) : res (list value) :=
                        match l with
                        | [] => Ok [] out0
                        | a :: r => bind (eval_expr fns fuel genv en a out0) (fun v out1 =>
                                    bind (eval_elems r out1) (fun vs out2 => Ok (v :: vs) out2))
                        end) l out)
                    (iargs_with (ieval fns fuel) l (mkw S out asr))).
        { induction l as [|a0 r0 IHr]; intros out0 asr0 PA0.
          - apply agree_ok_Pe0.
          - inversion PA0; subst. cbn [iargs_with]. eapply agree_bind with (P := Pe S asr0); [eapply IHe; eassumption| |mono_tac].
            intros v out1 v' w1 [-> [l1 [Hl1 ->]]]. eapply agree_Pe_ext; [exact Hl1|].
            eapply agree_bind with (P := Pe S (asr0 ++ l1)); [apply IHr; assumption| |mono_tac].
            intros vs out2 vs' w2 [-> [l2 [Hl2 ->]]]. apply agree_ok_Pe. exact Hl2. }
        eapply agree_bind with (P := Pe S asr); [exact (ARGS es out asr PA)| |].
        -- intros vs out1 vs' w1 [-> [l1 [Hl1 ->]]]. unfold i_arr. destruct (ints_of vs); [apply agree_ok_Pe; exact Hl1|exact I].
        -- intros a' w' b' w'' F K. unfold i_arr in K. destruct (ints_of a'); inversion K; subst; exact F.
      * (* at *)
        simpl in PL. apply andb_true_iff in PL. destruct PL as [PL1 PL2].
        eapply agree_bind with (P := Pe S asr); [eapply IHe; eassumption| |].
        -- intros va out1 va' w1 [-> [l1 [Hl1 ->]]]. eapply agree_Pe_ext; [exact Hl1|].
           eapply agree_bind with (P := Pe S (asr ++ l1)); [eapply IHe; eassumption| |].
           ++ intros vi out2 vi' w2 [-> [l2 [Hl2 ->]]].
              destruct va as [z|b| |s0|l0]; try exact I. destruct vi as [k|b| |s0|l0']; try exact I.
              unfold i_at. destruct (arr_get l0 k); [apply agree_ok_Pe; exact Hl2|exact I].
           ++ intros a' w' b' w'' F K. assert (w'' = w').
              { unfold i_at in K. destruct a'; try (inversion K; reflexivity). destruct va; try (inversion K; reflexivity).
                destruct (arr_get l z); inversion K; reflexivity. }
              subst w''. exact F.
        -- intros a' w' b' w'' F K. cbv beta in K. ib K. assert (w'' = w).
           { unfold i_at in K. destruct v; try (inversion K; reflexivity). destruct a'; try (inversion K; reflexivity).
             destruct (arr_get l z); inversion K; reflexivity. }
           subst w''. eapply ext_failed; [|exact F]. eapply ieval_mono; exact E.
      * (* array_length *)
        simpl in PL. eapply agree_bind with (P := Pe S asr); [eapply IHe; eassumption| |mono_tac].
        intros va out1 va' w1 [-> [l1 [Hl1 ->]]]. destruct va as [z|b| |s0|l0]; try exact I. cbn [i_len]. apply agree_ok_Pe. exact Hl1.
      * (* unary string builtin *)
        simpl in PL. eapply agree_bind with (P := Pe S asr); [eapply IHe; eassumption| |mono_tac].
        intros va out1 va' w1 [-> [l1 [Hl1 ->]]]. destruct (eval_str1 o va) as [r|f|] eqn:U; cbn [of_opres].
        -- rewrite (str1_agree _ _ _ U). apply agree_ok_Pe. exact Hl1.
        -- exfalso. eapply str1_no_fault; exact U.
        -- exact I.
      * (* binary string builtin *)
        simpl in PL. apply andb_true_iff in PL. destruct PL as [PL1 PL2].
        eapply agree_bind with (P := Pe S asr); [eapply IHe; eassumption| |mono_tac].
        intros va out1 va' w1 [-> [l1 [Hl1 ->]]]. eapply agree_Pe_ext; [exact Hl1|].
        eapply agree_bind with (P := Pe S (asr ++ l1)); [eapply IHe; eassumption| |mono_tac].
        intros vb out2 vb' w2 [-> [l2 [Hl2 ->]]].
        destruct (eval_str2 o va vb) as [r|f|] eqn:B; cbn [of_opres].
        -- rewrite (str2_agree _ _ _ _ B). cbn [of_ibin]. apply agree_ok_Pe. exact Hl2.
        -- destruct f; try exact I. exfalso. eapply str2_no_assert; exact B.
        -- exact I.
      * (* str_substring: a literal string, a literal start inside it, a literal length (clause (e) of names_apart) *)
        destruct e1; try discriminate PL. destruct e2; try discriminate PL. destruct e3; try discriminate PL.
        cbn [expr_plain] in PL. repeat (apply andb_true_iff in PL; destruct PL as [PL ?]).
        destruct (list_eq_dec N.eq_dec (unescape s) s) as [Q|Q]; [|discriminate].
        destruct fuel; [exact I|]. cbn [eval_expr ieval bind ibind]. rewrite Q. cbn [eval_substr i_substr].
        destruct (substring_agree s z z0) as [r [R1 R2]];
          [ split; [apply Z.leb_le|apply Z.ltb_lt]; assumption | apply Z.ltb_lt; assumption
          | split; [apply Z.leb_le|apply Z.ltb_lt]; assumption |].
        rewrite R1, R2. cbn [of_opres]. apply agree_ok_Pe0.
    + (* ------------------------------------------------------------ statements *)
      red. intros genv base en outer s out asr G LO BK SP.
      set (rest := outer ++ genv ++ base) in *.
      assert (LN : forall x, In x (names en) -> ~ In x gn) by (intros x Hx; apply LO; apply in_or_app; left; exact Hx).
      destruct s; cbn [exec_stmt iexec]; simpl in BK; simpl in SP.
      * (* skip *)
        pose proof (agree_ok_Ps rest asr en CNormal en out [] alltrue_nil (same_shape_pre en) LN) as H. rewrite app_nil_r in H. exact H.
      * (* seq *)
        apply andb_true_iff in BK. destruct BK as [BK1 BK2]. apply andb_true_iff in SP. destruct SP as [SP1 SP2].
        eapply agree_bind with (P := Ps rest asr en); [exact (IHs genv base en outer s1 out asr G LO BK1 SP1)| |mono_tac].
        intros [c en1] out1 c' w1 [Hc [l1 [Hl1 [-> [[pre1 Q1] Q2]]]]]. simpl in Hc. subst c'. cbn [fst snd] in *.
        destruct c.
        -- eapply Ps_chain_agree; [exact Hl1|exact Q1|].
           exact (IHs genv base en1 outer s2 out1 (asr ++ l1) G (locals_ok_names _ _ _ Q2 LO) BK2 SP2).
        -- apply agree_ok_Ps; eauto.
        -- apply agree_ok_Ps; eauto.
        -- apply agree_ok_Ps; eauto.
      * (* let *)
        apply negb_mem_notin in BK.
        eapply agree_bind with (P := Pe (en ++ rest) asr); [exact (IHe genv base en outer e out asr G LO SP)| |mono_tac].
        intros v out1 v' w1 [-> [l1 [Hl1 ->]]].
        apply (agree_ok_Ps rest asr en CNormal ((x, (mut, v)) :: en) out1 l1 Hl1).
        -- exists [(x, mut)]. reflexivity.
        -- intros y [Hy|Hy]; [subst; exact BK|apply LN; exact Hy].
      * (* set *)
        eapply agree_bind with (P := Pe (en ++ rest) asr); [exact (IHe genv base en outer e out asr G LO SP)| |mono_tac].
        intros v out1 v' w1 [-> [l1 [Hl1 ->]]]. destruct (assign x v en) as [en1|] eqn:AS; [|exact I].
        cbn [with_stk w_stk w_out w_asr mkw]. rewrite iassign_app_l by (eapply assign_some_in; exact AS).
        rewrite (iassign_assign _ _ _ _ AS).
        apply (agree_ok_Ps rest asr en CNormal en1 out1 l1 Hl1).
        -- exists []. simpl. apply assign_shape with (x := x) (v := v). exact AS.
        -- rewrite (assign_names _ _ _ _ AS). exact LN.
      * (* if *)
        apply andb_true_iff in BK. destruct BK as [BK1 BK2].
        apply andb_true_iff in SP. destruct SP as [SP SP2]. apply andb_true_iff in SP. destruct SP as [SP0 SP1].
        eapply agree_bind with (P := Pe (en ++ rest) asr); [exact (IHe genv base en outer c out asr G LO SP0)| |mono_tac].
        intros vc out1 vc' w1 [-> [l1 [Hl1 ->]]]. destruct vc as [z|b| |s0|l0]; try exact I. cbn [truthy w_stk mkw].
        eapply Ps_ext_agree; [exact Hl1|].
        assert (BR : binders_ok gn (if b then s1 else s2) = true) by (destruct b; assumption).
        assert (SR : stmt_plain (if b then s1 else s2) = true) by (destruct b; assumption).
        eapply agree_bind with (P := Ps rest (asr ++ l1) en);
          [exact (IHs genv base en outer (if b then s1 else s2) out1 (asr ++ l1) G LO BR SR)| |mono_tac].
        intros [c1 en1] out2 c1' w2 [Hc [l2 [Hl2 [-> [[pre1 Q1] Q2]]]]]. simpl in Hc. subst c1'. cbn [fst snd with_stk w_stk w_out w_asr mkw] in *.
        destruct (leave_block en en1 pre1 Q1) as [a [b0 [E [Ha [Hb [Hr Ht]]]]]].
        fold rest. rewrite Ht, Hr. apply agree_ok_Ps; [exact Hl2|exists []; exact Hb|].
        rewrite (names_of_shape _ _ Hb). exact LN.
      * (* while *)
        apply andb_true_iff in SP. destruct SP as [SP0 SP1].
        eapply agree_bind with (P := Pe (en ++ rest) asr); [exact (IHe genv base en outer c out asr G LO SP0)| |mono_tac].
        intros vc out1 vc' w1 [-> [l1 [Hl1 ->]]]. destruct vc as [z|b| |s0|l0]; try exact I. cbn [truthy w_stk mkw].
        destruct b.
        -- eapply Ps_ext_agree; [exact Hl1|].
           eapply agree_bind with (P := Ps rest (asr ++ l1) en); [exact (IHs genv base en outer s out1 (asr ++ l1) G LO BK SP1)| |mono_tac].
           intros [c1 en1] out2 c1' w2 [Hc [l2 [Hl2 [-> [[pre1 Q1] Q2]]]]]. simpl in Hc. subst c1'. cbn [fst snd with_stk w_stk w_out w_asr mkw] in *.
           destruct (leave_block en en1 pre1 Q1) as [a [b0 [E [Ha [Hb [Hr Ht]]]]]].
           cbv zeta. fold rest. rewrite Ht, Hr.
           assert (LB : forall x, In x (names b0) -> ~ In x gn) by (rewrite (names_of_shape _ _ Hb); exact LN).
           assert (REC : agree_with (Ps rest (asr ++ l1) en)
                     (exec_stmt fns fuel genv b0 (SWhile c s) out2)
                     (iexec fns fuel (SWhile c s) (mkw (b0 ++ rest) out2 ((asr ++ l1) ++ l2)))).
           { eapply Ps_chain_agree with (pre1 := []); [exact Hl2|exact Hb|].
             refine (IHs genv base b0 outer (SWhile c s) out2 ((asr ++ l1) ++ l2) G (locals_ok_shape _ _ _ Hb LO) _ _).
             - simpl. exact BK.
             - simpl. rewrite SP0, SP1. reflexivity. }
           destruct c1.
           ++ exact REC.
           ++ apply agree_ok_Ps; [exact Hl2|exists []; exact Hb|exact LB].
           ++ exact REC.
           ++ apply agree_ok_Ps; [exact Hl2|exists []; exact Hb|exact LB].
        -- apply agree_ok_Ps; [exact Hl1|apply same_shape_pre|exact LN].
      * (* for *)
        apply andb_true_iff in BK. destruct BK as [BX BK]. apply negb_mem_notin in BX.
        apply andb_true_iff in SP. destruct SP as [SP SP2]. apply andb_true_iff in SP. destruct SP as [SP0 SP1].
        eapply agree_bind with (P := Pe (en ++ rest) asr); [exact (IHe genv base en outer lo out asr G LO SP0)| |mono_tac].
        intros vlo out1 vlo' w1 [-> [l1 [Hl1 ->]]]. eapply Ps_ext_agree; [exact Hl1|].
        eapply agree_bind with (P := Pe (en ++ rest) (asr ++ l1)); [exact (IHe genv base en outer hi out1 (asr ++ l1) G LO SP1)| |mono_tac].
        intros vhi out2 vhi' w2 [-> [l2 [Hl2 ->]]]. eapply Ps_ext_agree; [exact Hl2|].
        destruct vlo as [a| | | |]; try exact I. destruct vhi as [b| | | |]; try exact I.
        eapply agree_with_impl; [|exact (IHf genv base x s en outer (VInt a) a b out2 ((asr ++ l1) ++ l2) G BX LO BK SP2)].
        intros r out' c' w' [Hc [l3 [Hl3 [Hw Hs]]]]. split; [exact Hc|]. exists l3. repeat split; auto.
        -- exists []. exact Hs.
        -- rewrite (names_of_shape _ _ Hs). exact LN.
      * (* break *)
        pose proof (agree_ok_Ps rest asr en CBreak en out [] alltrue_nil (same_shape_pre en) LN) as H. rewrite app_nil_r in H. exact H.
      * (* continue *)
        pose proof (agree_ok_Ps rest asr en CContinue en out [] alltrue_nil (same_shape_pre en) LN) as H. rewrite app_nil_r in H. exact H.
      * (* return *) destruct e as [e|].
        -- eapply agree_bind with (P := Pe (en ++ rest) asr); [exact (IHe genv base en outer e out asr G LO SP)| |mono_tac].
           intros v out1 v' w1 [-> [l1 [Hl1 ->]]]. apply agree_ok_Ps; [exact Hl1|apply same_shape_pre|exact LN].
        -- pose proof (agree_ok_Ps rest asr en (CReturn VVoid) en out [] alltrue_nil (same_shape_pre en) LN) as H. rewrite app_nil_r in H. exact H.
      * (* print *)
        eapply agree_bind with (P := Pe (en ++ rest) asr); [exact (IHe genv base en outer e out asr G LO SP)| |mono_tac].
        intros v out1 v' w1 [-> [l1 [Hl1 ->]]]. cbn [with_out w_stk w_out w_asr mkw].
        apply (agree_ok_Ps rest asr en CNormal en _ l1 Hl1); [apply same_shape_pre|exact LN].
      * (* assert *)
        eapply agree_bind with (P := Pe (en ++ rest) asr); [exact (IHe genv base en outer e out asr G LO SP)| |mono_tac].
        intros v out1 v' w1 [-> [l1 [Hl1 ->]]]. destruct v as [z|[|]| |s0|l0]; try exact I; cbn [truthy w_stk w_out w_asr mkw].
        -- rewrite <- app_assoc. apply (agree_ok_Ps rest asr en CNormal en out1 (l1 ++ [true])).
           ++ apply alltrue_app; [exact Hl1|reflexivity].
           ++ apply same_shape_pre.
           ++ exact LN.
        -- simpl. intros a' w' H. inversion H; subst. unfold failed. simpl. rewrite existsb_app. simpl. apply orb_true_r.
      * (* expression statement *)
        eapply agree_bind with (P := Pe (en ++ rest) asr); [exact (IHe genv base en outer e out asr G LO SP)| |mono_tac].
        intros v out1 v' w1 [-> [l1 [Hl1 ->]]]. apply agree_ok_Ps; [exact Hl1|apply same_shape_pre|exact LN].
    + (* ------------------------------------------------------------ for loops *)
      red. intros genv base x body en outer v i hi out asr G NXG LO BK SP.
      set (rest := outer ++ genv ++ base) in *.
      cbn [exec_for ifor]. destruct (Z.ltb i hi) eqn:LT.
      * cbn [with_stk w_stk w_out w_asr mkw]. fold rest.
        replace (((x, (false, v)) :: en) ++ rest) with ([] ++ (x, (false, v)) :: (en ++ rest)) by reflexivity.
        rewrite set_index_app. cbn [app].
        assert (LOb : locals_ok ((x, (false, VInt i)) :: en) outer).
        { intros y Hy. simpl in Hy. destruct Hy as [Hy|Hy]; [subst; exact NXG|apply LO; exact Hy]. }
        eapply agree_bind with (P := Ps rest asr ((x, (false, VInt i)) :: en));
          [exact (IHs genv base ((x, (false, VInt i)) :: en) outer body out asr G LOb BK SP)| |mono_tac].
        intros [c1 en1] out1 c1' w1 [Hc [l1 [Hl1 [-> [[pre1 Q1] Q2]]]]]. simpl in Hc. subst c1'. cbn [fst snd with_stk w_stk w_out w_asr mkw] in *.
        destruct (leave_for_body en en1 x (VInt i) pre1 Q1) as [a0 [v' [b0 [E [Hb [Hr Ht]]]]]].
        destruct (Ht rest) as [T0 T1]. fold rest. rewrite Hr.
        assert (REC : agree_with (Pf rest asr en)
                   (exec_for fns fuel genv b0 x (i + 1) hi body out1)
                   (ifor fns fuel (length (en ++ rest)) (i + 1) hi body (mkw (((x, (false, v')) :: b0) ++ rest) out1 (asr ++ l1)))).
        { eapply Pf_ext_agree; [exact Hl1|].
          replace (length (en ++ rest)) with (length (b0 ++ rest)) by (rewrite !app_length, (shape_length _ _ Hb); reflexivity).
          eapply agree_with_impl; [|exact (IHf genv base x body b0 outer v' (i + 1)%Z hi out1 (asr ++ l1) G NXG (locals_ok_shape _ _ _ Hb LO) BK SP)].
          intros r out' c' w' [Hc [l3 [Hl3 [Hw Hs]]]]. split; [exact Hc|]. exists l3. repeat split; auto. rewrite Hs. exact Hb. }
        destruct c1.
        -- rewrite T1. exact REC.
        -- rewrite T0. apply agree_ok_Pf; auto.
        -- rewrite T1. exact REC.
        -- rewrite T0. apply agree_ok_Pf; auto.
      * cbn [with_stk w_stk w_out w_asr mkw]. fold rest.
        replace (((x, (false, v)) :: en) ++ rest) with ([(x, (false, v))] ++ en ++ rest) by reflexivity.
        rewrite truncate_app.
        pose proof (agree_ok_Pf rest asr en CNormal en out [] alltrue_nil eq_refl) as H. rewrite app_nil_r in H. exact H.
Qed.
End Agree.
