(* interp_correct: under names_apart the compile-time evaluator (Back/InterpSem: one symbol stack, dynamic lookup,
   nothing popped at block exit, assertion failures counted) agrees with the reference semantics (Lang/Ref) on every
   shadow block on which the reference is defined.  Mutual induction on fuel, as in Back/Agree.v, with the invariant
   that relates the single stack to Ref's per-activation environment:

     stack = own ++ outer ++ genv ++ base
       own   = symbols pushed by the current activation (live ones AND leftovers of finished blocks)
       outer = symbols of the callers / of earlier shadow blocks
     names en = bound (the names the static check has in scope), NoDup bound,
     every name in bound has the same value in own (newest first) and in en,
     no name in own ++ outer is a global name.                                                        *)
From Coq Require Import ZArith NArith List Bool Lia.
From NV Require Import Lang.Ast Lang.Ref Back.InterpSem Back.InterpLemmas Driver.ShadowGate Back.NamesApart.
Import ListNotations.

Definition mkw (s : istack) (o : list N) (a : list bool) : world := {| w_stk := s; w_out := o; w_asr := a |}.
Definition alltrue (l : list bool) : Prop := forallb (fun b => b) l = true.
Lemma alltrue_nil : alltrue []. Proof. reflexivity. Qed.
Lemma alltrue_app a b : alltrue a -> alltrue b -> alltrue (a ++ b).
Proof. unfold alltrue. intros. rewrite forallb_app. rewrite H, H0. reflexivity. Qed.

Lemma mem_true_iff x l : mem x l = true <-> In x l.
Proof.
  unfold mem. rewrite existsb_exists. split.
  - intros [y [H E]]. apply N.eqb_eq in E. subst. exact H.
  - intros H. exists x. split; [exact H|apply N.eqb_refl].
Qed.
Lemma mem_false_iff x l : mem x l = false <-> ~ In x l.
Proof.
  rewrite <- mem_true_iff. destruct (mem x l); split; intros H.
  - discriminate. - exfalso. apply H. reflexivity. - intros Q. discriminate. - reflexivity.
Qed.
Lemma nodupb_NoDup l : nodupb l = true -> NoDup l.
Proof.
  induction l as [|x r IH]; simpl; intros H; [constructor|].
  apply andb_true_iff in H. destruct H as [H1 H2]. constructor; [|apply IH; exact H2].
  apply mem_false_iff. destruct (mem x r); [discriminate|reflexivity].
Qed.

(* ---- operators *)
Lemma unop_agree o v v' : eval_unop o v = OV v' -> i_unop o v = v'.
Proof. destruct o, v; simpl; intros H; inversion H; reflexivity. Qed.

Lemma value_eqb_equal a b r : value_eqb a b = Some r -> i_equal a b = r.
Proof. destruct a, b; simpl; intros H; inversion H; reflexivity. Qed.

Lemma binop_agree o a b v : o <> BAnd -> o <> BOr -> eval_binop o a b = OV v -> i_binop o a b = BV v.
Proof.
  intros NA NO. destruct o; try contradiction.
  - destruct a, b; simpl; intros H; inversion H; reflexivity.
  - destruct a, b; simpl; intros H; inversion H; reflexivity.
  - destruct a, b; simpl; intros H; inversion H; reflexivity.
  - destruct a, b; simpl; try (intros H; discriminate). destruct (Z.eqb z0 0); [intros H; discriminate|].
    destruct (Z.eqb z min64 && Z.eqb z0 (-1))%bool; intros H; inversion H; reflexivity.
  - destruct a, b; simpl; try (intros H; discriminate). destruct (Z.eqb z0 0); [intros H; discriminate|].
    destruct (Z.eqb z min64 && Z.eqb z0 (-1))%bool; intros H; inversion H; reflexivity.
  - simpl. destruct (value_eqb a b) eqn:E; intros H; inversion H. rewrite (value_eqb_equal _ _ _ E). destruct a, b; reflexivity.
  - simpl. destruct (value_eqb a b) eqn:E; intros H; inversion H. rewrite (value_eqb_equal _ _ _ E). destruct a, b; reflexivity.
  - destruct a, b; simpl; intros H; inversion H; reflexivity.
  - destruct a, b; simpl; intros H; inversion H; reflexivity.
  - destruct a, b; simpl; intros H; inversion H; reflexivity.
  - destruct a, b; simpl; intros H; inversion H; reflexivity.
Qed.

(* ---- the shape of an agreement statement, and how it goes through a bind *)
Definition agree_with {A A'} (P : A -> list N -> A' -> world -> Prop) (r : res A) (i : ires A') : Prop :=
  match r with
  | Ok a out' => exists a' w', i = IOk a' w' /\ P a out' a' w'
  | Fault FAssert _ => forall a' w', i = IOk a' w' -> failed w' = true
  | _ => True
  end.

Lemma agree_bind {A A' B B'} (P : A -> list N -> A' -> world -> Prop) (P2 : B -> list N -> B' -> world -> Prop)
      (r : res A) (i : ires A') (k : A -> list N -> res B) (ki : A' -> world -> ires B') :
  agree_with P r i ->
  (forall a out' a' w', P a out' a' w' -> agree_with P2 (k a out') (ki a' w')) ->
  (forall a' w' b' w'', failed w' = true -> ki a' w' = IOk b' w'' -> failed w'' = true) ->
  agree_with P2 (bind r k) (ibind i ki).
Proof.
  intros H K M. destruct r as [a out'|f out'| |]; simpl in *; try exact I.
  - destruct H as [a' [w' [E Q]]]. subst i. simpl. apply K. exact Q.
  - destruct f; try exact I. intros b' w'' Hi. destruct i as [a' w'| | |]; simpl in Hi; try discriminate.
    eapply M; [|exact Hi]. eapply H. reflexivity.
Qed.

(* agreement of a stuck / undefined reference result is vacuous *)
Lemma agree_stuck {A A'} (P : A -> list N -> A' -> world -> Prop) i : agree_with P Stuck i.
Proof. exact I. Qed.

(* expression results: same value, same stack, reference output, assertion log extended by true entries only *)
Definition Pe {A} (S : istack) (asr : list bool) (v : A) (out' : list N) (v' : A) (w' : world) : Prop :=
  v' = v /\ exists l, alltrue l /\ w' = mkw S out' (asr ++ l).

Lemma Pe_ext {A} S asr l (v : A) out' v' w' : alltrue l -> Pe S (asr ++ l) v out' v' w' -> Pe S asr v out' v' w'.
Proof. intros Hl [E [l' [Hl' Hw]]]. split; [exact E|]. exists (l ++ l'). split; [apply alltrue_app; assumption|]. rewrite app_assoc. exact Hw. Qed.

Lemma agree_with_impl {A A'} (P P' : A -> list N -> A' -> world -> Prop) r i :
  (forall a out a' w, P a out a' w -> P' a out a' w) -> agree_with P r i -> agree_with P' r i.
Proof.
  intros K H. destruct r as [a out'|f out'| |]; simpl in *; auto.
  destruct H as [a' [w' [E Q]]]. exists a', w'. split; [exact E|]. apply K. exact Q.
Qed.

Lemma agree_Pe_ext {A} S asr l (r : res A) i : alltrue l -> agree_with (Pe S (asr ++ l)) r i -> agree_with (Pe S asr) r i.
Proof. intros Hl. apply agree_with_impl. intros. eapply Pe_ext; eassumption. Qed.

Lemma agree_ok_Pe {A} S asr l (v : A) out : alltrue l -> agree_with (Pe S asr) (Ok v out) (IOk v (mkw S out (asr ++ l))).
Proof. intros Hl. simpl. exists v, (mkw S out (asr ++ l)). split; [reflexivity|]. split; [reflexivity|]. exists l. auto. Qed.

Lemma agree_ok_Pe0 {A} S asr (v : A) out : agree_with (Pe S asr) (Ok v out) (IOk v (mkw S out asr)).
Proof. pose proof (@agree_ok_Pe A S asr [] v out alltrue_nil) as H. rewrite app_nil_r in H. exact H. Qed.

Lemma plain_call_forall f args : expr_plain (ECall f args) = true -> Forall (fun a => expr_plain a = true) args.
Proof.
  simpl. induction args as [|a r IH]; intros H; [constructor|].
  apply andb_true_iff in H. destruct H as [H1 H2]. constructor; [exact H1|apply IH; exact H2].
Qed.


Ltac ib H := match type of H with
  | ibind ?r _ = IOk _ _ => let v := fresh "v" in let w := fresh "w" in let E := fresh "E" in
      destruct r as [v w| | |] eqn:E; simpl in H; try discriminate
  end.
(* turn "the continuation only extends the assertion log" into the obligation of agree_bind *)
Ltac decomp H := repeat (first [ progress (cbv beta zeta in H) | ib H | match type of H with
      | of_ibin ?r _ _ = IOk _ _ => destruct r; simpl in H; try discriminate
      | (if ?c then _ else _) = IOk _ _ => destruct c
      | match ?x with _ => _ end = IOk _ _ => destruct x; try discriminate
      end ]).

Lemma binop_no_assert o a b : eval_binop o a b <> OF FAssert.
Proof.
  destruct o, a, b; simpl; try discriminate;
    try (destruct (Z.eqb z0 0); [discriminate|]; destruct (Z.eqb z min64 && Z.eqb z0 (-1))%bool; discriminate);
    try (match goal with |- context [list_eq_dec ?d ?x ?y] => destruct (list_eq_dec d x y) end; discriminate).
Qed.

Lemma fn_ok_parts gn d : fn_ok gn d = true ->
  NoDup (map fst (fparams d)) /\ (forall x, In x (map fst (fparams d)) -> ~ In x gn) /\
  (exists b, chk gn (rev (map fst (fparams d))) (fbody d) = Some b) /\ stmt_plain (fbody d) = true.
Proof.
  unfold fn_ok. intros H. repeat (apply andb_true_iff in H; destruct H as [H ?]).
  split; [apply nodupb_NoDup; exact H|]. split.
  - intros x Hx. rewrite forallb_forall in H2. specialize (H2 x Hx). apply mem_false_iff. destruct (mem x gn); [discriminate|reflexivity].
  - split; [|assumption]. destruct (chk gn (rev (map fst (fparams d))) (fbody d)); [eexists; reflexivity|discriminate].
Qed.

(* ---- the for loop's slot and the truncation at loop exit *)
Lemma names_decomp (J : istack) AJ x N0 : names J = AJ ++ x :: N0 ->
  exists P m w R0, J = P ++ (x, (m, w)) :: R0 /\ names P = AJ /\ names R0 = N0.
Proof.
  intros H. destruct (names_split _ _ _ H) as [P [R [E [HP HR]]]].
  destruct R as [|[x' [m w]] R0]; [discriminate|]. simpl in HR. inversion HR; subst.
  exists P, m, w, R0. auto.
Qed.

Lemma for_slot (J : istack) AJ x own0 rest v : names J = AJ ++ x :: names own0 -> ~ In x AJ ->
  exists J1, set_index (length (own0 ++ rest)) v (J ++ rest) = J1 ++ rest /\ names J1 = names J /\
             vlook x J1 = Some v /\ (forall y, y <> x -> vlook y J1 = vlook y J).
Proof.
  intros H Hx. destruct (names_decomp _ _ _ _ H) as [P [m [w [R0 [E [HP HR]]]]]]. subst J.
  exists (P ++ (x, (m, v)) :: R0). split; [|split; [|split]].
  - rewrite <- !app_assoc. simpl. replace (length (own0 ++ rest)) with (length (R0 ++ rest)).
    + apply set_index_app.
    + rewrite !app_length. rewrite (names_length _ _ HR). reflexivity.
  - rewrite !names_app. reflexivity.
  - rewrite vlook_app_r by (rewrite HP; exact Hx). apply vlook_cons_eq.
  - intros y Hy. destruct (in_dec N.eq_dec y (names P)) as [I|I].
    + rewrite !vlook_app_l by exact I. reflexivity.
    + rewrite !vlook_app_r by exact I. rewrite !vlook_cons_ne by exact Hy. reflexivity.
Qed.

Lemma for_exit (J : istack) AJ x own0 rest (bound : list ident) : names J = AJ ++ x :: names own0 ->
  (forall y, In y bound -> ~ In y AJ /\ y <> x) ->
  exists R0, truncate (length (own0 ++ rest)) (J ++ rest) = R0 ++ rest /\ names R0 = names own0 /\
             (forall y, In y bound -> vlook y R0 = vlook y J).
Proof.
  intros H Hb. destruct (names_decomp _ _ _ _ H) as [P [m [w [R0 [E [HP HR]]]]]]. subst J.
  exists R0. split; [|split].
  - replace ((P ++ (x, (m, w)) :: R0) ++ rest) with ((P ++ [(x, (m, w))]) ++ R0 ++ rest) by (rewrite <- !app_assoc; reflexivity).
    replace (length (own0 ++ rest)) with (length (R0 ++ rest)) by (rewrite !app_length, (names_length _ _ HR); reflexivity).
    apply truncate_app.
  - exact HR.
  - intros y Hy. destruct (Hb y Hy) as [H1 H2]. rewrite vlook_app_r by (rewrite HP; exact H1).
    rewrite vlook_cons_ne by exact H2. reflexivity.
Qed.

Section Agree.
Variable fns : list fn.
Variable gn : list ident.
Hypothesis Hfns : forall d, In d fns -> fn_ok gn d = true.

Record inv (bound : list ident) (own outer : istack) (en : env) : Prop := {
  inv_names : names en = bound;
  inv_nodup : NoDup bound;
  inv_look : forall x, In x bound -> vlook x own = vlook x en;
  inv_gn : forall x, In x (names own ++ names outer) -> ~ In x gn }.

Definition expr_agree (fuel : nat) : Prop :=
  forall genv base bound own outer en e out asr,
    incl (names genv) gn -> inv bound own outer en -> expr_plain e = true ->
    agree_with (Pe (own ++ outer ++ genv ++ base) asr)
      (eval_expr fns fuel genv en e out) (ieval fns fuel e (mkw (own ++ outer ++ genv ++ base) out asr)).

(* what a statement leaves behind *)
Definition post (bound bound' : list ident) (own own' : istack) (en' : env) (c : ctl) : Prop :=
  exists pre A,
    names en' = pre ++ bound /\ NoDup (pre ++ bound) /\ (c = CNormal -> pre ++ bound = bound') /\
    names own' = A ++ names own /\
    (forall x, In x A -> ~ In x bound /\ ~ In x gn) /\
    (forall x, In x (pre ++ bound) -> vlook x own' = vlook x en').

Definition Ps (rest : istack) (asr : list bool) (bound bound' : list ident) (own : istack)
           (r : ctl * env) (out' : list N) (c' : ctl) (w' : world) : Prop :=
  c' = fst r /\ exists own' l, alltrue l /\ w' = mkw (own' ++ rest) out' (asr ++ l) /\ post bound bound' own own' (snd r) (fst r).

Definition stmt_agree (fuel : nat) : Prop :=
  forall genv base bound bound' own outer en s out asr,
    incl (names genv) gn -> inv bound own outer en -> chk gn bound s = Some bound' -> stmt_plain s = true ->
    agree_with (Ps (outer ++ genv ++ base) asr bound bound' own)
      (exec_stmt fns fuel genv en s out) (iexec fns fuel s (mkw (own ++ outer ++ genv ++ base) out asr)).

Definition Pf (rest : istack) (asr : list bool) (bound : list ident) (own0 : istack)
           (r : ctl * env) (out' : list N) (c' : ctl) (w' : world) : Prop :=
  c' = fst r /\ exists own' l, alltrue l /\ w' = mkw (own' ++ rest) out' (asr ++ l) /\
    names own' = names own0 /\ names (snd r) = bound /\ (forall y, In y bound -> vlook y own' = vlook y (snd r)).

Definition for_agree (fuel : nat) : Prop :=
  forall genv base bound bb x body own0 outer Jx AJ en i hi out asr,
    incl (names genv) gn -> ~ In x bound -> ~ In x gn -> chk gn (x :: bound) body = Some bb -> stmt_plain body = true ->
    names en = bound -> NoDup bound ->
    names Jx = AJ ++ x :: names own0 ->
    (forall y, In y AJ -> y <> x /\ ~ In y bound /\ ~ In y gn) ->
    (forall y, In y bound -> vlook y Jx = vlook y en) ->
    (forall y, In y (names own0 ++ names outer) -> ~ In y gn) ->
    agree_with (Pf (outer ++ genv ++ base) asr bound own0)
      (exec_for fns fuel genv en x i hi body out)
      (ifor fns fuel (length (own0 ++ outer ++ genv ++ base)) i hi body (mkw (Jx ++ outer ++ genv ++ base) out asr)).

(* ---- small facts about the invariant *)
Lemma inv_var_local bound own outer en x m v rest :
  inv bound own outer en -> lookup x en = Some (m, v) -> exists m', ilookup x (own ++ rest) = Some (m', v).
Proof.
  intros I L. assert (Hin : In x bound). { rewrite <- (inv_names _ _ _ _ I). eapply lookup_some_in. exact L. }
  pose proof (inv_look _ _ _ _ I x Hin) as Q. unfold vlook in Q. rewrite L in Q. simpl in Q.
  rewrite ilookup_same. destruct (lookup x own) as [[m' v']|] eqn:E; simpl in Q; [|discriminate].
  inversion Q; subst. exists m'. rewrite lookup_app_l; [exact E|]. eapply lookup_some_in. exact E.
Qed.

Lemma inv_var_global bound own outer en genv base x b :
  incl (names genv) gn -> inv bound own outer en -> lookup x en = None -> lookup x genv = Some b ->
  ilookup x (own ++ outer ++ genv ++ base) = Some b.
Proof.
  intros G I L1 L2. assert (Hg : In x gn). { apply G. eapply lookup_some_in. exact L2. }
  rewrite ilookup_same. rewrite lookup_app_r.
  2:{ intros Q. apply (inv_gn _ _ _ _ I x); [apply in_or_app; left; exact Q|exact Hg]. }
  rewrite lookup_app_r.
  2:{ intros Q. apply (inv_gn _ _ _ _ I x); [apply in_or_app; right; exact Q|exact Hg]. }
  rewrite lookup_app_l; [exact L2|]. eapply lookup_some_in. exact L2.
Qed.

(* the reference binds, the evaluator makes a tail call *)
Lemma agree_bind_r {A B B'} (P : A -> list N -> B' -> world -> Prop) (P2 : B -> list N -> B' -> world -> Prop)
      (r : res A) (i : ires B') (k : A -> list N -> res B) :
  agree_with P r i ->
  (forall a out' a' w', P a out' a' w' -> agree_with P2 (k a out') (IOk a' w')) ->
  agree_with P2 (bind r k) i.
Proof.
  intros H K. destruct r as [a out'|f out'| |]; simpl in *; try exact I.
  - destruct H as [a' [w' [E Q]]]. subst i. apply K. exact Q.
  - destruct f; try exact I. exact H.
Qed.

Lemma agree_ok_Ps rest asr bound bound' own c en' out' own' l :
  alltrue l -> post bound bound' own own' en' c ->
  agree_with (Ps rest asr bound bound' own) (Ok (c, en') out') (IOk c (mkw (own' ++ rest) out' (asr ++ l))).
Proof.
  intros Hl Hp. simpl. exists c, (mkw (own' ++ rest) out' (asr ++ l)). split; [reflexivity|].
  split; [reflexivity|]. exists own', l. auto.
Qed.

Lemma Ps_ext rest asr l bound bound' own r out' c' w' :
  alltrue l -> Ps rest (asr ++ l) bound bound' own r out' c' w' -> Ps rest asr bound bound' own r out' c' w'.
Proof.
  intros Hl [E [own' [l' [Hl' [Hw Hp]]]]]. split; [exact E|]. exists own', (l ++ l').
  split; [apply alltrue_app; assumption|]. split; [rewrite app_assoc; exact Hw|exact Hp].
Qed.

Lemma Ps_ext_agree rest asr l bound bound' own r i :
  alltrue l -> agree_with (Ps rest (asr ++ l) bound bound' own) r i -> agree_with (Ps rest asr bound bound' own) r i.
Proof. intros Hl. apply agree_with_impl. intros. eapply Ps_ext; eassumption. Qed.

Lemma Pf_ext_agree rest asr l bound own0 r i :
  alltrue l -> agree_with (Pf rest (asr ++ l) bound own0) r i -> agree_with (Pf rest asr bound own0) r i.
Proof.
  intros Hl. apply agree_with_impl. intros a out' a' w' [E [own' [l' [Hl' [Hw Hr]]]]]. split; [exact E|].
  exists own', (l ++ l'). split; [apply alltrue_app; assumption|]. split; [rewrite app_assoc; exact Hw|exact Hr].
Qed.

Lemma agree_ok_Pf rest asr bound own0 c en' out' own' l :
  alltrue l -> names own' = names own0 -> names en' = bound -> (forall y, In y bound -> vlook y own' = vlook y en') ->
  agree_with (Pf rest asr bound own0) (Ok (c, en') out') (IOk c (mkw (own' ++ rest) out' (asr ++ l))).
Proof.
  intros Hl H1 H2 H3. simpl. exists c, (mkw (own' ++ rest) out' (asr ++ l)). split; [reflexivity|].
  split; [reflexivity|]. exists own', l. auto.
Qed.

Lemma post_refl bound bound' own en c :
  names en = bound -> NoDup bound -> (forall x, In x bound -> vlook x own = vlook x en) -> (c = CNormal -> bound = bound') ->
  post bound bound' own own en c.
Proof. intros H1 H2 H3 H4. exists [], []. simpl. repeat split; auto; contradiction. Qed.

Lemma post_abrupt bound b1 bound' own own' en' c : c <> CNormal -> post bound b1 own own' en' c -> post bound bound' own own' en' c.
Proof.
  intros Hc [pre [A [H1 [H2 [H3 [H4 [H5 H6]]]]]]]. exists pre, A. repeat split; auto; try (apply H5; assumption).
  intros Q. contradiction.
Qed.

Lemma nodup_app_r (pre bound : list ident) : NoDup (pre ++ bound) -> NoDup bound.
Proof. induction pre as [|y p IH]; simpl; intros H; [exact H|]. inversion H; subst. apply IH. assumption. Qed.

Lemma in_app_nodup_l (pre bound : list ident) x : NoDup (pre ++ bound) -> In x bound -> ~ In x pre.
Proof.
  induction pre as [|y p IH]; simpl; intros H Hx; [tauto|]. inversion H; subst. intros [Q|Q].
  - subst. apply H2. apply in_or_app. right. exact Hx.
  - apply (IH H3 Hx). exact Q.
Qed.

(* leaving a block: Ref restores the environment, the evaluator keeps everything *)
Lemma post_block bound b1 own own1 (en en1 : env) c c' :
  names en = bound -> post bound b1 own own1 en1 c ->
  post bound bound own own1 (restore (length en) en1) c' /\
  names (restore (length en) en1) = bound /\
  (forall x, In x bound -> vlook x own1 = vlook x (restore (length en) en1)).
Proof.
  intros Hn [pre [A [H1 [H2 [H3 [H4 [H5 H6]]]]]]].
  assert (Hl : length en = length bound). { rewrite <- Hn. unfold names. rewrite map_length. reflexivity. }
  destruct (restore_names en1 pre bound (length en) H1 Hl) as [a [b [E [Ha [Hb Hr]]]]].
  assert (HL : forall x, In x bound -> vlook x own1 = vlook x (restore (length en) en1)).
  { intros x Hx. rewrite Hr. rewrite H6 by (apply in_or_app; right; exact Hx). rewrite E.
    apply vlook_app_r. rewrite Ha. apply in_app_nodup_l with (bound := bound); assumption. }
  split; [|split; [rewrite Hr; exact Hb|exact HL]].
  exists [], A. simpl. rewrite Hr. repeat split; auto; try (apply H5; assumption).
  - eapply nodup_app_r. exact H2.
  - intros x Hx. rewrite <- Hr. apply HL. exact Hx.
Qed.

Lemma post_chain bound b1 bound' own own1 own2 A1 pre1 en2 c :
  names own1 = A1 ++ names own -> (forall x, In x A1 -> ~ In x bound /\ ~ In x gn) -> b1 = pre1 ++ bound ->
  post b1 bound' own1 own2 en2 c -> post bound bound' own own2 en2 c.
Proof.
  intros HA Hav Hb [pre [A [H1 [H2 [H3 [H4 [H5 H6]]]]]]]. subst b1.
  exists (pre ++ pre1), (A ++ A1). rewrite <- !app_assoc. repeat split; auto.
  - rewrite H4, HA. reflexivity.
  - apply in_app_or in H. destruct H as [H|H]; [|apply Hav; exact H].
    intros Q. apply (proj1 (H5 x H)). apply in_or_app. right. exact Q.
  - apply in_app_or in H. destruct H as [H|H]; [apply H5; exact H|apply Hav; exact H].
Qed.

Lemma Ps_chain rest asr l1 bound b1 bound' own own1 A1 pre1 r out' c' w' :
  alltrue l1 -> names own1 = A1 ++ names own -> (forall x, In x A1 -> ~ In x bound /\ ~ In x gn) -> b1 = pre1 ++ bound ->
  Ps rest (asr ++ l1) b1 bound' own1 r out' c' w' -> Ps rest asr bound bound' own r out' c' w'.
Proof.
  intros Hl HA Hav Hb H. apply Ps_ext with (l := l1); [exact Hl|].
  destruct H as [E [own2 [l2 [Hl2 [Hw Hp]]]]]. split; [exact E|]. exists own2, l2. repeat split; auto.
  eapply post_chain; eassumption.
Qed.

Lemma inv_of_post bound b1 own own1 outer en en1 :
  inv bound own outer en -> post bound b1 own own1 en1 CNormal -> inv b1 own1 outer en1.
Proof.
  intros IV [pre [A [H1 [H2 [H3 [H4 [H5 H6]]]]]]]. specialize (H3 eq_refl). subst b1. constructor; auto.
  intros x Hx. rewrite H4 in Hx. rewrite <- app_assoc in Hx. apply in_app_or in Hx. destruct Hx as [Hx|Hx].
  - apply H5. exact Hx.
  - apply (inv_gn _ _ _ _ IV). exact Hx.
Qed.

(* monotonicity obligations of continuations are all of this form *)
Lemma failed_mkw_ext w w' : ext w w' -> failed w = true -> failed w' = true.
Proof. apply ext_failed. Qed.

(* "the rest of the evaluator only extends the assertion log": closes the third premise of agree_bind *)
Ltac mono_step :=
  match goal with
  | E : _ = IOk _ _ |- _ =>
      first [ apply ieval_mono in E | apply iexec_mono in E | apply ifor_mono in E | apply (iargs_mono _ (ieval_mono _ _)) in E ]
  end.
Ltac ext_solve :=
  repeat mono_step;
  repeat match goal with H : ext _ _ |- _ => let l := fresh "l" in destruct H as [l H] end;
  unfold ext, with_stk, with_out, push, mkw in *; simpl in *;
  repeat match goal with H : w_asr ?x = _ |- context [w_asr ?x] => rewrite H end;
  first [ exists []; rewrite app_nil_r; reflexivity | rewrite <- ?app_assoc; eexists; reflexivity ].
Ltac mono_tac :=
  let a := fresh "ma" in let w := fresh "mw" in let b := fresh "mb" in let w2 := fresh "mz" in
  let F := fresh "MF" in let K := fresh "MK" in
  intros a w b w2 F K; eapply ext_failed; [|exact F]; cbv beta zeta in K; decomp K;
  try (match type of K with IOk _ _ = IOk _ _ => inversion K; subst; clear K end); ext_solve.

Lemma all_agree : forall fuel, expr_agree fuel /\ stmt_agree fuel /\ for_agree fuel.
Proof.
  induction fuel as [|fuel [IHe [IHs IHf]]].
  - repeat split; red; intros; exact I.
  - unfold expr_agree in IHe. unfold stmt_agree in IHs. unfold for_agree in IHf. split; [|split].
    + (* ------------------------------------------------------------ expressions *)
      red. intros genv base bound own outer en e out asr G IV PL.
      set (S := own ++ outer ++ genv ++ base) in *.
      destruct e; cbn [eval_expr ieval exec_stmt iexec exec_for ifor].
      * apply agree_ok_Pe0.
      * apply agree_ok_Pe0.
      * simpl in PL. destruct (list_eq_dec N.eq_dec (unescape s) s) as [Q|Q]; [|discriminate]. rewrite Q. apply agree_ok_Pe0.
      * cbn [w_stk mkw]. destruct (lookup x en) as [[m v]|] eqn:L.
        -- destruct (inv_var_local _ _ _ _ x m v (outer ++ genv ++ base) IV L) as [m' Q]. fold S in Q. rewrite Q. apply agree_ok_Pe0.
        -- destruct (lookup x genv) as [[m v]|] eqn:L2; [|exact I].
           unfold S. rewrite (inv_var_global _ _ _ _ _ base _ _ G IV L L2). apply agree_ok_Pe0.
      * simpl in PL. eapply agree_bind with (P := Pe S asr).
        -- eapply IHe; eassumption.
        -- intros v out' v' w' [-> [l [Hl ->]]]. destruct (eval_unop o v) eqn:U; simpl.
           ++ rewrite (unop_agree _ _ _ U). apply agree_ok_Pe. exact Hl.
           ++ destruct o, v; simpl in U; discriminate.
           ++ exact I.
        -- mono_tac.
      * (* binary operators *)
        simpl in PL. apply andb_true_iff in PL. destruct PL as [PL1 PL2].
        destruct o;
          try (eapply agree_bind with (P := Pe S asr);
               [ eapply IHe; eassumption
               | intros va out1 va' w1 [-> [l1 [Hl1 ->]]]; eapply agree_Pe_ext; [exact Hl1|];
                 eapply agree_bind with (P := Pe S (asr ++ l1));
                 [ eapply IHe; eassumption
                 | intros vb out2 vb' w2 [-> [l2 [Hl2 ->]]];
                   match goal with |- context [eval_binop ?op va vb] => destruct (eval_binop op va vb) as [r|f|] eqn:B end; cbn [of_opres];
                   [ erewrite binop_agree by (try discriminate; exact B); cbn [of_ibin]; apply agree_ok_Pe; exact Hl2
                   | destruct f; try exact I; exfalso; eapply binop_no_assert; exact B
                   | exact I ]
                 | mono_tac ]
               | mono_tac ]).
        -- (* and *)
           eapply agree_bind with (P := Pe S asr); [eapply IHe; eassumption| |mono_tac].
           intros va out1 va' w1 [-> [l1 [Hl1 ->]]]. destruct va as [z|[|]| |s0]; try exact I; simpl.
           ++ eapply agree_Pe_ext; [exact Hl1|]. eapply agree_bind with (P := Pe S (asr ++ l1)); [eapply IHe; eassumption| |mono_tac].
              intros vb out2 vb' w2 [-> [l2 [Hl2 ->]]]. destruct vb as [z|b'| |s0]; try exact I. simpl. apply agree_ok_Pe. exact Hl2.
           ++ apply agree_ok_Pe. exact Hl1.
        -- (* or *)
           eapply agree_bind with (P := Pe S asr); [eapply IHe; eassumption| |mono_tac].
           intros va out1 va' w1 [-> [l1 [Hl1 ->]]]. destruct va as [z|[|]| |s0]; try exact I; simpl.
           ++ apply agree_ok_Pe. exact Hl1.
           ++ eapply agree_Pe_ext; [exact Hl1|]. eapply agree_bind with (P := Pe S (asr ++ l1)); [eapply IHe; eassumption| |mono_tac].
              intros vb out2 vb' w2 [-> [l2 [Hl2 ->]]]. destruct vb as [z|b'| |s0]; try exact I. simpl. apply agree_ok_Pe. exact Hl2.
      * (* call *)
        pose proof (plain_call_forall _ _ PL) as PA.
        eapply agree_bind with (P := Pe S asr).
        -- clear PL. revert out asr PA. induction args as [|a r IHr]; intros out asr PA.
           ++ apply agree_ok_Pe0.
           ++ inversion PA; subst. cbn [iargs_with]. eapply agree_bind with (P := Pe S asr); [eapply IHe; eassumption| |mono_tac].
              intros v out1 v' w1 [-> [l1 [Hl1 ->]]]. eapply agree_Pe_ext; [exact Hl1|].
              eapply agree_bind with (P := Pe S (asr ++ l1)); [apply IHr; assumption| |mono_tac].
              intros vs out2 vs' w2 [-> [l2 [Hl2 ->]]]. apply agree_ok_Pe. exact Hl2.
        -- intros vs out1 vs' w1 [-> [l1 [Hl1 ->]]]. cbn [w_stk mkw].
           destruct (find_fn fns f) as [d|] eqn:F; [|exact I].
           destruct (bind_params (fparams d) vs) as [en'|] eqn:BP; [|exact I].
           rewrite (push_params_bind _ _ _ S BP).
           assert (Hd : In d fns). { unfold find_fn in F. apply find_some in F. tauto. }
           destruct (fn_ok_parts _ _ (Hfns d Hd)) as [ND [NG [[bb CK] SP]]].
           pose proof (bind_params_names _ _ _ BP) as NE.
           assert (IVc : inv (rev (map fst (fparams d))) (rev en') (own ++ outer) (rev en')).
           { constructor.
             - rewrite names_rev, NE. reflexivity.
             - apply NoDup_rev. exact ND.
             - intros x _. reflexivity.
             - intros x Hx. apply in_app_or in Hx. destruct Hx as [Hx|Hx].
               + apply NG. rewrite names_rev, <- in_rev, NE in Hx. exact Hx.
               + rewrite names_app in Hx. apply (inv_gn _ _ _ _ IV). exact Hx. }
           eapply agree_Pe_ext; [exact Hl1|].
           assert (ES : (own ++ outer) ++ genv ++ base = S) by (unfold S; rewrite <- app_assoc; reflexivity).
           cbn [with_stk w_stk w_out w_asr mkw].
           replace (rev en' ++ S) with (rev en' ++ (own ++ outer) ++ genv ++ base) by (rewrite ES; reflexivity).
           change (with_stk (mkw S out1 (asr ++ l1)) (rev en' ++ (own ++ outer) ++ genv ++ base))
             with (mkw (rev en' ++ (own ++ outer) ++ genv ++ base) out1 (asr ++ l1)).
           eapply agree_bind with (P := Ps ((own ++ outer) ++ genv ++ base) (asr ++ l1) (rev (map fst (fparams d))) bb (rev en')).
           ++ exact (IHs genv base (rev (map fst (fparams d))) bb (rev en') (own ++ outer) (rev en') (fbody d) out1 (asr ++ l1) G IVc CK SP).
           ++ intros [c en2] out2 c' w2 [Hc [own' [l2 [Hl2 [-> Hpost]]]]]. simpl in Hc. subst c'. cbn [fst w_stk w_out w_asr mkw].
              rewrite ES. rewrite truncate_app.
              destruct c; try exact I.
              ** apply agree_ok_Pe. exact Hl2.
              ** apply agree_ok_Pe. exact Hl2.
           ++ mono_tac.
        -- mono_tac.
      * (* cond *)
        simpl in PL. apply andb_true_iff in PL. destruct PL as [PL PL3]. apply andb_true_iff in PL. destruct PL as [PL1 PL2].
        eapply agree_bind with (P := Pe S asr); [eapply IHe; eassumption| |mono_tac].
        intros vc out1 vc' w1 [-> [l1 [Hl1 ->]]]. destruct vc as [z|[|]| |s0]; try exact I; simpl;
          (eapply agree_Pe_ext; [exact Hl1|]; eapply IHe; eassumption).
    + (* ------------------------------------------------------------ statements *)
      red. intros genv base bound bound' own outer en s out asr G IV CK SP.
      set (rest := outer ++ genv ++ base) in *.
      pose proof (inv_names _ _ _ _ IV) as IN. pose proof (inv_nodup _ _ _ _ IV) as IND. pose proof (inv_look _ _ _ _ IV) as IL.
      destruct s; cbn [exec_stmt iexec]; simpl in CK; simpl in SP.
      * (* skip *) inversion CK; subst bound'.
        pose proof (agree_ok_Ps rest asr bound bound own CNormal en out own [] alltrue_nil (post_refl _ _ _ _ _ IN IND IL (fun _ => eq_refl))) as H.
        rewrite app_nil_r in H. exact H.
      * (* seq *)
        destruct (chk gn bound s1) as [b1|] eqn:C1; [|discriminate]. apply andb_true_iff in SP. destruct SP as [SP1 SP2].
        eapply agree_bind with (P := Ps rest asr bound b1 own); [exact (IHs genv base bound b1 own outer en s1 out asr G IV C1 SP1)| |mono_tac].
        intros [c en1] out1 c' w1 [Hc [own1 [l1 [Hl1 [-> P1]]]]]. simpl in Hc. subst c'. cbn [fst snd] in *.
        destruct c.
        -- pose proof (inv_of_post _ _ _ _ _ _ _ IV P1) as IV1.
           destruct P1 as [pre1 [A1 [Q1 [Q2 [Q3 [Q4 [Q5 Q6]]]]]]]. specialize (Q3 eq_refl).
           eapply agree_with_impl; [|exact (IHs genv base b1 bound' own1 outer en1 s2 out1 (asr ++ l1) G IV1 CK SP2)].
           intros r out' c' w'. eapply Ps_chain; eauto.
        -- apply agree_ok_Ps; [exact Hl1|]. eapply post_abrupt; [discriminate|exact P1].
        -- apply agree_ok_Ps; [exact Hl1|]. eapply post_abrupt; [discriminate|exact P1].
        -- apply agree_ok_Ps; [exact Hl1|]. eapply post_abrupt; [discriminate|exact P1].
      * (* let *)
        destruct (mem x bound) eqn:M1; [discriminate|]. destruct (mem x gn) eqn:M2; [discriminate|]. simpl in CK. inversion CK; subst bound'.
        apply mem_false_iff in M1. apply mem_false_iff in M2.
        eapply agree_bind with (P := Pe (own ++ rest) asr); [exact (IHe genv base bound own outer en e out asr G IV SP)| |mono_tac].
        intros v out1 v' w1 [-> [l1 [Hl1 ->]]].
        apply (agree_ok_Ps rest asr bound (x :: bound) own CNormal ((x, (mut, v)) :: en) out1 ((x, (mut, v)) :: own) l1 Hl1).
        exists [x], [x]. simpl. rewrite IN. repeat split; auto.
        -- constructor; assumption.
        -- destruct H as [H|[]]. subst. exact M1.
        -- destruct H as [H|[]]. subst. exact M2.
        -- intros y Hy. destruct (N.eq_dec y x) as [E|E].
           ++ subst. rewrite !vlook_cons_eq. reflexivity.
           ++ rewrite !vlook_cons_ne by assumption. apply IL. destruct Hy as [Hy|Hy]; [congruence|exact Hy].
      * (* set *)
        inversion CK; subst bound'.
        eapply agree_bind with (P := Pe (own ++ rest) asr); [exact (IHe genv base bound own outer en e out asr G IV SP)| |mono_tac].
        intros v out1 v' w1 [-> [l1 [Hl1 ->]]]. destruct (assign x v en) as [en1|] eqn:AS; [|exact I].
        assert (Hx : In x bound). { rewrite <- IN. eapply assign_some_in. exact AS. }
        assert (Hxo : In x (names own)).
        { destruct (vlook_in_some x en) as [u Hu]; [rewrite IN; exact Hx|]. eapply vlook_some_in. rewrite IL by exact Hx. exact Hu. }
        cbn [with_stk w_stk w_out w_asr mkw]. rewrite iassign_app_l by exact Hxo.
        apply (agree_ok_Ps rest asr bound bound own CNormal en1 out1 (iassign x v own) l1 Hl1).
        exists [], []. simpl. rewrite (assign_names _ _ _ _ AS), iassign_names, IN. repeat split; auto; try contradiction.
        intros y Hy. destruct (N.eq_dec y x) as [E|E].
        -- subst. rewrite vlook_iassign_same by exact Hxo. rewrite (assign_vlook_same _ _ _ _ AS). reflexivity.
        -- rewrite vlook_iassign_other by exact E. rewrite (assign_vlook_other _ _ _ _ _ AS E). apply IL. exact Hy.
      * (* if *)
        destruct (chk gn bound s1) as [b1|] eqn:C1; [|discriminate]. destruct (chk gn bound s2) as [b2|] eqn:C2; [|discriminate].
        inversion CK; subst bound'.
        apply andb_true_iff in SP. destruct SP as [SP SP2]. apply andb_true_iff in SP. destruct SP as [SP0 SP1].
        eapply agree_bind with (P := Pe (own ++ rest) asr); [exact (IHe genv base bound own outer en c out asr G IV SP0)| |mono_tac].
        intros vc out1 vc' w1 [-> [l1 [Hl1 ->]]]. destruct vc as [z|b| |s0]; try exact I. cbn [truthy].
        destruct b.
        -- eapply agree_bind_r with (P := Ps rest (asr ++ l1) bound b1 own); [exact (IHs genv base bound b1 own outer en s1 out1 (asr ++ l1) G IV C1 SP1)|].
           intros [c1 en1] out2 c1' w2 [Hc [own1 [l2 [Hl2 [-> P1]]]]]. simpl in Hc. subst c1'. cbn [fst snd] in *.
           rewrite <- app_assoc. apply agree_ok_Ps; [apply alltrue_app; assumption|].
           apply (proj1 (post_block _ _ _ _ _ _ c1 c1 IN P1)).
        -- eapply agree_bind_r with (P := Ps rest (asr ++ l1) bound b2 own); [exact (IHs genv base bound b2 own outer en s2 out1 (asr ++ l1) G IV C2 SP2)|].
           intros [c1 en1] out2 c1' w2 [Hc [own1 [l2 [Hl2 [-> P1]]]]]. simpl in Hc. subst c1'. cbn [fst snd] in *.
           rewrite <- app_assoc. apply agree_ok_Ps; [apply alltrue_app; assumption|].
           apply (proj1 (post_block _ _ _ _ _ _ c1 c1 IN P1)).
      * (* while *)
        destruct (chk gn bound s) as [bb|] eqn:C1; [|discriminate]. inversion CK; subst bound'.
        apply andb_true_iff in SP. destruct SP as [SP0 SP1].
        eapply agree_bind with (P := Pe (own ++ rest) asr); [exact (IHe genv base bound own outer en c out asr G IV SP0)| |mono_tac].
        intros vc out1 vc' w1 [-> [l1 [Hl1 ->]]]. destruct vc as [z|b| |s0]; try exact I. cbn [truthy].
        destruct b.
        -- eapply Ps_ext_agree; [exact Hl1|].
           eapply agree_bind with (P := Ps rest (asr ++ l1) bound bb own); [exact (IHs genv base bound bb own outer en s out1 (asr ++ l1) G IV C1 SP1)| |mono_tac].
           intros [c1 en1] out2 c1' w2 [Hc [own1 [l2 [Hl2 [-> P1]]]]]. simpl in Hc. subst c1'. cbn [fst snd] in *.
           destruct (post_block _ _ _ _ _ _ c1 CNormal IN P1) as [PB [PN PL]].
           assert (IV2 : inv bound own1 outer (restore (length en) en1)).
           { destruct P1 as [pre1 [A1 [Q1 [Q2 [Q3 [Q4 [Q5 Q6]]]]]]]. constructor; auto.
             intros y Hy. rewrite Q4 in Hy. rewrite <- app_assoc in Hy. apply in_app_or in Hy. destruct Hy as [Hy|Hy].
             - apply Q5. exact Hy.
             - apply (inv_gn _ _ _ _ IV). exact Hy. }
           assert (CKW : chk gn bound (SWhile c s) = Some bound) by (simpl; rewrite C1; reflexivity).
           assert (SPW : stmt_plain (SWhile c s) = true) by (simpl; rewrite SP0, SP1; reflexivity).
           assert (REC : agree_with (Ps rest (asr ++ l1) bound bound own)
                     (exec_stmt fns fuel genv (restore (length en) en1) (SWhile c s) out2)
                     (iexec fns fuel (SWhile c s) (mkw (own1 ++ rest) out2 ((asr ++ l1) ++ l2)))).
           { destruct P1 as [pre1 [A1 [Q1 [Q2 [Q3 [Q4 [Q5 Q6]]]]]]].
             eapply agree_with_impl; [|exact (IHs genv base bound bound own1 outer _ (SWhile c s) out2 ((asr ++ l1) ++ l2) G IV2 CKW SPW)].
             intros r out' c' w'. eapply Ps_chain with (pre1 := []); eauto. }
           destruct c1.
           ++ exact REC.
           ++ apply agree_ok_Ps; [exact Hl2|exact PB].
           ++ exact REC.
           ++ apply agree_ok_Ps; [exact Hl2|]. apply (proj1 (post_block _ _ _ _ _ _ (CReturn v) (CReturn v) IN P1)).
        -- apply agree_ok_Ps; [exact Hl1|]. apply post_refl; auto.
      * (* for *)
        destruct (mem x bound) eqn:M1; [discriminate|]. destruct (mem x gn) eqn:M2; [discriminate|]. simpl in CK.
        destruct (chk gn (x :: bound) s) as [bb|] eqn:C1; [|discriminate]. inversion CK; subst bound'.
        apply mem_false_iff in M1. apply mem_false_iff in M2.
        apply andb_true_iff in SP. destruct SP as [SP SP2]. apply andb_true_iff in SP. destruct SP as [SP0 SP1].
        eapply agree_bind with (P := Pe (own ++ rest) asr); [exact (IHe genv base bound own outer en lo out asr G IV SP0)| |mono_tac].
        intros vlo out1 vlo' w1 [-> [l1 [Hl1 ->]]]. eapply Ps_ext_agree; [exact Hl1|].
        eapply agree_bind with (P := Pe (own ++ rest) (asr ++ l1)); [exact (IHe genv base bound own outer en hi out1 (asr ++ l1) G IV SP1)| |mono_tac].
        intros vhi out2 vhi' w2 [-> [l2 [Hl2 ->]]]. eapply Ps_ext_agree; [exact Hl2|].
        destruct vlo as [a| | |]; try exact I. destruct vhi as [b| | |]; try exact I.
        eapply agree_with_impl;
          [|exact (IHf genv base bound bb x s own outer ((x, (false, VInt a)) :: own) [] en a b out2 ((asr ++ l1) ++ l2) G M1 M2 C1 SP2 IN IND
                     eq_refl (fun y (H : In y []) => match H with end)
                     (fun y Hy => eq_trans (vlook_cons_ne y x _ own (fun Q => M1 (eq_ind y (fun z => In z bound) Hy x Q))) (IL y Hy))
                     (inv_gn _ _ _ _ IV))].
        intros r out' c' w' [Hc [own' [l3 [Hl3 [Hw [Hn [Hne Hlk]]]]]]]. split; [exact Hc|]. exists own', l3. repeat split; auto.
        exists [], []. simpl. repeat split; auto; try contradiction.
      * (* break *) inversion CK; subst bound'.
        pose proof (agree_ok_Ps rest asr bound bound own CBreak en out own [] alltrue_nil (post_refl _ _ _ _ _ IN IND IL (fun _ => eq_refl))) as H.
        rewrite app_nil_r in H. exact H.
      * (* continue *) inversion CK; subst bound'.
        pose proof (agree_ok_Ps rest asr bound bound own CContinue en out own [] alltrue_nil (post_refl _ _ _ _ _ IN IND IL (fun _ => eq_refl))) as H.
        rewrite app_nil_r in H. exact H.
      * (* return *) inversion CK; subst bound'. destruct e as [e|].
        -- eapply agree_bind with (P := Pe (own ++ rest) asr); [exact (IHe genv base bound own outer en e out asr G IV SP)| |mono_tac].
           intros v out1 v' w1 [-> [l1 [Hl1 ->]]]. apply agree_ok_Ps; [exact Hl1|]. apply post_refl; auto.
        -- pose proof (agree_ok_Ps rest asr bound bound own (CReturn VVoid) en out own [] alltrue_nil (post_refl _ _ _ _ _ IN IND IL (fun _ => eq_refl))) as H.
           rewrite app_nil_r in H. exact H.
      * (* print *) inversion CK; subst bound'.
        eapply agree_bind with (P := Pe (own ++ rest) asr); [exact (IHe genv base bound own outer en e out asr G IV SP)| |mono_tac].
        intros v out1 v' w1 [-> [l1 [Hl1 ->]]]. cbn [with_out w_stk w_out w_asr mkw].
        apply (agree_ok_Ps rest asr bound bound own CNormal en _ own l1 Hl1). apply post_refl; auto.
      * (* assert *) inversion CK; subst bound'.
        eapply agree_bind with (P := Pe (own ++ rest) asr); [exact (IHe genv base bound own outer en e out asr G IV SP)| |mono_tac].
        intros v out1 v' w1 [-> [l1 [Hl1 ->]]]. destruct v as [z|[|]| |s0]; try exact I; cbn [truthy w_stk w_out w_asr mkw].
        -- rewrite <- app_assoc. apply (agree_ok_Ps rest asr bound bound own CNormal en out1 own (l1 ++ [true])).
           ++ apply alltrue_app; [exact Hl1|reflexivity].
           ++ apply post_refl; auto.
        -- simpl. intros a' w' H. inversion H; subst. unfold failed. simpl. rewrite existsb_app. simpl. apply orb_true_r.
      * (* expression statement *) inversion CK; subst bound'.
        eapply agree_bind with (P := Pe (own ++ rest) asr); [exact (IHe genv base bound own outer en e out asr G IV SP)| |mono_tac].
        intros v out1 v' w1 [-> [l1 [Hl1 ->]]]. apply agree_ok_Ps; [exact Hl1|]. apply post_refl; auto.
    + (* ------------------------------------------------------------ for loops *)
      red. intros genv base bound bb x body own0 outer Jx AJ en i hi out asr G NX NXG CK SP EN ND NJ AV LK GN.
      set (rest := outer ++ genv ++ base) in *.
      assert (BX : forall y, In y bound -> ~ In y AJ /\ y <> x).
      { intros y Hy. split.
        - intros Q. apply (proj1 (proj2 (AV y Q))). exact Hy.
        - intros Q. subst. contradiction. }
      cbn [exec_for ifor]. destruct (Z.ltb i hi) eqn:LT.
      * assert (XA : ~ In x AJ). { intros Q. apply (proj1 (AV x Q)). reflexivity. }
        destruct (for_slot Jx AJ x own0 rest (VInt i) NJ XA) as [J1 [ES [NJ1 [VX VO]]]].
        cbn [with_stk w_stk w_out w_asr mkw]. fold rest. rewrite ES.
        assert (IVb : inv (x :: bound) J1 outer ((x, (false, VInt i)) :: en)).
        { constructor.
          - simpl. rewrite EN. reflexivity.
          - constructor; assumption.
          - intros y [Hy|Hy].
            + subst. rewrite VX, vlook_cons_eq. reflexivity.
            + assert (y <> x) by (intros Q; subst; contradiction).
              rewrite VO by assumption. rewrite vlook_cons_ne by assumption. apply LK. exact Hy.
          - intros y Hy. rewrite NJ1, NJ in Hy. rewrite <- app_assoc in Hy. apply in_app_or in Hy. destruct Hy as [Hy|Hy].
            + apply (AV y Hy).
            + simpl in Hy. destruct Hy as [Hy|Hy]; [subst; exact NXG|apply GN; exact Hy]. }
        eapply agree_bind with (P := Ps rest asr (x :: bound) bb J1);
          [exact (IHs genv base (x :: bound) bb J1 outer _ body out asr G IVb CK SP)| |mono_tac].
        intros [c1 en1] out1 c1' w1 [Hc [own1 [l1 [Hl1 [-> P1]]]]]. simpl in Hc. subst c1'. cbn [fst snd] in *.
        destruct P1 as [pre [A [Q1 [Q2 [Q3 [Q4 [Q5 Q6]]]]]]].
        assert (Q1' : names en1 = (pre ++ [x]) ++ bound) by (rewrite <- app_assoc; exact Q1).
        assert (HLe : length en = length bound) by (rewrite <- EN; unfold names; rewrite map_length; reflexivity).
        destruct (restore_names en1 (pre ++ [x]) bound (length en) Q1' HLe) as [ea [eb [EE [Ha [Hb Hr]]]]].
        assert (NO1 : names own1 = (A ++ AJ) ++ x :: names own0) by (rewrite Q4, NJ1, NJ, <- app_assoc; reflexivity).
        assert (AV1 : forall y, In y (A ++ AJ) -> y <> x /\ ~ In y bound /\ ~ In y gn).
        { intros y Hy. apply in_app_or in Hy. destruct Hy as [Hy|Hy]; [|apply AV; exact Hy].
          destruct (Q5 y Hy) as [Z1 Z2]. split; [|split; [|exact Z2]].
          - intros Q. apply Z1. left. symmetry. exact Q.
          - intros Q. apply Z1. right. exact Q. }
        assert (LK1 : forall y, In y bound -> vlook y own1 = vlook y eb).
        { intros y Hy. rewrite Q6 by (apply in_or_app; right; right; exact Hy). rewrite EE. apply vlook_app_r.
          rewrite Ha. intros Q. apply in_app_or in Q. destruct Q as [Q|[Q|[]]].
          - revert Q. apply in_app_nodup_l with (bound := x :: bound); [exact Q2|right; exact Hy].
          - subst. contradiction. }
        assert (BX1 : forall y, In y bound -> ~ In y (A ++ AJ) /\ y <> x).
        { intros y Hy. split; [|apply BX; exact Hy]. intros Q. apply (proj1 (proj2 (AV1 y Q))). exact Hy. }
        rewrite Hr.
        assert (REC : agree_with (Pf rest asr bound own0)
                   (exec_for fns fuel genv eb x (i + 1) hi body out1)
                   (ifor fns fuel (length (own0 ++ outer ++ genv ++ base)) (i + 1) hi body (mkw (own1 ++ rest) out1 (asr ++ l1)))).
        { eapply Pf_ext_agree; [exact Hl1|].
          exact (IHf genv base bound bb x body own0 outer own1 (A ++ AJ) eb (i + 1)%Z hi out1 (asr ++ l1) G NX NXG CK SP Hb ND NO1 AV1 LK1 GN). }
        destruct (for_exit own1 (A ++ AJ) x own0 rest bound NO1 BX1) as [R1 [TR [NR LR]]].
        destruct c1.
        -- exact REC.
        -- cbn [with_stk w_stk w_out w_asr mkw]. fold rest. rewrite TR. apply agree_ok_Pf; auto.
           intros y Hy. rewrite LR by exact Hy. apply LK1. exact Hy.
        -- exact REC.
        -- cbn [with_stk w_stk w_out w_asr mkw]. fold rest. rewrite TR. apply agree_ok_Pf; auto.
           intros y Hy. rewrite LR by exact Hy. apply LK1. exact Hy.
      * destruct (for_exit Jx AJ x own0 rest bound NJ BX) as [R1 [TR [NR LR]]].
        cbn [with_stk w_stk w_out w_asr mkw]. fold rest. rewrite TR.
        pose proof (agree_ok_Pf rest asr bound own0 CNormal en out R1 [] alltrue_nil NR EN) as H. rewrite app_nil_r in H. apply H.
        intros y Hy. rewrite LR by exact Hy. apply LK. exact Hy.
Qed.

End Agree.
