(* Proofs of the NanoCore bridge: on the common domain (exact_eval) the reference semantics and the repository's
   eval_fn compute the same value; outside it they differ, with witnesses. *)
From Coq Require Import ZArith NArith List Bool String Ascii Lia.
From NV Require Import Lang.Ast Lang.Ref Back.NanoCoreBridge.
Require NV.NanoCore.Syntax NV.NanoCore.Semantics NV.NanoCore.EvalFn.
Import ListNotations.
Local Open Scope Z_scope.

Lemma pos_name_inj p : forall q, pos_name p = pos_name q -> p = q.
Proof.
  induction p as [p IH|p IH|]; intros [q|q|] H; simpl in H; try discriminate; try reflexivity;
    inversion H; f_equal; apply IH; assumption.
Qed.
Lemma pos_name_not_z p : pos_name p <> "z"%string.
Proof. destruct p; simpl; discriminate. Qed.
Lemma vname_inj x y : vname x = vname y -> x = y.
Proof.
  destruct x as [|p], y as [|q]; simpl; intros H; try reflexivity.
  - symmetry in H. exfalso. eapply pos_name_not_z; eassumption.
  - exfalso. eapply pos_name_not_z; eassumption.
  - f_equal. apply pos_name_inj; assumption.
Qed.
Lemma vname_eqb x y : String.eqb (vname x) (vname y) = N.eqb x y.
Proof.
  destruct (N.eqb_spec x y) as [->|N]; [apply String.eqb_refl|].
  apply String.eqb_neq. intros H. apply N. apply vname_inj; assumption.
Qed.

Definition scalar (v : value) : bool := match v with VInt _ | VBool _ => true | _ => false end.
Definition all_scalar (en : env) : Prop := Forall (fun b => scalar (snd (snd b)) = true) en.

Lemma lookup_embed en x m v v' : all_scalar en -> lookup x en = Some (m, v) -> embed_val v = Some v' ->
  NV.NanoCore.Syntax.env_lookup (vname x) (embed_env en) = Some v'.
Proof.
  intros Hs. induction Hs as [|[y [my w]] r Hw Hr IH]; simpl; [discriminate|].
  intros HL HE. simpl in Hw.
  destruct w as [z|b| |s|l]; try discriminate Hw; simpl; rewrite vname_eqb;
    destruct (N.eqb x y); try (apply IH; assumption);
    inversion HL; subst; simpl in HE; inversion HE; reflexivity.
Qed.

Lemma chk_some z v : chk z = Some v -> v = VInt z /\ in64 z = true.
Proof. unfold chk. destruct (in64 z) eqn:E; [|discriminate]. intros H; inversion H; auto. Qed.

Lemma wrap_in z : in64 z = true -> wrap64 z = z.
Proof.
  unfold in64, wrap64. intros H. apply andb_true_iff in H. destruct H as [H1 H2].
  apply Z.leb_le in H1. apply Z.leb_le in H2. rewrite Z.mod_small by lia. lia.
Qed.

Section Ref.
Variable fns : list fn.

(* reference side: inside the common domain the reference computes the exact value, printing nothing *)
Lemma bridge_ref e : forall en v, exact_eval en e = Some v ->
  forall fuel out, (esize e < fuel)%nat -> eval_expr fns fuel [] en e out = Ok v out.
Proof.
  induction e as [z|b|s|x|o a IHa|o a IHa b IHb|f args|c IHc a IHa b IHb|es|a0 IHa0 i0 IHi0|a0 IHa0|so a0 IHa0|so a0 IHa0 b0 IHb0|a0 IHa0 b0 IHb0 c0 IHc0]; intros en v H fuel out Hf;
    (destruct fuel as [|fuel]; [simpl in Hf; lia|]); cbn [eval_expr]; cbn [exact_eval] in H; cbn [esize] in Hf.
  - apply chk_some in H. destruct H as [-> _]. reflexivity.
  - inversion H; reflexivity.
  - discriminate.
  - destruct (lookup x en) as [[m w]|]; [|discriminate]. destruct w as [z|b| |s|l]; try discriminate.
    + apply chk_some in H. destruct H as [-> _]. reflexivity.
    + inversion H; reflexivity.
  - destruct o.
    + destruct (exact_eval en a) as [[x| | | |]|] eqn:E; try discriminate.
      rewrite (IHa en _ E) by lia. cbn. apply chk_some in H. destruct H as [-> Hr]. rewrite wrap_in by exact Hr. reflexivity.
    + destruct (exact_eval en a) as [[|bb| | |]|] eqn:E; try discriminate.
      rewrite (IHa en _ E) by lia. cbn. inversion H; reflexivity.
  - destruct (exact_eval en a) as [va|] eqn:Ea; [|discriminate].
    destruct (exact_eval en b) as [vb|] eqn:Eb; [|destruct va; discriminate].
    pose proof (IHa en _ Ea fuel out ltac:(lia)) as Ra. pose proof (fun o' => IHb en _ Eb fuel o' ltac:(lia)) as Rb.
    destruct va as [x|x| | |]; destruct vb as [y|y| | |]; try discriminate;
      destruct o; try discriminate; cbn iota; rewrite Ra; cbn [bind]; try rewrite Rb; cbn [bind of_opres eval_binop value_eqb];
      try (apply chk_some in H; destruct H as [-> Hr]; rewrite wrap_in by exact Hr; reflexivity);
      try (inversion H; subst; try reflexivity).
    + (* div *)
      destruct (0 <=? x) eqn:Hx; destruct (0 <? y) eqn:Hy; cbn in H; try discriminate.
      apply Z.leb_le in Hx. apply Z.ltb_lt in Hy. apply chk_some in H. destruct H as [-> Hr].
      destruct (Z.eqb_spec y 0); [lia|]. unfold min64.
      destruct (Z.eqb_spec x (-9223372036854775808)); [lia|]. cbn. rewrite Z.quot_div_nonneg by lia. reflexivity.
    + (* mod *)
      destruct (0 <=? x) eqn:Hx; destruct (0 <? y) eqn:Hy; cbn in H; try discriminate.
      apply Z.leb_le in Hx. apply Z.ltb_lt in Hy. apply chk_some in H. destruct H as [-> Hr].
      destruct (Z.eqb_spec y 0); [lia|]. unfold min64.
      destruct (Z.eqb_spec x (-9223372036854775808)); [lia|]. cbn. rewrite Z.rem_mod_nonneg by lia. reflexivity.
    + (* gt *) rewrite Z.gtb_ltb. reflexivity.
    + (* ge *) rewrite Z.geb_leb. reflexivity.
    + (* and on bools: reference short-circuits *) destruct x, y; try rewrite Rb; reflexivity.
    + destruct x, y; try rewrite Rb; reflexivity.
  - discriminate.
  - destruct (exact_eval en c) as [[|[|]| | |]|] eqn:Ec; try discriminate;
      rewrite (IHc en _ Ec) by lia; cbn [bind]; [apply IHa|apply IHb]; try assumption; lia.
  - discriminate.
  - discriminate.
  - discriminate.
  - discriminate.
  - discriminate.
  - discriminate.
Qed.
End Ref.

(* NanoCore side *)
Lemma bridge_nc e : forall en v v', all_scalar en -> exact_eval en e = Some v -> embed_val v = Some v' ->
  forall ne, embed_expr e = Some ne ->
  forall fuel, (esize e < fuel)%nat -> NV.NanoCore.EvalFn.eval_fn fuel (embed_env en) ne = Some (embed_env en, v').
Proof.
  induction e as [z|b|s|x|o a IHa|o a IHa b IHb|f args|c IHc a IHa b IHb|es|a0 IHa0 i0 IHi0|a0 IHa0|so a0 IHa0|so a0 IHa0 b0 IHb0|a0 IHa0 b0 IHb0 c0 IHc0]; intros en v v' Hs H Hv ne Hn fuel Hf;
    (destruct fuel as [|fuel]; [simpl in Hf; lia|]); cbn [exact_eval] in H; cbn [embed_expr] in Hn; cbn [esize] in Hf.
  - apply chk_some in H. destruct H as [-> _]. inversion Hn; subst. inversion Hv; subst. reflexivity.
  - inversion H; subst. inversion Hn; subst. inversion Hv; subst. reflexivity.
  - discriminate.
  - inversion Hn; subst. cbn [NV.NanoCore.EvalFn.eval_fn].
    destruct (lookup x en) as [[m w]|] eqn:L; [|discriminate].
    assert (Hw : exists w', embed_val w = Some w' /\ w' = v').
    { destruct w as [z|b| |s|l]; try discriminate.
      - apply chk_some in H. destruct H as [-> _]. eexists; split; [reflexivity|]. inversion Hv; reflexivity.
      - inversion H; subst. eexists; split; [reflexivity|]. inversion Hv; reflexivity. }
    destruct Hw as [w' [Hw1 ->]]. rewrite (lookup_embed en x m w v' Hs L Hw1). reflexivity.
  - destruct o; destruct (embed_expr a) as [a'|] eqn:Ea'; try discriminate; inversion Hn; subst; cbn [NV.NanoCore.EvalFn.eval_fn].
    + destruct (exact_eval en a) as [[x| | | |]|] eqn:E; try discriminate.
      rewrite (IHa en _ (NV.NanoCore.Syntax.VInt x) Hs E eq_refl a' eq_refl) by lia.
      apply chk_some in H. destruct H as [-> _]. inversion Hv; reflexivity.
    + destruct (exact_eval en a) as [[|bb| | |]|] eqn:E; try discriminate.
      rewrite (IHa en _ (NV.NanoCore.Syntax.VBool bb) Hs E eq_refl a' eq_refl) by lia.
      inversion H; subst. inversion Hv; reflexivity.
  - destruct (embed_expr a) as [a'|] eqn:Ea'; [|discriminate]. destruct (embed_expr b) as [b'|] eqn:Eb'; [|discriminate].
    inversion Hn; subst. cbn [NV.NanoCore.EvalFn.eval_fn].
    destruct (exact_eval en a) as [va|] eqn:Ea; [|discriminate].
    destruct (exact_eval en b) as [vb|] eqn:Eb; [|destruct va; discriminate].
    destruct va as [x|x| | |]; destruct vb as [y|y| | |]; try discriminate.
    + rewrite (IHa en _ (NV.NanoCore.Syntax.VInt x) Hs Ea eq_refl a' eq_refl) by lia.
      rewrite (IHb en _ (NV.NanoCore.Syntax.VInt y) Hs Eb eq_refl b' eq_refl) by lia.
      destruct o; cbn; try discriminate;
        try (apply chk_some in H; destruct H as [-> _]; inversion Hv; reflexivity);
        try (inversion H; subst; inversion Hv; reflexivity).
      * destruct (0 <=? x) eqn:Hx; destruct (0 <? y) eqn:Hy; cbn in H; try discriminate.
        apply Z.ltb_lt in Hy. destruct (Z.eqb_spec y 0); [lia|].
        apply chk_some in H; destruct H as [-> _]; inversion Hv; reflexivity.
      * destruct (0 <=? x) eqn:Hx; destruct (0 <? y) eqn:Hy; cbn in H; try discriminate.
        apply Z.ltb_lt in Hy. destruct (Z.eqb_spec y 0); [lia|].
        apply chk_some in H; destruct H as [-> _]; inversion Hv; reflexivity.
    + rewrite (IHa en _ (NV.NanoCore.Syntax.VBool x) Hs Ea eq_refl a' eq_refl) by lia.
      rewrite (IHb en _ (NV.NanoCore.Syntax.VBool y) Hs Eb eq_refl b' eq_refl) by lia.
      destruct o; cbn; try discriminate; inversion H; subst; inversion Hv; reflexivity.
  - discriminate.
  - destruct (embed_expr c) as [c'|] eqn:Ec'; [|discriminate]. destruct (embed_expr a) as [a'|] eqn:Ea'; [|discriminate].
    destruct (embed_expr b) as [b'|] eqn:Eb'; [|discriminate]. inversion Hn; subst. cbn [NV.NanoCore.EvalFn.eval_fn].
    destruct (exact_eval en c) as [[|[|]| | |]|] eqn:Ec; try discriminate.
    + rewrite (IHc en _ (NV.NanoCore.Syntax.VBool true) Hs Ec eq_refl c' eq_refl) by lia. apply (IHa en v v' Hs H Hv a' eq_refl). lia.
    + rewrite (IHc en _ (NV.NanoCore.Syntax.VBool false) Hs Ec eq_refl c' eq_refl) by lia. apply (IHb en v v' Hs H Hv b' eq_refl). lia.
  - discriminate.
  - discriminate.
  - discriminate.
  - discriminate.
  - discriminate.
  - discriminate.
Qed.

(* the bridge: inside the common domain the language definition and the repository's proved semantics agree *)
Theorem bridge fns e en v v' ne :
  all_scalar en -> exact_eval en e = Some v -> embed_val v = Some v' -> embed_expr e = Some ne ->
  forall fuel out, (esize e < fuel)%nat ->
    eval_expr fns fuel [] en e out = Ok v out /\ nanocore_eval fuel en e = Some v'.
Proof.
  intros Hs H Hv En fuel out Hf. split; [apply bridge_ref; assumption|].
  unfold nanocore_eval. rewrite En. rewrite (bridge_nc e en v v' Hs H Hv ne En fuel Hf). reflexivity.
Qed.
