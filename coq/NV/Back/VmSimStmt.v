(* VM simulation, stage C: statements without loops: skip, sequence, let, set, if, print, assert, expression
   statement, return.  One lemma per construct, taking the simulation of the immediate parts as hypotheses. *)
From Coq Require Import ZArith NArith List Bool Lia.
From NV Require Import Base.Bytes Isa.Codec Isa.CodecProofs gen.IsaTable Lang.Ast Lang.Ref Back.VmCompile Back.VmExec Back.OpTable
  Back.VmSimFetch Back.VmSimStep Back.VmSimComp Back.VmSimWf Back.VmSimEnv Back.VmSimDefs Back.VmSimExpr.
Require NV.Back.Agree.
Import ListNotations.

Lemma print_same v : mval_print 8 (mval_of v) = print_value v.
Proof. exact (NV.Back.Agree.print_alike v). Qed.

Lemma rpost_weaken {A} (P Q : A -> list N -> mres -> Prop) (r : res A) m :
  (forall a o, P a o m -> Q a o m) -> rpost P r m -> rpost Q r m.
Proof. intros H. destruct r as [a o|f o| |]; cbn [rpost]; auto. Qed.

Lemma compile_if_skip G pos L ce c0 s1 p :
  compile_stmt G pos L ce (SIf c0 s1 SSkip) p =
  match compile_expr G ce c0 p with
  | Some (cc, p1) =>
      match compile_stmt G (pos + csize cc + 5) L ce s1 p1 with
      | Some (c1, ce1r, p2) =>
          Some (cc ++ [mk OP_JMP_FALSE [i32 (Z.of_nat (5 + csize c1))]] ++ c1, hide_from (length ce) ce1r, p2)
      | None => None end
  | None => None end.
Proof. reflexivity. Qed.

Lemma compile_if_else G pos L ce c0 s1 s2 p : is_skip s2 = false ->
  compile_stmt G pos L ce (SIf c0 s1 s2) p =
  match compile_expr G ce c0 p with
  | Some (cc, p1) =>
      match compile_stmt G (pos + csize cc + 5) L ce s1 p1 with
      | Some (c1, ce1r, p2) =>
          match compile_stmt G (pos + csize cc + 5 + csize c1 + 5) L (hide_from (length ce) ce1r) s2 p2 with
          | Some (c2, ce2, p3) =>
              Some (cc ++ [mk OP_JMP_FALSE [i32 (Z.of_nat (5 + csize c1 + 5))]] ++ c1 ++
                    [mk OP_JMP [i32 (Z.of_nat (5 + csize c2))]] ++ c2,
                    hide_from (length (hide_from (length ce) ce1r)) ce2, p3)
          | None => None end
      | None => None end
  | None => None end.
Proof.
  intros H. cbn [compile_stmt]. destruct (compile_expr G ce c0 p) as [[cc p1]|]; [|reflexivity].
  destruct (compile_stmt G (pos + csize cc + 5) L ce s1 p1) as [[[c1 ce1r] p2]|]; [|reflexivity].
  destruct s2; try discriminate H; reflexivity.
Qed.

Lemma exec_skip fns fuel genv en out r :
  exec_stmt fns fuel genv en SSkip out = r ->
  r = NoFuel \/ r = Ok (CNormal, en) out.
Proof. destruct fuel; cbn [exec_stmt]; intros <-; auto. Qed.

Section Stmt.
Variable fns : list fn.
Variable G : genv.
Variable M : vmodule.
Hypothesis HG : length (g_globals G) <= VM_MAX_GLOBALS_N.

Notation expr_sim := (expr_sim fns G M).
Notation stmt_sim := (stmt_sim fns G M).
Ltac inf := unfold in_fn; split; [|split]; eassumption.
Ltac rt := try apply Reach_trivial.

Lemma Reach_one s (Q : mres -> Prop) : Q (step M s) -> Reach M s Q.
Proof. intros H. exists 1. left. cbn [steps]. destruct (step M s); exact H. Qed.

(* changing the frame of reference of a statement postcondition *)
Lemma stmt_post_rebase fn fe ret locs locs1 st cs g ce ext ce' L pos1 pos2 r o m :
  length locs1 = length locs -> keeps ce locs locs1 -> pos1 = pos2 ->
  stmt_post fn fe ret locs1 st cs g (ce ++ ext) ce' L pos1 r o m ->
  stmt_post fn fe ret locs st cs g ce ce' L pos2 r o m.
Proof.
  intros Hl Hk0 <-. unfold stmt_post. destruct (fst r).
  - intros (locs' & -> & Hl' & Hm & Hk). exists locs'. repeat split; auto; try congruence.
    eapply keeps_trans; [exact Hk0|eapply keeps_prefix; exact Hk].
  - intros (l & locs' & ext' & -> & -> & Hl' & Hm & Hk). exists l, locs', (ext ++ ext'). rewrite app_assoc.
    repeat split; auto; try congruence. eapply keeps_trans; [exact Hk0|eapply keeps_prefix; exact Hk].
  - intros (l & locs' & ext' & -> & -> & Hl' & Hm & Hk). exists l, locs', (ext ++ ext'). rewrite app_assoc.
    repeat split; auto; try congruence. eapply keeps_trans; [exact Hk0|eapply keeps_prefix; exact Hk].
  - auto.
Qed.

(* an abnormal outcome does not look at the final scope / position *)
Lemma stmt_post_abnormal fn fe ret locs st cs g ce ce1 ce2 L pos1 pos2 r o m :
  fst r <> CNormal ->
  stmt_post fn fe ret locs st cs g ce ce1 L pos1 r o m -> stmt_post fn fe ret locs st cs g ce ce2 L pos2 r o m.
Proof. unfold stmt_post. destruct (fst r); auto. intros H; contradiction. Qed.

(* leaving a block *)
Lemma stmt_post_exit fn fe ret locs st cs g ce ext L pos' r o m (en : env) :
  length en = count_user (rev ce) ->
  stmt_post fn fe ret locs st cs g ce (ce ++ ext) L pos' r o m ->
  stmt_post fn fe ret locs st cs g ce (ce ++ repeat HIDDEN (length ext)) L pos' (fst r, restore (length en) (snd r)) o m.
Proof.
  intros Hn. unfold stmt_post. cbn [fst snd]. destruct (fst r).
  - intros (locs' & -> & Hl' & Hm & Hk). exists locs'. repeat split; auto. apply match_env_exit; assumption.
  - intros (l & locs' & ext' & -> & -> & Hl' & Hm & Hk). exists l, locs', (repeat HIDDEN (length ext')).
    repeat split; auto. apply match_env_exit; assumption.
  - intros (l & locs' & ext' & -> & -> & Hl' & Hm & Hk). exists l, locs', (repeat HIDDEN (length ext')).
    repeat split; auto. apply match_env_exit; assumption.
  - auto.
Qed.

Lemma hidden_repeat n : Forall (fun h => (HIDDEN <= h)%N) (repeat HIDDEN n).
Proof. induction n; constructor; [apply N.le_refl|assumption]. Qed.

Lemma sim_SSkip fuel : stmt_sim (S fuel) SSkip.
Proof.
  intros genv en out ce p c ce' p' L fn fe cf pos ret locs st cs g (Hfe & Hcode & Hsz) Hcomp Hc HL Hok Hme Hlen Hmg Hpool Hfuel.
  cbn [exec_stmt rpost]. cbn [compile_stmt] in Hcomp. apply some3_inj in Hcomp. destruct Hcomp as (<- & <- & <-).
  apply Reach_here. exists locs. split; [same_state|]. split; [reflexivity|]. split; [exact Hme|apply keeps_refl].
Qed.

Lemma sim_SSeq fuel s1 s2 : stmt_sim fuel s1 -> stmt_sim fuel s2 -> stmt_sim (S fuel) (SSeq s1 s2).
Proof.
  intros IH1 IH2 genv en out ce p c ce' p' L fn fe cf pos ret locs st cs g (Hfe & Hcode & Hsz) Hcomp Hc HL Hok Hme Hlen Hmg Hpool Hfuel.
  apply fuel_small_S in Hfuel. cbn [exec_stmt]. cbn [compile_stmt] in Hcomp. destruct Hok as [Hok1 Hok2].
  destruct (compile_stmt G pos L ce s1 p) as [[[c1 ce1] p1]|] eqn:E1; [|discriminate].
  destruct (compile_stmt G (pos + csize c1) L ce1 s2 p1) as [[[c2 ce2] p2]|] eqn:E2; [|discriminate].
  apply some3_inj in Hcomp. destruct Hcomp as (<- & <- & <-).
  destruct (compile_stmt_ext _ _ _ _ _ _ _ _ _ E1) as [[x1 ->] P1].
  destruct (compile_stmt_ext _ _ _ _ _ _ _ _ _ E2) as [[x2 ->] P2].
  pose proof (code_at_app_l _ _ _ _ Hc) as Hc1. apply code_at_app_r in Hc.
  rewrite !app_length in Hlen.
  eapply rpost_bind.
  { eapply (IH1 genv en out ce p c1 _ p1 L fn fe cf pos ret locs st cs g); try eassumption; [inf|rewrite app_length; lia|].
    eapply pool_le_trans; eassumption. }
  intros [c0 en1] o1 m _ Hp. cbn [fst snd].
  destruct c0.
  - destruct Hp as (locs' & -> & Hl' & Hm' & Hk'). cbn [fst snd] in *.
    eapply Reach_weaken.
    { eapply (IH2 genv en1 o1 _ p1 c2 _ p2 L fn fe cf (pos + csize c1) ret locs' st cs g); try eassumption; [inf|].
      rewrite !app_length. lia. }
    intros m Hm. eapply rpost_weaken; [|exact Hm]. intros [c3 en3] o3 Hq.
    eapply stmt_post_rebase; [exact Hl'|exact Hk'| |exact Hq]. autorewrite with csz. lia.
  - destruct m; cbn [rpost]; try (eapply stmt_post_abnormal; [cbn; discriminate|exact Hp]).
    apply Reach_here. eapply stmt_post_abnormal; [cbn; discriminate|exact Hp].
  - destruct m; cbn [rpost]; try (eapply stmt_post_abnormal; [cbn; discriminate|exact Hp]).
    apply Reach_here. eapply stmt_post_abnormal; [cbn; discriminate|exact Hp].
  - destruct m; cbn [rpost]; try (eapply stmt_post_abnormal; [cbn; discriminate|exact Hp]).
    apply Reach_here. eapply stmt_post_abnormal; [cbn; discriminate|exact Hp].
Qed.

Lemma sim_SLet fuel mu x t e : expr_sim fuel e -> stmt_sim (S fuel) (SLet mu x t e).
Proof.
  intros IHe genv en out ce p c ce' p' L fn fe cf pos ret locs st cs g (Hfe & Hcode & Hsz) Hcomp Hc HL Hok Hme Hlen Hmg Hpool Hfuel.
  apply fuel_small_S in Hfuel. cbn [exec_stmt]. cbn [compile_stmt] in Hcomp. destruct Hok as [Hx Hoke].
  destruct (compile_expr G ce e p) as [[c1 p1]|] eqn:E1; [|discriminate].
  apply some3_inj in Hcomp. destruct Hcomp as (<- & <- & <-).
  rewrite app_length in Hlen. cbn [length] in Hlen.
  pose proof (code_at_app_l _ _ _ _ Hc) as Hc1. apply code_at_app_r in Hc.
  eapply rpost_bind.
  { eapply (IHe genv en out ce p c1 p1 fn fe cf pos ret locs st cs g); try eassumption. inf. }
  intros v o1 m _ [-> Hv]; cbv iota beta. cbn [rpost].
  vstep Hfe Hcode Hc step_store_local; [lia|].
  apply Reach_here. exists (set_nth (length ce) (mval_of v) locs). split; [same_state|].
  split; [apply set_nth_length; lia|]. cbn [snd]. split; [apply match_env_let; try assumption; lia|apply keeps_set_beyond; lia].
Qed.

Lemma sim_SSet fuel x e : expr_sim fuel e -> stmt_sim (S fuel) (SSet x e).
Proof.
  intros IHe genv en out ce p c ce' p' L fn fe cf pos ret locs st cs g (Hfe & Hcode & Hsz) Hcomp Hc HL Hok Hme Hlen Hmg Hpool Hfuel.
  apply fuel_small_S in Hfuel. cbn [exec_stmt]. cbn [compile_stmt] in Hcomp. destruct Hok as [Hx Hoke].
  destruct (cfind x ce) as [sl|] eqn:Ek.
  - destruct (compile_expr G ce e p) as [[c1 p1]|] eqn:E1; [|discriminate].
    apply some3_inj in Hcomp. destruct Hcomp as (<- & <- & <-).
    pose proof (code_at_app_l _ _ _ _ Hc) as Hc1. apply code_at_app_r in Hc.
    eapply rpost_bind.
    { eapply (IHe genv en out ce p c1 p1 fn fe cf pos ret locs st cs g); try eassumption. inf. }
    intros v o1 m _ [-> Hv]; cbv iota beta.
    destruct (assign x v en) as [en'|] eqn:Ea; cbn [rpost]; rt.
    destruct (match_env_assign _ _ _ _ _ _ Hme Hx Hv Ea) as (k & Hk & Hlt & Hm'). rewrite Ek in Hk. inversion Hk; subst k.
    vstep Hfe Hcode Hc step_store_local; [lia|].
    apply Reach_here. exists (set_nth sl (mval_of v) locs). split; [same_state|].
    split; [apply set_nth_length; lia|]. split; [exact Hm'|eapply keeps_set_user; eassumption].
  - destruct (index_of x (g_globals G) 0) as [gi|]; [|discriminate].
    destruct (compile_expr G ce e p) as [[c1 p1]|] eqn:E1; [|discriminate].
    apply some3_inj in Hcomp. destruct Hcomp as (<- & <- & <-).
    pose proof (code_at_app_l _ _ _ _ Hc) as Hc1.
    eapply rpost_bind.
    { eapply (IHe genv en out ce p c1 p1 fn fe cf pos ret locs st cs g); try eassumption. inf. }
    intros v o1 m _ [-> Hv]; cbv iota beta.
    destruct (assign x v en) as [en'|] eqn:Ea; cbn [rpost]; rt.
    destruct (match_env_assign _ _ _ _ _ _ Hme Hx Hv Ea) as (k & Hk & _). rewrite Ek in Hk. discriminate.
Qed.

Lemma sim_SExpr fuel e : expr_sim fuel e -> stmt_sim (S fuel) (SExpr e).
Proof.
  intros IHe genv en out ce p c ce' p' L fn fe cf pos ret locs st cs g (Hfe & Hcode & Hsz) Hcomp Hc HL Hok Hme Hlen Hmg Hpool Hfuel.
  apply fuel_small_S in Hfuel. cbn [exec_stmt]. cbn [compile_stmt] in Hcomp. cbn [stmt_ok] in Hok.
  destruct (compile_expr G ce e p) as [[c1 p1]|] eqn:E1; [|discriminate].
  apply some3_inj in Hcomp. destruct Hcomp as (<- & <- & <-).
  pose proof (code_at_app_l _ _ _ _ Hc) as Hc1. apply code_at_app_r in Hc.
  eapply rpost_bind.
  { eapply (IHe genv en out ce p c1 p1 fn fe cf pos ret locs st cs g); try eassumption. inf. }
  intros v o1 m _ [-> Hv]; cbv iota beta. cbn [rpost].
  vstep Hfe Hcode Hc step_pop.
  apply Reach_here. exists locs. split; [same_state|]. split; [reflexivity|]. split; [exact Hme|apply keeps_refl].
Qed.

Lemma sim_SPrint fuel nl e : expr_sim fuel e -> stmt_sim (S fuel) (SPrint nl e).
Proof.
  intros IHe genv en out ce p c ce' p' L fn fe cf pos ret locs st cs g (Hfe & Hcode & Hsz) Hcomp Hc HL Hok Hme Hlen Hmg Hpool Hfuel.
  apply fuel_small_S in Hfuel. cbn [exec_stmt]. cbn [compile_stmt] in Hcomp. cbn [stmt_ok] in Hok.
  destruct (compile_expr G ce e p) as [[c1 p1]|] eqn:E1; [|discriminate].
  apply some3_inj in Hcomp. destruct Hcomp as (<- & <- & <-).
  pose proof (code_at_app_l _ _ _ _ Hc) as Hc1. apply code_at_app_r in Hc.
  eapply rpost_bind.
  { eapply (IHe genv en out ce p c1 p1 fn fe cf pos ret locs st cs g); try eassumption. inf. }
  intros v o1 m _ [-> Hv]; cbv iota beta. cbn [rpost].
  vstep Hfe Hcode Hc step_print. vnext Hc. vstep Hfe Hcode Hc step_push_void. vnext Hc. vstep Hfe Hcode Hc step_pop.
  apply Reach_here. exists locs. split; [rewrite print_same; same_state|]. split; [reflexivity|]. split; [exact Hme|apply keeps_refl].
Qed.

Lemma sim_SAssert fuel e : expr_sim fuel e -> stmt_sim (S fuel) (SAssert e).
Proof.
  intros IHe genv en out ce p c ce' p' L fn fe cf pos ret locs st cs g (Hfe & Hcode & Hsz) Hcomp Hc HL Hok Hme Hlen Hmg Hpool Hfuel.
  apply fuel_small_S in Hfuel. cbn [exec_stmt]. cbn [compile_stmt] in Hcomp. cbn [stmt_ok] in Hok.
  destruct (compile_expr G ce e p) as [[c1 p1]|] eqn:E1; [|discriminate].
  apply some3_inj in Hcomp. destruct Hcomp as (<- & <- & <-).
  pose proof (code_at_app_l _ _ _ _ Hc) as Hc1. apply code_at_app_r in Hc.
  eapply rpost_bind.
  { eapply (IHe genv en out ce p c1 p1 fn fe cf pos ret locs st cs g); try eassumption. inf. }
  intros v o1 m _ [-> Hv]; cbv iota beta.
  destruct v as [z|[|]| |s|l]; cbn [rpost]; rt.
  - vstep Hfe Hcode Hc step_assert_ok; [reflexivity|].
    apply Reach_here. exists locs. split; [same_state|]. split; [reflexivity|]. split; [exact Hme|apply keeps_refl].
  - at_code Hc. apply Reach_one. erewrite step_assert_fail; [reflexivity| |reflexivity].
    eapply fetch_at; eassumption.
Qed.

Lemma sim_SReturn_none fuel : stmt_sim (S fuel) (SReturn None).
Proof.
  intros genv en out ce p c ce' p' L fn fe cf pos ret locs st cs g (Hfe & Hcode & Hsz) Hcomp Hc HL Hok Hme Hlen Hmg Hpool Hfuel.
  cbn [exec_stmt rpost]. cbn [compile_stmt] in Hcomp. apply some3_inj in Hcomp. destruct Hcomp as (<- & <- & <-).
  vstep Hfe Hcode Hc step_push_void. vnext Hc.
  at_code Hc. apply Reach_one. erewrite step_ret; [|eapply fetch_at; eassumption].
  split; [reflexivity|exact I].
Qed.

Lemma sim_SReturn_some fuel e : expr_sim fuel e -> stmt_sim (S fuel) (SReturn (Some e)).
Proof.
  intros IHe genv en out ce p c ce' p' L fn fe cf pos ret locs st cs g (Hfe & Hcode & Hsz) Hcomp Hc HL Hok Hme Hlen Hmg Hpool Hfuel.
  apply fuel_small_S in Hfuel. cbn [exec_stmt]. cbn [compile_stmt] in Hcomp. cbn [stmt_ok] in Hok.
  destruct (compile_expr G ce e p) as [[c1 p1]|] eqn:E1; [|discriminate].
  apply some3_inj in Hcomp. destruct Hcomp as (<- & <- & <-).
  pose proof (code_at_app_l _ _ _ _ Hc) as Hc1. apply code_at_app_r in Hc.
  eapply rpost_bind.
  { eapply (IHe genv en out ce p c1 p1 fn fe cf pos ret locs st cs g); try eassumption. inf. }
  intros v o1 m _ [-> Hv]; cbv iota beta. cbn [rpost].
  at_code Hc. apply Reach_one. erewrite step_ret; [|eapply fetch_at; eassumption].
  split; [reflexivity|exact Hv].
Qed.

(* ---------- if ---------- *)
Lemma sim_SIf_skip fuel c0 s1 : expr_sim fuel c0 -> stmt_sim fuel s1 -> stmt_sim (S fuel) (SIf c0 s1 SSkip).
Proof.
  intros IHc IH1 genv en out ce p c ce' p' L fn fe cf pos ret locs st cs g (Hfe & Hcode & Hsz) Hcomp Hc HL Hok Hme Hlen Hmg Hpool Hfuel.
  apply fuel_small_S in Hfuel. cbn [exec_stmt]. rewrite compile_if_skip in Hcomp. destruct Hok as (Hokc & Hok1 & _).
  destruct (compile_expr G ce c0 p) as [[cc p1]|] eqn:Ec; [|discriminate].
  destruct (compile_stmt G (pos + csize cc + 5) L ce s1 p1) as [[[c1 ce1r] p2]|] eqn:E1; [|discriminate].
  apply some3_inj in Hcomp. destruct Hcomp as (<- & <- & <-).
  destruct (compile_stmt_ext _ _ _ _ _ _ _ _ _ E1) as [[x1 ->] P1]. rewrite hide_from_app in *.
  rewrite !app_length, ?repeat_length in Hlen.
  pose proof (match_env_count _ _ _ Hme) as Hcnt.
  pose proof (code_at_bound _ _ _ Hc) as Hbd. autorewrite with csz in Hbd.
  pose proof (code_at_app_l _ _ _ _ Hc) as Hcc. apply code_at_app_r in Hc. cbn [app] in Hc.
  pose proof Hc as Hjf. vnext Hc. autorewrite with csz.
  eapply rpost_bind.
  { eapply (IHc genv en out ce p cc p1 fn fe cf pos ret locs st cs g); try eassumption; [inf|]. eapply pool_le_trans; eassumption. }
  intros vc o1 m _ [-> Hvc]; cbv iota beta.
  destruct vc as [z|b| |s|l]; rt.
  vstep Hfe Hcode Hjf step_jmp_false; [lia|]. cbn [mval_of truthy].
  destruct b.
  - (* then *)
    eapply rpost_bind.
    { at_code Hc. eapply (IH1 genv en o1 ce p1 c1 _ p2 L fn fe cf _ ret locs st cs g); try eassumption; [inf|].
      rewrite app_length. lia. }
    intros r o2 m _ Hp. cbn [rpost].
    assert (Hq : stmt_post fn fe ret locs st cs g ce (ce ++ repeat HIDDEN (length x1)) L (pos + (csize cc + (5 + csize c1)))
                   (fst r, restore (length en) (snd r)) o2 m).
    { eapply stmt_post_exit; [exact Hcnt|]. eapply stmt_post_rebase with (ext := []); [reflexivity|apply keeps_refl| |rewrite app_nil_r; exact Hp]. lia. }
    destruct m; try exact Hq. apply Reach_here. exact Hq.
  - (* condition false, no else branch *)
    destruct (exec_skip fns fuel genv en o1 _ eq_refl) as [E|E]; rewrite E; cbn [bind rpost]; rt.
    apply Reach_here. exists locs. cbn [fst snd]. split; [same_state|]. split; [reflexivity|].
    rewrite restore_all by reflexivity.
    split; [apply match_env_add; [exact Hme|apply hidden_repeat|rewrite repeat_length; lia]|apply keeps_refl].
Qed.

Lemma sim_SIf_else fuel c0 s1 s2 : is_skip s2 = false ->
  expr_sim fuel c0 -> stmt_sim fuel s1 -> stmt_sim fuel s2 -> stmt_sim (S fuel) (SIf c0 s1 s2).
Proof.
  intros Hsk IHc IH1 IH2 genv en out ce p c ce' p' L fn fe cf pos ret locs st cs g (Hfe & Hcode & Hsz) Hcomp Hc HL Hok Hme Hlen Hmg Hpool Hfuel.
  apply fuel_small_S in Hfuel. cbn [exec_stmt]. rewrite compile_if_else in Hcomp by exact Hsk. destruct Hok as (Hokc & Hok1 & Hok2).
  destruct (compile_expr G ce c0 p) as [[cc p1]|] eqn:Ec; [|discriminate].
  destruct (compile_stmt G (pos + csize cc + 5) L ce s1 p1) as [[[c1 ce1r] p2]|] eqn:E1; [|discriminate].
  destruct (compile_stmt_ext _ _ _ _ _ _ _ _ _ E1) as [[x1 ->] P1]. rewrite hide_from_app in *.
  match type of Hcomp with context [compile_stmt G ?q L ?e s2 p2] =>
    destruct (compile_stmt G q L e s2 p2) as [[[c2 ce2] p3]|] eqn:E2; [|discriminate] end.
  destruct (compile_stmt_ext _ _ _ _ _ _ _ _ _ E2) as [[x2 ->] P2]. rewrite hide_from_app in *.
  apply some3_inj in Hcomp. destruct Hcomp as (<- & <- & <-).
  rewrite !app_length, ?repeat_length in Hlen.
  pose proof (match_env_count _ _ _ Hme) as Hcnt.
  pose proof (code_at_bound _ _ _ Hc) as Hbd. autorewrite with csz in Hbd.
  pose proof (code_at_app_l _ _ _ _ Hc) as Hcc. apply code_at_app_r in Hc. cbn [app] in Hc.
  pose proof Hc as Hjf. vnext Hc.
  pose proof (code_at_app_l _ _ _ _ Hc) as Hc1. apply code_at_app_r in Hc. cbn [app] in Hc.
  pose proof Hc as Hje. vnext Hc. autorewrite with csz.
  eapply rpost_bind.
  { eapply (IHc genv en out ce p cc p1 fn fe cf pos ret locs st cs g); try eassumption; [inf|].
    eapply pool_le_trans; [eassumption|]. eapply pool_le_trans; eassumption. }
  intros vc o1 m _ [-> Hvc]; cbv iota beta.
  destruct vc as [z|b| |s|l]; rt.
  vstep Hfe Hcode Hjf step_jmp_false; [lia|]. cbn [mval_of truthy].
  destruct b.
  - (* then branch, followed by the jump over the else branch *)
    eapply rpost_bind.
    { at_code Hc1. eapply (IH1 genv en o1 ce p1 c1 _ p2 L fn fe cf _ ret locs st cs g); try eassumption; [inf|rewrite app_length; lia|].
      eapply pool_le_trans; eassumption. }
    intros r o2 m _ Hp. cbn [rpost].
    assert (Hq : stmt_post fn fe ret locs st cs g ce (ce ++ repeat HIDDEN (length x1)) L (pos + csize cc + 5 + csize c1)
                   (fst r, restore (length en) (snd r)) o2 m).
    { eapply stmt_post_exit; [exact Hcnt|]. eapply stmt_post_rebase with (ext := []); [reflexivity|apply keeps_refl|reflexivity|rewrite app_nil_r; exact Hp]. }
    destruct r as [c3 en3]. cbn [fst snd] in *. destruct c3.
    + destruct Hq as (locs' & -> & Hl' & Hm' & Hk').
      vstep Hfe Hcode Hje step_jmp; [lia|].
      apply Reach_here. exists locs'. split; [same_state|]. split; [exact Hl'|]. cbn [snd].
      split; [|exact Hk']. apply match_env_add; [exact Hm'|apply hidden_repeat|rewrite !app_length, !repeat_length; lia].
    + destruct m; try (eapply stmt_post_abnormal; [cbn; discriminate|exact Hq]).
      apply Reach_here. eapply stmt_post_abnormal; [cbn; discriminate|exact Hq].
    + destruct m; try (eapply stmt_post_abnormal; [cbn; discriminate|exact Hq]).
      apply Reach_here. eapply stmt_post_abnormal; [cbn; discriminate|exact Hq].
    + destruct m; try (eapply stmt_post_abnormal; [cbn; discriminate|exact Hq]).
      apply Reach_here. eapply stmt_post_abnormal; [cbn; discriminate|exact Hq].
  - (* else branch: compiled in the scope where the names of the then branch are retired *)
    assert (Hme1 : match_env (ce ++ repeat HIDDEN (length x1)) en locs)
      by (apply match_env_add; [exact Hme|apply hidden_repeat|rewrite repeat_length; lia]).
    eapply rpost_bind.
    { at_code Hc. eapply (IH2 genv en o1 _ p2 c2 _ p3 L fn fe cf _ ret locs st cs g); try eassumption; [inf|].
      rewrite !app_length, !repeat_length. lia. }
    intros r o2 m _ Hp. cbn [rpost].
    assert (Hq : stmt_post fn fe ret locs st cs g ce ((ce ++ repeat HIDDEN (length x1)) ++ repeat HIDDEN (length x2)) L
                   (pos + (csize cc + (5 + (csize c1 + (5 + csize c2))))) (fst r, restore (length en) (snd r)) o2 m).
    { eapply stmt_post_rebase with (ext := repeat HIDDEN (length x1)) (locs1 := locs); [reflexivity|apply keeps_refl|reflexivity|].
      eapply stmt_post_exit; [|eapply stmt_post_rebase with (ext := []); [reflexivity|apply keeps_refl| |rewrite app_nil_r; exact Hp]; lia].
      rewrite (match_env_count _ _ _ Hme1). reflexivity. }
    destruct m; try exact Hq. apply Reach_here. exact Hq.
Qed.

Lemma sim_SIf fuel c0 s1 s2 :
  expr_sim fuel c0 -> stmt_sim fuel s1 -> stmt_sim fuel s2 -> stmt_sim (S fuel) (SIf c0 s1 s2).
Proof.
  intros IHc IH1 IH2. destruct (is_skip s2) eqn:E.
  - destruct s2; try discriminate E. apply sim_SIf_skip; assumption.
  - apply sim_SIf_else; assumption.
Qed.

End Stmt.
