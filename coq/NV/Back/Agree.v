(* Agreement lemmas between the engine models and the reference semantics that do not need the VM simulation:
   value printing, and "the native model with left-to-right arguments is the reference semantics". *)
From Coq Require Import ZArith NArith List Bool Lia.
From NV Require Import Lang.Ast Lang.Ref Back.VmCompile Back.VmExec Back.NatSem Back.OpTable.
Import ListNotations.

Lemma print_elems_alike n l : forall first,
  (fix go (l : list mval) (first : bool) : list N :=
     match l with [] => [] | x :: r => (if first then [] else [44;32]%N) ++ mval_print n x ++ go r false end) (map MInt l) first
  = print_elems first l.
Proof.
  induction l as [|z l IH]; intros first; [reflexivity|].
  cbn [map print_elems]. rewrite IH. destruct n; reflexivity.
Qed.
Lemma mval_print_arr n l :
  mval_print (S n) (MArr l) =
  [91%N] ++ (fix go (l : list mval) (first : bool) : list N :=
               match l with [] => [] | x :: r => (if first then [] else [44;32]%N) ++ mval_print n x ++ go r false end) l true
         ++ [93%N].
Proof. reflexivity. Qed.
Lemma print_alike v : mval_print 8 (mval_of v) = print_value v.
Proof.
  destruct v; try reflexivity.
  unfold mval_of, print_value. rewrite mval_print_arr, print_elems_alike. reflexivity.
Qed.

(* ---- native model (LtoR) = reference ---- *)
Definition fmap (f : nfault) : fault :=
  match f with NFAssert => FAssert | NFSigfpe => FDivZero | NFSigfpeOv => FDivOverflow | NFOob => FOob | NFStrDomain => FStrDomain end.
Definition rmap {A B} (g : A -> B) (r : nres A) : res B :=
  match r with
  | NOk a out => Ok (g a) out
  | NFault f out => Fault (fmap f) out
  | NStuck => Stuck
  | NCcFail => Stuck
  | NNoFuel => NoFuel
  end.
Definition cmap (c : nctl) : ctl :=
  match c with NCNormal => CNormal | NCBreak => CBreak | NCContinue => CContinue | NCReturn v => CReturn v end.
Definition smap (r : nctl * nenv) : ctl * env := (cmap (fst r), snd r).

Definition nat_as_ref (o : nat_outcome) : outcome :=
  match o with
  | NDone out ex => Done out ex
  | NFaulted f out => Faulted (fmap f) out
  | NStuckO => StuckO
  | NCcFailO => StuckO
  | NOutOfFuel => OutOfFuel
  end.

Lemma rmap_bind {A B A' B'} (f : A -> A') (g : B -> B') (r : nres A) k k' :
  (forall a o, rmap g (k a o) = k' (f a) o) ->
  rmap g (nbind r k) = bind (rmap f r) k'.
Proof. intros H. destruct r; simpl; auto. Qed.

Lemma unop_same o v out : rmap (fun x => x) (of_nopres (nat_unop o v) out) = of_opres (eval_unop o v) out.
Proof. destruct o, v; reflexivity. Qed.

Lemma value_eqb_same a b : nat_value_eqb a b = value_eqb a b.
Proof. destruct a, b; reflexivity. Qed.

Lemma binop_same o a b out : rmap (fun x => x) (of_nopres (nat_binop o a b) out) = of_opres (eval_binop o a b) out.
Proof.
  assert (E : forall x y, rmap (fun v : value => v)
                 (of_nopres match nat_value_eqb x y with Some r => NOV (VBool r) | None => NOStuck end out) =
               of_opres match value_eqb x y with Some r => OV (VBool r) | None => OStuck end out).
  { intros x y. rewrite value_eqb_same. destruct (value_eqb x y); reflexivity. }
  assert (E' : forall x y, rmap (fun v : value => v)
                 (of_nopres match nat_value_eqb x y with Some r => NOV (VBool (negb r)) | None => NOStuck end out) =
               of_opres match value_eqb x y with Some r => OV (VBool (negb r)) | None => OStuck end out).
  { intros x y. rewrite value_eqb_same. destruct (value_eqb x y); reflexivity. }
  destruct o.
  - destruct a, b; reflexivity.
  - destruct a, b; reflexivity.
  - destruct a, b; reflexivity.
  - destruct a, b; try reflexivity. cbn. destruct (Z.eqb z0 0); [reflexivity|].
    destruct (Z.eqb z nmin64 && Z.eqb z0 (-1))%bool eqn:Q; unfold nmin64, min64 in *; rewrite Q; reflexivity.
  - destruct a, b; try reflexivity. cbn. destruct (Z.eqb z0 0); [reflexivity|].
    destruct (Z.eqb z nmin64 && Z.eqb z0 (-1))%bool eqn:Q; unfold nmin64, min64 in *; rewrite Q; reflexivity.
  - destruct a, b; apply E.
  - destruct a, b; apply E'.
  - destruct a, b; reflexivity.
  - destruct a, b; reflexivity.
  - destruct a, b; reflexivity.
  - destruct a, b; reflexivity.
  - destruct a, b; reflexivity.
  - destruct a, b; reflexivity.
Qed.

Lemma str1_same o v out : rmap (fun x => x) (of_nopres (nat_str1 o v) out) = of_opres (eval_str1 o v) out.
Proof. destruct o, v; reflexivity. Qed.
Lemma str2_same o a b out : rmap (fun x => x) (of_nopres (nat_str2 o a b) out) = of_opres (eval_str2 o a b) out.
Proof.
  destruct o, a, b; try reflexivity; cbn [nat_str2 eval_str2];
    try (destruct (concat_v s s0); reflexivity); destruct (char_at_v s z); reflexivity.
Qed.
Lemma substr_same a b c out : rmap (fun x => x) (of_nopres (nat_substr a b c) out) = of_opres (eval_substr a b c) out.
Proof. destruct a, b, c; try reflexivity. cbn [nat_substr eval_substr]. destruct (substr_v s z z0); reflexivity. Qed.

Lemma bind_params_same ps vs : nat_bind_params ps vs = bind_params ps vs.
Proof.
  revert vs; induction ps as [|[x t] ps IH]; intros [|v vs]; simpl; try reflexivity; rewrite IH; reflexivity.
Qed.
Lemma lookup_same x e : nlookup x e = lookup x e.
Proof. induction e as [|[y b] r IH]; simpl; try reflexivity; rewrite IH; reflexivity. Qed.
Lemma assign_same x v e : nassign x v e = assign x v e.
Proof. induction e as [|[y [m w]] r IH]; simpl; try reflexivity; rewrite IH; reflexivity. Qed.
Lemma restore_same n e : nrestore n e = restore n e.
Proof. reflexivity. Qed.

Section Same.
Variable fns : list fn.

Lemma find_fn_same f : nat_find_fn fns f = find_fn fns f.
Proof. reflexivity. Qed.

Definition expr_same (fuel : nat) := forall genv en e out,
  rmap (fun x => x) (nat_expr LtoR fns fuel genv en e out) = eval_expr fns fuel genv en e out.
Definition stmt_same (fuel : nat) := forall genv en s out,
  rmap smap (nat_stmt LtoR fns fuel genv en s out) = exec_stmt fns fuel genv en s out.
Definition for_same (fuel : nat) := forall genv en x i hi body out,
  rmap smap (nat_for LtoR fns fuel genv en x i hi body out) = exec_for fns fuel genv en x i hi body out.

Ltac bindstep := eapply rmap_bind; intros.

Lemma all_same : forall fuel, expr_same fuel /\ stmt_same fuel /\ for_same fuel.
Proof.
  induction fuel as [|fuel [IHe [IHs IHf]]].
  - repeat split; red; intros; reflexivity.
  - split; [|split].
    + (* expressions *)
      red; intros genv en e out. destruct e; cbn [nat_expr eval_expr].
      * reflexivity.
      * reflexivity.
      * reflexivity.
      * change nlookup with lookup. destruct (lookup x en) as [[m v]|]; [reflexivity|].
        destruct (lookup x genv) as [[m v]|]; reflexivity.
      * rewrite <- IHe. bindstep. apply unop_same.
      * destruct o;
          try (rewrite <- IHe; bindstep; rewrite <- IHe; bindstep; apply binop_same).
        -- (* and *) rewrite <- IHe. bindstep. destruct a as [z|[|]| |s|l]; try reflexivity.
           rewrite <- IHe. bindstep. destruct a as [z|b'| |s|l]; reflexivity.
        -- (* or *) rewrite <- IHe. bindstep. destruct a as [z|[|]| |s|l]; try reflexivity.
           rewrite <- IHe. bindstep. destruct a as [z|b'| |s|l]; reflexivity.
      * (* call *)
        match goal with |- rmap _ (nbind ?na _) = bind ?ra _ =>
          assert (HA : rmap (fun x => x) na = ra) end.
        { generalize out. induction args as [|a r IHr]; intros out0; [reflexivity|].
          rewrite <- IHe. bindstep. rewrite <- IHr. bindstep. reflexivity. }
        rewrite <- HA. bindstep. change (nat_find_fn fns f) with (find_fn fns f). destruct (find_fn fns f) as [d|]; [|reflexivity].
        change nat_bind_params with bind_params. destruct (bind_params (fparams d) a) as [en'|]; [|reflexivity].
        rewrite <- IHs. bindstep. destruct a0 as [c e0]. destruct c; reflexivity.
      * (* cond *) rewrite <- IHe. bindstep. destruct a as [z|[|]| |s|l]; try reflexivity; apply IHe.
      * (* array literal *)
        match goal with |- rmap _ (nbind ?na _) = bind ?ra _ =>
          assert (HA : rmap (fun x => x) na = ra) end.
        { generalize out. induction es as [|a r IHr]; intros out0; [reflexivity|].
          rewrite <- IHe. bindstep. rewrite <- IHr. bindstep. reflexivity. }
        rewrite <- HA. bindstep. destruct (ints_of a); reflexivity.
      * (* at *)
        rewrite <- IHe. bindstep. rewrite <- IHe. bindstep.
        unfold nat_at. destruct a as [z|b| |s|l]; try reflexivity. destruct a0 as [k|b| |s|l']; try reflexivity.
        destruct (arr_get l k); reflexivity.
      * (* array_length *) rewrite <- IHe. bindstep. destruct a as [z|b| |s|l]; reflexivity.
      * (* string builtins *) rewrite <- IHe. bindstep. apply str1_same.
      * rewrite <- IHe. bindstep. rewrite <- IHe. bindstep. apply str2_same.
      * rewrite <- IHe. bindstep. rewrite <- IHe. bindstep. rewrite <- IHe. bindstep. apply substr_same.
    + (* statements *)
      red; intros genv en s out. destruct s; cbn [nat_stmt exec_stmt].
      * reflexivity.
      * rewrite <- IHs. bindstep. destruct a as [c e0]. destruct c; try reflexivity. apply IHs.
      * rewrite <- IHe. bindstep. reflexivity.
      * rewrite <- IHe. bindstep. change nassign with assign. destruct (assign x a en); reflexivity.
      * rewrite <- IHe. bindstep. destruct a as [z|b| |s'|l']; try reflexivity.
        rewrite <- IHs. bindstep. destruct a as [c0 e0]. reflexivity.
      * rewrite <- IHe. bindstep. destruct a as [z|[|]| |s'|l']; try reflexivity.
        rewrite <- IHs. bindstep. destruct a as [c0 e0]. destruct c0; try reflexivity; cbn; apply IHs.
      * rewrite <- IHe. bindstep. rewrite <- IHe. bindstep.
        destruct a as [z| | | |]; destruct a0 as [z0| | | |]; try reflexivity. apply IHf.
      * reflexivity.
      * reflexivity.
      * destruct e as [e|]; [|reflexivity]. rewrite <- IHe. bindstep. reflexivity.
      * rewrite <- IHe. bindstep. reflexivity.
      * rewrite <- IHe. bindstep. destruct a as [z|[|]| |s'|l']; reflexivity.
      * rewrite <- IHe. bindstep. reflexivity.
    + (* for *)
      red; intros genv en x i hi body out. cbn [nat_for exec_for].
      destruct (Z.ltb i hi); [|reflexivity].
      rewrite <- IHs. bindstep. destruct a as [c0 e0]. destruct c0; try reflexivity; cbn; apply IHf.
Qed.

Lemma globals_same fuel gs : forall genv out,
  rmap (fun x => x) (nat_globals LtoR fns fuel gs genv out) = eval_globals fns fuel gs genv out.
Proof.
  induction gs as [|[[x t] e] r IH]; intros genv out; [reflexivity|].
  cbn [nat_globals eval_globals]. rewrite <- (proj1 (all_same fuel)). eapply rmap_bind; intros. apply IH.
Qed.
End Same.

Theorem nat_ltor_is_ref fuel p : cc_refuses p = false -> nat_as_ref (run_nat LtoR fuel p) = run_ref fuel p.
Proof.
  intros H. unfold run_nat, run_ref. rewrite H.
  rewrite <- globals_same. destruct (nat_globals LtoR (pfns p) fuel (pglobals p) [] []) as [genv out| | | |]; try reflexivity.
  cbn [rmap]. rewrite <- (proj1 (all_same (pfns p) fuel)).
  destruct (nat_expr LtoR (pfns p) fuel genv [] (ECall (pmain p) []) out) as [v o| | | |]; try reflexivity.
  destruct v; reflexivity.
Qed.
