(* VM simulation: a syntactic way to discharge fn_epilogue_ok.  A body that always returns needs no epilogue; a body
   whose last statement is an expression statement, a print or an assert ends in the byte POP / ASSERT, so the
   compiler's last-byte check adds the "push void; ret" epilogue. *)
From Coq Require Import ZArith NArith List Bool Lia.
From NV Require Import Base.Bytes Isa.Codec Isa.CodecProofs gen.IsaTable Lang.Ast Back.VmCompile Back.VmExec
  Back.VmSimFetch Back.VmSimComp Back.VmSimWf Back.VmSimDefs Back.VmSimMod.
Import ListNotations.

Fixpoint ends_plain (s : stmt) : bool :=
  match s with
  | SSeq _ b => ends_plain b
  | SExpr _ | SPrint _ _ | SAssert _ => true
  | _ => false
  end.

Lemma last_byte_snoc bs o : last_byte_is_ret (bs ++ [o]) = N.eqb o OP_RET.
Proof. unfold last_byte_is_ret. unfold byte in *. rewrite rev_app_distr. reflexivity. Qed.

Lemma compile_ends_plain G s : forall pos L ce p c ce' p',
  ends_plain s = true -> compile_stmt G pos L ce s p = Some (c, ce', p') ->
  exists c0 o, c = c0 ++ [mk o []] /\ table o = Some [] /\ N.eqb o OP_RET = false.
Proof.
  induction s as [ |s1 IH1 s2 IH2|m x t e|x e|c0 s1 IH1 s2 IH2|c0 body IHb|x lo hi body IHb| | |e|nl e|e|e];
    intros pos L ce p c ce' p' He H; try discriminate He; cbn [ends_plain] in He; cbn [compile_stmt] in H.
  - dst H. dst H. apply some3_inj in H. destruct H as (<- & _ & _).
    destruct (IH2 _ _ _ _ _ _ _ He E0) as (k & o & -> & Ho & Hr). exists (l ++ k), o. rewrite app_assoc. auto.
  - dex H. apply some3_inj in H. destruct H as (<- & _ & _).
    exists (l ++ [mk (if nl then OP_PRINTLN else OP_PRINT) []; mk OP_PUSH_VOID []]), OP_POP.
    rewrite <- app_assoc. auto.
  - dex H. apply some3_inj in H. destruct H as (<- & _ & _). exists l, OP_ASSERT. auto.
  - dex H. apply some3_inj in H. destruct H as (<- & _ & _). exists l, OP_POP. auto.
Qed.

Lemma ends_plain_epilogue_ok G d : ends_plain (fbody d) = true -> fn_epilogue_ok G d.
Proof.
  intros He. right. intros p c ce p' bs Hc Hb.
  destruct (compile_ends_plain _ _ _ _ _ _ _ _ _ He Hc) as (c0 & o & -> & Ho & Hr).
  rewrite encode_all_app in Hb. destruct (encode_all c0) as [b0|]; [|discriminate].
  cbn [encode_all] in Hb. unfold encode in Hb. cbn [op mk args] in Hb. rewrite Ho in Hb. cbn [enc_args] in Hb.
  inversion Hb; subst bs. cbn [app]. rewrite ?app_nil_r. rewrite last_byte_snoc. exact Hr.
Qed.

Lemma always_returns_epilogue_ok G d : always_returns (fbody d) = true -> fn_epilogue_ok G d.
Proof. intros H. left. exact H. Qed.
