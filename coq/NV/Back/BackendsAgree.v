(* C01 at the level of the two engine models: composition of the VM simulation (VmSim*: the reference semantics is
   simulated by the NanoVM running the compiled bytecode) with the native-order theorem (NatOrder*: the native model
   with gcc's right-to-left argument order reaches the reference outcome when every call has at most one argument
   that can have an effect).  Both engine models are tied to the real backends by tools/props/c02.py. *)
From Coq Require Import ZArith NArith List Bool Lia.
From NV Require Import Lang.Ast Lang.Ref Back.VmCompile Back.VmExec Back.NatSem Back.Agree Back.NatOrder Back.NatOrderProofs
  Back.VmSimDefs Back.VmSimMod Back.VmSimFinal.
Import ListNotations.

Theorem backends_agree pr M fuel out ex :
  compile_program pr = Some M -> small_program pr -> fuel_small fuel -> depth_ok M ->
  se_program pr = true -> cc_refuses pr = false -> (forall fuel', run_nat RtoL fuel' pr <> NStuckO) ->
  run_ref fuel pr = Done out ex ->
  (exists fv, run_vm fv M = VDone out ex) /\ (exists fn, run_nat RtoL fn pr = NDone out ex).
Proof.
  intros Hc Hs Hf Hd Hse Hcc Hst Hr. split.
  - eapply vm_correct_depth_ok; eassumption.
  - destruct (native_rtol_reaches_ref_nostuck pr fuel Hse Hcc) as [fn E]; try (rewrite Hr; discriminate); [exact Hst|].
    exists fn. rewrite Hr in E. destruct (run_nat RtoL fn pr); cbn in E; try discriminate.
    inversion E; subst. reflexivity.
Qed.

(* failed assertions: both engines stop with the same output (VM: error AssertFailed; native: exit 1) *)
Theorem backends_agree_assert pr M fuel out :
  compile_program pr = Some M -> small_program pr -> fuel_small fuel -> depth_ok M ->
  se_program pr = true -> cc_refuses pr = false -> (forall fuel', run_nat RtoL fuel' pr <> NStuckO) ->
  run_ref fuel pr = Faulted FAssert out ->
  (exists fv, run_vm fv M = VError EAssert out) /\ (exists fn, run_nat RtoL fn pr = NFaulted NFAssert out).
Proof.
  intros Hc Hs Hf Hd Hse Hcc Hst Hr. split.
  - eapply vm_correct_assert_depth_ok; eassumption.
  - destruct (native_rtol_reaches_ref_nostuck pr fuel Hse Hcc) as [fn E]; try (rewrite Hr; discriminate); [exact Hst|].
    exists fn. rewrite Hr in E. destruct (run_nat RtoL fn pr) as [o e|f o| | |]; cbn in E; try discriminate.
    destruct f; cbn in E; inversion E; subst; reflexivity.
Qed.

(* an index out of range: both engines stop at the access with the same output (VM: bounds error; native: the
   runtime's assertion fails and the process aborts) *)
Theorem backends_agree_oob pr M fuel out :
  compile_program pr = Some M -> small_program pr -> fuel_small fuel -> depth_ok M ->
  se_program pr = true -> cc_refuses pr = false -> (forall fuel', run_nat RtoL fuel' pr <> NStuckO) ->
  run_ref fuel pr = Faulted FOob out ->
  (exists fv, run_vm fv M = VError EOob out) /\ (exists fn, run_nat RtoL fn pr = NFaulted NFOob out).
Proof.
  intros Hc Hs Hf Hd Hse Hcc Hst Hr. split.
  - eapply vm_correct_oob_depth_ok; eassumption.
  - destruct (native_rtol_reaches_ref_nostuck pr fuel Hse Hcc) as [fn E]; try (rewrite Hr; discriminate); [exact Hst|].
    exists fn. rewrite Hr in E. destruct (run_nat RtoL fn pr) as [o e|f o| | |]; cbn in E; try discriminate.
    destruct f; cbn in E; inversion E; subst; reflexivity.
Qed.
