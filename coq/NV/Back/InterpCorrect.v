(* Program-level consequences of InterpSemProofs.all_agree: the whole of run_shadow_tests (constants, then every
   shadow block, each a block of its own on the stack of constants) against the reference semantics, test by test. *)
From Coq Require Import ZArith NArith List Bool Lia.
From NV Require Import Lang.Ast Lang.Ref Back.InterpSem Back.InterpLemmas Driver.ShadowGate Back.NamesApart Back.InterpSemProofs
                       Back.NatSem Back.Agree.
Import ListNotations.

(* what interp_correct says about one executed shadow block: [r] = reference result, [t] = what the evaluator reports *)
Definition test_agrees (f : ident) (r : res (ctl * env)) (t : test_result) : Prop :=
  tr_name t = f /\
  match r with
  | Ok _ out => tr_out t = out /\ alltrue (tr_asserts t) /\ test_passed t = true
  | Fault FAssert _ => test_passed t = false
  | _ => True
  end.

(* the claim runs along the tests for as long as the reference semantics passes them: after a failed assertion the
   reference stops while the evaluator goes on, in states the language does not define *)
Fixpoint agree_run (fns : list fn) (fuel : nat) (genv : env) (shs : list shadow) (rs : list test_result) : Prop :=
  match shs with
  | [] => rs = []
  | sh :: r =>
      if sh_skip sh then agree_run fns fuel genv r rs
      else match rs with
           | [] => False
           | t :: rs' =>
               test_agrees (sh_fn sh) (ref_test fns fuel genv (sh_body sh)) t /\
               match ref_test fns fuel genv (sh_body sh) with
               | Ok _ _ => agree_run fns fuel genv r rs'
               | _ => True
               end
           end
  end.

Lemma alltrue_passed l : alltrue l -> length (filter negb l) = 0.
Proof.
  unfold alltrue. induction l as [|b r IH]; simpl; intros H; [reflexivity|].
  apply andb_true_iff in H. destruct H as [H1 H2]. subst b. simpl. apply IH. exact H2.
Qed.

Lemma failed_not_passed l : existsb negb l = true -> Nat.eqb (length (filter negb l)) 0 = false.
Proof.
  induction l as [|b r IH]; simpl; intros H; [discriminate|].
  destruct b; simpl in *; [apply IH; exact H|reflexivity].
Qed.

Section Run.
Variable fns : list fn.
Variable gn : list ident.
Hypothesis Hfns : forall d, In d fns -> fn_ok gn d = true.

(* ---- top-level constants *)
Lemma locals_ok_nil : locals_ok gn [] [].
Proof. intros x []. Qed.

Lemma globals_agree fuel base : forall gs genv0 out asr,
  incl (names genv0) gn -> incl (map (fun g => fst (fst g)) gs) gn -> forallb (fun g => expr_plain (snd g)) gs = true ->
  match eval_globals fns fuel gs genv0 out with
  | Ok genv out' => incl (names genv) gn /\
      exists l, iglobals fns fuel gs (mkw (genv0 ++ base) out asr) = IOk tt (mkw (genv ++ base) out' (asr ++ l))
  | _ => True
  end.
Proof.
  induction gs as [|[[x t] e] r IH]; intros genv0 out asr G0 GS PL; simpl.
  - split; [exact G0|]. exists []. rewrite app_nil_r. reflexivity.
  - simpl in PL. apply andb_true_iff in PL. destruct PL as [PL1 PL2].
    pose proof (proj1 (all_agree fns gn Hfns fuel) genv0 base [] [] e out asr G0 locals_ok_nil PL1) as H. simpl in H.
    destruct (eval_expr fns fuel genv0 [] e out) as [v out1|f out1| |]; simpl; try exact I.
    destruct H as [v' [w' [E [-> [l [Hl ->]]]]]]. unfold mkw in E. unfold mkw. rewrite E. simpl.
    assert (G1 : incl (names ((x, (false, v)) :: genv0)) gn).
    { intros y [Hy|Hy]; [subst; apply GS; left; reflexivity|apply G0; exact Hy]. }
    assert (GS1 : incl (map (fun g => fst (fst g)) r) gn) by (intros y Hy; apply GS; right; exact Hy).
    specialize (IH ((x, (false, v)) :: genv0) out1 (asr ++ l) G1 GS1 PL2).
    destruct (eval_globals fns fuel r ((x, (false, v)) :: genv0) out1) as [genv out'|f out'| |]; try exact I.
    destruct IH as [GI [l2 E2]]. split; [exact GI|]. exists (l ++ l2). unfold push, with_stk, mkw in *. simpl in *.
    rewrite E2. rewrite app_assoc. reflexivity.
Qed.

(* ---- the shadow blocks, one after the other; each is a block: when it ends the stack is the constants again *)
Lemma run_tests_agree fuel genv base : incl (names genv) gn ->
  forall shs, forallb (shadow_ok gn) shs = true ->
  forall rs sk stk, run_tests fns fuel shs (genv ++ base) = TDone rs sk stk -> agree_run fns fuel genv shs rs.
Proof.
  intros G. induction shs as [|sh r IH]; intros OK rs sk stk H; simpl in *.
  - inversion H. reflexivity.
  - apply andb_true_iff in OK. destruct OK as [OK1 OK2].
    destruct (sh_skip sh).
    + destruct (run_tests fns fuel r (genv ++ base)) as [rs1 sk1 stk1| | | |? ?] eqn:E; try discriminate.
      inversion H; subst. eapply IH; eauto.
    + unfold shadow_ok in OK1. apply andb_true_iff in OK1. destruct OK1 as [BK SP].
      pose proof (proj1 (proj2 (all_agree fns gn Hfns fuel)) genv base [] [] (sh_body sh) [] [] G locals_ok_nil BK SP) as A.
      unfold ref_test. unfold fresh_world in H. unfold mkw in A. simpl in A.
      destruct (iexec fns fuel (sh_body sh) {| w_stk := genv ++ base; w_out := []; w_asr := [] |}) as [c w| | | |?] eqn:EI; try discriminate.
      destruct (run_tests fns fuel r (truncate (length (genv ++ base)) (w_stk w))) as [rs1 sk1 stk1| | | |? ?] eqn:E; try discriminate.
      inversion H; subst. clear H.
      destruct (exec_stmt fns fuel genv [] (sh_body sh) []) as [[c1 en1] out1|f out1| |].
      * simpl in A. destruct A as [c' [w' [EW [Hc [l [Hl [Hw Hp]]]]]]]. inversion EW; subst. simpl in *.
        split.
        -- split; [reflexivity|]. simpl. split; [reflexivity|]. split; [exact Hl|].
           unfold test_passed, fail_count. simpl. rewrite (alltrue_passed _ Hl). reflexivity.
        -- rewrite truncate_app in E. eapply IH; [exact OK2|exact E].
      * split; [|exact I]. split; [reflexivity|]. destruct f; try exact I. simpl in A.
        unfold test_passed, fail_count. simpl. apply failed_not_passed. apply (A c w eq_refl).
      * split; [|exact I]. split; [reflexivity|exact I].
      * split; [|exact I]. split; [reflexivity|exact I].
Qed.

(* when the reference passes every executed test, the evaluator terminates (with the same fuel) *)
Lemma run_tests_total fuel genv base : incl (names genv) gn ->
  forall shs, forallb (shadow_ok gn) shs = true ->
  (forall sh, In sh shs -> sh_skip sh = false -> exists r out, ref_test fns fuel genv (sh_body sh) = Ok r out) ->
  exists rs sk stk, run_tests fns fuel shs (genv ++ base) = TDone rs sk stk.
Proof.
  intros G. induction shs as [|sh r IH]; intros OK RO; simpl in *.
  - eexists _, _, _. reflexivity.
  - apply andb_true_iff in OK. destruct OK as [OK1 OK2].
    destruct (sh_skip sh) eqn:SK.
    + destruct (IH OK2 (fun s Hs => RO s (or_intror Hs))) as [rs [sk [stk E]]]. rewrite E. eexists _, _, _. reflexivity.
    + unfold shadow_ok in OK1. apply andb_true_iff in OK1. destruct OK1 as [BK SP].
      pose proof (proj1 (proj2 (all_agree fns gn Hfns fuel)) genv base [] [] (sh_body sh) [] [] G locals_ok_nil BK SP) as A.
      destruct (RO sh (or_introl eq_refl) SK) as [[c1 en1] [out1 RE]]. unfold ref_test in RE. rewrite RE in A.
      simpl in A. destruct A as [c' [w' [EW [Hc [l [Hl [Hw Hp]]]]]]]. unfold fresh_world. unfold mkw in EW. simpl in EW. rewrite EW.
      subst w'. simpl. rewrite truncate_app.
      destruct (IH OK2 (fun s Hs => RO s (or_intror Hs))) as [rs [sk [stk E]]].
      rewrite E. eexists _, _, _. reflexivity.
Qed.
End Run.

Lemma names_apart_parts sp : names_apart sp = true ->
  (forall d, In d (pfns (sp_prog sp)) -> fn_ok (gnames (sp_prog sp)) d = true) /\
  forallb (shadow_ok (gnames (sp_prog sp))) (sp_shadows sp) = true /\
  forallb (fun g => expr_plain (snd g)) (pglobals (sp_prog sp)) = true.
Proof.
  unfold names_apart. intros H. apply andb_true_iff in H. destruct H as [H H3]. apply andb_true_iff in H. destruct H as [H1 H2].
  split; [|split; assumption]. intros d Hd. rewrite forallb_forall in H1. apply H1. exact Hd.
Qed.

(* ==================================================================================================== interp_correct *)
Theorem interp_correct_run fuel sp base genv gout rs sk stk :
  names_apart sp = true ->
  eval_globals (pfns (sp_prog sp)) fuel (pglobals (sp_prog sp)) [] [] = Ok genv gout ->
  run_interp fuel sp base = TDone rs sk stk ->
  agree_run (pfns (sp_prog sp)) fuel genv (sp_shadows sp) rs.
Proof.
  intros NA GE RI. destruct (names_apart_parts sp NA) as [HF [HS HG]].
  unfold run_interp in RI.
  pose proof (globals_agree (pfns (sp_prog sp)) (gnames (sp_prog sp)) HF fuel base (pglobals (sp_prog sp)) [] [] []
                (fun x H => match H with end) (fun x H => H) HG) as GA.
  rewrite GE in GA. destruct GA as [GI [l E]]. unfold fresh_world in RI. unfold mkw in E. simpl in E. rewrite E in RI. simpl in RI.
  eapply run_tests_agree; eauto.
Qed.

Theorem interp_total_when_ref_passes fuel sp base genv gout :
  names_apart sp = true ->
  eval_globals (pfns (sp_prog sp)) fuel (pglobals (sp_prog sp)) [] [] = Ok genv gout ->
  (forall sh, In sh (sp_shadows sp) -> sh_skip sh = false -> exists r out, ref_test (pfns (sp_prog sp)) fuel genv (sh_body sh) = Ok r out) ->
  exists rs sk stk, run_interp fuel sp base = TDone rs sk stk.
Proof.
  intros NA GE RO. destruct (names_apart_parts sp NA) as [HF [HS HG]].
  unfold run_interp.
  pose proof (globals_agree (pfns (sp_prog sp)) (gnames (sp_prog sp)) HF fuel base (pglobals (sp_prog sp)) [] [] []
                (fun x H => match H with end) (fun x H => H) HG) as GA.
  rewrite GE in GA. destruct GA as [GI [l E]]. unfold fresh_world. unfold mkw in E. simpl in E. rewrite E. simpl.
  eapply run_tests_total; eauto.
Qed.

(* ==================================================================== pass at compile time => pass at run time *)
(* "defined" = the reference semantics gives the block a meaning: it terminates within the fuel, performs no partial
   operation and is not stuck (it passes, or it fails an assertion) *)
Definition ref_defined (r : res (ctl * env)) : Prop :=
  match r with Ok _ _ => True | Fault FAssert _ => True | _ => False end.

(* the native model executing the same statements (Back/NatSem with the reference's argument order; Back/Agree) *)
Definition nat_test (fns : list fn) (fuel : nat) (genv : nenv) (body : stmt) : nres (nctl * nenv) :=
  nat_stmt LtoR fns fuel genv [] body [].

Fixpoint all_pass_at_run_time (fns : list fn) (fuel : nat) (genv : env) (shs : list shadow) (rs : list test_result) : Prop :=
  match shs with
  | [] => True
  | sh :: r =>
      if sh_skip sh then all_pass_at_run_time fns fuel genv r rs
      else match rs with
           | [] => False
           | t :: rs' =>
               (exists c en out, ref_test fns fuel genv (sh_body sh) = Ok (c, en) out /\
                                 rmap smap (nat_test fns fuel genv (sh_body sh)) = Ok (c, en) out /\ tr_out t = out) /\
               all_pass_at_run_time fns fuel genv r rs'
           end
  end.

Lemma pass_fold fns fuel genv : forall shs rs,
  agree_run fns fuel genv shs rs ->
  (forall sh, In sh shs -> sh_skip sh = false -> ref_defined (ref_test fns fuel genv (sh_body sh))) ->
  all_passed rs = true ->
  all_pass_at_run_time fns fuel genv shs rs.
Proof.
  induction shs as [|sh r IH]; intros rs AR RD AP; simpl in *; [exact I|].
  destruct (sh_skip sh) eqn:SK.
  - apply IH; auto.
  - destruct rs as [|t rs']; [contradiction|]. destruct AR as [[TN TA] AR2].
    simpl in AP. apply andb_true_iff in AP. destruct AP as [AP1 AP2].
    pose proof (RD sh (or_introl eq_refl) SK) as D.
    destruct (ref_test fns fuel genv (sh_body sh)) as [[c en] out|f out| |] eqn:RT; simpl in D; try contradiction.
    + split.
      * exists c, en, out. split; [reflexivity|]. split; [|apply TA].
        unfold nat_test. unfold ref_test in RT. rewrite (proj1 (proj2 (all_same fns fuel))). exact RT.
      * apply IH; auto.
    + destruct f; try contradiction. rewrite TA in AP1. discriminate.
Qed.

Theorem pass_at_compile_time_passes_at_run_time_run fuel sp base genv gout rs sk stk :
  names_apart sp = true ->
  eval_globals (pfns (sp_prog sp)) fuel (pglobals (sp_prog sp)) [] [] = Ok genv gout ->
  (forall sh, In sh (sp_shadows sp) -> sh_skip sh = false -> ref_defined (ref_test (pfns (sp_prog sp)) fuel genv (sh_body sh))) ->
  run_interp fuel sp base = TDone rs sk stk ->
  all_passed rs = true ->
  all_pass_at_run_time (pfns (sp_prog sp)) fuel genv (sp_shadows sp) rs.
Proof.
  intros NA GE RD RI AP. eapply pass_fold; eauto. eapply interp_correct_run; eauto.
Qed.

(* the other direction of C03: a correct program is never refused because the evaluator disagrees *)
Lemma agree_all_ok_passes fns fuel genv : forall shs rs,
  agree_run fns fuel genv shs rs ->
  (forall sh, In sh shs -> sh_skip sh = false -> exists r out, ref_test fns fuel genv (sh_body sh) = Ok r out) ->
  all_passed rs = true.
Proof.
  induction shs as [|sh r IH]; intros rs AR RO; simpl in *.
  - subst. reflexivity.
  - destruct (sh_skip sh) eqn:SK.
    + apply IH; auto.
    + destruct rs as [|t rs']; [contradiction|]. destruct AR as [[TN TA] AR2].
      destruct (RO sh (or_introl eq_refl) SK) as [r0 [out RE]]. rewrite RE in TA, AR2.
      simpl. destruct TA as [_ [_ TP]]. rewrite TP. simpl. apply IH; auto.
Qed.

(* and a test the reference fails is reported as failed (as long as the tests before it pass) *)
Lemma agree_first_failure_fails fns fuel genv : forall shs rs,
  agree_run fns fuel genv shs rs ->
  (forall sh, In sh shs -> sh_skip sh = false -> ref_defined (ref_test fns fuel genv (sh_body sh))) ->
  (exists sh out, In sh shs /\ sh_skip sh = false /\ ref_test fns fuel genv (sh_body sh) = Fault FAssert out) ->
  all_passed rs = false.
Proof.
  induction shs as [|sh r IH]; intros rs AR RD [sh0 [out0 [I0 [S0 F0]]]]; simpl in *; [contradiction|].
  destruct (sh_skip sh) eqn:SK.
  - apply IH; auto. destruct I0 as [I0|I0]; [subst; congruence|]. exists sh0, out0. auto.
  - destruct rs as [|t rs']; [contradiction|]. destruct AR as [[TN TA] AR2]. simpl.
    pose proof (RD sh (or_introl eq_refl) SK) as D.
    destruct (ref_test fns fuel genv (sh_body sh)) as [[c en] out|f out| |] eqn:RT; simpl in D; try contradiction.
    + destruct TA as [_ [_ TP]]. rewrite TP. simpl. apply IH; auto.
      destruct I0 as [I0|I0]; [subst; rewrite RT in F0; discriminate|]. exists sh0, out0. auto.
    + destruct f; try contradiction. rewrite TA. reflexivity.
Qed.
