(* The hypothesis of interp_correct as an executable check (it is extracted and evaluated on every generated program, so
   the harness knows which programs the theorem speaks about).

   names_apart sp holds when
     (a) no binder (parameter, `let`, `for` variable) of any function or shadow block is spelled like a top-level
         constant -- so whatever a function reads as a free name cannot be captured by a caller's local or by a local
         that an earlier shadow block left on the evaluator's stack;
     (b) inside one function / shadow block no binder re-uses a name that is in scope at that point (no shadowing of a
         live name; parameters pairwise distinct) -- so a name bound inside a block, still sitting on the evaluator's
         stack after the block, is never the newest symbol for a name that is read later.  Sibling blocks may re-use a
         name, and so may different functions (recursion included);
     (c) string literals contain no escape sequence and no NUL (the evaluator prints the source spelling).
   Definitions only. *)
From Coq Require Import ZArith NArith List Bool.
From NV Require Import Lang.Ast Back.InterpSem Driver.ShadowGate.
Import ListNotations.

Definition mem (x : ident) (l : list ident) : bool := existsb (N.eqb x) l.

(* [chk gn bound s] = names in scope after s when s is entered with [bound] in scope; None when a binder of s re-uses a
   name in scope or a global name *)
Fixpoint chk (gn bound : list ident) (s : stmt) : option (list ident) :=
  match s with
  | SLet _ x _ _ => if mem x bound || mem x gn then None else Some (x :: bound)
  | SSeq a b => match chk gn bound a with Some b1 => chk gn b1 b | None => None end
  | SIf _ a b => match chk gn bound a, chk gn bound b with Some _, Some _ => Some bound | _, _ => None end
  | SWhile _ b => match chk gn bound b with Some _ => Some bound | None => None end
  | SFor x _ _ b =>
      if mem x bound || mem x gn then None
      else match chk gn (x :: bound) b with Some _ => Some bound | None => None end
  | _ => Some bound
  end.

Fixpoint expr_plain (e : expr) : bool :=
  match e with
  | ENum _ | EBool _ | EVar _ => true
  | EStr s => if list_eq_dec N.eq_dec (unescape s) s then true else false
  | EUn _ a => expr_plain a
  | EBin _ a b => expr_plain a && expr_plain b
  | ECall _ args => (fix go (l : list expr) : bool := match l with [] => true | a :: r => expr_plain a && go r end) args
  | ECond c a b => expr_plain c && expr_plain a && expr_plain b
  end.

Fixpoint stmt_plain (s : stmt) : bool :=
  match s with
  | SSkip | SBreak | SContinue | SReturn None => true
  | SSeq a b => stmt_plain a && stmt_plain b
  | SLet _ _ _ e | SSet _ e | SReturn (Some e) | SPrint _ e | SAssert e | SExpr e => expr_plain e
  | SIf c a b => expr_plain c && stmt_plain a && stmt_plain b
  | SWhile c b => expr_plain c && stmt_plain b
  | SFor _ lo hi b => expr_plain lo && expr_plain hi && stmt_plain b
  end.

Fixpoint nodupb (l : list ident) : bool :=
  match l with [] => true | x :: r => negb (mem x r) && nodupb r end.

Definition fn_ok (gn : list ident) (d : fn) : bool :=
  let ps := map fst (fparams d) in
  nodupb ps && forallb (fun x => negb (mem x gn)) ps &&
  (match chk gn (rev ps) (fbody d) with Some _ => true | None => false end) && stmt_plain (fbody d).   (* last parameter = newest binding *)

Definition shadow_ok (gn : list ident) (sh : shadow) : bool :=
  (match chk gn [] (sh_body sh) with Some _ => true | None => false end) && stmt_plain (sh_body sh).

Definition gnames (p : program) : list ident := map (fun g => fst (fst g)) (pglobals p).

Definition names_apart (sp : sprogram) : bool :=
  let gn := gnames (sp_prog sp) in
  forallb (fn_ok gn) (pfns (sp_prog sp)) && forallb (shadow_ok gn) (sp_shadows sp) &&
  forallb (fun g => expr_plain (snd g)) (pglobals (sp_prog sp)).

(* reference run of every executed shadow block (each in the global environment, as a block of its own) *)
Definition ref_tests (fuel : nat) (sp : sprogram) : option (list (ident * Ref.res (Ref.ctl * Ref.env))) :=
  match Ref.eval_globals (pfns (sp_prog sp)) fuel (pglobals (sp_prog sp)) [] [] with
  | Ref.Ok genv _ =>
      Some (map (fun sh => (sh_fn sh, ref_test (pfns (sp_prog sp)) fuel genv (sh_body sh)))
                (filter (fun sh => negb (sh_skip sh)) (sp_shadows sp)))
  | _ => None
  end.
