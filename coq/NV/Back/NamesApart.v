(* The hypothesis of interp_correct as an executable check (it is extracted and evaluated on every generated program, so
   the harness knows which programs the theorem speaks about).

   names_apart sp holds when
     (a) no binder (parameter, `let`, `for` variable) of any function or shadow block is spelled like a top-level
         constant -- so whatever a function reads as a free name cannot be captured by a local of one of its callers
         (the evaluator resolves names on ONE stack shared by all active calls: dynamic scoping);
     (c) string literals contain no escape sequence and no NUL (the evaluator prints the source spelling);
     (e) str_substring only on a literal string with a literal start inside it (0 <= start < length) and a literal length
         (0 <= length < 2^32): elsewhere the evaluator yields void where the language yields the empty string (start at or past
         the end of the string: finding c03:builtin:str_substring:start-at-or-past-the-end-is-void-in-the-evaluator); the
         other string builtins are inside the theorem.
   The former clause (d) (first element of an array literal call-free) is gone with fix 38fa340: the evaluator no longer
   evaluates that element twice.
   Since fix 9481a65 (blocks pop their symbols) nothing is asked about names re-used inside one function: shadowing a
   live name in an inner block, re-using a name after a block, duplicate parameters are all inside the theorem.
   Definitions only. *)
From Coq Require Import ZArith NArith List Bool.
From NV Require Import Lang.Ast Back.InterpSem Driver.ShadowGate.
Import ListNotations.

Definition mem (x : ident) (l : list ident) : bool := existsb (N.eqb x) l.

(* no binder of s is a global name *)
Fixpoint binders_ok (gn : list ident) (s : stmt) : bool :=
  match s with
  | SLet _ x _ _ => negb (mem x gn)
  | SSeq a b => binders_ok gn a && binders_ok gn b
  | SIf _ a b => binders_ok gn a && binders_ok gn b
  | SWhile _ b => binders_ok gn b
  | SFor x _ _ b => negb (mem x gn) && binders_ok gn b
  | _ => true
  end.

Fixpoint expr_plain (e : expr) : bool :=
  match e with
  | ENum _ | EBool _ | EVar _ => true
  | EStr s => if list_eq_dec N.eq_dec (unescape s) s then true else false
  | EUn _ a => expr_plain a
  | EBin _ a b => expr_plain a && expr_plain b
  | ECall _ args => (fix go (l : list expr) : bool := match l with [] => true | a :: r => expr_plain a && go r end) args
  | ECond c a b => expr_plain c && expr_plain a && expr_plain b
  | EArr es => (fix go (l : list expr) : bool := match l with [] => true | a :: r => expr_plain a && go r end) es
  | EAt a i => expr_plain a && expr_plain i
  | ELen a => expr_plain a
  | EStr1 _ a => expr_plain a
  | EStr2 _ a b => expr_plain a && expr_plain b
  | ESubstr (EStr s) (ENum st) (ENum ln) =>
      (if list_eq_dec N.eq_dec (unescape s) s then true else false) &&
      (0 <=? st)%Z && (st <? Z.of_nat (length s))%Z && (st <? str_limit)%Z && (0 <=? ln)%Z && (ln <? str_limit)%Z
  | ESubstr _ _ _ => false
  end.

Fixpoint stmt_plain (s : stmt) : bool :=
  match s with
  | SSkip | SBreak | SContinue | SReturn None => true
  | SSeq a b => stmt_plain a && stmt_plain b
  | SLet _ _ _ e | SSet _ e | SReturn (Some e) | SPrint _ e | SAssert e | SExpr e => expr_plain e
  | SIf c a b => expr_plain c && stmt_plain a && stmt_plain b
  | SWhile c b => expr_plain c && stmt_plain b
  | SFor _ lo hi b => expr_plain lo && expr_plain hi && stmt_plain b
  end.

Definition fn_ok (gn : list ident) (d : fn) : bool :=
  forallb (fun x => negb (mem x gn)) (map fst (fparams d)) && binders_ok gn (fbody d) && stmt_plain (fbody d).

Definition shadow_ok (gn : list ident) (sh : shadow) : bool :=
  binders_ok gn (sh_body sh) && stmt_plain (sh_body sh).

Definition gnames (p : program) : list ident := map (fun g => fst (fst g)) (pglobals p).

Definition names_apart (sp : sprogram) : bool :=
  let gn := gnames (sp_prog sp) in
  forallb (fn_ok gn) (pfns (sp_prog sp)) && forallb (shadow_ok gn) (sp_shadows sp) &&
  forallb (fun g => expr_plain (snd g)) (pglobals (sp_prog sp)).

(* reference run of every executed shadow block (each in the global environment, as a block of its own) *)
Definition ref_tests (fuel : nat) (sp : sprogram) : option (list (ident * Ref.res (Ref.ctl * Ref.env))) :=
  match Ref.eval_globals (pfns (sp_prog sp)) fuel (pglobals (sp_prog sp)) [] [] with
  | Ref.Ok genv _ =>
      Some (map (fun sh => (sh_fn sh, ref_test (pfns (sp_prog sp)) fuel genv (sh_body sh)))
                (filter (fun sh => negb (sh_skip sh)) (sp_shadows sp)))
  | _ => None
  end.
