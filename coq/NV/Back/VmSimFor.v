(* VM simulation, stage F (part 2): the indexed walk over the range array, and the SFor case.
   for_sim: from the loop test (`top`), with the array in slot n0+3, the index in n0+4 and the length in n0+5,
   the machine follows exec_for.  Induction on the reference fuel; the index is always inside the array (so the
   bounds check of ARR_GET passes) and stays below 2^63 because every iteration costs fuel and fuel_small bounds
   the fuel (so the int64 increment of the index does not wrap). *)
From Coq Require Import ZArith NArith List Bool Lia.
From NV Require Import Base.Bytes Isa.Codec Isa.CodecProofs gen.IsaTable Lang.Ast Lang.Ref Back.VmCompile Back.VmExec Back.OpTable
  Back.VmSimFetch Back.VmSimStep Back.VmSimComp Back.VmSimWf Back.VmSimEnv Back.VmSimDefs Back.VmSimExpr Back.VmSimStmt
  Back.VmSimLoop Back.VmSimRange.
Import ListNotations.

Lemma exec_for_eq fns fuel genv en x i hi body out :
  exec_for fns (S fuel) genv en x i hi body out =
  if Z.ltb i hi then
    bind (exec_stmt fns fuel genv ((x, (false, VInt i)) :: en) body out) (fun r out1 =>
      let en1 := restore (length en) (snd r) in
      match fst r with
      | CBreak => Ok (CNormal, en1) out1
      | CReturn v => Ok (CReturn v, en1) out1
      | _ => exec_for fns fuel genv en1 x (i + 1) hi body out1
      end)
  else Ok (CNormal, en) out.
Proof. reflexivity. Qed.

Lemma exec_sfor_eq fns fuel genv en x lo hi body out :
  exec_stmt fns (S fuel) genv en (SFor x lo hi body) out =
  bind (eval_expr fns fuel genv en lo out) (fun vlo out1 =>
  bind (eval_expr fns fuel genv en hi out1) (fun vhi out2 =>
    match vlo, vhi with
    | VInt a, VInt b => exec_for fns fuel genv en x a b body out2
    | _, _ => Stuck end)).
Proof. reflexivity. Qed.

Definition for_hs : list ident := [H_RANGE_END; H_RANGE_I; H_RANGE_ARR; H_FOR_ARR; H_FOR_IDX; H_FOR_LEN].

Lemma for_hs_hidden : Forall (fun h => (HIDDEN <= h)%N) for_hs.
Proof. repeat constructor; apply N.leb_le; reflexivity. Qed.

Lemma for_ce_eq ce x : for_ce ce x = (ce ++ for_hs) ++ [x].
Proof. unfold for_ce, for_hs. rewrite <- app_assoc. reflexivity. Qed.

Lemma for_final_scope ce x (x1 : list ident) :
  hide_from (length ce + 6) (hide_from (length (for_ce ce x)) (for_ce ce x ++ x1)) =
  ce ++ (for_hs ++ HIDDEN :: repeat HIDDEN (length x1)).
Proof.
  rewrite hide_from_app, for_ce_eq.
  replace (length ce + 6) with (length (ce ++ for_hs)) by (rewrite app_length; reflexivity).
  rewrite <- (app_assoc (ce ++ for_hs)). cbn [app]. rewrite hide_from_app. cbn [length repeat].
  rewrite repeat_length, <- app_assoc. reflexivity.
Qed.

Lemma for_final_hidden (x1 : list ident) : Forall (fun h => (HIDDEN <= h)%N) (for_hs ++ HIDDEN :: repeat HIDDEN (length x1)).
Proof. apply Forall_app. split; [apply for_hs_hidden|]. constructor; [apply N.le_refl|apply hidden_repeat]. Qed.

Lemma for_ce_nth ce x k : k < 7 ->
  nth_error (for_ce ce x) (length ce + k) = nth_error [H_RANGE_END; H_RANGE_I; H_RANGE_ARR; H_FOR_ARR; H_FOR_IDX; H_FOR_LEN; x] k.
Proof. intros H. unfold for_ce. rewrite nth_error_app2 by lia. f_equal. lia. Qed.

Definition for_tail (n0 top : nat) (cb : list instr) : list instr :=
  for_test n0 ++ [mk OP_JMP_FALSE [i32 (Z.of_nat (5 + 10 + csize cb + 16 + 5))]] ++ for_fetch n0 ++ cb ++ for_incr n0 ++
  [mk OP_JMP [i32 (Z.of_nat top - Z.of_nat (top + 7 + 5 + 10 + csize cb + 16))]].

Section For.
Variable fns : list fn.
Variable G : genv.
Variable M : vmodule.
Hypothesis HG : length (g_globals G) <= VM_MAX_GLOBALS_N.

Notation expr_sim := (expr_sim fns G M).
Notation stmt_sim := (stmt_sim fns G M).
Ltac inf := unfold in_fn; split; [|split]; eassumption.
Ltac rt := try apply Reach_trivial.
Ltac ldl Hfe Hcode Hc H := vstep Hfe Hcode Hc step_load_local; [exact H|]; vnext Hc.

Definition for_sim (fuel : nat) (x : ident) (body : stmt) : Prop :=
  forall genv en out ce p2 cb ce1 p3 L fn fe cf top ret locs st cs g a hi idx,
  in_fn M fn fe cf ->
  compile_stmt G (top + 7 + 5 + 10)
    (Some {| l_top := top + 7 + 5 + 10 + csize cb; l_end := top + 7 + 5 + 10 + csize cb + 16 + 5 |})
    (for_ce ce x) body p2 = Some (cb, ce1, p3) ->
  code_at cf top (for_tail (length ce) top cb) ->
  lctx_ok cf L -> stmt_ok body -> user_name x -> match_env ce en locs ->
  length ce1 <= length locs -> match_genv G genv g -> pool_le p3 (m_strings M) ->
  nth_error locs (length ce + 3) = Some (MArr (map MInt (zrange a (Z.to_nat (hi - a))))) ->
  nth_error locs (length ce + 4) = Some (MInt (Z.of_nat idx)) ->
  nth_error locs (length ce + 5) = Some (MInt (Z.of_nat (Z.to_nat (hi - a)))) ->
  in64 a = true -> in64 hi = true ->
  (Z.of_nat idx + Z.of_nat fuel < 9223372036854775808)%Z ->
  Reach M (mkst fn ret locs st cs (fe_off fe + top) g out)
    (rpost (stmt_post fn fe ret locs st cs g ce (hide_from (length ce + 6) (hide_from (length (for_ce ce x)) ce1)) L
                      (top + 7 + 5 + 10 + csize cb + 16 + 5))
           (exec_for fns fuel genv en x (a + Z.of_nat idx) hi body out)).

Lemma for_sim_0 x body : for_sim 0 x body.
Proof. red; intros. apply Reach_trivial. Qed.

Lemma sim_for_step fuel x body : stmt_sim fuel body -> for_sim fuel x body -> for_sim (S fuel) x body.
Proof.
  intros IHb IHf genv en out ce p2 cb ce1 p3 L fn fe cf top ret locs st cs g a hi idx (Hfe & Hcode & Hsz) Hcb Hc HL Hokb Hx Hme Hlen
    Hmg Hpool Harr Hidx Hlenv Ha Hhi Hfuel.
  pose proof Hc as Hc0. rewrite exec_for_eq.
  destruct (compile_stmt_ext _ _ _ _ _ _ _ _ _ Hcb) as [[x1 Hx1] P1]. subst ce1.
  pose proof (for_final_scope ce x x1) as Hfin. pose proof (for_final_hidden x1) as Hfh.
  pose proof (match_env_count _ _ _ Hme) as Hcnt.
  assert (Hl7 : length ce + 7 + length x1 <= length locs).
  { rewrite app_length in Hlen. unfold for_ce in Hlen. rewrite app_length in Hlen. cbn [length] in Hlen. lia. }
  pose proof (code_at_bound _ _ _ Hc) as Hbd. unfold for_tail in Hbd, Hc. autorewrite with csz in Hbd.
  destruct (for_sizes (length ce)) as (St & Sf & Si & _). rewrite St, Sf, Si in Hbd.
  apply in64_spec in Ha. apply in64_spec in Hhi.
  unfold for_test in Hc. cbn [app] in Hc.
  ldl Hfe Hcode Hc Hidx. ldl Hfe Hcode Hc Hlenv. vstep Hfe Hcode Hc step_lt. vnext Hc. rewrite cmp_lt.
  pose proof Hc as Hjf. vnext Hc.
  assert (Heq : Z.ltb (Z.of_nat idx) (Z.of_nat (Z.to_nat (hi - a))) = Z.ltb (a + Z.of_nat idx) hi).
  { destruct (Z.ltb_spec (Z.of_nat idx) (Z.of_nat (Z.to_nat (hi - a)))); destruct (Z.ltb_spec (a + Z.of_nat idx) hi); lia. }
  rewrite Heq. destruct (Z.ltb_spec (a + Z.of_nat idx) hi) as [Hlt|Hge].
  - (* one iteration *)
    vstep Hfe Hcode Hjf step_jmp_false; [lia|]. cbn [truthy].
    pose proof (code_at_app_l _ _ _ _ Hc) as Hfetch. apply code_at_app_r in Hc. rewrite Sf in Hc.
    pose proof (code_at_app_l _ _ _ _ Hc) as Hcbd. apply code_at_app_r in Hc.
    pose proof (code_at_app_l _ _ _ _ Hc) as Hincr. apply code_at_app_r in Hc. rewrite Si in Hc.
    unfold for_fetch in Hfetch.
    ldl Hfe Hcode Hfetch Harr. ldl Hfe Hcode Hfetch Hidx. vstep Hfe Hcode Hfetch step_arr_get; [rewrite map_length, zrange_length; lia|]. vnext Hfetch.
    rewrite Nat2Z.id. rewrite nth_zrange by lia.
    vstep Hfe Hcode Hfetch step_store_local; [lia|].
    set (i := (a + Z.of_nat idx)%Z) in *.
    set (locs1 := set_nth (length ce + 6) (MInt i) locs).
    assert (Hl1 : length locs1 = length locs) by (apply set_nth_length; lia).
    assert (Hme1 : match_env (for_ce ce x) ((x, (false, VInt i)) :: en) locs1).
    { rewrite for_ce_eq.
      assert (Hm6 : match_env (ce ++ for_hs) en locs) by (apply match_env_add; [exact Hme|apply for_hs_hidden|cbn [length for_hs]; lia]).
      pose proof (match_env_let _ _ _ x false (VInt i) Hm6) as Hlet. rewrite app_length in Hlet. cbn [length for_hs] in Hlet.
      apply Hlet; [lia|exact Hx|]. cbn [val_ok]. apply in64_spec. lia. }
    assert (Hk1 : keeps ce locs locs1) by (apply keeps_set_beyond; lia).
    (* the common tail of a completed iteration: increment the index, jump back to the test, continue *)
    assert (Hnext : forall locs2 en3 o2 ext,
      length locs2 = length locs1 -> keeps (for_ce ce x) locs1 locs2 -> match_env (for_ce ce x ++ ext) en3 locs2 ->
      Reach M (mkst fn ret locs2 st cs (fe_off fe + (top + 7 + 5 + 10 + csize cb)) g o2)
        (rpost (stmt_post fn fe ret locs st cs g ce (hide_from (length ce + 6) (hide_from (length (for_ce ce x)) (for_ce ce x ++ x1))) L
                  (top + 7 + 5 + 10 + csize cb + 16 + 5))
               (exec_for fns fuel genv (restore (length en) en3) x (i + 1) hi body o2))).
    { intros locs2 en3 o2 ext Hl2 Hk2 Hm2.
      assert (Hslot : forall k h, k < 7 -> k <> 6 -> nth_error [H_RANGE_END; H_RANGE_I; H_RANGE_ARR; H_FOR_ARR; H_FOR_IDX; H_FOR_LEN; x] k = Some h ->
                        (HIDDEN <= h)%N -> nth_error locs2 (length ce + k) = nth_error locs (length ce + k)).
      { intros k h Hk7 Hk6 Hnk Hh. rewrite (Hk2 (length ce + k) h); [|rewrite for_ce_nth by lia; exact Hnk|exact Hh].
        unfold locs1. apply nth_error_set_nth_ne; lia. }
      assert (Hidx2 : nth_error locs2 (length ce + 4) = Some (MInt (Z.of_nat idx))).
      { rewrite (Hslot 4 H_FOR_IDX); [exact Hidx|lia|lia|reflexivity|apply N.leb_le; reflexivity]. }
      assert (Harr2 : nth_error locs2 (length ce + 3) = Some (MArr (map MInt (zrange a (Z.to_nat (hi - a)))))).
      { rewrite (Hslot 3 H_FOR_ARR); [exact Harr|lia|lia|reflexivity|apply N.leb_le; reflexivity]. }
      assert (Hlen2 : nth_error locs2 (length ce + 5) = Some (MInt (Z.of_nat (Z.to_nat (hi - a))))).
      { rewrite (Hslot 5 H_FOR_LEN); [exact Hlenv|lia|lia|reflexivity|apply N.leb_le; reflexivity]. }
      pose proof Hincr as Hi'. unfold for_incr in Hi'.
      ldl Hfe Hcode Hi' Hidx2. vstep Hfe Hcode Hi' step_push_i64. vnext Hi'.
      vstep Hfe Hcode Hi' step_arith; [unfold is_arith_op; auto|reflexivity|]. vnext Hi'.
      vstep Hfe Hcode Hi' step_store_local; [lia|].
      vstep Hfe Hcode Hc step_jmp; [lia|].
      rewrite i64_signed by reflexivity. rewrite wrap64_small by (apply in64_spec; lia).
      set (locs3 := set_nth (length ce + 4) (MInt (Z.of_nat idx + 1)) locs2).
      assert (Hl3 : length locs3 = length locs2) by (apply set_nth_length; lia).
      assert (Hk3 : keeps ce locs locs3).
      { eapply keeps_trans; [exact Hk1|]. eapply keeps_trans; [eapply keeps_prefix; rewrite for_ce_eq, <- app_assoc in Hk2; exact Hk2|].
        apply keeps_set_beyond; lia. }
      at_code Hc0. eapply Reach_rebase with (locs1 := locs3); [lia|exact Hk3|].
      replace (i + 1)%Z with (a + Z.of_nat (S idx))%Z by lia.
      eapply (IHf genv _ o2 ce p2 cb _ p3 L fn fe cf top ret locs3 st cs g a hi (S idx)); try eassumption.
      - inf.
      - apply match_env_set_beyond; [|lia|lia].
        rewrite for_ce_eq, <- !app_assoc in Hm2. eapply match_env_loop; eassumption.
      - lia.
      - unfold locs3. rewrite nth_error_set_nth_ne by lia. exact Harr2.
      - unfold locs3. rewrite nth_error_set_nth_eq by lia. f_equal. f_equal. lia.
      - unfold locs3. rewrite nth_error_set_nth_ne by lia. exact Hlen2.
      - apply in64_spec; lia.
      - apply in64_spec; lia.
      - lia. }
    eapply rpost_bind.
    { assert (Hcbd' : code_at cf (top + 7 + 5 + 10) cb) by (eapply code_at_pos_eq; [exact Hcbd|lia]).
      at_code Hcbd'.
      eapply (IHb genv _ out (for_ce ce x) p2 cb _ p3 _ fn fe cf _ ret locs1 st cs g); try eassumption; [inf|cbn; lia|lia|unfold fuel_small; lia]. }
    intros [c3 en3] o2 m _ Hp. cbn [fst snd] in *. cbv zeta.
    destruct c3.
    + destruct Hp as (locs2 & -> & Hl2 & Hm2 & Hk2). eapply Hnext; eassumption.
    + destruct Hp as (l & locs2 & ext & Hl & -> & Hl2 & Hm2 & Hk2). inversion Hl; subst l; clear Hl. cbn [l_end rpost].
      apply Reach_here. exists locs2. split; [same_state|]. split; [lia|]. cbn [snd]. rewrite Hfin. split.
      * apply match_env_add; [|exact Hfh|rewrite app_length; cbn [length for_hs]; rewrite repeat_length; lia].
        rewrite for_ce_eq, <- !app_assoc in Hm2. eapply match_env_loop; eassumption.
      * eapply keeps_trans; [exact Hk1|]. eapply keeps_prefix. rewrite for_ce_eq, <- app_assoc in Hk2. exact Hk2.
    + destruct Hp as (l & locs2 & ext & Hl & -> & Hl2 & Hm2 & Hk2). inversion Hl; subst l; clear Hl. cbn [l_top].
      eapply Hnext; eassumption.
    + cbn [rpost]. destruct m; try exact Hp. apply Reach_here. exact Hp.
  - (* the index reached the length: leave the loop *)
    vstep Hfe Hcode Hjf step_jmp_false; [lia|]. cbn [truthy rpost].
    apply Reach_here. exists locs. split; [same_state|]. split; [reflexivity|]. cbn [snd]. rewrite Hfin.
    split; [|apply keeps_refl].
    apply match_env_add; [exact Hme|exact Hfh|rewrite app_length; cbn [length for_hs]; rewrite repeat_length; lia].
Qed.

Lemma sim_SFor fuel x lo hi body :
  expr_sim fuel lo -> expr_sim fuel hi -> for_sim fuel x body -> stmt_sim (S fuel) (SFor x lo hi body).
Proof.
  intros IHlo IHhi IHf genv en out ce p c ce' p' L fn fe cf pos ret locs st cs g (Hfe & Hcode & Hsz) Hcomp Hc HL Hok Hme Hlen Hmg Hpool Hfuel.
  apply fuel_small_S in Hfuel. rewrite exec_sfor_eq. rewrite compile_for_eq in Hcomp. destruct Hok as (Hx & Hoklo & Hokhi & Hokb).
  destruct (compile_expr G ce lo p) as [[clo p1]|] eqn:Elo; [|discriminate].
  destruct (compile_expr G ce hi p1) as [[chi p2]|] eqn:Ehi; [|discriminate].
  cbv zeta in Hcomp.
  destruct (for_sizes (length ce)) as (St & Sf & Si & Sb & Srt & Sri & Sset & Sloop).
  rewrite St, Sf, Si in Hcomp.
  match type of Hcomp with context [compile_stmt G ?q ?l ?e body p2] =>
    destruct (compile_stmt G q l e body p2) as [[[cb0 ce0] p0]|] eqn:E0; [|discriminate] end.
  match type of Hcomp with context [compile_stmt G ?q ?l ?e body p2] =>
    destruct (compile_stmt G q l e body p2) as [[[cb ce1] p3]|] eqn:E1; [|discriminate] end.
  destruct (compile_stmt_size _ _ _ _ _ _ _ _ _ _ _ _ _ _ E1 E0) as (Hsz0 & _ & _). rewrite Hsz0 in E1. clear E0 Hsz0.
  apply some3_inj in Hcomp. destruct Hcomp as (Hcc & Hce' & Hp'). subst ce' p'.
  set (top := pos + csize (for_pre clo chi (length ce))) in *.
  assert (Hcc' : c = for_pre clo chi (length ce) ++ for_tail (length ce) top cb) by (rewrite <- Hcc; reflexivity).
  clear Hcc. subst c.
  destruct (compile_stmt_ext _ _ _ _ _ _ _ _ _ E1) as [[x1 Hx1] P3].
  rewrite !hide_from_length in Hlen.
  assert (Hl7 : length ce + 7 + length x1 <= length locs).
  { rewrite Hx1, app_length in Hlen. unfold for_ce in Hlen. rewrite app_length in Hlen. cbn [length] in Hlen. lia. }
  pose proof (compile_expr_pool _ _ _ _ _ _ Ehi) as P2.
  assert (Hcs : csize (for_pre clo chi (length ce) ++ for_tail (length ce) top cb) =
                csize (for_pre clo chi (length ce)) + (7 + 5 + 10 + csize cb + 16 + 5)).
  { unfold for_tail. autorewrite with csz. rewrite St, Sf, Si. lia. }
  assert (Hpre : csize (for_pre clo chi (length ce)) = csize clo + csize chi + 11 + 46 + 22).
  { unfold for_pre. autorewrite with csz. rewrite Sri, Sloop, Sset. lia. }
  pose proof (code_at_bound _ _ _ Hc) as Hbd. rewrite Hcs in Hbd.
  pose proof (code_at_app_l _ _ _ _ Hc) as Hcpre. apply code_at_app_r in Hc. fold top in Hc.
  unfold for_pre in Hcpre.
  pose proof (code_at_app_l _ _ _ _ Hcpre) as Hc1. apply code_at_app_r in Hcpre.
  pose proof (code_at_app_l _ _ _ _ Hc1) as Hclo. apply code_at_app_r in Hc1.
  pose proof (code_at_app_l _ _ _ _ Hc1) as Hchi. apply code_at_app_r in Hc1.
  pose proof (code_at_app_l _ _ _ _ Hc1) as Hinit. apply code_at_app_r in Hc1. rewrite Sri in Hc1.
  autorewrite with csz in Hcpre. rewrite Sri, Sloop in Hcpre.
  eapply rpost_bind.
  { eapply (IHlo genv en out ce p clo p1 fn fe cf pos ret locs st cs g); try eassumption; [inf|].
    eapply pool_le_trans; [exact P2|]. eapply pool_le_trans; [exact P3|exact Hpool]. }
  intros vlo o1 m _ [-> Hvlo]; cbv iota beta.
  eapply rpost_bind.
  { eapply (IHhi genv en o1 ce p1 chi p2 fn fe cf _ ret locs (mval_of vlo :: st) cs g); try eassumption; [inf|].
    eapply pool_le_trans; [exact P3|exact Hpool]. }
  intros vhi o2 m _ [-> Hvhi]; cbv iota beta.
  destruct vlo as [a|?| |?|?]; rt. destruct vhi as [b|?| |?|?]; rt.
  cbn [val_ok mval_of] in *.
  (* range: end, i, empty array *)
  unfold rng_init in Hinit.
  vstep Hfe Hcode Hinit step_store_local; [lia|]. vnext Hinit.
  vstep Hfe Hcode Hinit step_store_local; [rewrite set_nth_length; lia|]. vnext Hinit.
  vstep Hfe Hcode Hinit step_arr_new. vnext Hinit.
  vstep Hfe Hcode Hinit step_store_local; [rewrite !set_nth_length; rewrite ?set_nth_length; lia|].
  set (locsA := set_nth (length ce) (MInt b) locs).
  set (locsB := set_nth (length ce + 1) (MInt a) locsA).
  set (locsC := set_nth (length ce + 2) (MArr []) locsB).
  assert (LA : length locsA = length locs) by (apply set_nth_length; lia).
  assert (LB : length locsB = length locs) by (unfold locsB; rewrite set_nth_length; lia).
  assert (LC : length locsC = length locs) by (unfold locsC; rewrite set_nth_length; lia).
  assert (AgC : agree (length ce) locs locsC).
  { eapply agree_trans; [apply (agree_set (length ce) locs (length ce)); lia|].
    eapply agree_trans; [apply (agree_set (length ce) locsA (length ce + 1)); lia|].
    apply (agree_set (length ce) locsB (length ce + 2)); lia. }
  at_code Hc1.
  eapply (rng_loop_run M fn fe cf _ (length ce) ret st cs g o2 b Hfe Hcode Hsz Hc1 Hvhi (Z.to_nat (b - a)) a [] locsC eq_refl Hvlo).
  { unfold locsC, locsB. rewrite !nth_error_set_nth_ne by (rewrite ?set_nth_length; lia). apply nth_error_set_nth_eq. lia. }
  { unfold locsC. rewrite nth_error_set_nth_ne by lia. apply nth_error_set_nth_eq. lia. }
  { apply nth_error_set_nth_eq. lia. }
  intros locsD AgD. cbn [app]. destruct AgD as [LD FD].
  (* for: arr, idx = 0, len *)
  unfold for_setup in Hcpre.
  vstep Hfe Hcode Hcpre step_store_local; [lia|]. vnext Hcpre.
  vstep Hfe Hcode Hcpre step_push_i64. vnext Hcpre.
  vstep Hfe Hcode Hcpre step_store_local; [rewrite set_nth_length; lia|]. vnext Hcpre.
  set (arr := MArr (map MInt (zrange a (Z.to_nat (b - a))))).
  set (locsE := set_nth (length ce + 3) arr locsD).
  set (locsF := set_nth (length ce + 4) (MInt (to_signed 64 (i64 0))) locsE).
  assert (LE : length locsE = length locs) by (unfold locsE; rewrite set_nth_length; lia).
  assert (LF : length locsF = length locs) by (unfold locsF; rewrite set_nth_length; lia).
  assert (HarrF : nth_error locsF (length ce + 3) = Some arr).
  { unfold locsF. rewrite nth_error_set_nth_ne by lia. apply nth_error_set_nth_eq. lia. }
  vstep Hfe Hcode Hcpre step_load_local; [exact HarrF|]. vnext Hcpre.
  vstep Hfe Hcode Hcpre step_arr_len. vnext Hcpre.
  vstep Hfe Hcode Hcpre step_store_local; [lia|].
  rewrite map_length, zrange_length.
  set (locsG := set_nth (length ce + 5) (MInt (Z.of_nat (Z.to_nat (b - a)))) locsF).
  assert (LG : length locsG = length locs) by (unfold locsG; rewrite set_nth_length; lia).
  assert (AgG : agree (length ce) locs locsG).
  { eapply agree_trans; [exact AgC|]. eapply agree_trans; [split; [exact LD|exact FD]|].
    eapply agree_trans; [apply (agree_set (length ce) locsD (length ce + 3)); lia|].
    eapply agree_trans; [apply (agree_set (length ce) locsE (length ce + 4)); lia|].
    apply (agree_set (length ce) locsF (length ce + 5)); lia. }
  at_code Hc. rewrite Hcs.
  eapply Reach_rebase with (locs1 := locsG); [exact LG|apply agree_keeps; exact AgG|].
  replace (pos + (csize (for_pre clo chi (length ce)) + (7 + 5 + 10 + csize cb + 16 + 5))) with (top + 7 + 5 + 10 + csize cb + 16 + 5)
    by (unfold top; lia).
  replace (exec_for fns fuel genv en x a b body o2) with (exec_for fns fuel genv en x (a + Z.of_nat 0) b body o2)
    by (f_equal; lia).
  eapply (IHf genv en o2 ce p2 cb ce1 p3 L fn fe cf top ret locsG st cs g a b 0); try eassumption.
  - inf.
  - eapply agree_match_env; eassumption.
  - lia.
  - unfold locsG, locsF. rewrite !nth_error_set_nth_ne by (rewrite ?set_nth_length; lia). apply nth_error_set_nth_eq. lia.
  - unfold locsG. rewrite nth_error_set_nth_ne by lia. unfold locsF. rewrite nth_error_set_nth_eq by lia.
    rewrite i64_signed by reflexivity. reflexivity.
  - apply nth_error_set_nth_eq. lia.
Qed.

End For.
