(* VM simulation, stage D: while loops with break / continue; and the assembled theorem for stages B-D
   (every statement without calls and without for). *)
From Coq Require Import ZArith NArith List Bool Lia.
From NV Require Import Base.Bytes Isa.Codec Isa.CodecProofs gen.IsaTable Lang.Ast Lang.Ref Back.VmCompile Back.VmExec Back.OpTable
  Back.VmSimFetch Back.VmSimStep Back.VmSimComp Back.VmSimWf Back.VmSimEnv Back.VmSimDefs Back.VmSimExpr Back.VmSimStmt.
Import ListNotations.

(* the scope at the end of an iteration, cut back to the scope of the loop *)
Lemma match_env_loop ce ext (en0 en : env) locs :
  match_env (ce ++ ext) en locs -> length en0 = count_user (rev ce) ->
  match_env ce (restore (length en0) en) locs.
Proof.
  intros H Hn. eapply match_env_drop; [eapply match_env_exit; eassumption|apply hidden_repeat].
Qed.

Section Loop.
Variable fns : list fn.
Variable G : genv.
Variable M : vmodule.
Hypothesis HG : length (g_globals G) <= VM_MAX_GLOBALS_N.

Notation expr_sim := (expr_sim fns G M).
Notation stmt_sim := (stmt_sim fns G M).
Ltac inf := unfold in_fn; split; [|split]; eassumption.
Ltac rt := try apply Reach_trivial.

Lemma Reach_rebase fn fe ret locs locs1 st cs g ce ce' L pos' (r : res (ctl * env)) s :
  length locs1 = length locs -> keeps ce locs locs1 ->
  Reach M s (rpost (stmt_post fn fe ret locs1 st cs g ce ce' L pos') r) ->
  Reach M s (rpost (stmt_post fn fe ret locs st cs g ce ce' L pos') r).
Proof.
  intros Hl Hk H. eapply Reach_weaken; [exact H|]. intros m Hm. eapply rpost_weaken; [|exact Hm].
  intros [c3 en3] o3 Hq. eapply stmt_post_rebase with (ext := []); [exact Hl|exact Hk|reflexivity|].
  rewrite app_nil_r. exact Hq.
Qed.

Lemma sim_SBreak fuel : stmt_sim (S fuel) SBreak.
Proof.
  intros genv en out ce p c ce' p' L fn fe cf pos ret locs st cs g (Hfe & Hcode & Hsz) Hcomp Hc HL Hok Hme Hlen Hmg Hpool Hfuel.
  cbn [exec_stmt rpost]. cbn [compile_stmt] in Hcomp. destruct L as [l|]; [|discriminate].
  apply some3_inj in Hcomp. destruct Hcomp as (<- & <- & <-). destruct HL as [HL1 HL2].
  pose proof (code_at_bound _ _ _ Hc) as Hbd.
  vstep Hfe Hcode Hc step_jmp; [lia|].
  apply Reach_here. exists l, locs, []. split; [reflexivity|]. split; [same_state|]. split; [reflexivity|].
  rewrite app_nil_r. split; [exact Hme|apply keeps_refl].
Qed.

Lemma sim_SContinue fuel : stmt_sim (S fuel) SContinue.
Proof.
  intros genv en out ce p c ce' p' L fn fe cf pos ret locs st cs g (Hfe & Hcode & Hsz) Hcomp Hc HL Hok Hme Hlen Hmg Hpool Hfuel.
  cbn [exec_stmt rpost]. cbn [compile_stmt] in Hcomp. destruct L as [l|]; [|discriminate].
  apply some3_inj in Hcomp. destruct Hcomp as (<- & <- & <-). destruct HL as [HL1 HL2].
  pose proof (code_at_bound _ _ _ Hc) as Hbd.
  vstep Hfe Hcode Hc step_jmp; [lia|].
  apply Reach_here. exists l, locs, []. split; [reflexivity|]. split; [same_state|]. split; [reflexivity|].
  rewrite app_nil_r. split; [exact Hme|apply keeps_refl].
Qed.

Lemma sim_SWhile fuel c0 body :
  expr_sim fuel c0 -> stmt_sim fuel body -> stmt_sim fuel (SWhile c0 body) -> stmt_sim (S fuel) (SWhile c0 body).
Proof.
  intros IHc IHb IHw genv en out ce p c ce' p' L fn fe cf pos ret locs st cs g (Hfe & Hcode & Hsz) Hcomp Hc HL Hok Hme Hlen Hmg Hpool Hfuel.
  pose proof Hcomp as Hcomp0. pose proof Hc as Hc0. pose proof Hok as Hok0. pose proof Hlen as Hlen0.
  apply fuel_small_S in Hfuel. cbn [exec_stmt]. cbn [compile_stmt] in Hcomp. destruct Hok as (Hokc & Hokb).
  destruct (compile_expr G ce c0 p) as [[cc p1]|] eqn:Ec; [|discriminate].
  match type of Hcomp with context [compile_stmt G ?q ?l ce body p1] =>
    destruct (compile_stmt G q l ce body p1) as [[[cb0 ce0] p0]|] eqn:E0; [|discriminate] end.
  match type of Hcomp with context [compile_stmt G ?q ?l ce body p1] =>
    destruct (compile_stmt G q l ce body p1) as [[[cb ce1] p2]|] eqn:E1; [|discriminate] end.
  destruct (compile_stmt_size _ _ _ _ _ _ _ _ _ _ _ _ _ _ E1 E0) as (Hsz0 & _ & _). rewrite Hsz0 in E1.
  destruct (compile_stmt_ext _ _ _ _ _ _ _ _ _ E1) as [[x1 Hx1] P1]. subst ce1. rewrite hide_from_app in Hcomp.
  apply some3_inj in Hcomp. destruct Hcomp as (Hcc & Hce' & Hp'). subst ce' p'. rewrite <- Hcc in Hc.
  assert (Hcs : csize c = csize cc + (5 + (csize cb + 5))) by (rewrite <- Hcc; autorewrite with csz; lia).
  rewrite Hcs. clear Hcc.
  rewrite !app_length, ?repeat_length in Hlen.
  pose proof (match_env_count _ _ _ Hme) as Hcnt.
  pose proof (code_at_bound _ _ _ Hc0) as Hbd. rewrite Hcs in Hbd.
  pose proof (compile_expr_pool _ _ _ _ _ _ Ec) as P0.
  pose proof (code_at_app_l _ _ _ _ Hc) as Hccd. apply code_at_app_r in Hc. cbn [app] in Hc.
  pose proof Hc as Hjf. vnext Hc.
  pose proof (code_at_app_l _ _ _ _ Hc) as Hcb. apply code_at_app_r in Hc.
  eapply rpost_bind.
  { eapply (IHc genv en out ce p cc p1 fn fe cf pos ret locs st cs g); try eassumption; [inf|]. eapply pool_le_trans; eassumption. }
  intros vc o1 m _ [-> Hvc]; cbv iota beta.
  destruct vc as [z|[|]| |s|l]; rt.
  - (* condition true: one iteration *)
    vstep Hfe Hcode Hjf step_jmp_false; [lia|]. cbn [mval_of truthy].
    eapply rpost_bind.
    { at_code Hcb.
      eapply (IHb genv en o1 ce p1 cb _ p2 _ fn fe cf _ ret locs st cs g); try eassumption; [inf|cbn; lia|rewrite app_length; lia]. }
    intros [c3 en3] o2 m _ Hp. cbn [fst snd] in *. cbv zeta.
    assert (Hme2 : forall locs' ext, match_env (ce ++ ext) en3 locs' -> match_env ce (restore (length en) en3) locs')
      by (intros; eapply match_env_loop; eassumption).
    destruct c3.
    + destruct Hp as (locs' & -> & Hl' & Hm' & Hk').
      vstep Hfe Hcode Hc step_jmp; [lia|]. at_code Hc0.
      eapply Reach_rebase; [exact Hl'|exact Hk'|]. rewrite <- Hcs.
      eapply (IHw genv _ o2 ce p c _ _ L fn fe cf pos ret locs' st cs g); try eassumption; [inf|eapply Hme2; eassumption|lia].
    + destruct Hp as (l & locs' & ext & Hl & -> & Hl' & Hm' & Hk'). inversion Hl; subst l; clear Hl. cbn [l_end rpost].
      apply Reach_here. exists locs'. split; [same_state|]. split; [exact Hl'|]. cbn [snd]. split; [|exact Hk'].
      apply match_env_add; [eapply Hme2; eassumption|apply hidden_repeat|rewrite repeat_length; lia].
    + destruct Hp as (l & locs' & ext & Hl & -> & Hl' & Hm' & Hk'). inversion Hl; subst l; clear Hl. cbn [l_top].
      eapply Reach_rebase; [exact Hl'|exact Hk'|]. rewrite <- Hcs.
      eapply (IHw genv _ o2 ce p c _ _ L fn fe cf pos ret locs' st cs g); try eassumption; [inf|eapply Hme2; eassumption|lia].
    + cbn [rpost]. destruct m; try exact Hp. apply Reach_here. exact Hp.
  - (* condition false: leave the loop *)
    vstep Hfe Hcode Hjf step_jmp_false; [lia|]. cbn [mval_of truthy rpost].
    apply Reach_here. exists locs. split; [same_state|]. split; [reflexivity|]. cbn [snd]. split; [|apply keeps_refl].
    apply match_env_add; [exact Hme|apply hidden_repeat|rewrite repeat_length; lia].
Qed.

(* ---------- stages B-D assembled: statements without calls and without for ---------- *)
Fixpoint plain (s : stmt) : Prop :=
  match s with
  | SSkip | SBreak | SContinue | SReturn None => True
  | SSeq a b => plain a /\ plain b
  | SLet _ _ _ e | SSet _ e | SReturn (Some e) | SPrint _ e | SAssert e | SExpr e => no_call e
  | SIf c a b => no_call c /\ plain a /\ plain b
  | SWhile c b => no_call c /\ plain b
  | SFor _ _ _ _ => False
  end.

Theorem sim_stmt_plain : forall fuel s, plain s -> stmt_sim fuel s.
Proof.
  pose proof (sim_expr_no_call fns G M HG) as HE.
  induction fuel as [|fuel IH]; intros s Hp; [apply stmt_sim_0|].
  destruct s as [ |s1 s2|m x t e|x e|c0 s1 s2|c0 body|x lo hi body| | |[e|]|nl e|e|e]; cbn [plain] in Hp.
  - apply sim_SSkip; exact HG.
  - destruct Hp. apply sim_SSeq; try exact HG; apply IH; assumption.
  - apply sim_SLet; try exact HG. apply HE; assumption.
  - apply sim_SSet; try exact HG. apply HE; assumption.
  - destruct Hp as (Hc & H1 & H2). apply sim_SIf; try exact HG; [apply HE; assumption| |]; apply IH; assumption.
  - destruct Hp as (Hc & Hb). apply sim_SWhile; try exact HG; [apply HE; assumption| |]; apply IH; cbn [plain]; auto.
  - contradiction.
  - apply sim_SBreak; exact HG.
  - apply sim_SContinue; exact HG.
  - apply sim_SReturn_some; try exact HG. apply HE; assumption.
  - apply sim_SReturn_none; exact HG.
  - apply sim_SPrint; try exact HG. apply HE; assumption.
  - apply sim_SAssert; try exact HG. apply HE; assumption.
  - apply sim_SExpr; try exact HG. apply HE; assumption.
Qed.

End Loop.
