(* The operator table: what the VM computes for an arithmetic/comparison/logic opcode on tagged values equals
   what the reference semantics prescribes, for ALL operands (unbounded statement, not a sweep). *)
From Coq Require Import ZArith NArith List Bool Lia.
From NV Require Import Base.Bytes Isa.Codec gen.IsaTable Lang.Ast Lang.Ref Back.VmCompile Back.VmExec.
Import ListNotations.
Local Open Scope Z_scope.

Definition is_arith (o : binop) : bool := match o with BAdd | BSub | BMul | BDiv | BMod => true | _ => false end.
Definition partial_ok (o : binop) (x y : Z) : Prop :=
  match o with BDiv | BMod => y <> 0 /\ ~ (x = -9223372036854775808 /\ y = -1) | _ => True end.

Lemma arith_matches_ref o x y :
  is_arith o = true -> partial_ok o x y ->
  exists z, arith (binop_code o) x y = Some z /\ eval_binop o (VInt x) (VInt y) = OV (VInt z).
Proof.
  intros Ha Hp. destruct o; try discriminate Ha; unfold arith, binop_code; cbn.
  - eexists; split; reflexivity.
  - eexists; split; reflexivity.
  - eexists; split; reflexivity.
  - destruct Hp as [Hy Hm]. destruct (Z.eqb_spec y 0); [contradiction|].
    unfold min64.
    destruct (Z.eqb_spec x (-9223372036854775808)); destruct (Z.eqb_spec y (-1)); cbn;
      try (exfalso; apply Hm; split; assumption); eexists; split; reflexivity.
  - destruct Hp as [Hy Hm]. destruct (Z.eqb_spec y 0); [contradiction|].
    unfold min64.
    destruct (Z.eqb_spec x (-9223372036854775808)); destruct (Z.eqb_spec y (-1)); cbn;
      try (exfalso; apply Hm; split; assumption); eexists; split; reflexivity.
Qed.

(* the partial cases: the VM returns 0 for a zero divisor (documented difference), and raises a fatal signal for
   INT64_MIN / -1 where the reference has the fault FDivOverflow *)
Lemma arith_div_zero x : arith OP_DIV x 0 = Some 0 /\ arith OP_MOD x 0 = Some 0 /\
                         eval_binop BDiv (VInt x) (VInt 0) = OF FDivZero.
Proof. repeat split. Qed.

Lemma arith_min_neg1 : arith OP_DIV (-9223372036854775808) (-1) = Some (-9223372036854775808) /\
                       arith OP_MOD (-9223372036854775808) (-1) = Some 0 /\
                       eval_binop BDiv (VInt (-9223372036854775808)) (VInt (-1)) = OF FDivOverflow.
Proof. repeat split; reflexivity. Qed.

Definition mval_of (v : value) : mval :=
  match v with VInt z => MInt z | VBool b => MBool b | VVoid => MVoid | VStr s => MStr s | VArr l => MArr (map MInt l) end.

(* comparisons on ints and equality on ints/bools *)
Lemma cmp_matches_ref o x y :
  match o with BLt | BLe | BGt | BGe | BEq | BNe => True | _ => False end ->
  exists b, eval_binop o (VInt x) (VInt y) = OV (VBool b) /\
            b = match o with
                | BEq => val_equal (MInt x) (MInt y) | BNe => negb (val_equal (MInt x) (MInt y))
                | BLt => Z.ltb (val_compare (MInt x) (MInt y)) 0 | BLe => Z.leb (val_compare (MInt x) (MInt y)) 0
                | BGt => Z.gtb (val_compare (MInt x) (MInt y)) 0 | _ => Z.geb (val_compare (MInt x) (MInt y)) 0 end.
Proof.
  intros H. destruct o; try contradiction; cbn; eexists; (split; [reflexivity|]);
    unfold val_compare; try reflexivity;
    destruct (Z.ltb_spec x y); destruct (Z.gtb_spec x y); cbn; try lia;
    try (symmetry; apply Z.leb_le; lia); try (symmetry; apply Z.leb_gt; lia);
    try (symmetry; apply Z.ltb_lt; lia); try (symmetry; apply Z.ltb_ge; lia);
    try (rewrite Z.gtb_ltb; symmetry; first [apply Z.ltb_lt; lia | apply Z.ltb_ge; lia]);
    try (rewrite Z.geb_leb; symmetry; first [apply Z.leb_le; lia | apply Z.leb_gt; lia]).
Qed.

Lemma logic_matches_ref (o : binop) (x y : bool) :
  match o with BAnd | BOr => True | _ => False end ->
  eval_binop o (VBool x) (VBool y) =
  OV (VBool (match o with BAnd => truthy (MBool x) && truthy (MBool y) | _ => truthy (MBool x) || truthy (MBool y) end)).
Proof. destruct o; try contradiction; reflexivity. Qed.

Lemma neg_matches_ref x : eval_unop UNeg (VInt x) = OV (VInt (wrap64 (- x))).
Proof. reflexivity. Qed.
Lemma not_matches_ref b : eval_unop UNot (VBool b) = OV (VBool (negb (truthy (MBool b)))).
Proof. reflexivity. Qed.

(* wrap64 really is two's complement wrap-around: result in range and congruent mod 2^64 *)
Lemma wrap64_range z : in64 (wrap64 z) = true.
Proof.
  unfold in64, wrap64. pose proof (Z.mod_pos_bound (z + 9223372036854775808) 18446744073709551616 ltac:(lia)).
  apply andb_true_iff; split; apply Z.leb_le; lia.
Qed.
Lemma wrap64_congr z : (wrap64 z - z) mod 18446744073709551616 = 0.
Proof.
  unfold wrap64.
  replace ((z + 9223372036854775808) mod 18446744073709551616 - 9223372036854775808 - z)
    with ((z + 9223372036854775808) mod 18446744073709551616 - (z + 9223372036854775808)) by lia.
  rewrite Zminus_mod, Z.mod_mod by lia. rewrite Z.sub_diag. reflexivity.
Qed.
Lemma wrap64_id z : in64 z = true -> wrap64 z = z.
Proof.
  unfold in64, wrap64. intros H. apply andb_true_iff in H. destruct H as [H1 H2].
  apply Z.leb_le in H1. apply Z.leb_le in H2. rewrite Z.mod_small by lia. lia.
Qed.
