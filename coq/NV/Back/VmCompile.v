(* Model of src/nanovirt/codegen.c for the core fragment: AST -> NanoISA instructions -> bytes.
   It mirrors what codegen.c DOES (slot allocation by one per-function counter, newest-first name lookup,
   jump offsets relative to the start of the jump instruction, range/for lowering through an array,
   short-circuit and/or, names retired at block exit,
   string pool with de-duplication, __init__ for globals, implicit return).  Tie: the bytes, the string
   pool and the function table must equal what `nano_virt --emit-nvm` writes (tools/props/c02.py).
   Definitions only. *)
From Coq Require Import ZArith NArith List Bool.
From NV Require Import Base.Bytes Isa.Codec gen.IsaTable Lang.Ast.
Import ListNotations.
Local Open Scope N_scope.

Definition mk (o : N) (a : list N) : instr := {| op := o; args := a |}.
Definition i64 (z : Z) : N := of_signed 64 z.
Definition i32 (z : Z) : N := of_signed 32 z.

Definition isize (i : instr) : nat := match size_of table (op i) with Some n => n | None => 1%nat end.
Definition csize (c : list instr) : nat := fold_right (fun i a => (isize i + a)%nat) 0%nat c.

(* compile-time scope: names in order of local_add; slot = position; lookup finds the NEWEST (last) match *)
Definition cenv := list ident.
Fixpoint cfind_from (x : ident) (l : cenv) (i : nat) (acc : option nat) : option nat :=
  match l with [] => acc | y :: r => cfind_from x r (S i) (if N.eqb x y then Some i else acc) end.
Definition cfind (x : ident) (l : cenv) : option nat := cfind_from x l 0%nat None.
Fixpoint index_of (x : ident) (l : list ident) (i : nat) : option nat :=
  match l with [] => None | y :: r => if N.eqb x y then Some i else index_of x r (S i) end.

(* hidden locals introduced by the for/range lowering (names no user variable can have) *)
Definition H_RANGE_END : ident := 1099511627777.
Definition H_RANGE_I : ident := 1099511627778.
Definition H_RANGE_ARR : ident := 1099511627779.
Definition H_FOR_ARR : ident := 1099511627780.
Definition H_FOR_IDX : ident := 1099511627781.
Definition H_FOR_LEN : ident := 1099511627782.

(* string pool with de-duplication (nvm_add_string) *)
Definition pool := list (list N).
Fixpoint pool_find (s : list N) (p : pool) (i : nat) : option nat :=
  match p with [] => None | t :: r => if list_N_eqb s t then Some i else pool_find s r (S i) end.
Definition pool_add (s : list N) (p : pool) : nat * pool :=
  match pool_find s p 0%nat with Some i => (i, p) | None => (length p, p ++ [s]) end.

Definition binop_code (o : binop) : N :=
  match o with
  | BAdd => OP_ADD | BSub => OP_SUB | BMul => OP_MUL | BDiv => OP_DIV | BMod => OP_MOD
  | BEq => OP_EQ | BNe => OP_NE | BLt => OP_LT | BLe => OP_LE | BGt => OP_GT | BGe => OP_GE
  | BAnd => OP_AND | BOr => OP_OR end.

Definition sop1_code (o : sop1) : N :=
  match o with SLen => OP_STR_LEN | SOfInt => OP_CAST_STRING end.        (* int_to_string is compiled as a cast *)
Definition sop2_code (o : sop2) : N :=
  match o with
  | SPlus => OP_ADD                                                       (* + on strings: the arithmetic opcode *)
  | SConcat => OP_STR_CONCAT | SEquals => OP_STR_EQ | SContains => OP_STR_CONTAINS | SCharAt => OP_STR_CHAR_AT end.

Record genv := { g_globals : list ident; g_fns : list ident }.

Definition TAG_INT_N : N := 1.

(* expressions: leave exactly one value *)
Fixpoint compile_expr (G : genv) (ce : cenv) (e : expr) (p : pool) {struct e} : option (list instr * pool) :=
  match e with
  | ENum z => Some ([mk OP_PUSH_I64 [i64 z]], p)
  | EBool b => Some ([mk OP_PUSH_BOOL [if b then 1 else 0]], p)
  | EStr s => let '(i, p') := pool_add (unescape s) p in Some ([mk OP_PUSH_STR [N.of_nat i]], p')
  | EVar x =>
      match cfind x ce with
      | Some s => Some ([mk OP_LOAD_LOCAL [N.of_nat s]], p)
      | None => match index_of x (g_globals G) 0%nat with
                | Some g => Some ([mk OP_LOAD_GLOBAL [N.of_nat g]], p)
                | None => None end
      end
  | EUn o a =>
      match compile_expr G ce a p with
      | Some (ca, p1) => Some (ca ++ [mk (match o with UNeg => OP_NEG | UNot => OP_NOT end) []], p1)
      | None => None end
  | EBin o a b =>
      match compile_expr G ce a p with
      | Some (ca, p1) =>
          match compile_expr G ce b p1 with
          | Some (cb, p2) =>
              match o with
              | BAnd | BOr =>
                  (* short-circuit: a; DUP; JMP_FALSE/JMP_TRUE end; POP; b; end:  (codegen.c AST_PREFIX_OP) *)
                  Some (ca ++ [mk OP_DUP []; mk (match o with BAnd => OP_JMP_FALSE | _ => OP_JMP_TRUE end) [i32 (Z.of_nat (5 + 1 + csize cb))];
                               mk OP_POP []] ++ cb, p2)
              | _ => Some (ca ++ cb ++ [mk (binop_code o) []], p2)   (* both operands, then the operator *)
              end
          | None => None end
      | None => None end
  | ECall f args =>
      let fix go (l : list expr) (p0 : pool) : option (list instr * pool) :=
        match l with
        | [] => Some ([], p0)
        | a :: r => match compile_expr G ce a p0 with
                    | Some (ca, p1) => match go r p1 with Some (cr, p2) => Some (ca ++ cr, p2) | None => None end
                    | None => None end
        end in
      match go args p with
      | Some (cargs, p1) =>
          match index_of f (g_fns G) 0%nat with
          | Some idx => Some (cargs ++ [mk OP_CALL [N.of_nat idx]], p1)
          | None => None end
      | None => None end
  | ECond c a b =>
      match compile_expr G ce c p with
      | Some (cc, p1) =>
          match compile_expr G ce a p1 with
          | Some (ca, p2) =>
              match compile_expr G ce b p2 with
              | Some (cb, p3) =>
                  let jf := mk OP_JMP_FALSE [i32 (Z.of_nat (5 + csize ca + 5))] in
                  let je := mk OP_JMP [i32 (Z.of_nat (5 + csize cb))] in
                  Some (cc ++ [jf] ++ ca ++ [je] ++ cb, p3)
              | None => None end
          | None => None end
      | None => None end
  | EArr es =>
      (* codegen.c AST_ARRAY_LITERAL: the elements left to right, then ARR_LITERAL <element tag> <count> *)
      let fix go (l : list expr) (p0 : pool) : option (list instr * pool) :=
        match l with
        | [] => Some ([], p0)
        | a :: r => match compile_expr G ce a p0 with
                    | Some (ca, p1) => match go r p1 with Some (cr, p2) => Some (ca ++ cr, p2) | None => None end
                    | None => None end
        end in
      match go es p with
      | Some (cel, p1) => Some (cel ++ [mk OP_ARR_LITERAL [TAG_INT_N; N.of_nat (length es)]], p1)
      | None => None end
  | EAt a i =>
      (* compile_builtin_call "at": array, index, ARR_GET *)
      match compile_expr G ce a p with
      | Some (ca, p1) =>
          match compile_expr G ce i p1 with
          | Some (ci, p2) => Some (ca ++ ci ++ [mk OP_ARR_GET []], p2)
          | None => None end
      | None => None end
  | ELen a =>
      match compile_expr G ce a p with
      | Some (ca, p1) => Some (ca ++ [mk OP_ARR_LEN []], p1)
      | None => None end
  | EStr1 o a =>
      (* compile_builtin_call: the operand, then the opcode *)
      match compile_expr G ce a p with
      | Some (ca, p1) => Some (ca ++ [mk (sop1_code o) []], p1)
      | None => None end
  | EStr2 o a b =>
      match compile_expr G ce a p with
      | Some (ca, p1) =>
          match compile_expr G ce b p1 with
          | Some (cb, p2) => Some (ca ++ cb ++ [mk (sop2_code o) []], p2)
          | None => None end
      | None => None end
  | ESubstr a b c =>
      match compile_expr G ce a p with
      | Some (ca, p1) =>
          match compile_expr G ce b p1 with
          | Some (cb, p2) =>
              match compile_expr G ce c p2 with
              | Some (cc, p3) => Some (ca ++ cb ++ cc ++ [mk OP_STR_SUBSTR []], p3)
              | None => None end
          | None => None end
      | None => None end
  end.

(* loop context: absolute offsets (within the function) of the loop top and of the loop end *)
Record lctx := { l_top : nat; l_end : nat }.   (* l_top = where `continue` lands: the test of a while, the increment of a for *)

(* leaving a block retires the names declared in it (slots stay allocated): codegen.c AST_BLOCK *)
Definition HIDDEN : ident := 1099511627776.
Definition hide_from (n : nat) (ce : cenv) : cenv := firstn n ce ++ repeat HIDDEN (length ce - n).

(* size of a statement's code does not depend on jump targets (all jumps are 5 bytes); compile_stmt is
   therefore run twice by the caller of a loop: once to learn the size, once with the real end offset. *)
Fixpoint compile_stmt (G : genv) (pos : nat) (L : option lctx) (ce : cenv) (s : stmt) (p : pool) {struct s}
  : option (list instr * cenv * pool) :=
  match s with
  | SSkip => Some ([], ce, p)
  | SSeq s1 s2 =>
      match compile_stmt G pos L ce s1 p with
      | Some (c1, ce1, p1) =>
          match compile_stmt G (pos + csize c1) L ce1 s2 p1 with
          | Some (c2, ce2, p2) => Some (c1 ++ c2, ce2, p2)
          | None => None end
      | None => None end
  | SLet _ x _ e =>
      match compile_expr G ce e p with
      | Some (c, p1) => Some (c ++ [mk OP_STORE_LOCAL [N.of_nat (length ce)]], ce ++ [x], p1)
      | None => None end
  | SSet x e =>
      match cfind x ce with
      | Some sl => match compile_expr G ce e p with
                   | Some (c, p1) => Some (c ++ [mk OP_STORE_LOCAL [N.of_nat sl]], ce, p1)
                   | None => None end
      | None =>
          match index_of x (g_globals G) 0%nat with
          | Some g => match compile_expr G ce e p with
                      | Some (c, p1) => Some (c ++ [mk OP_STORE_GLOBAL [N.of_nat g]], ce, p1)
                      | None => None end
          | None => None end
      end
  | SIf c s1 s2 =>
      match compile_expr G ce c p with
      | Some (cc, p1) =>
          let pos1 := (pos + csize cc + 5)%nat in
          match compile_stmt G pos1 L ce s1 p1 with
          | Some (c1, ce1r, p2) =>
              let ce1 := hide_from (length ce) ce1r in
              match s2 with
              | SSkip =>
                  Some (cc ++ [mk OP_JMP_FALSE [i32 (Z.of_nat (5 + csize c1))]] ++ c1, ce1, p2)
              | _ =>
                  match compile_stmt G (pos1 + csize c1 + 5) L ce1 s2 p2 with
                  | Some (c2, ce2, p3) =>
                      Some (cc ++ [mk OP_JMP_FALSE [i32 (Z.of_nat (5 + csize c1 + 5))]] ++ c1 ++
                            [mk OP_JMP [i32 (Z.of_nat (5 + csize c2))]] ++ c2, hide_from (length ce1) ce2, p3)
                  | None => None end
              end
          | None => None end
      | None => None end
  | SWhile c body =>
      match compile_expr G ce c p with
      | Some (cc, p1) =>
          let posb := (pos + csize cc + 5)%nat in
          (* first pass: size of the body *)
          match compile_stmt G posb (Some {| l_top := pos; l_end := 0 |}) ce body p1 with
          | Some (cb0, _, _) =>
              let lend := (posb + csize cb0 + 5)%nat in
              match compile_stmt G posb (Some {| l_top := pos; l_end := lend |}) ce body p1 with
              | Some (cb, ce1, p2) =>
                  Some (cc ++ [mk OP_JMP_FALSE [i32 (Z.of_nat (5 + csize cb + 5))]] ++ cb ++
                        [mk OP_JMP [i32 (Z.of_nat pos - Z.of_nat (posb + csize cb))]], hide_from (length ce) ce1, p2)
              | None => None end
          | None => None end
      | None => None end
  | SFor x lo hi body =>
      (* (range lo hi) builds an array, then the for loop walks it by index *)
      match compile_expr G ce lo p with
      | Some (clo, p1) =>
          match compile_expr G ce hi p1 with
          | Some (chi, p2) =>
              let n0 := length ce in
              let s_end := N.of_nat n0 in let s_i := N.of_nat (n0 + 1) in let s_rarr := N.of_nat (n0 + 2) in
              let s_arr := N.of_nat (n0 + 3) in let s_idx := N.of_nat (n0 + 4) in let s_len := N.of_nat (n0 + 5) in
              let s_var := N.of_nat (n0 + 6) in
              let rng_loop_body :=
                [mk OP_LOAD_LOCAL [s_rarr]; mk OP_LOAD_LOCAL [s_i]; mk OP_ARR_PUSH []; mk OP_STORE_LOCAL [s_rarr];
                 mk OP_LOAD_LOCAL [s_i]; mk OP_PUSH_I64 [i64 1]; mk OP_ADD []; mk OP_STORE_LOCAL [s_i]] in
              let rng_test := [mk OP_LOAD_LOCAL [s_i]; mk OP_LOAD_LOCAL [s_end]; mk OP_LT []] in
              let rng :=
                clo ++ chi ++ [mk OP_STORE_LOCAL [s_end]; mk OP_STORE_LOCAL [s_i]; mk OP_ARR_NEW [TAG_INT_N]; mk OP_STORE_LOCAL [s_rarr]] ++
                rng_test ++ [mk OP_JMP_FALSE [i32 (Z.of_nat (5 + csize rng_loop_body + 5))]] ++ rng_loop_body ++
                [mk OP_JMP [i32 (- Z.of_nat (csize rng_test + 5 + csize rng_loop_body))]] ++
                [mk OP_LOAD_LOCAL [s_rarr]] in
              let pre :=
                rng ++ [mk OP_STORE_LOCAL [s_arr]; mk OP_PUSH_I64 [i64 0]; mk OP_STORE_LOCAL [s_idx];
                        mk OP_LOAD_LOCAL [s_arr]; mk OP_ARR_LEN []; mk OP_STORE_LOCAL [s_len]] in
              let top := (pos + csize pre)%nat in
              let test := [mk OP_LOAD_LOCAL [s_idx]; mk OP_LOAD_LOCAL [s_len]; mk OP_LT []] in
              let fetch := [mk OP_LOAD_LOCAL [s_arr]; mk OP_LOAD_LOCAL [s_idx]; mk OP_ARR_GET []; mk OP_STORE_LOCAL [s_var]] in
              let incr := [mk OP_LOAD_LOCAL [s_idx]; mk OP_PUSH_I64 [i64 1]; mk OP_ADD []; mk OP_STORE_LOCAL [s_idx]] in
              let ce' := ce ++ [H_RANGE_END; H_RANGE_I; H_RANGE_ARR; H_FOR_ARR; H_FOR_IDX; H_FOR_LEN; x] in
              let posb := (top + csize test + 5 + csize fetch)%nat in
              match compile_stmt G posb (Some {| l_top := top; l_end := 0 |}) ce' body p2 with
              | Some (cb0, _, _) =>
                  let lend := (posb + csize cb0 + csize incr + 5)%nat in
                  (* continue lands on the increment that follows the body *)
                  match compile_stmt G posb (Some {| l_top := (posb + csize cb0)%nat; l_end := lend |}) ce' body p2 with
                  | Some (cb, ce1, p3) =>
                      Some (pre ++ test ++ [mk OP_JMP_FALSE [i32 (Z.of_nat (5 + csize fetch + csize cb + csize incr + 5))]] ++
                            fetch ++ cb ++ incr ++
                            [mk OP_JMP [i32 (Z.of_nat top - Z.of_nat (posb + csize cb + csize incr))]],
                            (* body names retired at block exit, then the loop variable *)
                            hide_from (n0 + 6) (hide_from (length ce') ce1), p3)
                  | None => None end
              | None => None end
          | None => None end
      | None => None end
  | SBreak =>
      match L with
      | Some l => Some ([mk OP_JMP [i32 (Z.of_nat (l_end l) - Z.of_nat pos)]], ce, p)
      | None => None end
  | SContinue =>
      (* codegen.c AST_CONTINUE: while -> the test; for -> the increment (patched after the body) *)
      match L with
      | Some l => Some ([mk OP_JMP [i32 (Z.of_nat (l_top l) - Z.of_nat pos)]], ce, p)
      | None => None end
  | SReturn None => Some ([mk OP_PUSH_VOID []; mk OP_RET []], ce, p)
  | SReturn (Some e) =>
      match compile_expr G ce e p with
      | Some (c, p1) => Some (c ++ [mk OP_RET []], ce, p1)
      | None => None end
  | SPrint nl e =>
      (* (println e) is an AST_CALL used as a statement: value, PRINT(LN), PUSH_VOID, POP *)
      match compile_expr G ce e p with
      | Some (c, p1) => Some (c ++ [mk (if nl then OP_PRINTLN else OP_PRINT) []; mk OP_PUSH_VOID []; mk OP_POP []], ce, p1)
      | None => None end
  | SAssert e =>
      match compile_expr G ce e p with
      | Some (c, p1) => Some (c ++ [mk OP_ASSERT []], ce, p1)
      | None => None end
  | SExpr e =>
      match compile_expr G ce e p with
      | Some (c, p1) => Some (c ++ [mk OP_POP []], ce, p1)
      | None => None end
  end.

Fixpoint encode_all (c : list instr) : option (list byte) :=
  match c with
  | [] => Some []
  | i :: r => match encode table i, encode_all r with Some b, Some br => Some (b ++ br) | _, _ => None end
  end.

Definition last_byte_is_ret (bs : list byte) : bool :=
  match rev bs with b :: _ => N.eqb b OP_RET | [] => false end.

Record fentry := { fe_name : nat; fe_arity : nat; fe_off : nat; fe_len : nat; fe_locals : nat }.
Record vmodule := { m_code : list byte; m_strings : pool; m_fns : list fentry; m_entry : nat; m_nglobals : nat }.

(* function names as the source spells them: main / f<decimal> ; variables are never in the pool *)
Definition fn_name_bytes (f : ident) : list N :=
  if N.eqb f 0 then [109;97;105;110] else 102 :: print_N f.
Definition INIT_NAME : list N := [95;95;105;110;105;116;95;95].

Definition compile_fn_body (G : genv) (d : fn) (p : pool) : option (list byte * nat * pool) :=
  match compile_stmt G 0 None (map fst (fparams d)) (fbody d) p with
  | Some (c, ce, p1) =>
      match encode_all c with
      | Some bs =>
          (* "ensure function always returns": the epilogue PUSH_VOID; RET is appended unconditionally *)
          let bs' := bs ++ match encode_all [mk OP_PUSH_VOID []; mk OP_RET []] with Some t => t | None => [] end in
          Some (bs', length ce, p1)
      | None => None end
  | None => None end.

Fixpoint compile_globals (G : genv) (gs : list (ident * ty * expr)) (i : nat) (p : pool) : option (list instr * pool) :=
  match gs with
  | [] => Some ([], p)
  | (_, _, e) :: r =>
      match compile_expr G [] e p with
      | Some (c, p1) =>
          match compile_globals G r (S i) p1 with
          | Some (cr, p2) => Some (c ++ [mk OP_STORE_GLOBAL [N.of_nat i]] ++ cr, p2)
          | None => None end
      | None => None end
  end.

Fixpoint compile_fns (G : genv) (ds : list fn) (names : list nat) (off : nat) (p : pool)
  : option (list byte * list fentry * pool) :=
  match ds, names with
  | [], _ => Some ([], [], p)
  | d :: r, nm :: nms =>
      match compile_fn_body G d p with
      | Some (bs, nloc, p1) =>
          match compile_fns G r nms (off + length bs) p1 with
          | Some (code, es, p2) =>
              Some (bs ++ code,
                    {| fe_name := nm; fe_arity := length (fparams d); fe_off := off; fe_len := length bs; fe_locals := nloc |} :: es, p2)
          | None => None end
      | None => None end
  | _, _ => None
  end.

Fixpoint add_names (fs : list ident) (p : pool) : list nat * pool :=
  match fs with
  | [] => ([], p)
  | f :: r => let '(i, p1) := pool_add (fn_name_bytes f) p in
              let '(is, p2) := add_names r p1 in (i :: is, p2)
  end.

Definition compile_program (pr : program) : option vmodule :=
  let fnames := map fname (pfns pr) in
  let G := {| g_globals := map (fun g => fst (fst g)) (pglobals pr); g_fns := fnames |} in
  let '(nidx, p0) := add_names fnames [] in
  match index_of (pmain pr) fnames 0%nat with
  | None => None
  | Some entry =>
      match pglobals pr with
      | [] =>
          match compile_fns G (pfns pr) nidx 0 p0 with
          | Some (code, es, p1) =>
              Some {| m_code := code; m_strings := p1; m_fns := es; m_entry := entry; m_nglobals := 0 |}
          | None => None end
      | _ =>
          let '(ini, p1) := pool_add INIT_NAME p0 in
          match compile_globals G (pglobals pr) 0 p1 with
          | Some (cg, p2) =>
              match encode_all (cg ++ [mk OP_PUSH_VOID []; mk OP_RET []]) with
              | Some ibs =>
                  match compile_fns G (pfns pr) nidx (length ibs) p2 with
                  | Some (code, es, p3) =>
                      Some {| m_code := ibs ++ code; m_strings := p3;
                              m_fns := es ++ [{| fe_name := ini; fe_arity := 0; fe_off := 0; fe_len := length ibs; fe_locals := 0 |}];
                              m_entry := entry; m_nglobals := length (pglobals pr) |}
                  | None => None end
              | None => None end
          | None => None end
      end
  end.
