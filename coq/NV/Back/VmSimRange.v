(* VM simulation, stage F (part 1): the inlined (range lo hi) loop.  It is VM-only code: the reference semantics has
   no array, so this is a plain loop invariant proved by induction on hi - i.  Also: `agree`, the frame condition
   "the first n slots are untouched", which is what writes to helper slots beyond the scope guarantee. *)
From Coq Require Import ZArith NArith List Bool Lia.
From NV Require Import Base.Bytes Isa.Codec Isa.CodecProofs gen.IsaTable Lang.Ast Lang.Ref Back.VmCompile Back.VmExec Back.OpTable
  Back.VmSimFetch Back.VmSimStep Back.VmSimComp Back.VmSimWf Back.VmSimEnv Back.VmSimDefs Back.VmSimExpr.
Import ListNotations.

(* ---------- agree ---------- *)
Definition agree (n : nat) (locs locs' : list mval) : Prop :=
  length locs' = length locs /\ firstn n locs' = firstn n locs.

Lemma agree_refl n l : agree n l l.
Proof. split; reflexivity. Qed.
Lemma agree_trans n a b c : agree n a b -> agree n b c -> agree n a c.
Proof. intros [L1 F1] [L2 F2]. split; congruence. Qed.
Lemma agree_set n l k w : n <= k -> k < length l -> agree n l (set_nth k w l).
Proof.
  intros Hn Hk. split; [apply set_nth_length; exact Hk|].
  unfold set_nth. rewrite firstn_app, firstn_firstn, firstn_length.
  replace (Nat.min n k) with n by lia. replace (n - Nat.min k (length l)) with 0 by lia.
  cbn [firstn]. apply app_nil_r.
Qed.
Lemma agree_le n m a b : m <= n -> agree n a b -> agree m a b.
Proof.
  intros Hm [L F]. split; [exact L|].
  replace m with (Nat.min m n) by lia. rewrite <- !firstn_firstn, F. reflexivity.
Qed.

Lemma nth_error_firstn_lt {A} (l : list A) : forall n k, k < n -> nth_error (firstn n l) k = nth_error l k.
Proof.
  induction l as [|x l IH]; intros n k H; [rewrite firstn_nil; reflexivity|].
  destruct n; [lia|]. cbn [firstn]. destruct k; [reflexivity|]. cbn [nth_error]. apply IH. lia.
Qed.

Lemma agree_nth n a b k : agree n a b -> k < n -> nth_error b k = nth_error a k.
Proof. intros [_ F] H. rewrite <- (nth_error_firstn_lt b n k H), <- (nth_error_firstn_lt a n k H), F. reflexivity. Qed.

Lemma agree_keeps ce a b : agree (length ce) a b -> keeps ce a b.
Proof.
  intros H k h Hk _. apply (agree_nth _ _ _ _ H). apply nth_error_Some. rewrite Hk. discriminate.
Qed.

Lemma agree_match_env ce en a b : agree (length ce) a b -> match_env ce en a -> match_env ce en b.
Proof.
  intros [L F] (vals & rest & -> & Lv & H).
  exists vals, (skipn (length ce) b). split; [|split; assumption].
  rewrite <- (firstn_skipn (length ce) b) at 1. rewrite F, <- Lv, firstn_app, firstn_all, Nat.sub_diag. cbn [firstn].
  rewrite app_nil_r. reflexivity.
Qed.

(* ---------- integer ranges ---------- *)
Fixpoint zrange (a : Z) (n : nat) : list Z :=
  match n with O => [] | S k => a :: zrange (a + 1) k end.
Lemma zrange_length a n : length (zrange a n) = n.
Proof. revert a; induction n; intros; cbn [zrange length]; auto. Qed.
Lemma nth_zrange n : forall a k, k < n -> nth k (map MInt (zrange a n)) MVoid = MInt (a + Z.of_nat k).
Proof.
  induction n as [|n IH]; intros a k H; [lia|]. cbn [zrange map]. destruct k.
  - cbn [nth]. f_equal. lia.
  - cbn [nth]. rewrite IH by lia. f_equal. lia.
Qed.

Lemma cmp_lt x y : Z.ltb (val_compare (MInt x) (MInt y)) 0 = Z.ltb x y.
Proof.
  unfold val_compare. destruct (Z.ltb_spec x y); [reflexivity|].
  destruct (Z.gtb_spec x y); reflexivity.
Qed.

Lemma wrap64_small z : in64 z = true -> wrap64 z = z.
Proof. apply wrap64_id. Qed.

Section Range.
Variable M : vmodule.

Ltac ldl Hfe Hcode Hc H := vstep Hfe Hcode Hc step_load_local; [exact H|]; vnext Hc.

(* the loop  while i < end: rarr.push(i); i += 1   followed by LOAD rarr *)
Lemma rng_loop_run fn fe cf P n0 ret st cs g out b :
  fentry_at M fn = Some fe -> fn_code M fe cf -> (Z.of_nat (csize cf) < 2147483648)%Z ->
  code_at cf P (rng_loop n0) -> in64 b = true ->
  forall n j A locs,
  n = Z.to_nat (b - j) -> in64 j = true ->
  nth_error locs n0 = Some (MInt b) -> nth_error locs (n0 + 1) = Some (MInt j) -> nth_error locs (n0 + 2) = Some (MArr A) ->
  forall Q : mres -> Prop,
  (forall locs', agree n0 locs locs' ->
     Reach M (mkst fn ret locs' (MArr (A ++ map MInt (zrange j n)) :: st) cs (fe_off fe + (P + 46)) g out) Q) ->
  Reach M (mkst fn ret locs st cs (fe_off fe + P) g out) Q.
Proof.
  intros Hfe Hcode Hsz Hc0 Hb.
  pose proof (code_at_bound _ _ _ Hc0) as Hbd. destruct (for_sizes n0) as (_ & _ & _ & Sb & St & _ & _ & Sl).
  rewrite Sl in Hbd.
  induction n as [|n IH]; intros j A locs Hn Hj He Hi Ha Q K.
  - (* i >= end: leave the loop *)
    pose proof Hc0 as Hc. unfold rng_loop in Hc. rewrite Sb, St in Hc. unfold rng_test in Hc. cbn [app] in Hc.
    ldl Hfe Hcode Hc Hi. ldl Hfe Hcode Hc He. vstep Hfe Hcode Hc step_lt. vnext Hc. rewrite cmp_lt.
    replace (Z.ltb j b) with false by (symmetry; apply Z.ltb_ge; lia).
    vstep Hfe Hcode Hc step_jmp_false; [lia|]. cbn [truthy].
    apply code_at_cons_r in Hc. apply code_at_app_r in Hc. rewrite Sb in Hc. cbn [app] in Hc. autorewrite with csz in Hc. vnext Hc.
    ldl Hfe Hcode Hc Ha.
    cbn [zrange map] in K. rewrite app_nil_r in K.
    match goal with |- Reach _ (mkst _ _ _ _ _ ?ip _ _) _ => replace ip with (fe_off fe + (P + 46)) by lia end.
    apply K. apply agree_refl.
  - (* i < end: push i, increment, jump back *)
    assert (Hlt : (j < b)%Z) by lia. apply in64_spec in Hb. apply in64_spec in Hj.
    assert (L0 : n0 < length locs) by (apply nth_error_Some; rewrite He; discriminate).
    assert (L1 : n0 + 1 < length locs) by (apply nth_error_Some; rewrite Hi; discriminate).
    assert (L2 : n0 + 2 < length locs) by (apply nth_error_Some; rewrite Ha; discriminate).
    pose proof Hc0 as Hc. unfold rng_loop in Hc. rewrite Sb, St in Hc. unfold rng_test, rng_body in Hc. cbn [app] in Hc.
    ldl Hfe Hcode Hc Hi. ldl Hfe Hcode Hc He. vstep Hfe Hcode Hc step_lt. vnext Hc. rewrite cmp_lt.
    replace (Z.ltb j b) with true by (symmetry; apply Z.ltb_lt; lia).
    vstep Hfe Hcode Hc step_jmp_false; [lia|]. cbn [truthy]. vnext Hc.
    ldl Hfe Hcode Hc Ha. ldl Hfe Hcode Hc Hi. vstep Hfe Hcode Hc step_arr_push. vnext Hc.
    vstep Hfe Hcode Hc step_store_local; [exact L2|]. vnext Hc.
    set (locs1 := set_nth (n0 + 2) (MArr (A ++ [MInt j])) locs).
    assert (Hi1 : nth_error locs1 (n0 + 1) = Some (MInt j)) by (unfold locs1; rewrite nth_error_set_nth_ne by lia; exact Hi).
    assert (L1' : n0 + 1 < length locs1) by (unfold locs1; rewrite set_nth_length; lia).
    ldl Hfe Hcode Hc Hi1. vstep Hfe Hcode Hc step_push_i64. vnext Hc.
    vstep Hfe Hcode Hc step_arith; [unfold is_arith_op; auto|reflexivity|]. vnext Hc.
    vstep Hfe Hcode Hc step_store_local; [exact L1'|]. vnext Hc.
    vstep Hfe Hcode Hc step_jmp; [lia|].
    rewrite i64_signed by reflexivity. rewrite wrap64_small by (apply in64_spec; lia).
    set (locs2 := set_nth (n0 + 1) (MInt (j + 1)) locs1).
    match goal with |- Reach _ (mkst _ _ _ _ _ ?ip _ _) _ => replace ip with (fe_off fe + P) by lia end.
    apply (IH (j + 1)%Z (A ++ [MInt j]) locs2).
    + lia.
    + apply in64_spec; lia.
    + unfold locs2, locs1. rewrite !nth_error_set_nth_ne by (rewrite ?set_nth_length; lia). exact He.
    + unfold locs2. apply nth_error_set_nth_eq. exact L1'.
    + unfold locs2. rewrite nth_error_set_nth_ne by lia. unfold locs1. apply nth_error_set_nth_eq. exact L2.
    + intros locs' Hag. cbn [zrange map] in K. rewrite <- app_assoc. cbn [app]. apply K.
      eapply agree_trans; [|exact Hag]. unfold locs2, locs1.
      apply agree_trans with (b := set_nth (n0 + 2) (MArr (A ++ [MInt j])) locs);
        [apply agree_set; lia|apply agree_set; [lia|rewrite set_nth_length; lia]].
Qed.

End Range.
