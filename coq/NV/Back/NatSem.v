(* Source-level model of the NATIVE engine (transpiler + C compiler + runtime) for the core fragment:
   the program means what the C text emitted by src/transpiler_iterative_v3_twopass.c means.  What C leaves
   open is a parameter: [ord] = order in which the arguments of one call are evaluated (gcc on x86-64: right to
   left).  Operands of a binary C operator are modelled left to right (gcc at -O0).  && and || short-circuit;
   / and % truncate; division by zero and INT64_MIN / -1 raise SIGFPE; assert prints and exits 1;
   `let x = e` inside a block becomes `int64_t x = e;` whose initialiser already sees the NEW x, so an
   initialiser that reads a shadowed x reads an indeterminate value: nat_outcome NUndef.
   Not modelled (open finding lang:for-bound-reevaluated): the emitted `for (i = lo; i < hi; i++)` re-evaluates hi before
   every iteration; the model evaluates the bounds once, as the language prescribes -- the two differ only when the body
   assigns a variable hi reads or hi has an effect, which the correspondence stream keeps apart.
   Strings: (+ a b) on strings and str_concat are nl_str_concat(a, b), str_length nl_str_length(s), str_equals / == on strings
   strcmp, str_contains strstr, char_at char_at(s, i), str_substring nl_str_substring(s, start, len), int_to_string
   snprintf("%lld") into a buffer that holds every int64 (Back/IntFormatProofs.native_int_to_string_exact): all C calls, so
   their operands are evaluated in the order [ord].  (== and != on two STRING operands are strcmp calls too; the model
   evaluates the operands of EBin left to right whatever their type -- the correspondence stream never gives both operands of
   a string comparison an effect.)
   Arrays: a literal is the C call dynarray_literal_int(n, e1, .., en) and (at a i) is nl_array_at_int(a, i), so their
   operands are evaluated in the order [ord] like the arguments of any other call; an index outside 0 <= i < length
   fails the assertion in dyn_array_get_int (src/runtime/dyn_array.c): abort().
   Tie: behavioural (stdout + exit of the binary nanoc builds), tools/props/c01.py / c02.py.  Definitions only. *)
From Coq Require Import ZArith NArith List Bool.
From NV Require Import Lang.Ast.
Import ListNotations.
Local Open Scope Z_scope.

Inductive arg_order := LtoR | RtoL.

Inductive nfault := NFAssert | NFSigfpe | NFSigfpeOv | NFOob | NFStrDomain.
(* NFOob: the runtime's index assertion fails: abort().  NFStrDomain: a string builtin applied outside the domain on which the
   engines agree -- NOT what the binary does there (char_at out of range: a message on stderr and the value 0; str_substring
   with a negative operand: the empty string, with an operand of 2^32 and more: 64-bit arithmetic; a string operand longer
   than 1 MiB: only its first 2^20 bytes are seen); the model stops, as Ref does, and nothing is claimed (findings
   lang:char-at-out-of-range, lang:str-substring-u32, lang:native-string-1mib); the correspondence stream stays inside *)

Inductive nres (A : Type) :=
  | NOk (a : A) (out : list N)
  | NFault (f : nfault) (out : list N)
  | NStuck
  | NCcFail                                  (* the generated C is refused by the C compiler (-Werror) *)
  | NNoFuel.
Arguments NOk {A}. Arguments NFault {A}. Arguments NStuck {A}. Arguments NCcFail {A}. Arguments NNoFuel {A}.

Definition nbind {A B} (r : nres A) (k : A -> list N -> nres B) : nres B :=
  match r with NOk a out => k a out | NFault f out => NFault f out | NStuck => NStuck | NCcFail => NCcFail | NNoFuel => NNoFuel end.

Definition nenv := list (ident * (bool * value)).          (* newest binding first; bool = mutable *)
Fixpoint nlookup (x : ident) (e : nenv) : option (bool * value) :=
  match e with [] => None | (y, b) :: r => if N.eqb x y then Some b else nlookup x r end.
(* nassign to the newest binding of x; None if unbound or immutable *)
Fixpoint nassign (x : ident) (v : value) (e : nenv) : option nenv :=
  match e with
  | [] => None
  | (y, (m, w)) :: r =>
      if N.eqb x y then (if m then Some ((y, (m, v)) :: r) else None)
      else match nassign x v r with Some r' => Some ((y, (m, w)) :: r') | None => None end
  end.
(* leave a block: drop the bindings made inside it, keep updates to outer variables *)
Definition nrestore (n : nat) (e : nenv) : nenv := skipn (length e - n) e.

Inductive nctl := NCNormal | NCBreak | NCContinue | NCReturn (v : value).

Inductive nopres := NOV (v : value) | NOF (f : nfault) | NOStuck.
Definition nmin64 : Z := -9223372036854775808.

Definition nat_unop (o : unop) (v : value) : nopres :=
  match o, v with
  | UNeg, VInt a => NOV (VInt (wrap64 (- a)))
  | UNot, VBool b => NOV (VBool (negb b))
  | _, _ => NOStuck
  end.

Definition nat_value_eqb (a b : value) : option bool :=
  match a, b with
  | VInt x, VInt y => Some (Z.eqb x y)
  | VBool x, VBool y => Some (Bool.eqb x y)
  | VStr x, VStr y => Some (if list_eq_dec N.eq_dec x y then true else false)
  | _, _ => None
  end.

Definition nat_binop (o : binop) (a b : value) : nopres :=
  match o, a, b with
  | BAdd, VInt x, VInt y => NOV (VInt (wrap64 (x + y)))
  | BSub, VInt x, VInt y => NOV (VInt (wrap64 (x - y)))
  | BMul, VInt x, VInt y => NOV (VInt (wrap64 (x * y)))
  | BDiv, VInt x, VInt y =>
      if y =? 0 then NOF NFSigfpe else if (x =? nmin64) && (y =? -1) then NOF NFSigfpeOv else NOV (VInt (Z.quot x y))
  | BMod, VInt x, VInt y =>
      if y =? 0 then NOF NFSigfpe else if (x =? nmin64) && (y =? -1) then NOF NFSigfpeOv else NOV (VInt (Z.rem x y))
  | BEq, _, _ => match nat_value_eqb a b with Some r => NOV (VBool r) | None => NOStuck end
  | BNe, _, _ => match nat_value_eqb a b with Some r => NOV (VBool (negb r)) | None => NOStuck end
  | BLt, VInt x, VInt y => NOV (VBool (x <? y))
  | BLe, VInt x, VInt y => NOV (VBool (x <=? y))
  | BGt, VInt x, VInt y => NOV (VBool (x >? y))
  | BGe, VInt x, VInt y => NOV (VBool (x >=? y))
  | BAnd, VBool x, VBool y => NOV (VBool (x && y))
  | BOr, VBool x, VBool y => NOV (VBool (x || y))
  | _, _, _ => NOStuck
  end.

Definition of_nopres (r : nopres) (out : list N) : nres value :=
  match r with NOV v => NOk v out | NOF f => NFault f out | NOStuck => NStuck end.

(* nl_array_at_int(a, i) once both operands have values *)
Definition nat_at (va vi : value) (out : list N) : nres value :=
  match va, vi with
  | VArr l, VInt k => match arr_get l k with Some z => NOk (VInt z) out | None => NFault NFOob out end
  | _, _ => NStuck
  end.

(* the string builtins once their operands have values: the reference's functions on the common domain (Ast) *)
Definition nat_str1 (o : sop1) (v : value) : nopres :=
  match o, v with
  | SLen, VStr s => NOV (VInt (Z.of_nat (length s)))
  | SOfInt, VInt z => NOV (VStr (print_Z z))
  | _, _ => NOStuck
  end.
Definition nat_str2 (o : sop2) (a b : value) : nopres :=
  match o, a, b with
  | SPlus, VStr x, VStr y | SConcat, VStr x, VStr y =>
      match concat_v x y with Some r => NOV (VStr r) | None => NOF NFStrDomain end
  | SEquals, VStr x, VStr y => NOV (VBool (if list_eq_dec N.eq_dec x y then true else false))
  | SContains, VStr x, VStr y => NOV (VBool (containsb x y))
  | SCharAt, VStr x, VInt i => match char_at_v x i with Some c => NOV (VInt c) | None => NOF NFStrDomain end
  | _, _, _ => NOStuck
  end.
Definition nat_substr (s st ln : value) : nopres :=
  match s, st, ln with
  | VStr x, VInt a, VInt b => match substr_v x a b with Some r => NOV (VStr r) | None => NOF NFStrDomain end
  | _, _, _ => NOStuck
  end.

Fixpoint nat_bind_params (ps : list (ident * ty)) (vs : list value) : option nenv :=
  match ps, vs with
  | [], [] => Some []
  | (x, _) :: ps', v :: vs' => match nat_bind_params ps' vs' with Some e => Some ((x, (false, v)) :: e) | None => None end
  | _, _ => None
  end.

Section NatRun.
Variable ord : arg_order.
Variable fns : list fn.
Definition nat_find_fn (f : ident) : option fn := find (fun d => N.eqb (fname d) f) fns.

Fixpoint nat_expr (fuel : nat) (genv en : nenv) (e : expr) (out : list N) {struct fuel} : nres value :=
  match fuel with
  | O => NNoFuel
  | S fuel' =>
    match e with
    | ENum z => NOk (VInt z) out
    | EBool b => NOk (VBool b) out
    | EStr s => NOk (VStr (unescape s)) out
    | EVar x =>
        match nlookup x en with
        | Some (_, v) => NOk v out
        | None => match nlookup x genv with Some (_, v) => NOk v out | None => NStuck end
        end
    | EUn o a => nbind (nat_expr fuel' genv en a out) (fun v out1 => of_nopres (nat_unop o v) out1)
    | EBin BAnd a b =>
        nbind (nat_expr fuel' genv en a out) (fun va out1 =>
          match va with
          | VBool false => NOk (VBool false) out1                      (* right operand NOT evaluated *)
          | VBool true => nbind (nat_expr fuel' genv en b out1) (fun vb out2 =>
                            match vb with VBool _ => NOk vb out2 | _ => NStuck end)
          | _ => NStuck end)
    | EBin BOr a b =>
        nbind (nat_expr fuel' genv en a out) (fun va out1 =>
          match va with
          | VBool true => NOk (VBool true) out1
          | VBool false => nbind (nat_expr fuel' genv en b out1) (fun vb out2 =>
                             match vb with VBool _ => NOk vb out2 | _ => NStuck end)
          | _ => NStuck end)
    | EBin o a b =>
        nbind (nat_expr fuel' genv en a out) (fun va out1 =>
        nbind (nat_expr fuel' genv en b out1) (fun vb out2 =>
        of_nopres (nat_binop o va vb) out2))
    | ECond c a b =>
        nbind (nat_expr fuel' genv en c out) (fun vc out1 =>
          match vc with
          | VBool true => nat_expr fuel' genv en a out1
          | VBool false => nat_expr fuel' genv en b out1
          | _ => NStuck end)
    | ECall f args =>
        let fix eval_args (l : list expr) (out0 : list N) : nres (list value) :=
          match l with
          | [] => NOk [] out0
          | a :: r => nbind (nat_expr fuel' genv en a out0) (fun v out1 =>
                      nbind (eval_args r out1) (fun vs out2 => NOk (v :: vs) out2))
          end in
        let fix eval_args_rl (l : list expr) (out0 : list N) : nres (list value) :=     (* last argument first *)
          match l with
          | [] => NOk [] out0
          | a :: r => nbind (eval_args_rl r out0) (fun vs out1 =>
                      nbind (nat_expr fuel' genv en a out1) (fun v out2 => NOk (v :: vs) out2))
          end in
        nbind (match ord with LtoR => eval_args args out | RtoL => eval_args_rl args out end) (fun vs out1 =>
          match nat_find_fn f with
          | None => NStuck
          | Some d =>
              match nat_bind_params (fparams d) vs with
              | None => NStuck
              | Some en' =>      (* parameters enter scope in order: the last one is the newest binding *)
                  nbind (nat_stmt fuel' genv (rev en') (fbody d) out1) (fun r out2 =>
                    match fst r with
                    | NCReturn v => NOk v out2
                    | NCNormal => NOk VVoid out2
                    | _ => NStuck end)
              end
          end)
    | EArr es =>
        let fix eval_args (l : list expr) (out0 : list N) : nres (list value) :=
          match l with
          | [] => NOk [] out0
          | a :: r => nbind (nat_expr fuel' genv en a out0) (fun v out1 =>
                      nbind (eval_args r out1) (fun vs out2 => NOk (v :: vs) out2))
          end in
        let fix eval_args_rl (l : list expr) (out0 : list N) : nres (list value) :=     (* last element first *)
          match l with
          | [] => NOk [] out0
          | a :: r => nbind (eval_args_rl r out0) (fun vs out1 =>
                      nbind (nat_expr fuel' genv en a out1) (fun v out2 => NOk (v :: vs) out2))
          end in
        nbind (match ord with LtoR => eval_args es out | RtoL => eval_args_rl es out end) (fun vs out1 =>
          match ints_of vs with Some l => NOk (VArr l) out1 | None => NStuck end)
    | EAt a i =>
        match ord with
        | LtoR =>
            nbind (nat_expr fuel' genv en a out) (fun va out1 =>
            nbind (nat_expr fuel' genv en i out1) (fun vi out2 => nat_at va vi out2))
        | RtoL =>
            nbind (nat_expr fuel' genv en i out) (fun vi out1 =>
            nbind (nat_expr fuel' genv en a out1) (fun va out2 => nat_at va vi out2))
        end
    | ELen a =>
        nbind (nat_expr fuel' genv en a out) (fun va out1 =>
          match va with VArr l => NOk (VInt (Z.of_nat (length l))) out1 | _ => NStuck end)
    | EStr1 o a => nbind (nat_expr fuel' genv en a out) (fun v out1 => of_nopres (nat_str1 o v) out1)
    | EStr2 o a b =>
        match ord with
        | LtoR =>
            nbind (nat_expr fuel' genv en a out) (fun va out1 =>
            nbind (nat_expr fuel' genv en b out1) (fun vb out2 => of_nopres (nat_str2 o va vb) out2))
        | RtoL =>
            nbind (nat_expr fuel' genv en b out) (fun vb out1 =>
            nbind (nat_expr fuel' genv en a out1) (fun va out2 => of_nopres (nat_str2 o va vb) out2))
        end
    | ESubstr a b c =>
        match ord with
        | LtoR =>
            nbind (nat_expr fuel' genv en a out) (fun va out1 =>
            nbind (nat_expr fuel' genv en b out1) (fun vb out2 =>
            nbind (nat_expr fuel' genv en c out2) (fun vc out3 => of_nopres (nat_substr va vb vc) out3)))
        | RtoL =>
            nbind (nat_expr fuel' genv en c out) (fun vc out1 =>
            nbind (nat_expr fuel' genv en b out1) (fun vb out2 =>
            nbind (nat_expr fuel' genv en a out2) (fun va out3 => of_nopres (nat_substr va vb vc) out3)))
        end
    end
  end
with nat_stmt (fuel : nat) (genv en : nenv) (s : stmt) (out : list N) {struct fuel} : nres (nctl * nenv) :=
  match fuel with
  | O => NNoFuel
  | S fuel' =>
    match s with
    | SSkip => NOk (NCNormal, en) out
    | SSeq s1 s2 =>
        nbind (nat_stmt fuel' genv en s1 out) (fun r out1 =>
          match fst r with
          | NCNormal => nat_stmt fuel' genv (snd r) s2 out1
          | _ => NOk r out1 end)
    | SLet m x _ e =>
        nbind (nat_expr fuel' genv en e out) (fun v out1 => NOk (NCNormal, (x, (m, v)) :: en) out1)
    | SSet x e =>
        nbind (nat_expr fuel' genv en e out) (fun v out1 =>
          match nassign x v en with Some en' => NOk (NCNormal, en') out1 | None => NStuck end)
    | SIf c s1 s2 =>
        nbind (nat_expr fuel' genv en c out) (fun vc out1 =>
          match vc with
          | VBool b =>
              nbind (nat_stmt fuel' genv en (if b then s1 else s2) out1) (fun r out2 =>
                NOk (fst r, nrestore (length en) (snd r)) out2)
          | _ => NStuck end)
    | SWhile c body =>
        nbind (nat_expr fuel' genv en c out) (fun vc out1 =>
          match vc with
          | VBool false => NOk (NCNormal, en) out1
          | VBool true =>
              nbind (nat_stmt fuel' genv en body out1) (fun r out2 =>
                let en2 := nrestore (length en) (snd r) in
                match fst r with
                | NCBreak => NOk (NCNormal, en2) out2
                | NCReturn v => NOk (NCReturn v, en2) out2
                | _ => nat_stmt fuel' genv en2 (SWhile c body) out2
                end)
          | _ => NStuck end)
    | SFor x lo hi body =>
        nbind (nat_expr fuel' genv en lo out) (fun vlo out1 =>
        nbind (nat_expr fuel' genv en hi out1) (fun vhi out2 =>
          match vlo, vhi with
          | VInt a, VInt b => nat_for fuel' genv en x a b body out2
          | _, _ => NStuck end))
    | SBreak => NOk (NCBreak, en) out
    | SContinue => NOk (NCContinue, en) out
    | SReturn None => NOk (NCReturn VVoid, en) out
    | SReturn (Some e) => nbind (nat_expr fuel' genv en e out) (fun v out1 => NOk (NCReturn v, en) out1)
    | SPrint nl e =>
        nbind (nat_expr fuel' genv en e out) (fun v out1 =>
          NOk (NCNormal, en) (out1 ++ print_value v ++ (if nl then [10%N] else [])))
    | SAssert e =>
        nbind (nat_expr fuel' genv en e out) (fun v out1 =>
          match v with
          | VBool true => NOk (NCNormal, en) out1
          | VBool false => NFault NFAssert out1
          | _ => NStuck end)
    | SExpr e => nbind (nat_expr fuel' genv en e out) (fun _ out1 => NOk (NCNormal, en) out1)
    end
  end
with nat_for (fuel : nat) (genv en : nenv) (x : ident) (i hi : Z) (body : stmt) (out : list N) {struct fuel}
  : nres (nctl * nenv) :=
  match fuel with
  | O => NNoFuel
  | S fuel' =>
      if i <? hi then
        nbind (nat_stmt fuel' genv ((x, (false, VInt i)) :: en) body out) (fun r out1 =>
          let en1 := nrestore (length en) (snd r) in
          match fst r with
          | NCBreak => NOk (NCNormal, en1) out1
          | NCReturn v => NOk (NCReturn v, en1) out1
          | _ => nat_for fuel' genv en1 x (i + 1) hi body out1
          end)
      else NOk (NCNormal, en) out
  end.

Fixpoint nat_globals (fuel : nat) (gs : list (ident * ty * expr)) (genv : nenv) (out : list N) : nres nenv :=
  match gs with
  | [] => NOk genv out
  | (x, _, e) :: r =>
      nbind (nat_expr fuel genv [] e out) (fun v out1 => nat_globals fuel r ((x, (false, v)) :: genv) out1)
  end.
End NatRun.

Inductive nat_outcome :=
  | NDone (out : list N) (exit : Z)
  | NFaulted (f : nfault) (out : list N)
  | NStuckO
  | NCcFailO
  | NOutOfFuel.

(* `let x = e` becomes `T x = e;` whose initialiser is already in the scope of the NEW x: when e reads x the C
   compiler (-Wall -Werror: -Wuninitialized) refuses the translation unit -- a static property of the program. *)
Fixpoint stmt_selfref (s : stmt) : bool :=
  match s with
  | SLet _ x _ e => expr_mentions x e
  | SSeq a b => stmt_selfref a || stmt_selfref b
  | SIf _ a b => stmt_selfref a || stmt_selfref b
  | SWhile _ b => stmt_selfref b
  | SFor _ _ _ b => stmt_selfref b
  | _ => false
  end.
Definition cc_refuses (p : program) : bool := existsb (fun d => stmt_selfref (fbody d)) (pfns p).

Definition run_nat (ord : arg_order) (fuel : nat) (p : program) : nat_outcome :=
  if cc_refuses p then NCcFailO else
  match nat_globals ord (pfns p) fuel (pglobals p) [] [] with
  | NOk genv out0 =>
      match nat_expr ord (pfns p) fuel genv [] (ECall (pmain p) []) out0 with
      | NOk (VInt z) out => NDone out (z mod 256)
      | NOk _ out => NStuckO
      | NFault f out => NFaulted f out
      | NStuck => NStuckO
      | NCcFail => NCcFailO
      | NNoFuel => NOutOfFuel
      end
  | NFault f out => NFaulted f out
  | NStuck => NStuckO
  | NCcFail => NCcFailO
  | NNoFuel => NOutOfFuel
  end.
