(* VM simulation, stage A (part 2): one lemma per opcode, stated on constructor-form states (mkst), so that no
   later proof unfolds `step`.  Hypothesis of each lemma: at_instr M fn ip i (obtained from fetch_at). *)
From Coq Require Import ZArith NArith List Bool Lia.
From NV Require Import Base.Bytes Isa.Codec Isa.CodecProofs gen.IsaTable Lang.Ast Back.VmCompile Back.VmExec
  Back.VmSimFetch Back.IntFormat.
Import ListNotations.

Ltac step_tac H :=
  let fe := fresh "fe" in let Hfe := fresh "Hfe" in let Hleb := fresh "Hleb" in let Hdec := fresh "Hdec" in
  destruct H as (fe & Hfe & Hleb & Hdec);
  unfold step, mkst;
  cbn [ms_cur ms_ip mf_fn mf_stack mf_locals mf_ret ms_callers ms_globals ms_out];
  rewrite Hfe, Hleb, Hdec.

(* signed operand round trips *)
Lemma i64_signed z : in64 z = true -> to_signed 64 (i64 z) = z.
Proof.
  unfold in64, i64. intros H. apply andb_true_iff in H. destruct H as [H1 H2].
  apply Z.leb_le in H1. apply Z.leb_le in H2.
  apply to_of_signed; [reflexivity|]. change (2 ^ (Z.of_N 64 - 1))%Z with 9223372036854775808%Z. lia.
Qed.
Lemma i32_signed z : (-2147483648 <= z < 2147483648)%Z -> to_signed 32 (i32 z) = z.
Proof.
  intros H. unfold i32. apply to_of_signed; [reflexivity|].
  change (2 ^ (Z.of_N 32 - 1))%Z with 2147483648%Z. lia.
Qed.
Lemma i64_range z : (i64 z < 256 ^ 8)%N.
Proof.
  unfold i64, of_signed. change (256 ^ 8)%N with (Z.to_N 18446744073709551616).
  change (2 ^ Z.of_N 64)%Z with 18446744073709551616%Z.
  pose proof (Z.mod_pos_bound z 18446744073709551616 ltac:(lia)). lia.
Qed.
Lemma i32_range z : (i32 z < 256 ^ 4)%N.
Proof.
  unfold i32, of_signed. change (256 ^ 4)%N with (Z.to_N 4294967296).
  change (2 ^ Z.of_N 32)%Z with 4294967296%Z.
  pose proof (Z.mod_pos_bound z 4294967296 ltac:(lia)). lia.
Qed.

Lemma jump_target_i32 start z tgt :
  (-2147483648 <= z < 2147483648)%Z -> Z.of_nat tgt = (Z.of_nat start + z)%Z ->
  jump_target start (i32 z) = tgt.
Proof. intros Hz Ht. unfold jump_target. rewrite (i32_signed z Hz), <- Ht. apply Nat2Z.id. Qed.

Section Steps.
Variable M : vmodule.
Variables (fn ret : nat) (locs : list mval) (cs : list mframe) (ip : nat) (g : list mval) (out : list N).

Lemma step_push_i64 v st :
  at_instr M fn ip (mk OP_PUSH_I64 [v]) ->
  step M (mkst fn ret locs st cs ip g out) = MNext (mkst fn ret locs (MInt (to_signed 64 v) :: st) cs (ip + 9) g out).
Proof. intros H. step_tac H. reflexivity. Qed.

Lemma step_push_bool (b : bool) st :
  at_instr M fn ip (mk OP_PUSH_BOOL [if b then 1%N else 0%N]) ->
  step M (mkst fn ret locs st cs ip g out) = MNext (mkst fn ret locs (MBool b :: st) cs (ip + 2) g out).
Proof. intros H. step_tac H. destruct b; reflexivity. Qed.

Lemma step_push_str k st :
  at_instr M fn ip (mk OP_PUSH_STR [N.of_nat k]) ->
  step M (mkst fn ret locs st cs ip g out) =
  MNext (mkst fn ret locs (MStr (match nth_error (m_strings M) k with Some t => t | None => [] end) :: st) cs (ip + 5) g out).
Proof. intros H. step_tac H. cbn. rewrite Nat2N.id. reflexivity. Qed.

Lemma step_push_void st :
  at_instr M fn ip (mk OP_PUSH_VOID []) ->
  step M (mkst fn ret locs st cs ip g out) = MNext (mkst fn ret locs (MVoid :: st) cs (ip + 1) g out).
Proof. intros H. step_tac H. reflexivity. Qed.

Lemma step_pop v st :
  at_instr M fn ip (mk OP_POP []) ->
  step M (mkst fn ret locs (v :: st) cs ip g out) = MNext (mkst fn ret locs st cs (ip + 1) g out).
Proof. intros H. step_tac H. reflexivity. Qed.

Lemma step_dup v st :
  at_instr M fn ip (mk OP_DUP []) ->
  step M (mkst fn ret locs (v :: st) cs ip g out) = MNext (mkst fn ret locs (v :: v :: st) cs (ip + 1) g out).
Proof. intros H. step_tac H. reflexivity. Qed.

Lemma step_load_local k v st :
  at_instr M fn ip (mk OP_LOAD_LOCAL [N.of_nat k]) -> nth_error locs k = Some v ->
  step M (mkst fn ret locs st cs ip g out) = MNext (mkst fn ret locs (v :: st) cs (ip + 3) g out).
Proof. intros H Hk. step_tac H. cbn. rewrite Nat2N.id, Hk. reflexivity. Qed.

Lemma step_store_local k v st :
  at_instr M fn ip (mk OP_STORE_LOCAL [N.of_nat k]) -> k < length locs ->
  step M (mkst fn ret locs (v :: st) cs ip g out) = MNext (mkst fn ret (set_nth k v locs) st cs (ip + 3) g out).
Proof.
  intros H Hk. step_tac H. cbn -[Nat.leb Nat.ltb VM_MAX_GLOBALS_N VM_MAX_FRAMES_N set_nth]. rewrite Nat2N.id.
  destruct (Nat.ltb_spec k (length locs)); [reflexivity|lia].
Qed.

Lemma step_load_global k st :
  at_instr M fn ip (mk OP_LOAD_GLOBAL [N.of_nat k]) -> k < VM_MAX_GLOBALS_N ->
  step M (mkst fn ret locs st cs ip g out) = MNext (mkst fn ret locs (nth k g MVoid :: st) cs (ip + 5) g out).
Proof.
  intros H Hk. step_tac H. cbn -[Nat.leb Nat.ltb VM_MAX_GLOBALS_N VM_MAX_FRAMES_N set_nth]. rewrite Nat2N.id.
  destruct (Nat.leb_spec VM_MAX_GLOBALS_N k); [lia|reflexivity].
Qed.

Lemma step_store_global k v st :
  at_instr M fn ip (mk OP_STORE_GLOBAL [N.of_nat k]) -> k < VM_MAX_GLOBALS_N ->
  step M (mkst fn ret locs (v :: st) cs ip g out) =
  MNext (mkst fn ret locs st cs (ip + 5)
           (set_nth k v (if Nat.ltb k (length g) then g else g ++ repeat MVoid (S k - length g))) out).
Proof.
  intros H Hk. step_tac H. cbn -[Nat.leb Nat.ltb VM_MAX_GLOBALS_N VM_MAX_FRAMES_N set_nth]. rewrite Nat2N.id.
  destruct (Nat.leb_spec VM_MAX_GLOBALS_N k); [lia|reflexivity].
Qed.

Definition is_arith_op (o : N) : Prop := o = OP_ADD \/ o = OP_SUB \/ o = OP_MUL \/ o = OP_DIV \/ o = OP_MOD.

Lemma step_arith o x y z st :
  at_instr M fn ip (mk o []) -> is_arith_op o -> arith o x y = Some z ->
  step M (mkst fn ret locs (MInt y :: MInt x :: st) cs ip g out) = MNext (mkst fn ret locs (MInt z :: st) cs (ip + 1) g out).
Proof.
  intros H Ho Hz. step_tac H.
  destruct Ho as [-> | [-> | [-> | [-> | ->]]]]; cbn [op mk]; cbn -[arith]; rewrite Hz; reflexivity.
Qed.

Lemma step_neg x st :
  at_instr M fn ip (mk OP_NEG []) ->
  step M (mkst fn ret locs (MInt x :: st) cs ip g out) = MNext (mkst fn ret locs (MInt (wrap64 (- x)) :: st) cs (ip + 1) g out).
Proof. intros H. step_tac H. reflexivity. Qed.

Lemma step_not x st :
  at_instr M fn ip (mk OP_NOT []) ->
  step M (mkst fn ret locs (x :: st) cs ip g out) = MNext (mkst fn ret locs (MBool (negb (truthy x)) :: st) cs (ip + 1) g out).
Proof. intros H. step_tac H. reflexivity. Qed.

Lemma step_eq x y st :
  at_instr M fn ip (mk OP_EQ []) ->
  step M (mkst fn ret locs (y :: x :: st) cs ip g out) = MNext (mkst fn ret locs (MBool (val_equal x y) :: st) cs (ip + 1) g out).
Proof. intros H. step_tac H. reflexivity. Qed.

Lemma step_ne x y st :
  at_instr M fn ip (mk OP_NE []) ->
  step M (mkst fn ret locs (y :: x :: st) cs ip g out) = MNext (mkst fn ret locs (MBool (negb (val_equal x y)) :: st) cs (ip + 1) g out).
Proof. intros H. step_tac H. reflexivity. Qed.

Lemma step_lt x y st :
  at_instr M fn ip (mk OP_LT []) ->
  step M (mkst fn ret locs (y :: x :: st) cs ip g out) = MNext (mkst fn ret locs (MBool (Z.ltb (val_compare x y) 0) :: st) cs (ip + 1) g out).
Proof. intros H. step_tac H. reflexivity. Qed.
Lemma step_le x y st :
  at_instr M fn ip (mk OP_LE []) ->
  step M (mkst fn ret locs (y :: x :: st) cs ip g out) = MNext (mkst fn ret locs (MBool (Z.leb (val_compare x y) 0) :: st) cs (ip + 1) g out).
Proof. intros H. step_tac H. reflexivity. Qed.
Lemma step_gt x y st :
  at_instr M fn ip (mk OP_GT []) ->
  step M (mkst fn ret locs (y :: x :: st) cs ip g out) = MNext (mkst fn ret locs (MBool (Z.gtb (val_compare x y) 0) :: st) cs (ip + 1) g out).
Proof. intros H. step_tac H. reflexivity. Qed.
Lemma step_ge x y st :
  at_instr M fn ip (mk OP_GE []) ->
  step M (mkst fn ret locs (y :: x :: st) cs ip g out) = MNext (mkst fn ret locs (MBool (Z.geb (val_compare x y) 0) :: st) cs (ip + 1) g out).
Proof. intros H. step_tac H. reflexivity. Qed.

Lemma step_jmp z st :
  at_instr M fn ip (mk OP_JMP [i32 z]) -> (-2147483648 <= z < 2147483648)%Z ->
  step M (mkst fn ret locs st cs ip g out) = MNext (mkst fn ret locs st cs (Z.to_nat (Z.of_nat ip + z)) g out).
Proof. intros H Hz. step_tac H. cbn. unfold jump_target. rewrite (i32_signed z Hz). reflexivity. Qed.

Lemma step_jmp_false z c st :
  at_instr M fn ip (mk OP_JMP_FALSE [i32 z]) -> (-2147483648 <= z < 2147483648)%Z ->
  step M (mkst fn ret locs (c :: st) cs ip g out) =
  MNext (mkst fn ret locs st cs (if truthy c then ip + 5 else Z.to_nat (Z.of_nat ip + z)) g out).
Proof.
  intros H Hz. step_tac H. cbn. unfold jump_target. rewrite (i32_signed z Hz). destruct (truthy c); reflexivity.
Qed.

Lemma step_jmp_true z c st :
  at_instr M fn ip (mk OP_JMP_TRUE [i32 z]) -> (-2147483648 <= z < 2147483648)%Z ->
  step M (mkst fn ret locs (c :: st) cs ip g out) =
  MNext (mkst fn ret locs st cs (if truthy c then Z.to_nat (Z.of_nat ip + z) else ip + 5) g out).
Proof.
  intros H Hz. step_tac H. cbn. unfold jump_target. rewrite (i32_signed z Hz). destruct (truthy c); reflexivity.
Qed.

Lemma step_print (nl : bool) v st :
  at_instr M fn ip (mk (if nl then OP_PRINTLN else OP_PRINT) []) ->
  step M (mkst fn ret locs (v :: st) cs ip g out) =
  MNext (mkst fn ret locs st cs (ip + 1) g (out ++ mval_print 8 v ++ (if nl then [10%N] else []))).
Proof. intros H. step_tac H. destruct nl; reflexivity. Qed.

Lemma step_assert_ok v st :
  at_instr M fn ip (mk OP_ASSERT []) -> truthy v = true ->
  step M (mkst fn ret locs (v :: st) cs ip g out) = MNext (mkst fn ret locs st cs (ip + 1) g out).
Proof. intros H Hv. step_tac H. cbn. rewrite Hv. reflexivity. Qed.

Lemma step_assert_fail v st :
  at_instr M fn ip (mk OP_ASSERT []) -> truthy v = false ->
  step M (mkst fn ret locs (v :: st) cs ip g out) = MErr EAssert out.
Proof. intros H Hv. step_tac H. cbn. rewrite Hv. reflexivity. Qed.

(* CALL: the callee's frame is built from the top `arity` operands *)
Lemma step_call k ce st :
  at_instr M fn ip (mk OP_CALL [N.of_nat k]) -> fentry_at M k = Some ce -> fe_arity ce <= length st ->
  step M (mkst fn ret locs st cs ip g out) =
  if Nat.leb VM_MAX_FRAMES_N (S (length cs)) then MErr ECallDepth out
  else MNext (mkst k (ip + 5) (rev (firstn (fe_arity ce) st) ++ repeat MVoid (fe_locals ce - fe_arity ce)) []
                ({| mf_fn := fn; mf_ret := ret; mf_locals := locs; mf_stack := skipn (fe_arity ce) st |} :: cs)
                (fe_off ce) g out).
Proof.
  intros H Hk Ha. step_tac H. cbn -[Nat.leb Nat.ltb VM_MAX_GLOBALS_N VM_MAX_FRAMES_N set_nth]. rewrite Nat2N.id, Hk.
  destruct (Nat.leb VM_MAX_FRAMES_N (S (length cs))); [reflexivity|].
  destruct (Nat.ltb_spec (length st) (fe_arity ce)); [lia|reflexivity].
Qed.

Definition ret_result (ret : nat) (cs : list mframe) (g : list mval) (out : list N) (v : mval) : mres :=
  match cs with
  | [] => MDone out v g
  | c :: cs' => MNext (mkst (mf_fn c) (mf_ret c) (mf_locals c) (v :: mf_stack c) cs' ret g out)
  end.

Lemma step_ret v st :
  at_instr M fn ip (mk OP_RET []) ->
  step M (mkst fn ret locs (v :: st) cs ip g out) = ret_result ret cs g out v.
Proof. intros H. step_tac H. cbn. destruct cs; reflexivity. Qed.

Lemma step_arr_new t st :
  at_instr M fn ip (mk OP_ARR_NEW [t]) ->
  step M (mkst fn ret locs st cs ip g out) = MNext (mkst fn ret locs (MArr [] :: st) cs (ip + 2) g out).
Proof. intros H. step_tac H. reflexivity. Qed.

Lemma step_arr_push v l st :
  at_instr M fn ip (mk OP_ARR_PUSH []) ->
  step M (mkst fn ret locs (v :: MArr l :: st) cs ip g out) = MNext (mkst fn ret locs (MArr (l ++ [v]) :: st) cs (ip + 1) g out).
Proof. intros H. step_tac H. reflexivity. Qed.

Lemma step_arr_len l st :
  at_instr M fn ip (mk OP_ARR_LEN []) ->
  step M (mkst fn ret locs (MArr l :: st) cs ip g out) = MNext (mkst fn ret locs (MInt (Z.of_nat (length l)) :: st) cs (ip + 1) g out).
Proof. intros H. step_tac H. reflexivity. Qed.

Lemma step_arr_get k l st :
  at_instr M fn ip (mk OP_ARR_GET []) -> (0 <= k < Z.of_nat (length l))%Z ->
  step M (mkst fn ret locs (MInt k :: MArr l :: st) cs ip g out) =
  MNext (mkst fn ret locs (nth (Z.to_nat k) l MVoid :: st) cs (ip + 1) g out).
Proof.
  intros H Hk. step_tac H. cbn -[Z.leb Z.ltb Z.of_nat].
  destruct (Z.leb_spec 0 k); [|lia]. destruct (Z.ltb_spec k (Z.of_nat (length l))); [|lia]. reflexivity.
Qed.

(* out of range: the run stops with the bounds error *)
Lemma step_arr_get_oob k l st :
  at_instr M fn ip (mk OP_ARR_GET []) -> ~ (0 <= k < Z.of_nat (length l))%Z ->
  step M (mkst fn ret locs (MInt k :: MArr l :: st) cs ip g out) = MErr EOob out.
Proof.
  intros H Hk. step_tac H. cbn -[Z.leb Z.ltb Z.of_nat].
  destruct (Z.leb_spec 0 k); [|reflexivity]. destruct (Z.ltb_spec k (Z.of_nat (length l))); [lia|reflexivity].
Qed.

(* ARR_LITERAL tag n: the n topmost operands (vs, newest first) become the array, oldest first *)
Lemma step_arr_literal t n vs st :
  at_instr M fn ip (mk OP_ARR_LITERAL [t; N.of_nat n]) -> length vs = n ->
  step M (mkst fn ret locs (vs ++ st) cs ip g out) = MNext (mkst fn ret locs (MArr (rev vs) :: st) cs (ip + 4) g out).
Proof.
  intros H Hn. step_tac H. cbn -[Nat.leb Nat.ltb firstn skipn rev]. rewrite Nat2N.id.
  destruct (Nat.ltb_spec (length (vs ++ st)) n) as [Hlt|_]; [rewrite app_length in Hlt; lia|].
  subst n. rewrite firstn_app, Nat.sub_diag, firstn_all, skipn_app, Nat.sub_diag, skipn_all. cbn [firstn skipn app].
  rewrite app_nil_r. reflexivity.
Qed.

(* ---- strings ---- *)
Lemma step_add_str x y st :
  at_instr M fn ip (mk OP_ADD []) ->
  step M (mkst fn ret locs (MStr y :: MStr x :: st) cs ip g out) = MNext (mkst fn ret locs (MStr (x ++ y) :: st) cs (ip + 1) g out).
Proof. intros H. step_tac H. reflexivity. Qed.

Lemma step_str_concat x y st :
  at_instr M fn ip (mk OP_STR_CONCAT []) ->
  step M (mkst fn ret locs (MStr y :: MStr x :: st) cs ip g out) = MNext (mkst fn ret locs (MStr (x ++ y) :: st) cs (ip + 1) g out).
Proof. intros H. step_tac H. reflexivity. Qed.

Lemma step_str_len x st :
  at_instr M fn ip (mk OP_STR_LEN []) ->
  step M (mkst fn ret locs (MStr x :: st) cs ip g out) = MNext (mkst fn ret locs (MInt (Z.of_nat (length x)) :: st) cs (ip + 1) g out).
Proof. intros H. step_tac H. reflexivity. Qed.

Lemma step_str_contains x y st :
  at_instr M fn ip (mk OP_STR_CONTAINS []) ->
  step M (mkst fn ret locs (MStr y :: MStr x :: st) cs ip g out) = MNext (mkst fn ret locs (MBool (containsb x y) :: st) cs (ip + 1) g out).
Proof. intros H. step_tac H. reflexivity. Qed.

Lemma step_str_eq x y st :
  at_instr M fn ip (mk OP_STR_EQ []) ->
  step M (mkst fn ret locs (MStr y :: MStr x :: st) cs ip g out) = MNext (mkst fn ret locs (MBool (list_N_eqb x y) :: st) cs (ip + 1) g out).
Proof. intros H. step_tac H. reflexivity. Qed.

Lemma step_str_char_at x i st :
  at_instr M fn ip (mk OP_STR_CHAR_AT []) ->
  step M (mkst fn ret locs (MInt i :: MStr x :: st) cs ip g out) = MNext (mkst fn ret locs (MInt (vm_char_at x i) :: st) cs (ip + 1) g out).
Proof. intros H. step_tac H. reflexivity. Qed.

Lemma step_str_substr x a b st :
  at_instr M fn ip (mk OP_STR_SUBSTR []) ->
  step M (mkst fn ret locs (MInt b :: MInt a :: MStr x :: st) cs ip g out) =
  MNext (mkst fn ret locs (MStr (vm_substr x a b) :: st) cs (ip + 1) g out).
Proof. intros H. step_tac H. reflexivity. Qed.

Lemma step_cast_string_int z t st :
  at_instr M fn ip (mk OP_CAST_STRING []) -> vm_int_to_string z = Some t ->
  step M (mkst fn ret locs (MInt z :: st) cs ip g out) = MNext (mkst fn ret locs (MStr t :: st) cs (ip + 1) g out).
Proof. intros H Ht. step_tac H. cbn -[vm_int_to_string]. rewrite Ht. reflexivity. Qed.

End Steps.
