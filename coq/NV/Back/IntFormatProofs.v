From Coq Require Import ZArith NArith List Lia Bool.
From NV Require Import Lang.Ast gen.IntFmt Back.IntFormat.
Import ListNotations.

(* number of decimal digits: n < 10^k (k >= 1) prints at most k characters *)
Lemma dec_digits_length : forall k fuel n acc, (1 <= k)%nat -> (n < 10 ^ N.of_nat k)%N ->
  (length (dec_digits fuel n acc) <= length acc + k)%nat.
Proof.
  induction k as [|k IH]; intros fuel n acc Hk Hn; [lia|].
  destruct fuel as [|fuel]; cbn [dec_digits]; [lia|].
  destruct (n <? 10)%N eqn:E.
  - cbn [length]. lia.
  - apply N.ltb_ge in E.
    destruct k as [|k'].
    + cbn in Hn. lia.
    + specialize (IH fuel (n / 10)%N ((48 + n mod 10)%N :: acc)).
      cbn [length] in IH.
      assert (Hd : (n / 10 < 10 ^ N.of_nat (S k'))%N).
      { apply N.div_lt_upper_bound; [lia|].
        replace (N.of_nat (S (S k'))) with (N.succ (N.of_nat (S k'))) in Hn by lia.
        rewrite N.pow_succ_r' in Hn. exact Hn. }
      specialize (IH ltac:(lia) Hd). lia.
Qed.

Lemma print_N_length n : (n < 10 ^ 19)%N -> (length (print_N n) <= 19)%nat.
Proof.
  intros H. unfold print_N.
  pose proof (dec_digits_length 19 25 n [] ltac:(lia)) as L. cbn [length] in L. apply L.
  replace (N.of_nat 19) with 19%N by reflexivity. exact H.
Qed.

(* every int64 prints in at most 20 characters (19 digits and a sign) *)
Theorem print_Z_length z : in64 z = true -> (length (print_Z z) <= 20)%nat.
Proof.
  unfold in64. intros H. apply andb_prop in H. destruct H as [Hlo Hhi].
  apply Z.leb_le in Hlo. apply Z.leb_le in Hhi.
  destruct z as [|p|p]; cbn [print_Z].
  - cbn. lia.
  - pose proof (print_N_length (Npos p)) as L.
    assert ((N.pos p < 10 ^ 19)%N) by (change (10 ^ 19)%N with 10000000000000000000%N; lia). lia.
  - cbn [length]. pose proof (print_N_length (Npos p)) as L.
    assert ((N.pos p < 10 ^ 19)%N) by (change (10 ^ 19)%N with 10000000000000000000%N; lia). lia.
Qed.

(* the bound is attained: the buffers cannot be smaller than 21 bytes *)
Example print_Z_length_attained : length (print_Z (-9223372036854775808)) = 20%nat /\ in64 (-9223372036854775808) = true.
Proof. split; vm_compute; reflexivity. Qed.

Lemma firstn_all_le {A} (l : list A) n : (length l <= n)%nat -> firstn n l = l.
Proof. revert n; induction l as [|x l IH]; intros [|n] H; cbn in *; try reflexivity; try lia. f_equal. apply IH. lia. Qed.

Theorem native_int_to_string_exact z : in64 z = true -> native_int_to_string z = print_Z z.
Proof.
  intros H. unfold native_int_to_string, snprintf_text. apply firstn_all_le.
  pose proof (print_Z_length z H). unfold NAT_INT_SNPRINTF. lia.
Qed.

Theorem vm_int_to_string_exact z : in64 z = true -> vm_int_to_string z = Some (print_Z z).
Proof.
  intros H. unfold vm_int_to_string. pose proof (print_Z_length z H) as L.
  destruct (Nat.ltb_spec (length (print_Z z)) VM_INT_BUF) as [_|G]; [reflexivity|]. unfold VM_INT_BUF in G. lia.
Qed.

Theorem int_to_string_backends_agree z : in64 z = true -> vm_int_to_string z = Some (native_int_to_string z).
Proof. intros H. rewrite vm_int_to_string_exact, native_int_to_string_exact by exact H. reflexivity. Qed.

Theorem native_int_buffer_in_bounds : native_int_buffer_ok = true.
Proof. vm_compute. reflexivity. Qed.
