(* Fuel is only a step budget: once run_vm has an answer, every larger budget gives the same answer, so two budgets can
   only disagree by one of them being too small.  With the simulation theorem this turns "there is a budget with which
   the VM finishes like the reference" into "with EVERY budget the VM either runs out of budget, finishes like the
   reference, or hits its documented frame limit" -- in particular none of the internal errors (type mismatch, stack
   underflow, bad local, running off the code) is reachable for an accepted program. *)
From Coq Require Import ZArith NArith List Bool Lia.
From NV Require Import Lang.Ast Lang.Ref Lang.Types Lang.TypeSound Back.VmCompile Back.VmExec
  Back.VmSimDefs Back.VmSimMod Back.VmSimProg Back.VmSimFinal.
Import ListNotations.

Lemma run_vm_mono M n k r : run_vm n M = r -> r <> VOutOfFuel -> run_vm (n + k) M = r.
Proof.
  unfold run_vm. intros H Hr.
  assert (Hmain : forall g o r', match init_state M (m_entry M) g o with
            | None => VBad
            | Some s0 => match run_steps M n s0 with
                | None => VOutOfFuel
                | Some (MDone out (MInt z) _) => VDone out (z mod 256)
                | Some (MDone out _ _) => VDone out 0
                | Some (MErr e out) => VError e out
                | Some (MSignal out) => VSignal out
                | Some (MFellOff out) => VFellOff out
                | Some (MNext _) => VBad end end = r' -> r' <> VOutOfFuel ->
            match init_state M (m_entry M) g o with
            | None => VBad
            | Some s0 => match run_steps M (n + k) s0 with
                | None => VOutOfFuel
                | Some (MDone out (MInt z) _) => VDone out (z mod 256)
                | Some (MDone out _ _) => VDone out 0
                | Some (MErr e out) => VError e out
                | Some (MSignal out) => VSignal out
                | Some (MFellOff out) => VFellOff out
                | Some (MNext _) => VBad end end = r').
  { intros g o r' E Hr'. destruct (init_state M (m_entry M) g o) as [s0|]; [|exact E].
    destruct (run_steps M n s0) as [m|] eqn:Er; [|congruence].
    rewrite (run_steps_mono M n k s0 m Er). exact E. }
  destruct (Nat.eqb (m_nglobals M) 0).
  - apply Hmain; assumption.
  - destruct (init_state M (length (m_fns M) - 1) [] []) as [s0|]; [|exact H].
    destruct (run_steps M n s0) as [m|] eqn:Er; [|congruence].
    rewrite (run_steps_mono M n k s0 m Er).
    destruct m; try exact H. apply Hmain; assumption.
Qed.

Lemma run_vm_unique M n1 n2 : run_vm n1 M <> VOutOfFuel -> run_vm n2 M <> VOutOfFuel -> run_vm n1 M = run_vm n2 M.
Proof.
  intros H1 H2.
  pose proof (run_vm_mono M n1 n2 _ eq_refl H1) as A.
  pose proof (run_vm_mono M n2 n1 _ eq_refl H2) as B.
  rewrite Nat.add_comm in B. congruence.
Qed.

(* what the VM can do, at any budget, on a program for which the reference semantics has an answer *)
Definition vm_faithful (pr : program) (M : vmodule) (fuel : nat) : Prop :=
  match run_ref fuel pr with
  | Done out ex => forall fv, run_vm fv M = VOutOfFuel \/ run_vm fv M = VDone out ex \/ exists o, run_vm fv M = VError ECallDepth o
  | Faulted FAssert out => forall fv, run_vm fv M = VOutOfFuel \/ run_vm fv M = VError EAssert out \/ exists o, run_vm fv M = VError ECallDepth o
  | Faulted FOob out => forall fv, run_vm fv M = VOutOfFuel \/ run_vm fv M = VError EOob out \/ exists o, run_vm fv M = VError ECallDepth o
  | StuckO => False
  | _ => True
  end.

Theorem accepted_vm_faithful pr M fuel :
  wt pr = true -> compile_program pr = Some M -> small_program pr -> fuel_small fuel -> vm_faithful pr M fuel.
Proof.
  intros Hwt Hc Hs Hf. unfold vm_faithful.
  destruct (run_ref fuel pr) as [out ex|f out| |] eqn:Hr; try exact I.
  - intros fv. destruct (vm_correct pr M fuel out ex Hc Hs Hf Hr) as [[n H]|[n [o H]]].
    + destruct (run_vm fv M) eqn:E; try (right; left; rewrite <- H, <- E; apply run_vm_unique; congruence).
      left; reflexivity.
    + destruct (run_vm fv M) eqn:E; try (right; right; exists o; rewrite <- H, <- E; apply run_vm_unique; congruence).
      left; reflexivity.
  - destruct f; try exact I; intros fv.
    + destruct (vm_correct_assert pr M fuel out Hc Hs Hf Hr) as [[n H]|[n [o H]]].
      * destruct (run_vm fv M) eqn:E; try (right; left; rewrite <- H, <- E; apply run_vm_unique; congruence).
        left; reflexivity.
      * destruct (run_vm fv M) eqn:E; try (right; right; exists o; rewrite <- H, <- E; apply run_vm_unique; congruence).
        left; reflexivity.
    + destruct (vm_correct_oob pr M fuel out Hc Hs Hf Hr) as [[n H]|[n [o H]]].
      * destruct (run_vm fv M) eqn:E; try (right; left; rewrite <- H, <- E; apply run_vm_unique; congruence).
        left; reflexivity.
      * destruct (run_vm fv M) eqn:E; try (right; right; exists o; rewrite <- H, <- E; apply run_vm_unique; congruence).
        left; reflexivity.
  - exact (wt_sound pr Hwt fuel Hr).
Qed.

(* the internal-error outcomes of the machine model *)
Definition vm_internal (r : vm_outcome) : Prop :=
  match r with
  | VBad | VFellOff _ | VSignal _ => True
  | VError e _ => e <> ECallDepth /\ e <> EAssert
  | _ => False
  end.

Corollary accepted_vm_no_internal_error pr M fuel :
  wt pr = true -> compile_program pr = Some M -> small_program pr -> fuel_small fuel ->
  (exists out ex, run_ref fuel pr = Done out ex) \/ (exists out, run_ref fuel pr = Faulted FAssert out) ->
  forall fv, ~ vm_internal (run_vm fv M).
Proof.
  intros Hwt Hc Hs Hf Hr fv Hi. pose proof (accepted_vm_faithful pr M fuel Hwt Hc Hs Hf) as F. unfold vm_faithful in F.
  destruct Hr as [[out [ex Hr]]|[out Hr]]; rewrite Hr in F; destruct (F fv) as [E|[E|[o E]]]; rewrite E in Hi; cbn in Hi;
    try contradiction; destruct Hi as [A B]; congruence.
Qed.
