(* VM simulation, stage B: expressions (everything except calls): literals, strings, variables (local and global),
   unary and binary operators, short-circuit and/or, conditional expressions.
   One lemma per construct, each taking the simulation of the immediate sub-expressions as hypotheses. *)
From Coq Require Import ZArith NArith List Bool Lia.
From NV Require Import Base.Bytes Isa.Codec Isa.CodecProofs gen.IsaTable Lang.Ast Lang.Ref Back.VmCompile Back.VmExec Back.OpTable
  Back.VmSimFetch Back.VmSimStep Back.VmSimComp Back.VmSimWf Back.VmSimEnv Back.VmSimDefs Back.IntFormat Back.IntFormatProofs.
Import ListNotations.

(* ---------- operators ---------- *)
Definition is_sc (o : binop) : bool := match o with BAnd | BOr => true | _ => false end.

Lemma in64_spec z : in64 z = true <-> (-9223372036854775808 <= z <= 9223372036854775807)%Z.
Proof. unfold in64. rewrite andb_true_iff, !Z.leb_le. tauto. Qed.

Lemma in64_quot x y : in64 x = true -> in64 y = true -> y <> 0%Z -> ~ (x = (-9223372036854775808)%Z /\ y = (-1)%Z) ->
  in64 (Z.quot x y) = true.
Proof. rewrite !in64_spec. intros Hx Hy Hy0 Hov. Z.to_euclidean_division_equations. nia. Qed.
Lemma in64_rem x y : in64 x = true -> in64 y = true -> y <> 0%Z -> in64 (Z.rem x y) = true.
Proof. rewrite !in64_spec. intros Hx Hy Hy0. Z.to_euclidean_division_equations. nia. Qed.

Lemma binop_val_ok o va vb v : eval_binop o va vb = OV v -> val_ok va -> val_ok vb -> val_ok v.
Proof.
  intros H Ha Hb.
  destruct o; destruct va as [x|x| |x|x], vb as [y|y| |y|y]; cbn [eval_binop value_eqb] in H; try discriminate H;
    try (inversion H; subst; cbn [val_ok]; try exact I; apply wrap64_range).
  - destruct (Z.eqb_spec y 0); [discriminate|]. destruct (Z.eqb x min64 && Z.eqb y (-1)) eqn:E; [discriminate|].
    inversion H; subst. cbn [val_ok] in *. apply in64_quot; try assumption.
    intros [-> ->]. unfold min64 in E. discriminate E.
  - destruct (Z.eqb_spec y 0); [discriminate|]. destruct (Z.eqb x min64 && Z.eqb y (-1)) eqn:E; [discriminate|].
    inversion H; subst. cbn [val_ok] in *. apply in64_rem; assumption.
Qed.

Lemma eval_binop_no_assert o va vb : eval_binop o va vb <> OF FAssert.
Proof.
  destruct o; destruct va as [x|x| |x|x], vb as [y|y| |y|y]; cbn [eval_binop value_eqb]; try discriminate;
    try (destruct (Z.eqb y 0); [discriminate|]; destruct (Z.eqb x min64 && Z.eqb y (-1)); discriminate).
Qed.
Lemma eval_binop_no_oob o va vb : eval_binop o va vb <> OF FOob.
Proof.
  destruct o; destruct va as [x|x| |x|x], vb as [y|y| |y|y]; cbn [eval_binop value_eqb]; try discriminate;
    try (destruct (Z.eqb y 0); [discriminate|]; destruct (Z.eqb x min64 && Z.eqb y (-1)); discriminate).
Qed.
Lemma eval_unop_no_assert o v : eval_unop o v <> OF FAssert.
Proof. destruct o, v; discriminate. Qed.

Lemma str_eq_same x y : list_N_eqb x y = if list_eq_dec N.eq_dec x y then true else false.
Proof.
  destruct (list_eq_dec N.eq_dec x y) as [->|Hn]; [apply list_N_eqb_refl|].
  destruct (list_N_eqb x y) eqn:E; [|reflexivity]. apply list_N_eqb_eq in E. contradiction.
Qed.

Lemma arith_div_eq x y : arith OP_DIV x y =
  if Z.eqb y 0 then Some 0%Z else if Z.eqb x (-9223372036854775808) && Z.eqb y (-1) then Some (-9223372036854775808)%Z else Some (Z.quot x y).
Proof. reflexivity. Qed.
Lemma arith_mod_eq x y : arith OP_MOD x y =
  if Z.eqb y 0 then Some 0%Z else if Z.eqb x (-9223372036854775808) && Z.eqb y (-1) then Some 0%Z else Some (Z.rem x y).
Proof. reflexivity. Qed.

(* the element / argument evaluator of EArr and ECall, named *)
Definition eval_args (fns : list fn) (fuel : nat) (genv en : env) : list expr -> list N -> res (list value) :=
  fix eval_args (l : list expr) (out0 : list N) : res (list value) :=
    match l with
    | [] => Ok [] out0
    | a :: r => bind (eval_expr fns fuel genv en a out0) (fun v out1 =>
                bind (eval_args r out1) (fun vs out2 => Ok (v :: vs) out2))
    end.

Lemma eval_arr_eq fns fuel genv en es out :
  eval_expr fns (S fuel) genv en (EArr es) out =
  bind (eval_args fns fuel genv en es out) (fun vs out1 =>
    match ints_of vs with Some l => Ok (VArr l) out1 | None => Stuck end).
Proof. reflexivity. Qed.

Lemma eval_args_length fns fuel genv en es : forall out vs out',
  eval_args fns fuel genv en es out = Ok vs out' -> length vs = length es.
Proof.
  induction es as [|a r IH]; intros out vs out' H; cbn [eval_args] in H.
  - inversion H. reflexivity.
  - destruct (eval_expr fns fuel genv en a out) as [v o1| | |]; cbn [bind] in H; try discriminate.
    destruct (eval_args fns fuel genv en r o1) as [vs' o2| | |] eqn:E; cbn [bind] in H; try discriminate.
    inversion H; subst. cbn [length]. f_equal. eapply IH; eassumption.
Qed.

Lemma ints_of_spec vs : forall l, ints_of vs = Some l -> vs = map VInt l.
Proof.
  induction vs as [|v vs IH]; intros l H; cbn [ints_of] in H.
  - inversion H. reflexivity.
  - destruct v; try discriminate. destruct (ints_of vs) as [l'|]; [|discriminate]. inversion H; subst.
    cbn [map]. f_equal. apply IH. reflexivity.
Qed.

Lemma nth_map_MInt l : forall n, n < length l -> nth n (map MInt l) MVoid = MInt (nth n l 0%Z).
Proof.
  induction l as [|z l IH]; intros n H; cbn [length] in H; [lia|]. destruct n; [reflexivity|]. cbn [map nth]. apply IH. lia.
Qed.

(* ---------- strings ---------- *)
Lemma until_nul_length s : length (until_nul s) <= length s.
Proof. induction s as [|c r IH]; cbn [until_nul length]; [lia|]. destruct (N.eqb c 0); cbn [length]; lia. Qed.
Lemma unescape_raw_length : forall n s, length s <= n -> length (unescape_raw s) <= length s.
Proof.
  induction n as [|n IH]; intros s H; [destruct s; [cbn; lia|cbn in H; lia]|].
  destruct s as [|c r]; [cbn; lia|].
  assert (Hr : length (unescape_raw r) <= length r) by (apply IH; cbn [length] in H; lia).
  assert (Gen : length (c :: unescape_raw r) <= length (c :: r)) by (cbn [length]; lia).
  destruct (N.eq_dec c 92) as [->|Hc].
  - destruct r as [|d r']; [cbn; lia|].
    assert (Hr' : length (unescape_raw r') <= length r') by (apply IH; cbn [length] in H; lia).
    cbn [unescape_raw].
    destruct (match d with 110 => Some 10 | 116 => Some 9 | 114 => Some 13 | 48 => Some 0 | 92 => Some 92 | 34 => Some 34 | 39 => Some 39 | _ => None end)%N;
      cbn [length]; lia.
  - assert (E : unescape_raw (c :: r) = c :: unescape_raw r).
    { destruct c as [|p]; [reflexivity|]. destruct r; [repeat (destruct p as [p|p|]; try reflexivity)|].
      cbn [unescape_raw].
      repeat (destruct p as [p|p|]; try reflexivity); exfalso; apply Hc; reflexivity. }
    rewrite E. exact Gen.
Qed.
Lemma unescape_length s : length (unescape s) <= length s.
Proof. unfold unescape. pose proof (until_nul_length (unescape_raw s)). pose proof (unescape_raw_length _ s (le_n _)). lia. Qed.

Lemma str_ok_lit s : (N.of_nat (length s) <= 1048576)%N -> val_ok (VStr (unescape s)).
Proof. intros H. cbn [val_ok]. unfold str_max. pose proof (unescape_length s). lia. Qed.

(* inside the common domain the VM's str_substring (operands narrowed to 32 bits, then clamped) is the reference's *)
Lemma vm_substr_spec x a b r : substr_v x a b = Some r -> vm_substr x a b = r.
Proof.
  unfold substr_v, vm_substr, u32, str_limit.
  destruct ((0 <=? a) && (a <? 4294967296) && (0 <=? b) && (b <? 4294967296))%Z eqn:D; [|discriminate].
  apply andb_true_iff in D. destruct D as [D D4]. apply andb_true_iff in D. destruct D as [D D3].
  apply andb_true_iff in D. destruct D as [D1 D2].
  apply Z.leb_le in D1. apply Z.ltb_lt in D2. apply Z.leb_le in D3. apply Z.ltb_lt in D4.
  intros E. injection E as <-. rewrite !Z.mod_small by lia.
  set (n := Z.of_nat (length x)).
  destruct (Z.leb_spec n a) as [Hge|Hlt].
  - rewrite (Z.min_r a n) by lia. unfold n. rewrite Nat2Z.id, skipn_all. destruct (Z.to_nat (Z.min b (Z.of_nat (length x)))); reflexivity.
  - rewrite (Z.min_l a n) by lia.
    assert (Hl : length (skipn (Z.to_nat a) x) = Z.to_nat (n - a)) by (rewrite skipn_length; unfold n; lia).
    destruct (Z.le_gt_cases b (n - a)) as [Hb|Hb].
    + rewrite (Z.min_l b (n - a)), (Z.min_l b n) by lia. reflexivity.
    + rewrite (Z.min_r b (n - a)) by lia. rewrite <- Hl, firstn_all. symmetry. apply firstn_all2. rewrite Hl. lia.
Qed.
Lemma substr_v_length x a b r : substr_v x a b = Some r -> length r <= length x.
Proof.
  unfold substr_v. destruct ((0 <=? a) && (a <? str_limit) && (0 <=? b) && (b <? str_limit))%Z; [|discriminate].
  intros E. injection E as <-. rewrite firstn_length, skipn_length. lia.
Qed.
Lemma vm_char_at_spec x i c : char_at_v x i = Some c -> vm_char_at x i = c.
Proof. unfold char_at_v, vm_char_at. destruct ((0 <=? i) && (i <? Z.of_nat (length x)))%Z; [|discriminate]. congruence. Qed.

Section Expr.
Variable fns : list fn.
Variable G : genv.
Variable M : vmodule.
Hypothesis HG : length (g_globals G) <= VM_MAX_GLOBALS_N.

Lemma step_binop_ok fn ret locs cs ip g out o va vb v st :
  at_instr M fn ip (mk (binop_code o) []) -> is_sc o = false -> eval_binop o va vb = OV v ->
  step M (mkst fn ret locs (mval_of vb :: mval_of va :: st) cs ip g out) =
  MNext (mkst fn ret locs (mval_of v :: st) cs (ip + 1) g out).
Proof.
  intros Hat Hsc He.
  destruct o; try discriminate Hsc; destruct va as [x|x| |x|x], vb as [y|y| |y|y]; cbn [eval_binop value_eqb] in He;
    try discriminate He; cbn [mval_of binop_code] in *.
  - inversion He; subst. eapply step_arith; [eassumption|unfold is_arith_op; auto|reflexivity].
  - inversion He; subst. eapply step_arith; [eassumption|unfold is_arith_op; auto|reflexivity].
  - inversion He; subst. eapply step_arith; [eassumption|unfold is_arith_op; auto|reflexivity].
  - unfold min64 in He. destruct (Z.eqb y 0) eqn:E0; [discriminate|].
    destruct (Z.eqb x (-9223372036854775808) && Z.eqb y (-1)) eqn:E1; [discriminate|]. inversion He; subst.
    eapply step_arith; [eassumption|unfold is_arith_op; auto 6|]. rewrite arith_div_eq, E0, E1. reflexivity.
  - unfold min64 in He. destruct (Z.eqb y 0) eqn:E0; [discriminate|].
    destruct (Z.eqb x (-9223372036854775808) && Z.eqb y (-1)) eqn:E1; [discriminate|]. inversion He; subst.
    eapply step_arith; [eassumption|unfold is_arith_op; auto 6|]. rewrite arith_mod_eq, E0, E1. reflexivity.
  - inversion He; subst. rewrite step_eq by assumption. reflexivity.
  - inversion He; subst. rewrite step_eq by assumption. reflexivity.
  - inversion He; subst. rewrite step_eq by assumption. cbn [val_equal mval_of]. rewrite str_eq_same. reflexivity.
  - inversion He; subst. rewrite step_ne by assumption. reflexivity.
  - inversion He; subst. rewrite step_ne by assumption. reflexivity.
  - inversion He; subst. rewrite step_ne by assumption. cbn [val_equal mval_of]. rewrite str_eq_same. reflexivity.
  - inversion He; subst. rewrite step_lt by assumption.
    destruct (cmp_matches_ref BLt x y I) as (b & Hb & ->). cbn in Hb. inversion Hb as [Hb']. cbn [mval_of]. rewrite Hb'. reflexivity.
  - inversion He; subst. rewrite step_le by assumption.
    destruct (cmp_matches_ref BLe x y I) as (b & Hb & ->). cbn in Hb. inversion Hb as [Hb']. cbn [mval_of]. rewrite Hb'. reflexivity.
  - inversion He; subst. rewrite step_gt by assumption.
    destruct (cmp_matches_ref BGt x y I) as (b & Hb & ->). cbn in Hb. inversion Hb as [Hb']. cbn [mval_of]. rewrite Hb'. reflexivity.
  - inversion He; subst. rewrite step_ge by assumption.
    destruct (cmp_matches_ref BGe x y I) as (b & Hb & ->). cbn in Hb. inversion Hb as [Hb']. cbn [mval_of]. rewrite Hb'. reflexivity.
Qed.

Lemma eval_bin_eq fuel genv en o a b out : is_sc o = false ->
  eval_expr fns (S fuel) genv en (EBin o a b) out =
  bind (eval_expr fns fuel genv en a out) (fun va out1 =>
  bind (eval_expr fns fuel genv en b out1) (fun vb out2 => of_opres (eval_binop o va vb) out2)).
Proof. destruct o; try discriminate; reflexivity. Qed.

Lemma compile_bin_eq ce o a b p : is_sc o = false ->
  compile_expr G ce (EBin o a b) p =
  match compile_expr G ce a p with
  | Some (ca, p1) => match compile_expr G ce b p1 with
                     | Some (cb, p2) => Some (ca ++ cb ++ [mk (binop_code o) []], p2)
                     | None => None end
  | None => None end.
Proof.
  intros H. cbn [compile_expr]. destruct (compile_expr G ce a p) as [[ca p1]|]; [|reflexivity].
  destruct (compile_expr G ce b p1) as [[cb p2]|]; [|reflexivity]. destruct o; try discriminate; reflexivity.
Qed.

Notation expr_sim := (expr_sim fns G M).
Ltac inf := unfold in_fn; split; [|split]; eassumption.
Ltac rt := try apply Reach_trivial.
Ltac end_at X :=
  match goal with |- Reach _ _ (rpost (expr_post _ _ _ _ _ _ _ ?e) _) => replace e with X by lia end.

(* sequencing without a bind on the reference side *)
Lemma rpost_seq {A} (P1 P2 : A -> list N -> mres -> Prop) (r : res A) s :
  Reach M s (rpost P1 r) ->
  (forall a o m, P1 a o m -> match m with MNext s' => Reach M s' (P2 a o) | _ => P2 a o m end) ->
  Reach M s (rpost P2 r).
Proof.
  intros H K. destruct r as [a o|f o| |]; cbn [rpost] in *; try apply Reach_trivial.
  - eapply Reach_bind; [exact H|]. intros m Hm. apply K; auto.
  - destruct f; try apply Reach_trivial; exact H.
Qed.

Lemma sim_ENum fuel z : expr_sim (S fuel) (ENum z).
Proof.
  intros genv en out ce p c p' fn fe cf pos ret locs st cs g (Hfe & Hcode & Hsz) Hcomp Hc Hok Hme Hmg Hpool Hfuel.
  cbn [eval_expr rpost]. cbn [compile_expr] in Hcomp. apply some2_inj in Hcomp. destruct Hcomp as [<- <-]. cbn [expr_ok] in Hok.
  vstep Hfe Hcode Hc step_push_i64. apply Reach_here. split; [|exact Hok].
  cbn [mval_of]. rewrite i64_signed by exact Hok. same_state.
Qed.

Lemma sim_EBool fuel b : expr_sim (S fuel) (EBool b).
Proof.
  intros genv en out ce p c p' fn fe cf pos ret locs st cs g (Hfe & Hcode & Hsz) Hcomp Hc Hok Hme Hmg Hpool Hfuel.
  cbn [eval_expr rpost]. cbn [compile_expr] in Hcomp. apply some2_inj in Hcomp. destruct Hcomp as [<- <-].
  vstep Hfe Hcode Hc step_push_bool. apply Reach_here. split; [|exact I]. same_state.
Qed.

Lemma sim_EStr fuel s : expr_sim (S fuel) (EStr s).
Proof.
  intros genv en out ce p c p' fn fe cf pos ret locs st cs g (Hfe & Hcode & Hsz) Hcomp Hc Hok Hme Hmg Hpool Hfuel.
  cbn [eval_expr rpost]. cbn [compile_expr] in Hcomp. destruct (pool_add (unescape s) p) as [i q] eqn:E.
  apply some2_inj in Hcomp. destruct Hcomp as [<- <-].
  destruct (pool_add_spec _ _ _ _ E) as [_ Hn]. pose proof (pool_le_nth _ _ _ _ Hpool Hn) as Hn'.
  vstep Hfe Hcode Hc step_push_str. rewrite Hn'. apply Reach_here. split; [|apply str_ok_lit; exact Hok]. same_state.
Qed.

Lemma sim_EVar fuel x : expr_sim (S fuel) (EVar x).
Proof.
  intros genv en out ce p c p' fn fe cf pos ret locs st cs g (Hfe & Hcode & Hsz) Hcomp Hc Hok Hme Hmg Hpool Hfuel.
  cbn [eval_expr]. cbn [compile_expr] in Hcomp. cbn [expr_ok] in Hok.
  pose proof (match_env_lookup _ _ _ x Hme Hok) as Hl.
  destruct (lookup x en) as [[m v]|].
  - destruct Hl as (k & Hk & Hn & Hv). rewrite Hk in Hcomp. apply some2_inj in Hcomp. destruct Hcomp as [<- <-].
    cbn [rpost]. vstep Hfe Hcode Hc step_load_local; [exact Hn|]. apply Reach_here. split; [|exact Hv]. same_state.
  - rewrite Hl in Hcomp. destruct (lookup x genv) as [[m v]|] eqn:Eg; [|apply Reach_trivial].
    destruct (Hmg _ _ _ Eg) as (k & Hk & Hn & Hv). rewrite Hk in Hcomp. apply some2_inj in Hcomp. destruct Hcomp as [<- <-].
    cbn [rpost]. apply index_of_lt in Hk.
    vstep Hfe Hcode Hc step_load_global. lia. rewrite (nth_error_nth _ _ _ Hn).
    apply Reach_here. split; [|exact Hv]. same_state.
Qed.

Lemma sim_EUn fuel o a : expr_sim fuel a -> expr_sim (S fuel) (EUn o a).
Proof.
  intros IHa genv en out ce p c p' fn fe cf pos ret locs st cs g (Hfe & Hcode & Hsz) Hcomp Hc Hok Hme Hmg Hpool Hfuel.
  apply fuel_small_S in Hfuel. cbn [eval_expr]. cbn [compile_expr] in Hcomp. cbn [expr_ok] in Hok.
  destruct (compile_expr G ce a p) as [[ca p1]|] eqn:Ea; [|discriminate].
  apply some2_inj in Hcomp. destruct Hcomp as [<- <-].
  pose proof (code_at_app_l _ _ _ _ Hc) as Hca. apply code_at_app_r in Hc. autorewrite with csz.
  eapply rpost_bind.
  { eapply (IHa genv en out ce p ca p1 fn fe cf pos ret locs st cs g); try eassumption. inf. }
  intros v o1 m _ [-> Hv]; cbv iota beta.
  destruct o, v as [z|b| |s|l]; cbn [eval_unop of_opres rpost]; rt.
  - vstep Hfe Hcode Hc step_neg. apply Reach_here. split; [same_state|apply wrap64_range].
  - vstep Hfe Hcode Hc step_not. apply Reach_here. split; [same_state|exact I].
Qed.

Lemma sim_EBin fuel o a b : is_sc o = false -> expr_sim fuel a -> expr_sim fuel b -> expr_sim (S fuel) (EBin o a b).
Proof.
  intros Hsc IHa IHb genv en out ce p c p' fn fe cf pos ret locs st cs g (Hfe & Hcode & Hsz) Hcomp Hc Hok Hme Hmg Hpool Hfuel.
  apply fuel_small_S in Hfuel. rewrite eval_bin_eq by exact Hsc. rewrite compile_bin_eq in Hcomp by exact Hsc.
  destruct Hok as [Hoka Hokb].
  destruct (compile_expr G ce a p) as [[ca p1]|] eqn:Ea; [|discriminate].
  destruct (compile_expr G ce b p1) as [[cb p2]|] eqn:Eb; [|discriminate].
  apply some2_inj in Hcomp. destruct Hcomp as [<- <-].
  pose proof (compile_expr_pool _ _ _ _ _ _ Eb) as P2.
  pose proof (code_at_app_l _ _ _ _ Hc) as Hca. apply code_at_app_r in Hc.
  pose proof (code_at_app_l _ _ _ _ Hc) as Hcb. apply code_at_app_r in Hc. autorewrite with csz.
  eapply rpost_bind.
  { eapply (IHa genv en out ce p ca p1 fn fe cf pos ret locs st cs g); try eassumption; [inf|]. eapply pool_le_trans; eassumption. }
  intros va o1 m _ [-> Hva]; cbv iota beta.
  eapply rpost_bind.
  { eapply (IHb genv en o1 ce p1 cb p2 fn fe cf (pos + csize ca) ret locs (mval_of va :: st) cs g); try eassumption. inf. }
  intros vb o2 m _ [-> Hvb]; cbv iota beta.
  destruct (eval_binop o va vb) as [v|f|] eqn:Eo; cbn [of_opres rpost]; rt.
  - vstep Hfe Hcode Hc step_binop_ok; [exact Hsc|exact Eo|].
    apply Reach_here. split; [same_state|eapply binop_val_ok; eassumption].
  - destruct f; rt; exfalso; [exact (eval_binop_no_assert _ _ _ Eo)|exact (eval_binop_no_oob _ _ _ Eo)].
Qed.

(* short-circuit and / or *)
Lemma sim_EAnd fuel a b : expr_sim fuel a -> expr_sim fuel b -> expr_sim (S fuel) (EBin BAnd a b).
Proof.
  intros IHa IHb genv en out ce p c p' fn fe cf pos ret locs st cs g (Hfe & Hcode & Hsz) Hcomp Hc Hok Hme Hmg Hpool Hfuel.
  apply fuel_small_S in Hfuel. cbn [eval_expr]. cbn [compile_expr] in Hcomp. destruct Hok as [Hoka Hokb].
  destruct (compile_expr G ce a p) as [[ca p1]|] eqn:Ea; [|discriminate].
  destruct (compile_expr G ce b p1) as [[cb p2]|] eqn:Eb; [|discriminate].
  apply some2_inj in Hcomp. destruct Hcomp as [<- <-].
  pose proof (compile_expr_pool _ _ _ _ _ _ Eb) as P2.
  pose proof (code_at_bound _ _ _ Hc) as Hbd. autorewrite with csz in Hbd.
  pose proof (code_at_app_l _ _ _ _ Hc) as Hca. apply code_at_app_r in Hc. cbn [app] in Hc. autorewrite with csz.
  eapply rpost_bind.
  { eapply (IHa genv en out ce p ca p1 fn fe cf pos ret locs st cs g); try eassumption; [inf|]. eapply pool_le_trans; eassumption. }
  intros va o1 m _ [-> Hva]; cbv iota beta.
  destruct va as [z|[|]| |s|l]; rt.
  - (* true: fall through to the right operand *)
    vstep Hfe Hcode Hc step_dup. vnext Hc. vstep Hfe Hcode Hc step_jmp_false; [lia|]. cbn [truthy mval_of]. vnext Hc.
    vstep Hfe Hcode Hc step_pop. vnext Hc.
    eapply rpost_bind.
    { at_code Hc. eapply (IHb genv en o1 ce p1 cb p2 fn fe cf _ ret locs st cs g); try eassumption. inf. }
    intros vb o2 m _ [-> Hvb]; cbv iota beta. destruct vb as [z|bb| |s|l]; rt.
    cbn [rpost]. apply Reach_here. split; [same_state|exact I].
  - (* false: jump over the right operand, the duplicate is the result *)
    vstep Hfe Hcode Hc step_dup. vnext Hc. vstep Hfe Hcode Hc step_jmp_false; [lia|]. cbn [truthy mval_of rpost].
    apply Reach_here. split; [same_state|exact I].
Qed.

Lemma sim_EOr fuel a b : expr_sim fuel a -> expr_sim fuel b -> expr_sim (S fuel) (EBin BOr a b).
Proof.
  intros IHa IHb genv en out ce p c p' fn fe cf pos ret locs st cs g (Hfe & Hcode & Hsz) Hcomp Hc Hok Hme Hmg Hpool Hfuel.
  apply fuel_small_S in Hfuel. cbn [eval_expr]. cbn [compile_expr] in Hcomp. destruct Hok as [Hoka Hokb].
  destruct (compile_expr G ce a p) as [[ca p1]|] eqn:Ea; [|discriminate].
  destruct (compile_expr G ce b p1) as [[cb p2]|] eqn:Eb; [|discriminate].
  apply some2_inj in Hcomp. destruct Hcomp as [<- <-].
  pose proof (compile_expr_pool _ _ _ _ _ _ Eb) as P2.
  pose proof (code_at_bound _ _ _ Hc) as Hbd. autorewrite with csz in Hbd.
  pose proof (code_at_app_l _ _ _ _ Hc) as Hca. apply code_at_app_r in Hc. cbn [app] in Hc. autorewrite with csz.
  eapply rpost_bind.
  { eapply (IHa genv en out ce p ca p1 fn fe cf pos ret locs st cs g); try eassumption; [inf|]. eapply pool_le_trans; eassumption. }
  intros va o1 m _ [-> Hva]; cbv iota beta.
  destruct va as [z|[|]| |s|l]; rt.
  - vstep Hfe Hcode Hc step_dup. vnext Hc. vstep Hfe Hcode Hc step_jmp_true; [lia|]. cbn [truthy mval_of rpost].
    apply Reach_here. split; [same_state|exact I].
  - vstep Hfe Hcode Hc step_dup. vnext Hc. vstep Hfe Hcode Hc step_jmp_true; [lia|]. cbn [truthy mval_of]. vnext Hc.
    vstep Hfe Hcode Hc step_pop. vnext Hc.
    eapply rpost_bind.
    { at_code Hc. eapply (IHb genv en o1 ce p1 cb p2 fn fe cf _ ret locs st cs g); try eassumption. inf. }
    intros vb o2 m _ [-> Hvb]; cbv iota beta. destruct vb as [z|bb| |s|l]; rt.
    cbn [rpost]. apply Reach_here. split; [same_state|exact I].
Qed.

Lemma sim_ECond fuel c0 a b : expr_sim fuel c0 -> expr_sim fuel a -> expr_sim fuel b -> expr_sim (S fuel) (ECond c0 a b).
Proof.
  intros IHc IHa IHb genv en out ce p c p' fn fe cf pos ret locs st cs g (Hfe & Hcode & Hsz) Hcomp Hc Hok Hme Hmg Hpool Hfuel.
  apply fuel_small_S in Hfuel. cbn [eval_expr]. cbn [compile_expr] in Hcomp. destruct Hok as (Hokc & Hoka & Hokb).
  destruct (compile_expr G ce c0 p) as [[cc p1]|] eqn:Ec; [|discriminate].
  destruct (compile_expr G ce a p1) as [[ca p2]|] eqn:Ea; [|discriminate].
  destruct (compile_expr G ce b p2) as [[cb p3]|] eqn:Eb; [|discriminate].
  apply some2_inj in Hcomp. destruct Hcomp as [<- <-].
  pose proof (compile_expr_pool _ _ _ _ _ _ Ea) as P2. pose proof (compile_expr_pool _ _ _ _ _ _ Eb) as P3.
  pose proof (code_at_bound _ _ _ Hc) as Hbd. autorewrite with csz in Hbd.
  pose proof (code_at_app_l _ _ _ _ Hc) as Hcc. apply code_at_app_r in Hc. cbn [app] in Hc.
  pose proof Hc as Hjf. vnext Hc.
  pose proof (code_at_app_l _ _ _ _ Hc) as Hca. apply code_at_app_r in Hc. cbn [app] in Hc.
  pose proof Hc as Hje. vnext Hc. autorewrite with csz.
  eapply rpost_bind.
  { eapply (IHc genv en out ce p cc p1 fn fe cf pos ret locs st cs g); try eassumption; [inf|].
    eapply pool_le_trans; [eassumption|]. eapply pool_le_trans; eassumption. }
  intros vc o1 m _ [-> Hvc]; cbv iota beta.
  destruct vc as [z|[|]| |s|l]; rt.
  - vstep Hfe Hcode Hjf step_jmp_false; [lia|]. cbn [truthy mval_of].
    eapply rpost_seq.
    { at_code Hca. eapply (IHa genv en o1 ce p1 ca p2 fn fe cf _ ret locs st cs g); try eassumption; [inf|].
      eapply pool_le_trans; eassumption. }
    intros va o2 m [-> Hva]; cbv iota beta.
    vstep Hfe Hcode Hje step_jmp; [lia|]. apply Reach_here. split; [same_state|exact Hva].
  - vstep Hfe Hcode Hjf step_jmp_false; [lia|]. cbn [truthy mval_of].
    at_code Hc. end_at (pos + csize cc + 5 + csize ca + 5 + csize cb).
    eapply (IHb genv en o1 ce p2 cb p3 fn fe cf _ ret locs st cs g); try eassumption. inf.
Qed.

(* ---------- operand lists: the arguments of a call, the elements of an array literal ---------- *)
Lemma sim_args fuel args : Forall (expr_sim fuel) args ->
  forall genv en out ce p c p' fn fe cf pos ret locs st cs g,
  in_fn M fn fe cf -> compile_args G ce args p = Some (c, p') -> code_at cf pos c -> exprs_ok args ->
  match_env ce en locs -> match_genv G genv g -> pool_le p' (m_strings M) -> fuel_small fuel ->
  Reach M (mkst fn ret locs st cs (fe_off fe + pos) g out)
    (rpost (fun vs out' m => m = MNext (mkst fn ret locs (rev (map mval_of vs) ++ st) cs (fe_off fe + (pos + csize c)) g out') /\
                             Forall val_ok vs)
           (eval_args fns fuel genv en args out)).
Proof.
  induction 1 as [|a r Ha Hr IH]; intros genv en out ce p c p' fn fe cf pos ret locs st cs g Hin Hcomp Hc Hok Hme Hmg Hpool Hfuel;
    cbn [compile_args] in Hcomp; cbn [eval_args].
  - apply some2_inj in Hcomp. destruct Hcomp as [<- <-]. cbn [rpost]. apply Reach_here. split; [same_state|constructor].
  - destruct (compile_expr G ce a p) as [[ca p1]|] eqn:E1; [|discriminate].
    destruct (compile_args G ce r p1) as [[cr p2]|] eqn:E2; [|discriminate].
    apply some2_inj in Hcomp. destruct Hcomp as [<- <-]. destruct Hok as [Hoka Hokr].
    pose proof (compile_args_pool _ _ _ _ _ _ E2) as P2.
    pose proof (code_at_app_l _ _ _ _ Hc) as Hca. apply code_at_app_r in Hc. autorewrite with csz.
    eapply rpost_bind.
    { eapply (Ha genv en out ce p ca p1 fn fe cf pos ret locs st cs g); try eassumption. eapply pool_le_trans; eassumption. }
    intros v o1 m _ [-> Hv]; cbv iota beta.
    eapply rpost_bind.
    { eapply (IH genv en o1 ce p1 cr p2 fn fe cf (pos + csize ca) ret locs (mval_of v :: st) cs g); eassumption. }
    intros vs o2 m _ [-> Hvs]; cbv iota beta. cbn [rpost].
    apply Reach_here. split; [|constructor; assumption].
    cbn [map rev]. rewrite <- app_assoc. cbn [app]. same_state.
Qed.

(* ---------- arrays ---------- *)
Lemma sim_EArr fuel es : Forall (expr_sim fuel) es -> expr_sim (S fuel) (EArr es).
Proof.
  intros IHes genv en out ce p c p' fn fe cf pos ret locs st cs g (Hfe & Hcode & Hsz) Hcomp Hc Hok Hme Hmg Hpool Hfuel.
  apply fuel_small_S in Hfuel. rewrite eval_arr_eq. rewrite compile_arr_eq in Hcomp.
  destruct (compile_args G ce es p) as [[cel p1]|] eqn:Ea; [|discriminate].
  apply some2_inj in Hcomp. destruct Hcomp as [<- <-]. destruct Hok as [Hn Hokes].
  pose proof (code_at_app_l _ _ _ _ Hc) as Hca. apply code_at_app_r in Hc. autorewrite with csz.
  eapply rpost_bind.
  { eapply (sim_args fuel es IHes genv en out ce p cel p1 fn fe cf pos ret locs st cs g); try eassumption. inf. }
  intros vs o1 m Hev [-> Hvs]; cbv iota beta.
  destruct (ints_of vs) as [l|] eqn:Ei; rt. cbn [rpost].
  pose proof (eval_args_length _ _ _ _ _ _ _ _ Hev) as Hlen.
  pose proof (ints_of_spec _ _ Ei) as Hvl. subst vs. rewrite map_length in Hlen.
  vstep Hfe Hcode Hc step_arr_literal; [rewrite rev_length, !map_length; exact Hlen|].
  apply Reach_here. split.
  - rewrite rev_involutive, map_map. cbn [mval_of]. same_state.
  - cbn [val_ok]. split.
    + rewrite Forall_map in Hvs. exact Hvs.
    + apply in64_spec. rewrite Hlen. lia.
Qed.

Lemma sim_EAt fuel a i : expr_sim fuel a -> expr_sim fuel i -> expr_sim (S fuel) (EAt a i).
Proof.
  intros IHa IHi genv en out ce p c p' fn fe cf pos ret locs st cs g (Hfe & Hcode & Hsz) Hcomp Hc Hok Hme Hmg Hpool Hfuel.
  apply fuel_small_S in Hfuel. cbn [eval_expr]. cbn [compile_expr] in Hcomp. destruct Hok as [Hoka Hoki].
  destruct (compile_expr G ce a p) as [[ca p1]|] eqn:Ea; [|discriminate].
  destruct (compile_expr G ce i p1) as [[ci p2]|] eqn:Ei; [|discriminate].
  apply some2_inj in Hcomp. destruct Hcomp as [<- <-].
  pose proof (compile_expr_pool _ _ _ _ _ _ Ei) as P2.
  pose proof (code_at_app_l _ _ _ _ Hc) as Hca. apply code_at_app_r in Hc.
  pose proof (code_at_app_l _ _ _ _ Hc) as Hci. apply code_at_app_r in Hc. autorewrite with csz.
  eapply rpost_bind.
  { eapply (IHa genv en out ce p ca p1 fn fe cf pos ret locs st cs g); try eassumption; [inf|]. eapply pool_le_trans; eassumption. }
  intros va o1 m _ [-> Hva]; cbv iota beta.
  eapply rpost_bind.
  { eapply (IHi genv en o1 ce p1 ci p2 fn fe cf (pos + csize ca) ret locs (mval_of va :: st) cs g); try eassumption. inf. }
  intros vi o2 m _ [-> Hvi]; cbv iota beta.
  destruct va as [z|b| |s|l]; rt. destruct vi as [k|b| |s|l']; rt.
  unfold arr_get. cbn [mval_of].
  destruct (Z.leb_spec 0 k) as [H0|H0]; cbn [andb].
  - destruct (Z.ltb_spec k (Z.of_nat (length l))) as [H1|H1]; cbn [rpost].
    + (* in range: the element *)
      vstep Hfe Hcode Hc step_arr_get; [rewrite map_length; lia|].
      rewrite nth_map_MInt by lia. apply Reach_here. split; [same_state|].
      cbn [val_ok] in Hva |- *. destruct Hva as [Hall _]. rewrite Forall_forall in Hall. apply Hall. apply nth_In. lia.
    + (* at or beyond the end: the VM traps *)
      at_code Hc. eapply Reach_final; [eapply step_arr_get_oob; [eapply fetch_at; eassumption|rewrite map_length; lia]|exact I|reflexivity].
  - (* negative index: the VM traps *)
    cbn [rpost]. at_code Hc.
    eapply Reach_final; [eapply step_arr_get_oob; [eapply fetch_at; eassumption|rewrite map_length; lia]|exact I|reflexivity].
Qed.

Lemma sim_ELen fuel a : expr_sim fuel a -> expr_sim (S fuel) (ELen a).
Proof.
  intros IHa genv en out ce p c p' fn fe cf pos ret locs st cs g (Hfe & Hcode & Hsz) Hcomp Hc Hok Hme Hmg Hpool Hfuel.
  apply fuel_small_S in Hfuel. cbn [eval_expr]. cbn [compile_expr] in Hcomp. cbn [expr_ok] in Hok.
  destruct (compile_expr G ce a p) as [[ca p1]|] eqn:Ea; [|discriminate].
  apply some2_inj in Hcomp. destruct Hcomp as [<- <-].
  pose proof (code_at_app_l _ _ _ _ Hc) as Hca. apply code_at_app_r in Hc. autorewrite with csz.
  eapply rpost_bind.
  { eapply (IHa genv en out ce p ca p1 fn fe cf pos ret locs st cs g); try eassumption. inf. }
  intros va o1 m _ [-> Hva]; cbv iota beta.
  destruct va as [z|b| |s|l]; rt. cbn [rpost mval_of].
  vstep Hfe Hcode Hc step_arr_len. rewrite map_length.
  apply Reach_here. split; [same_state|]. cbn [val_ok] in Hva |- *. apply Hva.
Qed.

(* ---------- string builtins ---------- *)
Lemma eval_str1_fault o v f : eval_str1 o v <> OF f.
Proof. destruct o, v; discriminate. Qed.
Lemma eval_str2_fault o a b f : eval_str2 o a b = OF f -> f = FStrDomain.
Proof.
  destruct o, a, b; cbn [eval_str2]; try discriminate;
    try (destruct (concat_v s s0); [discriminate|intros E; inversion E; reflexivity]).
  destruct (char_at_v s z); [discriminate|intros E; inversion E; reflexivity].
Qed.
Lemma eval_substr_fault a b c f : eval_substr a b c = OF f -> f = FStrDomain.
Proof.
  destruct a, b, c; cbn [eval_substr]; try discriminate.
  destruct (substr_v s z z0); [discriminate|intros E; inversion E; reflexivity].
Qed.

Lemma concat_v_ok x y r : concat_v x y = Some r -> r = x ++ y /\ val_ok (VStr r).
Proof.
  unfold concat_v. destruct (Z.leb_spec (Z.of_nat (length x + length y)) str_max); [|discriminate].
  intros E. injection E as <-. split; [reflexivity|]. cbn [val_ok]. rewrite app_length. exact H.
Qed.

Lemma str2_val_ok o va vb v : eval_str2 o va vb = OV v -> val_ok va -> val_ok vb -> val_ok v.
Proof.
  intros H Ha Hb. destruct o, va, vb; cbn [eval_str2] in H; try discriminate H;
    try (destruct (concat_v s s0) eqn:E; [|discriminate]; inversion H; subst; apply (concat_v_ok _ _ _ E));
    try (inversion H; subst; exact I).
  destruct (char_at_v s z) eqn:E; [|discriminate]. inversion H; subst. cbn [val_ok].
  unfold char_at_v in E. destruct ((0 <=? z) && (z <? Z.of_nat (length s)))%Z; [|discriminate]. injection E as <-.
  apply in64_spec. pose proof (N.mod_lt (nth (Z.to_nat z) s 0%N) 256 ltac:(discriminate)) as Hm.
  set (k := (nth (Z.to_nat z) s 0 mod 256)%N) in *. clearbody k. lia.
Qed.

Lemma step_str2_ok fn ret locs cs ip g out o va vb v st :
  at_instr M fn ip (mk (sop2_code o) []) -> eval_str2 o va vb = OV v ->
  step M (mkst fn ret locs (mval_of vb :: mval_of va :: st) cs ip g out) =
  MNext (mkst fn ret locs (mval_of v :: st) cs (ip + 1) g out).
Proof.
  intros Hat He.
  destruct o, va, vb; cbn [eval_str2] in He; try discriminate He; cbn [mval_of sop2_code] in *.
  - destruct (concat_v s s0) eqn:E; [|discriminate]. inversion He; subst. destruct (concat_v_ok _ _ _ E) as [-> _].
    apply step_add_str; assumption.
  - destruct (concat_v s s0) eqn:E; [|discriminate]. inversion He; subst. destruct (concat_v_ok _ _ _ E) as [-> _].
    apply step_str_concat; assumption.
  - inversion He; subst. rewrite step_str_eq by assumption. cbn [mval_of]. rewrite str_eq_same. reflexivity.
  - inversion He; subst. apply step_str_contains; assumption.
  - destruct (char_at_v s z) eqn:E; [|discriminate]. inversion He; subst. rewrite step_str_char_at by assumption.
    rewrite (vm_char_at_spec _ _ _ E). reflexivity.
Qed.

Lemma sim_EStr1 fuel o a : expr_sim fuel a -> expr_sim (S fuel) (EStr1 o a).
Proof.
  intros IHa genv en out ce p c p' fn fe cf pos ret locs st cs g (Hfe & Hcode & Hsz) Hcomp Hc Hok Hme Hmg Hpool Hfuel.
  apply fuel_small_S in Hfuel. cbn [eval_expr]. cbn [compile_expr] in Hcomp. cbn [expr_ok] in Hok.
  destruct (compile_expr G ce a p) as [[ca p1]|] eqn:Ea; [|discriminate].
  apply some2_inj in Hcomp. destruct Hcomp as [<- <-].
  pose proof (code_at_app_l _ _ _ _ Hc) as Hca. apply code_at_app_r in Hc. autorewrite with csz.
  eapply rpost_bind.
  { eapply (IHa genv en out ce p ca p1 fn fe cf pos ret locs st cs g); try eassumption. inf. }
  intros v o1 m _ [-> Hv]; cbv iota beta.
  destruct o, v as [z|b| |s|l]; cbn [eval_str1 of_opres rpost sop1_code] in *; rt.
  - (* str_length *)
    vstep Hfe Hcode Hc step_str_len. apply Reach_here. split; [same_state|].
    cbn [val_ok] in Hv |- *. unfold str_max in Hv. apply in64_spec. lia.
  - (* int_to_string: CAST_STRING of an int64 *)
    vstep Hfe Hcode Hc step_cast_string_int; [apply vm_int_to_string_exact; exact Hv|].
    apply Reach_here. split; [same_state|]. cbn [val_ok] in Hv |- *. pose proof (print_Z_length z Hv). unfold str_max. lia.
Qed.

Lemma sim_EStr2 fuel o a b : expr_sim fuel a -> expr_sim fuel b -> expr_sim (S fuel) (EStr2 o a b).
Proof.
  intros IHa IHb genv en out ce p c p' fn fe cf pos ret locs st cs g (Hfe & Hcode & Hsz) Hcomp Hc Hok Hme Hmg Hpool Hfuel.
  apply fuel_small_S in Hfuel. cbn [eval_expr]. cbn [compile_expr] in Hcomp. destruct Hok as [Hoka Hokb].
  destruct (compile_expr G ce a p) as [[ca p1]|] eqn:Ea; [|discriminate].
  destruct (compile_expr G ce b p1) as [[cb p2]|] eqn:Eb; [|discriminate].
  apply some2_inj in Hcomp. destruct Hcomp as [<- <-].
  pose proof (compile_expr_pool _ _ _ _ _ _ Eb) as P2.
  pose proof (code_at_app_l _ _ _ _ Hc) as Hca. apply code_at_app_r in Hc.
  pose proof (code_at_app_l _ _ _ _ Hc) as Hcb. apply code_at_app_r in Hc. autorewrite with csz.
  eapply rpost_bind.
  { eapply (IHa genv en out ce p ca p1 fn fe cf pos ret locs st cs g); try eassumption; [inf|]. eapply pool_le_trans; eassumption. }
  intros va o1 m _ [-> Hva]; cbv iota beta.
  eapply rpost_bind.
  { eapply (IHb genv en o1 ce p1 cb p2 fn fe cf (pos + csize ca) ret locs (mval_of va :: st) cs g); try eassumption. inf. }
  intros vb o2 m _ [-> Hvb]; cbv iota beta.
  destruct (eval_str2 o va vb) as [v|f|] eqn:Eo; cbn [of_opres rpost]; rt.
  - vstep Hfe Hcode Hc step_str2_ok; [exact Eo|].
    apply Reach_here. split; [same_state|eapply str2_val_ok; eassumption].
  - rewrite (eval_str2_fault _ _ _ _ Eo). rt.
Qed.

Lemma sim_ESubstr fuel a b c0 : expr_sim fuel a -> expr_sim fuel b -> expr_sim fuel c0 -> expr_sim (S fuel) (ESubstr a b c0).
Proof.
  intros IHa IHb IHc genv en out ce p c p' fn fe cf pos ret locs st cs g (Hfe & Hcode & Hsz) Hcomp Hc Hok Hme Hmg Hpool Hfuel.
  apply fuel_small_S in Hfuel. cbn [eval_expr]. cbn [compile_expr] in Hcomp. destruct Hok as (Hoka & Hokb & Hokc).
  destruct (compile_expr G ce a p) as [[ca p1]|] eqn:Ea; [|discriminate].
  destruct (compile_expr G ce b p1) as [[cb p2]|] eqn:Eb; [|discriminate].
  destruct (compile_expr G ce c0 p2) as [[cc p3]|] eqn:Ec; [|discriminate].
  apply some2_inj in Hcomp. destruct Hcomp as [<- <-].
  pose proof (compile_expr_pool _ _ _ _ _ _ Eb) as P2. pose proof (compile_expr_pool _ _ _ _ _ _ Ec) as P3.
  pose proof (code_at_app_l _ _ _ _ Hc) as Hca. apply code_at_app_r in Hc.
  pose proof (code_at_app_l _ _ _ _ Hc) as Hcb. apply code_at_app_r in Hc.
  pose proof (code_at_app_l _ _ _ _ Hc) as Hcc. apply code_at_app_r in Hc. autorewrite with csz.
  eapply rpost_bind.
  { eapply (IHa genv en out ce p ca p1 fn fe cf pos ret locs st cs g); try eassumption; [inf|].
    eapply pool_le_trans; [eassumption|]. eapply pool_le_trans; eassumption. }
  intros va o1 m _ [-> Hva]; cbv iota beta.
  eapply rpost_bind.
  { eapply (IHb genv en o1 ce p1 cb p2 fn fe cf (pos + csize ca) ret locs (mval_of va :: st) cs g); try eassumption; [inf|].
    eapply pool_le_trans; eassumption. }
  intros vb o2 m _ [-> Hvb]; cbv iota beta.
  eapply rpost_bind.
  { eapply (IHc genv en o2 ce p2 cc p3 fn fe cf (pos + csize ca + csize cb) ret locs (mval_of vb :: mval_of va :: st) cs g); try eassumption. inf. }
  intros vc o3 m _ [-> Hvc]; cbv iota beta.
  destruct va as [z|bb| |s|l]; rt. destruct vb as [sa|bb| |s'|l]; rt. destruct vc as [sb|bb| |s'|l]; rt.
  cbn [eval_substr]. destruct (substr_v s sa sb) as [r|] eqn:Es; cbn [of_opres rpost]; rt.
  cbn [mval_of]. vstep Hfe Hcode Hc step_str_substr. rewrite (vm_substr_spec _ _ _ _ Es).
  apply Reach_here. split; [same_state|].
  cbn [val_ok] in Hva |- *. pose proof (substr_v_length _ _ _ _ Es). lia.
Qed.

(* ---------- stage B: all expressions without calls ---------- *)
Fixpoint no_call (e : expr) : Prop :=
  match e with
  | ENum _ | EBool _ | EStr _ | EVar _ => True
  | EUn _ a => no_call a
  | EBin _ a b => no_call a /\ no_call b
  | ECall _ _ => False
  | ECond c a b => no_call c /\ no_call a /\ no_call b
  | EArr es => (fix go (l : list expr) : Prop := match l with [] => True | a :: r => no_call a /\ go r end) es
  | EAt a i => no_call a /\ no_call i
  | ELen a => no_call a
  | EStr1 _ a => no_call a
  | EStr2 _ a b => no_call a /\ no_call b
  | ESubstr a b c => no_call a /\ no_call b /\ no_call c
  end.

Theorem sim_expr_no_call : forall fuel e, no_call e -> expr_sim fuel e.
Proof.
  induction fuel as [|fuel IH]; intros e Hn; [apply expr_sim_0|].
  destruct e as [z|b|s|x|o a|o a b|f args|c a b|es|a i|a|so a|so a b|a b c]; cbn [no_call] in Hn.
  - apply sim_ENum.
  - apply sim_EBool.
  - apply sim_EStr.
  - apply sim_EVar.
  - apply sim_EUn. apply IH; assumption.
  - destruct Hn as [Ha Hb]. destruct (is_sc o) eqn:Eo.
    + destruct o; try discriminate Eo; [apply sim_EAnd|apply sim_EOr]; apply IH; assumption.
    + apply sim_EBin; [exact Eo| |]; apply IH; assumption.
  - contradiction.
  - destruct Hn as (Hc & Ha & Hb). apply sim_ECond; apply IH; assumption.
  - apply sim_EArr. induction es as [|a r IHr]; [constructor|]. destruct Hn as [Ha Hr]. constructor; [apply IH; exact Ha|apply IHr; exact Hr].
  - destruct Hn as [Ha Hi]. apply sim_EAt; apply IH; assumption.
  - apply sim_ELen. apply IH; assumption.
  - apply sim_EStr1. apply IH; assumption.
  - destruct Hn as [Ha Hb]. apply sim_EStr2; apply IH; assumption.
  - destruct Hn as (Ha & Hb & Hc). apply sim_ESubstr; apply IH; assumption.
Qed.

End Expr.
