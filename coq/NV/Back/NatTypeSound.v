(* Soundness of the reference type checker (Lang/Types.v) for the NATIVE model (Back/NatSem.v), for EITHER order in
   which C evaluates the arguments of a call:
     wt p = true -> forall ord fuel, run_nat ord fuel p <> NStuckO.
   The argument is that of Lang/TypeSound.v: everything about values, environments and the static rules is imported
   from there (NatSem's nenv/nlookup/nassign/nrestore/nat_bind_params are convertible with Ref's); only the fuel
   induction over the three mutually recursive evaluators is redone, with [ord] a section variable.  The one place
   where the order matters is the argument list of a call: eval_args_rl evaluates the LAST argument first but conses
   each value at its own position, so both orders yield values of the parameter types position by position. *)
From Coq Require Import ZArith NArith List Bool Lia.
From NV Require Import Lang.Ast Lang.Ref Lang.Types Lang.TypeSound Back.NatSem.
Import ListNotations.

(* ------------------------------------------------------------------ results *)
Definition ngood {A} (Q : A -> Prop) (r : nres A) : Prop :=
  match r with NStuck => False | NOk a _ => Q a | _ => True end.

Lemma ngood_bind {A B} (Q : A -> Prop) (Q' : B -> Prop) (r : nres A) (k : A -> list N -> nres B) :
  ngood Q r -> (forall a out, r = NOk a out -> Q a -> ngood Q' (k a out)) -> ngood Q' (nbind r k).
Proof. destruct r; simpl; intros H K; auto. Qed.

Lemma ngood_weaken {A} (Q Q' : A -> Prop) r : ngood Q r -> (forall a, Q a -> Q' a) -> ngood Q' r.
Proof. destruct r; simpl; auto. Qed.

(* either branch of the choice NatSem makes on the argument order *)
Lemma ngood_order {A} (Q : A -> Prop) (o : arg_order) (rl rr : nres A) :
  ngood Q rl -> ngood Q rr -> ngood Q (match o with LtoR => rl | RtoL => rr end).
Proof. destruct o; auto. Qed.

(* ------------------------------------------------------------------ operators of the native model *)
Lemma nat_unop_ok o t t' v : ty_unop o t = Some t' -> has_ty v t ->
  exists v', nat_unop o v = NOV v' /\ has_ty v' t'.
Proof.
  destruct o, t; simpl; try discriminate; intros E; injection E as <-; destruct v; simpl; try contradiction;
    intros _; eexists; split; try reflexivity; exact I.
Qed.

Lemma nat_binop_ok o ta tb t va vb : ty_binop o ta tb = Some t -> has_ty va ta -> has_ty vb tb ->
  match nat_binop o va vb with NOV v => has_ty v t | NOF _ => True | NOStuck => False end.
Proof.
  destruct o; simpl;
    try (destruct ta, tb; try discriminate; intros E; injection E as <-;
         destruct va, vb; simpl; try contradiction; intros _ _;
         repeat match goal with |- context [if ?c then _ else _] => destruct c end; simpl; exact I).
Qed.

Lemma nat_str1_ok o t t' v : ty_str1 o t = Some t' -> has_ty v t ->
  match nat_str1 o v with NOV v' => has_ty v' t' | NOF _ => True | NOStuck => False end.
Proof.
  destruct o, t; simpl; try discriminate; intros E; injection E as <-; destruct v; simpl; try contradiction; intros _; exact I.
Qed.
Lemma nat_str2_ok o ta tb t va vb : ty_str2 o ta tb = Some t -> has_ty va ta -> has_ty vb tb ->
  match nat_str2 o va vb with NOV v => has_ty v t | NOF _ => True | NOStuck => False end.
Proof.
  destruct o, ta, tb; simpl; try discriminate; intros E; injection E as <-;
    destruct va, vb; simpl; try contradiction; intros _ _; try exact I;
    try (destruct (concat_v s s0); exact I).
  destruct (char_at_v s z); exact I.
Qed.
Lemma nat_substr_ok va vb vc : has_ty va TStr -> has_ty vb TInt -> has_ty vc TInt ->
  match nat_substr va vb vc with NOV v => has_ty v TStr | NOF _ => True | NOStuck => False end.
Proof.
  destruct va, vb, vc; simpl; try contradiction. intros _ _ _. destruct (substr_v s z z0); exact I.
Qed.

(* ------------------------------------------------------------------ environments: NatSem's are Ref's *)
Lemma nlookup_ok x (en : nenv) L : env_ok en L ->
  match tlookup x L with
  | Some (m, t) => exists v, nlookup x en = Some (m, v) /\ has_ty v t
  | None => nlookup x en = None
  end.
Proof. exact (lookup_ok x en L). Qed.

Lemma nassign_ok x v t (en : nenv) L : env_ok en L -> tlookup x L = Some (true, t) -> has_ty v t ->
  exists en', nassign x v en = Some en' /\ env_ok en' L.
Proof. exact (assign_ok x v t en L). Qed.

Lemma nrestore_app (ex e0 : nenv) n : length e0 = n -> nrestore n (ex ++ e0) = e0.
Proof. exact (restore_app ex e0 n). Qed.

Lemma nat_bind_params_ok : forall ps vs, Forall2 has_ty vs (map snd ps) ->
  exists en, nat_bind_params ps vs = Some en /\ env_ok (rev en) (params_tenv ps).
Proof. exact bind_params_ok. Qed.

(* a statement all of whose paths return never ends normally *)
Section NRet.
Variable ord : arg_order.
Variable fns : list fn.
Variable genv : nenv.
Ltac split_nbind H E :=
  match type of H with nbind ?r _ = _ => destruct r as [? ?|? ?| | |] eqn:E; simpl in H; try discriminate H end.
Lemma nat_returns_not_normal : forall s fuel en out c en' out',
  returns s = true -> nat_stmt ord fns fuel genv en s out = NOk (c, en') out' -> c <> NCNormal.
Proof.
  induction s; intros fuel en out c0 en' out' R H; simpl in R; try discriminate R;
    (destruct fuel as [|fuel]; [simpl in H; discriminate H|]); cbn [nat_stmt] in H.
  - (* seq *)
    split_nbind H E1. destruct a as [c1 e1]. simpl in H. destruct c1; simpl in H.
    + destruct (returns s1) eqn:R1.
      * exfalso. eapply IHs1; [reflexivity|exact E1|reflexivity].
      * simpl in R. eapply IHs2; [exact R|exact H].
    + injection H as <- _ _. discriminate.
    + injection H as <- _ _. discriminate.
    + injection H as <- _ _. discriminate.
  - (* if *)
    apply andb_true_iff in R. destruct R as [R1 R2].
    split_nbind H E0. destruct a as [zz|bb| |ss|ll]; try discriminate H.
    split_nbind H E1. destruct a as [c1 e1]. simpl in H.
    injection H as <- _ _. destruct bb; [eapply IHs1|eapply IHs2]; eauto.
  - (* return *)
    destruct e as [e|].
    + split_nbind H E0. injection H as <- _ _. discriminate.
    + injection H as <- _ _. discriminate.
Qed.
End NRet.

(* ------------------------------------------------------------------ the invariant *)
Section NSound.
Variable ord : arg_order.
Variable fns : list fn.
Variable F : sigs.
Variable G : tenv.
Variable genv : nenv.
Hypothesis HG : env_ok genv G.
Hypothesis HF : forall f ps r, slookup f F = Some (ps, r) ->
  exists d, nat_find_fn fns f = Some d /\ map snd (fparams d) = ps /\ fret d = r /\ wt_fn F G d = true.

Definition nexpr_sound (fuel : nat) := forall L (en : nenv) e t out, env_ok en L -> ty_expr F G L e = Some t ->
  ngood (fun v => has_ty v t) (nat_expr ord fns fuel genv en e out).

(* outcome of a statement checked in scope L (result scope L'): the entry environment survives as a suffix *)
Definition nstmt_post (ret : ty) (inl : bool) (L L' : tenv) (r : nctl * nenv) : Prop :=
  (exists ex en0, snd r = ex ++ en0 /\ env_ok en0 L) /\
  match fst r with
  | NCNormal => env_ok (snd r) L'
  | NCBreak | NCContinue => inl = true
  | NCReturn v => has_ty v ret
  end.

Definition nstmt_sound (fuel : nat) := forall ret inl L L' (en : nenv) s out, env_ok en L ->
  wt_stmt F G ret inl L s = Some L' ->
  ngood (nstmt_post ret inl L L') (nat_stmt ord fns fuel genv en s out).

Definition nfor_post (ret : ty) (L : tenv) (r : nctl * nenv) : Prop :=
  env_ok (snd r) L /\ match fst r with NCNormal => True | NCReturn v => has_ty v ret | _ => False end.

Definition nfor_sound (fuel : nat) := forall ret L Lb (en : nenv) x i hi body out, env_ok en L ->
  wt_stmt F G ret true ((x, (false, TInt)) :: L) body = Some Lb ->
  ngood (nfor_post ret L) (nat_for ord fns fuel genv en x i hi body out).

Lemma nvar_sound L (en : nenv) x t out : env_ok en L -> ty_expr F G L (EVar x) = Some t ->
  ngood (fun v => has_ty v t)
       match nlookup x en with
       | Some (_, v) => NOk v out
       | None => match nlookup x genv with Some (_, v) => NOk v out | None => NStuck end
       end.
Proof.
  intros He Ht. simpl in Ht.
  pose proof (nlookup_ok x en L He) as H1. pose proof (nlookup_ok x genv G HG) as H2.
  destruct (tlookup x L) as [[m t1]|].
  - injection Ht as ->. destruct H1 as [v [E Hv]]. rewrite E. exact Hv.
  - rewrite H1. destruct (tlookup x G) as [[m t1]|]; [|discriminate].
    injection Ht as ->. destruct H2 as [v [E Hv]]. rewrite E. exact Hv.
Qed.

(* arguments, left to right *)
Lemma nargs_sound_lr fuel L (en : nenv) : nexpr_sound fuel -> env_ok en L -> forall args ps,
  Forall2 (fun a t => ty_expr F G L a = Some t) args ps -> forall out,
  ngood (fun vs => Forall2 has_ty vs ps)
    ((fix eval_args (l : list expr) (out0 : list N) : nres (list value) :=
        match l with
        | [] => NOk [] out0
        | a :: r => nbind (nat_expr ord fns fuel genv en a out0) (fun v out1 =>
                    nbind (eval_args r out1) (fun vs out2 => NOk (v :: vs) out2))
        end) args out).
Proof.
  intros IHe He args ps Ea. induction Ea as [|a p l ps' Hap Hrest IH]; intros out0; [constructor|].
  eapply ngood_bind; [apply (IHe _ _ _ _ out0 He Hap)|]. intros v o1 _ Hv.
  eapply ngood_bind; [apply IH|]. intros vs o2 _ Hvs. constructor; assumption.
Qed.

(* arguments, right to left: the tail is evaluated BEFORE the head, the values keep their positions *)
Lemma nargs_sound_rl fuel L (en : nenv) : nexpr_sound fuel -> env_ok en L -> forall args ps,
  Forall2 (fun a t => ty_expr F G L a = Some t) args ps -> forall out,
  ngood (fun vs => Forall2 has_ty vs ps)
    ((fix eval_args_rl (l : list expr) (out0 : list N) : nres (list value) :=
        match l with
        | [] => NOk [] out0
        | a :: r => nbind (eval_args_rl r out0) (fun vs out1 =>
                    nbind (nat_expr ord fns fuel genv en a out1) (fun v out2 => NOk (v :: vs) out2))
        end) args out).
Proof.
  intros IHe He args ps Ea. induction Ea as [|a p l ps' Hap Hrest IH]; intros out0; [constructor|].
  eapply ngood_bind; [apply IH|]. intros vs o1 _ Hvs.
  eapply ngood_bind; [apply (IHe _ _ _ _ o1 He Hap)|]. intros v o2 _ Hv. constructor; assumption.
Qed.

(* elements of an array literal, in either order: every value is an int *)
Lemma nelems_sound_lr fuel L (en : nenv) : nexpr_sound fuel -> env_ok en L -> forall es,
  Forall (fun a => ty_expr F G L a = Some TInt) es -> forall out,
  ngood (fun vs => Forall (fun v => has_ty v TInt) vs)
    ((fix eval_args (l : list expr) (out0 : list N) : nres (list value) :=
        match l with
        | [] => NOk [] out0
        | a :: r => nbind (nat_expr ord fns fuel genv en a out0) (fun v out1 =>
                    nbind (eval_args r out1) (fun vs out2 => NOk (v :: vs) out2))
        end) es out).
Proof.
  intros IHe He es Ea. induction Ea as [|a l Ha Hrest IH]; intros out0; [constructor|].
  eapply ngood_bind; [apply (IHe _ _ _ _ out0 He Ha)|]. intros v o1 _ Hv.
  eapply ngood_bind; [apply IH|]. intros vs o2 _ Hvs. constructor; assumption.
Qed.
Lemma nelems_sound_rl fuel L (en : nenv) : nexpr_sound fuel -> env_ok en L -> forall es,
  Forall (fun a => ty_expr F G L a = Some TInt) es -> forall out,
  ngood (fun vs => Forall (fun v => has_ty v TInt) vs)
    ((fix eval_args_rl (l : list expr) (out0 : list N) : nres (list value) :=
        match l with
        | [] => NOk [] out0
        | a :: r => nbind (eval_args_rl r out0) (fun vs out1 =>
                    nbind (nat_expr ord fns fuel genv en a out1) (fun v out2 => NOk (v :: vs) out2))
        end) es out).
Proof.
  intros IHe He es Ea. induction Ea as [|a l Ha Hrest IH]; intros out0; [constructor|].
  eapply ngood_bind; [apply IH|]. intros vs o1 _ Hvs.
  eapply ngood_bind; [apply (IHe _ _ _ _ o1 He Ha)|]. intros v o2 _ Hv. constructor; assumption.
Qed.

Lemma nat_at_ok va vi out : has_ty va TArr -> has_ty vi TInt -> ngood (fun v => has_ty v TInt) (nat_at va vi out).
Proof.
  intros Ha Hi. destruct (arr_inv _ Ha) as [l ->]. destruct (int_inv _ Hi) as [k ->].
  unfold nat_at. destruct (arr_get l k); exact I.
Qed.

Lemma nexpr_step fuel : nexpr_sound fuel -> nstmt_sound fuel -> nexpr_sound (S fuel).
Proof.
  intros IHe IHs L en e t out He Ht. destruct e; cbn [nat_expr nat_stmt nat_for].
  - simpl in Ht. injection Ht as <-. exact I.
  - simpl in Ht. injection Ht as <-. exact I.
  - simpl in Ht. injection Ht as <-. exact I.
  - apply (nvar_sound L); assumption.
  - (* unary *)
    simpl in Ht. destruct (ty_expr F G L e) as [ta|] eqn:Ea; [|discriminate].
    eapply ngood_bind; [apply (IHe _ _ _ _ out He Ea)|]. intros v o1 _ Hv.
    destruct (nat_unop_ok _ _ _ _ Ht Hv) as [v' [E Hv']]. rewrite E. exact Hv'.
  - (* binary *)
    simpl in Ht. destruct (ty_expr F G L e1) as [ta|] eqn:Ea; [|discriminate].
    destruct (ty_expr F G L e2) as [tb|] eqn:Eb; [|discriminate].
    assert (General : ngood (fun v => has_ty v t)
              (nbind (nat_expr ord fns fuel genv en e1 out) (fun va out1 =>
               nbind (nat_expr ord fns fuel genv en e2 out1) (fun vb out2 => of_nopres (nat_binop o va vb) out2)))).
    { eapply ngood_bind; [apply (IHe _ _ _ _ out He Ea)|]. intros va o1 _ Hva.
      eapply ngood_bind; [apply (IHe _ _ _ _ o1 He Eb)|]. intros vb o2 _ Hvb.
      pose proof (nat_binop_ok _ _ _ _ _ _ Ht Hva Hvb) as Hb.
      destruct (nat_binop o va vb); simpl; auto. }
    destruct o; try exact General.
    + (* and *)
      simpl in Ht. destruct ta, tb; try discriminate. injection Ht as <-.
      eapply ngood_bind; [apply (IHe _ _ _ _ out He Ea)|]. intros va o1 _ Hva.
      destruct (bool_inv _ Hva) as [[|] ->]; [|exact I].
      eapply ngood_bind; [apply (IHe _ _ _ _ o1 He Eb)|]. intros vb o2 _ Hvb.
      destruct (bool_inv _ Hvb) as [b ->]. exact I.
    + (* or *)
      simpl in Ht. destruct ta, tb; try discriminate. injection Ht as <-.
      eapply ngood_bind; [apply (IHe _ _ _ _ out He Ea)|]. intros va o1 _ Hva.
      destruct (bool_inv _ Hva) as [[|] ->]; [exact I|].
      eapply ngood_bind; [apply (IHe _ _ _ _ o1 He Eb)|]. intros vb o2 _ Hvb.
      destruct (bool_inv _ Hvb) as [b ->]. exact I.
  - (* call: the only place where [ord] is looked at *)
    rewrite ty_expr_call in Ht. destruct (slookup f F) as [[ps r]|] eqn:Es; [|discriminate].
    destruct (args_ok F G L args ps) eqn:Ea; [|discriminate]. injection Ht as <-.
    apply args_ok_spec in Ea.
    destruct (HF _ _ _ Es) as [d [Ef [Eps [Er Hwt]]]].
    match goal with |- ngood _ (nbind ?ra _) => assert (HA : ngood (fun vs => Forall2 has_ty vs ps) ra) end.
    { apply ngood_order.
      - apply (nargs_sound_lr fuel L en IHe He args ps Ea).
      - apply (nargs_sound_rl fuel L en IHe He args ps Ea). }
    eapply ngood_bind; [exact HA|]. intros vs o1 _ Hvs.
    rewrite Ef. rewrite <- Eps in Hvs. destruct (nat_bind_params_ok _ _ Hvs) as [en' [Eb Hen']]. rewrite Eb.
    unfold wt_fn in Hwt. apply andb_true_iff in Hwt. destruct Hwt as [Hwt Hret].
    apply andb_true_iff in Hwt. destruct Hwt as [_ Hbody].
    destruct (wt_stmt F G (fret d) false (params_tenv (fparams d)) (fbody d)) as [Lb|] eqn:Eb'; [|discriminate].
    eapply ngood_bind; [apply (IHs _ _ _ _ _ _ o1 Hen' Eb')|]. intros [c en''] o2 Ex [_ Hc].
    simpl in Hc |- *. destruct c; simpl.
    + (* fell off the end: only a void function may *)
      apply orb_true_iff in Hret. destruct Hret as [Hv|Hr].
      * subst r. destruct (fret d); try discriminate. exact I.
      * exfalso. eapply nat_returns_not_normal; [exact Hr|exact Ex|reflexivity].
    + discriminate.
    + discriminate.
    + subst r. exact Hc.
  - (* cond *)
    simpl in Ht. destruct (ty_expr F G L e1) as [tc|] eqn:Ec; [|discriminate].
    destruct tc; try discriminate.
    destruct (ty_expr F G L e2) as [ta|] eqn:Ea; [|discriminate].
    destruct (ty_expr F G L e3) as [tb|] eqn:Eb; [|discriminate].
    destruct (ty_eqb ta tb) eqn:Q; [|discriminate]. injection Ht as <-. apply ty_eqb_eq in Q. subst tb.
    eapply ngood_bind; [apply (IHe _ _ _ _ out He Ec)|]. intros vc o1 _ Hvc.
    destruct (bool_inv _ Hvc) as [[|] ->]; [apply (IHe _ _ _ _ o1 He Ea)|apply (IHe _ _ _ _ o1 He Eb)].
  - (* array literal: either order of the elements *)
    rewrite ty_expr_arr in Ht. destruct (elems_ok F G L es) eqn:Ea; [|discriminate]. injection Ht as <-.
    apply elems_ok_spec in Ea.
    match goal with |- ngood _ (nbind ?ra _) => assert (HA : ngood (fun vs => Forall (fun v => has_ty v TInt) vs) ra) end.
    { apply ngood_order.
      - apply (nelems_sound_lr fuel L en IHe He es Ea).
      - apply (nelems_sound_rl fuel L en IHe He es Ea). }
    eapply ngood_bind; [exact HA|]. intros vs o1 _ Hvs.
    destruct (ints_of_ok _ Hvs) as [l ->]. exact I.
  - (* at: either order of the two operands; out of range aborts, it is not stuck *)
    simpl in Ht. destruct (ty_expr F G L e1) as [ta|] eqn:Ea; [|discriminate].
    destruct ta; try discriminate.
    destruct (ty_expr F G L e2) as [ti|] eqn:Ei; [|discriminate].
    destruct ti; try discriminate. injection Ht as <-.
    apply ngood_order.
    + eapply ngood_bind; [apply (IHe _ _ _ _ out He Ea)|]. intros va o1 _ Hva.
      eapply ngood_bind; [apply (IHe _ _ _ _ o1 He Ei)|]. intros vi o2 _ Hvi. apply nat_at_ok; assumption.
    + eapply ngood_bind; [apply (IHe _ _ _ _ out He Ei)|]. intros vi o1 _ Hvi.
      eapply ngood_bind; [apply (IHe _ _ _ _ o1 He Ea)|]. intros va o2 _ Hva. apply nat_at_ok; assumption.
  - (* array_length *)
    simpl in Ht. destruct (ty_expr F G L e) as [ta|] eqn:Ea; [|discriminate].
    destruct ta; try discriminate. injection Ht as <-.
    eapply ngood_bind; [apply (IHe _ _ _ _ out He Ea)|]. intros va o1 _ Hva.
    destruct (arr_inv _ Hva) as [l ->]. exact I.
  - (* unary string builtin *)
    simpl in Ht. destruct (ty_expr F G L e) as [ta|] eqn:Ea; [|discriminate].
    eapply ngood_bind; [apply (IHe _ _ _ _ out He Ea)|]. intros v o1 _ Hv.
    pose proof (nat_str1_ok _ _ _ _ Ht Hv) as Hb. destruct (nat_str1 o v); simpl; auto.
  - (* binary string builtin: either order of the two operands *)
    simpl in Ht. destruct (ty_expr F G L e1) as [ta|] eqn:Ea; [|discriminate].
    destruct (ty_expr F G L e2) as [tb|] eqn:Eb; [|discriminate].
    apply ngood_order.
    + eapply ngood_bind; [apply (IHe _ _ _ _ out He Ea)|]. intros va o1 _ Hva.
      eapply ngood_bind; [apply (IHe _ _ _ _ o1 He Eb)|]. intros vb o2 _ Hvb.
      pose proof (nat_str2_ok _ _ _ _ _ _ Ht Hva Hvb) as Hb. destruct (nat_str2 o va vb); simpl; auto.
    + eapply ngood_bind; [apply (IHe _ _ _ _ out He Eb)|]. intros vb o1 _ Hvb.
      eapply ngood_bind; [apply (IHe _ _ _ _ o1 He Ea)|]. intros va o2 _ Hva.
      pose proof (nat_str2_ok _ _ _ _ _ _ Ht Hva Hvb) as Hb. destruct (nat_str2 o va vb); simpl; auto.
  - (* str_substring: either order of the three operands *)
    simpl in Ht. destruct (ty_expr F G L e1) as [ta|] eqn:Ea; [|discriminate]. destruct ta; try discriminate.
    destruct (ty_expr F G L e2) as [tb|] eqn:Eb; [|discriminate]. destruct tb; try discriminate.
    destruct (ty_expr F G L e3) as [tc|] eqn:Ec; [|discriminate]. destruct tc; try discriminate. injection Ht as <-.
    apply ngood_order.
    + eapply ngood_bind; [apply (IHe _ _ _ _ out He Ea)|]. intros va o1 _ Hva.
      eapply ngood_bind; [apply (IHe _ _ _ _ o1 He Eb)|]. intros vb o2 _ Hvb.
      eapply ngood_bind; [apply (IHe _ _ _ _ o2 He Ec)|]. intros vc o3 _ Hvc.
      pose proof (nat_substr_ok _ _ _ Hva Hvb Hvc) as Hb. destruct (nat_substr va vb vc); simpl; auto.
    + eapply ngood_bind; [apply (IHe _ _ _ _ out He Ec)|]. intros vc o1 _ Hvc.
      eapply ngood_bind; [apply (IHe _ _ _ _ o1 He Eb)|]. intros vb o2 _ Hvb.
      eapply ngood_bind; [apply (IHe _ _ _ _ o2 He Ea)|]. intros va o3 _ Hva.
      pose proof (nat_substr_ok _ _ _ Hva Hvb Hvc) as Hb. destruct (nat_substr va vb vc); simpl; auto.
Qed.

(* re-base the suffix part of a statement's post-condition on an outer scope *)
Lemma npost_rebase ret inl L exL L' r :
  nstmt_post ret inl (exL ++ L) L' r -> nstmt_post ret inl L L' r.
Proof.
  intros [[ex [en0 [E H0]]] Hc]. split; [|exact Hc].
  destruct (env_ok_app_inv _ _ _ H0) as [e1 [e2 [-> [_ H2]]]].
  exists (ex ++ e1), e2. split; [|exact H2]. rewrite E, app_assoc. reflexivity.
Qed.

Lemma nblock_exit (en : nenv) (L : tenv) (r : nctl * nenv) ret inl Lb :
  env_ok en L -> nstmt_post ret inl L Lb r ->
  env_ok (nrestore (length en) (snd r)) L /\
  match fst r with NCNormal => True | NCBreak | NCContinue => inl = true | NCReturn v => has_ty v ret end.
Proof.
  intros He [[ex [en0 [E H0]]] Hc]. split.
  - rewrite E, nrestore_app; [exact H0|]. rewrite (env_ok_length _ _ H0), (env_ok_length _ _ He). reflexivity.
  - destruct (fst r); auto.
Qed.

Lemma nstmt_step fuel : nexpr_sound fuel -> nstmt_sound fuel -> nfor_sound fuel -> nstmt_sound (S fuel).
Proof.
  intros IHe IHs IHf ret inl L L' en s out He Hw.
  assert (Self : forall en1 : nenv, env_ok en1 L -> nstmt_post ret inl L L (NCNormal, en1)).
  { intros en1 H1. split; [exists [], en1; split; [reflexivity|exact H1]|exact H1]. }
  destruct s; cbn [nat_expr nat_stmt nat_for]; simpl in Hw.
  - (* skip *) injection Hw as <-. apply Self, He.
  - (* seq *)
    destruct (wt_stmt F G ret inl L s1) as [L1|] eqn:E1; [|discriminate].
    eapply ngood_bind; [apply (IHs _ _ _ _ _ _ out He E1)|]. intros [c1 en1] o1 _ [Hsuf Hc].
    simpl in Hc |- *. destruct c1; simpl.
    + destruct (wt_stmt_ext _ _ _ _ _ _ _ E1) as [exL ->].
      eapply ngood_weaken; [apply (IHs _ _ _ _ _ _ o1 Hc Hw)|]. intros r. apply npost_rebase.
    + split; [exact Hsuf|exact Hc].
    + split; [exact Hsuf|exact Hc].
    + split; [exact Hsuf|exact Hc].
  - (* let *)
    destruct (expr_has F G L e t && negb (is_void t)) eqn:Q; [|discriminate]. injection Hw as <-.
    apply andb_true_iff in Q. destruct Q as [Q _]. apply expr_has_spec in Q.
    eapply ngood_bind; [apply (IHe _ _ _ _ out He Q)|]. intros v o1 _ Hv. simpl.
    split; simpl.
    + exists [(x, (mut, v))], en. split; [reflexivity|exact He].
    + constructor; [|exact He]. repeat split; assumption.
  - (* set *)
    destruct (tlookup x L) as [[[|] t]|] eqn:El; try discriminate.
    destruct (expr_has F G L e t) eqn:Q; [|discriminate]. injection Hw as <-. apply expr_has_spec in Q.
    eapply ngood_bind; [apply (IHe _ _ _ _ out He Q)|]. intros v o1 _ Hv.
    destruct (nassign_ok _ _ _ _ _ He El Hv) as [en' [Ea Hen']]. rewrite Ea. simpl. apply Self, Hen'.
  - (* if *)
    destruct (expr_has F G L c TBool) eqn:Q; [|discriminate]. apply expr_has_spec in Q.
    destruct (wt_stmt F G ret inl L s1) as [L1|] eqn:E1; [|discriminate].
    destruct (wt_stmt F G ret inl L s2) as [L2|] eqn:E2; [|discriminate]. injection Hw as <-.
    eapply ngood_bind; [apply (IHe _ _ _ _ out He Q)|]. intros vc o1 _ Hvc.
    destruct (bool_inv _ Hvc) as [b ->].
    assert (Hbr : exists Lb, wt_stmt F G ret inl L (if b then s1 else s2) = Some Lb) by (destruct b; eauto).
    destruct Hbr as [Lb Hbr].
    eapply ngood_bind; [apply (IHs _ _ _ _ _ _ o1 He Hbr)|]. intros r o2 _ Hr. simpl.
    destruct (nblock_exit _ _ _ _ _ _ He Hr) as [Hen Hc].
    split; simpl.
    + eexists [], _. split; [reflexivity|exact Hen].
    + destruct (fst r); auto.
  - (* while *)
    destruct (expr_has F G L c TBool) eqn:Q; [|discriminate]. apply expr_has_spec in Q.
    destruct (wt_stmt F G ret true L s) as [Lb|] eqn:Eb; [|discriminate]. injection Hw as <-.
    eapply ngood_bind; [apply (IHe _ _ _ _ out He Q)|]. intros vc o1 _ Hvc.
    destruct (bool_inv _ Hvc) as [[|] ->]; [|simpl; apply Self, He].
    eapply ngood_bind; [apply (IHs _ _ _ _ _ _ o1 He Eb)|]. intros r o2 _ Hr.
    destruct (nblock_exit _ _ _ _ _ _ He Hr) as [Hen Hc].
    assert (Again : ngood (nstmt_post ret inl L L)
                      (nat_stmt ord fns fuel genv (nrestore (length en) (snd r)) (SWhile c s) o2)).
    { apply IHs; [exact Hen|]. simpl. unfold expr_has. rewrite Q, Eb. reflexivity. }
    destruct (fst r); simpl.
    + exact Again.
    + apply Self, Hen.
    + exact Again.
    + split; simpl; [eexists [], _; split; [reflexivity|exact Hen]|exact Hc].
  - (* for *)
    destruct (expr_has F G L lo TInt && expr_has F G L hi TInt) eqn:Q; [|discriminate].
    apply andb_true_iff in Q. destruct Q as [Q1 Q2]. apply expr_has_spec in Q1. apply expr_has_spec in Q2.
    destruct (wt_stmt F G ret true ((x, (false, TInt)) :: L) s) as [Lb|] eqn:Eb; [|discriminate]. injection Hw as <-.
    eapply ngood_bind; [apply (IHe _ _ _ _ out He Q1)|]. intros vlo o1 _ Hlo.
    eapply ngood_bind; [apply (IHe _ _ _ _ o1 He Q2)|]. intros vhi o2 _ Hhi.
    destruct (int_inv _ Hlo) as [a ->]. destruct (int_inv _ Hhi) as [b ->].
    eapply ngood_weaken; [apply (IHf _ _ _ _ x a b _ o2 He Eb)|]. intros [c0 en1] [H1 H2]. simpl in *.
    split; simpl.
    + eexists [], _. split; [reflexivity|exact H1].
    + destruct c0; auto; contradiction.
  - (* break *) destruct inl; [|discriminate]. injection Hw as <-. simpl.
    split; simpl; [exists [], en; split; [reflexivity|exact He]|reflexivity].
  - (* continue *) destruct inl; [|discriminate]. injection Hw as <-. simpl.
    split; simpl; [exists [], en; split; [reflexivity|exact He]|reflexivity].
  - (* return *)
    destruct e as [e|].
    + destruct (expr_has F G L e ret) eqn:Q; [|discriminate]. injection Hw as <-. apply expr_has_spec in Q.
      eapply ngood_bind; [apply (IHe _ _ _ _ out He Q)|]. intros v o1 _ Hv. simpl.
      split; simpl; [exists [], en; split; [reflexivity|exact He]|exact Hv].
    + destruct ret; try discriminate. injection Hw as <-. simpl.
      split; simpl; [exists [], en; split; [reflexivity|exact He]|exact I].
  - (* print *)
    destruct (ty_expr F G L e) as [t|] eqn:Q; [|discriminate]. destruct (is_void t); [discriminate|]. injection Hw as <-.
    eapply ngood_bind; [apply (IHe _ _ _ _ out He Q)|]. intros v o1 _ Hv. simpl. apply Self, He.
  - (* assert *)
    destruct (expr_has F G L e TBool) eqn:Q; [|discriminate]. injection Hw as <-. apply expr_has_spec in Q.
    eapply ngood_bind; [apply (IHe _ _ _ _ out He Q)|]. intros v o1 _ Hv.
    destruct (bool_inv _ Hv) as [[|] ->]; simpl; [apply Self, He|exact I].
  - (* expression statement *)
    destruct (ty_expr F G L e) as [t|] eqn:Q; [|discriminate]. injection Hw as <-.
    eapply ngood_bind; [apply (IHe _ _ _ _ out He Q)|]. intros v o1 _ Hv. simpl. apply Self, He.
Qed.

Lemma nfor_step fuel : nstmt_sound fuel -> nfor_sound fuel -> nfor_sound (S fuel).
Proof.
  intros IHs IHf ret L Lb en x i hi body out He Hw. cbn [nat_expr nat_stmt nat_for].
  destruct (Z.ltb i hi); [|simpl; split; [exact He|exact I]].
  assert (He' : env_ok ((x, (false, VInt i)) :: en) ((x, (false, TInt)) :: L)).
  { constructor; [|exact He]. repeat split. }
  eapply ngood_bind; [apply (IHs _ _ _ _ _ _ out He' Hw)|]. intros r o1 _ [[ex [en0 [E H0]]] Hc].
  inversion H0 as [|b c0 en00 L0 Hb H00]; subst.
  assert (Hres : nrestore (length en) (snd r) = en00).
  { rewrite E. change (ex ++ b :: en00) with (ex ++ [b] ++ en00). rewrite app_assoc.
    apply nrestore_app. rewrite (env_ok_length _ _ H00), (env_ok_length _ _ He). reflexivity. }
  rewrite Hres. destruct (fst r); simpl.
  - apply (IHf _ _ _ _ _ _ _ _ o1 H00 Hw).
  - split; [exact H00|exact I].
  - apply (IHf _ _ _ _ _ _ _ _ o1 H00 Hw).
  - split; [exact H00|exact Hc].
Qed.

Theorem nat_all_sound : forall fuel, nexpr_sound fuel /\ nstmt_sound fuel /\ nfor_sound fuel.
Proof.
  induction fuel as [|fuel [IHe [IHs IHf]]].
  - repeat split; red; intros; exact I.
  - split; [|split].
    + apply nexpr_step; assumption.
    + apply nstmt_step; assumption.
    + apply nfor_step; assumption.
Qed.
End NSound.

(* ------------------------------------------------------------------ programs *)
Lemma nat_globals_sound ord fns fuel : forall gs Gacc (genv : nenv) out, env_ok genv Gacc -> wt_globals Gacc gs = true ->
  ngood (fun genv' => env_ok genv' (gtenv gs Gacc)) (nat_globals ord fns fuel gs genv out).
Proof.
  induction gs as [|[[x t] e] gs IH]; intros Gacc genv out Hg Hw; simpl in *; [exact Hg|].
  apply andb_true_iff in Hw. destruct Hw as [Hw Hrest]. apply andb_true_iff in Hw. destruct Hw as [He _].
  apply expr_has_spec in He.
  assert (HF0 : forall f ps r, slookup f [] = Some (ps, r) ->
                 exists d, nat_find_fn fns f = Some d /\ map snd (fparams d) = ps /\ fret d = r /\ wt_fn [] Gacc d = true)
    by (intros; discriminate).
  pose proof (proj1 (nat_all_sound ord fns [] Gacc genv Hg HF0 fuel)) as Hs.
  eapply ngood_bind; [apply (Hs [] [] e t out); [constructor|exact He]|]. intros v o1 _ Hv.
  apply IH; [|exact Hrest]. constructor; [|exact Hg]. repeat split; assumption.
Qed.

Theorem nat_wt_sound : forall p, wt p = true -> forall ord fuel, run_nat ord fuel p <> NStuckO.
Proof.
  intros p Hwt ord fuel. unfold wt in Hwt.
  apply andb_true_iff in Hwt. destruct Hwt as [Hwt Hmain].
  apply andb_true_iff in Hwt. destruct Hwt as [Hwt _].
  apply andb_true_iff in Hwt. destruct Hwt as [Hgl Hfns].
  set (F := sigs_of (pfns p)) in *. set (G := gtenv (pglobals p) []) in *.
  unfold run_nat. destruct (cc_refuses p); [discriminate|].
  pose proof (nat_globals_sound ord (pfns p) fuel (pglobals p) [] [] [] (Forall2_nil _) Hgl) as Hg.
  destruct (nat_globals ord (pfns p) fuel (pglobals p) [] []) as [genv out0|f out0| | |]; simpl in Hg;
    try discriminate; try contradiction.
  fold G in Hg.
  assert (HF : forall f ps r, slookup f F = Some (ps, r) ->
                 exists d, nat_find_fn (pfns p) f = Some d /\ map snd (fparams d) = ps /\ fret d = r /\ wt_fn F G d = true).
  { intros f ps r H. destruct (sigs_of_find _ _ _ _ H) as [d [E [H1 [H2 H3]]]]. exists d. repeat split; auto.
    rewrite forallb_forall in Hfns. apply Hfns, H3. }
  pose proof (proj1 (nat_all_sound ord (pfns p) F G genv Hg HF fuel)) as Hs.
  assert (Ht : ty_expr F G [] (ECall (pmain p) []) = Some TInt).
  { rewrite ty_expr_call. destruct (slookup (pmain p) F) as [[[|t0 ps] r]|]; try discriminate.
    destruct r; try discriminate. reflexivity. }
  pose proof (Hs [] [] _ _ out0 (Forall2_nil _) Ht) as Hm.
  destruct (nat_expr ord (pfns p) fuel genv [] (ECall (pmain p) []) out0) as [v o|f o| | |]; simpl in Hm;
    try discriminate; try contradiction.
  destruct v; simpl in Hm; try contradiction. discriminate.
Qed.
