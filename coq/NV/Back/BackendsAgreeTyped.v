(* C01 at the level of the two engine models, for ACCEPTED programs: the hypothesis "the native model with gcc's
   argument order is never stuck" of Back/BackendsAgree.v is discharged by type soundness of the native model for
   either argument order (Back/NatTypeSound.v).  Plus: the hypotheses are jointly satisfiable, on the all-constructs
   program of VmSimExamples and on a program whose call has a LOUD first argument (a call that prints) which gcc's
   order evaluates last; depth_ok of a concrete module follows from one terminating machine run (VmFuel.run_vm_unique). *)
From Coq Require Import ZArith NArith List Bool Lia.
From NV Require Import Lang.Ast Lang.Ref Lang.Types Back.VmCompile Back.VmExec Back.NatSem Back.Agree Back.NatOrder
  Back.NatOrderProofs Back.VmSimDefs Back.VmSimMod Back.VmSimFinal Back.VmFuel Back.BackendsAgree Back.NatTypeSound
  Back.VmSimExamples.
Import ListNotations.

Theorem backends_agree_typed pr M fuel out ex :
  wt pr = true -> compile_program pr = Some M -> small_program pr -> fuel_small fuel -> depth_ok M ->
  se_program pr = true -> cc_refuses pr = false ->
  run_ref fuel pr = Done out ex ->
  (exists fv, run_vm fv M = VDone out ex) /\ (exists fn, run_nat RtoL fn pr = NDone out ex).
Proof.
  intros Hwt Hc Hs Hf Hd Hse Hcc Hr.
  apply (backends_agree pr M fuel out ex Hc Hs Hf Hd Hse Hcc); [|exact Hr].
  intros fuel'. apply nat_wt_sound. exact Hwt.
Qed.

(* failed assertions: both engines stop with the same output (VM: error AssertFailed; native: exit 1) *)
Theorem backends_agree_assert_typed pr M fuel out :
  wt pr = true -> compile_program pr = Some M -> small_program pr -> fuel_small fuel -> depth_ok M ->
  se_program pr = true -> cc_refuses pr = false ->
  run_ref fuel pr = Faulted FAssert out ->
  (exists fv, run_vm fv M = VError EAssert out) /\ (exists fn, run_nat RtoL fn pr = NFaulted NFAssert out).
Proof.
  intros Hwt Hc Hs Hf Hd Hse Hcc Hr.
  apply (backends_agree_assert pr M fuel out Hc Hs Hf Hd Hse Hcc); [|exact Hr].
  intros fuel'. apply nat_wt_sound. exact Hwt.
Qed.

(* ---------- the hypotheses are jointly satisfiable ---------- *)

(* a machine run that ends otherwise bounds the frame depth of EVERY run of that module *)
Lemma depth_ok_of_run M n : run_vm n M <> VOutOfFuel -> (forall o, run_vm n M <> VError ECallDepth o) -> depth_ok M.
Proof.
  intros Hn Hd fuel' o E. apply (Hd o). rewrite <- E. apply run_vm_unique; [exact Hn|].
  rewrite E. discriminate.
Qed.

Local Open Scope N_scope.

(* every construct (VmSimExamples.ex_prog): a global, a recursive two-parameter function, loops, strings, ... *)
Example backends_agree_typed_satisfiable : exists M,
  wt ex_prog = true /\ compile_program ex_prog = Some M /\ small_program ex_prog /\ fuel_small 200 /\ depth_ok M /\
  se_program ex_prog = true /\ cc_refuses ex_prog = false /\
  run_ref 200 ex_prog = Done [104; 105; 10; 53; 53; 10] 10 /\
  run_vm 5000 M = VDone [104; 105; 10; 53; 53; 10] 10 /\
  run_nat RtoL 200 ex_prog = NDone [104; 105; 10; 53; 53; 10] 10.
Proof.
  destruct (compile_program ex_prog) as [M|] eqn:E; [|vm_compute in E; discriminate E].
  exists M.
  assert (Hrun : run_vm 5000 M = VDone [104; 105; 10; 53; 53; 10] 10).
  { vm_compute in E. injection E as <-. vm_compute. reflexivity. }
  split; [vm_compute; reflexivity|]. split; [reflexivity|]. split; [exact ex_prog_small|].
  split; [unfold fuel_small; lia|]. split.
  - apply (depth_ok_of_run M 5000); [rewrite Hrun; discriminate|intros o; rewrite Hrun; discriminate].
  - split; [vm_compute; reflexivity|]. split; [vm_compute; reflexivity|]. split; [vm_compute; reflexivity|].
    split; [exact Hrun|vm_compute; reflexivity].
Qed.

(* main returns (f2 (f1 4) 3 c): f1 prints its argument and doubles it, f2 asserts its third argument and subtracts.
   The first argument is loud and gcc's order evaluates it LAST; c = (< 1 2) ends with status 5, c = (< 2 1) fails
   the assertion after "4\n" has been printed. *)
Definition ex_loud (c : expr) : program :=
  {| pglobals := [];
     pfns := [
       {| fname := 1; fparams := [(1, TInt)]; fret := TInt;
          fbody := SSeq (SPrint true (EVar 1)) (SReturn (Some (EBin BMul (EVar 1) (ENum 2)))) |};
       {| fname := 2; fparams := [(1, TInt); (2, TInt); (3, TBool)]; fret := TInt;
          fbody := SSeq (SAssert (EVar 3)) (SReturn (Some (EBin BSub (EVar 1) (EVar 2)))) |};
       {| fname := 0; fparams := []; fret := TInt;
          fbody := SReturn (Some (ECall 2 [ECall 1 [ENum 4]; ENum 3; c])) |} ];
     pmain := 0 |}.
Definition ex_loud_done : program := ex_loud (EBin BLt (ENum 1) (ENum 2)).
Definition ex_loud_assert : program := ex_loud (EBin BLt (ENum 2) (ENum 1)).

Ltac loud_small p :=
  split;
  [ unfold source_ok; cbn [pfns pglobals p ex_loud]; repeat split;
    [ repeat constructor; cbn; repeat split; try reflexivity; try discriminate
    | constructor
    | constructor
    | unfold VM_MAX_GLOBALS_N; cbn [length]; lia ]
  | let M := fresh "M" in let H := fresh "H" in let Hc := fresh "Hc" in
    intros M H; vm_compute in H; injection H as <-; unfold module_small; cbn [m_code m_strings m_fns];
    repeat split; try (vm_compute; reflexivity); try (intro Hc; discriminate Hc);
    repeat constructor; cbn [fe_locals]; intro Hc; discriminate Hc ].

Example ex_loud_done_small : small_program ex_loud_done.
Proof. loud_small ex_loud_done. Qed.
Example ex_loud_assert_small : small_program ex_loud_assert.
Proof. loud_small ex_loud_assert. Qed.

Example backends_agree_typed_loud_argument : exists M,
  wt ex_loud_done = true /\ compile_program ex_loud_done = Some M /\ small_program ex_loud_done /\ fuel_small 20 /\
  depth_ok M /\ se_program ex_loud_done = true /\ cc_refuses ex_loud_done = false /\
  run_ref 20 ex_loud_done = Done [52; 10] 5 /\
  run_vm 500 M = VDone [52; 10] 5 /\ run_nat RtoL 20 ex_loud_done = NDone [52; 10] 5.
Proof.
  destruct (compile_program ex_loud_done) as [M|] eqn:E; [|vm_compute in E; discriminate E].
  exists M.
  assert (Hrun : run_vm 500 M = VDone [52; 10] 5).
  { vm_compute in E. injection E as <-. vm_compute. reflexivity. }
  split; [vm_compute; reflexivity|]. split; [reflexivity|]. split; [exact ex_loud_done_small|].
  split; [unfold fuel_small; lia|]. split.
  - apply (depth_ok_of_run M 500); [rewrite Hrun; discriminate|intros o; rewrite Hrun; discriminate].
  - split; [vm_compute; reflexivity|]. split; [vm_compute; reflexivity|]. split; [vm_compute; reflexivity|].
    split; [exact Hrun|vm_compute; reflexivity].
Qed.

Example backends_agree_assert_typed_satisfiable : exists M,
  wt ex_loud_assert = true /\ compile_program ex_loud_assert = Some M /\ small_program ex_loud_assert /\ fuel_small 20 /\
  depth_ok M /\ se_program ex_loud_assert = true /\ cc_refuses ex_loud_assert = false /\
  run_ref 20 ex_loud_assert = Faulted FAssert [52; 10] /\
  run_vm 500 M = VError EAssert [52; 10] /\ run_nat RtoL 20 ex_loud_assert = NFaulted NFAssert [52; 10].
Proof.
  destruct (compile_program ex_loud_assert) as [M|] eqn:E; [|vm_compute in E; discriminate E].
  exists M.
  assert (Hrun : run_vm 500 M = VError EAssert [52; 10]).
  { vm_compute in E. injection E as <-. vm_compute. reflexivity. }
  split; [vm_compute; reflexivity|]. split; [reflexivity|]. split; [exact ex_loud_assert_small|].
  split; [unfold fuel_small; lia|]. split.
  - apply (depth_ok_of_run M 500); [rewrite Hrun; discriminate|intros o; rewrite Hrun; discriminate].
  - split; [vm_compute; reflexivity|]. split; [vm_compute; reflexivity|]. split; [vm_compute; reflexivity|].
    split; [exact Hrun|vm_compute; reflexivity].
Qed.

(* ---------- arrays ---------- *)
Theorem backends_agree_oob_typed pr M fuel out :
  wt pr = true -> compile_program pr = Some M -> small_program pr -> fuel_small fuel -> depth_ok M ->
  se_program pr = true -> cc_refuses pr = false ->
  run_ref fuel pr = Faulted FOob out ->
  (exists fv, run_vm fv M = VError EOob out) /\ (exists fn, run_nat RtoL fn pr = NFaulted NFOob out).
Proof.
  intros Hwt Hc Hs Hf Hd Hse Hcc Hr.
  apply (backends_agree_oob pr M fuel out Hc Hs Hf Hd Hse Hcc); [|exact Hr].
  intros fuel'. apply nat_wt_sound. exact Hwt.
Qed.

(* the array program of VmSimExamples (global array, array parameter and result, at / array_length / printing) *)
Example backends_agree_typed_arrays : exists M,
  wt ex_arr = true /\ compile_program ex_arr = Some M /\ small_program ex_arr /\ fuel_small 200 /\ depth_ok M /\
  se_program ex_arr = true /\ cc_refuses ex_arr = false /\
  run_ref 200 ex_arr = Done [50; 10; 91; 53; 44; 32; 54; 44; 32; 55; 93; 10; 53; 10; 54; 10; 55; 10] 11 /\
  run_vm 5000 M = VDone [50; 10; 91; 53; 44; 32; 54; 44; 32; 55; 93; 10; 53; 10; 54; 10; 55; 10] 11 /\
  run_nat RtoL 200 ex_arr = NDone [50; 10; 91; 53; 44; 32; 54; 44; 32; 55; 93; 10; 53; 10; 54; 10; 55; 10] 11.
Proof.
  destruct (compile_program ex_arr) as [M|] eqn:E; [|vm_compute in E; discriminate E].
  exists M.
  assert (Hrun : run_vm 5000 M = VDone [50; 10; 91; 53; 44; 32; 54; 44; 32; 55; 93; 10; 53; 10; 54; 10; 55; 10] 11).
  { vm_compute in E. injection E as <-. vm_compute. reflexivity. }
  split; [vm_compute; reflexivity|]. split; [reflexivity|]. split; [exact ex_arr_small|].
  split; [unfold fuel_small; lia|]. split.
  - apply (depth_ok_of_run M 5000); [rewrite Hrun; discriminate|intros o; rewrite Hrun; discriminate].
  - split; [vm_compute; reflexivity|]. split; [vm_compute; reflexivity|]. split; [vm_compute; reflexivity|].
    split; [exact Hrun|vm_compute; reflexivity].
Qed.

(* the string program of VmSimExamples (global string, string parameter and result, + / str_concat / str_length / str_equals /
   str_contains / char_at / str_substring / int_to_string) *)
Example backends_agree_typed_strings : exists M,
  wt ex_str = true /\ compile_program ex_str = Some M /\ small_program ex_str /\ fuel_small 200 /\ depth_ok M /\
  se_program ex_str = true /\ cc_refuses ex_str = false /\
  run_ref 200 ex_str = Done ex_str_out 119 /\ run_vm 5000 M = VDone ex_str_out 119 /\ run_nat RtoL 200 ex_str = NDone ex_str_out 119.
Proof.
  destruct (compile_program ex_str) as [M|] eqn:E; [|vm_compute in E; discriminate E].
  exists M.
  assert (Hrun : run_vm 5000 M = VDone ex_str_out 119).
  { vm_compute in E. injection E as <-. vm_compute. reflexivity. }
  split; [vm_compute; reflexivity|]. split; [reflexivity|]. split; [exact ex_str_small|].
  split; [unfold fuel_small; lia|]. split.
  - apply (depth_ok_of_run M 5000); [rewrite Hrun; discriminate|intros o; rewrite Hrun; discriminate].
  - split; [vm_compute; reflexivity|]. split; [vm_compute; reflexivity|]. split; [vm_compute; reflexivity|].
    split; [exact Hrun|vm_compute; reflexivity].
Qed.

Example backends_agree_oob_typed_satisfiable : exists M,
  wt ex_oob = true /\ compile_program ex_oob = Some M /\ small_program ex_oob /\ fuel_small 100 /\
  depth_ok M /\ se_program ex_oob = true /\ cc_refuses ex_oob = false /\
  run_ref 100 ex_oob = Faulted FOob [49; 10] /\
  run_vm 500 M = VError EOob [49; 10] /\ run_nat RtoL 100 ex_oob = NFaulted NFOob [49; 10].
Proof.
  destruct (compile_program ex_oob) as [M|] eqn:E; [|vm_compute in E; discriminate E].
  exists M.
  assert (Hrun : run_vm 500 M = VError EOob [49; 10]).
  { vm_compute in E. injection E as <-. vm_compute. reflexivity. }
  split; [vm_compute; reflexivity|]. split; [reflexivity|]. split; [exact ex_oob_small|].
  split; [unfold fuel_small; lia|]. split.
  - apply (depth_ok_of_run M 500); [rewrite Hrun; discriminate|intros o; rewrite Hrun; discriminate].
  - split; [vm_compute; reflexivity|]. split; [vm_compute; reflexivity|]. split; [vm_compute; reflexivity|].
    split; [exact Hrun|vm_compute; reflexivity].
Qed.
