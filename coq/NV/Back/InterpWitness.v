(* Witness programs for interp_correct_refuted (the same programs are replayed on the real nanoc by tools/props/c03.py:
   tools/props/shadow_witnesses.py keys c03:dynamic-scope, c03:dynamic-scope-param) and for the block-scoping examples
   (key c03:block-exit, fixed by 9481a65).  Definitions only. *)
From Coq Require Import ZArith NArith List Bool.
From NV Require Import Lang.Ast Back.InterpSem Driver.ShadowGate.
Import ListNotations.
Local Open Scope N_scope.

Definition call0 (f : ident) : expr := ECall f [].
Definition eqz (a : expr) (z : Z) : expr := EBin BEq a (ENum z).

(* SPECIFICATION section 8.1:   let x = 10   fn g() { return x }   fn h() { let x = 20  return (g) }   (h) is 10 *)
Definition p81 : program :=
  {| pglobals := [(1, TInt, ENum 10)];
     pfns := [ {| fname := 2; fparams := []; fret := TInt; fbody := SReturn (Some (EVar 1)) |};
               {| fname := 3; fparams := []; fret := TInt; fbody := SSeq (SLet false 1 TInt (ENum 20)) (SReturn (Some (call0 2))) |};
               {| fname := 0; fparams := []; fret := TInt; fbody := SReturn (Some (ENum 0)) |} ];
     pmain := 0 |}.
Definition sp81 : sprogram :=
  {| sp_prog := p81;
     sp_shadows := [ {| sh_fn := 2; sh_body := SAssert (eqz (call0 2) 10); sh_skip := false |};
                     {| sh_fn := 3; sh_body := SSeq (SPrint true (call0 3)) (SAssert (eqz (call0 3) 10)); sh_skip := false |};
                     {| sh_fn := 0; sh_body := SAssert (EBool true); sh_skip := false |} ] ; sp_imported := [] |}.
(* the other direction: an assertion that is false in the language passes at compile time *)
Definition sp81_unsound : sprogram :=
  {| sp_prog := p81;
     sp_shadows := [ {| sh_fn := 3; sh_body := SAssert (eqz (call0 3) 20); sh_skip := false |} ] ; sp_imported := [] |}.

(* a PARAMETER spelled like the constant:   fn h(x) { return (g) }   (h 5) is 10 *)
Definition p81p : program :=
  {| pglobals := [(1, TInt, ENum 10)];
     pfns := [ {| fname := 2; fparams := []; fret := TInt; fbody := SReturn (Some (EVar 1)) |};
               {| fname := 3; fparams := [(1, TInt)]; fret := TInt; fbody := SReturn (Some (call0 2)) |};
               {| fname := 0; fparams := []; fret := TInt; fbody := SReturn (Some (ENum 0)) |} ];
     pmain := 0 |}.
Definition sp81p : sprogram :=
  {| sp_prog := p81p;
     sp_shadows := [ {| sh_fn := 3; sh_body := SAssert (eqz (ECall 3 [ENum 5]) 10); sh_skip := false |} ] ; sp_imported := [] |}.

(* block exit:  fn blk(a) { let x = 1  if (> a 0) { let x = 2  (println x) }  (println x)  return x }   (blk 1) is 1 *)
Definition pblk : program :=
  {| pglobals := [];
     pfns := [ {| fname := 2; fparams := [(3, TInt)]; fret := TInt;
                  fbody := SSeq (SLet false 1 TInt (ENum 1))
                          (SSeq (SIf (EBin BGt (EVar 3) (ENum 0)) (SSeq (SLet false 1 TInt (ENum 2)) (SPrint true (EVar 1))) SSkip)
                          (SSeq (SPrint true (EVar 1)) (SReturn (Some (EVar 1))))) |};
               {| fname := 0; fparams := []; fret := TInt; fbody := SReturn (Some (ENum 0)) |} ];
     pmain := 0 |}.
Definition spblk : sprogram :=
  {| sp_prog := pblk;
     sp_shadows := [ {| sh_fn := 2; sh_body := SAssert (eqz (ECall 2 [ENum 1]) 1); sh_skip := false |} ] ; sp_imported := [] |}.

(* a program inside names_apart (hypotheses of interp_correct are satisfiable and not vacuous): recursion, a global read by a
   callee, a loop with a let in its body, a failing and a passing test *)
Definition pgood : program :=
  {| pglobals := [(1, TInt, ENum 7)];
     pfns := [ {| fname := 2; fparams := [(3, TInt)]; fret := TInt;
                  fbody := SSeq (SIf (EBin BLe (EVar 3) (ENum 0)) (SReturn (Some (EVar 1))) SSkip)
                                (SReturn (Some (EBin BAdd (ECall 2 [EBin BSub (EVar 3) (ENum 1)]) (EVar 3)))) |};
               {| fname := 4; fparams := [(5, TInt)]; fret := TInt;
                  fbody := SSeq (SLet true 6 TInt (ENum 0))
                          (SSeq (SFor 7 (ENum 0) (EVar 5) (SSeq (SLet false 8 TInt (ECall 2 [EVar 7])) (SSeq (SPrint true (EVar 8)) (SSet 6 (EBin BAdd (EVar 6) (EVar 8))))))
                                (SReturn (Some (EVar 6)))) |};
               {| fname := 0; fparams := []; fret := TInt; fbody := SReturn (Some (ENum 0)) |} ];
     pmain := 0 |}.
Definition spgood : sprogram :=
  {| sp_prog := pgood;
     sp_shadows := [ {| sh_fn := 2; sh_body := SSeq (SLet false 9 TInt (ECall 2 [ENum 3])) (SAssert (eqz (EVar 9) 13)); sh_skip := false |};
                     {| sh_fn := 4; sh_body := SAssert (eqz (ECall 4 [ENum 3]) 25); sh_skip := false |};
                     {| sh_fn := 0; sh_body := SAssert (EBool true); sh_skip := false |} ] ; sp_imported := [] |}.
(* several shadow blocks for one function: EVERY block runs, in source order, each reported under the function's name; the
   first holds the false assertion, the last passes.  Function 4 comes from an imported module: no block is asked for it *)
Definition spmulti : sprogram :=
  {| sp_prog := pgood;
     sp_shadows := [ {| sh_fn := 2; sh_body := SAssert (eqz (ECall 2 [ENum 3]) 14); sh_skip := false |};
                     {| sh_fn := 0; sh_body := SAssert (EBool true); sh_skip := false |};
                     {| sh_fn := 2; sh_body := SAssert (eqz (ECall 2 [ENum 0]) 7); sh_skip := false |} ];
     sp_imported := [4] |}.
Definition spgood_failing : sprogram :=
  {| sp_prog := pgood;
     sp_shadows := [ {| sh_fn := 2; sh_body := SAssert (eqz (ECall 2 [ENum 3]) 13); sh_skip := false |};
                     {| sh_fn := 4; sh_body := SFor 10 (ENum 0) (ENum 2) (SAssert (eqz (ECall 4 [ENum 3]) 26)); sh_skip := false |} ] ; sp_imported := [] |}.

(* ---- arrays ----
   fn f2(v3: int) -> int { (println v3)  return v3 }
   fn f4(v5: array<int>, v6: int) -> int { return (+ (at v5 v6) (array_length v5)) } *)
Definition parr : program :=
  {| pglobals := [(1, TArr, EArr [ENum 4; ENum 5])];
     pfns := [ {| fname := 2; fparams := [(3, TInt)]; fret := TInt; fbody := SSeq (SPrint true (EVar 3)) (SReturn (Some (EVar 3))) |};
               {| fname := 4; fparams := [(5, TArr); (6, TInt)]; fret := TInt;
                  fbody := SReturn (Some (EBin BAdd (EAt (EVar 5) (EVar 6)) (ELen (EVar 5)))) |};
               {| fname := 0; fparams := []; fret := TInt; fbody := SReturn (Some (ENum 0)) |} ];
     pmain := 0 |}.
(* inside names_apart; (f4 [7, (f2 8), 9] 1) = 8 + 3, (f4 v1 0) = 4 + 2 *)
Definition sparr_good : sprogram :=
  {| sp_prog := parr;
     sp_shadows := [ {| sh_fn := 4;
                        sh_body := SSeq (SLet false 7 TArr (EArr [ENum 7; ECall 2 [ENum 8]; ENum 9]))
                                  (SSeq (SPrint true (EVar 7))
                                  (SSeq (SAssert (eqz (ECall 4 [EVar 7; ENum 1]) 11))
                                        (SAssert (eqz (ECall 4 [EVar 1; ENum 0]) 6))));
                        sh_skip := false |} ] ; sp_imported := [] |}.
(* the FIRST element is a call that prints: before fix 38fa340 the evaluator evaluated it twice ("8" printed twice) and the
   program was outside names_apart; now it is inside and agrees (InterpRefuted.first_element_once_agrees) *)
Definition sparr_twice : sprogram :=
  {| sp_prog := parr;
     sp_shadows := [ {| sh_fn := 4;
                        sh_body := SSeq (SLet false 7 TArr (EArr [ECall 2 [ENum 8]; ENum 9]))
                                        (SAssert (eqz (ECall 4 [EVar 7; ENum 0]) 10));
                        sh_skip := false |} ] ; sp_imported := [] |}.
(* an index out of range inside a shadow test: nanoc itself ends there with exit status 1 *)
Definition sparr_oob : sprogram :=
  {| sp_prog := parr;
     sp_shadows := [ {| sh_fn := 4;
                        sh_body := SSeq (SPrint true (ENum 1)) (SAssert (eqz (ECall 4 [EVar 1; ENum 2]) 0));
                        sh_skip := false |} ] ; sp_imported := [] |}.

(* ---- strings as computed values ----
   let v1: string = "abc"
   fn f2(v3: string, v4: int) -> string { return (+ v3 (int_to_string v4)) }
   fn f4(v5: string) -> int { (println v5)  return (str_length v5) } *)
Definition s_abc : list N := [97; 98; 99].
Definition pstr : program :=
  {| pglobals := [(1, TStr, EStr s_abc)];
     pfns := [ {| fname := 2; fparams := [(3, TStr); (4, TInt)]; fret := TStr;
                  fbody := SReturn (Some (EStr2 SPlus (EVar 3) (EStr1 SOfInt (EVar 4)))) |};
               {| fname := 4; fparams := [(5, TStr)]; fret := TInt;
                  fbody := SSeq (SPrint true (EVar 5)) (SReturn (Some (EStr1 SLen (EVar 5)))) |};
               {| fname := 0; fparams := []; fret := TInt; fbody := SReturn (Some (ENum 0)) |} ];
     pmain := 0 |}.
(* inside names_apart: (f2 v1 -42) = "abc-42"; str_equals, str_concat through a printing call, str_contains, char_at,
   str_substring of a literal from a start inside it (length clamped) *)
Definition spstr_good : sprogram :=
  {| sp_prog := pstr;
     sp_shadows := [ {| sh_fn := 2;
                        sh_body := SSeq (SLet false 7 TStr (ECall 2 [EVar 1; ENum (-42)]))
                                  (SSeq (SPrint true (EVar 7))
                                  (SSeq (SAssert (EStr2 SEquals (EVar 7) (EStr [97; 98; 99; 45; 52; 50])))
                                  (SSeq (SAssert (eqz (ECall 4 [EStr2 SConcat (EVar 7) (EStr [33])]) 7))
                                  (SSeq (SAssert (EStr2 SContains (EVar 7) (EStr [99; 45])))
                                  (SSeq (SAssert (eqz (EStr2 SCharAt (EVar 7) (ENum 1)) 98))
                                        (SAssert (EBin BEq (ESubstr (EStr [104; 101; 108; 108; 111]) (ENum 1) (ENum 300)) (EStr [101; 108; 108; 111]))))))));
                        sh_skip := false |} ] ; sp_imported := [] |}.
(* str_substring with start = length of the string: the language (and both engines) yield "", the evaluator yields void and
   the test FAILS at compile time (finding c03:builtin:str_substring:start-at-or-past-the-end-is-void-in-the-evaluator) *)
Definition spstr_past_end : sprogram :=
  {| sp_prog := pstr;
     sp_shadows := [ {| sh_fn := 4;
                        sh_body := SAssert (EBin BEq (ESubstr (EVar 1) (ENum 3) (ENum 2)) (EStr []));
                        sh_skip := false |} ] ; sp_imported := [] |}.
(* char_at outside the string inside a shadow test: the reference is undefined there (FStrDomain: the engines disagree, finding
   lang:char-at-out-of-range), the evaluator yields void and the comparison with 0 fails *)
Definition spstr_char_at_outside : sprogram :=
  {| sp_prog := pstr;
     sp_shadows := [ {| sh_fn := 4; sh_body := SAssert (eqz (EStr2 SCharAt (EVar 1) (ENum 3)) 0); sh_skip := false |} ] ; sp_imported := [] |}.
