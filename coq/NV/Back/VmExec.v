(* Execution model of the NanoVM (src/nanovm/vm.c vm_core_execute + the trap harness) for the opcodes the
   core fragment compiles to.  The machine FETCHES FROM BYTES: decode table (skipn ip code), so it is the same
   machine the real VM is, and C11's decode_encode connects it to instruction lists.  Frames are structured
   (locals + operand stack) instead of one flat array; that is an abstraction the run correspondence checks.
   Arithmetic is 64-bit two's complement (what the hardware does for the C's signed +,-,*; INT64_MIN / -1 is a
   distinguished Signal outcome kept in the type for the proofs; the VM itself now wraps).  Definitions only. *)
From Coq Require Import ZArith NArith List Bool.
From NV Require Import Base.Bytes Isa.Codec gen.IsaTable Lang.Ast Back.VmCompile Back.IntFormat.
Import ListNotations.

Inductive mval := MInt (z : Z) | MBool (b : bool) | MVoid | MStr (s : list N) | MArr (l : list mval).

Record mframe := { mf_fn : nat; mf_ret : nat; mf_locals : list mval; mf_stack : list mval }.   (* stack: head = top *)
Record mstate := { ms_cur : mframe; ms_callers : list mframe; ms_ip : nat; ms_globals : list mval; ms_out : list N }.

Inductive merr := EType | EOob | EStack | ECallDepth | EAssert | EDecode | EUndefFn | EUnsupported.
Inductive mres :=
  | MNext (s : mstate)
  | MDone (out : list N) (v : mval) (globals : list mval)
  | MErr (e : merr) (out : list N)
  | MSignal (out : list N)            (* SIGFPE: INT64_MIN / -1 or % -1 *)
  | MFellOff (out : list N).          (* ip ran past the end of the function: the C loop exits with VM_OK *)

Definition VM_MAX_FRAMES_N : nat := 1024.
Definition VM_MAX_GLOBALS_N : nat := 4096.

Definition truthy (v : mval) : bool :=
  match v with MVoid => false | MInt z => negb (Z.eqb z 0) | MBool b => b | MStr _ => true | MArr _ => true end.

Fixpoint mval_print (fuel : nat) (v : mval) : list N :=
  match v with
  | MInt z => print_Z z
  | MBool b => print_bool b
  | MVoid => [118;111;105;100]%N
  | MStr s => s
  | MArr l =>
      match fuel with
      | O => []
      | S f =>
          [91%N] ++ (fix go (l : list mval) (first : bool) : list N :=
                       match l with [] => [] | x :: r => (if first then [] else [44;32]%N) ++ mval_print f x ++ go r false end) l true
          ++ [93%N]
      end
  end.

Definition val_equal (a b : mval) : bool :=
  match a, b with
  | MInt x, MInt y => Z.eqb x y
  | MBool x, MBool y => Bool.eqb x y
  | MVoid, MVoid => true
  | MStr x, MStr y => list_N_eqb x y
  | _, _ => false                       (* different tags: false; arrays compare by pointer: never equal here *)
  end.

Definition tag_of (v : mval) : Z := match v with MVoid => 0 | MInt _ => 1 | MBool _ => 4 | MStr _ => 5 | MArr _ => 7 end.
(* val_compare: <0, 0, >0 *)
Definition val_compare (a b : mval) : Z :=
  match a, b with
  | MInt x, MInt y => if Z.ltb x y then -1 else if Z.gtb x y then 1 else 0
  | MBool x, MBool y => (Z.b2z x - Z.b2z y)%Z
  | _, _ => if Z.eqb (tag_of a) (tag_of b) then 0 else (tag_of a - tag_of b)%Z
  end.

(* ---- strings (src/nanovm/heap.c vm_string_ functions, vm.c OP_STR_ opcodes).  A VmString is length-prefixed; its bytes never contain NUL here
   (literals are cut at the first NUL by the compiler, no operation below creates one), so strlen, used by STR_CHAR_AT and
   strstr, sees the whole string. *)
Definition u32 (z : Z) : Z := z mod 4294967296.                 (* (uint32_t) of an int64 *)
Definition int_of (v : mval) : Z := match v with MInt z => z | _ => 0%Z end.      (* v.tag == TAG_INT ? v.as.i64 : 0 *)
(* vm_string_substr(s, start, len) with both operands narrowed to 32 bits first *)
Definition vm_substr (s : list N) (start len : Z) : list N :=
  let n := Z.of_nat (length s) in
  let st := u32 start in let ln := u32 len in
  if (n <=? st)%Z then [] else firstn (Z.to_nat (Z.min ln (n - st))) (skipn (Z.to_nat st) s).
(* STR_CHAR_AT: the byte, or -1 outside 0 <= idx < length *)
Definition vm_char_at (s : list N) (idx : Z) : Z :=
  if ((0 <=? idx) && (idx <? Z.of_nat (length s)))%Z then Z.of_N (nth (Z.to_nat idx) s 0%N mod 256) else (-1)%Z.

Definition set_nth {A} (n : nat) (v : A) (l : list A) : list A := firstn n l ++ v :: skipn (S n) l.

Section Exec.
Variable M : vmodule.

Definition fentry_at (i : nat) : option fentry := nth_error (m_fns M) i.

Definition push (s : mstate) (v : mval) : mstate :=
  {| ms_cur := {| mf_fn := mf_fn (ms_cur s); mf_ret := mf_ret (ms_cur s); mf_locals := mf_locals (ms_cur s);
                  mf_stack := v :: mf_stack (ms_cur s) |};
     ms_callers := ms_callers s; ms_ip := ms_ip s; ms_globals := ms_globals s; ms_out := ms_out s |}.
Definition with_stack (s : mstate) (st : list mval) : mstate :=
  {| ms_cur := {| mf_fn := mf_fn (ms_cur s); mf_ret := mf_ret (ms_cur s); mf_locals := mf_locals (ms_cur s); mf_stack := st |};
     ms_callers := ms_callers s; ms_ip := ms_ip s; ms_globals := ms_globals s; ms_out := ms_out s |}.
Definition with_locals (s : mstate) (ls : list mval) (st : list mval) : mstate :=
  {| ms_cur := {| mf_fn := mf_fn (ms_cur s); mf_ret := mf_ret (ms_cur s); mf_locals := ls; mf_stack := st |};
     ms_callers := ms_callers s; ms_ip := ms_ip s; ms_globals := ms_globals s; ms_out := ms_out s |}.
Definition with_ip (s : mstate) (ip : nat) : mstate :=
  {| ms_cur := ms_cur s; ms_callers := ms_callers s; ms_ip := ip; ms_globals := ms_globals s; ms_out := ms_out s |}.
Definition with_out (s : mstate) (o : list N) : mstate :=
  {| ms_cur := ms_cur s; ms_callers := ms_callers s; ms_ip := ms_ip s; ms_globals := ms_globals s; ms_out := o |}.
Definition with_globals (s : mstate) (g : list mval) : mstate :=
  {| ms_cur := ms_cur s; ms_callers := ms_callers s; ms_ip := ms_ip s; ms_globals := g; ms_out := ms_out s |}.

Definition arith (o : N) (x y : Z) : option Z :=      (* None = fatal signal *)
  if N.eqb o OP_ADD then Some (wrap64 (x + y))
  else if N.eqb o OP_SUB then Some (wrap64 (x - y))
  else if N.eqb o OP_MUL then Some (wrap64 (x * y))
  else if N.eqb o OP_DIV then
    (* vm_i64_div: x / 0 = 0, INT64_MIN / -1 wraps (quotient INT64_MIN) *)
    (if Z.eqb y 0 then Some 0%Z else if Z.eqb x (-9223372036854775808) && Z.eqb y (-1) then Some (-9223372036854775808)%Z
     else Some (Z.quot x y))           (* for every other int64 x, x / -1 = -x = Z.quot x (-1) *)
  else (* OP_MOD: vm_i64_mod: x % 0 = 0, x % -1 = 0 = Z.rem x (-1) *)
    (if Z.eqb y 0 then Some 0%Z else if Z.eqb x (-9223372036854775808) && Z.eqb y (-1) then Some 0%Z else Some (Z.rem x y)).

Definition jump_target (start : nat) (rel : N) : nat := Z.to_nat (Z.of_nat start + to_signed 32 rel).

Definition step (s : mstate) : mres :=
  let f := ms_cur s in
  match fentry_at (mf_fn f) with
  | None => MErr EUndefFn (ms_out s)
  | Some fe =>
    let code_end := (fe_off fe + fe_len fe)%nat in
    if Nat.leb code_end (ms_ip s) then MFellOff (ms_out s) else
    match decode table (firstn (code_end - ms_ip s) (skipn (ms_ip s) (m_code M))) with
    | None => MErr EDecode (ms_out s)
    | Some (i, n) =>
      let start := ms_ip s in
      let s1 := with_ip s (start + n) in
      let st := mf_stack f in
      let o := op i in
      if N.eqb o OP_NOP then MNext s1
      else if N.eqb o OP_PUSH_I64 then
        match args i with [v] => MNext (push s1 (MInt (to_signed 64 v))) | _ => MErr EDecode (ms_out s) end
      else if N.eqb o OP_PUSH_BOOL then
        match args i with [v] => MNext (push s1 (MBool (negb (N.eqb v 0)))) | _ => MErr EDecode (ms_out s) end
      else if N.eqb o OP_PUSH_STR then
        match args i with
        | [v] => MNext (push s1 (MStr (match nth_error (m_strings M) (N.to_nat v) with Some t => t | None => [] end)))
        | _ => MErr EDecode (ms_out s) end
      else if N.eqb o OP_PUSH_VOID then MNext (push s1 MVoid)
      else if N.eqb o OP_POP then
        match st with _ :: r => MNext (with_stack s1 r) | [] => MErr EStack (ms_out s) end
      else if N.eqb o OP_DUP then
        match st with v :: r => MNext (with_stack s1 (v :: v :: r)) | [] => MErr EStack (ms_out s) end
      else if N.eqb o OP_LOAD_LOCAL then
        match args i with
        | [k] => match nth_error (mf_locals f) (N.to_nat k) with
                 | Some v => MNext (push s1 v)
                 | None => MErr EOob (ms_out s) end
        | _ => MErr EDecode (ms_out s) end
      else if N.eqb o OP_STORE_LOCAL then
        match args i, st with
        | [k], v :: r =>
            if Nat.ltb (N.to_nat k) (length (mf_locals f)) then MNext (with_locals s1 (set_nth (N.to_nat k) v (mf_locals f)) r)
            else MErr EOob (ms_out s)
        | [_], [] => MErr EStack (ms_out s)
        | _, _ => MErr EDecode (ms_out s) end
      else if N.eqb o OP_LOAD_GLOBAL then
        match args i with
        | [k] => if Nat.leb VM_MAX_GLOBALS_N (N.to_nat k) then MErr EOob (ms_out s)
                 else MNext (push s1 (nth (N.to_nat k) (ms_globals s) MVoid))
        | _ => MErr EDecode (ms_out s) end
      else if N.eqb o OP_STORE_GLOBAL then
        match args i, st with
        | [k], v :: r =>
            if Nat.leb VM_MAX_GLOBALS_N (N.to_nat k) then MErr EOob (ms_out s)
            else let g := ms_globals s in
                 let g' := if Nat.ltb (N.to_nat k) (length g) then g else g ++ repeat MVoid (S (N.to_nat k) - length g) in
                 MNext (with_globals (with_stack s1 r) (set_nth (N.to_nat k) v g'))
        | [_], [] => MErr EStack (ms_out s)
        | _, _ => MErr EDecode (ms_out s) end
      else if N.eqb o OP_ADD || N.eqb o OP_SUB || N.eqb o OP_MUL || N.eqb o OP_DIV || N.eqb o OP_MOD then
        match st with
        | MInt y :: MInt x :: r =>
            match arith o x y with Some z => MNext (with_stack s1 (MInt z :: r)) | None => MSignal (ms_out s) end
        | MStr y :: MStr x :: r =>
            (* ADD on two strings concatenates (vm_string_concat); the other arithmetic opcodes refuse strings *)
            if N.eqb o OP_ADD then MNext (with_stack s1 (MStr (x ++ y) :: r)) else MErr EType (ms_out s)
        | _ :: _ :: _ => MErr EType (ms_out s)
        | _ => MErr EStack (ms_out s) end
      else if N.eqb o OP_NEG then
        match st with
        | MInt x :: r => MNext (with_stack s1 (MInt (wrap64 (- x)) :: r))
        | _ :: _ => MErr EType (ms_out s)
        | [] => MErr EStack (ms_out s) end
      else if N.eqb o OP_EQ || N.eqb o OP_NE then
        match st with
        | y :: x :: r => MNext (with_stack s1 (MBool (if N.eqb o OP_EQ then val_equal x y else negb (val_equal x y)) :: r))
        | _ => MErr EStack (ms_out s) end
      else if N.eqb o OP_LT || N.eqb o OP_LE || N.eqb o OP_GT || N.eqb o OP_GE then
        match st with
        | y :: x :: r =>
            let c := val_compare x y in
            let b := if N.eqb o OP_LT then Z.ltb c 0 else if N.eqb o OP_LE then Z.leb c 0
                     else if N.eqb o OP_GT then Z.gtb c 0 else Z.geb c 0 in
            MNext (with_stack s1 (MBool b :: r))
        | _ => MErr EStack (ms_out s) end
      else if N.eqb o OP_AND || N.eqb o OP_OR then
        match st with
        | y :: x :: r => MNext (with_stack s1 (MBool (if N.eqb o OP_AND then truthy x && truthy y else truthy x || truthy y) :: r))
        | _ => MErr EStack (ms_out s) end
      else if N.eqb o OP_NOT then
        match st with x :: r => MNext (with_stack s1 (MBool (negb (truthy x)) :: r)) | [] => MErr EStack (ms_out s) end
      else if N.eqb o OP_JMP then
        match args i with [rel] => MNext (with_ip s1 (jump_target start rel)) | _ => MErr EDecode (ms_out s) end
      else if N.eqb o OP_JMP_FALSE || N.eqb o OP_JMP_TRUE then
        match args i, st with
        | [rel], c :: r =>
            let take := if N.eqb o OP_JMP_FALSE then negb (truthy c) else truthy c in
            MNext (with_stack (if take then with_ip s1 (jump_target start rel) else s1) r)
        | [_], [] => MErr EStack (ms_out s)
        | _, _ => MErr EDecode (ms_out s) end
      else if N.eqb o OP_CALL then
        match args i with
        | [k] =>
            match fentry_at (N.to_nat k) with
            | None => MErr EUndefFn (ms_out s)
            | Some ce =>
                if Nat.leb VM_MAX_FRAMES_N (S (length (ms_callers s))) then MErr ECallDepth (ms_out s)
                else if Nat.ltb (length st) (fe_arity ce) then MErr EStack (ms_out s)
                else
                  let argv := rev (firstn (fe_arity ce) st) in
                  let caller := {| mf_fn := mf_fn f; mf_ret := mf_ret f; mf_locals := mf_locals f; mf_stack := skipn (fe_arity ce) st |} in
                  MNext {| ms_cur := {| mf_fn := N.to_nat k; mf_ret := (start + n)%nat;
                                        mf_locals := argv ++ repeat MVoid (fe_locals ce - fe_arity ce); mf_stack := [] |};
                           ms_callers := caller :: ms_callers s; ms_ip := fe_off ce;
                           ms_globals := ms_globals s; ms_out := ms_out s |}
            end
        | _ => MErr EDecode (ms_out s) end
      else if N.eqb o OP_RET then
        let result := match st with v :: _ => v | [] => MVoid end in
        match ms_callers s with
        | [] => MDone (ms_out s) result (ms_globals s)
        | c :: cs =>
            MNext {| ms_cur := {| mf_fn := mf_fn c; mf_ret := mf_ret c; mf_locals := mf_locals c; mf_stack := result :: mf_stack c |};
                     ms_callers := cs; ms_ip := mf_ret f; ms_globals := ms_globals s; ms_out := ms_out s |}
        end
      else if N.eqb o OP_PRINT || N.eqb o OP_PRINTLN then
        match st with
        | v :: r => MNext (with_out (with_stack s1 r) (ms_out s ++ mval_print 8 v ++ (if N.eqb o OP_PRINTLN then [10%N] else [])))
        | [] => MErr EStack (ms_out s) end
      else if N.eqb o OP_ASSERT then
        match st with
        | v :: r => if truthy v then MNext (with_stack s1 r) else MErr EAssert (ms_out s)
        | [] => MErr EStack (ms_out s) end
      else if N.eqb o OP_ARR_NEW then MNext (push s1 (MArr []))
      else if N.eqb o OP_ARR_PUSH then
        match st with
        | v :: MArr l :: r => MNext (with_stack s1 (MArr (l ++ [v]) :: r))
        | _ :: _ :: _ => MErr EType (ms_out s)
        | _ => MErr EStack (ms_out s) end
      else if N.eqb o OP_ARR_LEN then
        match st with
        | MArr l :: r => MNext (with_stack s1 (MInt (Z.of_nat (length l)) :: r))
        | _ :: _ => MErr EType (ms_out s)
        | [] => MErr EStack (ms_out s) end
      else if N.eqb o OP_ARR_GET then
        match st with
        | MInt k :: MArr l :: r =>
            (* the 64-bit index is range-checked before it is narrowed; out of range stops the run *)
            if (Z.leb 0 k && Z.ltb k (Z.of_nat (length l)))%bool then MNext (with_stack s1 (nth (Z.to_nat k) l MVoid :: r))
            else MErr EOob (ms_out s)
        | _ :: _ :: _ => MErr EType (ms_out s)
        | _ => MErr EStack (ms_out s) end
      else if N.eqb o OP_ARR_LITERAL then
        (* operands: element tag, count; the count topmost values become the array, oldest first *)
        match args i with
        | [_; cnt] =>
            let c := N.to_nat cnt in
            if Nat.ltb (length st) c then MErr EStack (ms_out s)
            else MNext (with_stack s1 (MArr (rev (firstn c st)) :: skipn c st))
        | _ => MErr EDecode (ms_out s) end
      else if N.eqb o OP_STR_LEN then
        match st with
        | MStr x :: r => MNext (with_stack s1 (MInt (Z.of_nat (length x)) :: r))
        | _ :: _ => MErr EType (ms_out s)
        | [] => MErr EStack (ms_out s) end
      else if N.eqb o OP_STR_CONCAT then
        match st with
        | MStr y :: MStr x :: r => MNext (with_stack s1 (MStr (x ++ y) :: r))
        | _ :: _ :: _ => MErr EType (ms_out s)
        | _ => MErr EStack (ms_out s) end
      else if N.eqb o OP_STR_CONTAINS then
        match st with
        | MStr needle :: MStr hay :: r => MNext (with_stack s1 (MBool (containsb hay needle) :: r))
        | _ :: _ :: _ => MErr EType (ms_out s)
        | _ => MErr EStack (ms_out s) end
      else if N.eqb o OP_STR_EQ then
        match st with
        | MStr y :: MStr x :: r => MNext (with_stack s1 (MBool (list_N_eqb x y) :: r))
        | _ :: _ :: _ => MErr EType (ms_out s)
        | _ => MErr EStack (ms_out s) end
      else if N.eqb o OP_STR_CHAR_AT then
        match st with
        | idx :: MStr x :: r => MNext (with_stack s1 (MInt (vm_char_at x (int_of idx)) :: r))
        | _ :: _ :: _ => MErr EType (ms_out s)
        | _ => MErr EStack (ms_out s) end
      else if N.eqb o OP_STR_SUBSTR then
        match st with
        | len :: start :: MStr x :: r => MNext (with_stack s1 (MStr (vm_substr x (int_of start) (int_of len)) :: r))
        | _ :: _ :: _ :: _ => MErr EType (ms_out s)
        | _ => MErr EStack (ms_out s) end
      else if N.eqb o OP_CAST_STRING then
        (* int_to_string / to_string: a string stays, an int is formatted by vm_string_from_int (Back/IntFormat: None = the
           text does not fit the buffer, not modelled), a bool becomes true / false, anything else the empty string *)
        match st with
        | MStr x :: r => MNext (with_stack s1 (MStr x :: r))
        | MInt z :: r => match vm_int_to_string z with
                         | Some t => MNext (with_stack s1 (MStr t :: r))
                         | None => MErr EUnsupported (ms_out s) end
        | MBool b :: r => MNext (with_stack s1 (MStr (print_bool b) :: r))
        | _ :: r => MNext (with_stack s1 (MStr [] :: r))
        | [] => MErr EStack (ms_out s) end
      else MErr EUnsupported (ms_out s)
    end
  end.

Fixpoint run_steps (fuel : nat) (s : mstate) : option mres :=
  match fuel with
  | O => None
  | S f => match step s with MNext s' => run_steps f s' | r => Some r end
  end.

Definition init_state (fn_idx : nat) (globals : list mval) (out : list N) : option mstate :=
  match fentry_at fn_idx with
  | Some fe => Some {| ms_cur := {| mf_fn := fn_idx; mf_ret := 0; mf_locals := repeat MVoid (fe_locals fe); mf_stack := [] |};
                       ms_callers := []; ms_ip := fe_off fe; ms_globals := globals; ms_out := out |}
  | None => None end.

End Exec.

Inductive vm_outcome :=
  | VDone (out : list N) (exit : Z)      (* nano_virt --run: exit status = main's int result mod 256 *)
  | VError (e : merr) (out : list N)     (* "runtime error: ..." exit 1 *)
  | VSignal (out : list N)
  | VFellOff (out : list N)
  | VOutOfFuel
  | VBad.

(* vm_execute: run __init__ first when the module has globals (it is the last function entry), then main *)
Definition run_vm (fuel : nat) (M : vmodule) : vm_outcome :=
  let run_main (globals : list mval) (out : list N) :=
    match init_state M (m_entry M) globals out with
    | None => VBad
    | Some s0 =>
        match run_steps M fuel s0 with
        | None => VOutOfFuel
        | Some (MDone out (MInt z) _) => VDone out (z mod 256)
        | Some (MDone out _ _) => VDone out 0
        | Some (MErr e out) => VError e out
        | Some (MSignal out) => VSignal out
        | Some (MFellOff out) => VFellOff out
        | Some (MNext _) => VBad
        end
    end in
  if Nat.eqb (m_nglobals M) 0 then run_main [] []
  else
    match init_state M (length (m_fns M) - 1) [] [] with
    | None => VBad
    | Some s0 =>
        match run_steps M fuel s0 with
        | None => VOutOfFuel
        | Some (MDone out _ g) => run_main g out
        | Some (MErr e out) => VError e out
        | Some (MSignal out) => VSignal out
        | Some (MFellOff out) => VFellOff out
        | Some (MNext _) => VBad
        end
    end.
