(* What the reference type checker guarantees about the two back-end MODELS:
   - native (NatSem with left-to-right arguments) never gets stuck on an accepted program;
   - the bytecode compiler model (VmCompile) resolves every name, call and loop context of an accepted program. *)
From Coq Require Import ZArith NArith List Bool Lia.
From NV Require Import Base.Bytes Isa.Codec gen.IsaTable Lang.Ast Lang.Ref Lang.Types Lang.TypeSound Lang.MutateProofs
                       Back.VmCompile Back.NatSem Back.Agree.
Import ListNotations.

Theorem native_not_stuck : forall p, wt p = true -> cc_refuses p = false ->
  forall fuel, run_nat LtoR fuel p <> NStuckO /\ run_nat LtoR fuel p <> NCcFailO.
Proof.
  intros p Hwt Hcc fuel. pose proof (nat_ltor_is_ref fuel p Hcc) as E. pose proof (wt_sound p Hwt fuel) as S.
  split; intros H; rewrite H in E; simpl in E; apply S; symmetry; exact E.
Qed.

(* ------------------------------------------------------------------ names resolve *)
Definition genv_of (p : program) : genv :=
  {| g_globals := map (fun g => fst (fst g)) (pglobals p); g_fns := map fname (pfns p) |}.

Lemma cfind_from_some x : forall l i a, cfind_from x l i (Some a) <> None.
Proof. induction l as [|y r IH]; intros i a; simpl; [discriminate|]. destruct (N.eqb x y); apply IH. Qed.
Lemma cfind_from_in x : forall l i acc, In x l -> cfind_from x l i acc <> None.
Proof.
  induction l as [|y r IH]; intros i acc H; simpl; [contradiction|]. destruct H as [->|H].
  - rewrite N.eqb_refl. apply cfind_from_some.
  - apply IH, H.
Qed.
Lemma cfind_in x ce : In x ce -> cfind x ce <> None.
Proof. apply cfind_from_in. Qed.
Lemma index_of_in x : forall l i, In x l -> index_of x l i <> None.
Proof.
  induction l as [|y r IH]; intros i H; simpl; [contradiction|].
  destruct (N.eqb x y) eqn:Q; [discriminate|]. destruct H as [->|H]; [rewrite N.eqb_refl in Q; discriminate|]. apply IH, H.
Qed.

Lemma tlookup_in x (L : tenv) : tlookup x L <> None -> In x (map fst L).
Proof.
  induction L as [|[y b] r IH]; simpl; [congruence|]. destruct (N.eqb x y) eqn:Q.
  - apply N.eqb_eq in Q. auto.
  - intros H. right. apply IH, H.
Qed.
Lemma slookup_in f (F : sigs) : slookup f F <> None -> In f (map fst F).
Proof.
  induction F as [|[g s] r IH]; simpl; [congruence|]. destruct (N.eqb f g) eqn:Q.
  - apply N.eqb_eq in Q. auto.
  - intros H. right. apply IH, H.
Qed.

Section Resolve.
Variable F : sigs.
Variable G : tenv.
Variable Gc : genv.
Hypothesis HGc : forall x, tlookup x G <> None -> In x (g_globals Gc).
Hypothesis HFc : forall f, slookup f F <> None -> In f (g_fns Gc).

Definition Inv (L : tenv) (ce : cenv) : Prop := forall x, tlookup x L <> None -> In x ce.

Lemma inv_more L ce ext : Inv L ce -> Inv L (ce ++ ext).
Proof. intros H x Hx. apply in_or_app. left. apply H, Hx. Qed.
Lemma inv_cons L ce x m t ext : Inv L ce -> Inv ((x, (m, t)) :: L) (ce ++ ext ++ [x]).
Proof.
  intros H y Hy. simpl in Hy. destruct (N.eqb y x) eqn:Q.
  - apply N.eqb_eq in Q. subst. apply in_or_app. right. apply in_or_app. right. left. reflexivity.
  - apply in_or_app. left. apply H, Hy.
Qed.

Lemma compile_expr_ok : forall e L ce t pool, Inv L ce -> ty_expr F G L e = Some t ->
  compile_expr Gc ce e pool <> None.
Proof.
  induction e as [z|b0|s0|x|o a IHa|o a b IHa IHb|f args IHargs|c a b IHc IHa IHb|es IHes|a i IHa IHi|a IHa|so a IHa|so a b IHa IHb|a b c0 IHa IHb IHc] using MutateProofs.expr_ind2;
    intros L ce t pool HI Ht; simpl.
  - discriminate.
  - discriminate.
  - destruct (pool_add (unescape s0) pool). discriminate.
  - simpl in Ht. destruct (cfind x ce) eqn:Ec; [discriminate|].
    destruct (tlookup x L) as [[m t1]|] eqn:El.
    + exfalso. apply (cfind_in x ce); [apply HI; congruence|exact Ec].
    + destruct (tlookup x G) as [[m t1]|] eqn:Eg; [|discriminate].
      destruct (index_of x (g_globals Gc) 0) eqn:Ei; [discriminate|].
      exfalso. apply (index_of_in x (g_globals Gc) 0); [apply HGc; congruence|exact Ei].
  - simpl in Ht. destruct (ty_expr F G L a) as [ta|] eqn:Ea; [|discriminate].
    pose proof (IHa L ce ta pool HI Ea). destruct (compile_expr Gc ce a pool) as [[ca p1]|]; [discriminate|contradiction].
  - simpl in Ht. destruct (ty_expr F G L a) as [ta|] eqn:Ea; [|discriminate].
    destruct (ty_expr F G L b) as [tb|] eqn:Eb; [|discriminate].
    pose proof (IHa L ce ta pool HI Ea). destruct (compile_expr Gc ce a pool) as [[ca p1]|]; [|contradiction].
    pose proof (IHb L ce tb p1 HI Eb). destruct (compile_expr Gc ce b p1) as [[cb p2]|]; [|contradiction].
    destruct o; discriminate.
  - rewrite ty_expr_call in Ht. destruct (slookup f F) as [[ps r]|] eqn:Es; [|discriminate].
    destruct (args_ok F G L args ps) eqn:Ea; [|discriminate]. apply args_ok_spec in Ea.
    match goal with |- match ?g with _ => _ end <> None => assert (HA : g <> None) end.
    { clear Es Ht. generalize pool. induction Ea as [|a0 p0 l ps' Hap Hrest IH]; intros pool0; [discriminate|].
      inversion IHargs as [|a1 l1 Ha1 Hl1]; subst.
      pose proof (Ha1 L ce p0 pool0 HI Hap). destruct (compile_expr Gc ce a0 pool0) as [[ca p1]|]; [|contradiction].
      pose proof (IH Hl1 p1) as Hr.
      match goal with |- match ?g with _ => _ end <> None => destruct g as [[cr p2]|]; [discriminate|contradiction] end. }
    match goal with |- match ?g with _ => _ end <> None => destruct g as [[cargs p1]|]; [|contradiction] end.
    destruct (index_of f (g_fns Gc) 0) eqn:Ei; [discriminate|].
    exfalso. apply (index_of_in f (g_fns Gc) 0); [apply HFc; congruence|exact Ei].
  - simpl in Ht. destruct (ty_expr F G L c) as [tc|] eqn:Ec; [|discriminate]. destruct tc; try discriminate.
    destruct (ty_expr F G L a) as [ta|] eqn:Ea; [|discriminate].
    destruct (ty_expr F G L b) as [tb|] eqn:Eb; [|discriminate].
    pose proof (IHc L ce _ pool HI Ec). destruct (compile_expr Gc ce c pool) as [[cc p1]|]; [|contradiction].
    pose proof (IHa L ce _ p1 HI Ea). destruct (compile_expr Gc ce a p1) as [[ca p2]|]; [|contradiction].
    pose proof (IHb L ce _ p2 HI Eb). destruct (compile_expr Gc ce b p2) as [[cb p3]|]; [|contradiction].
    discriminate.
  - (* array literal *)
    rewrite ty_expr_arr in Ht. destruct (elems_ok F G L es) eqn:Ea; [|discriminate]. apply elems_ok_spec in Ea.
    match goal with |- match ?g with _ => _ end <> None => assert (HA : g <> None) end.
    { clear Ht. generalize pool. induction Ea as [|a0 l Hap Hrest IH]; intros pool0; [discriminate|].
      inversion IHes as [|a1 l1 Ha1 Hl1]; subst.
      pose proof (Ha1 L ce TInt pool0 HI Hap). destruct (compile_expr Gc ce a0 pool0) as [[ca p1]|]; [|contradiction].
      pose proof (IH Hl1 p1) as Hr.
      match goal with |- match ?g with _ => _ end <> None => destruct g as [[cr p2]|]; [discriminate|contradiction] end. }
    match goal with |- match ?g with _ => _ end <> None => destruct g as [[cel p1]|]; [discriminate|contradiction] end.
  - (* at *)
    simpl in Ht. destruct (ty_expr F G L a) as [ta|] eqn:Ea; [|discriminate].
    destruct (ty_expr F G L i) as [ti|] eqn:Ei; [|destruct ta; discriminate].
    pose proof (IHa L ce ta pool HI Ea). destruct (compile_expr Gc ce a pool) as [[ca p1]|]; [|contradiction].
    pose proof (IHi L ce ti p1 HI Ei). destruct (compile_expr Gc ce i p1) as [[ci p2]|]; [discriminate|contradiction].
  - (* array_length *)
    simpl in Ht. destruct (ty_expr F G L a) as [ta|] eqn:Ea; [|discriminate].
    pose proof (IHa L ce ta pool HI Ea). destruct (compile_expr Gc ce a pool) as [[ca p1]|]; [discriminate|contradiction].
  - (* unary string builtin *)
    simpl in Ht. destruct (ty_expr F G L a) as [ta|] eqn:Ea; [|discriminate].
    pose proof (IHa L ce ta pool HI Ea). destruct (compile_expr Gc ce a pool) as [[ca p1]|]; [discriminate|contradiction].
  - (* binary string builtin *)
    simpl in Ht. destruct (ty_expr F G L a) as [ta|] eqn:Ea; [|discriminate].
    destruct (ty_expr F G L b) as [tb|] eqn:Eb; [|discriminate].
    pose proof (IHa L ce ta pool HI Ea). destruct (compile_expr Gc ce a pool) as [[ca p1]|]; [|contradiction].
    pose proof (IHb L ce tb p1 HI Eb). destruct (compile_expr Gc ce b p1) as [[cb p2]|]; [discriminate|contradiction].
  - (* str_substring *)
    simpl in Ht. destruct (ty_expr F G L a) as [ta|] eqn:Ea; [|discriminate].
    destruct (ty_expr F G L b) as [tb|] eqn:Eb; [|destruct ta; discriminate].
    destruct (ty_expr F G L c0) as [tc|] eqn:Ec; [|destruct ta, tb; discriminate].
    pose proof (IHa L ce ta pool HI Ea). destruct (compile_expr Gc ce a pool) as [[ca p1]|]; [|contradiction].
    pose proof (IHb L ce tb p1 HI Eb). destruct (compile_expr Gc ce b p1) as [[cb p2]|]; [|contradiction].
    pose proof (IHc L ce tc p2 HI Ec). destruct (compile_expr Gc ce c0 p2) as [[cc p3]|]; [discriminate|contradiction].
Qed.

Lemma expr_has_ok L ce e t pool : Inv L ce -> expr_has F G L e t = true -> exists c p1, compile_expr Gc ce e pool = Some (c, p1).
Proof.
  intros HI H. apply expr_has_spec in H. pose proof (compile_expr_ok e L ce t pool HI H).
  destruct (compile_expr Gc ce e pool) as [[c p1]|]; [eauto|contradiction].
Qed.

Lemma hide_from_ext (ce ext : cenv) : hide_from (length ce) (ce ++ ext) = ce ++ repeat HIDDEN (length ext).
Proof.
  unfold hide_from. rewrite firstn_app, firstn_all, Nat.sub_diag. simpl. rewrite app_nil_r, app_length.
  replace (length ce + length ext - length ce)%nat with (length ext) by lia. reflexivity.
Qed.

Definition stmt_ok (s : stmt) := forall ret inl L L' pos Lc ce pool,
  wt_stmt F G ret inl L s = Some L' -> Inv L ce -> (inl = true -> Lc <> None) ->
  exists c ext pool', compile_stmt Gc pos Lc ce s pool = Some (c, ce ++ ext, pool') /\ Inv L' (ce ++ ext).

Lemma compile_stmt_ok : forall s, stmt_ok s.
Proof.
  induction s; intros ret inl L L' pos Lc ce pool Hw HI HL; simpl in Hw |- *.
  - injection Hw as <-. exists [], [], pool. rewrite app_nil_r. auto.
  - destruct (wt_stmt F G ret inl L s1) as [L1|] eqn:E1; [|discriminate].
    destruct (IHs1 _ _ _ _ pos Lc ce pool E1 HI HL) as [c1 [x1 [p1 [C1 I1]]]]. rewrite C1.
    destruct (IHs2 _ _ _ _ (pos + csize c1)%nat Lc (ce ++ x1) p1 Hw I1 HL) as [c2 [x2 [p2 [C2 I2]]]]. rewrite C2.
    exists (c1 ++ c2), (x1 ++ x2), p2. rewrite app_assoc. auto.
  - destruct (expr_has F G L e t && negb (is_void t)) eqn:Q; [|discriminate]. injection Hw as <-.
    apply andb_true_iff in Q. destruct Q as [Q _].
    destruct (expr_has_ok _ _ _ _ pool HI Q) as [c [p1 C]]. rewrite C.
    eexists _, [x], p1. split; [reflexivity|]. apply (inv_cons L ce x mut t [] HI).
  - destruct (tlookup x L) as [[[|] t]|] eqn:El; try discriminate.
    destruct (expr_has F G L e t) eqn:Q; [|discriminate]. injection Hw as <-.
    destruct (expr_has_ok _ _ _ _ pool HI Q) as [c [p1 C]].
    destruct (cfind x ce) eqn:Ec.
    + rewrite C. eexists _, [], p1. rewrite app_nil_r. auto.
    + exfalso. apply (cfind_in x ce); [apply HI; congruence|exact Ec].
  - destruct (expr_has F G L c TBool) eqn:Q; [|discriminate].
    destruct (wt_stmt F G ret inl L s1) as [L1|] eqn:E1; [|discriminate].
    destruct (wt_stmt F G ret inl L s2) as [L2|] eqn:E2; [|discriminate]. injection Hw as <-.
    destruct (expr_has_ok _ _ _ _ pool HI Q) as [cc [p1 C]]. rewrite C.
    destruct (IHs1 _ _ _ _ (pos + csize cc + 5)%nat Lc ce p1 E1 HI HL) as [c1 [x1 [p2 [C1 _]]]]. rewrite C1.
    rewrite hide_from_ext.
    assert (I1 : Inv L (ce ++ repeat HIDDEN (length x1))) by (apply inv_more, HI).
    destruct (IHs2 _ _ _ _ (pos + csize cc + 5 + csize c1 + 5)%nat Lc (ce ++ repeat HIDDEN (length x1)) p2 E2 I1 HL) as [c2 [x2 [p3 [C2 _]]]].
    destruct s2; try (rewrite C2, hide_from_ext; eexists _, (repeat HIDDEN (length x1) ++ repeat HIDDEN (length x2)), p3;
                      rewrite app_assoc; split; [reflexivity|]; rewrite <- app_assoc; apply inv_more, HI).
    eexists _, (repeat HIDDEN (length x1)), p2. split; [reflexivity|exact I1].
  - destruct (expr_has F G L c TBool) eqn:Q; [|discriminate].
    destruct (wt_stmt F G ret true L s) as [Lb|] eqn:Eb; [|discriminate]. injection Hw as <-.
    destruct (expr_has_ok _ _ _ _ pool HI Q) as [cc [p1 C]]. rewrite C.
    destruct (IHs _ _ _ _ (pos + csize cc + 5)%nat (Some {| l_top := pos; l_end := 0 |}) ce p1 Eb HI (fun _ => ltac:(discriminate)))
      as [c0 [x0 [q0 [C0 _]]]]. rewrite C0.
    destruct (IHs _ _ _ _ (pos + csize cc + 5)%nat (Some {| l_top := pos; l_end := (pos + csize cc + 5 + csize c0 + 5)%nat |}) ce p1 Eb HI
                (fun _ => ltac:(discriminate))) as [c1 [x1 [q1 [C1 _]]]]. rewrite C1.
    rewrite hide_from_ext. eexists _, _, q1. split; [reflexivity|]. apply inv_more, HI.
  - destruct (expr_has F G L lo TInt && expr_has F G L hi TInt) eqn:Q; [|discriminate].
    apply andb_true_iff in Q. destruct Q as [Q1 Q2].
    destruct (wt_stmt F G ret true ((x, (false, TInt)) :: L) s) as [Lb|] eqn:Eb; [|discriminate]. injection Hw as <-.
    destruct (expr_has_ok _ _ _ _ pool HI Q1) as [clo [p1 C1]]. rewrite C1.
    destruct (expr_has_ok _ _ _ _ p1 HI Q2) as [chi [p2 C2]]. rewrite C2.
    set (hid := [H_RANGE_END; H_RANGE_I; H_RANGE_ARR; H_FOR_ARR; H_FOR_IDX; H_FOR_LEN]).
    assert (I' : Inv ((x, (false, TInt)) :: L) (ce ++ hid ++ [x])) by (apply inv_cons, HI).
    change (ce ++ [H_RANGE_END; H_RANGE_I; H_RANGE_ARR; H_FOR_ARR; H_FOR_IDX; H_FOR_LEN; x]) with (ce ++ hid ++ [x]).
    match goal with |- context [compile_stmt Gc ?ps (Some ?lc) (ce ++ hid ++ [x]) s p2] =>
      destruct (IHs _ _ _ _ ps (Some lc) (ce ++ hid ++ [x]) p2 Eb I' (fun _ => ltac:(discriminate))) as [c0 [x0 [q0 [C0 _]]]] end.
    rewrite C0.
    match goal with |- context [compile_stmt Gc ?ps (Some ?lc) (ce ++ hid ++ [x]) s p2] =>
      destruct (IHs _ _ _ _ ps (Some lc) (ce ++ hid ++ [x]) p2 Eb I' (fun _ => ltac:(discriminate))) as [c1 [x1 [q1 [C1' _]]]] end.
    rewrite C1'. rewrite hide_from_ext.
    assert (Hh : hide_from (length ce + 6) ((ce ++ hid ++ [x]) ++ repeat HIDDEN (length x1)) =
                 ce ++ (hid ++ repeat HIDDEN (length ([x] ++ repeat HIDDEN (length x1))))).
    { replace (length ce + 6)%nat with (length (ce ++ hid)) by (rewrite app_length; reflexivity).
      replace ((ce ++ hid ++ [x]) ++ repeat HIDDEN (length x1)) with ((ce ++ hid) ++ ([x] ++ repeat HIDDEN (length x1)))
        by (rewrite <- !app_assoc; reflexivity).
      rewrite hide_from_ext, <- app_assoc. reflexivity. }
    rewrite Hh. eexists _, _, q1. split; [reflexivity|]. apply inv_more, HI.
  - destruct inl; [|discriminate]. injection Hw as <-. destruct Lc as [l|]; [|exfalso; apply HL; reflexivity].
    eexists _, [], pool. rewrite app_nil_r. auto.
  - destruct inl; [|discriminate]. injection Hw as <-. destruct Lc as [l|]; [|exfalso; apply HL; reflexivity].
    eexists _, [], pool. rewrite app_nil_r. auto.
  - destruct e as [e|].
    + destruct (expr_has F G L e ret) eqn:Q; [|discriminate]. injection Hw as <-.
      destruct (expr_has_ok _ _ _ _ pool HI Q) as [c [p1 C]]. rewrite C.
      eexists _, [], p1. rewrite app_nil_r. auto.
    + destruct (is_void ret); [|discriminate]. injection Hw as <-. eexists _, [], pool. rewrite app_nil_r. auto.
  - destruct (ty_expr F G L e) as [t|] eqn:Q; [|discriminate]. destruct (is_void t); [discriminate|]. injection Hw as <-.
    pose proof (compile_expr_ok e L ce t pool HI Q). destruct (compile_expr Gc ce e pool) as [[c p1]|]; [|contradiction].
    eexists _, [], p1. rewrite app_nil_r. auto.
  - destruct (expr_has F G L e TBool) eqn:Q; [|discriminate]. injection Hw as <-.
    destruct (expr_has_ok _ _ _ _ pool HI Q) as [c [p1 C]]. rewrite C.
    eexists _, [], p1. rewrite app_nil_r. auto.
  - destruct (ty_expr F G L e) as [t|] eqn:Q; [|discriminate]. injection Hw as <-.
    pose proof (compile_expr_ok e L ce t pool HI Q). destruct (compile_expr Gc ce e pool) as [[c p1]|]; [|contradiction].
    eexists _, [], p1. rewrite app_nil_r. auto.
Qed.
End Resolve.

Lemma gtenv_in x gs : forall acc, tlookup x (gtenv gs acc) <> None ->
  In x (map (fun g => fst (fst g)) gs) \/ tlookup x acc <> None.
Proof.
  induction gs as [|[[y t] e] gs IH]; intros acc H; simpl in *; [auto|].
  destruct (IH _ H) as [H1|H1]; [auto|]. simpl in H1. destruct (N.eqb x y) eqn:Q; [apply N.eqb_eq in Q; auto|auto].
Qed.

Theorem codegen_names_resolve : forall p, wt p = true ->
  forall d, In d (pfns p) -> forall pool,
  compile_stmt (genv_of p) 0 None (map fst (fparams d)) (fbody d) pool <> None.
Proof.
  intros p Hwt d Hd pool. unfold wt in Hwt.
  apply andb_true_iff in Hwt. destruct Hwt as [Hwt _]. apply andb_true_iff in Hwt. destruct Hwt as [Hwt _].
  apply andb_true_iff in Hwt. destruct Hwt as [_ Hfns].
  rewrite forallb_forall in Hfns. pose proof (Hfns d Hd) as Hf. unfold wt_fn in Hf.
  apply andb_true_iff in Hf. destruct Hf as [Hf _]. apply andb_true_iff in Hf. destruct Hf as [_ Hb].
  set (F := sigs_of (pfns p)) in *. set (G := gtenv (pglobals p) []) in *.
  destruct (wt_stmt F G (fret d) false (params_tenv (fparams d)) (fbody d)) as [Lb|] eqn:Eb; [|discriminate].
  assert (HGc : forall x, tlookup x G <> None -> In x (g_globals (genv_of p))).
  { intros x Hx. destruct (gtenv_in x (pglobals p) [] Hx) as [H|H]; [exact H|simpl in H; congruence]. }
  assert (HFc : forall f, slookup f F <> None -> In f (g_fns (genv_of p))).
  { intros f Hf'. apply slookup_in in Hf'. unfold F, sigs_of in Hf'. rewrite map_map in Hf'. exact Hf'. }
  assert (HI : Inv (params_tenv (fparams d)) (map fst (fparams d))).
  { intros x Hx. apply tlookup_in in Hx. unfold params_tenv in Hx. rewrite map_rev, map_map in Hx.
    apply in_rev in Hx. exact Hx. }
  destruct (compile_stmt_ok F G (genv_of p) HGc HFc (fbody d) _ _ _ _ 0%nat None _ pool Eb HI (fun H => ltac:(discriminate)))
    as [c [ext [p' [C _]]]].
  rewrite C. discriminate.
Qed.
