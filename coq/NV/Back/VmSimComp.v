(* VM simulation, stage A (part 3): structural facts about the compiler model.
   - the string pool only grows (pool_add / compile_expr / compile_stmt)
   - the compile-time scope only grows: compile_stmt returns ce ++ ext
   - the size of a statement's code does not depend on pos / loop context (two-pass loops)
   - every emitted instruction is well formed (operands in range) under the size limits `lims` *)
From Coq Require Import ZArith NArith List Bool Lia.
From NV Require Import Base.Bytes Isa.Codec Isa.CodecProofs gen.IsaTable Lang.Ast Back.VmCompile Back.VmExec
  Back.VmSimFetch Back.VmSimStep.
Import ListNotations.

(* ---------- induction principle for expressions (nested list in ECall) ---------- *)
Section ExprInd.
Variable P : expr -> Prop.
Hypothesis HNum : forall z, P (ENum z).
Hypothesis HBool : forall b, P (EBool b).
Hypothesis HStr : forall s, P (EStr s).
Hypothesis HVar : forall x, P (EVar x).
Hypothesis HUn : forall o a, P a -> P (EUn o a).
Hypothesis HBin : forall o a b, P a -> P b -> P (EBin o a b).
Hypothesis HCall : forall f args, Forall P args -> P (ECall f args).
Hypothesis HCond : forall c a b, P c -> P a -> P b -> P (ECond c a b).
Hypothesis HArr : forall es, Forall P es -> P (EArr es).
Hypothesis HAt : forall a i, P a -> P i -> P (EAt a i).
Hypothesis HLen : forall a, P a -> P (ELen a).
Hypothesis HStr1 : forall o a, P a -> P (EStr1 o a).
Hypothesis HStr2 : forall o a b, P a -> P b -> P (EStr2 o a b).
Hypothesis HSubstr : forall a b c, P a -> P b -> P c -> P (ESubstr a b c).
Fixpoint expr_ind2 (e : expr) : P e :=
  match e with
  | ENum z => HNum z | EBool b => HBool b | EStr s => HStr s | EVar x => HVar x
  | EUn o a => HUn o a (expr_ind2 a)
  | EBin o a b => HBin o a b (expr_ind2 a) (expr_ind2 b)
  | ECall f args =>
      HCall f args ((fix go (l : list expr) : Forall P l :=
                       match l with [] => Forall_nil P | a :: r => Forall_cons a (expr_ind2 a) (go r) end) args)
  | ECond c a b => HCond c a b (expr_ind2 c) (expr_ind2 a) (expr_ind2 b)
  | EArr es =>
      HArr es ((fix go (l : list expr) : Forall P l :=
                  match l with [] => Forall_nil P | a :: r => Forall_cons a (expr_ind2 a) (go r) end) es)
  | EAt a i => HAt a i (expr_ind2 a) (expr_ind2 i)
  | ELen a => HLen a (expr_ind2 a)
  | EStr1 o a => HStr1 o a (expr_ind2 a)
  | EStr2 o a b => HStr2 o a b (expr_ind2 a) (expr_ind2 b)
  | ESubstr a b c => HSubstr a b c (expr_ind2 a) (expr_ind2 b) (expr_ind2 c)
  end.
End ExprInd.

(* the argument compiler of ECall, named *)
Definition compile_args (G : genv) (ce : cenv) : list expr -> pool -> option (list instr * pool) :=
  fix go (l : list expr) (p0 : pool) : option (list instr * pool) :=
    match l with
    | [] => Some ([], p0)
    | a :: r => match compile_expr G ce a p0 with
                | Some (ca, p1) => match go r p1 with Some (cr, p2) => Some (ca ++ cr, p2) | None => None end
                | None => None end
    end.

Lemma compile_call_eq G ce f args p :
  compile_expr G ce (ECall f args) p =
  match compile_args G ce args p with
  | Some (cargs, p1) =>
      match index_of f (g_fns G) 0 with
      | Some idx => Some (cargs ++ [mk OP_CALL [N.of_nat idx]], p1)
      | None => None end
  | None => None end.
Proof. reflexivity. Qed.

(* an array literal compiles its elements exactly like the arguments of a call *)
Lemma compile_arr_eq G ce es p :
  compile_expr G ce (EArr es) p =
  match compile_args G ce es p with
  | Some (cel, p1) => Some (cel ++ [mk OP_ARR_LITERAL [TAG_INT_N; N.of_nat (length es)]], p1)
  | None => None end.
Proof. reflexivity. Qed.

(* ---------- the for/range lowering, in named pieces (so that proofs never unfold the whole SFor branch) ---------- *)
Definition for_ce (ce : cenv) (x : ident) : cenv :=
  ce ++ [H_RANGE_END; H_RANGE_I; H_RANGE_ARR; H_FOR_ARR; H_FOR_IDX; H_FOR_LEN; x].
Definition rng_body (n0 : nat) : list instr :=
  [mk OP_LOAD_LOCAL [N.of_nat (n0 + 2)]; mk OP_LOAD_LOCAL [N.of_nat (n0 + 1)]; mk OP_ARR_PUSH []; mk OP_STORE_LOCAL [N.of_nat (n0 + 2)];
   mk OP_LOAD_LOCAL [N.of_nat (n0 + 1)]; mk OP_PUSH_I64 [i64 1]; mk OP_ADD []; mk OP_STORE_LOCAL [N.of_nat (n0 + 1)]].
Definition rng_test (n0 : nat) : list instr :=
  [mk OP_LOAD_LOCAL [N.of_nat (n0 + 1)]; mk OP_LOAD_LOCAL [N.of_nat n0]; mk OP_LT []].
Definition rng_init (n0 : nat) : list instr :=
  [mk OP_STORE_LOCAL [N.of_nat n0]; mk OP_STORE_LOCAL [N.of_nat (n0 + 1)]; mk OP_ARR_NEW [TAG_INT_N]; mk OP_STORE_LOCAL [N.of_nat (n0 + 2)]].
Definition rng_loop (n0 : nat) : list instr :=
  rng_test n0 ++ [mk OP_JMP_FALSE [i32 (Z.of_nat (5 + csize (rng_body n0) + 5))]] ++ rng_body n0 ++
  [mk OP_JMP [i32 (- Z.of_nat (csize (rng_test n0) + 5 + csize (rng_body n0)))]] ++ [mk OP_LOAD_LOCAL [N.of_nat (n0 + 2)]].
Definition for_setup (n0 : nat) : list instr :=
  [mk OP_STORE_LOCAL [N.of_nat (n0 + 3)]; mk OP_PUSH_I64 [i64 0]; mk OP_STORE_LOCAL [N.of_nat (n0 + 4)];
   mk OP_LOAD_LOCAL [N.of_nat (n0 + 3)]; mk OP_ARR_LEN []; mk OP_STORE_LOCAL [N.of_nat (n0 + 5)]].
Definition for_pre (clo chi : list instr) (n0 : nat) : list instr :=
  (clo ++ chi ++ rng_init n0 ++ rng_loop n0) ++ for_setup n0.
Definition for_test (n0 : nat) : list instr :=
  [mk OP_LOAD_LOCAL [N.of_nat (n0 + 4)]; mk OP_LOAD_LOCAL [N.of_nat (n0 + 5)]; mk OP_LT []].
Definition for_fetch (n0 : nat) : list instr :=
  [mk OP_LOAD_LOCAL [N.of_nat (n0 + 3)]; mk OP_LOAD_LOCAL [N.of_nat (n0 + 4)]; mk OP_ARR_GET []; mk OP_STORE_LOCAL [N.of_nat (n0 + 6)]].
Definition for_incr (n0 : nat) : list instr :=
  [mk OP_LOAD_LOCAL [N.of_nat (n0 + 4)]; mk OP_PUSH_I64 [i64 1]; mk OP_ADD []; mk OP_STORE_LOCAL [N.of_nat (n0 + 4)]].

Lemma compile_for_eq G pos L ce x lo hi body p :
  compile_stmt G pos L ce (SFor x lo hi body) p =
  match compile_expr G ce lo p with
  | Some (clo, p1) =>
      match compile_expr G ce hi p1 with
      | Some (chi, p2) =>
          let n0 := length ce in
          let top := pos + csize (for_pre clo chi n0) in
          let posb := top + csize (for_test n0) + 5 + csize (for_fetch n0) in
          match compile_stmt G posb (Some {| l_top := top; l_end := 0 |}) (for_ce ce x) body p2 with
          | Some (cb0, _, _) =>
              match compile_stmt G posb (Some {| l_top := posb + csize cb0;
                                                 l_end := posb + csize cb0 + csize (for_incr n0) + 5 |}) (for_ce ce x) body p2 with
              | Some (cb, ce1, p3) =>
                  Some (for_pre clo chi n0 ++ for_test n0 ++
                        [mk OP_JMP_FALSE [i32 (Z.of_nat (5 + csize (for_fetch n0) + csize cb + csize (for_incr n0) + 5))]] ++
                        for_fetch n0 ++ cb ++ for_incr n0 ++
                        [mk OP_JMP [i32 (Z.of_nat top - Z.of_nat (posb + csize cb + csize (for_incr n0)))]],
                        hide_from (n0 + 6) (hide_from (length (for_ce ce x)) ce1), p3)
              | None => None end
          | None => None end
      | None => None end
  | None => None end.
Proof.
  cbn [compile_stmt]. destruct (compile_expr G ce lo p) as [[clo p1]|]; [|reflexivity].
  destruct (compile_expr G ce hi p1) as [[chi p2]|]; [|reflexivity].
  unfold for_pre, rng_loop, rng_init, for_setup. rewrite <- !app_assoc. reflexivity.
Qed.

Lemma for_sizes n0 : csize (for_test n0) = 7 /\ csize (for_fetch n0) = 10 /\ csize (for_incr n0) = 16 /\
  csize (rng_body n0) = 26 /\ csize (rng_test n0) = 7 /\ csize (rng_init n0) = 11 /\ csize (for_setup n0) = 22 /\
  csize (rng_loop n0) = 46.
Proof. repeat split; reflexivity. Qed.

Lemma some3_inj {A B C} (a a' : A) (b b' : B) (c c' : C) : Some (a, b, c) = Some (a', b', c') -> a = a' /\ b = b' /\ c = c'.
Proof. intros H. inversion H. auto. Qed.
Lemma some2_inj {A B} (a a' : A) (b b' : B) : Some (a, b) = Some (a', b') -> a = a' /\ b = b'.
Proof. intros H. inversion H. auto. Qed.

(* ---------- lookups ---------- *)
Lemma cfind_from_snoc x l y : forall i acc,
  cfind_from x (l ++ [y]) i acc = if N.eqb x y then Some (i + length l) else cfind_from x l i acc.
Proof.
  induction l as [|z l IH]; intros i acc; cbn [app cfind_from length].
  - rewrite Nat.add_0_r. destruct (N.eqb x y); reflexivity.
  - rewrite IH. replace (S i + length l) with (i + S (length l)) by lia. reflexivity.
Qed.
Lemma cfind_snoc x l y : cfind x (l ++ [y]) = if N.eqb x y then Some (length l) else cfind x l.
Proof. unfold cfind. rewrite cfind_from_snoc. reflexivity. Qed.
Lemma cfind_nil x : cfind x [] = None.
Proof. reflexivity. Qed.

Lemma cfind_lt x l k : cfind x l = Some k -> k < length l.
Proof.
  revert k. induction l as [|y l IH] using rev_ind; intros k H; [discriminate|].
  rewrite cfind_snoc in H. rewrite app_length. cbn [length].
  destruct (N.eqb x y); [inversion H; lia|]. specialize (IH k H). lia.
Qed.

Lemma index_of_lt x l : forall i k, index_of x l i = Some k -> i <= k < i + length l.
Proof.
  induction l as [|y l IH]; intros i k H; cbn [index_of length] in *; [discriminate|].
  destruct (N.eqb x y); [inversion H; lia|]. specialize (IH _ _ H). lia.
Qed.

Lemma index_of_nth x l : forall i k, index_of x l i = Some k -> nth_error l (k - i) = Some x.
Proof.
  induction l as [|y l IH]; intros i k H; cbn [index_of] in *; [discriminate|].
  destruct (N.eqb_spec x y).
  - inversion H; subst. rewrite Nat.sub_diag. reflexivity.
  - pose proof (index_of_lt _ _ _ _ H). specialize (IH _ _ H).
    replace (k - i) with (S (k - S i)) by lia. exact IH.
Qed.

(* ---------- string pool ---------- *)
Lemma list_N_eqb_eq a : forall b, list_N_eqb a b = true -> a = b.
Proof.
  induction a as [|x a IH]; intros [|y b] H; cbn [list_N_eqb] in H; try discriminate; [reflexivity|].
  apply andb_true_iff in H. destruct H as [H1 H2]. apply N.eqb_eq in H1. f_equal; auto.
Qed.
Lemma list_N_eqb_refl a : list_N_eqb a a = true.
Proof. induction a as [|x a IH]; [reflexivity|]. cbn [list_N_eqb]. rewrite N.eqb_refl. exact IH. Qed.

Lemma pool_find_spec s p : forall i k, pool_find s p i = Some k -> i <= k /\ nth_error p (k - i) = Some s.
Proof.
  induction p as [|t p IH]; intros i k H; cbn [pool_find] in H; [discriminate|].
  destruct (list_N_eqb s t) eqn:E.
  - inversion H; subst. rewrite Nat.sub_diag. apply list_N_eqb_eq in E. subst. split; [lia|reflexivity].
  - destruct (IH _ _ H) as [H1 H2]. split; [lia|]. replace (k - i) with (S (k - S i)) by lia. exact H2.
Qed.

Definition pool_le (p q : pool) : Prop := exists t, q = p ++ t.
Lemma pool_le_refl p : pool_le p p.
Proof. exists []. rewrite app_nil_r. reflexivity. Qed.
Lemma pool_le_trans p q r : pool_le p q -> pool_le q r -> pool_le p r.
Proof. intros [t ->] [u ->]. exists (t ++ u). rewrite app_assoc. reflexivity. Qed.
Lemma pool_le_length p q : pool_le p q -> length p <= length q.
Proof. intros [t ->]. rewrite app_length. lia. Qed.
Lemma pool_le_nth p q i s : pool_le p q -> nth_error p i = Some s -> nth_error q i = Some s.
Proof.
  intros [t ->] H. rewrite nth_error_app1; [exact H|]. apply nth_error_Some. rewrite H. discriminate.
Qed.

Lemma pool_add_spec s p i p' : pool_add s p = (i, p') -> pool_le p p' /\ nth_error p' i = Some s.
Proof.
  unfold pool_add. destruct (pool_find s p 0) as [k|] eqn:E; intros H; inversion H; subst; clear H.
  - split; [apply pool_le_refl|]. destruct (pool_find_spec _ _ _ _ E) as [_ H]. rewrite Nat.sub_0_r in H. exact H.
  - split; [exists [s]; reflexivity|]. rewrite nth_error_app2, Nat.sub_diag by lia. reflexivity.
Qed.

Lemma compile_expr_pool G ce e : forall p c p', compile_expr G ce e p = Some (c, p') -> pool_le p p'.
Proof.
  induction e as [z|b|s|x|o a IHa|o a b IHa IHb|f args IHargs|c0 a b IHc IHa IHb|es IHes|a i IHa IHi|a IHa
                  |so a IHa|so a b IHa IHb|a b c0 IHa IHb IHc] using expr_ind2;
    intros p c p' H.
  - inversion H. apply pool_le_refl.
  - inversion H. apply pool_le_refl.
  - cbn [compile_expr] in H. destruct (pool_add (unescape s) p) as [i q] eqn:E. inversion H; subst.
    apply (pool_add_spec _ _ _ _ E).
  - cbn [compile_expr] in H. destruct (cfind x ce); [inversion H; apply pool_le_refl|].
    destruct (index_of x (g_globals G) 0); inversion H. apply pool_le_refl.
  - cbn [compile_expr] in H. destruct (compile_expr G ce a p) as [[ca p1]|] eqn:Ea; [|discriminate].
    inversion H; subst. eapply IHa; eauto.
  - cbn [compile_expr] in H. destruct (compile_expr G ce a p) as [[ca p1]|] eqn:Ea; [|discriminate].
    destruct (compile_expr G ce b p1) as [[cb p2]|] eqn:Eb; [|discriminate].
    assert (pool_le p p2) by (eapply pool_le_trans; eauto).
    destruct o; inversion H; subst; assumption.
  - rewrite compile_call_eq in H.
    destruct (compile_args G ce args p) as [[cargs p1]|] eqn:Ea; [|discriminate].
    destruct (index_of f (g_fns G) 0); inversion H; subst. clear H.
    revert p cargs p' Ea. induction IHargs as [|a r Ha Hr IH]; intros p cargs p' Ea; cbn [compile_args] in Ea.
    + inversion Ea. apply pool_le_refl.
    + destruct (compile_expr G ce a p) as [[ca q1]|] eqn:E1; [|discriminate].
      destruct (compile_args G ce r q1) as [[cr q2]|] eqn:E2; [|discriminate]. inversion Ea; subst.
      eapply pool_le_trans; [eapply Ha; eauto|eapply IH; eauto].
  - cbn [compile_expr] in H. destruct (compile_expr G ce c0 p) as [[cc p1]|] eqn:Ec; [|discriminate].
    destruct (compile_expr G ce a p1) as [[ca p2]|] eqn:Ea; [|discriminate].
    destruct (compile_expr G ce b p2) as [[cb p3]|] eqn:Eb; [|discriminate].
    inversion H; subst. eapply pool_le_trans; [eauto|]. eapply pool_le_trans; eauto.
  - rewrite compile_arr_eq in H.
    destruct (compile_args G ce es p) as [[cel p1]|] eqn:Ea; [|discriminate].
    inversion H; subst. clear H.
    revert p cel p' Ea. induction IHes as [|a r Ha Hr IH]; intros p cel p' Ea; cbn [compile_args] in Ea.
    + inversion Ea. apply pool_le_refl.
    + destruct (compile_expr G ce a p) as [[ca q1]|] eqn:E1; [|discriminate].
      destruct (compile_args G ce r q1) as [[cr q2]|] eqn:E2; [|discriminate]. inversion Ea; subst.
      eapply pool_le_trans; [eapply Ha; eauto|eapply IH; eauto].
  - cbn [compile_expr] in H. destruct (compile_expr G ce a p) as [[ca p1]|] eqn:Ea; [|discriminate].
    destruct (compile_expr G ce i p1) as [[ci p2]|] eqn:Ei; [|discriminate].
    inversion H; subst. eapply pool_le_trans; eauto.
  - cbn [compile_expr] in H. destruct (compile_expr G ce a p) as [[ca p1]|] eqn:Ea; [|discriminate].
    inversion H; subst. eapply IHa; eauto.
  - cbn [compile_expr] in H. destruct (compile_expr G ce a p) as [[ca p1]|] eqn:Ea; [|discriminate].
    inversion H; subst. eapply IHa; eauto.
  - cbn [compile_expr] in H. destruct (compile_expr G ce a p) as [[ca p1]|] eqn:Ea; [|discriminate].
    destruct (compile_expr G ce b p1) as [[cb p2]|] eqn:Eb; [|discriminate].
    inversion H; subst. eapply pool_le_trans; eauto.
  - cbn [compile_expr] in H. destruct (compile_expr G ce a p) as [[ca p1]|] eqn:Ea; [|discriminate].
    destruct (compile_expr G ce b p1) as [[cb p2]|] eqn:Eb; [|discriminate].
    destruct (compile_expr G ce c0 p2) as [[cc p3]|] eqn:Ec; [|discriminate].
    inversion H; subst. eapply pool_le_trans; [eauto|]. eapply pool_le_trans; eauto.
Qed.

Lemma compile_args_pool G ce args : forall p c p', compile_args G ce args p = Some (c, p') -> pool_le p p'.
Proof.
  induction args as [|a r IH]; intros p c p' H; cbn [compile_args] in H.
  - inversion H. apply pool_le_refl.
  - destruct (compile_expr G ce a p) as [[ca q1]|] eqn:E1; [|discriminate].
    destruct (compile_args G ce r q1) as [[cr q2]|] eqn:E2; [|discriminate]. inversion H; subst.
    eapply pool_le_trans; [eapply compile_expr_pool; eauto|eapply IH; eauto].
Qed.

(* ---------- hide_from ---------- *)
Lemma hide_from_app a b : hide_from (length a) (a ++ b) = a ++ repeat HIDDEN (length b).
Proof.
  unfold hide_from. rewrite firstn_app, firstn_all, Nat.sub_diag, app_length. cbn [firstn]. rewrite app_nil_r.
  f_equal. f_equal. lia.
Qed.
Lemma hide_from_length n ce : length (hide_from n ce) = length ce.
Proof. unfold hide_from. rewrite app_length, firstn_length, repeat_length. lia. Qed.

(* match on "is the else branch absent" as a boolean *)
Definition is_skip (s : stmt) : bool := match s with SSkip => true | _ => false end.
Lemma skip_match {A} (s : stmt) (x y : A) :
  match s with SSkip => x | _ => y end = if is_skip s then x else y.
Proof. destruct s; reflexivity. Qed.

(* ---------- the scope and the pool only grow ---------- *)
Lemma compile_stmt_ext G s : forall pos L ce p c ce' p',
  compile_stmt G pos L ce s p = Some (c, ce', p') -> (exists ext, ce' = ce ++ ext) /\ pool_le p p'.
Proof.
  induction s as [ |s1 IH1 s2 IH2|m x t e|x e|c0 s1 IH1 s2 IH2|c0 body IHb|x lo hi body IHb| | |[e|]|nl e|e|e];
    intros pos L ce p c ce' p' H; try (rewrite compile_for_eq in H); cbn [compile_stmt] in H.
  - inversion H; subst. split; [exists []; rewrite app_nil_r; reflexivity|apply pool_le_refl].
  - destruct (compile_stmt G pos L ce s1 p) as [[[c1 ce1] p1]|] eqn:E1; [|discriminate].
    destruct (compile_stmt G (pos + csize c1) L ce1 s2 p1) as [[[c2 ce2] p2]|] eqn:E2; [|discriminate].
    inversion H; subst. destruct (IH1 _ _ _ _ _ _ _ E1) as [[x1 ->] P1]. destruct (IH2 _ _ _ _ _ _ _ E2) as [[x2 ->] P2].
    split; [exists (x1 ++ x2); rewrite app_assoc; reflexivity|eapply pool_le_trans; eauto].
  - destruct (compile_expr G ce e p) as [[c1 p1]|] eqn:E1; [|discriminate]. inversion H; subst.
    split; [eexists; reflexivity|eapply compile_expr_pool; eauto].
  - destruct (cfind x ce).
    + destruct (compile_expr G ce e p) as [[c1 p1]|] eqn:E1; [|discriminate]. inversion H; subst.
      split; [exists []; rewrite app_nil_r; reflexivity|eapply compile_expr_pool; eauto].
    + destruct (index_of x (g_globals G) 0); [|discriminate].
      destruct (compile_expr G ce e p) as [[c1 p1]|] eqn:E1; [|discriminate]. inversion H; subst.
      split; [exists []; rewrite app_nil_r; reflexivity|eapply compile_expr_pool; eauto].
  - destruct (compile_expr G ce c0 p) as [[cc p1]|] eqn:Ec; [|discriminate].
    destruct (compile_stmt G (pos + csize cc + 5) L ce s1 p1) as [[[c1 ce1r] p2]|] eqn:E1; [|discriminate].
    destruct (IH1 _ _ _ _ _ _ _ E1) as [[x1 ->] P1]. rewrite hide_from_app in H.
    pose proof (compile_expr_pool _ _ _ _ _ _ Ec) as P0.
    rewrite skip_match in H. destruct (is_skip s2).
    + inversion H; subst. split; [eexists; reflexivity|eapply pool_le_trans; eauto].
    + match type of H with context [compile_stmt G ?q L ?e s2 p2] =>
        destruct (compile_stmt G q L e s2 p2) as [[[c2 ce2] p3]|] eqn:E2; [|discriminate] end.
      destruct (IH2 _ _ _ _ _ _ _ E2) as [[x2 ->] P2]. rewrite hide_from_app in H. inversion H; subst.
      split; [rewrite <- app_assoc; eexists; reflexivity|].
      eapply pool_le_trans; [eauto|]. eapply pool_le_trans; eauto.
  - destruct (compile_expr G ce c0 p) as [[cc p1]|] eqn:Ec; [|discriminate].
    match type of H with context [compile_stmt G ?q ?l ce body p1] =>
      destruct (compile_stmt G q l ce body p1) as [[[cb0 ce0] p0]|] eqn:E0; [|discriminate] end.
    match type of H with context [compile_stmt G ?q ?l ce body p1] =>
      destruct (compile_stmt G q l ce body p1) as [[[cb ce1] p2]|] eqn:E1; [|discriminate] end.
    destruct (IHb _ _ _ _ _ _ _ E1) as [[x1 ->] P1]. rewrite hide_from_app in H. inversion H; subst.
    split; [eexists; reflexivity|]. eapply pool_le_trans; [eapply compile_expr_pool; eauto|eauto].
  - destruct (compile_expr G ce lo p) as [[clo p1]|] eqn:Elo; [|discriminate].
    destruct (compile_expr G ce hi p1) as [[chi p2]|] eqn:Ehi; [|discriminate].
    cbv zeta in H.
    match type of H with context [compile_stmt G ?q ?l ?e body p2] =>
      destruct (compile_stmt G q l e body p2) as [[[cb0 ce0] p0]|] eqn:E0; [|discriminate] end.
    match type of H with context [compile_stmt G ?q ?l ?e body p2] =>
      destruct (compile_stmt G q l e body p2) as [[[cb ce1] p3]|] eqn:E1; [|discriminate] end.
    destruct (IHb _ _ _ _ _ _ _ E1) as [[x1 ->] P1]. rewrite hide_from_app in H.
    apply some3_inj in H. destruct H as (_ & Hce & Hp). subst ce' p'.
    split.
    + exists ([H_RANGE_END; H_RANGE_I; H_RANGE_ARR; H_FOR_ARR; H_FOR_IDX; H_FOR_LEN] ++ HIDDEN :: repeat HIDDEN (length x1)).
      unfold for_ce.
      replace (length ce + 6) with (length (ce ++ [H_RANGE_END; H_RANGE_I; H_RANGE_ARR; H_FOR_ARR; H_FOR_IDX; H_FOR_LEN]))
        by (rewrite app_length; reflexivity).
      replace ((ce ++ [H_RANGE_END; H_RANGE_I; H_RANGE_ARR; H_FOR_ARR; H_FOR_IDX; H_FOR_LEN; x]) ++ repeat HIDDEN (length x1))
        with ((ce ++ [H_RANGE_END; H_RANGE_I; H_RANGE_ARR; H_FOR_ARR; H_FOR_IDX; H_FOR_LEN]) ++ (x :: repeat HIDDEN (length x1)))
        by (rewrite <- !app_assoc; reflexivity).
      rewrite hide_from_app. cbn [length repeat]. rewrite repeat_length, <- app_assoc. reflexivity.
    + eapply pool_le_trans; [eapply compile_expr_pool; eauto|].
      eapply pool_le_trans; [eapply compile_expr_pool; eauto|eauto].
  - destruct L; inversion H; subst. split; [exists []; rewrite app_nil_r; reflexivity|apply pool_le_refl].
  - destruct L; inversion H; subst. split; [exists []; rewrite app_nil_r; reflexivity|apply pool_le_refl].
  - destruct (compile_expr G ce e p) as [[c1 p1]|] eqn:E1; [|discriminate]. inversion H; subst.
    split; [exists []; rewrite app_nil_r; reflexivity|eapply compile_expr_pool; eauto].
  - inversion H; subst. split; [exists []; rewrite app_nil_r; reflexivity|apply pool_le_refl].
  - destruct (compile_expr G ce e p) as [[c1 p1]|] eqn:E1; [|discriminate]. inversion H; subst.
    split; [exists []; rewrite app_nil_r; reflexivity|eapply compile_expr_pool; eauto].
  - destruct (compile_expr G ce e p) as [[c1 p1]|] eqn:E1; [|discriminate]. inversion H; subst.
    split; [exists []; rewrite app_nil_r; reflexivity|eapply compile_expr_pool; eauto].
  - destruct (compile_expr G ce e p) as [[c1 p1]|] eqn:E1; [|discriminate]. inversion H; subst.
    split; [exists []; rewrite app_nil_r; reflexivity|eapply compile_expr_pool; eauto].
Qed.
