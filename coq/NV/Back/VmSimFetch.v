(* VM simulation, stage A (part 1): from the bytes of a module to instruction lists.
   fn_code M fe cf : the code region of function entry fe inside m_code M is the encoding of the instruction list cf
   code_at cf pos c : c sits inside cf at byte offset pos (relative to the start of the function)
   at_instr M fn ip i : what `step` needs to know to execute instruction i at absolute offset ip in function fn
   fetch_at         : fn_code + code_at  ->  at_instr   (C11's decode_encode does the work)
   plus the run relation used by all later stages (steps / Reach). *)
From Coq Require Import ZArith NArith List Bool Lia.
From NV Require Import Base.Bytes Isa.Codec Isa.CodecProofs gen.IsaTable Lang.Ast Back.VmCompile Back.VmExec.
Import ListNotations.

(* ---------- sizes ---------- *)
Lemma isize_pos i : 1 <= isize i.
Proof. unfold isize, size_of. destruct (table (op i)); lia. Qed.

Lemma csize_nil : csize [] = 0.
Proof. reflexivity. Qed.
Lemma csize_cons i c : csize (i :: c) = isize i + csize c.
Proof. reflexivity. Qed.
Lemma csize_app a b : csize (a ++ b) = csize a + csize b.
Proof.
  induction a as [|i a IH]; [reflexivity|].
  cbn [app]. rewrite !csize_cons, IH. lia.
Qed.
Lemma csize_one i : csize [i] = isize i.
Proof. rewrite csize_cons, csize_nil. lia. Qed.

(* ---------- encode_all ---------- *)
Lemma encode_all_app a b :
  encode_all (a ++ b) =
  match encode_all a, encode_all b with Some x, Some y => Some (x ++ y) | _, _ => None end.
Proof.
  induction a as [|i a IH]; cbn [app encode_all].
  - destruct (encode_all b); reflexivity.
  - rewrite IH. destruct (encode table i); [|reflexivity].
    destruct (encode_all a); [|reflexivity]. destruct (encode_all b); [|reflexivity].
    rewrite app_assoc. reflexivity.
Qed.

Lemma encode_all_length c : forall bs, encode_all c = Some bs -> length bs = csize c.
Proof.
  induction c as [|i c IH]; intros bs H; cbn [encode_all] in H.
  - inversion H. reflexivity.
  - destruct (encode table i) as [b|] eqn:E; [|discriminate].
    destruct (encode_all c) as [br|]; [|discriminate]. inversion H; subst bs.
    rewrite app_length, csize_cons, (IH br eq_refl). f_equal.
    unfold isize. rewrite (encode_length _ _ _ E). reflexivity.
Qed.

Lemma encode_all_total c : Forall (wf_instr table) c -> exists bs, encode_all c = Some bs.
Proof.
  induction 1 as [|i c Hi Hc IH]; [eexists; reflexivity|].
  cbn [encode_all]. destruct (encode_total table i Hi) as [b [Hb _]]. destruct IH as [br Hbr].
  rewrite Hb, Hbr. eexists; reflexivity.
Qed.

(* ---------- list helpers ---------- *)
Lemma skipn_add {A} a b (l : list A) : skipn (a + b) l = skipn b (skipn a l).
Proof.
  revert l; induction a as [|a IH]; intros l; [reflexivity|].
  destruct l as [|x l]; cbn [Nat.add skipn]; [destruct b; reflexivity|apply IH].
Qed.

(* ---------- code placement ---------- *)
Definition fn_code (M : vmodule) (fe : fentry) (cf : list instr) : Prop :=
  Forall (wf_instr table) cf /\
  exists bs, encode_all cf = Some bs /\ length bs = fe_len fe /\
             firstn (fe_len fe) (skipn (fe_off fe) (m_code M)) = bs.

Definition code_at (cf : list instr) (pos : nat) (c : list instr) : Prop :=
  exists c1 c2, cf = c1 ++ c ++ c2 /\ csize c1 = pos.

Lemma code_at_app_l cf pos a b : code_at cf pos (a ++ b) -> code_at cf pos a.
Proof.
  intros (c1 & c2 & E & S). exists c1, (b ++ c2). rewrite E, <- app_assoc. auto.
Qed.
Lemma code_at_app_r cf pos a b : code_at cf pos (a ++ b) -> code_at cf (pos + csize a) b.
Proof.
  intros (c1 & c2 & E & S). exists (c1 ++ a), c2.
  rewrite E, csize_app, <- !app_assoc. split; [reflexivity|lia].
Qed.
Lemma code_at_cons_l cf pos i c : code_at cf pos (i :: c) -> code_at cf pos [i].
Proof. apply (code_at_app_l cf pos [i] c). Qed.
Lemma code_at_cons_r cf pos i c : code_at cf pos (i :: c) -> code_at cf (pos + isize i) c.
Proof. intros H. apply (code_at_app_r cf pos [i] c) in H. rewrite csize_one in H. exact H. Qed.
Lemma code_at_bound cf pos c : code_at cf pos c -> pos + csize c <= csize cf.
Proof. intros (c1 & c2 & E & S). rewrite E, !csize_app. lia. Qed.
Lemma code_at_self cf : code_at cf 0 cf.
Proof. exists [], []. rewrite app_nil_r. auto. Qed.
Lemma code_at_pos_eq cf p q c : code_at cf p c -> p = q -> code_at cf q c.
Proof. intros H <-. exact H. Qed.

(* ---------- fetch ---------- *)
Definition at_instr (M : vmodule) (fn ip : nat) (i : instr) : Prop :=
  exists fe, fentry_at M fn = Some fe /\ Nat.leb (fe_off fe + fe_len fe) ip = false /\
             decode table (firstn (fe_off fe + fe_len fe - ip) (skipn ip (m_code M))) = Some (i, isize i).

Theorem fetch_at M fn fe cf pos i c :
  fentry_at M fn = Some fe -> fn_code M fe cf -> code_at cf pos (i :: c) ->
  at_instr M fn (fe_off fe + pos) i.
Proof.
  intros Hfe [Hwf (bs & Henc & Hlen & Hbs)] (c1 & c2 & E & S).
  subst cf. rewrite encode_all_app in Henc.
  destruct (encode_all c1) as [b1|] eqn:E1; [|discriminate].
  destruct (encode_all ((i :: c) ++ c2)) as [b2|] eqn:E2; [|discriminate].
  inversion Henc as [Eb]; clear Henc. rewrite <- Eb in Hlen, Hbs. clear Eb bs.
  cbn [app encode_all] in E2.
  destruct (encode table i) as [bi|] eqn:Ei; [|discriminate].
  destruct (encode_all (c ++ c2)) as [br|]; [|discriminate].
  inversion E2; subst b2; clear E2.
  pose proof (encode_all_length _ _ E1) as L1. rewrite S in L1.
  assert (Li : length bi = isize i) by (unfold isize; rewrite (encode_length _ _ _ Ei); reflexivity).
  pose proof (isize_pos i) as Pi.
  unfold byte in *. rewrite !app_length in Hlen.
  assert (Wi : wf_instr table i).
  { rewrite Forall_forall in Hwf. apply Hwf. apply in_or_app. right. left. reflexivity. }
  exists fe. split; [exact Hfe|]. split; [apply Nat.leb_gt; lia|].
  replace (fe_off fe + fe_len fe - (fe_off fe + pos)) with (fe_len fe - pos) by lia.
  rewrite skipn_add, <- skipn_firstn_comm. unfold byte in *. rewrite Hbs.
  rewrite skipn_app, <- L1, skipn_all, Nat.sub_diag. cbn [skipn app].
  rewrite <- Li. apply decode_encode; assumption.
Qed.

(* ---------- machine states in constructor form ---------- *)
Definition mkst (fn ret : nat) (locs stk : list mval) (cs : list mframe) (ip : nat) (g : list mval) (out : list N) : mstate :=
  {| ms_cur := {| mf_fn := fn; mf_ret := ret; mf_locals := locs; mf_stack := stk |};
     ms_callers := cs; ms_ip := ip; ms_globals := g; ms_out := out |}.

(* ---------- running ---------- *)
Section Run.
Variable M : vmodule.

Fixpoint steps (n : nat) (s : mstate) : mres :=
  match n with
  | O => MNext s
  | S k => match step M s with MNext s' => steps k s' | r => r end
  end.

Lemma steps_add a b s :
  steps (a + b) s = match steps a s with MNext s' => steps b s' | r => r end.
Proof.
  revert s; induction a as [|a IH]; intros s; [reflexivity|].
  cbn [Nat.add steps]. destruct (step M s); try reflexivity. apply IH.
Qed.

Definition depth_err (r : mres) : Prop := exists out, r = MErr ECallDepth out.

(* "from s the machine reaches a result satisfying Q, unless it runs into the frame-stack limit" *)
Definition Reach (s : mstate) (Q : mres -> Prop) : Prop :=
  exists n, Q (steps n s) \/ depth_err (steps n s).

Lemma Reach_here s (Q : mres -> Prop) : Q (MNext s) -> Reach s Q.
Proof. intros H. exists 0. left. exact H. Qed.

Lemma Reach_step s s' Q : step M s = MNext s' -> Reach s' Q -> Reach s Q.
Proof. intros H [n Hn]. exists (S n). cbn [steps]. rewrite H. exact Hn. Qed.

Lemma Reach_final s r (Q : mres -> Prop) :
  step M s = r -> match r with MNext _ => False | _ => True end -> Q r -> Reach s Q.
Proof. intros H Hr HQ. exists 1. left. cbn [steps]. rewrite H. destruct r; exact HQ. Qed.

Lemma Reach_depth s out Q : step M s = MErr ECallDepth out -> Reach s Q.
Proof. intros H. exists 1. right. cbn [steps]. rewrite H. exists out. reflexivity. Qed.

Lemma Reach_bind s (Q1 Q : mres -> Prop) :
  Reach s Q1 ->
  (forall m, Q1 m -> match m with MNext s' => Reach s' Q | _ => Q m end) ->
  Reach s Q.
Proof.
  intros [n [H|H]] K.
  - specialize (K _ H). destruct (steps n s) as [s'| | | |] eqn:E;
      try (exists n; left; rewrite E; exact K).
    destruct K as [m Hm]. exists (n + m). rewrite steps_add, E. exact Hm.
  - exists n. right. exact H.
Qed.

Lemma Reach_weaken s (Q1 Q : mres -> Prop) : Reach s Q1 -> (forall m, Q1 m -> Q m) -> Reach s Q.
Proof. intros [n [H|H]] K; exists n; [left; auto|right; exact H]. Qed.

Lemma Reach_trivial s : Reach s (fun _ => True).
Proof. exists 0. left. exact I. Qed.

(* connection with run_steps *)
Lemma run_steps_of_steps n s r :
  steps n s = r -> match r with MNext _ => False | _ => True end -> run_steps M n s = Some r.
Proof.
  revert s; induction n as [|n IH]; intros s H Hr; cbn [steps run_steps] in *.
  - subst r. contradiction.
  - destruct (step M s) eqn:E; try (subst r; reflexivity). apply IH; assumption.
Qed.
End Run.
