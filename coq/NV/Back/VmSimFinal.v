(* VM simulation, stage G (part 3): the compiler-correctness theorems for whole programs. *)
From Coq Require Import ZArith NArith List Bool Lia.
From NV Require Import Base.Bytes Isa.Codec Isa.CodecProofs gen.IsaTable Lang.Ast Lang.Ref Back.VmCompile Back.VmExec Back.OpTable
  Back.VmSimFetch Back.VmSimStep Back.VmSimComp Back.VmSimWf Back.VmSimEnv Back.VmSimDefs Back.VmSimExpr Back.VmSimStmt
  Back.VmSimLoop Back.VmSimCall Back.VmSimRange Back.VmSimFor Back.VmSimAll Back.VmSimMod Back.VmSimProg.
Import ListNotations.

(* run_vm, with its local function named *)
Definition run_main_f (fuel : nat) (M : vmodule) (globals : list mval) (out : list N) : vm_outcome :=
  match init_state M (m_entry M) globals out with
  | None => VBad
  | Some s0 =>
      match run_steps M fuel s0 with
      | None => VOutOfFuel
      | Some (MDone out (MInt z) _) => VDone out (z mod 256)
      | Some (MDone out _ _) => VDone out 0
      | Some (MErr e out) => VError e out
      | Some (MSignal out) => VSignal out
      | Some (MFellOff out) => VFellOff out
      | Some (MNext _) => VBad
      end
  end.

Lemma run_vm_eq fuel M :
  run_vm fuel M =
  if Nat.eqb (m_nglobals M) 0 then run_main_f fuel M [] []
  else match init_state M (length (m_fns M) - 1) [] [] with
       | None => VBad
       | Some s0 =>
           match run_steps M fuel s0 with
           | None => VOutOfFuel
           | Some (MDone out _ g) => run_main_f fuel M g out
           | Some (MErr e out) => VError e out
           | Some (MSignal out) => VSignal out
           | Some (MFellOff out) => VFellOff out
           | Some (MNext _) => VBad
           end
       end.
Proof. reflexivity. Qed.

(* "P n = r for all large n, unless the machine runs into its frame-stack limit" *)
Definition good (P : nat -> vm_outcome) (r : vm_outcome) : Prop :=
  (exists n, forall k, P (n + k) = r) \/ (exists n o, forall k, P (n + k) = VError ECallDepth o).

Lemma term_eq m r : m = r -> terminal r -> terminal m.
Proof. intros -> H. exact H. Qed.

Section Final.
Variable pr : program.
Variable M : vmodule.
Hypothesis Hcomp : compile_program pr = Some M.
Hypothesis Hsmall : small_program pr.

Let fns := pfns pr.
Let G := prog_genv pr.

Lemma main_outcome fuel genv g out0 : match_genv G genv g -> fuel_small fuel ->
  match eval_expr fns fuel genv [] (ECall (pmain pr) []) out0 with
  | Ok (VInt z) out => good (fun n => run_main_f n M g out0) (VDone out (z mod 256))
  | Fault FAssert out => good (fun n => run_main_f n M g out0) (VError EAssert out)
  | Fault FOob out => good (fun n => run_main_f n M g out0) (VError EOob out)
  | _ => True
  end.
Proof.
  intros Hmg Hfuel. destruct fuel as [|fuel]; [exact I|].
  destruct (find_fn fns (pmain pr)) as [d|] eqn:Ef.
  2: { rewrite eval_call_eq. cbn [eval_args bind]. rewrite Ef. exact I. }
  destruct (sim_entry pr M Hcomp Hsmall fuel genv g out0 _ d Ef Hmg Hfuel) as (idx & s0 & Hi & Hinit & HR).
  destruct (compile_program_cases pr M Hcomp) as (nidx & p0 & entry & _ & Ei & Hent & _).
  assert (idx = m_entry M).
  { change (g_fns (prog_genv pr)) with (map fname (pfns pr)) in Hi. rewrite Ei in Hi. inversion Hi. congruence. }
  subst idx.
  unfold fns in *. destruct (eval_expr (pfns pr) (S fuel) genv [] (ECall (pmain pr) []) out0) as [v out|f out| |]; try exact I.
  - destruct v as [z|?| |?|?]; try exact I. cbn [rpost mval_of] in HR.
    destruct (reach_terminal M s0 _ (fun m (H : m = MDone out (MInt z) g) => term_eq m _ H I) HR) as (n & r & Hrun & [Hr|[o Ho]]).
    + left. exists n. intros k. unfold run_main_f. rewrite Hinit, Hrun, Hr. reflexivity.
    + right. exists n, o. intros k. unfold run_main_f. rewrite Hinit, Hrun, Ho. reflexivity.
  - destruct f; try exact I; cbn [rpost] in HR.
    + destruct (reach_terminal M s0 _ (fun m (H : m = MErr EAssert out) => term_eq m _ H I) HR) as (n & r & Hrun & [Hr|[o Ho]]).
      * left. exists n. intros k. unfold run_main_f. rewrite Hinit, Hrun, Hr. reflexivity.
      * right. exists n, o. intros k. unfold run_main_f. rewrite Hinit, Hrun, Ho. reflexivity.
    + destruct (reach_terminal M s0 _ (fun m (H : m = MErr EOob out) => term_eq m _ H I) HR) as (n & r & Hrun & [Hr|[o Ho]]).
      * left. exists n. intros k. unfold run_main_f. rewrite Hinit, Hrun, Hr. reflexivity.
      * right. exists n, o. intros k. unfold run_main_f. rewrite Hinit, Hrun, Ho. reflexivity.
Qed.

Lemma match_genv_nil : match_genv G [] [].
Proof. intros x m v H. discriminate. Qed.

Theorem vm_sim_run fuel : fuel_small fuel ->
  match run_ref fuel pr with
  | Done out ex => good (fun n => run_vm n M) (VDone out ex)
  | Faulted FAssert out => good (fun n => run_vm n M) (VError EAssert out)
  | Faulted FOob out => good (fun n => run_vm n M) (VError EOob out)
  | _ => True
  end.
Proof.
  intros Hfuel. unfold run_ref. fold fns.
  destruct (compile_program_cases pr M Hcomp) as (nidx & p0 & entry & Ea & Ei & Hent &
    [[Eg (code & es & p1 & Ef & HM)] | [Eg (ini & p1 & cg & p2 & ibs & code & es & p3 & Ep & Ecg & Ee & Ef & HM)]]).
  - (* no globals *)
    rewrite Eg. cbn [eval_globals].
    pose proof (main_outcome fuel [] [] [] match_genv_nil Hfuel) as Hm.
    assert (Hrv : forall n, run_vm n M = run_main_f n M [] []) by (intros n; rewrite run_vm_eq, HM; reflexivity).
    destruct (eval_expr fns fuel [] [] (ECall (pmain pr) []) []) as [v out|f out| |]; try exact I.
    + destruct v as [z|?| |?|?]; try exact I.
      destruct Hm as [[n Hn]|[n [o Hn]]]; [left; exists n|right; exists n, o]; intros k; rewrite Hrv; apply Hn.
    + destruct f; try exact I;
        (destruct Hm as [[n Hn]|[n [o Hn]]]; [left; exists n|right; exists n, o]; intros k; rewrite Hrv; apply Hn).
  - (* globals: __init__ runs first *)
    destruct Hsmall as [(Hok & Hgok & Hnd & Hgl) Hms]. specialize (Hms M Hcomp).
    set (ife := {| fe_name := ini; fe_arity := 0; fe_off := 0; fe_len := length ibs; fe_locals := 0 |}) in *.
    assert (Hnz : Nat.eqb (m_nglobals M) 0 = false).
    { rewrite HM. cbn [m_nglobals]. destruct (pglobals pr); [contradiction|reflexivity]. }
    assert (Hife : fentry_at M (length es) = Some ife).
    { unfold fentry_at. rewrite HM. cbn [m_fns]. rewrite nth_error_app2, Nat.sub_diag by lia. reflexivity. }
    destruct (compile_fns_spec _ _ _ _ _ _ _ _ Ef) as (Hles & P23 & _).
    assert (Hstr : m_strings M = p3) by (rewrite HM; reflexivity).
    destruct Hms as (Hsm1 & Hsm2 & Hsm3 & Hsm4).
    assert (Hlims : lims G 0 (length p2)).
    { unfold lims. repeat split.
      - cbn. lia.
      - apply pool_le_length in P23. rewrite Hstr in Hsm2. lia.
      - apply (HG pr Hsmall).
      - unfold G, prog_genv. cbn [g_fns]. rewrite map_length. rewrite HM in Hsm4. cbn [m_fns] in Hsm4. rewrite app_length in Hsm4. unfold fns in Hles. lia. }
    destruct (compile_globals_wf G _ _ _ _ _ Ecg Hlims) as [Wcg _].
    { unfold G, prog_genv. cbn [g_globals]. rewrite map_length. lia. }
    { eapply Forall_impl; [|exact Hgok]. intros gg Hgg. apply expr_ok_lit_small. exact Hgg. }
    assert (Hicode : fn_code M ife (cg ++ epi)).
    { split; [apply Forall_app; split; [exact Wcg|exact epi_wf]|]. exists ibs. split; [exact Ee|]. split; [reflexivity|].
      rewrite HM. cbn [m_code fe_len fe_off ife skipn]. unfold byte in *. rewrite firstn_app, firstn_all, Nat.sub_diag. cbn [firstn].
      apply app_nil_r. }
    assert (Hisz : (Z.of_nat (csize (cg ++ epi)) < 2147483648)%Z).
    { rewrite <- (encode_all_length _ _ Ee). rewrite HM in Hsm1. cbn [m_code] in Hsm1. unfold byte in *. rewrite app_length in Hsm1. lia. }
    assert (Hinit : init_state M (length (m_fns M) - 1) [] [] = Some (mkst (length es) 0 [] [] [] 0 [] [])).
    { replace (length (m_fns M) - 1) with (length es) by (rewrite HM; cbn [m_fns]; rewrite app_length; cbn [length]; lia).
      unfold init_state. rewrite Hife. reflexivity. }
    assert (Hcg0 : code_at (cg ++ epi) 0 cg) by (exists [], epi; split; reflexivity).
    pose proof (sim_globals pr M Hcomp Hsmall fuel (length es) ife (cg ++ epi) 0 []
                  (conj Hife (conj Hicode Hisz)) Hfuel Hnd (pglobals pr) 0 p1 cg p2 [] [] [] 0 Ecg Hcg0 eq_refl match_genv_nil
                  eq_refl Hgok ltac:(rewrite Hstr; exact P23)) as HR.
    (* the epilogue of __init__ *)
    assert (HR' : Reach M (mkst (length es) 0 [] [] [] 0 [] [])
              (rpost (fun genv' out' m => exists g', m = MDone out' MVoid g' /\ match_genv G genv' g')
                     (eval_globals fns fuel (pglobals pr) [] []))).
    { eapply (rpost_seq M); [exact HR|]. intros genv' o' m (g' & -> & Hg').
      assert (Hce : code_at (cg ++ epi) (0 + csize cg) epi) by (exists cg, []; split; [rewrite app_nil_r; reflexivity|lia]).
      unfold epi in Hce.
      vstep Hife Hicode Hce step_push_void. vnext Hce.
      at_code Hce. apply Reach_one. erewrite step_ret; [|eapply fetch_at; eassumption].
      exists g'. split; [reflexivity|exact Hg']. }
    clear HR.
    destruct (eval_globals fns fuel (pglobals pr) [] []) as [genv out0|f out0| |]; try exact I.
    + cbn [rpost] in HR'.
      destruct (reach_terminal M _ _ (fun m (H : exists g', m = MDone out0 MVoid g' /\ match_genv G genv g') =>
                   match H with ex_intro _ g' (conj E _) => term_eq m _ E I end) HR') as (n1 & r & Hrun & [(g' & Hr & Hg')|[o Ho]]).
      * pose proof (main_outcome fuel genv g' out0 Hg' Hfuel) as Hm.
        assert (Hrv : forall n2 k, run_vm (n1 + n2 + k) M = run_main_f (n2 + (n1 + k)) M g' out0).
        { intros n2 k. rewrite run_vm_eq, Hnz, Hinit. replace (n1 + n2 + k) with (n1 + (n2 + k)) at 1 by lia.
          rewrite Hrun, Hr. f_equal. lia. }
        destruct (eval_expr fns fuel genv [] (ECall (pmain pr) []) out0) as [v out|f out| |]; try exact I.
        -- destruct v as [z|?| |?|?]; try exact I.
           destruct Hm as [[n Hn]|[n [o Hn]]]; [left; exists (n1 + n)|right; exists (n1 + n), o]; intros k; rewrite Hrv; apply Hn.
        -- destruct f; try exact I;
             (destruct Hm as [[n Hn]|[n [o Hn]]]; [left; exists (n1 + n)|right; exists (n1 + n), o]; intros k; rewrite Hrv; apply Hn).
      * assert (Hd : good (fun n => run_vm n M) (VError ECallDepth o)).
        { left. exists n1. intros k. rewrite run_vm_eq, Hnz, Hinit, Hrun, Ho. reflexivity. }
        destruct (eval_expr fns fuel genv [] (ECall (pmain pr) []) out0) as [v out|f out| |]; try exact I.
        -- destruct v as [z|?| |?|?]; try exact I. right. destruct Hd as [[n Hn]|[n [o' Hn]]]; [exists n, o|exists n, o']; exact Hn.
        -- destruct f; try exact I; (right; destruct Hd as [[n Hn]|[n [o' Hn]]]; [exists n, o|exists n, o']; exact Hn).
    + destruct f; try exact I; cbn [rpost] in HR'.
      * destruct (reach_terminal M _ _ (fun m (H : m = MErr EAssert out0) => term_eq m _ H I) HR') as (n1 & r & Hrun & [Hr|[o Ho]]).
        -- left. exists n1. intros k. rewrite run_vm_eq, Hnz, Hinit, Hrun, Hr. reflexivity.
        -- right. exists n1, o. intros k. rewrite run_vm_eq, Hnz, Hinit, Hrun, Ho. reflexivity.
      * destruct (reach_terminal M _ _ (fun m (H : m = MErr EOob out0) => term_eq m _ H I) HR') as (n1 & r & Hrun & [Hr|[o Ho]]).
        -- left. exists n1. intros k. rewrite run_vm_eq, Hnz, Hinit, Hrun, Hr. reflexivity.
        -- right. exists n1, o. intros k. rewrite run_vm_eq, Hnz, Hinit, Hrun, Ho. reflexivity.
Qed.

End Final.

(* ---------- the theorems ---------- *)
Theorem vm_correct pr M fuel out ex :
  compile_program pr = Some M -> small_program pr -> fuel_small fuel ->
  run_ref fuel pr = Done out ex ->
  (exists fuel', run_vm fuel' M = VDone out ex) \/ (exists fuel' o, run_vm fuel' M = VError ECallDepth o).
Proof.
  intros Hc Hs Hf Hr. pose proof (vm_sim_run pr M Hc Hs fuel Hf) as H. rewrite Hr in H.
  destruct H as [[n Hn]|[n [o Hn]]]; [left; exists (n + 0)|right; exists (n + 0), o]; apply Hn.
Qed.

Theorem vm_correct_assert pr M fuel out :
  compile_program pr = Some M -> small_program pr -> fuel_small fuel ->
  run_ref fuel pr = Faulted FAssert out ->
  (exists fuel', run_vm fuel' M = VError EAssert out) \/ (exists fuel' o, run_vm fuel' M = VError ECallDepth o).
Proof.
  intros Hc Hs Hf Hr. pose proof (vm_sim_run pr M Hc Hs fuel Hf) as H. rewrite Hr in H.
  destruct H as [[n Hn]|[n [o Hn]]]; [left; exists (n + 0)|right; exists (n + 0), o]; apply Hn.
Qed.

(* an index out of range: the reference run stops with the fault FOob, the VM with its bounds error, same output *)
Theorem vm_correct_oob pr M fuel out :
  compile_program pr = Some M -> small_program pr -> fuel_small fuel ->
  run_ref fuel pr = Faulted FOob out ->
  (exists fuel', run_vm fuel' M = VError EOob out) \/ (exists fuel' o, run_vm fuel' M = VError ECallDepth o).
Proof.
  intros Hc Hs Hf Hr. pose proof (vm_sim_run pr M Hc Hs fuel Hf) as H. rewrite Hr in H.
  destruct H as [[n Hn]|[n [o Hn]]]; [left; exists (n + 0)|right; exists (n + 0), o]; apply Hn.
Qed.

(* with the frame-stack limit as a hypothesis on the machine run *)
Definition depth_ok (M : vmodule) : Prop := forall fuel' o, run_vm fuel' M <> VError ECallDepth o.

Corollary vm_correct_depth_ok pr M fuel out ex :
  compile_program pr = Some M -> small_program pr -> fuel_small fuel -> depth_ok M ->
  run_ref fuel pr = Done out ex -> exists fuel', run_vm fuel' M = VDone out ex.
Proof.
  intros Hc Hs Hf Hd Hr. destruct (vm_correct pr M fuel out ex Hc Hs Hf Hr) as [H|[n [o H]]]; [exact H|].
  exfalso. exact (Hd n o H).
Qed.

Corollary vm_correct_assert_depth_ok pr M fuel out :
  compile_program pr = Some M -> small_program pr -> fuel_small fuel -> depth_ok M ->
  run_ref fuel pr = Faulted FAssert out -> exists fuel', run_vm fuel' M = VError EAssert out.
Proof.
  intros Hc Hs Hf Hd Hr. destruct (vm_correct_assert pr M fuel out Hc Hs Hf Hr) as [H|[n [o H]]]; [exact H|].
  exfalso. exact (Hd n o H).
Qed.

Corollary vm_correct_oob_depth_ok pr M fuel out :
  compile_program pr = Some M -> small_program pr -> fuel_small fuel -> depth_ok M ->
  run_ref fuel pr = Faulted FOob out -> exists fuel', run_vm fuel' M = VError EOob out.
Proof.
  intros Hc Hs Hf Hd Hr. destruct (vm_correct_oob pr M fuel out Hc Hs Hf Hr) as [H|[n [o H]]]; [exact H|].
  exfalso. exact (Hd n o H).
Qed.
