(* Integer -> text on the two backends.  Both call C's snprintf(buf, size, "%lld", v), which writes at most size-1
   characters of the decimal text followed by NUL: the text is TRUNCATED when it does not fit.  The sizes come from the
   current source (gen/IntFmt.v).  Definitions only. *)
From Coq Require Import ZArith NArith List.
From NV Require Import Lang.Ast gen.IntFmt.
Import ListNotations.

Definition snprintf_text (size : nat) (text : list N) : list N := firstn (size - 1) text.

(* native: nl_to_string_int = int_to_string: gc_alloc_string(A) gives A+1 bytes, snprintf(buffer, S, ...) *)
Definition native_int_to_string (z : Z) : list N := snprintf_text NAT_INT_SNPRINTF (print_Z z).
(* the write stays inside the allocation iff S <= A + 1 *)
Definition native_int_buffer_ok : bool := Nat.leb NAT_INT_SNPRINTF (NAT_INT_ALLOC + 1).
(* VM: vm_string_from_int: char buf[K]; len = snprintf(buf, K, ...); vm_string_new(buf, len) -- when the text is truncated
   len is the UNTRUNCATED length and vm_string_new reads past buf; the model returns the text only when it fits *)
Definition vm_int_to_string (z : Z) : option (list N) :=
  if Nat.ltb (length (print_Z z)) VM_INT_BUF then Some (print_Z z) else None.
