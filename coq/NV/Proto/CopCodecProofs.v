(* Proofs about the co-process wire format model (NV.Proto.CopCodec). *)
From Coq Require Import NArith ZArith List Bool Lia.
From NV Require Import Base.Bytes gen.CopConst Proto.CopCodec.
Import ListNotations.
Local Open Scope N_scope.

Definition wf_value (v : value) : Prop := wf_valueb v = true.
Definition transferable (v : value) : Prop := transferableb v = true.
Definition AMAX : N := 4294967295.

Lemma transferable_wf v : transferable v -> wf_value v.
Proof. unfold transferable, transferableb, wf_value. intros H. apply andb_true_iff in H. apply H. Qed.
Lemma transferable_depth v : transferable v -> vdepth v <= COP_MAX_NESTING.
Proof. unfold transferable, transferableb. intros H. apply andb_true_iff in H. destruct H as [_ H]. now apply N.leb_le in H. Qed.
Lemma transferable_all_wf l : Forall transferable l -> Forall wf_value l.
Proof. intros H. eapply Forall_impl; [|exact H]. apply transferable_wf. Qed.

(* ---------- induction principle for the nested type *)
Section value_ind2.
  Variable P : value -> Prop.
  Hypothesis Hvoid : P VVoid.
  Hypothesis Hint : forall n, P (VInt n).
  Hypothesis Hfloat : forall n, P (VFloat n).
  Hypothesis Hbool : forall b, P (VBool b).
  Hypothesis Hstr : forall s, P (VStr s).
  Hypothesis Hopq : forall n, P (VOpaque n).
  Hypothesis Harr : forall et es, Forall P es -> P (VArr et es).
  Hypothesis Hother : forall t, P (VOther t).
  Fixpoint value_ind2 (v : value) : P v :=
    match v with
    | VVoid => Hvoid | VInt n => Hint n | VFloat n => Hfloat n | VBool b => Hbool b
    | VStr s => Hstr s | VOpaque n => Hopq n | VOther t => Hother t
    | VArr et es =>
        Harr et es ((fix go (l : list value) : Forall P l :=
                       match l with [] => Forall_nil P | x :: r => Forall_cons x (value_ind2 x) (go r) end) es)
    end.
End value_ind2.

(* ---------- small list facts *)
Lemma firstn_exact {A} n (a b : list A) : length a = n -> firstn n (a ++ b) = a.
Proof. intros <-. induction a; simpl; congruence. Qed.
Lemma skipn_exact {A} n (a b : list A) : length a = n -> skipn n (a ++ b) = b.
Proof. intros <-. induction a; simpl; congruence. Qed.
Lemma len_app {A} (a b : list A) : len (a ++ b) = len a + len b.
Proof. unfold len. rewrite app_length. lia. Qed.
Lemma len_cons {A} (x : A) l : len (x :: l) = 1 + len l.
Proof. unfold len. simpl length. lia. Qed.
Lemma len_le_bytes k n : len (le_bytes k n) = N.of_nat k.
Proof. unfold len. now rewrite le_bytes_length. Qed.

(* closed tag comparisons are evaluated (they break, as they must, if two tags of the generated file collide) *)
Ltac tagc := repeat match goal with
  | |- context [N.eqb ?a ?b] =>
      let r := eval vm_compute in (N.eqb a b) in
      match r with
      | true => change (N.eqb a b) with true
      | false => change (N.eqb a b) with false
      end
  end; cbv iota.

Lemma wf_value_arr et es :
  wf_value (VArr et es) -> et < 256 /\ len es < 2 ^ 32 /\ Forall wf_value es.
Proof.
  unfold wf_value. cbn [wf_valueb]. rewrite !andb_true_iff, !N.ltb_lt, forallb_forall, Forall_forall. tauto.
Qed.
Lemma wf_value_str s : wf_value (VStr s) -> bytes_ok s /\ len s + 5 < 2 ^ 32.
Proof.
  unfold wf_value. cbn [wf_valueb]. rewrite andb_true_iff, N.ltb_lt, bytes_okb_spec. tauto.
Qed.

Lemma ser_nonempty v : (1 <= length (ser v))%nat.
Proof. destruct v; simpl; lia. Qed.

(* unfolding equations of the mutual fixpoint *)
Lemma deser_elems_0 amax depth fuel bs : deser_elems amax depth fuel 0 bs = EOk [] 0.
Proof. destruct fuel; reflexivity. Qed.
Lemma deser_elems_S amax depth f count bs : count <> 0 ->
  deser_elems amax depth (S f) count bs =
  match deser_f amax depth f bs with
  | DOk v n => match deser_elems amax depth f (N.pred count) (skipn n bs) with
               | EOk vs m => EOk (v :: vs) (n + m) | x => x end
  | DFail => EFail | DOob => EOob | DFuel => EFuel
  end.
Proof. intros H. apply N.eqb_neq in H. cbn [deser_elems]. rewrite H. reflexivity. Qed.

Lemma fixed8_ser mk n rest : n < 2 ^ 64 ->
  fixed8 mk (le_bytes 8 n ++ rest) = DOk (mk n) 9.
Proof.
  intros H. unfold fixed8. rewrite firstn_exact by apply le_bytes_length. rewrite le_bytes_length.
  change (Nat.ltb 8 8) with false. cbv iota.
  rewrite of_le_le_bytes; [reflexivity|exact H].
Qed.

(* every element takes at least one byte, so an honest count passes the decoder's `count <= remaining bytes` test *)
Lemma len_le_flat es : len es <= len (flat_map ser es).
Proof.
  induction es as [|e es IH]; [reflexivity|]. cbn [flat_map]. rewrite len_cons, len_app.
  pose proof (ser_nonempty e). unfold len in *. lia.
Qed.
Lemma vdepth_arr_elem et es e : In e es -> 1 + vdepth e <= vdepth (VArr et es).
Proof.
  cbn [vdepth]. induction es as [|x es IH]; [intros []|]. intros [->|H]; cbn [fold_right]; [lia|]. specialize (IH H). lia.
Qed.

(* ---------- deserialize (serialize v ++ rest) = v, consuming exactly the encoding, at any nesting depth that leaves room *)
Definition rt_stmt (v : value) : Prop :=
  forall depth fuel rest, depth + vdepth v <= COP_MAX_NESTING -> (length (ser v) <= fuel)%nat ->
    deser_f AMAX depth fuel (ser v ++ rest) = DOk v (length (ser v)).

Lemma deser_elems_ser es : Forall rt_stmt es ->
  forall depth fuel rest, Forall (fun e => depth + vdepth e <= COP_MAX_NESTING) es ->
    (length (flat_map ser es) + 1 <= fuel)%nat ->
    deser_elems AMAX depth fuel (len es) (flat_map ser es ++ rest) = EOk es (length (flat_map ser es)).
Proof.
  induction 1 as [|e es He Hes IH]; intros depth fuel rest Hd Hf.
  - apply deser_elems_0.
  - destruct fuel as [|f]; [lia|].
    cbn [flat_map] in *. rewrite app_length in Hf.
    pose proof (ser_nonempty e) as Hne. inversion Hd as [|? ? Hde Hdes]; subst.
    rewrite deser_elems_S by (rewrite len_cons; lia).
    rewrite <- app_assoc. rewrite (He depth f) by (assumption || lia).
    rewrite skipn_exact by reflexivity.
    replace (N.pred (len (e :: es))) with (len es) by (rewrite len_cons; lia).
    rewrite IH by (assumption || lia). rewrite app_length. reflexivity.
Qed.

Lemma deser_ser_f v : wf_value v -> rt_stmt v.
Proof.
  induction v using value_ind2; intros T depth fuel rest Hdep Hf; unfold wf_value in T; cbn [wf_valueb] in T;
    (destruct fuel as [|f]; [exfalso; cbn [ser] in Hf; simpl length in Hf; lia|]).
  - (* void *) cbn [ser app deser_f]. tagc. reflexivity.
  - (* int *) apply N.ltb_lt in T. cbn [ser app deser_f]. tagc. rewrite fixed8_ser by exact T. reflexivity.
  - (* float *) apply N.ltb_lt in T. cbn [ser app deser_f]. tagc. rewrite fixed8_ser by exact T. reflexivity.
  - (* bool *) cbn [ser app deser_f]. tagc. destruct b; reflexivity.
  - (* string *)
    apply wf_value_str in T. destruct T as [_ Hl].
    cbn [ser]. rewrite <- app_comm_cons. cbn [deser_f]. tagc.
    rewrite <- app_assoc.
    rewrite !app_length, le_bytes_length.
    replace (Nat.ltb (4 + (length s + length rest)) 4) with false by (symmetry; apply Nat.ltb_ge; lia).
    cbv zeta. rewrite firstn_exact by apply le_bytes_length.
    rewrite of_le_le_bytes by (change (256 ^ N.of_nat 4) with (2 ^ 32); lia).
    rewrite len_cons, !len_app, len_le_bytes.
    replace (1 + (N.of_nat 4 + (len s + len rest)) - 5 <? len s) with false
      by (symmetry; apply N.ltb_ge; change (N.of_nat 4) with 4; lia).
    rewrite skipn_exact by apply le_bytes_length.
    unfold len at 1 2. rewrite Nat2N.id. rewrite firstn_exact by reflexivity.
    f_equal; simpl length; rewrite ?app_length, ?le_bytes_length; reflexivity.
  - (* opaque *) apply N.ltb_lt in T. cbn [ser app deser_f]. tagc. rewrite fixed8_ser by exact T. reflexivity.
  - (* array *)
    fold (wf_value (VArr et es)) in T. apply wf_value_arr in T. destruct T as (Het & Hc & Hall).
    assert (Hrt : Forall rt_stmt es).
    { rewrite Forall_forall in *. intros x Hx. apply H; [exact Hx|]. apply Hall; exact Hx. }
    assert (Hde : Forall (fun e => depth + 1 + vdepth e <= COP_MAX_NESTING) es).
    { rewrite Forall_forall. intros x Hx. pose proof (vdepth_arr_elem et es x Hx). lia. }
    assert (Hd1 : depth < COP_MAX_NESTING) by (cbn [vdepth] in Hdep; lia).
    pose proof (len_le_flat es) as Hcnt.
    cbn [ser] in *. rewrite <- !app_comm_cons. cbn [deser_f]. tagc.
    cbn [length] in Hf. rewrite app_length, le_bytes_length in Hf.
    rewrite <- app_assoc.
    replace (Nat.ltb (length (et :: le_bytes 4 (len es) ++ flat_map ser es ++ rest)) 5) with false
      by (symmetry; apply Nat.ltb_ge; cbn [length]; rewrite app_length, le_bytes_length; lia).
    cbv zeta. rewrite firstn_exact by apply le_bytes_length.
    rewrite of_le_le_bytes by (change (256 ^ N.of_nat 4) with (2 ^ 32); lia).
    rewrite !len_cons, !len_app, len_le_bytes.
    replace (1 + (1 + (N.of_nat 4 + (len (flat_map ser es) + len rest))) - 6 <? len es) with false
      by (symmetry; apply N.ltb_ge; change (N.of_nat 4) with 4; lia).
    replace (COP_MAX_NESTING <=? depth) with false by (symmetry; apply N.leb_gt; exact Hd1).
    cbn [orb].
    replace (AMAX <? len es) with false by (symmetry; apply N.ltb_ge; unfold AMAX; change (2 ^ 32) with 4294967296 in Hc; lia).
    rewrite skipn_exact by apply le_bytes_length.
    rewrite (deser_elems_ser es Hrt) by (assumption || lia).
    f_equal; cbn [length]; rewrite ?app_length, ?le_bytes_length; reflexivity.
  - (* other: not wf *) discriminate T.
Qed.

Theorem deser_ser : forall v rest, transferable v ->
  deser (ser v ++ rest) = Some (v, length (ser v)).
Proof.
  intros v rest T. unfold deser, deser_r, deser_a. fold AMAX.
  rewrite (deser_ser_f v (transferable_wf v T)); [reflexivity| |rewrite app_length; lia].
  pose proof (transferable_depth v T). lia.
Qed.

(* every byte the serializer emits is a byte *)
Lemma bytes_ok_cons b l : b < 256 -> bytes_ok l -> bytes_ok (b :: l).
Proof. intros; constructor; assumption. Qed.
Lemma ser_bytes_ok v : wf_value v -> bytes_ok (ser v).
Proof.
  induction v using value_ind2; intros T; unfold wf_value in T; cbn [wf_valueb] in T; cbn [ser].
  - repeat constructor.
  - apply bytes_ok_cons; [reflexivity|apply le_bytes_ok].
  - apply bytes_ok_cons; [reflexivity|apply le_bytes_ok].
  - destruct b; repeat constructor.
  - apply wf_value_str in T. apply bytes_ok_cons; [reflexivity|]. apply bytes_ok_app. split; [apply le_bytes_ok|tauto].
  - apply bytes_ok_cons; [reflexivity|apply le_bytes_ok].
  - fold (wf_value (VArr et es)) in T. apply wf_value_arr in T. destruct T as (Het & _ & Hall).
    apply bytes_ok_cons; [reflexivity|]. apply bytes_ok_cons; [exact Het|]. apply bytes_ok_app. split; [apply le_bytes_ok|].
    clear Het. induction es as [|e es IH]; [constructor|].
    cbn [flat_map]. apply bytes_ok_app. inversion H; inversion Hall; subst. split; auto.
  - discriminate T.
Qed.

(* ---------- the deserializer never runs out of fuel, never reads out of bounds, and never claims more bytes than the
   buffer has *)
Ltac sp3 := split; [|split].
Lemma deser_bounds amax fuel :
  (forall depth bs, (length bs <= fuel)%nat ->
     deser_f amax depth fuel bs <> DFuel /\ deser_f amax depth fuel bs <> DOob /\
     (forall v n, deser_f amax depth fuel bs = DOk v n -> (1 <= n <= length bs)%nat)) /\
  (forall depth count bs, (length bs + 1 <= fuel)%nat ->
     deser_elems amax depth fuel count bs <> EFuel /\ deser_elems amax depth fuel count bs <> EOob /\
     (forall vs n, deser_elems amax depth fuel count bs = EOk vs n -> (n <= length bs)%nat)).
Proof.
  induction fuel as [|f [IHf IHe]].
  - split.
    + intros depth [|b r] H; simpl in H; [|lia]. simpl. sp3; discriminate.
    + intros depth count bs H. lia.
  - split.
    + intros depth [|tag r] H; [simpl; sp3; discriminate|].
      simpl length in H. cbn [deser_f].
      assert (F8 : forall mk, fixed8 mk r <> DFuel /\ fixed8 mk r <> DOob /\
                              (forall v n, fixed8 mk r = DOk v n -> (1 <= n <= length (tag :: r))%nat)).
      { intros mk. unfold fixed8. destruct (Nat.ltb_spec (length (firstn 8 r)) 8); sp3; try discriminate.
        intros v n E. inversion E; subst. rewrite firstn_length in *. cbn [length]. lia. }
      destruct (tag =? TAG_INT); [apply F8|].
      destruct (tag =? TAG_FLOAT); [apply F8|].
      destruct (tag =? TAG_BOOL).
      { destruct r as [|b r']; sp3; try discriminate. intros v n E. inversion E; subst. simpl length. lia. }
      destruct (tag =? TAG_STRING).
      { destruct (Nat.ltb_spec (length r) 4); [sp3; discriminate|]. cbv zeta.
        destruct (N.ltb_spec (len (tag :: r) - 5) (of_le (firstn 4 r))) as [H1|H1]; [sp3; discriminate|].
        sp3; try discriminate. clear F8. set (l := of_le (firstn 4 r)) in *. clearbody l.
        intros v n E. inversion E; subst. clear E. unfold len in H1. cbn [length] in *. lia. }
      destruct (tag =? TAG_OPAQUE); [apply F8|].
      destruct (tag =? TAG_ARRAY).
      { destruct (Nat.ltb_spec (length r) 5); [sp3; discriminate|].
        destruct r as [|et r1]; [sp3; discriminate|]. cbv zeta. simpl length in *.
        assert (L4 : length (skipn 4 r1) = (length r1 - 4)%nat) by apply skipn_length.
        destruct ((len (tag :: et :: r1) - 6 <? of_le (firstn 4 r1)) || (COP_MAX_NESTING <=? depth)); [sp3; discriminate|].
        destruct (amax <? of_le (firstn 4 r1)); [sp3; discriminate|].
        destruct (IHe (depth + 1) (of_le (firstn 4 r1)) (skipn 4 r1)) as (Hnf & Hno & Hb); [lia|].
        destruct (deser_elems amax (depth + 1) f (of_le (firstn 4 r1)) (skipn 4 r1)) eqn:E; sp3; try discriminate; try congruence.
        intros v n0 E0. inversion E0; subst. specialize (Hb _ _ eq_refl). lia. }
      sp3; try discriminate. intros v n E. inversion E; subst. simpl length. lia.
    + intros depth count bs H. cbn [deser_elems].
      destruct (count =? 0); [sp3; try discriminate; intros vs n E; inversion E; lia|].
      destruct (IHf depth bs) as (Hnf & Hno & Hb); [lia|].
      destruct (deser_f amax depth f bs) as [v n| | |] eqn:E; try (sp3; discriminate); try congruence.
      specialize (Hb _ _ eq_refl).
      assert (L : length (skipn n bs) = (length bs - n)%nat) by apply skipn_length.
      destruct (IHe depth (N.pred count) (skipn n bs)) as (Hnf2 & Hno2 & Hb2); [lia|].
      destruct (deser_elems amax depth f (N.pred count) (skipn n bs)) eqn:E2; sp3; try discriminate; try congruence.
      intros vs0 n1 E3. inversion E3; subst. specialize (Hb2 _ _ eq_refl). lia.
Qed.

Theorem deser_fuel_enough : forall amax bs, deser_a amax bs <> DFuel.
Proof. intros amax bs. unfold deser_a. apply (proj1 (deser_bounds amax (length bs))). lia. Qed.

(* the decoder of the current sources never leaves its buffer, whatever bytes it is given and whatever the allocator does *)
Theorem deser_never_oob : forall amax bs, deser_a amax bs <> DOob.
Proof. intros amax bs. unfold deser_a. apply (proj1 (deser_bounds amax (length bs))). lia. Qed.

Theorem deser_consumed : forall bs v n, deser bs = Some (v, n) -> (1 <= n <= length bs)%nat.
Proof.
  intros bs v n. unfold deser, deser_r, deser_a.
  destruct (deser_f 4294967295 0 (length bs) bs) eqn:E; try discriminate.
  intros H; inversion H; subst.
  exact (proj2 (proj2 (proj1 (deser_bounds 4294967295 (length bs)) 0 bs (le_n _))) v n E).
Qed.

(* nesting deeper than COP_MAX_NESTING array levels is refused (not transferred): 257 nested empty arrays *)
Fixpoint nest (k : nat) : value := match k with O => VArr 1 [] | S k' => VArr 1 [nest k'] end.

(* ---------- cop_serialize_value with a capacity = the layout when it fits, 0 otherwise *)
Lemma ser_size_len v : ser_size v = len (ser v).
Proof.
  induction v using value_ind2; cbn [ser ser_size]; rewrite ?len_cons, ?len_app, ?len_le_bytes; try (unfold len; simpl; lia); try (change (N.of_nat 4) with 4; lia).
  assert (E : fold_right (fun e a => ser_size e + a) 0 es = len (flat_map ser es)).
  { induction H as [|e es He Hes IH]; [reflexivity|]. cbn [fold_right flat_map]. rewrite len_app, He, IH. reflexivity. }
  rewrite E. change (N.of_nat 4) with 4. lia.
Qed.

Definition fits_stmt (v : value) : Prop :=
  forall cap, ser_buf v cap = if ser_size v <=? cap then SOk (ser v) else SNoRoom.

Lemma ser_go_spec cap es : Forall fits_stmt es ->
  forall pos, pos <= cap ->
  (fix go (es : list value) (pos : N) : sres :=
     match es with
     | [] => SOk []
     | e :: r => match ser_buf e (cap - pos) with
                 | SOk b => match go r (pos + len b) with SOk t => SOk (b ++ t) | x => x end
                 | x => x
                 end
     end) es pos
  = if pos + fold_right (fun e a => ser_size e + a) 0 es <=? cap then SOk (flat_map ser es) else SNoRoom.
Proof.
  induction 1 as [|e es He Hes IH]; intros pos Hp.
  - cbn [fold_right flat_map]. rewrite N.add_0_r.
    replace (pos <=? cap) with true by (symmetry; apply N.leb_le; exact Hp). reflexivity.
  - cbn [fold_right flat_map]. rewrite (He (cap - pos)).
    destruct (N.leb_spec (ser_size e) (cap - pos)).
    + rewrite IH by (rewrite <- ser_size_len; lia). rewrite <- ser_size_len.
      replace (pos + ser_size e + fold_right (fun e0 a => ser_size e0 + a) 0 es)
        with (pos + (ser_size e + fold_right (fun e0 a => ser_size e0 + a) 0 es)) by lia.
      destruct (pos + (ser_size e + fold_right (fun e0 a => ser_size e0 + a) 0 es) <=? cap); reflexivity.
    + replace (pos + (ser_size e + fold_right (fun e0 a => ser_size e0 + a) 0 es) <=? cap) with false
        by (symmetry; apply N.leb_gt; lia). reflexivity.
Qed.

Lemma ser_buf_spec v : wf_value v -> fits_stmt v.
Proof.
  induction v using value_ind2; intros T cap; unfold wf_value in T; cbn [wf_valueb] in T;
    cbn [ser_buf ser_size ser].
  - destruct (N.ltb_spec cap 1), (N.leb_spec 1 cap); try lia; reflexivity.
  - destruct (N.ltb_spec cap 1), (N.ltb_spec cap (1 + 8)), (N.leb_spec 9 cap); try lia; reflexivity.
  - destruct (N.ltb_spec cap 1), (N.ltb_spec cap (1 + 8)), (N.leb_spec 9 cap); try lia; reflexivity.
  - destruct (N.ltb_spec cap 1), (N.ltb_spec cap (1 + 1)), (N.leb_spec 2 cap); try lia; reflexivity.
  - apply wf_value_str in T. destruct T as [_ Hl].
    unfold u32. rewrite N.mod_small by (change 4294967296 with (2 ^ 32); lia).
    destruct (N.ltb_spec cap 1), (N.ltb_spec cap (1 + 4 + len s)), (N.leb_spec (5 + len s) cap); try lia; reflexivity.
  - destruct (N.ltb_spec cap 1), (N.ltb_spec cap (1 + 8)), (N.leb_spec 9 cap); try lia; reflexivity.
  - fold (wf_value (VArr et es)) in T. apply wf_value_arr in T. destruct T as (_ & _ & Hall).
    assert (Hf : Forall fits_stmt es).
    { rewrite Forall_forall in *. intros x Hx. apply H; [exact Hx|]. apply Hall; exact Hx. }
    destruct (N.ltb_spec cap 1).
    { destruct (N.leb_spec (6 + fold_right (fun e a => ser_size e + a) 0 es) cap); [lia|reflexivity]. }
    destruct (N.ltb_spec cap (1 + 5)).
    { destruct (N.leb_spec (6 + fold_right (fun e a => ser_size e + a) 0 es) cap); [lia|reflexivity]. }
    rewrite (ser_go_spec cap es Hf) by lia.
    destruct (6 + fold_right (fun e a => ser_size e + a) 0 es <=? cap); reflexivity.
  - discriminate T.
Qed.

(* ---------- framing *)
Lemma frame_recv ty p : ty < 256 -> len p <= COP_MAX_PAYLOAD ->
  recv_msg (frame ty p) = Some (ty, p).
Proof.
  intros Ht Hl. unfold recv_msg, frame.
  assert (L4 : length (le_bytes 4 (len p)) = 4%nat) by apply le_bytes_length.
  destruct (le_bytes 4 (len p)) as [|l0 [|l1 [|l2 [|l3 [|? ?]]]]] eqn:E; try discriminate L4.
  cbn [app firstn parse_header].
  rewrite N.eqb_refl. cbn [negb].
  rewrite <- E. rewrite of_le_le_bytes by (change (256 ^ N.of_nat 4) with 4294967296; unfold COP_MAX_PAYLOAD in Hl; lia).
  replace (COP_MAX_PAYLOAD <? len p) with false by (symmetry; apply N.ltb_ge; exact Hl).
  cbn [skipn].
  replace (len p <? len p) with false by (symmetry; apply N.ltb_irrefl).
  unfold len. rewrite Nat2N.id, firstn_all. reflexivity.
Qed.

(* ---------- the request: fits iff 6 + sizes <= capacity *)
Definition args_size (args : list value) : N := fold_right (fun e a => ser_size e + a) 0 args.

Lemma ser_args_spec cap maxargs : forall args i pos acc,
  Forall wf_value args -> i + len args <= maxargs -> pos <= cap ->
  pos + args_size args <= cap ->
  ser_args args i maxargs cap pos acc = ReqOk (acc ++ flat_map ser args).
Proof.
  induction args as [|a r IH]; intros i pos acc T Hi Hp Hfit.
  - cbn. now rewrite app_nil_r.
  - cbn [ser_args]. rewrite len_cons in Hi. cbn [args_size fold_right] in Hfit. fold (args_size r) in Hfit.
    replace (maxargs <=? i) with false by (symmetry; apply N.leb_gt; lia).
    inversion T as [|? ? Ta Tr]; subst.
    rewrite (ser_buf_spec a Ta (cap - pos)).
    replace (ser_size a <=? cap - pos) with true by (symmetry; apply N.leb_le; lia).
    rewrite IH; try assumption; rewrite <- ?ser_size_len; try lia.
    cbn [flat_map]. now rewrite app_assoc.
Qed.

Lemma ser_args_first_fail cap maxargs a r acc :
  wf_value a -> 0 < maxargs -> cap - 6 < ser_size a ->
  ser_args (a :: r) 0 maxargs cap 6 acc = ReqArgFail 0.
Proof.
  intros Ta Hm Hbig. cbn [ser_args].
  replace (maxargs <=? 0) with false by (symmetry; apply N.leb_gt; lia).
  rewrite (ser_buf_spec a Ta (cap - 6)).
  replace (ser_size a <=? cap - 6) with false by (symmetry; apply N.leb_gt; lia). reflexivity.
Qed.

Theorem request_fits_when : forall cap idx args,
  Forall wf_value args -> len args <= REQ_MAX_ARGS -> 6 + args_size args <= cap ->
  build_request_cap cap idx args = ReqOk (le_bytes 4 idx ++ le_bytes 2 (len args) ++ flat_map ser args).
Proof.
  intros cap idx args T Hn Hfit. unfold build_request_cap.
  rewrite ser_args_spec; try assumption; try lia. now rewrite <- app_assoc.
Qed.

(* the request fits EXACTLY when 6 + the argument encodings fit: otherwise some argument is reported *)
Lemma ser_args_too_big cap maxargs : forall args i pos acc,
  Forall wf_value args -> i + len args <= maxargs -> pos <= cap ->
  cap < pos + args_size args ->
  exists j, ser_args args i maxargs cap pos acc = ReqArgFail j.
Proof.
  induction args as [|a r IH]; intros i pos acc T Hi Hp Hbig.
  - cbn [args_size fold_right] in Hbig. lia.
  - cbn [ser_args]. rewrite len_cons in Hi. cbn [args_size fold_right] in Hbig. fold (args_size r) in Hbig.
    replace (maxargs <=? i) with false by (symmetry; apply N.leb_gt; lia).
    inversion T as [|? ? Ta Tr]; subst.
    rewrite (ser_buf_spec a Ta (cap - pos)).
    destruct (N.leb_spec (ser_size a) (cap - pos)); [|eauto].
    apply IH; try assumption; rewrite <- ?ser_size_len; lia.
Qed.

Theorem request_too_big : forall cap idx args,
  Forall wf_value args -> len args <= REQ_MAX_ARGS -> cap < 6 + args_size args -> 6 <= cap ->
  exists j, build_request_cap cap idx args = ReqArgFail j.
Proof.
  intros cap idx args T Hn Hbig H6. unfold build_request_cap. apply ser_args_too_big; try assumption; lia.
Qed.

(* ---------- the co-process decodes exactly the arguments that were sent *)
Lemma deser_args_ser : forall args rest, Forall transferable args ->
  deser_args (length args) (flat_map ser args ++ rest) = Some (Some args).
Proof.
  induction args as [|a r IH]; intros rest T; [reflexivity|].
  inversion T as [|? ? Ta Tr]; subst.
  cbn [length deser_args flat_map]. rewrite <- app_assoc.
  pose proof (deser_ser a (flat_map ser r ++ rest) Ta) as D. unfold deser in D.
  destruct (deser_r (ser a ++ flat_map ser r ++ rest)) as [v n| | |]; try discriminate D.
  inversion D; subst. rewrite skipn_exact by reflexivity. rewrite IH by assumption. reflexivity.
Qed.

Lemma parse_request_built : forall idx args,
  idx < 2 ^ 32 -> Forall transferable args -> len args <= COP_ARGS_MAX ->
  parse_request (le_bytes 4 idx ++ le_bytes 2 (len args) ++ flat_map ser args) = PReq idx (len args) args.
Proof.
  intros idx args Hi T Hn. unfold parse_request.
  assert (Hn' : len args < 2 ^ 16) by (unfold COP_ARGS_MAX in Hn; change (2 ^ 16) with 65536; lia).
  rewrite !app_length, !le_bytes_length.
  replace (Nat.ltb (4 + (2 + length (flat_map ser args))) 6) with false by (symmetry; apply Nat.ltb_ge; lia).
  rewrite firstn_exact by apply le_bytes_length.
  rewrite skipn_exact by apply le_bytes_length.
  rewrite firstn_exact by apply le_bytes_length.
  rewrite !of_le_le_bytes; try (change (256 ^ N.of_nat 2) with (2 ^ 16); lia); try (change (256 ^ N.of_nat 4) with (2 ^ 32); lia).
  cbv zeta.
  replace (skipn 6 (le_bytes 4 idx ++ le_bytes 2 (len args) ++ flat_map ser args)) with (flat_map ser args).
  2:{ rewrite app_assoc. symmetry. apply skipn_exact. rewrite app_length, !le_bytes_length. reflexivity. }
  rewrite N.min_l by exact Hn. unfold len. rewrite Nat2N.id.
  rewrite <- (app_nil_r (flat_map ser args)). rewrite deser_args_ser by assumption. reflexivity.
Qed.

(* ---------- the reply *)
Lemma build_reply_fits r : wf_value r -> ser_size r <= COP_REPLY_BIG_BUF ->
  build_reply (ORes r) = (COP_MSG_FFI_RESULT, ser r).
Proof.
  intros T H. cbn [build_reply]. rewrite !(ser_buf_spec r T).
  destruct (N.leb_spec (ser_size r) COP_REPLY_STACK_BUF); [reflexivity|].
  replace (ser_size r <=? COP_REPLY_BIG_BUF) with true by (symmetry; apply N.leb_le; exact H). reflexivity.
Qed.
Lemma build_reply_too_big r : wf_value r -> COP_REPLY_BIG_BUF < ser_size r ->
  build_reply (ORes r) = (COP_MSG_FFI_ERROR, COP_REPLY_TOO_LARGE_MSG).
Proof.
  intros T H. cbn [build_reply]. rewrite !(ser_buf_spec r T).
  replace (ser_size r <=? COP_REPLY_STACK_BUF) with false by (symmetry; apply N.leb_gt; unfold COP_REPLY_STACK_BUF, COP_REPLY_BIG_BUF in *; lia).
  replace (ser_size r <=? COP_REPLY_BIG_BUF) with false by (symmetry; apply N.leb_gt; exact H). reflexivity.
Qed.

Lemma parse_reply_result r : transferable r -> parse_reply COP_MSG_FFI_RESULT (ser r) = ROk r.
Proof.
  intros T. unfold parse_reply. rewrite N.eqb_refl.
  pose proof (ser_nonempty r) as Hne.
  destruct (ser r) as [|b l] eqn:E; [simpl in Hne; lia|]. rewrite <- E.
  pose proof (deser_ser r [] T) as D. rewrite app_nil_r in D. unfold deser in D.
  destruct (deser_r (ser r)); try discriminate D. inversion D; subst. reflexivity.
Qed.

Lemma flat_len_args args : len (flat_map ser args) = args_size args.
Proof.
  induction args as [|a r IH]; [reflexivity|]. cbn [flat_map args_size fold_right]. rewrite len_app, <- ser_size_len.
  fold (args_size r). now rewrite IH.
Qed.

(* ---------- one extern call through a healthy co-process gives what the in-process call gives, for every request and
   result the protocol can carry (COP_MAX_PAYLOAD) *)
Definition outcome_ok (o : outcome) : Prop :=
  match o with
  | ORes r => transferable r /\ ser_size r <= COP_MAX_PAYLOAD
  | OErr m => len m <= COP_MAX_PAYLOAD
  end.

(* the generated buffer bounds are the protocol bound (these two facts break, as they must, if a fixed buffer comes back) *)
Lemma req_buf_is_max : REQ_BUF_SIZE = COP_MAX_PAYLOAD. Proof. reflexivity. Qed.
Lemma reply_buf_is_max : COP_REPLY_BIG_BUF = COP_MAX_PAYLOAD. Proof. reflexivity. Qed.

Theorem request_fits : forall idx args,
  Forall transferable args -> len args <= REQ_MAX_ARGS -> 6 + args_size args <= COP_MAX_PAYLOAD ->
  build_request idx args = ReqOk (le_bytes 4 idx ++ le_bytes 2 (len args) ++ flat_map ser args).
Proof.
  intros idx args T Hn Hfit. unfold build_request. apply request_fits_when; [apply transferable_all_wf; exact T|exact Hn|].
  rewrite req_buf_is_max. exact Hfit.
Qed.

Theorem call_transparent : forall (f : callee_t) idx args,
  idx < 2 ^ 32 -> Forall transferable args -> len args <= REQ_MAX_ARGS ->
  6 + args_size args <= COP_MAX_PAYLOAD ->
  outcome_ok (f idx args) ->
  call_cop f idx args = call_inproc f idx args.
Proof.
  intros f idx args Hi T Hn Hfit Ho. unfold call_cop, call_cop_cap, call_inproc.
  change (build_request_cap REQ_BUF_SIZE idx args) with (build_request idx args). rewrite request_fits by assumption.
  set (P := le_bytes 4 idx ++ le_bytes 2 (len args) ++ flat_map ser args).
  assert (HP : len P <= COP_MAX_PAYLOAD).
  { unfold P. rewrite !len_app, !len_le_bytes, flat_len_args. change (N.of_nat 4) with 4. change (N.of_nat 2) with 2. lia. }
  rewrite frame_recv by (exact HP || reflexivity). rewrite N.eqb_refl.
  unfold cop_side, P. rewrite parse_request_built by assumption.
  destruct (f idx args) as [r|m]; cbn [outcome_ok] in Ho.
  - destruct Ho as [Tr Hr]. rewrite build_reply_fits; [|apply transferable_wf; exact Tr|rewrite reply_buf_is_max; exact Hr].
    rewrite frame_recv; [|reflexivity|rewrite <- ser_size_len; exact Hr].
    rewrite parse_reply_result by exact Tr. reflexivity.
  - cbn [build_reply]. rewrite frame_recv by (exact Ho || reflexivity).
    unfold parse_reply. tagc. reflexivity.
Qed.

(* ---------- what still is not transparent: the protocol bound itself *)
Ltac nc := vm_compute; first [reflexivity | discriminate | (intro; discriminate)].
Lemma len_repeat {A} (x : A) n : len (repeat x n) = N.of_nat n.
Proof. unfold len. now rewrite repeat_length. Qed.
Lemma bytes_ok_repeat b n : b < 256 -> bytes_ok (repeat b n).
Proof. intros H. induction n; simpl; constructor; auto. Qed.

Definition big_str (n : N) : value := VStr (repeat 120 (N.to_nat n)).
Lemma big_str_wf n : n + 5 < 2 ^ 32 -> wf_value (big_str n).
Proof.
  intros H. unfold wf_value, big_str. cbn [wf_valueb].
  rewrite len_repeat, N2Nat.id. apply andb_true_iff. split.
  - apply bytes_okb_spec. apply bytes_ok_repeat. reflexivity.
  - apply N.ltb_lt. exact H.
Qed.
Lemma big_str_transferable n : n + 5 < 2 ^ 32 -> transferable (big_str n).
Proof.
  intros H. unfold transferable, transferableb. apply andb_true_iff. split; [apply big_str_wf; exact H|reflexivity].
Qed.
Lemma big_str_size n : ser_size (big_str n) = 5 + n.
Proof. unfold big_str. cbn [ser_size]. now rewrite len_repeat, N2Nat.id. Qed.

(* a transferable argument larger than a message may be: a string of COP_MAX_PAYLOAD - 10 bytes *)
Theorem request_above_max_refuted :
  exists args, Forall transferable args /\ len args <= REQ_MAX_ARGS /\ exists idx, build_request idx args = ReqArgFail 0.
Proof.
  exists [big_str (COP_MAX_PAYLOAD - 10)]. split; [|split].
  - constructor; [|constructor]. apply big_str_transferable. reflexivity.
  - unfold len, REQ_MAX_ARGS. cbn [length]. lia.
  - exists 0. unfold build_request, build_request_cap.
    apply ser_args_first_fail; [apply big_str_wf; reflexivity|reflexivity|].
    rewrite big_str_size. reflexivity.
Qed.

(* a transferable result larger than a message may be: reported as an FFI error (no longer a silent void) *)
Lemma reply_too_big_general : forall r idx, transferable r -> COP_MAX_PAYLOAD < ser_size r -> idx < 2 ^ 32 ->
  call_cop (fun _ _ => ORes r) idx [] = CErr COP_REPLY_TOO_LARGE_MSG.
Proof.
  intros r idx T Hbig Hi.
  unfold call_cop, call_cop_cap. change (build_request_cap REQ_BUF_SIZE idx []) with (build_request idx []).
  rewrite request_fits; [|apply Forall_nil|unfold len, REQ_MAX_ARGS; cbn [length]; lia|unfold COP_MAX_PAYLOAD; cbn; lia].
  cbn [flat_map]. rewrite app_nil_r.
  rewrite frame_recv; [|reflexivity|rewrite len_app, !len_le_bytes; nc].
  rewrite N.eqb_refl. unfold cop_side.
  pose proof (parse_request_built idx [] Hi (Forall_nil _)) as PR. cbn [flat_map] in PR. rewrite app_nil_r in PR.
  rewrite PR by nc.
  rewrite build_reply_too_big; [|apply transferable_wf; exact T|rewrite reply_buf_is_max; exact Hbig].
  rewrite frame_recv; [|reflexivity|nc]. unfold parse_reply. tagc.
  reflexivity.
Qed.

Theorem reply_above_max_refuted :
  exists r, transferable r /\
    forall idx, idx < 2 ^ 32 ->
      call_cop (fun _ _ => ORes r) idx [] = CErr COP_REPLY_TOO_LARGE_MSG /\ call_inproc (fun _ _ => ORes r) idx [] = CRes r.
Proof.
  exists (big_str COP_MAX_PAYLOAD).
  assert (T : transferable (big_str COP_MAX_PAYLOAD)) by (apply big_str_transferable; reflexivity).
  split; [exact T|]. intros idx Hi. split.
  - apply reply_too_big_general; [exact T| |exact Hi]. rewrite big_str_size. lia.
  - unfold call_inproc. reflexivity.
Qed.

(* a well-formed value nested deeper than the decoder accepts is refused: 257 levels *)
Theorem nesting_above_max_refuted :
  wf_value (nest 256) /\ vdepth (nest 256) = 257 /\ deser (ser (nest 256)) = None /\
  transferable (nest 255) /\ deser (ser (nest 255)) = Some (nest 255, length (ser (nest 255))).
Proof.
  split; [vm_compute; reflexivity|]. split; [vm_compute; reflexivity|]. split; [vm_compute; reflexivity|].
  assert (T : transferable (nest 255)) by (vm_compute; reflexivity).
  split; [exact T|]. rewrite <- (app_nil_r (ser (nest 255))) at 1. apply deser_ser. exact T.
Qed.

(* non-transferable tags arrive as void *)
Theorem other_becomes_void : forall t rest,
  t <> TAG_INT -> t <> TAG_FLOAT -> t <> TAG_BOOL -> t <> TAG_STRING -> t <> TAG_OPAQUE -> t <> TAG_ARRAY ->
  deser (ser (VOther t) ++ rest) = Some (VVoid, 1%nat).
Proof.
  intros t rest H1 H2 H3 H4 H5 H6. unfold deser, deser_r, deser_a. cbn [ser app length deser_f].
  apply N.eqb_neq in H1, H2, H3, H4, H5, H6. rewrite H1, H2, H3, H4, H5, H6. reflexivity.
Qed.
