(* Lemmas about NV.Proto.Vmd: frame codec round trip, the shape of every session's reply, cleanup,
   survival of the daemon under the generated facts, independence of replies from the daemon's history,
   and transparency of a LOAD_EXEC session with respect to the standalone observation. *)
From Coq Require Import NArith ZArith List Bool Lia.

From NV Require Import Base.Bytes gen.VmdConsts gen.VmdFacts gen.SigpipeSites Proto.Vmd.
Import ListNotations.
Local Open Scope N_scope.

(* ------------------------------------------------------------------ constants *)
Lemma max_payload_lt_u32 : VMD_MAX_PAYLOAD < 2 ^ 32.
Proof. vm_compute. reflexivity. Qed.
Lemma version_byte : VMD_VERSION mod 256 = VMD_VERSION.
Proof. vm_compute. reflexivity. Qed.

Definition wf_frame (f : frame) : Prop :=
  f_type f < 256 /\ bytes_ok (f_payload f) /\ N.of_nat (length (f_payload f)) <= VMD_MAX_PAYLOAD.

Lemma wf_frameb_spec f : wf_frameb f = true <-> wf_frame f.
Proof.
  unfold wf_frameb, wf_frame. rewrite !andb_true_iff, N.ltb_lt, N.leb_le, bytes_okb_spec. tauto.
Qed.

(* ------------------------------------------------------------------ codec *)
Lemma recv_header_encode ty flags len rest :
  ty < 256 -> flags < 65536 -> len < 2 ^ 32 ->
  recv_header (encode_header VMD_VERSION ty flags len ++ rest) =
    let h := {| h_version := VMD_VERSION; h_type := ty; h_flags := flags; h_len := len |} in
    if VMD_MAX_PAYLOAD <? len then RTooLong h else ROk h rest.
Proof.
  intros Ht Hf Hl. unfold encode_header. rewrite version_byte, (N.mod_small ty) by lia.
  cbn [le_bytes app].
  unfold recv_header.
  change [flags mod 256; flags / 256 mod 256] with (le_bytes 2 flags).
  change [len mod 256; len / 256 mod 256; len / 256 / 256 mod 256; len / 256 / 256 / 256 mod 256] with (le_bytes 4 len).
  rewrite !of_le_le_bytes by (simpl; lia).
  rewrite N.eqb_refl. cbn [negb h_len]. reflexivity.
Qed.

Lemma take_app p rest : take (N.of_nat (length p)) (p ++ rest) = Some (p, rest).
Proof.
  unfold take. rewrite app_length, Nat2N.id.
  destruct (N.ltb_spec (N.of_nat (length p + length rest)) (N.of_nat (length p))); [lia|].
  rewrite firstn_app, Nat.sub_diag, firstn_all, firstn_O, app_nil_r.
  rewrite skipn_app, Nat.sub_diag, skipn_all. reflexivity.
Qed.

Lemma take_short n bs : N.of_nat (length bs) < n -> take n bs = None.
Proof. intros H. unfold take. apply N.ltb_lt in H. rewrite H. reflexivity. Qed.

Lemma take_spec n bs p r : take n bs = Some (p, r) -> bs = p ++ r /\ N.of_nat (length p) = n.
Proof.
  unfold take. destruct (N.ltb_spec (N.of_nat (length bs)) n); [discriminate|].
  intros E. inversion E; subst. split.
  - symmetry. apply firstn_skipn.
  - rewrite firstn_length_le by lia. apply N2Nat.id.
Qed.

Lemma decode_encode_frame f rest : wf_frame f -> decode_frame (encode_frame f ++ rest) = Some (f, rest).
Proof.
  intros (Ht & _ & Hl). unfold decode_frame, encode_frame, frame_header.
  rewrite <- !app_assoc.
  pose proof max_payload_lt_u32.
  rewrite recv_header_encode by lia. cbn zeta.
  destruct (N.ltb_spec VMD_MAX_PAYLOAD (N.of_nat (length (f_payload f)))); [lia|].
  cbn [h_len h_type]. rewrite take_app. destruct f; reflexivity.
Qed.

Lemma decode_frame_nil : decode_frame [] = None.
Proof. reflexivity. Qed.

Lemma encode_frame_length f : (8 <= length (encode_frame f))%nat.
Proof.
  unfold encode_frame, frame_header, encode_header. rewrite !app_length, !le_bytes_length. simpl. lia.
Qed.

Lemma frames_length_le fs : (length fs <= length (concat (map encode_frame fs)))%nat.
Proof.
  induction fs as [|f fs IH]; simpl; [lia|]. rewrite app_length. pose proof (encode_frame_length f). lia.
Qed.

Lemma decode_frames_fuel_encode fs : forall fuel, (length fs < fuel)%nat -> Forall wf_frame fs ->
  decode_frames_fuel fuel (concat (map encode_frame fs)) = (fs, []).
Proof.
  induction fs as [|f fs IH]; intros fuel Hf Hw.
  - destruct fuel; [simpl in Hf; lia|]. reflexivity.
  - destruct fuel; [simpl in Hf; lia|]. inversion Hw; subst.
    cbn [map concat decode_frames_fuel]. rewrite decode_encode_frame by assumption.
    rewrite IH by (simpl in Hf; try lia; assumption). reflexivity.
Qed.

Lemma decode_frames_encode fs : Forall wf_frame fs -> decode_frames (concat (map encode_frame fs)) = (fs, []).
Proof.
  intros H. unfold decode_frames. apply decode_frames_fuel_encode; [|exact H].
  pose proof (frames_length_le fs). lia.
Qed.

(* a frame cut short is not accepted as a frame *)
Lemma decode_frame_truncated f k : wf_frame f -> (k < length (encode_frame f))%nat ->
  decode_frame (firstn k (encode_frame f)) = None.
Proof.
  intros Hw Hk. unfold decode_frame.
  destruct (recv_header (firstn k (encode_frame f))) as [| | |h rest] eqn:E; try reflexivity.
  (* header complete: k >= 8, payload short *)
  assert (K8 : (8 <= k)%nat).
  { destruct (Nat.le_gt_cases 8 k); [assumption|]. exfalso.
    assert (L : (length (firstn k (encode_frame f)) < 8)%nat) by (rewrite firstn_length; lia).
    unfold recv_header in E.
    destruct (firstn k (encode_frame f)) as [|a [|b [|c [|d [|e [|g [|i [|j r]]]]]]]]; try discriminate; simpl in L; lia. }
  destruct Hw as (Ht & _ & Hl).
  unfold encode_frame in *.
  assert (HL : length (frame_header f) = 8%nat).
  { unfold frame_header, encode_header. rewrite !app_length, !le_bytes_length. reflexivity. }
  rewrite firstn_app, HL in E. rewrite firstn_all2 in E by lia.
  unfold frame_header in E. pose proof max_payload_lt_u32.
  rewrite recv_header_encode in E by lia. cbn zeta in E.
  destruct (N.ltb_spec VMD_MAX_PAYLOAD (N.of_nat (length (f_payload f)))); [lia|].
  inversion E; subst. cbn [h_len].
  rewrite take_short; [reflexivity|].
  rewrite firstn_length. rewrite app_length, HL in Hk. lia.
Qed.

(* ------------------------------------------------------------------ writes *)
Definition wr_none (w : wr) : Prop := w_left w = None /\ w_killed w = false.

Lemma write_none c w data : wr_none w ->
  wr_none (write c w data) /\ w_sent (write c w data) = w_sent w ++ data.
Proof.
  intros (Hl & Hk). unfold write. rewrite Hk, Hl.
  destruct data; [rewrite app_nil_r; split; [split|]; auto|].
  split; [split|]; reflexivity.
Qed.

Lemma send_none c w f : wr_none w ->
  wr_none (send c w f) /\ w_sent (send c w f) = w_sent w ++ encode_frame f.
Proof.
  intros H. pose proof H as (Hl & Hk). unfold send. rewrite Hl.
  destruct (write_none c w (frame_header f) H) as (H1 & E1).
  destruct (write_none c _ (f_payload f) H1) as (H2 & E2).
  split; [exact H2|]. rewrite E2, E1. unfold encode_frame. rewrite app_assoc. reflexivity.
Qed.

Definition output_frames (chunks : list (list byte)) : list frame :=
  map (fr VMD_MSG_OUTPUT) (filter (fun ch => match ch with [] => false | _ => true end) chunks).

Lemma send_chunks_none c chunks : forall w, wr_none w ->
  wr_none (send_chunks c w chunks) /\
  w_sent (send_chunks c w chunks) = w_sent w ++ concat (map encode_frame (output_frames chunks)).
Proof.
  induction chunks as [|ch r IH]; intros w H; cbn [send_chunks].
  - unfold output_frames. simpl. rewrite app_nil_r. auto.
  - destruct ch as [|b ch].
    + destruct (IH w H) as (A & B). split; [exact A|]. rewrite B. reflexivity.
    + destruct (send_none c w (fr VMD_MSG_OUTPUT (b :: ch)) H) as (A & B).
      destruct (IH _ A) as (A' & B'). split; [exact A'|]. rewrite B', B.
      unfold output_frames. cbn [filter map concat]. rewrite <- app_assoc. reflexivity.
Qed.

(* the frames a LOAD_EXEC session writes when the client reads everything *)
Definition load_exec_frames (c : cfg) (O : vm_oracle) (h : hdr) (rest : list byte) : list frame :=
  if (h_len h =? 0) || (VMD_MAX_PAYLOAD <? h_len h) then [error_frame txt_invalid_size]
  else match take (h_len h) rest with
  | None => [error_frame txt_payload_read]
  | Some (blob, _) =>
      if negb (o_deser O blob) then [error_frame txt_invalid_nvm]
      else match (if c_verify_first c then o_verify O blob else None) with
      | Some msg => [error_frame (txt_verify_failed ++ msg); exit_frame 1]
      | None => match o_run O blob with
                | Crashed chunks => output_frames chunks
                | Ran chunks None st _ => output_frames chunks ++ [exit_frame (if c_exit_from_main c then st mod 256 else 0)]
                | Ran chunks (Some e) _ _ => output_frames chunks ++ [error_frame e; exit_frame 1]
                end
      end
  end.

Lemma concat_map_app {A B} (g : A -> list B) l1 l2 : concat (map g (l1 ++ l2)) = concat (map g l1) ++ concat (map g l2).
Proof. rewrite map_app, concat_app. reflexivity. Qed.

Lemma load_exec_none c O h rest w : wr_none w ->
  w_left (load_exec c O h rest w) = None /\
  w_sent (load_exec c O h rest w) = w_sent w ++ concat (map encode_frame (load_exec_frames c O h rest)).
Proof.
  intros H. unfold load_exec, load_exec_frames.
  assert (S1 : forall f, w_left (send c w f) = None /\ w_sent (send c w f) = w_sent w ++ concat (map encode_frame [f])).
  { intros f. destruct (send_none c w f H) as ((A & _) & B). cbn [map concat]. rewrite app_nil_r. auto. }
  destruct ((h_len h =? 0) || (VMD_MAX_PAYLOAD <? h_len h)); [apply S1|].
  destruct (take (h_len h) rest) as [[blob r]|]; [|apply S1].
  destruct (negb (o_deser O blob)); [apply S1|].
  destruct (if c_verify_first c then o_verify O blob else None) as [msg|].
  - destruct (send_none c w (error_frame (txt_verify_failed ++ msg)) H) as (A & B).
    destruct (send_none c _ (exit_frame 1) A) as ((A' & _) & B'). split; [exact A'|].
    rewrite B', B. cbn [map concat]. rewrite app_nil_r, <- app_assoc. reflexivity.
  - destruct (o_run O blob) as [chunks [e|] st ffi|chunks].
    + destruct (send_chunks_none c chunks w H) as (A & B).
      destruct (send_none c _ (error_frame e) A) as (A1 & B1).
      destruct (send_none c _ (exit_frame 1) A1) as ((A2 & _) & B2). split; [exact A2|].
      rewrite B2, B1, B, concat_map_app. cbn [map concat]. rewrite app_nil_r, <- !app_assoc. reflexivity.
    + destruct (send_chunks_none c chunks w H) as (A & B).
      destruct (send_none c _ (exit_frame (if c_exit_from_main c then st mod 256 else 0)) A) as ((A2 & _) & B2). split; [exact A2|].
      rewrite B2, B, concat_map_app. cbn [map concat]. rewrite app_nil_r, <- !app_assoc. reflexivity.
    + destruct (send_chunks_none c chunks w H) as ((A & _) & B). unfold kill. cbn [w_left w_sent]. auto.
Qed.

(* the frames of a whole session *)
Definition reply_frames (c : cfg) (O : vm_oracle) (input : list byte) (d : daemon) : list frame :=
  match recv_header input with
  | ROk h rest =>
      if h_type h =? VMD_MSG_PING then [fr VMD_MSG_PONG []]
      else if h_type h =? VMD_MSG_SHUTDOWN then [fr VMD_MSG_PONG []]
      else if h_type h =? VMD_MSG_STATUS then [fr VMD_MSG_STATUS_RSP (txt_active ++ dec_Z (active d + 1))]
      else if h_type h =? VMD_MSG_LOAD_EXEC then load_exec_frames c O h rest
      else [error_frame txt_unknown_type]
  | _ => []
  end.

Definition w_init (wb : option nat) : wr := {| w_sent := []; w_left := wb; w_killed := false |}.

Lemma reply_is_frames c O input d : alive d = true ->
  fst (client_thread c O input None d) = concat (map encode_frame (reply_frames c O input d)).
Proof.
  intros Ha. unfold client_thread, reply_frames. rewrite Ha. cbn [negb].
  assert (H0 : wr_none (w_init None)) by (split; reflexivity).
  fold (w_init None).
  assert (S1 : forall f, w_sent (send (now c d) (w_init None) f) = concat (map encode_frame [f])).
  { intros f. destruct (send_none (now c d) _ f H0) as (_ & B). rewrite B. cbn [map concat w_init w_sent]. rewrite app_nil_r. reflexivity. }
  destruct (recv_header input) as [| | |h rest]; try reflexivity.
  destruct (h_type h =? VMD_MSG_PING); [cbn [fst]; apply S1|].
  destruct (h_type h =? VMD_MSG_SHUTDOWN); [cbn [fst]; apply S1|].
  destruct (h_type h =? VMD_MSG_STATUS); [cbn [fst active]; apply S1|].
  destruct (h_type h =? VMD_MSG_LOAD_EXEC); [|cbn [fst]; apply S1].
  cbn [fst]. destruct (load_exec_none (now c d) O h rest _ H0) as (_ & B). rewrite B. reflexivity.
Qed.

(* Closed (no byte written) exactly when the header is refused; otherwise at least one frame, except for a module
   that crashes the process before its first output *)
Lemma closed_iff_header_refused c O input d :
  (forall h rest, recv_header input <> ROk h rest) -> reply_frames c O input d = [].
Proof.
  intros H. unfold reply_frames. destruct (recv_header input) as [| | |h rest]; try reflexivity.
  exfalso. eapply H. reflexivity.
Qed.

(* ------------------------------------------------------------------ cut points: what a disconnecting client received is a prefix *)
Definition prefix (a b : list byte) : Prop := exists t, b = a ++ t.
Lemma prefix_refl a : prefix a a. Proof. exists []. rewrite app_nil_r. reflexivity. Qed.
Lemma prefix_app_r a b t : prefix a b -> prefix a (b ++ t).
Proof. intros (u & ->). exists (u ++ t). rewrite app_assoc. reflexivity. Qed.

(* w: the run with a cut, w': the uncut run of the same handler *)
Definition cutrel (w w' : wr) : Prop :=
  w_left w' = None /\
  ((w_sent w = w_sent w' /\ w_killed w = w_killed w') \/
   (prefix (w_sent w) (w_sent w') /\ (w_left w = Some O \/ w_killed w = true))).

Lemma write_frozen c w data : (w_left w = Some O \/ w_killed w = true) ->
  w_sent (write c w data) = w_sent w /\ (w_left (write c w data) = Some O \/ w_killed (write c w data) = true).
Proof.
  intros H. unfold write. destruct (w_killed w) eqn:K; [auto|].
  destruct H as [H|H]; [|discriminate]. destruct data; [auto|]. rewrite H.
  destruct (c_ignores_sigpipe c); cbn; auto.
Qed.

Lemma write_cut c w w' data : cutrel w w' -> cutrel (write c w data) (write c w' data).
Proof.
  intros (Hn & H). unfold cutrel.
  assert (Hn' : w_left (write c w' data) = None).
  { unfold write. destruct (w_killed w'); [exact Hn|]. destruct data; [exact Hn|]. rewrite Hn. reflexivity. }
  split; [exact Hn'|].
  assert (P' : prefix (w_sent w') (w_sent (write c w' data))).
  { unfold write. destruct (w_killed w'); [apply prefix_refl|]. destruct data; [apply prefix_refl|].
    rewrite Hn. cbn. exists (b :: data). reflexivity. }
  destruct H as [(Es & Ek)|(P & Fz)].
  - (* in step so far *)
    unfold write at 1 3 4 5. rewrite <- Ek. destruct (w_killed w) eqn:K.
    { left. unfold write. rewrite <- Ek, K. auto. }
    destruct data as [|b data]. { left. unfold write. rewrite <- Ek, K. auto. }
    unfold write. rewrite <- Ek, K, Hn.
    destruct (w_left w) as [[|k]|] eqn:L.
    + right. destruct (c_ignores_sigpipe c); cbn; (split; [rewrite Es; exists (b :: data); reflexivity|auto]).
    + left. cbn. rewrite Es. auto.
    + left. cbn. rewrite Es. auto.
  - right. destruct (write_frozen c w data Fz) as (E & F). rewrite E. split; [|exact F].
    destruct P as (t & Pt). destruct P' as (u & Pu). exists (t ++ u). rewrite Pu, Pt, app_assoc. reflexivity.
Qed.

Lemma send_cut c w w' f : cutrel w w' -> cutrel (send c w f) (send c w' f).
Proof.
  intros H. pose proof H as (Hn & _). unfold send at 2. rewrite Hn.
  unfold send. destruct (w_left w) as [[|k]|] eqn:L; destruct (w_killed w) eqn:K;
    try (apply write_cut; apply write_cut; exact H).
  (* header write fails on the cut side: the payload write it skips would have failed as well *)
  pose proof (write_cut c _ _ (frame_header f) H) as H1.
  destruct H1 as (Hn1 & H1).
  assert (Fz : w_left (write c w (frame_header f)) = Some O \/ w_killed (write c w (frame_header f)) = true).
  { unfold write. rewrite K. destruct (frame_header f); [auto|]. rewrite L. destruct (c_ignores_sigpipe c); cbn; auto. }
  pose proof (write_cut c _ _ (f_payload f) (conj Hn1 H1)) as (Hn2 & H2).
  split; [exact Hn2|]. right.
  destruct (write_frozen c _ (f_payload f) Fz) as (E2 & F2).
  destruct H2 as [(Es & Ek)|(P & _)].
  - split; [|exact Fz]. rewrite <- Es, E2. apply prefix_refl.
  - split; [|exact Fz]. rewrite E2 in P. exact P.
Qed.

Lemma send_chunks_cut c chunks : forall w w', cutrel w w' -> cutrel (send_chunks c w chunks) (send_chunks c w' chunks).
Proof.
  induction chunks as [|ch r IH]; intros w w' H; cbn [send_chunks]; [exact H|].
  apply IH. destruct ch; [exact H|]. apply send_cut. exact H.
Qed.

Lemma kill_cut w w' : cutrel w w' -> cutrel (kill w) (kill w').
Proof.
  intros (Hn & H). split; [exact Hn|]. unfold kill; cbn.
  destruct H as [(Es & Ek)|(P & _)]; [left; auto|right; auto].
Qed.

Lemma load_exec_cut c O h rest w w' : cutrel w w' -> cutrel (load_exec c O h rest w) (load_exec c O h rest w').
Proof.
  intros H. unfold load_exec.
  destruct ((h_len h =? 0) || (VMD_MAX_PAYLOAD <? h_len h)); [apply send_cut; exact H|].
  destruct (take (h_len h) rest) as [[blob r]|]; [|apply send_cut; exact H].
  destruct (negb (o_deser O blob)); [apply send_cut; exact H|].
  destruct (if c_verify_first c then o_verify O blob else None).
  - apply send_cut, send_cut, H.
  - destruct (o_run O blob) as [chunks [e|] st ffi|chunks].
    + apply send_cut, send_cut, send_chunks_cut, H.
    + apply send_cut, send_chunks_cut, H.
    + apply kill_cut, send_chunks_cut, H.
Qed.

Lemma cutrel_init wb : cutrel (w_init wb) (w_init None).
Proof. split; [reflexivity|]. left. split; reflexivity. Qed.

Lemma cutrel_prefix w w' : cutrel w w' -> prefix (w_sent w) (w_sent w').
Proof. intros (_ & [(E & _)|(P & _)]); [rewrite E; apply prefix_refl|exact P]. Qed.

Lemma cut_is_prefix c O input wb d :
  prefix (fst (client_thread c O input wb d)) (fst (client_thread c O input None d)).
Proof.
  unfold client_thread. destruct (alive d); cbn [negb]; [|apply prefix_refl].
  fold (w_init wb). fold (w_init None). pose proof (cutrel_init wb) as H0.
  destruct (recv_header input) as [| | |h rest]; cbn [fst]; try apply prefix_refl.
  destruct (h_type h =? VMD_MSG_PING); [cbn [fst]; apply cutrel_prefix, send_cut, H0|].
  destruct (h_type h =? VMD_MSG_SHUTDOWN); [cbn [fst]; apply cutrel_prefix, send_cut, H0|].
  destruct (h_type h =? VMD_MSG_STATUS); [cbn [fst]; apply cutrel_prefix, send_cut, H0|].
  destruct (h_type h =? VMD_MSG_LOAD_EXEC); cbn [fst]; [apply cutrel_prefix, load_exec_cut, H0|apply cutrel_prefix, send_cut, H0].
Qed.

(* ------------------------------------------------------------------ cleanup and survival *)
Definition header_refused (input : list byte) : Prop := forall h rest, recv_header input <> ROk h rest.

Definition fin_state (d : daemon) (w : wr) (sd sg : bool) : daemon :=
  if w_killed w then {| alive := false; active := active d + 1; shutdown := sd; sigign := sg |}
  else {| alive := true; active := active d + 1 - 1; shutdown := sd; sigign := sg |}.

(* the shape of client_thread's result: some final write state, shutdown flag and disposition *)
Lemma client_thread_shape c O input wb d : alive d = true ->
  exists w sd sg, client_thread c O input wb d = (w_sent w, fin_state d w sd sg) /\
    (sg = sigign d \/ (exists v, c_ffi_sets c = Some v /\ sg = v)) /\
    ((forall data w', w_killed w' = false -> w_killed (write (now c d) w' data) = false) ->
     (forall b ch, o_deser O b = true -> (if c_verify_first c then o_verify O b else None) = None -> o_run O b <> Crashed ch) ->
     w_killed w = false).
Proof.
  intros Ha. unfold client_thread. rewrite Ha. cbn [negb].
  set (w0 := {| w_sent := []; w_left := wb; w_killed := false |}).
  assert (SU : forall f w', (forall data w'', w_killed w'' = false -> w_killed (write (now c d) w'' data) = false) ->
                 w_killed w' = false -> w_killed (send (now c d) w' f) = false).
  { intros f w' HW K. unfold send. destruct (w_left w') as [[|k]|]; rewrite ?K; repeat apply HW; auto. }
  assert (SC : forall chunks w', (forall data w'', w_killed w'' = false -> w_killed (write (now c d) w'' data) = false) ->
                 w_killed w' = false -> w_killed (send_chunks (now c d) w' chunks) = false).
  { induction chunks as [|ch r IH]; intros w' HW K; cbn [send_chunks]; [exact K|].
    apply IH; [exact HW|]. destruct ch; [exact K|apply SU; auto]. }
  destruct (recv_header input) as [| | |h rest].
  1-3: (exists w0, (shutdown d), (sigign d); split; [reflexivity|split; [left; reflexivity|intros _ _; reflexivity]]).
  destruct (h_type h =? VMD_MSG_PING).
  { eexists _, _, _. split; [reflexivity|split; [left; reflexivity|intros HW _; apply SU; auto]]. }
  destruct (h_type h =? VMD_MSG_SHUTDOWN).
  { eexists _, _, _. split; [reflexivity|split; [left; reflexivity|intros HW _; apply SU; auto]]. }
  destruct (h_type h =? VMD_MSG_STATUS).
  { eexists _, _, _. split; [reflexivity|split; [left; reflexivity|intros HW _; apply SU; auto]]. }
  destruct (h_type h =? VMD_MSG_LOAD_EXEC).
  2:{ eexists _, _, _. split; [reflexivity|split; [left; reflexivity|intros HW _; apply SU; auto]]. }
  eexists _, _, _. split; [reflexivity|]. split.
  - destruct (used_cop (now c d) O h rest); [|left; reflexivity].
    cbn [now c_ffi_sets]. destruct (c_ffi_sets c) as [v|]; [right; exists v; auto|left; reflexivity].
  - intros HW HS. unfold load_exec.
    destruct ((h_len h =? 0) || (VMD_MAX_PAYLOAD <? h_len h)); [apply SU; auto|].
    destruct (take (h_len h) rest) as [[blob r]|]; [|apply SU; auto].
    destruct (o_deser O blob) eqn:D; cbn [negb]; [|apply SU; auto].
    cbn [now c_verify_first c_exit_from_main].
    destruct (if c_verify_first c then o_verify O blob else None) as [msg|] eqn:V.
    + repeat apply SU; auto.
    + destruct (o_run O blob) as [chunks [e|] st ffi|chunks] eqn:R.
      * repeat apply SU; auto.
      * repeat apply SU; auto.
      * exfalso. exact (HS blob chunks D V R).
Qed.

Lemma client_thread_cleanup c O input wb d :
  alive d = true -> alive (snd (client_thread c O input wb d)) = true ->
  active (snd (client_thread c O input wb d)) = active d.
Proof.
  intros Ha. destruct (client_thread_shape c O input wb d Ha) as (w & sd & sg & E & _). rewrite E. cbn [snd].
  unfold fin_state. destruct (w_killed w); cbn; [discriminate|intros _; lia].
Qed.

Lemma write_unkilled c w data : c_ignores_sigpipe c = true -> w_killed w = false -> w_killed (write c w data) = false.
Proof.
  intros Hc Hk. unfold write. rewrite Hk. destruct data; [exact Hk|].
  destruct (w_left w) as [[|k]|]; [rewrite Hc; exact Hk|reflexivity|reflexivity].
Qed.

(* no accepted-and-verified module makes the VM fault (the statement of C13's vm_safe, here a hypothesis on the oracle) *)
Definition oracle_safe (O : vm_oracle) : Prop :=
  forall b ch, o_deser O b = true -> o_verify O b = None -> o_run O b <> Crashed ch.
(* no module at all makes the VM fault *)
Definition oracle_total (O : vm_oracle) : Prop := forall b ch, o_run O b <> Crashed ch.

Definition exec_guard (c : cfg) (O : vm_oracle) : Prop :=
  (c_verify_first c = true /\ oracle_safe O) \/ oracle_total O.

(* no session leaves SIGPIPE at anything but SIG_IGN *)
Definition keeps_sigign (c : cfg) : Prop := c_ffi_sets c <> Some false.

Lemma client_thread_survives c O input wb d :
  keeps_sigign c -> exec_guard c O -> alive d = true -> sigign d = true ->
  alive (snd (client_thread c O input wb d)) = true /\ sigign (snd (client_thread c O input wb d)) = true.
Proof.
  intros Hk G Ha Hs. destruct (client_thread_shape c O input wb d Ha) as (w & sd & sg & E & SG & KW). rewrite E. cbn [snd].
  assert (K : w_killed w = false).
  { apply KW.
    - intros data w' K'. apply write_unkilled; [exact Hs|exact K'].
    - intros b ch D V R. destruct G as [(Vf & S)|T].
      + rewrite Vf in V. exact (S b ch D V R).
      + exact (T b ch R). }
  unfold fin_state. rewrite K. cbn. split; [reflexivity|].
  destruct SG as [->|(v & Ev & ->)]; [exact Hs|].
  destruct v; [reflexivity|]. exfalso. exact (Hk Ev).
Qed.

Lemma serve_survives c O : keeps_sigign c -> exec_guard c O ->
  forall ss d, alive d = true -> sigign d = true ->
  alive (serve c O d ss) = true /\ active (serve c O d ss) = active d /\ sigign (serve c O d ss) = true.
Proof.
  intros Hk G. induction ss as [|s ss IH]; intros d Ha Hs; [split; [exact Ha|split; [reflexivity|exact Hs]]|].
  unfold serve. cbn [fold_left]. fold (serve c O (snd (client_thread c O (fst s) (snd s) d)) ss).
  destruct (client_thread_survives c O (fst s) (snd s) d Hk G Ha Hs) as (A1 & S1).
  pose proof (client_thread_cleanup c O (fst s) (snd s) d Ha A1) as C1.
  destruct (IH _ A1 S1) as (A2 & C2 & S2). split; [exact A2|]. split; [rewrite C2; exact C1|exact S2].
Qed.

(* daemon_survives, for any configuration that starts with SIGPIPE ignored, in which no session resets the disposition, and
   that verifies before executing *)
Lemma daemon_survives_generic c O ss :
  c_ignores_sigpipe c = true -> keeps_sigign c -> c_verify_first c = true -> oracle_safe O ->
  alive (serve c O (boot c) ss) = true /\ active (serve c O (boot c) ss) = 0%Z /\ sigign (serve c O (boot c) ss) = true.
Proof.
  intros Hc Hk Hv S. apply (serve_survives c O Hk (or_introl (conj Hv S)) ss (boot c)); [reflexivity|exact Hc].
Qed.

(* without verification the daemon still survives every session list in which no submitted module faults:
   all the malformed / truncated / abandoned behaviours fall under this *)
Lemma daemon_survives_benign c O ss :
  c_ignores_sigpipe c = true -> keeps_sigign c -> oracle_total O ->
  alive (serve c O (boot c) ss) = true /\ active (serve c O (boot c) ss) = 0%Z /\ sigign (serve c O (boot c) ss) = true.
Proof.
  intros Hc Hk T. apply (serve_survives c O Hk (or_intror T) ss (boot c)); [reflexivity|exact Hc].
Qed.

(* the refutation: a handler that executes without verifying is killed by one session *)
Definition hostile_oracle : vm_oracle :=
  {| o_deser := fun _ => true; o_verify := fun _ => Some []; o_run := fun _ => Crashed [] |}.
Definition hostile_session : session := (load_exec_request [0], None).

Lemma hostile_oracle_safe : oracle_safe hostile_oracle.
Proof. intros b ch _ V. discriminate. Qed.

Lemma unverified_daemon_dies c : c_ignores_sigpipe c = true -> c_verify_first c = false ->
  alive (serve c hostile_oracle (boot c) [hostile_session]) = false.
Proof. destruct c as [i v x f]. cbn [c_verify_first c_ignores_sigpipe]. intros -> ->. destruct x, f as [[|]|]; vm_compute; reflexivity. Qed.

(* and the SIGPIPE disposition matters: with the default disposition an abandoned session kills the daemon *)
Definition benign_oracle : vm_oracle :=
  {| o_deser := fun _ => false; o_verify := fun _ => None; o_run := fun _ => Ran [] None 0 false |}.
Lemma benign_oracle_total : oracle_total benign_oracle.
Proof. intros b ch. discriminate. Qed.
Lemma sigpipe_default_kills c : c_ignores_sigpipe c = false ->
  alive (serve c benign_oracle (boot c) [(encode_frame (fr VMD_MSG_PING []), Some O)]) = false.
Proof. destruct c as [i v x f]. cbn [c_ignores_sigpipe]. intros ->. destruct v, x, f as [[|]|]; vm_compute; reflexivity. Qed.

(* ... and it is state: a session whose program used the FFI co-process, in a daemon where such a session leaves the disposition
   at something else than SIG_IGN, followed by a client that hangs up while its program prints, kills a daemon that had started
   with SIGPIPE ignored.  Both programs are accepted, verified and harmless. *)
Definition ffi_oracle : vm_oracle :=
  {| o_deser := fun _ => true; o_verify := fun _ => None;
     o_run := fun b => match b with [1] => Ran [[52; 50; 10]] None 0 true | _ => Ran [[99; 10]; [99; 10]; [99; 10]] None 0 false end |}.
Lemma ffi_oracle_total : oracle_total ffi_oracle.
Proof.
  intros b ch. unfold ffi_oracle; cbn.
  repeat (match goal with |- context [match ?x with _ => _ end] => destruct x end); discriminate.
Qed.
Definition ffi_then_abandon : list session := [(load_exec_request [1], None); (load_exec_request [2], Some 2%nat)].

Lemma ffi_reset_kills c : c_ignores_sigpipe c = true -> c_ffi_sets c = Some false ->
  alive (serve c ffi_oracle (boot c) ffi_then_abandon) = false /\
  alive (serve c ffi_oracle (boot c) (rev ffi_then_abandon)) = true /\
  alive (serve c ffi_oracle (boot c) [(load_exec_request [2], Some 2%nat)]) = true.
Proof. destruct c as [i v x f]. cbn [c_ignores_sigpipe c_ffi_sets]. intros -> ->. destruct v, x; vm_compute; repeat split; reflexivity. Qed.

(* ---- the SIGPIPE-setting calls of the sources (NV.gen.SigpipeSites) ---- *)
(* calls a session can reach, outside a forked child *)
Definition session_site (s : sigsite) : bool := ss_session s && negb (ss_child s).
(* every one of them installs SIG_IGN *)
Definition sigpipe_sites_ok : bool := forallb (fun s => negb (session_site s) || (ss_value s =? 1)%N) sigpipe_sites.
(* the daemon's start-up installs SIG_IGN somewhere *)
Definition sigpipe_startup_ignores : bool := existsb (fun s => ss_startup s && negb (ss_child s) && (ss_value s =? 1)%N) sigpipe_sites.
Definition ffi_sets_of (sites : list sigsite) : option bool :=
  if existsb (fun s => session_site s && negb (ss_value s =? 1)%N) sites then Some false
  else if existsb session_site sites then Some true else None.

Lemma sites_ok_keeps : sigpipe_sites_ok = true -> ffi_sets_of sigpipe_sites <> Some false.
Proof.
  unfold sigpipe_sites_ok, ffi_sets_of. intros H.
  destruct (existsb (fun s => session_site s && negb (ss_value s =? 1)%N) sigpipe_sites) eqn:E.
  - exfalso. apply existsb_exists in E. destruct E as (s & Hin & Hs). rewrite forallb_forall in H. specialize (H s Hin).
    apply andb_true_iff in Hs. destruct Hs as (A & B). rewrite A in H. cbn in H. rewrite H in B. discriminate.
  - destruct (existsb session_site sigpipe_sites); discriminate.
Qed.

(* the daemon as it is built today *)
Definition real_cfg : cfg :=
  {| c_ignores_sigpipe := vmd_ignores_sigpipe; c_verify_first := verify_before_execute;
     c_exit_from_main := vmd_exit_from_main; c_ffi_sets := ffi_sets_of sigpipe_sites |}.

Lemma daemon_survives_current :
  vmd_ignores_sigpipe = true ->
  (sigpipe_sites_ok = true ->
     (verify_before_execute = true ->
        forall O ss, oracle_safe O ->
          alive (serve real_cfg O (boot real_cfg) ss) = true /\ active (serve real_cfg O (boot real_cfg) ss) = 0%Z /\
          sigign (serve real_cfg O (boot real_cfg) ss) = true) /\
     (verify_before_execute = false ->
        (exists O ss, oracle_safe O /\ alive (serve real_cfg O (boot real_cfg) ss) = false) /\
        (forall O ss, oracle_total O ->
          alive (serve real_cfg O (boot real_cfg) ss) = true /\ active (serve real_cfg O (boot real_cfg) ss) = 0%Z /\
          sigign (serve real_cfg O (boot real_cfg) ss) = true))) /\
  (ffi_sets_of sigpipe_sites = Some false ->
     exists O ss, oracle_total O /\ alive (serve real_cfg O (boot real_cfg) ss) = false).
Proof.
  intros Hs. split.
  - intros Hok. pose proof (sites_ok_keeps Hok) as Hk. split.
    + intros Hv O ss S. apply daemon_survives_generic; auto.
    + intros Hv. split.
      * exists hostile_oracle, [hostile_session]. split; [apply hostile_oracle_safe|].
        apply unverified_daemon_dies; [exact Hs|exact Hv].
      * intros O ss T. apply daemon_survives_benign; auto.
  - intros Hf. exists ffi_oracle, ffi_then_abandon. split; [apply ffi_oracle_total|].
    apply (ffi_reset_kills real_cfg); [exact Hs|exact Hf].
Qed.

(* every session ends: with the reply a prefix of a well-formed frame sequence (the whole sequence when the client keeps
   reading), with nothing at all exactly when the header is refused, and with the client count restored *)
Lemma session_ends c O input wb d : alive d = true ->
  exists sent d', client_thread c O input wb d = (sent, d') /\
    prefix sent (concat (map encode_frame (reply_frames c O input d))) /\
    (wb = None -> sent = concat (map encode_frame (reply_frames c O input d))) /\
    (header_refused input -> sent = [] /\ alive d' = true /\ sigign d' = sigign d) /\
    (alive d' = true -> active d' = active d).
Proof.
  intros Ha. destruct (client_thread c O input wb d) as [sent d'] eqn:E. exists sent, d'.
  split; [reflexivity|].
  pose proof (cut_is_prefix c O input wb d) as P. rewrite E in P. cbn [fst] in P.
  rewrite (reply_is_frames c O input d Ha) in P.
  split; [exact P|]. split; [|split].
  - intros ->. pose proof (reply_is_frames c O input d Ha) as R. rewrite E in R. exact R.
  - intros HR. rewrite (closed_iff_header_refused c O input d HR) in P. destruct P as (t & Pt).
    cbn [map concat] in Pt. symmetry in Pt. apply app_eq_nil in Pt. split; [tauto|].
    revert E. unfold client_thread. rewrite Ha. cbn [negb].
    destruct (recv_header input) as [| | |h rest] eqn:RH; try (intros E; inversion E; split; reflexivity).
    exfalso. exact (HR h rest RH).
  - intros A'. pose proof (client_thread_cleanup c O input wb d Ha) as C. rewrite E in C. apply C. exact A'.
Qed.

(* ------------------------------------------------------------------ replies do not depend on the daemon's history *)
Lemma reply_independent c O input wb d1 d2 :
  alive d1 = true -> alive d2 = true -> sigign d1 = sigign d2 ->
  (forall h rest, recv_header input = ROk h rest -> h_type h <> VMD_MSG_STATUS) ->
  fst (client_thread c O input wb d1) = fst (client_thread c O input wb d2).
Proof.
  intros A1 A2 SG NS. unfold client_thread. rewrite A1, A2. cbn [negb].
  assert (EN : now c d1 = now c d2) by (unfold now; rewrite SG; reflexivity). rewrite EN.
  destruct (recv_header input) as [| | |h rest] eqn:E; try reflexivity.
  specialize (NS h rest eq_refl).
  destruct (h_type h =? VMD_MSG_PING); [reflexivity|].
  destruct (h_type h =? VMD_MSG_SHUTDOWN); [reflexivity|].
  destruct (N.eqb_spec (h_type h) VMD_MSG_STATUS); [contradiction|].
  destruct (h_type h =? VMD_MSG_LOAD_EXEC); reflexivity.
Qed.

Lemma later_clients_ok c O bad input wb :
  c_ignores_sigpipe c = true -> keeps_sigign c -> exec_guard c O ->
  (forall h rest, recv_header input = ROk h rest -> h_type h <> VMD_MSG_STATUS) ->
  fst (client_thread c O input wb (serve c O (boot c) bad)) = fst (client_thread c O input wb (boot c)).
Proof.
  intros Hc Hk G NS.
  destruct (serve_survives c O Hk G bad (boot c) eq_refl Hc) as (A & _ & S).
  apply reply_independent; [exact A|reflexivity|rewrite S; symmetry; exact Hc|exact NS].
Qed.

(* ------------------------------------------------------------------ transparency of a LOAD_EXEC session *)
Definition wf_chunk (ch : list byte) : Prop := bytes_ok ch /\ N.of_nat (length ch) <= VMD_MAX_PAYLOAD.

Lemma msg_types_distinct :
  (VMD_MSG_OUTPUT =? VMD_MSG_EXIT_CODE) = false /\ (VMD_MSG_ERROR =? VMD_MSG_EXIT_CODE) = false /\
  (VMD_MSG_ERROR =? VMD_MSG_OUTPUT) = false /\ VMD_MSG_OUTPUT < 256 /\ VMD_MSG_ERROR < 256 /\ VMD_MSG_EXIT_CODE < 256 /\
  VMD_MSG_LOAD_EXEC < 256 /\ (VMD_MSG_LOAD_EXEC =? VMD_MSG_PING) = false /\ (VMD_MSG_LOAD_EXEC =? VMD_MSG_SHUTDOWN) = false /\
  (VMD_MSG_LOAD_EXEC =? VMD_MSG_STATUS) = false.
Proof. vm_compute. repeat split; reflexivity. Qed.

Lemma recv_header_frame f rest : wf_frame f ->
  recv_header (encode_frame f ++ rest) =
  ROk {| h_version := VMD_VERSION; h_type := f_type f; h_flags := 0; h_len := N.of_nat (length (f_payload f)) |} (f_payload f ++ rest).
Proof.
  intros (Ht & _ & Hl). unfold encode_frame, frame_header. rewrite <- !app_assoc.
  pose proof max_payload_lt_u32. rewrite recv_header_encode by lia. cbn zeta.
  destruct (N.ltb_spec VMD_MAX_PAYLOAD (N.of_nat (length (f_payload f)))); [lia|]. reflexivity.
Qed.

Lemma client_loop_output fuel p rest out err : wf_chunk p ->
  client_loop (S fuel) (encode_frame (fr VMD_MSG_OUTPUT p) ++ rest) out err = client_loop fuel rest (out ++ p) err.
Proof.
  intros (Hb & Hl). destruct msg_types_distinct as (A & _ & _ & B & _).
  cbn [client_loop]. rewrite recv_header_frame by (repeat split; auto).
  cbn [h_type h_len fr f_type f_payload]. rewrite A, take_app, N.eqb_refl. reflexivity.
Qed.

Lemma client_loop_error fuel p rest out err : wf_chunk p -> p <> [] ->
  client_loop (S fuel) (encode_frame (error_frame p) ++ rest) out err = client_loop fuel rest out (err ++ p ++ [10]).
Proof.
  intros (Hb & Hl) Hne. destruct msg_types_distinct as (_ & A & A2 & _ & B & _).
  cbn [client_loop]. unfold error_frame. rewrite recv_header_frame by (repeat split; auto).
  cbn [h_type h_len fr f_type f_payload]. rewrite A, take_app, A2, N.eqb_refl. destruct p; [contradiction|reflexivity].
Qed.

Lemma client_loop_exit fuel code rest out err : code < 2 ^ 32 ->
  client_loop (S fuel) (encode_frame (exit_frame code) ++ rest) out err = (out, err, CExit code).
Proof.
  intros Hc. destruct msg_types_distinct as (_ & _ & _ & _ & _ & B & _).
  cbn [client_loop]. unfold exit_frame.
  assert (W : wf_frame (fr VMD_MSG_EXIT_CODE (le_bytes 4 code))).
  { split; [exact B|split; [apply le_bytes_ok|]]. cbn [fr f_payload]. rewrite le_bytes_length. vm_compute. discriminate. }
  rewrite recv_header_frame by exact W.
  cbn [h_type h_len fr f_payload f_type]. rewrite N.eqb_refl, le_bytes_length.
  change (N.of_nat 4) with 4. rewrite N.eqb_refl.
  change 4 with (N.of_nat (length (le_bytes 4 code))) at 1. rewrite take_app.
  rewrite of_le_le_bytes by (simpl; lia). reflexivity.
Qed.

Lemma client_loop_outputs chunks : forall fuel rest out err, Forall wf_chunk chunks ->
  client_loop (length (output_frames chunks) + fuel) (concat (map encode_frame (output_frames chunks)) ++ rest) out err =
  client_loop fuel rest (out ++ concat chunks) err.
Proof.
  induction chunks as [|ch r IH]; intros fuel rest out err Hw.
  - cbn. rewrite app_nil_r. reflexivity.
  - inversion Hw; subst. destruct ch as [|b ch].
    + unfold output_frames. cbn [filter concat app]. apply IH. assumption.
    + unfold output_frames. cbn [filter map concat length Nat.add]. fold (output_frames r).
      rewrite <- app_assoc, client_loop_output by assumption.
      rewrite IH by assumption. cbn [concat]. rewrite app_assoc. reflexivity.
Qed.

Definition wf_run (r : run_result) : Prop :=
  match r with
  | Ran chunks None _ _ => Forall wf_chunk chunks
  | Ran chunks (Some e) _ _ => Forall wf_chunk chunks /\ wf_chunk e /\ e <> []
  | Crashed _ => False
  end.

Lemma daemon_transparent c sm O blob d o :
  alive d = true ->
  bytes_ok blob -> blob <> [] -> N.of_nat (length blob) <= VMD_MAX_PAYLOAD ->
  wf_run (o_run O blob) ->
  c_exit_from_main c = sm ->
  standalone_observe sm O blob = Some o ->
  client_observe (fst (client_thread c O (load_exec_request blob) None d)) = o.
Proof.
  intros Ha Hb Hne Hl Hr Hsm Hs.
  rewrite reply_is_frames by exact Ha.
  unfold reply_frames, load_exec_request.
  destruct msg_types_distinct as (_ & _ & _ & _ & _ & _ & T1 & T2 & T3 & T4).
  assert (W : wf_frame (fr VMD_MSG_LOAD_EXEC blob)) by (repeat split; auto).
  rewrite <- (app_nil_r (encode_frame _)), recv_header_frame by exact W.
  cbn [h_type fr f_type f_payload]. rewrite T2, T3, T4, N.eqb_refl.
  unfold load_exec_frames. cbn [h_len].
  assert (L0 : (N.of_nat (length blob) =? 0) = false).
  { apply N.eqb_neq. destruct blob; [contradiction|]. cbn [length]. lia. }
  rewrite L0. destruct (N.ltb_spec VMD_MAX_PAYLOAD (N.of_nat (length blob))); [lia|]. cbn [orb].
  rewrite take_app.
  unfold standalone_observe in Hs.
  destruct (o_deser O blob); [|discriminate]. cbn [negb].
  destruct (o_verify O blob) as [m|] eqn:V; [discriminate|].
  replace (if c_verify_first c then None else None) with (@None (list byte)) by (destruct (c_verify_first c); reflexivity).
  unfold client_observe.
  destruct (o_run O blob) as [chunks [e|] st ffi|chunks]; cbn [wf_run] in Hr.
  - destruct Hr as (Hc & He & Hen). inversion Hs; subst o.
    rewrite concat_map_app. cbn [map concat]. rewrite app_nil_r.
    set (body := concat (map encode_frame (output_frames chunks))).
    set (tail := encode_frame (error_frame e) ++ encode_frame (exit_frame 1)).
    pose proof (frames_length_le (output_frames chunks)) as LL. fold body in LL.
    assert (TL : (16 <= length tail)%nat).
    { unfold tail. rewrite app_length. pose proof (encode_frame_length (error_frame e)).
      pose proof (encode_frame_length (exit_frame 1)). lia. }
    replace (S (length (body ++ tail))) with (length (output_frames chunks) + (S (length (body ++ tail)) - length (output_frames chunks)))%nat
      by (rewrite app_length; lia).
    unfold body. rewrite client_loop_outputs by exact Hc. fold body.
    remember (S (length (body ++ tail)) - length (output_frames chunks))%nat as k eqn:Ek.
    assert (K2 : (2 <= k)%nat) by (rewrite Ek, app_length; lia).
    destruct k as [|[|k]]; try lia. unfold tail.
    rewrite client_loop_error by assumption.
    rewrite <- (app_nil_r (encode_frame (exit_frame 1))), client_loop_exit by (vm_compute; reflexivity).
    cbn [app]. reflexivity.
  - inversion Hs; subst o. rewrite Hsm.
    set (code := if sm then st mod 256 else 0).
    assert (CL : code < 256) by (unfold code; destruct sm; [apply N.mod_lt; discriminate|reflexivity]).
    rewrite concat_map_app. cbn [map concat]. rewrite app_nil_r.
    set (body := concat (map encode_frame (output_frames chunks))).
    set (tail := encode_frame (exit_frame code)).
    pose proof (frames_length_le (output_frames chunks)) as LL. fold body in LL.
    assert (TL : (8 <= length tail)%nat) by apply encode_frame_length.
    replace (S (length (body ++ tail))) with (length (output_frames chunks) + (S (length (body ++ tail)) - length (output_frames chunks)))%nat
      by (rewrite app_length; lia).
    unfold body. rewrite client_loop_outputs by exact Hr. fold body.
    remember (S (length (body ++ tail)) - length (output_frames chunks))%nat as k eqn:Ek.
    assert (K2 : (1 <= k)%nat) by (rewrite Ek, app_length; lia).
    destruct k as [|k]; try lia. unfold tail.
    rewrite <- (app_nil_r (encode_frame (exit_frame code))), client_loop_exit by lia.
    destruct (N.leb_spec 2147483648 code); [lia|].
    rewrite (N.mod_small code 256) by exact CL. cbn [app]. reflexivity.
  - contradiction.
Qed.

(* ------------------------------------------------------------------ checks against generated data *)
Fixpoint list_N_eqb (a b : list N) : bool :=
  match a, b with [], [] => true | x :: a', y :: b' => (x =? y) && list_N_eqb a' b' | _, _ => false end.

Definition golden_model : list (list byte) :=
  [ encode_frame (fr VMD_MSG_PONG []); encode_frame (exit_frame 1); encode_frame (exit_frame 0);
    encode_frame (error_frame txt_unknown_type); encode_frame (fr VMD_MSG_OUTPUT [97; 98; 10]);
    encode_frame (fr VMD_MSG_STATUS_RSP (txt_active ++ dec_Z 1)); encode_frame (exit_frame (of_signed 32 (-2)));
    encode_frame (fr VMD_MSG_PING []) ].

Definition golden_ok : bool :=
  Nat.eqb (length vmd_golden) (length golden_model) &&
  forallb (fun p => fst (snd (fst p)) && list_N_eqb (snd (snd (fst p))) (snd p)) (combine vmd_golden golden_model).

Definition texts_ok : bool :=
  forallb (fun t => existsb (list_N_eqb t) vmd_error_texts) [txt_invalid_size; txt_payload_read; txt_invalid_nvm; txt_unknown_type].

Definition layout_ok : bool :=
  (VMD_HEADER_SIZE =? 8) && (VMD_SIZEOF_HEADER =? 8) && (VMD_OFF_VERSION =? 0) && (VMD_OFF_TYPE =? 1) &&
  (VMD_OFF_FLAGS =? 2) && (VMD_OFF_LEN =? 4) && (VMD_VERSION <? 256) && (VMD_MAX_PAYLOAD <? 2 ^ 32).

Fixpoint distinctb (l : list N) : bool :=
  match l with [] => true | x :: r => negb (existsb (N.eqb x) r) && distinctb r end.
Definition msg_types_ok : bool :=
  distinctb (map snd vmd_msg_types) && forallb (fun p => snd p <? 256) vmd_msg_types && Nat.eqb (length vmd_msg_types) 9.

(* ------------------------------------------------------------------ transparency fails for modules the verifier refuses *)
(* standalone refuses this module; a handler that does not verify runs it *)
Definition sloppy_oracle : vm_oracle :=
  {| o_deser := fun _ => true; o_verify := fun _ => Some [114]; o_run := fun _ => Ran [[104; 105; 10]] None 0 false |}.

Lemma unverified_module_runs c sm : c_verify_first c = false ->
  standalone_observe sm sloppy_oracle [0] = None /\
  client_observe (fst (client_thread c sloppy_oracle (load_exec_request [0]) None (boot c))) =
    {| o_stdout := [104; 105; 10]; o_stderr := []; o_exit := 0 |}.
Proof. destruct c as [i v x f]. cbn [c_verify_first]. intros ->. destruct i, x, f as [[|]|], sm; vm_compute; split; reflexivity. Qed.

Lemma verified_module_refused c msg : c_verify_first c = true ->
  client_observe (fst (client_thread c {| o_deser := fun _ => true; o_verify := fun _ => Some msg; o_run := fun _ => Crashed [] |}
                                      (load_exec_request [0]) None (boot c))) =
  client_observe (encode_frame (error_frame (txt_verify_failed ++ msg)) ++ encode_frame (exit_frame 1)).
Proof.
  intros Hv. rewrite reply_is_frames by reflexivity. unfold reply_frames, load_exec_request.
  destruct msg_types_distinct as (_ & _ & _ & _ & _ & _ & T1 & T2 & T3 & T4).
  assert (W : wf_frame (fr VMD_MSG_LOAD_EXEC [0])) by (vm_compute; repeat split; try discriminate; repeat constructor).
  rewrite <- (app_nil_r (encode_frame _)), recv_header_frame by exact W.
  cbn [h_type fr f_type f_payload]. rewrite T2, T3, T4, N.eqb_refl.
  unfold load_exec_frames. cbn [h_len length]. change (N.of_nat 1) with 1.
  replace ((1 =? 0) || (VMD_MAX_PAYLOAD <? 1)) with false by (vm_compute; reflexivity).
  change 1 with (N.of_nat (length [0])) at 1. rewrite take_app. cbn [o_deser negb o_verify]. rewrite Hv.
  cbn [map concat]. rewrite app_nil_r. reflexivity.
Qed.

(* ------------------------------------------------------------------ the exit status of a program that ends normally *)
(* main returns 3: standalone exits 3; a handler that always sends EXIT_CODE 0 makes the client exit 0 *)
Definition status_oracle : vm_oracle :=
  {| o_deser := fun _ => true; o_verify := fun _ => None; o_run := fun _ => Ran [[104; 105; 10]] None 3 false |}.
Lemma exit_status_dropped c : c_exit_from_main c = false ->
  standalone_observe true status_oracle [0] = Some {| o_stdout := [104; 105; 10]; o_stderr := []; o_exit := 3 |} /\
  client_observe (fst (client_thread c status_oracle (load_exec_request [0]) None (boot c))) =
    {| o_stdout := [104; 105; 10]; o_stderr := []; o_exit := 0 |}.
Proof. destruct c as [i v x f]. cbn [c_exit_from_main]. intros ->. destruct i, v, f as [[|]|]; vm_compute; split; reflexivity. Qed.

(* transparency for the daemon of today, keyed on the generated facts *)
Lemma daemon_transparent_current :
  (vmd_exit_from_main = standalone_exit_from_main ->
     forall O blob d o, alive d = true -> bytes_ok blob -> blob <> [] -> N.of_nat (length blob) <= VMD_MAX_PAYLOAD ->
       wf_run (o_run O blob) -> standalone_observe standalone_exit_from_main O blob = Some o ->
       client_observe (fst (client_thread real_cfg O (load_exec_request blob) None d)) = o) /\
  (vmd_exit_from_main = false -> standalone_exit_from_main = true ->
     exists O blob o, standalone_observe standalone_exit_from_main O blob = Some o /\
       client_observe (fst (client_thread real_cfg O (load_exec_request blob) None (boot real_cfg))) <> o).
Proof.
  split.
  - intros E O blob d o Ha Hb Hne Hl Hr Hs. apply (daemon_transparent real_cfg standalone_exit_from_main O blob d o); auto.
  - intros E1 E2. exists status_oracle, [0], {| o_stdout := [104; 105; 10]; o_stderr := []; o_exit := 3 |}.
    destruct (exit_status_dropped real_cfg E1) as (A & B). rewrite E2. split; [exact A|]. rewrite B. discriminate.
Qed.
