(* nano_vmd wire protocol and the per-connection handler: executable model of
     src/nanovm/vmd_protocol.c  (vmd_msg_send, vmd_msg_recv_header, vmd_msg_recv_payload, write_all/read_all)
     src/nanovm/vmd_server.c    (client_thread, the socket-backed FILE* write callback, the done: cleanup)
     src/nanovm/vmd_client.c    (vmd_execute: the client loop that reassembles frames)  and run_daemon of nanovm/main.c.
   A session is a total function of
     - the bytes the client sends before it stops sending (the server then reads EOF),
     - the number of write() calls on the connection that still succeed before the client has closed its end
       (None = the client reads everything),
     - the daemon's process-wide state.
   Loading/verifying/executing the module is delegated to an oracle (the C13 development models it).
   What the OS does is stated as rules here: read() at EOF returns 0; write() to a stream socket whose peer has closed
   fails with EPIPE and raises SIGPIPE, which kills the process unless the signal is ignored.
   Constants come from NV.gen.VmdConsts (regenerated from vmd_protocol.h).  Definitions only (this file is extracted). *)
From Coq Require Import NArith ZArith List Bool.
From NV Require Import Base.Bytes gen.VmdConsts.
Import ListNotations.
Local Open Scope N_scope.

(* ------------------------------------------------------------------ frames *)
Record frame := { f_type : N; f_payload : list byte }.

(* VmdMsgHeader on the wire: version u8, msg_type u8, flags u16 LE, payload_len u32 LE *)
Definition encode_header (ver ty flags len : N) : list byte :=
  [ver mod 256; ty mod 256] ++ le_bytes 2 flags ++ le_bytes 4 len.

(* vmd_msg_send: version = VMD_PROTO_VERSION, flags = 0, (uint8_t)type, (uint32_t)payload_len *)
Definition frame_header (f : frame) : list byte :=
  encode_header VMD_VERSION (f_type f) 0 (N.of_nat (length (f_payload f))).
Definition encode_frame (f : frame) : list byte := frame_header f ++ f_payload f.

Record hdr := { h_version : N; h_type : N; h_flags : N; h_len : N }.

Inductive recv :=
  | RShort                         (* read_all hit EOF before 8 bytes *)
  | RBadVersion (h : hdr)
  | RTooLong (h : hdr)
  | ROk (h : hdr) (rest : list byte).

(* vmd_msg_recv_header applied to a stream that ends (EOF) after [bs] *)
Definition recv_header (bs : list byte) : recv :=
  match bs with
  | v :: t :: f0 :: f1 :: l0 :: l1 :: l2 :: l3 :: rest =>
      let h := {| h_version := v; h_type := t; h_flags := of_le [f0; f1]; h_len := of_le [l0; l1; l2; l3] |} in
      if negb (v =? VMD_VERSION) then RBadVersion h
      else if VMD_MAX_PAYLOAD <? h_len h then RTooLong h
      else ROk h rest
  | _ => RShort
  end.

(* vmd_msg_recv_payload: exactly n bytes or failure.  The length test comes first so that a huge announced
   length is never converted to a unary number. *)
Definition take (n : N) (bs : list byte) : option (list byte * list byte) :=
  if N.of_nat (length bs) <? n then None
  else Some (firstn (N.to_nat n) bs, skipn (N.to_nat n) bs).

(* one frame off the front of a byte stream, as a receiver that validates the header sees it *)
Definition decode_frame (bs : list byte) : option (frame * list byte) :=
  match recv_header bs with
  | ROk h rest => match take (h_len h) rest with
                  | Some (p, rest') => Some ({| f_type := h_type h; f_payload := p |}, rest')
                  | None => None end
  | _ => None
  end.

Fixpoint decode_frames_fuel (fuel : nat) (bs : list byte) : list frame * list byte :=
  match fuel with
  | O => ([], bs)
  | S k => match decode_frame bs with
           | Some (f, rest) => let (fs, r) := decode_frames_fuel k rest in (f :: fs, r)
           | None => ([], bs)
           end
  end.
Definition decode_frames (bs : list byte) : list frame * list byte := decode_frames_fuel (S (length bs)) bs.

Definition wf_frameb (f : frame) : bool :=
  (f_type f <? 256) && bytes_okb (f_payload f) && (N.of_nat (length (f_payload f)) <=? VMD_MAX_PAYLOAD).

(* ------------------------------------------------------------------ text helpers *)
Fixpoint digits (fuel : nat) (n : N) (acc : list byte) : list byte :=
  match fuel with
  | O => acc
  | S k => let acc' := (48 + n mod 10) :: acc in
           if n / 10 =? 0 then acc' else digits k (n / 10) acc'
  end.
Definition dec_N (n : N) : list byte := digits (S (N.size_nat n)) n [].
Definition dec_Z (z : Z) : list byte :=                       (* printf("%d") *)
  match z with Zneg p => 45 :: dec_N (Npos p) | _ => dec_N (Z.to_N z) end.

(* the literals of client_thread (checked against NV.gen.VmdFacts.vmd_error_texts in the proofs) *)
Definition txt_invalid_size : list byte := [73;110;118;97;108;105;100;32;112;97;121;108;111;97;100;32;115;105;122;101].
Definition txt_payload_read : list byte := [80;97;121;108;111;97;100;32;114;101;97;100;32;101;114;114;111;114].
Definition txt_invalid_nvm  : list byte := [73;110;118;97;108;105;100;32;46;110;118;109;32;102;111;114;109;97;116].
Definition txt_unknown_type : list byte := [85;110;107;110;111;119;110;32;109;101;115;115;97;103;101;32;116;121;112;101].
Definition txt_active       : list byte := [97;99;116;105;118;101;95;99;108;105;101;110;116;115;61].   (* "active_clients=" *)
(* only used when the handler verifies first (not the code of today; the text of proposed_fixes/C18-verify-in-daemon.diff) *)
Definition txt_verify_failed : list byte :=
  [69;114;114;111;114;58;32;66;121;116;101;99;111;100;101;32;118;101;114;105;102;105;99;97;116;105;111;110;32;102;97;105;108;101;100;58;32].
  (* "Error: Bytecode verification failed: " *)
Definition txt_comm_error : list byte :=         (* run_daemon: "Error: Communication error with daemon\n" *)
  [69;114;114;111;114;58;32;67;111;109;109;117;110;105;99;97;116;105;111;110;32;101;114;114;111;114;32;119;105;116;104;32;100;97;101;109;111;110;10].

(* ------------------------------------------------------------------ what the handler is parameterised by *)
Record cfg := { c_ignores_sigpipe : bool;      (* SIGPIPE disposition of the process is SIG_IGN when the accept loop starts (setup_signals) *)
                c_verify_first : bool;         (* client_thread calls nvm_verify before vm_execute *)
                c_exit_from_main : bool;       (* client_thread sends main's int result (low 8 bits) as the exit code instead of 0 *)
                c_ffi_sets : option bool }.    (* disposition left behind by a session whose program used the FFI co-process:
                                                  Some true = SIG_IGN, Some false = not SIG_IGN, None = untouched
                                                  (from the SIGPIPE-setting calls reachable from client_thread, NV.gen.SigpipeSites) *)

Inductive run_result :=
  | Ran (chunks : list (list byte)) (err : option (list byte)) (status : N) (ffi : bool)
      (* vm_execute returned; [chunks] = the successive buffers handed to the FILE* write callback (flushes);
         err = Some text: result <> VM_OK and text = "Runtime error: <kind>[\n  <detail>]";
         status = (int)main's result as an unsigned 32-bit pattern when it is an int, else 0;
         ffi = the program made an extern call, so the co-process was started and, at the end of the session, stopped *)
  | Crashed (chunks : list (list byte)).
      (* the VM performed an invalid memory access after emitting [chunks]: the process receives SIGSEGV *)

Record vm_oracle := {
  o_deser  : list byte -> bool;                   (* nvm_deserialize(blob) <> NULL *)
  o_verify : list byte -> option (list byte);     (* nvm_verify: None = ok, Some msg = refused *)
  o_run    : list byte -> run_result }.

(* sigign: the process-wide SIGPIPE disposition is SIG_IGN (sessions can change it: it is state, not configuration) *)
Record daemon := { alive : bool; active : Z; shutdown : bool; sigign : bool }.
Definition boot (c : cfg) : daemon := {| alive := true; active := 0; shutdown := false; sigign := c_ignores_sigpipe c |}.
(* the handler configuration with the disposition that is in force now *)
Definition now (c : cfg) (d : daemon) : cfg :=
  {| c_ignores_sigpipe := sigign d; c_verify_first := c_verify_first c; c_exit_from_main := c_exit_from_main c; c_ffi_sets := c_ffi_sets c |}.

(* ------------------------------------------------------------------ writes on the connection *)
Record wr := { w_sent : list byte; w_left : option nat; w_killed : bool }.

(* write_all(fd, data): no write() call at all for an empty buffer *)
Definition write (c : cfg) (w : wr) (data : list byte) : wr :=
  if w_killed w then w else
  match data with
  | [] => w
  | _ => match w_left w with
         | None => {| w_sent := w_sent w ++ data; w_left := None; w_killed := false |}
         | Some O => if c_ignores_sigpipe c then w                      (* EPIPE; the caller ignores the result *)
                     else {| w_sent := w_sent w; w_left := Some O; w_killed := true |}   (* SIGPIPE, default action *)
         | Some (S k) => {| w_sent := w_sent w ++ data; w_left := Some k; w_killed := false |}
         end
  end.

(* vmd_msg_send: header, then the payload when payload_len > 0 (skipped when the header write failed) *)
Definition send (c : cfg) (w : wr) (f : frame) : wr :=
  match w_left w, w_killed w with
  | Some O, false => write c w (frame_header f)            (* header write fails: return false *)
  | _, _ => write c (write c w (frame_header f)) (f_payload f)
  end.

Definition fr (t : N) (p : list byte) : frame := {| f_type := t; f_payload := p |}.
Definition exit_frame (code : N) : frame := fr VMD_MSG_EXIT_CODE (le_bytes 4 code).
Definition error_frame (t : list byte) : frame := fr VMD_MSG_ERROR t.

(* socket_write_cookie: empty buffers are not sent *)
Fixpoint send_chunks (c : cfg) (w : wr) (chunks : list (list byte)) : wr :=
  match chunks with
  | [] => w
  | ch :: r => send_chunks c (match ch with [] => w | _ => send c w (fr VMD_MSG_OUTPUT ch) end) r
  end.

Definition kill (w : wr) : wr := {| w_sent := w_sent w; w_left := w_left w; w_killed := true |}.

(* case VMD_MSG_LOAD_EXEC *)
Definition load_exec (c : cfg) (O : vm_oracle) (h : hdr) (rest : list byte) (w : wr) : wr :=
  if (h_len h =? 0) || (VMD_MAX_PAYLOAD <? h_len h) then send c w (error_frame txt_invalid_size)
  else match take (h_len h) rest with
  | None => send c w (error_frame txt_payload_read)
  | Some (blob, _) =>
      if negb (o_deser O blob) then send c w (error_frame txt_invalid_nvm)
      else match (if c_verify_first c then o_verify O blob else None) with
      | Some msg => send c (send c w (error_frame (txt_verify_failed ++ msg))) (exit_frame 1)
      | None =>
          match o_run O blob with
          | Crashed chunks => kill (send_chunks c w chunks)
          | Ran chunks None st _ => send c (send_chunks c w chunks) (exit_frame (if c_exit_from_main c then st mod 256 else 0))
          | Ran chunks (Some e) _ _ => send c (send c (send_chunks c w chunks) (error_frame e)) (exit_frame 1)
          end
      end
  end.

(* the session reached vm_execute with a program that used the FFI co-process (vm_ffi_cop_start ... vm_ffi_cop_stop ran) *)
Definition used_cop (c : cfg) (O : vm_oracle) (h : hdr) (rest : list byte) : bool :=
  if (h_len h =? 0) || (VMD_MAX_PAYLOAD <? h_len h) then false
  else match take (h_len h) rest with
  | None => false
  | Some (blob, _) =>
      if negb (o_deser O blob) then false
      else match (if c_verify_first c then o_verify O blob else None) with
      | Some _ => false
      | None => match o_run O blob with Ran _ _ _ f => f | Crashed _ => false end
      end
  end.

(* client_thread; [wb] = number of write() calls that still succeed (None: all).
   Writes happen under the disposition in force when the session starts; a session that used the co-process leaves the
   disposition c_ffi_sets behind (vm_ffi_cop_start sets SIG_IGN in mid-session, which can only make this model pessimistic
   for a daemon that was not ignoring SIGPIPE to begin with). *)
Definition client_thread (c0 : cfg) (O : vm_oracle) (input : list byte) (wb : option nat) (d : daemon) : list byte * daemon :=
  if negb (alive d) then ([], d) else
  let c := now c0 d in
  let d1 := {| alive := true; active := active d + 1; shutdown := shutdown d; sigign := sigign d |} in
  let w0 := {| w_sent := []; w_left := wb; w_killed := false |} in
  let fin (w : wr) (sd : bool) (sg : bool) :=
      (w_sent w, if w_killed w then {| alive := false; active := active d1; shutdown := sd; sigign := sg |}
                 else {| alive := true; active := active d1 - 1; shutdown := sd; sigign := sg |}) in
  match recv_header input with
  | ROk h rest =>
      if h_type h =? VMD_MSG_PING then fin (send c w0 (fr VMD_MSG_PONG [])) (shutdown d) (sigign d)
      else if h_type h =? VMD_MSG_SHUTDOWN then fin (send c w0 (fr VMD_MSG_PONG [])) true (sigign d)
      else if h_type h =? VMD_MSG_STATUS then
        fin (send c w0 (fr VMD_MSG_STATUS_RSP (txt_active ++ dec_Z (active d1)))) (shutdown d) (sigign d)
      else if h_type h =? VMD_MSG_LOAD_EXEC then
        fin (load_exec c O h rest w0) (shutdown d)
            (if used_cop c O h rest then match c_ffi_sets c with Some v => v | None => sigign d end else sigign d)
      else fin (send c w0 (error_frame txt_unknown_type)) (shutdown d) (sigign d)
  | _ => fin w0 (shutdown d) (sigign d)                        (* goto done: nothing is written *)
  end.

Definition session := (list byte * option nat)%type.
Definition serve (c : cfg) (O : vm_oracle) (d : daemon) (ss : list session) : daemon :=
  fold_left (fun d s => snd (client_thread c O (fst s) (snd s) d)) ss d.

(* ------------------------------------------------------------------ the client side: vmd_execute + run_daemon
   The client is a blocking reader with NO time limit between connect and EXIT_CODE: read_all() waits until bytes arrive or the
   peer closes, so client_loop is a function of the reply bytes alone, however long the daemon stays silent between two frames.
   (Tied to the source by NV.gen.VmdFacts.vmd_client_has_timeout = false, theorem C17_client_waits_indefinitely.) *)
Inductive cexit := CExit (code : N) | CCommError.
Record obs := { o_stdout : list byte; o_stderr : list byte; o_exit : N }.

Fixpoint client_loop (fuel : nat) (bs : list byte) (out err : list byte) : list byte * list byte * cexit :=
  match fuel with
  | O => (out, err, CCommError)
  | S k =>
      match recv_header bs with
      | ROk h rest =>
          if h_type h =? VMD_MSG_EXIT_CODE then
            if h_len h =? 4 then
              match take 4 rest with Some (p, _) => (out, err, CExit (of_le p)) | None => (out, err, CCommError) end
            else (out, err, CCommError)
          else match take (h_len h) rest with
               | None => (out, err, CCommError)      (* the bytes that did arrive are still written by the real client; see VmdProofs *)
               | Some (p, rest') =>
                   if h_type h =? VMD_MSG_OUTPUT then client_loop k rest' (out ++ p) err
                   else if h_type h =? VMD_MSG_ERROR then
                     client_loop k rest' out (match p with [] => err | _ => err ++ p ++ [10] end)
                   else client_loop k rest' out err
               end
      | _ => (out, err, CCommError)
      end
  end.

(* what `nano_vm --daemon x.nvm` shows, given the bytes the daemon wrote on the connection (exit as a process status) *)
Definition client_observe (reply : list byte) : obs :=
  match client_loop (S (length reply)) reply [] [] with
  | (out, err, CExit code) =>
      if 2147483648 <=? code then {| o_stdout := out; o_stderr := err ++ txt_comm_error; o_exit := 1 |}   (* vmd_execute < 0 *)
      else {| o_stdout := out; o_stderr := err; o_exit := code mod 256 |}
  | (out, err, CCommError) => {| o_stdout := out; o_stderr := err ++ txt_comm_error; o_exit := 1 |}
  end.

(* what `nano_vm x.nvm` shows for a module that loads and verifies (run_standalone);
   sm = run_standalone turns main's int result into the exit status *)
Definition standalone_observe (sm : bool) (O : vm_oracle) (blob : list byte) : option obs :=
  if o_deser O blob then
    match o_verify O blob with
    | Some _ => None                                     (* refused with a path-dependent message; not compared *)
    | None => match o_run O blob with
              | Ran chunks None st _ => Some {| o_stdout := concat chunks; o_stderr := []; o_exit := if sm then st mod 256 else 0 |}
              | Ran chunks (Some e) _ _ => Some {| o_stdout := concat chunks; o_stderr := e ++ [10]; o_exit := 1 |}
              | Crashed _ => None
              end
    end
  else None.

Definition load_exec_request (blob : list byte) : list byte := encode_frame (fr VMD_MSG_LOAD_EXEC blob).
