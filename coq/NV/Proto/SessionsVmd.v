(* Bridge between the two models: the interleaving model (Proto/Sessions.v) instantiated with the handler of Proto/Vmd.v.
   Under every schedule, the reply a concurrent client ends up with is the reply client_thread gives that client's request
   on its own, whatever state the other sessions left the daemon in. *)
From Coq Require Import NArith ZArith List Bool Lia.
From NV Require Import Base.Bytes gen.VmdConsts Proto.Vmd Proto.VmdProofs Proto.Sessions Proto.SessionsProofs.
Import ListNotations.
Local Open Scope N_scope.

Definition request (k : kind) (blob : list byte) : list byte :=
  match k with
  | KExec => load_exec_request blob
  | KPing => encode_frame (fr VMD_MSG_PING [])
  | KShutdown => encode_frame (fr VMD_MSG_SHUTDOWN [])
  end.

(* the checksum comparison lives inside the oracle's o_deser; the handler's answer is a function of the request bytes *)
Definition handler_reply (c : cfg) (O : vm_oracle) (k : kind) (_ : N) (blob : list byte) : list byte :=
  fst (client_thread c O (request k blob) None (boot c)).

Lemma request_not_status k blob h rest : recv_header (request k blob) = ROk h rest -> h_type h <> VMD_MSG_STATUS.
Proof.
  destruct k; cbn [request].
  - unfold load_exec_request, encode_frame, frame_header, encode_header.
    cbn [le_bytes app fr f_type f_payload]. unfold recv_header.
    destruct (negb (VMD_VERSION mod 256 =? VMD_VERSION)); [discriminate|].
    match goal with |- (if ?b then _ else _) = _ -> _ => destruct b end; [discriminate|].
    intros E. inversion E. cbn [h_type]. vm_compute. discriminate.
  - intros E. vm_compute in E. inversion E. vm_compute. discriminate.
  - intros E. vm_compute in E. inversion E. vm_compute. discriminate.
Qed.

Theorem concurrent_reply_is_handler_reply c O sched ls0 cl d :
  init_ok ls0 ->
  (budget (ls0 cl) <= count_occ Nat.eq_dec sched cl)%nat ->
  Vmd.alive d = true -> sigign d = c_ignores_sigpipe c ->
  l_out (snd (run (handler_reply c O) sched (shared0, ls0)) cl) =
  fst (client_thread c O (request (l_kind (ls0 cl)) (l_blob (ls0 cl))) None d).
Proof.
  intros H0 Hs Ha Hsg. destruct (H0 cl) as (k & b & E).
  assert (MU : mu (ls0 cl) = budget (ls0 cl)) by (rewrite E; reflexivity).
  destruct (session_result (handler_reply c O) sched ls0 cl H0 ltac:(lia)) as (_ & HO & _).
  rewrite HO. unfold result, handler_reply.
  apply reply_independent; [reflexivity|exact Ha|symmetry; exact Hsg|]. apply request_not_status.
Qed.
