(* The boolean inventory check, as a statement about every symbol. *)
From Coq Require Import List Bool.
From NV Require Import gen.SharedState Proto.SharedClasses.

Lemma inventory_classified_forall : inventory_ok = true ->
  forall s, In s symbols -> needs_class s = true -> classify s <> Unclassified.
Proof.
  intros H s Hin Hn E. unfold inventory_ok in H.
  rewrite forallb_forall in H. specialize (H s Hin). rewrite Hn, E in H. discriminate.
Qed.
