(* The daemon as shared state x per-client sessions, with an interleaving semantics over a schedule.
   Shared components are those of NV.gen.SharedState that a LOAD_EXEC / PING session can reach and that Proto/SharedClasses.v
   puts in a modelled class:
     crc32_table / crc32_initialized   (src/nanoisa/nvm_format.c crc32_init, nvm_crc32)   write-once-idempotent
     g_active_clients                  (vmd_server.c, under g_client_count_mutex)         mutex-protected counter
     g_shutdown                        (vmd_server.c)                                     flag
   Everything else a session touches (its VmState, heap, socket, socket-backed FILE stream) is thread-private and appears as
   the local state.  The lazy CRC table initialisation is modelled at statement granularity under sequential consistency:
       if (crc32_initialized) return;                      PCheck
       for i in 0..255: crc32_table[i] = <entry i>;        PWrite i      (the 8-step computation of the entry is local)
       crc32_initialized = true;                           PFlag
       for each byte b: crc = (crc >> 8) ^ crc32_table[(crc ^ b) & 0xFF]   PRead
   The counter updates are single steps because they happen with the mutex held.
   What the session does with the checksum and its module afterwards (compare with the header, verify, execute, send frames)
   is a function [reply] of thread-private data.  Definitions only. *)
From Coq Require Import NArith ZArith List Bool.
From NV Require Import Base.Bytes.
Import ListNotations.
Local Open Scope N_scope.

(* ---------------------------------------------------------------- CRC-32 table (polynomial 0xEDB88320) *)
Definition crc_poly : N := 3988292384.
Definition crc_shift (c : N) : N := if N.odd c then N.lxor (c / 2) crc_poly else c / 2.
Definition crc_entry (i : N) : N :=
  crc_shift (crc_shift (crc_shift (crc_shift (crc_shift (crc_shift (crc_shift (crc_shift i))))))).
Definition crc_byte (tab : N -> N) (c b : N) : N := N.lxor (c / 256) (tab (N.land (N.lxor c b) 255)).
Definition crc_start : N := 4294967295.
Definition crc_fold (tab : N -> N) (bs : list byte) (c : N) : N := fold_left (crc_byte tab) bs c.
(* nvm_crc32 as specified: the table is crc_entry *)
Definition crc32_spec (bs : list byte) : N := N.lxor (crc_fold crc_entry bs crc_start) 4294967295.

(* ---------------------------------------------------------------- shared and local state *)
Record shared := { crc_tab : N -> N; crc_init : bool; active : Z; shut : bool }.
Definition shared0 : shared := {| crc_tab := fun _ => 0; crc_init := false; active := 0; shut := false |}.

Inductive pc :=
  | PInc                              (* lock; g_active_clients++; unlock *)
  | PCheck                            (* if (crc32_initialized) *)
  | PWrite (i : nat)                  (* crc32_table[i] = entry i *)
  | PFlag                             (* crc32_initialized = true *)
  | PRead (rest : list byte)          (* one table read per remaining byte *)
  | PExec                             (* everything thread-private: compare, verify, run, send *)
  | PDec                              (* lock; g_active_clients--; unlock *)
  | PDone.

Inductive kind := KExec | KPing | KShutdown.      (* STATUS observes the shared count and is outside the isolation statement *)

Record local := { l_kind : kind; l_pc : pc; l_blob : list byte; l_crc : N; l_out : list byte }.

Definition start (k : kind) (blob : list byte) : local :=
  {| l_kind := k; l_pc := PInc; l_blob := blob; l_crc := crc_start; l_out := [] |}.

Definition set_tab (tab : N -> N) (i v : N) : N -> N := fun j => if j =? i then v else tab j.

Section Step.
  (* the session's reply as a function of its own checksum result and its own bytes *)
  Variable reply : kind -> N -> list byte -> list byte.

  Definition with_pc (l : local) (p : pc) : local :=
    {| l_kind := l_kind l; l_pc := p; l_blob := l_blob l; l_crc := l_crc l; l_out := l_out l |}.

  (* effect of one step of a thread on its own state, reading the shared state *)
  Definition lstep (sh : shared) (l : local) : local :=
    match l_pc l with
    | PInc => with_pc l (match l_kind l with KExec => PCheck | _ => PExec end)
    | PCheck => with_pc l (if crc_init sh then PRead (l_blob l) else PWrite 0)
    | PWrite i => with_pc l (if Nat.ltb (S i) 256 then PWrite (S i) else PFlag)
    | PFlag => with_pc l (PRead (l_blob l))
    | PRead [] => with_pc l PExec
    | PRead (b :: rest) =>
        {| l_kind := l_kind l; l_pc := PRead rest; l_blob := l_blob l; l_crc := crc_byte (crc_tab sh) (l_crc l) b; l_out := l_out l |}
    | PExec =>
        {| l_kind := l_kind l; l_pc := PDec; l_blob := l_blob l; l_crc := l_crc l;
           l_out := reply (l_kind l) (N.lxor (l_crc l) 4294967295) (l_blob l) |}
    | PDec => with_pc l PDone
    | PDone => l
    end.

  (* effect of the same step on the shared state *)
  Definition sstep (l : local) (sh : shared) : shared :=
    match l_pc l with
    | PInc => {| crc_tab := crc_tab sh; crc_init := crc_init sh; active := active sh + 1; shut := shut sh |}
    | PWrite i => {| crc_tab := set_tab (crc_tab sh) (N.of_nat i) (crc_entry (N.of_nat i)); crc_init := crc_init sh;
                     active := active sh; shut := shut sh |}
    | PFlag => {| crc_tab := crc_tab sh; crc_init := true; active := active sh; shut := shut sh |}
    | PExec => match l_kind l with
               | KShutdown => {| crc_tab := crc_tab sh; crc_init := crc_init sh; active := active sh; shut := true |}
               | _ => sh end
    | PDec => {| crc_tab := crc_tab sh; crc_init := crc_init sh; active := active sh - 1; shut := shut sh |}
    | _ => sh
    end.

  Definition upd (ls : nat -> local) (c : nat) (l : local) : nat -> local := fun d => if Nat.eqb d c then l else ls d.

  (* the daemon: one step of client c *)
  Definition step (st : shared * (nat -> local)) (c : nat) : shared * (nat -> local) :=
    let (sh, ls) := st in (sstep (ls c) sh, upd ls c (lstep sh (ls c))).

  Definition run (sched : list nat) (st : shared * (nat -> local)) : shared * (nat -> local) := fold_left step sched st.

  (* the same session with the daemon to itself: n of its steps from the initial shared state *)
  Definition alone (l : local) (n : nat) : shared * (nat -> local) := run (repeat O n) (shared0, fun _ => l).

  (* number of steps after which a session is certainly finished *)
  Definition budget (l : local) : nat := (263 + length (l_blob l))%nat.

  Definition in_flight (l : local) : Z :=
    match l_pc l with PInc | PDone => 0%Z | _ => 1%Z end.
End Step.
