(* Lemmas about NV.Proto.Sessions: the lazy CRC table initialisation is race free under sequential consistency, the result
   of a session does not depend on how it is interleaved with others, every session finishes under a fair schedule, and
   the client counter is balanced. *)
From Coq Require Import NArith ZArith List Bool Lia.
From NV Require Import Base.Bytes Proto.Sessions.
Import ListNotations.
Local Open Scope N_scope.

Lemma land_255_lt x : N.land x 255 < 256.
Proof. change 255 with (N.ones 8). rewrite N.land_ones. apply N.mod_lt. discriminate. Qed.

Definition complete (tab : N -> N) : Prop := forall j, j < 256 -> tab j = crc_entry j.
Definition partial (tab : N -> N) (i : nat) : Prop := forall j, j < N.of_nat i -> tab j = crc_entry j.

Lemma crc_byte_complete tab c b : complete tab -> crc_byte tab c b = crc_byte crc_entry c b.
Proof. intros H. unfold crc_byte. rewrite H by apply land_255_lt. reflexivity. Qed.

Lemma set_tab_complete tab i : complete tab -> complete (set_tab tab i (crc_entry i)).
Proof. intros H j Hj. unfold set_tab. destruct (N.eqb_spec j i); [subst; reflexivity|apply H, Hj]. Qed.
Lemma set_tab_partial tab i k : partial tab k -> partial (set_tab tab i (crc_entry i)) k.
Proof. intros H j Hj. unfold set_tab. destruct (N.eqb_spec j i); [subst; reflexivity|apply H, Hj]. Qed.
Lemma set_tab_extend tab i : partial tab i -> partial (set_tab tab (N.of_nat i) (crc_entry (N.of_nat i))) (S i).
Proof.
  intros H j Hj. unfold set_tab. destruct (N.eqb_spec j (N.of_nat i)); [subst; reflexivity|]. apply H. lia.
Qed.

Section Proofs.
  Variable reply : kind -> N -> list byte -> list byte.
  Notation lstep := (lstep reply).
  Notation step := (step reply).
  Notation run := (run reply).
  Notation alone := (alone reply).

  Definition final_crc (l : local) : N :=
    match l_kind l with KExec => crc_fold crc_entry (l_blob l) crc_start | _ => crc_start end.
  (* what the session answers: a function of its own kind and bytes only *)
  Definition result (l : local) : list byte := reply (l_kind l) (N.lxor (final_crc l) 4294967295) (l_blob l).

  Definition SInv (sh : shared) : Prop := crc_init sh = true -> complete (crc_tab sh).

  Definition LInv (sh : shared) (l : local) : Prop :=
    match l_pc l with
    | PInc => l_crc l = crc_start
    | PCheck => l_crc l = crc_start /\ l_kind l = KExec
    | PWrite i => l_crc l = crc_start /\ l_kind l = KExec /\ (i < 256)%nat /\ partial (crc_tab sh) i
    | PFlag => l_crc l = crc_start /\ l_kind l = KExec /\ complete (crc_tab sh)
    | PRead rest => l_kind l = KExec /\ complete (crc_tab sh) /\
                    exists done, l_blob l = done ++ rest /\ l_crc l = crc_fold crc_entry done crc_start
    | PExec => l_crc l = final_crc l
    | PDec | PDone => l_crc l = final_crc l /\ l_out l = result l
    end.

  Lemma lstep_kind sh l : l_kind (lstep sh l) = l_kind l.
  Proof. unfold Sessions.lstep. destruct (l_pc l) as [| |i| |[|b r]| | |]; reflexivity. Qed.
  Lemma lstep_blob sh l : l_blob (lstep sh l) = l_blob l.
  Proof. unfold Sessions.lstep. destruct (l_pc l) as [| |i| |[|b r]| | |]; reflexivity. Qed.

  Lemma crc_fold_app tab a b c : crc_fold tab (a ++ b) c = crc_fold tab b (crc_fold tab a c).
  Proof. unfold crc_fold. apply fold_left_app. Qed.

  (* a thread's own step keeps its invariant *)
  Lemma own_step sh l : SInv sh -> LInv sh l -> LInv (sstep l sh) (lstep sh l).
  Proof.
    intros HS HL. unfold LInv in *. unfold Sessions.lstep, sstep.
    destruct (l_pc l) as [| |i| |[|b r]| | |] eqn:P.
    - (* PInc *) destruct (l_kind l) eqn:K; cbn [with_pc l_pc l_crc l_kind crc_tab].
      + split; [exact HL|exact K].
      + unfold final_crc. cbn [with_pc l_kind]. rewrite K. exact HL.
      + unfold final_crc. cbn [with_pc l_kind]. rewrite K. exact HL.
    - (* PCheck *) destruct HL as (HC & HK). destruct (crc_init sh) eqn:I; cbn [with_pc l_pc l_crc l_kind l_blob].
      + split; [exact HK|]. split; [apply HS; exact I|]. exists []. split; [reflexivity|exact HC].
      + split; [exact HC|]. split; [exact HK|]. split; [lia|]. intros j Hj. simpl in Hj. lia.
    - (* PWrite *) destruct HL as (HC & HK & Hi & HP). cbn [crc_tab].
      destruct (Nat.ltb_spec (S i) 256); cbn [with_pc l_pc l_crc l_kind].
      + split; [exact HC|]. split; [exact HK|]. split; [lia|]. apply set_tab_extend, HP.
      + split; [exact HC|]. split; [exact HK|]. intros j Hj. apply (set_tab_extend _ i HP). lia.
    - (* PFlag *) destruct HL as (HC & HK & HT). cbn [with_pc l_pc l_crc l_kind l_blob crc_tab].
      split; [exact HK|]. split; [exact HT|]. exists []. split; [reflexivity|exact HC].
    - (* PRead [] *) destruct HL as (HK & HT & done & HB & HC). cbn [with_pc l_pc l_crc l_kind].
      unfold final_crc. cbn [with_pc l_kind l_blob]. rewrite HK, HB, app_nil_r. exact HC.
    - (* PRead (b :: r) *) destruct HL as (HK & HT & done & HB & HC). cbn [l_pc l_kind l_crc l_blob].
      split; [exact HK|]. split; [exact HT|]. exists (done ++ [b]). split.
      + rewrite <- app_assoc. exact HB.
      + rewrite crc_fold_app. cbn [crc_fold fold_left]. rewrite crc_byte_complete by exact HT. rewrite HC. reflexivity.
    - (* PExec *) cbn [l_pc l_crc l_out]. unfold final_crc, result, final_crc in *. cbn [l_kind l_blob].
      split; [exact HL|]. rewrite HL. reflexivity.
    - (* PDec *) cbn [with_pc l_pc l_crc l_out]. unfold result, final_crc in *. cbn [with_pc l_kind l_blob l_out l_crc]. exact HL.
    - (* PDone *) rewrite P. exact HL.
  Qed.

  (* the table only ever gains specified entries *)
  Definition grows (sh sh' : shared) : Prop :=
    (forall k, partial (crc_tab sh) k -> partial (crc_tab sh') k) /\ (complete (crc_tab sh) -> complete (crc_tab sh')).

  Lemma sstep_grows l sh : grows sh (sstep l sh).
  Proof.
    unfold sstep, grows. destruct (l_pc l); try (split; auto); cbn [crc_tab].
    - intros k. apply set_tab_partial.
    - apply set_tab_complete.
    - destruct (l_kind l); cbn; auto.
    - destruct (l_kind l); cbn; auto.
  Qed.

  (* another thread's step keeps this thread's invariant *)
  Lemma other_step sh l' l : LInv sh l -> LInv (sstep l' sh) l.
  Proof.
    intros HL. destruct (sstep_grows l' sh) as (G1 & G2). unfold LInv in *.
    destruct (l_pc l); try exact HL.
    - destruct HL as (A & B & C & D). auto.
    - destruct HL as (A & B & C). auto.
    - destruct HL as (A & B & C). auto.
  Qed.

  Lemma shared_step sh l : SInv sh -> LInv sh l -> SInv (sstep l sh).
  Proof.
    intros HS HL. unfold SInv in *. destruct (sstep_grows l sh) as (_ & G2). unfold sstep in *.
    destruct (l_pc l) eqn:P; cbn [crc_init crc_tab] in *; try exact HS.
    - intros I. apply set_tab_complete, HS, I.
    - intros _. unfold LInv in HL. rewrite P in HL. tauto.
    - destruct (l_kind l); cbn [crc_init crc_tab]; exact HS.
  Qed.

  Definition GInv (st : shared * (nat -> local)) : Prop := SInv (fst st) /\ forall c, LInv (fst st) (snd st c).

  Lemma step_inv st c : GInv st -> GInv (step st c).
  Proof.
    destruct st as [sh ls]. intros (HS & HL). unfold Sessions.step. split; cbn [fst snd].
    - apply shared_step; auto.
    - intros d. unfold upd. destruct (Nat.eqb d c).
      + apply own_step; auto.
      + apply other_step; auto.
  Qed.

  Lemma run_inv sched : forall st, GInv st -> GInv (run sched st).
  Proof. induction sched as [|c r IH]; intros st H; [exact H|]. change (run (c :: r) st) with (run r (step st c)). apply IH, step_inv, H. Qed.

  Definition init_ok (ls : nat -> local) : Prop := forall c, exists k b, ls c = start k b.

  Lemma init_inv ls : init_ok ls -> GInv (shared0, ls).
  Proof.
    intros H. split; [intros I; discriminate|]. intros c. destruct (H c) as (k & b & E). cbn [fst snd]. rewrite E. reflexivity.
  Qed.

  (* ---------------------------------------------------------------- kind and bytes of a session never change *)
  Lemma step_static st c d : l_kind (snd (step st c) d) = l_kind (snd st d) /\ l_blob (snd (step st c) d) = l_blob (snd st d).
  Proof.
    destruct st as [sh ls]. unfold Sessions.step, upd. cbn [snd]. destruct (Nat.eqb_spec d c); [subst|auto].
    rewrite lstep_kind, lstep_blob. auto.
  Qed.
  Lemma run_static sched : forall st d, l_kind (snd (run sched st) d) = l_kind (snd st d) /\ l_blob (snd (run sched st) d) = l_blob (snd st d).
  Proof.
    induction sched as [|c r IH]; intros st d; [auto|].
    change (run (c :: r) st) with (run r (step st c)).
    destruct (IH (step st c) d) as (A & B). destruct (step_static st c d) as (A' & B'). rewrite A, B. auto.
  Qed.

  (* ---------------------------------------------------------------- progress *)
  Definition mu (l : local) : nat :=
    match l_pc l with
    | PInc => 263 + length (l_blob l)
    | PCheck => 262 + length (l_blob l)
    | PWrite i => (256 - i) + 5 + length (l_blob l)
    | PFlag => 4 + length (l_blob l)
    | PRead rest => 3 + length rest
    | PExec => 2
    | PDec => 1
    | PDone => 0
    end%nat.

  Lemma mu_done l : mu l = 0%nat -> l_pc l = PDone.
  Proof. unfold mu. destruct (l_pc l); try reflexivity; lia. Qed.

  Lemma mu_step sh l : LInv sh l -> (mu (lstep sh l) <= mu l - 1)%nat.
  Proof.
    intros HL. unfold LInv in HL. unfold mu, Sessions.lstep.
    destruct (l_pc l) as [| |i| |[|b r]| | |] eqn:P; cbn [with_pc l_pc l_blob]; rewrite ?P; try lia.
    - destruct (l_kind l); cbn [l_pc]; lia.
    - destruct (crc_init sh); cbn [l_pc]; lia.
    - destruct (Nat.ltb_spec (S i) 256); cbn [l_pc]; lia.
    - cbn [length]. lia.
  Qed.

  Lemma run_mu sched : forall st c, GInv st -> (mu (snd (run sched st) c) <= mu (snd st c) - count_occ Nat.eq_dec sched c)%nat.
  Proof.
    induction sched as [|e r IH]; intros st c H; [cbn; lia|].
    change (run (e :: r) st) with (run r (step st e)). specialize (IH (step st e) c (step_inv st e H)).
    destruct st as [sh ls]. destruct H as (HS & HL). cbn [fst snd] in *.
    unfold Sessions.step in IH |- *. cbn [snd] in IH. unfold upd in IH at 2.
    cbn [count_occ]. destruct (Nat.eq_dec e c) as [->|Hne].
    - rewrite Nat.eqb_refl in IH. pose proof (mu_step sh (ls c) (HL c)). lia.
    - destruct (Nat.eqb_spec c e); [congruence|]. lia.
  Qed.

  (* ---------------------------------------------------------------- the theorems *)
  (* crc_init_race_free: in every reachable state, a session that has passed its own crc32_init() (it is reading) sees the
     specified table, whatever initialisers and readers ran in between; and the checksum it ends up with is the specified one *)
  Theorem crc_init_race_free sched ls0 c rest :
    init_ok ls0 ->
    l_pc (snd (run sched (shared0, ls0)) c) = PRead rest ->
    forall i, i < 256 -> crc_tab (fst (run sched (shared0, ls0))) i = crc_entry i.
  Proof.
    intros H0 P. destruct (run_inv sched _ (init_inv ls0 H0)) as (_ & HL). specialize (HL c).
    unfold LInv in HL. rewrite P in HL. destruct HL as (_ & HT & _). exact HT.
  Qed.

  Theorem crc_read_is_spec sched ls0 c b rest :
    init_ok ls0 ->
    let st := run sched (shared0, ls0) in
    l_pc (snd st c) = PRead (b :: rest) ->
    l_crc (snd (step st c) c) = crc_byte crc_entry (l_crc (snd st c)) b.
  Proof.
    intros H0 st P. pose proof (crc_init_race_free sched ls0 c (b :: rest) H0 P) as HT. fold st in HT.
    destruct st as [sh ls]. cbn [fst snd] in *. unfold Sessions.step, upd. cbn [snd]. rewrite Nat.eqb_refl.
    unfold Sessions.lstep. rewrite P. cbn [l_crc]. apply crc_byte_complete. exact HT.
  Qed.

  Theorem session_result sched ls0 c :
    init_ok ls0 -> (mu (ls0 c) <= count_occ Nat.eq_dec sched c)%nat ->
    let l := snd (run sched (shared0, ls0)) c in
    l_pc l = PDone /\ l_out l = result (ls0 c) /\ l_crc l = final_crc (ls0 c) /\ l_kind l = l_kind (ls0 c) /\ l_blob l = l_blob (ls0 c).
  Proof.
    intros H0 Hf l. pose proof (init_inv ls0 H0) as G0.
    pose proof (run_mu sched (shared0, ls0) c G0) as M. cbn [snd] in M. fold l in M.
    assert (PD : l_pc l = PDone) by (apply mu_done; lia).
    destruct (run_inv sched _ G0) as (_ & HL). specialize (HL c). fold l in HL. unfold LInv in HL. rewrite PD in HL.
    destruct (run_static sched (shared0, ls0) c) as (K & B). cbn [snd] in K, B. fold l in K, B.
    destruct HL as (HC & HO). unfold result, final_crc in *. rewrite K, B in *. auto.
  Qed.

  Lemma local_eq (a b : local) :
    l_kind a = l_kind b -> l_pc a = l_pc b -> l_blob a = l_blob b -> l_crc a = l_crc b -> l_out a = l_out b -> a = b.
  Proof. destruct a, b; cbn; intros; subst; reflexivity. Qed.

  Lemma count_repeat n : count_occ Nat.eq_dec (repeat O n) O = n.
  Proof. induction n; cbn; [reflexivity|]. rewrite IHn. reflexivity. Qed.

  (* interleaving_irrelevant: under any schedule that gives client c its steps, the state of c's session at the end is the
     state it reaches with the daemon to itself *)
  Theorem interleaving_irrelevant sched ls0 c n :
    init_ok ls0 ->
    (budget (ls0 c) <= count_occ Nat.eq_dec sched c)%nat -> (budget (ls0 c) <= n)%nat ->
    snd (run sched (shared0, ls0)) c = snd (alone (ls0 c) n) O.
  Proof.
    intros H0 Hs Hn. destruct (H0 c) as (k & b & E).
    assert (MU : mu (ls0 c) = budget (ls0 c)) by (rewrite E; reflexivity).
    assert (A0 : init_ok (fun _ : nat => ls0 c)) by (intros _; exists k, b; exact E).
    destruct (session_result sched ls0 c H0 ltac:(lia)) as (P1 & O1 & C1 & K1 & B1).
    unfold Sessions.alone.
    destruct (session_result (repeat O n) (fun _ => ls0 c) O A0 ltac:(rewrite count_repeat; lia)) as (P2 & O2 & C2 & K2 & B2).
    apply local_eq; congruence.
  Qed.

  (* ---------------------------------------------------------------- the client counter is balanced *)
  Fixpoint sumf (f : nat -> Z) (n : nat) : Z := match n with O => 0%Z | S k => (sumf f k + f k)%Z end.

  Lemma sumf_ext f g n : (forall d, (d < n)%nat -> f d = g d) -> sumf f n = sumf g n.
  Proof. induction n; intros H; cbn; [reflexivity|]. rewrite IHn by (intros; apply H; lia). rewrite H by lia. reflexivity. Qed.

  Lemma sumf_upd (g : local -> Z) ls c l n : (c < n)%nat ->
    sumf (fun d => g (upd ls c l d)) n = (sumf (fun d => g (ls d)) n + g l - g (ls c))%Z.
  Proof.
    induction n as [|n IH]; intros Hc; [lia|]. cbn [sumf]. unfold upd at 2.
    destruct (Nat.eqb_spec n c) as [->|Hne].
    - rewrite (sumf_ext (fun d => g (upd ls c l d)) (fun d => g (ls d))).
      + lia.
      + intros d Hd. unfold upd. destruct (Nat.eqb_spec d c); [lia|reflexivity].
    - rewrite IH by lia. lia.
  Qed.

  Lemma step_counter sh l : (active (sstep l sh) = active sh + in_flight (lstep sh l) - in_flight l)%Z.
  Proof.
    unfold sstep, Sessions.lstep, in_flight.
    destruct (l_pc l) as [| |i| |[|b r]| | |] eqn:P; cbn [active with_pc l_pc]; rewrite ?P; try lia.
    - destruct (l_kind l); cbn [l_pc]; lia.
    - destruct (crc_init sh); cbn [l_pc]; lia.
    - destruct (Nat.ltb (S i) 256); cbn [l_pc]; lia.
    - destruct (l_kind l); cbn [active]; lia.
  Qed.

  Theorem active_balanced sched : forall sh ls n,
    Forall (fun c => (c < n)%nat) sched ->
    active sh = sumf (fun d => in_flight (ls d)) n ->
    active (fst (run sched (sh, ls))) = sumf (fun d => in_flight (snd (run sched (sh, ls)) d)) n.
  Proof.
    induction sched as [|c r IH]; intros sh ls n HF HA; [exact HA|].
    inversion HF; subst. change (run (c :: r) (sh, ls)) with (run r (step (sh, ls) c)). unfold Sessions.step. apply IH; [assumption|].
    rewrite step_counter, (sumf_upd in_flight ls c (lstep sh (ls c)) n) by assumption. lia.
  Qed.

  Lemma sumf_zero f n : (forall d, (d < n)%nat -> f d = 0%Z) -> sumf f n = 0%Z.
  Proof. induction n; intros H; cbn; [reflexivity|]. rewrite IHn by (intros; apply H; lia). rewrite H by lia. reflexivity. Qed.

  (* after a schedule that lets every one of the n clients finish, nobody is counted any more *)
  Theorem active_zero_when_done sched ls0 n :
    init_ok ls0 -> Forall (fun c => (c < n)%nat) sched ->
    (forall c, (c < n)%nat -> (budget (ls0 c) <= count_occ Nat.eq_dec sched c)%nat) ->
    active (fst (run sched (shared0, ls0))) = 0%Z.
  Proof.
    intros H0 HF Hall.
    rewrite (active_balanced sched shared0 ls0 n HF).
    - apply sumf_zero. intros d Hd. destruct (H0 d) as (k & b & E).
      assert (MU : mu (ls0 d) = budget (ls0 d)) by (rewrite E; reflexivity).
      destruct (session_result sched ls0 d H0 ltac:(specialize (Hall d Hd); lia)) as (P & _).
      unfold in_flight. rewrite P. reflexivity.
    - cbn [active shared0]. symmetry. apply sumf_zero. intros d _. destruct (H0 d) as (k & b & ->). reflexivity.
  Qed.
End Proofs.
