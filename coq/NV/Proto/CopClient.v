(* The VM side of the co-process protocol as a state machine over an explicit OS model:
     vm_ffi_cop_start / vm_ffi_cop_stop / cop_is_alive / cop_ensure / vm_ffi_call_cop   (src/nanovm/vm_ffi.c)
     run_standalone's "call ...; on error report; stop the co-process; exit"             (src/nanovm/main.c, vm.c)
   The peer (nano_cop or anything standing in for it) is a SCRIPT: for every protocol step of the VM (a label) the
   list of actions the peer has performed since the previous step: deliver bytes on its stdout, close its stdin, close
   its stdout, exit, be killed.  Replies are therefore just byte lists: short, oversized, mistyped and garbled messages need
   no special treatment.
   OS rules (definitions below, trusted as a description of POSIX pipes/processes):
     write to a pipe whose read end is closed      = EPIPE when SIGPIPE is ignored, otherwise the writer is killed
     write otherwise                               = succeeds (pipe capacity not modelled: messages are small)
     read of n bytes (read_all loop)               = the bytes if buffered; EOF if the write end is closed; otherwise blocks
                                                     (a script that never delivers = blocked forever = Hang)
     process exit / kill                           = both pipe ends closed (the order in which they close is the script's choice:
                                                     an exit may be written as CloseOut at one step and Exit at a later one)
     waitpid(WNOHANG)                              = pid iff the child has exited (then it is reaped), else 0
     kill(SIGTERM); waitpid(blocking)              = the child terminates and is reaped (assumption: it does not block SIGTERM)
   Definitions only (extracted). *)
From Coq Require Import NArith List Bool.
From NV Require Import Base.Bytes gen.CopConst Proto.CopCodec.
Import ListNotations.
Local Open Scope N_scope.

Inductive label :=
| LInit            (* cop_send(INIT) in vm_ffi_cop_start *)
| LReady           (* cop_recv_header waiting for READY *)
| LAlive (j : N)   (* waitpid(WNOHANG) in cop_is_alive at the start of call j *)
| LReq (j : N)     (* cop_send(FFI_REQ) of call j *)
| LHdr (j : N)     (* cop_recv_header of call j *)
| LPay (j : N)     (* cop_recv_payload of call j *)
| LShutdown        (* cop_send_simple(SHUTDOWN) in vm_ffi_cop_stop *)
| LWait1 | LWait2. (* the two waitpid(WNOHANG) of vm_ffi_cop_stop *)

Definition label_eqb (a b : label) : bool :=
  match a, b with
  | LInit, LInit | LReady, LReady | LShutdown, LShutdown | LWait1, LWait1 | LWait2, LWait2 => true
  | LAlive x, LAlive y | LReq x, LReq y | LHdr x, LHdr y | LPay x, LPay y => x =? y
  | _, _ => false
  end.

Inductive action := ADeliver (bs : list byte) | ACloseIn | ACloseOut | AExit (code : N) | AKilled.
Definition script := list (label * list action).

Record child := mkChild {
  c_script : script;
  c_in : bool;        (* the child's read end of the VM->child pipe is open *)
  c_out : bool;       (* the child's write end of the child->VM pipe is open *)
  c_exited : bool;
  c_reaped : bool;
  c_buf : list byte   (* delivered, not yet read by the VM *)
}.

Record world := mkWorld {
  cur : option child;        (* the child the VM's cop_pid refers to *)
  detached : list child;     (* children the VM no longer refers to *)
  future : list script;      (* scripts of the co-processes launched next *)
  sigign : bool              (* SIGPIPE disposition of the VM process: true = SIG_IGN *)
}.

(* VmState.cop_pid > 0 / cop_in_fd >= 0 / cop_out_fd >= 0 *)
Record vmst := mkVm { has_pid : bool; in_open : bool; out_open : bool }.

Definition apply_action (c : child) (a : action) : child :=
  match a with
  | ADeliver bs => if c_out c && negb (c_exited c)
                   then mkChild (c_script c) (c_in c) (c_out c) (c_exited c) (c_reaped c) (c_buf c ++ bs) else c
  | ACloseIn => mkChild (c_script c) false (c_out c) (c_exited c) (c_reaped c) (c_buf c)
  | ACloseOut => mkChild (c_script c) (c_in c) false (c_exited c) (c_reaped c) (c_buf c)
  | AExit _ | AKilled => mkChild (c_script c) false false true (c_reaped c) (c_buf c)
  end.

Fixpoint lookup_label (s : script) (l : label) : list action :=
  match s with [] => [] | (k, a) :: r => if label_eqb k l then a else lookup_label r l end.

Definition set_cur (w : world) (c : option child) : world := mkWorld c (detached w) (future w) (sigign w).

(* the peer's actions up to this step *)
Definition sync (l : label) (w : world) : world :=
  match cur w with
  | Some c => set_cur w (Some (fold_left apply_action (lookup_label (c_script c) l) c))
  | None => w
  end.

Inductive wres := WOk (w : world) | WEpipe (w : world) | WKilled (w : world).
Definition os_write (l : label) (w : world) : wres :=
  let w := sync l w in
  match cur w with
  | Some c => if c_in c then WOk w else if sigign w then WEpipe w else WKilled w
  | None => WEpipe w
  end.

Inductive rres := RGot (bs : list byte) (w : world) | REof (w : world) | RHang (w : world).
Definition os_read (l : label) (n : N) (w : world) : rres :=
  let w := sync l w in
  match cur w with
  | Some c =>
      if n <=? len (c_buf c)
      then RGot (firstn (N.to_nat n) (c_buf c))
                (set_cur w (Some (mkChild (c_script c) (c_in c) (c_out c) (c_exited c) (c_reaped c) (skipn (N.to_nat n) (c_buf c)))))
      else if c_out c then RHang w
      else REof (set_cur w (Some (mkChild (c_script c) (c_in c) (c_out c) (c_exited c) (c_reaped c) [])))
  | None => REof w
  end.

Definition os_waitpid_nohang (l : label) (w : world) : bool * world :=
  let w := sync l w in
  match cur w with
  | Some c => if c_exited c
              then (true, set_cur w (Some (mkChild (c_script c) (c_in c) (c_out c) true true (c_buf c))))
              else (false, w)
  | None => (false, w)
  end.

Definition os_term_wait (w : world) : world :=
  match cur w with
  | Some c => set_cur w (Some (mkChild (c_script c) false false true true (c_buf c)))
  | None => w
  end.

Definition detach (w : world) : world :=
  match cur w with
  | Some c => mkWorld None (c :: detached w) (future w) (sigign w)
  | None => w
  end.

Definition spawn (w : world) : world :=
  match future w with
  | s :: r => mkWorld (Some (mkChild s true true false false [])) (detached w) r (sigign w)
  | [] => mkWorld (Some (mkChild [] true true false false [])) (detached w) [] (sigign w)
  end.

(* ways the VM process stops being a running VM *)
Inductive final := FKilled (l : label)   (* SIGPIPE while writing at l *)
                 | FCrash                (* the reply decoder read out of bounds (SIGSEGV) *)
                 | FHang (l : label).    (* blocked forever reading at l *)
Inductive res (A : Type) := Go (a : A) (v : vmst) (w : world) | Stop (f : final) (w : world).
Arguments Go {A}. Arguments Stop {A}.

Definition vm_none : vmst := mkVm false false false.

(* vm_ffi_cop_stop *)
Definition stop_tail (w : world) : res unit :=
  let '(r1, w1) := os_waitpid_nohang LWait1 w in
  let w3 := if r1 then w1
            else let '(r2, w2) := os_waitpid_nohang LWait2 w1 in
                 if r2 then w2 else os_term_wait w2 in
  Go tt vm_none (detach w3).
Definition cop_stop (v : vmst) (w : world) : res unit :=
  if negb (has_pid v) then Go tt v w else
  if in_open v then
    match os_write LShutdown w with
    | WKilled w' => Stop (FKilled LShutdown) w'
    | WOk w' | WEpipe w' => stop_tail w'
    end
  else stop_tail w.

(* cop_is_alive *)
Definition cop_is_alive (j : N) (v : vmst) (w : world) : bool * vmst * world :=
  if negb (has_pid v) then (false, v, w) else
  let '(r, w1) := os_waitpid_nohang (LAlive j) w in
  if r then (false, vm_none, detach w1) else (true, v, w1).

(* vm_ffi_cop_start (only called with cop_pid <= 0) *)
Definition cop_start (v : vmst) (w : world) : res bool :=
  let w := spawn w in
  let v := mkVm true true true in
  match os_write LInit w with
  | WKilled w' => Stop (FKilled LInit) w'
  | WEpipe w' => match cop_stop v w' with Go _ v' w'' => Go false v' w'' | Stop f w'' => Stop f w'' end
  | WOk w' =>
      match os_read LReady 8 w' with
      | RHang w'' => Stop (FHang LReady) w''
      | REof w'' => match cop_stop v w'' with Go _ v' w3 => Go false v' w3 | Stop f w3 => Stop f w3 end
      | RGot h w'' =>
          match parse_header h with
          | Some (ty, _) =>
              if ty =? COP_MSG_READY then Go true v w''
              else match cop_stop v w'' with Go _ v' w3 => Go false v' w3 | Stop f w3 => Stop f w3 end
          | None => match cop_stop v w'' with Go _ v' w3 => Go false v' w3 | Stop f w3 => Stop f w3 end
          end
      end
  end.

Inductive err := ESer (i : N) | EReqDied | ERespDied | EPayload | EDeser | EMsg (m : list byte) | EType (ty : N).
Inductive callout := COk (v : value) | COkInproc | CErr (e : err).

(* vm_ffi_call_cop for call number j; [req] = the request as built by CopCodec.build_request;
   [dec] = the reply decoder (the code uses cop_deserialize_value = CopCodec.deser_a amax) *)
Definition call_cop (dec : list byte -> dres) (j : N) (req : req_res) (v : vmst) (w : world) : res callout :=
  let '(alive, v, w) := cop_is_alive j v w in
  let started :=
    if alive then Go true v w else cop_start v w in
  match started with
  | Stop f w' => Stop f w'
  | Go false v w => Go COkInproc v w                 (* "fall back to in-process FFI" *)
  | Go true v w =>
    match req with
    | ReqArgFail i => Go (CErr (ESer i)) v w
    | ReqOverrun => Stop FCrash w
    | ReqOk _ =>
      match os_write (LReq j) w with
      | WKilled w' => Stop (FKilled (LReq j)) w'
      | WEpipe w' => match cop_stop v w' with Go _ v' w'' => Go (CErr EReqDied) v' w'' | Stop f w'' => Stop f w'' end
      | WOk w' =>
        match os_read (LHdr j) 8 w' with
        | RHang w'' => Stop (FHang (LHdr j)) w''
        | REof w'' => match cop_stop v w'' with Go _ v' w3 => Go (CErr ERespDied) v' w3 | Stop f w3 => Stop f w3 end
        | RGot h w'' =>
          match parse_header h with
          | None => match cop_stop v w'' with Go _ v' w3 => Go (CErr ERespDied) v' w3 | Stop f w3 => Stop f w3 end
          | Some (ty, l) =>
            if ty =? COP_MSG_FFI_RESULT then
              if l =? 0 then Go (COk VVoid) v w''
              else match os_read (LPay j) l w'' with
                   | RHang w3 => Stop (FHang (LPay j)) w3
                   | REof w3 => Go (CErr EPayload) v w3
                   | RGot p w3 =>
                       match dec p with
                       | DOk r _ => Go (COk r) v w3
                       | DOob => Stop FCrash w3
                       | _ => Go (CErr EDeser) v w3
                       end
                   end
            else if ty =? COP_MSG_FFI_ERROR then
              let el := N.min l (VM_EXT_ERR_SIZE - 1) in
              if el =? 0 then Go (CErr (EMsg [])) v w''
              else match os_read (LPay j) el w'' with
                   | RHang w3 => Stop (FHang (LPay j)) w3
                   | REof w3 => Go (CErr (EMsg [])) v w3
                   | RGot p w3 => Go (CErr (EMsg p)) v w3
                   end
            else Go (CErr (EType ty)) v w''
          end
        end
      end
    end
  end.

(* a whole run of nano_vm --isolate-ffi: the program's extern calls in order; the first failing call is a runtime error
   (reported on stderr, exit status 1); in every case main stops the co-process before exiting *)
Inductive status := SExit0 | SExit1 | SKilled (l : label) | SCrash | SHang (l : label).
Record outcome := mkOut { o_status : status; o_err : option err; o_done : N; o_vm : vmst; o_world : world }.

Definition status_of (f : final) : status :=
  match f with FKilled l => SKilled l | FCrash => SCrash | FHang l => SHang l end.

Fixpoint run_calls (dec : list byte -> dres) (reqs : list req_res) (j done : N) (v : vmst) (w : world) : outcome :=
  match reqs with
  | [] => match cop_stop v w with
          | Go _ v' w' => mkOut SExit0 None done v' w'
          | Stop f w' => mkOut (status_of f) None done v w'
          end
  | r :: rest =>
      match call_cop dec j r v w with
      | Stop f w' => mkOut (status_of f) None done v w'
      | Go (CErr e) v' w' =>
          match cop_stop v' w' with
          | Go _ v'' w'' => mkOut SExit1 (Some e) done v'' w''
          | Stop f w'' => mkOut (status_of f) (Some e) done v' w''
          end
      | Go _ v' w' => run_calls dec rest (j + 1) (done + 1) v' w'
      end
  end.

Definition init_world (scripts : list script) (ign : bool) : world := mkWorld None [] scripts ign.
Definition run (dec : list byte -> dres) (ign : bool) (scripts : list script) (reqs : list req_res) : outcome :=
  run_calls dec reqs 1 0 vm_none (init_world scripts ign).

(* ---- what the user sees on stderr when an extern call fails with a text the CO-PROCESS chose (FFI_ERROR).
   The text is DATA: vm_ffi_call_cop copies at most VM_EXT_ERR_SIZE - 1 bytes of it into ext_err and terminates them with NUL;
   TRAP_EXTERN_CALL reports vm_error(.., "<VM_FFI_ERR_PREFIX>%s", ext_err) into error_msg[VM_ERROR_MSG_SIZE] (vsnprintf: cut to
   one byte less); main prints "Runtime error: Not implemented\n" and "  %s\n" of that buffer.  So stderr is a fixed prefix,
   the text up to its first NUL (C string), cut, and a newline -- no byte of the text is interpreted.  (The format literal and
   both sizes are generated from the sources; a report whose format is not a literal is refused by the translator.) *)
Fixpoint cstr (m : list byte) : list byte :=
  match m with [] => [] | b :: r => if b =? 0 then [] else b :: cstr r end.
Definition runtime_error_line : list byte :=      (* "Runtime error: Not implemented\n" *)
  [82;117;110;116;105;109;101;32;101;114;114;111;114;58;32;78;111;116;32;105;109;112;108;101;109;101;110;116;101;100;10].
Definition error_msg_of_text (t : list byte) : list byte :=
  firstn (N.to_nat (VM_ERROR_MSG_SIZE - 1)) (VM_FFI_ERR_PREFIX ++ cstr t).
Definition stderr_of_text (t : list byte) : list byte :=
  runtime_error_line ++ [32; 32] ++ error_msg_of_text t ++ [10].
(* only for errors whose text came from the peer; the texts vm_ffi.c itself writes (co-process died ...) are not transcribed *)
Definition stderr_report (e : err) : option (list byte) :=
  match e with EMsg m => Some (stderr_of_text m) | _ => None end.

(* a process the VM started that is still running when the VM is gone *)
Definition child_running (c : child) : bool := negb (c_exited c).
Definition orphans (w : world) : bool :=
  match cur w with Some c => child_running c | None => false end || existsb child_running (detached w).
Definition all_reaped (w : world) : bool :=
  match cur w with Some _ => false | None => true end && forallb c_reaped (detached w).

(* a child that is finished with: exited and reaped *)
Definition done_child (c : child) : bool := c_reaped c && c_exited c.

(* well-formed VM/OS state *)
Definition wfb (v : vmst) (w : world) : bool :=
  (if has_pid v
   then match cur w with Some c => negb (c_reaped c) | None => false end
   else match cur w with Some _ => false | None => negb (in_open v) && negb (out_open v) end)
  && forallb done_child (detached w).
