(* Hand-written classification of the process-wide writable symbols of nano_vmd (inventory: NV.gen.SharedState, from nm +
   linker/relocation reachability).  Only symbols a client session can reach need a class; [inventory_ok] fails as soon as
   a reachable writable symbol has none.  The classes are asserted by reading the code; the interleaving model
   (Proto/Sessions.v) covers WriteOnceIdempotent, MutexCounter, Mutex and Flag; HookInert symbols are never written in a
   daemon started without the verification environment variables; PerProcessFfi symbols are reached only through
   OP_CALL_EXTERN (vm_ffi_call and the runtime allocator behind its marshalling) and are outside the isolation statement. *)
From Coq Require Import NArith List String Bool.
From NV Require Import gen.SharedState.
Import ListNotations.
Local Open Scope string_scope.

Inductive cls :=
  | WriteOnceIdempotent     (* every writer stores the same value; readers wait for their own initialisation *)
  | MutexCounter            (* read and written only with g_client_count_mutex held *)
  | Mutex                   (* the lock itself *)
  | Flag                    (* sig_atomic_t flag, only ever set *)
  | HookInert               (* verification hook variable, read-only unless the hook's environment variable is set *)
  | PerProcessFfi           (* FFI module table / runtime allocator, reached only by extern calls *)
  | Unclassified.

Definition cls_eqb (a b : cls) : bool :=
  match a, b with
  | WriteOnceIdempotent, WriteOnceIdempotent | MutexCounter, MutexCounter | Mutex, Mutex | Flag, Flag
  | HookInert, HookInert | PerProcessFfi, PerProcessFfi | Unclassified, Unclassified => true
  | _, _ => false
  end.

Definition class_table : list (string * string * cls) := [
  ("nanoisa__nvm_format.o", "crc32_table",        WriteOnceIdempotent);
  ("nanoisa__nvm_format.o", "crc32_initialized",  WriteOnceIdempotent);
  ("nanovm__vmd_server.o",  "g_active_clients",   MutexCounter);
  ("nanovm__vmd_server.o",  "g_client_count_mutex", Mutex);
  ("nanovm__vmd_server.o",  "g_shutdown",         Flag);
  ("nanovm__vm.o",          "vm_verif_fuel",      HookInert);
  ("nanovm__vm.o",          "vm_verif_step_cb",   HookInert);
  ("nanovm__heap.o",        "vm_verif_heap_cb",   HookInert);
  ("nanovm__vm_ffi.o",      "ffi_env",            PerProcessFfi);
  ("runtime__gc.o",         "gc_state",           PerProcessFfi);
  ("runtime__ffi_loader.o", "ffi_lock",           PerProcessFfi);
  ("runtime__ffi_loader.o", "initialized",        PerProcessFfi);
  ("runtime__ffi_loader.o", "module_capacity",    PerProcessFfi);
  ("runtime__ffi_loader.o", "module_count",       PerProcessFfi);
  ("runtime__ffi_loader.o", "modules",            PerProcessFfi);
  ("runtime__ffi_loader.o", "verbose_mode",       PerProcessFfi)
].

Fixpoint lookup_cls (t : list (string * string * cls)) (o n : string) : cls :=
  match t with
  | [] => Unclassified
  | (o', n', c) :: r => if (String.eqb o o' && String.eqb n n')%bool then c else lookup_cls r o n
  end.
Definition classify (s : sym) : cls := lookup_cls class_table (s_obj s) (s_name s).

(* a symbol needs a class when a session can reach it and it is not read-only after relocation *)
Definition needs_class (s : sym) : bool := s_session s && negb (s_relro s).
Definition inventory_ok : bool := forallb (fun s => negb (needs_class s) || negb (cls_eqb (classify s) Unclassified)) symbols.
(* reachability answers agree: what a session reaches is linked *)
Definition reach_consistent : bool := forallb (fun s => negb (s_session s) || s_linked s) symbols.
(* the table has no stale rows: every row names a symbol of the inventory that needs a class *)
Definition table_fresh : bool :=
  forallb (fun r => existsb (fun s => String.eqb (s_obj s) (fst (fst r)) && String.eqb (s_name s) (snd (fst r)) && needs_class s) symbols) class_table.
(* the components the interleaving model covers are present under the expected names *)
Definition modelled_present : bool :=
  forallb (fun on => existsb (fun s => String.eqb (s_obj s) (fst on) && String.eqb (s_name s) (snd on) && needs_class s) symbols)
    [("nanoisa__nvm_format.o", "crc32_table"); ("nanoisa__nvm_format.o", "crc32_initialized");
     ("nanovm__vmd_server.o", "g_active_clients"); ("nanovm__vmd_server.o", "g_shutdown")].
Definition modelled (c : cls) : bool :=
  match c with WriteOnceIdempotent | MutexCounter | Mutex | Flag | HookInert => true | _ => false end.
