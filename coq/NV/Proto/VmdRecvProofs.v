(* The real receiver's accepted payload length per message type (NV.gen.VmdRecv, answers of vmd_msg_recv_header itself) against the
   model's recv_header, which accepts a frame of ANY type iff its version is VMD_VERSION and its length is <= VMD_MAX_PAYLOAD.
   Consequence: every frame the daemon's sender can emit (any type byte, payload <= VMD_MAX_PAYLOAD) is accepted by the client's
   receiver, so the codec theorems (quantified over payload lengths up to VMD_MAX_PAYLOAD) speak about the real receiver. *)
From Coq Require Import NArith List Bool Lia.
From NV Require Import Base.Bytes gen.VmdConsts gen.VmdRecv Proto.Vmd Proto.VmdProofs.
Import ListNotations.
Local Open Scope N_scope.

Fixpoint lookup_recv (l : list (N * option N)) (t : N) : option N :=
  match l with [] => None | (k, m) :: r => if k =? t then m else lookup_recv r t end.

Definition types256 : list N := map N.of_nat (seq 0 256).

(* per type: the real limit is the model's limit *)
Definition recv_table_ok : bool :=
  forallb (fun t => match lookup_recv vmd_recv_max t with Some m => m =? VMD_MAX_PAYLOAD | None => false end) types256
  && Nat.eqb (length vmd_recv_max) 256
  && match vmd_recv_nonmonotone with [] => true | _ => false end
  && match vmd_recv_versions with [v] => v =? VMD_VERSION | _ => false end.

(* the types client_thread sends *)
Definition sender_types : list N := [VMD_MSG_OUTPUT; VMD_MSG_EXIT_CODE; VMD_MSG_ERROR; VMD_MSG_PONG; VMD_MSG_STATUS_RSP].
Definition sender_frames_accepted : bool :=
  forallb (fun t => match lookup_recv vmd_recv_max t with Some m => VMD_MAX_PAYLOAD <=? m | None => false end) sender_types.

Lemma in_types256 t : t < 256 -> In t types256.
Proof.
  intros H. unfold types256. rewrite <- (N2Nat.id t). apply in_map. apply in_seq. lia.
Qed.

Lemma receiver_is_model : recv_table_ok = true ->
  forall f, wf_frame f ->
  exists m, lookup_recv vmd_recv_max (f_type f) = Some m /\ N.of_nat (length (f_payload f)) <= m /\
            (forall rest, decode_frame (encode_frame f ++ rest) = Some (f, rest)).
Proof.
  unfold recv_table_ok. rewrite !andb_true_iff. intros (((H & _) & _) & _) f W.
  pose proof W as (Ht & _ & Hl).
  rewrite forallb_forall in H. specialize (H (f_type f) (in_types256 _ Ht)).
  destruct (lookup_recv vmd_recv_max (f_type f)) as [m|]; [|discriminate].
  apply N.eqb_eq in H. subst m. exists VMD_MAX_PAYLOAD. split; [reflexivity|]. split; [exact Hl|].
  intros rest. apply decode_encode_frame. exact W.
Qed.
