(* Co-process FFI wire format: executable model of
     cop_serialize_value / cop_deserialize_value / cop_send / cop_recv_header   (src/nanovm/cop_protocol.c)
     the request built by vm_ffi_call_cop                                        (src/nanovm/vm_ffi.c)
     the request parsing / reply building of handle_ffi_req                      (src/nanovm/cop_main.c)
   All constants (value tags, message types, header geometry, buffer sizes, argument caps) come from
   NV.gen.CopConst, regenerated from the sources on every run.
   Values carry raw bit patterns (int/float/opaque = the 64-bit pattern memcpy moves), so negative ints, NaN
   payloads, -0.0 and infinities are ordinary values.  C's uint32 arithmetic is written with explicit [u32].
   Definitions only (this file is extracted). *)
From Coq Require Import NArith List Bool.
From NV Require Import Base.Bytes gen.CopConst.
Import ListNotations.
Local Open Scope N_scope.

Definition u32 (x : N) : N := x mod 4294967296.
Definition len {A} (l : list A) : N := N.of_nat (length l).

(* NanoValue as far as the wire format can see it.  [VOther t] = any other tag (u8, bstring, struct, enum, union,
   function, tuple, hashmap): the C writes only the tag byte for those. *)
Inductive value :=
| VVoid
| VInt (bits : N)
| VFloat (bits : N)
| VBool (b : bool)
| VStr (s : list byte)
| VOpaque (bits : N)
| VArr (etype : N) (elems : list value)
| VOther (tag : N).

(* ---- the byte layout (what ends up in the buffer when it is large enough) *)
Fixpoint ser (v : value) : list byte :=
  match v with
  | VVoid => [TAG_VOID]
  | VInt n => TAG_INT :: le_bytes 8 n
  | VFloat n => TAG_FLOAT :: le_bytes 8 n
  | VBool b => [TAG_BOOL; if b then 1 else 0]
  | VStr s => TAG_STRING :: le_bytes 4 (len s) ++ s
  | VOpaque n => TAG_OPAQUE :: le_bytes 8 n
  | VArr et es => TAG_ARRAY :: et :: le_bytes 4 (len es) ++ flat_map ser es
  | VOther t => [t]
  end.

(* ---- cop_serialize_value(val, buf, buf_size) with its capacity checks, statement by statement.
   SNoRoom = the function returns 0.  SOverrun = the uint32 sum `pos + 4 + len` wrapped, the check passed and
   memcpy writes past the buffer (only for strings of >= 2^32-5 bytes). *)
Inductive sres := SOk (bs : list byte) | SNoRoom | SOverrun.

Fixpoint ser_buf (v : value) (cap : N) : sres :=
  if cap <? 1 then SNoRoom else
  match v with
  | VVoid => SOk [TAG_VOID]
  | VOther t => SOk [t]
  | VInt n => if cap <? 1 + 8 then SNoRoom else SOk (TAG_INT :: le_bytes 8 n)
  | VFloat n => if cap <? 1 + 8 then SNoRoom else SOk (TAG_FLOAT :: le_bytes 8 n)
  | VOpaque n => if cap <? 1 + 8 then SNoRoom else SOk (TAG_OPAQUE :: le_bytes 8 n)
  | VBool b => if cap <? 1 + 1 then SNoRoom else SOk [TAG_BOOL; if b then 1 else 0]
  | VStr s =>
      if cap <? u32 (1 + 4 + len s) then SNoRoom
      else if cap <? 1 + 4 + len s then SOverrun
      else SOk (TAG_STRING :: le_bytes 4 (len s) ++ s)
  | VArr et es =>
      if cap <? 1 + 5 then SNoRoom else
      match
        (fix go (es : list value) (pos : N) : sres :=
           match es with
           | [] => SOk []
           | e :: r => match ser_buf e (cap - pos) with
                       | SOk b => match go r (pos + len b) with SOk t => SOk (b ++ t) | x => x end
                       | x => x
                       end
           end) es 6
      with
      | SOk t => SOk (TAG_ARRAY :: et :: le_bytes 4 (len es) ++ t)
      | x => x
      end
  end.

(* ---- cop_deserialize_value(buf, buf_size, out, heap) = deserialize_value_at(.., depth = 0).
   DFail = returns 0.  The bounds checks are subtractions that cannot wrap (`len > buf_size - pos` with pos <= buf_size), an
   array count larger than the bytes that follow is refused before anything is allocated (every element takes at least its
   tag byte), a failed allocation returns 0 ([amax] = the largest element count the allocator grants, an environment
   parameter), and nesting beyond COP_MAX_NESTING array levels is refused.
   DOob (= the C code reads or writes out of bounds) is kept as an outcome of the type: the client model is stated for an
   arbitrary decoder; this decoder is PROVED never to produce it (CopCodecProofs.deser_never_oob).
   DFuel = model artefact, proved unreachable for fuel >= length of the buffer.  The recursion of the C function consumes at
   least the tag byte per level, so the buffer length bounds it. *)
Inductive dres := DOk (v : value) (n : nat) | DFail | DOob | DFuel.
Inductive eres := EOk (vs : list value) (n : nat) | EFail | EOob | EFuel.

Definition fixed8 (mk : N -> value) (r : list byte) : dres :=
  if Nat.ltb (length (firstn 8 r)) 8 then DFail else DOk (mk (of_le (firstn 8 r))) 9.

Fixpoint deser_f (amax : N) (depth : N) (fuel : nat) (bs : list byte) : dres :=
  match bs with
  | [] => DFail
  | tag :: r =>
    match fuel with
    | O => DFuel
    | S f =>
      if tag =? TAG_INT then fixed8 VInt r
      else if tag =? TAG_FLOAT then fixed8 VFloat r
      else if tag =? TAG_BOOL then
        match r with [] => DFail | b :: _ => DOk (VBool (negb (b =? 0))) 2 end
      else if tag =? TAG_STRING then
        if Nat.ltb (length r) 4 then DFail else
        let l := of_le (firstn 4 r) in
        if len bs - 5 <? l then DFail                 (* len > buf_size - pos, pos = 5 <= buf_size *)
        else DOk (VStr (firstn (N.to_nat l) (skipn 4 r))) (5 + N.to_nat l)
      else if tag =? TAG_OPAQUE then fixed8 VOpaque r
      else if tag =? TAG_ARRAY then
        if Nat.ltb (length r) 5 then DFail else
        match r with
        | et :: r1 =>
            let count := of_le (firstn 4 r1) in
            if (len bs - 6 <? count) || (COP_MAX_NESTING <=? depth) then DFail   (* count > buf_size - pos || depth >= MAX *)
            else if amax <? count then DFail                                     (* vm_array_new failed *)
            else
            match deser_elems amax (depth + 1) f count (skipn 4 r1) with
            | EOk vs n => DOk (VArr et vs) (6 + n)
            | EFail => DFail | EOob => DOob | EFuel => DFuel
            end
        | [] => DFail
        end
      else DOk VVoid 1
    end
  end
with deser_elems (amax : N) (depth : N) (fuel : nat) (count : N) (bs : list byte) : eres :=
  if count =? 0 then EOk [] 0 else
  match fuel with
  | O => EFuel
  | S f =>
    match deser_f amax depth f bs with
    | DOk v n =>
        match deser_elems amax depth f (N.pred count) (skipn n bs) with
        | EOk vs m => EOk (v :: vs) (n + m)
        | x => x
        end
    | DFail => EFail | DOob => EOob | DFuel => EFuel
    end
  end.

Definition deser_a (amax : N) (bs : list byte) : dres := deser_f amax 0 (length bs) bs.
(* with an allocator that grants every request the format can express (count < 2^32) *)
Definition deser_r (bs : list byte) : dres := deser_a 4294967295 bs.
Definition deser (bs : list byte) : option (value * nat) :=
  match deser_r bs with DOk v n => Some (v, n) | _ => None end.

(* ---- transferable values: the types the property names, with representable fields, nested at most COP_MAX_NESTING
   array levels (the decoder refuses deeper values) *)
Fixpoint wf_valueb (v : value) : bool :=
  match v with
  | VVoid => true
  | VInt n | VFloat n | VOpaque n => n <? 2 ^ 64
  | VBool _ => true
  | VStr s => bytes_okb s && (len s + 5 <? 2 ^ 32)
  | VArr et es => (et <? 256) && (len es <? 2 ^ 32) && forallb wf_valueb es
  | VOther _ => false
  end.
Fixpoint vdepth (v : value) : N :=
  match v with
  | VArr _ es => 1 + fold_right (fun e a => N.max (vdepth e) a) 0 es
  | _ => 0
  end.
Definition transferableb (v : value) : bool := wf_valueb v && (vdepth v <=? COP_MAX_NESTING).

(* total serialized size, without building the bytes *)
Fixpoint ser_size (v : value) : N :=
  match v with
  | VVoid | VOther _ => 1
  | VInt _ | VFloat _ | VOpaque _ => 9
  | VBool _ => 2
  | VStr s => 5 + len s
  | VArr _ es => 6 + fold_right (fun e a => ser_size e + a) 0 es
  end.

(* ---- message framing: cop_send / cop_recv_header (packed 8-byte header, little-endian host) *)
Definition frame (ty : N) (payload : list byte) : list byte :=
  [COP_PROTO_VERSION; ty; 0; 0] ++ le_bytes 4 (len payload) ++ payload.

(* header bytes -> (type, payload_len); None = cop_recv_header returns false (bad version / too long) *)
Definition parse_header (h : list byte) : option (N * N) :=
  match h with
  | [v; ty; _; _; l0; l1; l2; l3] =>
      if negb (v =? COP_PROTO_VERSION) then None
      else let l := of_le [l0; l1; l2; l3] in
           if COP_MAX_PAYLOAD <? l then None else Some (ty, l)
  | _ => None
  end.

(* ---- request payload of vm_ffi_call_cop: u32 import_idx, u16 argc, then at most REQ_MAX_ARGS serialized arguments
   into a buffer of [cap] bytes (the code has cap = REQ_BUF_SIZE). *)
Inductive req_res := ReqOk (payload : list byte) | ReqArgFail (i : N) | ReqOverrun.

Fixpoint ser_args (args : list value) (i : N) (maxargs : N) (cap pos : N) (acc : list byte) : req_res :=
  match args with
  | [] => ReqOk acc
  | a :: r =>
      if maxargs <=? i then ReqOk acc else
      match ser_buf a (cap - pos) with
      | SOk b => ser_args r (i + 1) maxargs cap (pos + len b) (acc ++ b)
      | SNoRoom => ReqArgFail i
      | SOverrun => ReqOverrun
      end
  end.

Definition build_request_cap (cap : N) (idx : N) (args : list value) : req_res :=
  ser_args args 0 REQ_MAX_ARGS cap 6 (le_bytes 4 idx ++ le_bytes 2 (len args)).
Definition build_request := build_request_cap REQ_BUF_SIZE.

(* ---- handle_ffi_req: parse the request payload.  PBadReq / PBadArg = the FFI_ERROR answers "bad request" / "bad arg";
   POob = deserializer read out of bounds. *)
Inductive preq := PReq (idx argc : N) (args : list value) | PBadReq | PBadArg | POob.

Fixpoint deser_args (k : nat) (bs : list byte) : option (option (list value)) :=   (* None = oob; Some None = bad arg *)
  match k with
  | O => Some (Some [])
  | S k' =>
      match deser_r bs with
      | DOk v n => match deser_args k' (skipn n bs) with
                   | Some (Some vs) => Some (Some (v :: vs))
                   | x => x end
      | DOob => None
      | _ => Some None
      end
  end.

Definition parse_request (payload : list byte) : preq :=
  if Nat.ltb (length payload) 6 then PBadReq else
  let idx := of_le (firstn 4 payload) in
  let argc := of_le (firstn 2 (skipn 4 payload)) in
  match deser_args (N.to_nat (N.min argc COP_ARGS_MAX)) (skipn 6 payload) with
  | Some (Some vs) => PReq idx argc vs
  | Some None => PBadArg
  | None => POob
  end.

(* ---- the callee (vm_ffi_call: dlsym + marshalling) is the same code on both paths; here an arbitrary function *)
Inductive outcome := ORes (v : value) | OErr (msg : list byte).
Definition callee_t := N -> list value -> outcome.

(* handle_ffi_req: reply message for an outcome.  The result is serialized into the 4096-byte stack buffer, else into a heap
   buffer doubled from 1 MiB up to COP_REPLY_BIG_BUF (= the largest size tried, generated); a result that fits none is
   answered with FFI_ERROR and the generated text.  (Doubling tries give the same answer as one try with the largest
   buffer: CopCodecProofs.ser_buf_spec, the serializer succeeds exactly when the value fits.) *)
Definition build_reply (o : outcome) : N * list byte :=
  match o with
  | ORes r =>
      match ser_buf r COP_REPLY_STACK_BUF with
      | SOk b => (COP_MSG_FFI_RESULT, b)
      | _ => match ser_buf r COP_REPLY_BIG_BUF with
             | SOk b => (COP_MSG_FFI_RESULT, b)
             | _ => (COP_MSG_FFI_ERROR, COP_REPLY_TOO_LARGE_MSG)
             end
      end
  | OErr m => (COP_MSG_FFI_ERROR, m)
  end.

(* vm_ffi_call_cop after the header arrived: interpretation of (type, payload).  error_msg_size = 256. *)
Inductive vmres := ROk (v : value) | RErrMsg (msg : list byte) | RErrDeser | RErrType (ty : N) | RCrash.
Definition parse_reply (ty : N) (payload : list byte) : vmres :=
  if ty =? COP_MSG_FFI_RESULT then
    match payload with
    | [] => ROk VVoid
    | _ => match deser_r payload with DOk v _ => ROk v | DOob => RCrash | _ => RErrDeser end
    end
  else if ty =? COP_MSG_FFI_ERROR then RErrMsg (firstn 255 payload)
  else RErrType ty.

(* One extern call through a healthy co-process, end to end. *)
Inductive callres := CRes (v : value) | CErr (msg : list byte) | CSerFail (i : N) | COther.
Definition cop_side (f : callee_t) (payload : list byte) : N * list byte :=
  match parse_request payload with
  | PReq idx argc args => build_reply (f idx args)
  | PBadReq => (COP_MSG_FFI_ERROR, [98; 97; 100; 32; 114; 101; 113; 117; 101; 115; 116])   (* "bad request" *)
  | PBadArg => (COP_MSG_FFI_ERROR, [98; 97; 100; 32; 97; 114; 103])                          (* "bad arg" *)
  | POob => (COP_MSG_FFI_ERROR, [])
  end.
(* receive one framed message: header check of cop_recv_header, then exactly payload_len bytes *)
Definition recv_msg (stream : list byte) : option (N * list byte) :=
  match parse_header (firstn 8 stream) with
  | None => None
  | Some (ty, l) => if len (skipn 8 stream) <? l then None
                    else Some (ty, firstn (N.to_nat l) (skipn 8 stream))
  end.
Definition call_cop_cap (cap : N) (f : callee_t) (idx : N) (args : list value) : callres :=
  match build_request_cap cap idx args with
  | ReqArgFail i => CSerFail i
  | ReqOverrun => COther
  | ReqOk payload =>
      match recv_msg (frame COP_MSG_FFI_REQ payload) with            (* nano_cop main loop *)
      | Some (ty0, p0) =>
          if ty0 =? COP_MSG_FFI_REQ then
            let '(ty, rp) := cop_side f p0 in
            match recv_msg (frame ty rp) with                          (* vm_ffi_call_cop *)
            | None => COther
            | Some (ty', p') =>
                match parse_reply ty' p' with
                | ROk v => CRes v | RErrMsg m => CErr m | _ => COther
                end
            end
          else COther
      | None => COther
      end
  end.
Definition call_cop := call_cop_cap REQ_BUF_SIZE.
Definition call_inproc (f : callee_t) (idx : N) (args : list value) : callres :=
  match f idx args with ORes v => CRes v | OErr m => CErr (firstn 255 m) end.

(* boolean equality on values (for Examples and the driver) *)
Fixpoint list_N_eqb (a b : list N) : bool :=
  match a, b with [], [] => true | x :: a', y :: b' => N.eqb x y && list_N_eqb a' b' | _, _ => false end.
Fixpoint value_eqb (a b : value) : bool :=
  match a, b with
  | VVoid, VVoid => true
  | VInt x, VInt y | VFloat x, VFloat y | VOpaque x, VOpaque y | VOther x, VOther y => N.eqb x y
  | VBool x, VBool y => Bool.eqb x y
  | VStr x, VStr y => list_N_eqb x y
  | VArr e x, VArr f y =>
      N.eqb e f && (fix go (x y : list value) : bool :=
                      match x, y with [], [] => true | p :: x', q :: y' => value_eqb p q && go x' y' | _, _ => false end) x y
  | _, _ => false
  end.
